/-
  D128/Proofs/DigitsRound.lean — `Gen.digits.round` (Go: `func (d *digits) round(prec int)`).

  Monadic part (no mvcgen: the function is unfolded, its two loops are handled by a generic lemma):
  * `Dg.loop_unfold`, `Dg.scan_down`, `Dg.bind_scan`, `Dg.ok_bind`, `Dg.pure_eq_ok`, `Dg.scan_body`,
    `Dg.i64_ge_zero`        : a pure count-down `for P(i) { i-- }` loop
  * `Dg.tailUp`, `Dg.tailDown`, `Dg.round_unfold`    : the two continuations of `round` (text copied
        from the generated source and tied to `Gen.digits.round` by `round_unfold`, closed by `rfl`)
  * `Dg.UpPost`, `Dg.tailUp_ok`, `Dg.DownPost`, `Dg.tailDown_ok`, `Dg.upC`, `Dg.round_mid` :
        evaluation for `0 ≤ prec < ndig`
  Specification part:
  * `Dg.upS`, `Dg.upS_iff`, `Dg.roundSlice_eq`, `Dg.ofMsd_replicate_nine`, `Dg.round_carry`,
    `Dg.round_up`, `Dg.round_down`, `Dg.round_down0` : `Spec.roundSlice` on the four shapes
  * `Dg.msd_take`, `Dg.msd_add`, `Dg.map_range_const`, `Dg.msd_tail_const`, `Dg.msd_head`,
    `Dg.msd_getLast`, `Dg.ofMsd_msd_mod2`, `Dg.any_ne_zero_drop`, `Dg.u8_sub48` : bytes to lists
  * `Dg.upC_eq_upS`         : the code's rounding decision is the specification's
  * `Dg.RoundPost`, `Dg.round_ok` : the main theorem (`Dg.dv_ne_zero`, `Dg.ne48_of_dv` helpers)
  * `Dg.round_zero_prec`    : the `prec = 0` corner (tie with no digit kept rounds down)
-/
import D128.Proofs.Digits

set_option autoImplicit false
set_option maxRecDepth 4096
set_option linter.unusedVariables false
open Std.Do

namespace Dg


theorem loop_unfold {β : Type} (b : β) (f : Unit → β → Go.GoM (ForInStep β)) :
    forIn Lean.Loop.mk b f = (do
      match ← f () b with
      | .done val => pure val
      | .yield val => forIn Lean.Loop.mk val f) :=
  Lean.Loop.forIn_eq_of_monadTail (l := Lean.Loop.mk) (b := b) (f := f)

/-- a pure count-down scan `for P(i) { i-- }` -/
theorem scan_down (P : Int64 → Bool) (f : Unit → Int64 → Go.GoM (ForInStep Int64))
    (hf : ∀ i : Int64, -1 ≤ i.toInt → i.toInt < 39 →
      f () i = .ok (if P i then .yield (i - 1) else .done i))
    (hP : ∀ i : Int64, i.toInt = -1 → P i = false)
    (i0 : Int64) (h0 : -1 ≤ i0.toInt) (h1 : i0.toInt < 39) :
    ∃ j, forIn Lean.Loop.mk i0 f = .ok j ∧ -1 ≤ j.toInt ∧ j.toInt ≤ i0.toInt ∧ P j = false ∧
      ∀ t : Int64, j.toInt < t.toInt → t.toInt ≤ i0.toInt → P t = true := by
  generalize hm : (i0.toInt + 1).toNat = m
  induction m generalizing i0 with
  | zero =>
    have e : i0.toInt = -1 := by omega
    refine ⟨i0, ?_, h0, Int.le_refl _, hP i0 e, fun t h2 h3 => absurd h3 (by omega)⟩
    rw [loop_unfold, hf i0 h0 h1, hP i0 e]
    rfl
  | succ m ih =>
    rw [loop_unfold, hf i0 h0 h1]
    have e1 : (1 : Int64).toInt = 1 := by decide
    have em : (i0 - 1).toInt = i0.toInt - 1 := by
      rw [i64_sub _ _ (by rw [e1]; omega) (by rw [e1]; omega), e1]
    by_cases hp : P i0 = true
    · rw [if_pos hp]
      obtain ⟨j, hj, hj0, hj1, hpj, hall⟩ := ih (i0 - 1) (by omega) (by omega) (by omega)
      refine ⟨j, ?_, hj0, by omega, hpj, ?_⟩
      · exact hj
      · intro t h2 h3
        by_cases e : t.toInt = i0.toInt
        · rw [Int64.toInt_inj.mp e]; exact hp
        · exact hall t h2 (by omega)
    · rw [if_neg hp]
      exact ⟨i0, rfl, h0, Int.le_refl _, by simpa using hp, fun t h2 h3 => absurd h3 (by omega)⟩

theorem ok_bind {α β : Type} (a : α) (f : α → Go.GoM β) : (Except.ok a >>= f) = f a := rfl
theorem pure_eq_ok {α : Type} (a : α) : (pure a : Go.GoM α) = .ok a := rfl

theorem bind_scan {α : Type} (P : Int64 → Bool) (f : Unit → Int64 → Go.GoM (ForInStep Int64))
    (k : Int64 → Go.GoM α) (Q : α → Prop) (i0 : Int64)
    (hf : ∀ i : Int64, -1 ≤ i.toInt → i.toInt < 39 →
      f () i = .ok (if P i then .yield (i - 1) else .done i))
    (hP : ∀ i : Int64, i.toInt = -1 → P i = false)
    (h0 : -1 ≤ i0.toInt) (h1 : i0.toInt < 39)
    (hk : ∀ j : Int64, -1 ≤ j.toInt → j.toInt ≤ i0.toInt → P j = false →
      (∀ t : Int64, j.toInt < t.toInt → t.toInt ≤ i0.toInt → P t = true) → ∃ r, k j = .ok r ∧ Q r) :
    ∃ r, (forIn Lean.Loop.mk i0 f >>= k) = .ok r ∧ Q r := by
  obtain ⟨j, hj, a, b, c, e⟩ := scan_down P f hf hP i0 h0 h1
  rw [hj]
  exact hk j a b c e


/-- the carry scan-and-increment tail of `round` (the `up` branch; text copied from the generated
source, tied to it by `round_unfold : … := rfl`) -/
def tailUp (d : Gen.digits) (prec : Int64) : Go.GoM Gen.digits := do
  let mut d : Gen.digits := d
  let mut prec : Int64 := prec
  let mut i : Int64 := (prec - (1 : Int64))
  while true do
    let c_7 : Bool ← (if (decide (i ≥ (0 : Int64))) then (do let t_6 ← Go.vget d.dig (Go.idx i); pure (t_6 == (57 : UInt8))) else pure false)
    if !c_7 then break
    i := (i - (1 : Int64))
  if (i == (-1 : Int64)) then
    let t_8 ← Go.vset d.dig (0 : Int) (49 : UInt8)
    d := { d with dig := t_8 }
    d := { d with exp := (d.exp + d.ndig) }
    d := { d with ndig := (1 : Int64) }
  else
    let t_9 ← Go.vget d.dig (Go.idx i)
    let t_10 ← Go.vset d.dig (Go.idx i) (t_9 + (1 : UInt8))
    d := { d with dig := t_10 }
    prec := (i + (1 : Int64))
    d := { d with exp := (d.exp + (d.ndig - prec)) }
    d := { d with ndig := prec }
  return d

/-- the strip-zeros tail of `round` (the `down` branch) -/
def tailDown (d : Gen.digits) (prec : Int64) : Go.GoM Gen.digits := do
  let mut d : Gen.digits := d
  let mut prec : Int64 := prec
  let mut i_1 : Int64 := (prec - (1 : Int64))
  while true do
    let c_12 : Bool ← (if (decide (i_1 ≥ (0 : Int64))) then (do let t_11 ← Go.vget d.dig (Go.idx i_1); pure (t_11 == (48 : UInt8))) else pure false)
    if !c_12 then break
    i_1 := (i_1 - (1 : Int64))
  prec := (i_1 + (1 : Int64))
  d := { d with exp := (d.exp + (d.ndig - prec)) }
  d := { d with ndig := prec }
  return d

theorem round_unfold (d : Gen.digits) (prec : Int64) (hA : ¬ d.ndig ≤ prec) (hB : ¬ prec < 0) :
    Gen.digits.round d prec = (do
      let c_2 : Bool ← (if (d.ndig == (prec + (1 : Int64))) then (do let t_1 ← Go.vget d.dig (Go.idx prec); pure (t_1 == (53 : UInt8))) else pure false)
      if c_2 then
        let c_4 : Bool ← (if (decide (prec > (0 : Int64))) then (do let t_3 ← Go.vget d.dig (Go.idx (prec - (1 : Int64))); pure (((t_3 - (48 : UInt8)) % (2 : UInt8)) != (0 : UInt8))) else pure false)
        if c_4 then tailUp d prec else tailDown d prec
      else
        let t_5 ← Go.vget d.dig (Go.idx prec)
        if (decide (t_5 ≥ (53 : UInt8))) then tailUp d prec else tailDown d prec) := by
  unfold Gen.digits.round tailUp tailDown
  rw [if_neg (by simpa using hA), if_neg (by simpa using hB)]

theorem i64_ge_zero (i : Int64) : (i ≥ 0) ↔ 0 ≤ i.toInt := by
  show (0 : Int64) ≤ i ↔ _
  rw [Int64.le_iff_toInt_le]; rfl

/-- loop body of the two scans of `round` is a pure count-down step -/
theorem scan_body (dig : Vector UInt8 39) (K : UInt8) (i : Int64) (h0 : -1 ≤ i.toInt)
    (h1 : i.toInt < 39) :
    (do
      let c : Bool ← (if (decide (i ≥ (0 : Int64))) then (do let t ← Go.vget dig (Go.idx i); pure (t == K)) else pure false)
      if (!c) = true then pure (ForInStep.done i) else pure (ForInStep.yield (i - 1)) : Go.GoM (ForInStep Int64))
    = .ok (if (decide (0 ≤ i.toInt) && (at_ dig i.toInt.toNat == K)) = true then .yield (i - 1) else .done i) := by
  by_cases h : 0 ≤ i.toInt
  · have h' : i ≥ 0 := (i64_ge_zero i).mpr h
    rw [if_pos (by simpa using h'), vget_eq dig (Go.idx i) h (by show i.toInt.toNat < 39; omega)]
    show (if (!(at_ dig i.toInt.toNat == K)) = true then pure (ForInStep.done i) else pure (ForInStep.yield (i - 1)) : Go.GoM (ForInStep Int64)) = _
    cases (at_ dig i.toInt.toNat == K) <;> simp [h] <;> rfl
  · have h' : ¬ i ≥ 0 := fun e => h ((i64_ge_zero i).mp e)
    rw [if_neg (by simpa using h')]
    simp [h]; rfl

/-- outcome of the `up` tail: `j` is the position that receives the carry (`-1`: all nines) -/
def UpPost (d : Gen.digits) (prec : Int64) (r : Gen.digits) : Prop :=
  ∃ j : Int64, -1 ≤ j.toInt ∧ j.toInt < prec.toInt ∧
    (∀ t : Nat, j.toInt < (t : Int) → (t : Int) < prec.toInt → at_ d.dig t = 57) ∧
    (0 ≤ j.toInt → at_ d.dig j.toInt.toNat ≠ 57) ∧ r.neg = d.neg ∧
    (if j.toInt = -1 then
      (∀ t, at_ r.dig t = if t = 0 then 49 else at_ d.dig t) ∧ r.exp = d.exp + d.ndig ∧ r.ndig = 1
    else
      (∀ t, at_ r.dig t = if t = j.toInt.toNat then at_ d.dig j.toInt.toNat + 1 else at_ d.dig t) ∧
        r.exp = d.exp + (d.ndig - (j + 1)) ∧ r.ndig = j + 1)

theorem tailUp_ok (d : Gen.digits) (prec : Int64) (hp0 : 0 ≤ prec.toInt) (hp1 : prec.toInt ≤ 39) :
    ∃ r, tailUp d prec = .ok r ∧ UpPost d prec r := by
  unfold tailUp
  have e1 : (1 : Int64).toInt = 1 := by decide
  have ep : (prec - 1).toInt = prec.toInt - 1 := by
    rw [i64_sub _ _ (by rw [e1]; omega) (by rw [e1]; omega), e1]
  refine bind_scan (fun i => decide (0 ≤ i.toInt) && (at_ d.dig i.toInt.toNat == 57)) _ _ _ _
    ?hf ?hP ?h0 ?h1 ?hk
  case hf =>
    intro i h0 h1
    exact scan_body d.dig 57 i h0 h1
  case hP => intro i h; simp [h]
  case h0 => omega
  case h1 => omega
  case hk =>
    intro j hj0 hj1 hPj hall
    have hall' : ∀ t : Nat, j.toInt < (t : Int) → (t : Int) < prec.toInt → at_ d.dig t = 57 := by
      intro t h2 h3
      have et : (Int64.ofInt (t : Int)).toInt = (t : Int) := by
        rw [Int64.toInt_ofInt]; exact bmod64 _ (by omega) (by omega)
      have := hall (Int64.ofInt (t : Int)) (by rw [et]; exact h2) (by rw [et, ep]; omega)
      rw [et] at this
      simp only [Bool.and_eq_true, decide_eq_true_eq, beq_iff_eq, Int.toNat_natCast] at this
      exact this.2
    have hnot : 0 ≤ j.toInt → at_ d.dig j.toInt.toNat ≠ 57 := by
      intro h e
      rw [e] at hPj
      simp [h] at hPj
    dsimp only
    by_cases hj : j.toInt = -1
    · have hjeq : j = -1 := Int64.toInt_inj.mp (by rw [hj]; decide)
      rw [if_pos (by simp [hjeq])]
      rw [vset_eq d.dig 0 49 (by decide) (by decide)]
      refine ⟨_, rfl, j, hj0, by omega, hall', hnot, rfl, ?_⟩
      rw [if_pos hj]
      exact ⟨fun t => by rw [at_set]; rfl, rfl, rfl⟩
    · have hjne : ¬ (j == -1) = true := by
        intro e; apply hj; rw [beq_iff_eq] at e; rw [e]; decide
      rw [if_neg hjne]
      have hidx0 : (0 : Int) ≤ Go.idx j := by show 0 ≤ j.toInt; omega
      have hidx1 : (Go.idx j).toNat < 39 := by show j.toInt.toNat < 39; omega
      rw [vget_eq d.dig (Go.idx j) hidx0 hidx1]
      rw [ok_bind, vset_eq d.dig (Go.idx j) _ hidx0 hidx1]
      refine ⟨_, rfl, j, hj0, by omega, hall', hnot, rfl, ?_⟩
      rw [if_neg hj]
      exact ⟨fun t => by rw [at_set]; rfl, rfl, rfl⟩

/-- outcome of the `down` tail: `j` is the last kept non-zero position (`-1`: nothing is kept) -/
def DownPost (d : Gen.digits) (prec : Int64) (r : Gen.digits) : Prop :=
  ∃ j : Int64, -1 ≤ j.toInt ∧ j.toInt < prec.toInt ∧
    (∀ t : Nat, j.toInt < (t : Int) → (t : Int) < prec.toInt → at_ d.dig t = 48) ∧
    (0 ≤ j.toInt → at_ d.dig j.toInt.toNat ≠ 48) ∧ r.neg = d.neg ∧ r.dig = d.dig ∧
    r.exp = d.exp + (d.ndig - (j + 1)) ∧ r.ndig = j + 1

theorem tailDown_ok (d : Gen.digits) (prec : Int64) (hp0 : 0 ≤ prec.toInt) (hp1 : prec.toInt ≤ 39) :
    ∃ r, tailDown d prec = .ok r ∧ DownPost d prec r := by
  unfold tailDown
  have e1 : (1 : Int64).toInt = 1 := by decide
  have ep : (prec - 1).toInt = prec.toInt - 1 := by
    rw [i64_sub _ _ (by rw [e1]; omega) (by rw [e1]; omega), e1]
  refine bind_scan (fun i => decide (0 ≤ i.toInt) && (at_ d.dig i.toInt.toNat == 48)) _ _ _ _
    ?hf ?hP ?h0 ?h1 ?hk
  case hf =>
    intro i h0 h1
    exact scan_body d.dig 48 i h0 h1
  case hP => intro i h; simp [h]
  case h0 => omega
  case h1 => omega
  case hk =>
    intro j hj0 hj1 hPj hall
    have hall' : ∀ t : Nat, j.toInt < (t : Int) → (t : Int) < prec.toInt → at_ d.dig t = 48 := by
      intro t h2 h3
      have et : (Int64.ofInt (t : Int)).toInt = (t : Int) := by
        rw [Int64.toInt_ofInt]; exact bmod64 _ (by omega) (by omega)
      have := hall (Int64.ofInt (t : Int)) (by rw [et]; exact h2) (by rw [et, ep]; omega)
      rw [et] at this
      simp only [Bool.and_eq_true, decide_eq_true_eq, beq_iff_eq, Int.toNat_natCast] at this
      exact this.2
    have hnot : 0 ≤ j.toInt → at_ d.dig j.toInt.toNat ≠ 48 := by
      intro h e
      rw [e] at hPj
      simp [h] at hPj
    exact ⟨_, rfl, j, hj0, by omega, hall', hnot, rfl, rfl, rfl, rfl⟩

/-- the rounding decision of the code -/
def upC (d : Gen.digits) (prec : Int64) : Bool :=
  if ((d.ndig == prec + 1) && (at_ d.dig prec.toInt.toNat == 53)) = true then
    decide (prec > 0) && ((at_ d.dig (prec.toInt.toNat - 1) - 48) % 2 != 0)
  else decide (at_ d.dig prec.toInt.toNat ≥ 53)

theorem round_mid (d : Gen.digits) (prec : Int64) (hn : d.ndig.toInt ≤ 39) (hp0 : 0 ≤ prec.toInt)
    (hpn : prec.toInt < d.ndig.toInt) :
    ∃ r, Gen.digits.round d prec = .ok r ∧
      (if upC d prec = true then UpPost d prec r else DownPost d prec r) := by
  have hA : ¬ d.ndig ≤ prec := by rw [Int64.le_iff_toInt_le]; omega
  have hB : ¬ prec < 0 := by
    rw [Int64.lt_iff_toInt_lt]; show ¬ prec.toInt < (0 : Int64).toInt
    have : (0 : Int64).toInt = 0 := by decide
    omega
  have e1 : (1 : Int64).toInt = 1 := by decide
  have hi0 : (0 : Int) ≤ Go.idx prec := hp0
  have hi1 : (Go.idx prec).toNat < 39 := by show prec.toInt.toNat < 39; omega
  have hup := tailUp_ok d prec hp0 (by omega)
  have hdn := tailDown_ok d prec hp0 (by omega)
  rw [round_unfold d prec hA hB]
  by_cases h1 : (d.ndig == prec + 1) = true
  · rw [if_pos h1, vget_eq d.dig (Go.idx prec) hi0 hi1]
    show ∃ r, (if (at_ d.dig prec.toInt.toNat == 53) = true then _ else _) = _ ∧ _
    by_cases h2 : (at_ d.dig prec.toInt.toNat == 53) = true
    · rw [if_pos h2]
      by_cases h3 : prec > 0
      · have h3' : 0 < prec.toInt := by
          have := Int64.lt_iff_toInt_lt.mp h3
          have e0 : (0 : Int64).toInt = 0 := by decide
          omega
        have ep : (prec - 1).toInt = prec.toInt - 1 := by
          rw [i64_sub _ _ (by rw [e1]; omega) (by rw [e1]; omega), e1]
        rw [if_pos (by simpa using h3), vget_eq d.dig (Go.idx (prec - 1))
          (by show 0 ≤ (prec - 1).toInt; omega) (by show (prec - 1).toInt.toNat < 39; omega)]
        have eidx : (Go.idx (prec - 1)).toNat = prec.toInt.toNat - 1 := by
          show (prec - 1).toInt.toNat = _; omega
        have hu : upC d prec = ((at_ d.dig (prec.toInt.toNat - 1) - 48) % 2 != 0) := by
          simp only [upC, h1, h2, Bool.and_self, if_true, decide_eq_true h3, Bool.true_and]
        rw [hu, eidx]
        show ∃ r, (if ((at_ d.dig (prec.toInt.toNat - 1) - 48) % 2 != 0) = true then _ else _) = _ ∧ _
        split
        · exact hup
        · exact hdn
      · rw [if_neg (by simpa using h3)]
        have hu : upC d prec = false := by
          simp only [upC, h1, h2, Bool.and_self, if_true, decide_eq_false h3, Bool.false_and]
        rw [hu]
        exact hdn
    · rw [if_neg h2]
      have hu : upC d prec = decide (at_ d.dig prec.toInt.toNat ≥ 53) := by
        have h2' : (at_ d.dig prec.toInt.toNat == 53) = false := by simpa using h2
        simp only [upC, h1, h2', Bool.and_false, Bool.false_eq_true, if_false]
      rw [hu]
      show ∃ r, (if decide (at_ d.dig prec.toInt.toNat ≥ 53) = true then _ else _) = _ ∧ _
      split
      · exact hup
      · exact hdn
  · rw [if_neg h1]
    have hu : upC d prec = decide (at_ d.dig prec.toInt.toNat ≥ 53) := by
      have h1' : (d.ndig == prec + 1) = false := by simpa using h1
      simp only [upC, h1', Bool.false_and, Bool.false_eq_true, if_false]
    rw [hu, vget_eq d.dig (Go.idx prec) hi0 hi1]
    show ∃ r, (if decide (at_ d.dig prec.toInt.toNat ≥ 53) = true then _ else _) = _ ∧ _
    split
    · exact hup
    · exact hdn


/-! ## specification side -/


/-- the rounding decision of `Spec.roundSlice` -/
def upS (M : List Nat) (P : Nat) : Bool :=
  let dropped := M.drop P
  let first := dropped.headD 0
  let restNonzero := (dropped.drop 1).any (· != 0)
  decide (first > 5) || (first == 5 && (restNonzero || ofMsd (M.take P) % 2 == 1))

theorem roundSlice_eq (M : List Nat) (dp : Int) (P : Nat) (h : P < M.length) :
    Spec.roundSlice ⟨M, dp⟩ P =
      (let m := if upS M P then ofMsd (M.take P) + 1 else ofMsd (M.take P)
       if m == 0 then ⟨[], 0⟩ else
         ⟨Spec.stripTrailingZeros (Spec.natDigits m),
          if P == 0 then dp + 1 else (if (Spec.natDigits m).length > P then dp + 1 else dp)⟩) := by
  unfold Spec.roundSlice
  have : ¬ P ≥ M.length := by omega
  simp only [this, if_false]
  rfl

theorem ofMsd_replicate_nine (r : Nat) : ofMsd (List.replicate r 9) + 1 = 10 ^ r := by
  induction r with
  | zero => rfl
  | succ r ih =>
    rw [List.replicate_succ, ofMsd_cons, List.length_replicate, Nat.pow_succ]
    omega

theorem round_carry (M : List Nat) (dp : Int) (P : Nat) (h : P < M.length) (hup : upS M P = true)
    (h9 : M.take P = List.replicate P 9) : Spec.roundSlice ⟨M, dp⟩ P = ⟨[1], dp + 1⟩ := by
  rw [roundSlice_eq M dp P h]
  simp only [hup, if_true]
  have hm : ofMsd (M.take P) + 1 = ofMsd (1 :: List.replicate P 0) := by
    rw [h9, ofMsd_replicate_nine, ofMsd_cons, ofMsd_replicate_zero, List.length_replicate]; simp
  have hnd : Spec.natDigits (ofMsd (1 :: List.replicate P 0)) = 1 :: List.replicate P 0 := by
    apply natDigits_ofMsd
    · intro x hx
      rcases List.mem_cons.mp hx with e | e
      · omega
      · rw [(List.mem_replicate.mp e).2]; decide
    · simp
  have hne : ofMsd (1 :: List.replicate P 0) ≠ 0 := by
    have := ofMsd_pos 1 (List.replicate P 0) (by decide)
    have := Nat.pow_pos (n := (List.replicate P 0).length) (show 0 < 10 by decide)
    omega
  rw [hm, hnd]
  have hs : Spec.stripTrailingZeros (1 :: List.replicate P 0) = [1] :=
    strip_append_zeros [1] P (by simp)
  simp only [beq_iff_eq, hne, if_false, hs, List.length_cons, List.length_replicate]
  congr 1
  split
  · rfl
  · rw [if_pos (by omega)]

theorem round_up (M : List Nat) (dp : Int) (P : Nat) (A : List Nat) (x r : Nat) (h : P < M.length)
    (hup : upS M P = true) (hP : M.take P = A ++ [x] ++ List.replicate r 9) (hx : x < 9)
    (hA : ∀ y ∈ A, y < 10) (hh : (A ++ [x + 1]).head? ≠ some 0) :
    Spec.roundSlice ⟨M, dp⟩ P = ⟨A ++ [x + 1], dp⟩ := by
  rw [roundSlice_eq M dp P h]
  simp only [hup, if_true]
  have hlen : P = A.length + 1 + r := by
    have := congrArg List.length hP
    simp only [List.length_take, List.length_append, List.length_cons, List.length_nil,
      List.length_replicate] at this
    omega
  have hm : ofMsd (M.take P) + 1 = ofMsd (A ++ [x + 1] ++ List.replicate r 0) := by
    rw [hP, ofMsd_append, ofMsd_append (A ++ [x + 1]), ofMsd_replicate_zero, ofMsd_snoc, ofMsd_snoc,
      List.length_replicate, List.length_replicate]
    have := ofMsd_replicate_nine r
    have hp := Nat.pow_pos (n := r) (show 0 < 10 by decide)
    generalize ofMsd (List.replicate r 9) = n9 at *
    generalize 10 ^ r = p at *
    generalize ofMsd A = a
    have : n9 = p - 1 := by omega
    subst this
    have : (a * 10 + x) * p + (p - 1) + 1 = (a * 10 + x) * p + p := by omega
    rw [this]; ring
  have hnd : Spec.natDigits (ofMsd (A ++ [x + 1] ++ List.replicate r 0)) =
      A ++ [x + 1] ++ List.replicate r 0 := by
    apply natDigits_ofMsd
    · intro y hy
      rcases List.mem_append.mp hy with e | e
      · rcases List.mem_append.mp e with e | e
        · exact hA y e
        · have : y = x + 1 := by simpa using e
          omega
      · rw [(List.mem_replicate.mp e).2]; decide
    · cases A with
      | nil => simp
      | cons a as => simpa using hh
  have hne : ofMsd (A ++ [x + 1] ++ List.replicate r 0) ≠ 0 := by
    rw [ofMsd_append, ofMsd_replicate_zero, ofMsd_snoc]
    have hp := Nat.pow_pos (n := (List.replicate r 0).length) (show 0 < 10 by decide)
    have : 0 < (ofMsd A * 10 + (x + 1)) * 10 ^ (List.replicate r 0).length :=
      Nat.mul_pos (by omega) hp
    omega
  rw [hm, hnd]
  have hs : Spec.stripTrailingZeros (A ++ [x + 1] ++ List.replicate r 0) = A ++ [x + 1] :=
    strip_append_zeros (A ++ [x + 1]) r (by simp)
  simp only [beq_iff_eq, hne, if_false, hs, List.length_append, List.length_cons, List.length_nil,
    List.length_replicate]
  congr 1
  rw [if_neg (by omega), if_neg (by omega)]

theorem round_down0 (M : List Nat) (dp : Int) (h : 0 < M.length) (hdn : upS M 0 = false) :
    Spec.roundSlice ⟨M, dp⟩ 0 = ⟨[], 0⟩ := by
  rw [roundSlice_eq M dp 0 h]
  simp [hdn]

theorem round_down (M : List Nat) (dp : Int) (P : Nat) (A : List Nat) (x r : Nat) (h : P < M.length)
    (hdn : upS M P = false) (hP : M.take P = A ++ [x] ++ List.replicate r 0) (hx : x ≠ 0)
    (h10 : ∀ y ∈ M.take P, y < 10) (hh : (M.take P).head? ≠ some 0) :
    Spec.roundSlice ⟨M, dp⟩ P = ⟨A ++ [x], dp⟩ := by
  rw [roundSlice_eq M dp P h]
  simp only [hdn, Bool.false_eq_true, if_false]
  have hlen : P = A.length + 1 + r := by
    have := congrArg List.length hP
    simp only [List.length_take, List.length_append, List.length_cons, List.length_nil,
      List.length_replicate] at this
    omega
  have hnd : Spec.natDigits (ofMsd (M.take P)) = M.take P := natDigits_ofMsd _ h10 hh
  have hne : ofMsd (M.take P) ≠ 0 := by
    rw [hP, ofMsd_append, ofMsd_replicate_zero, ofMsd_snoc]
    have hp := Nat.pow_pos (n := (List.replicate r 0).length) (show 0 < 10 by decide)
    have : 0 < (ofMsd A * 10 + x) * 10 ^ (List.replicate r 0).length :=
      Nat.mul_pos (by omega) hp
    omega
  rw [hnd]
  have hs : Spec.stripTrailingZeros (M.take P) = A ++ [x] := by
    rw [hP]; exact strip_append_zeros (A ++ [x]) r (by simpa using hx)
  simp only [beq_iff_eq, hne, if_false, hs]
  congr 1
  have : (M.take P).length = P := by rw [List.length_take]; omega
  rw [if_neg (by omega), if_neg (by omega)]

/-! ## from bytes to lists -/

theorem msd_take {m : Nat} (dig : Vector UInt8 m) (n P : Nat) (h : P ≤ n) :
    (msd dig n).take P = msd dig P := by
  unfold msd
  rw [← List.map_take, List.take_range, Nat.min_eq_left h]

theorem msd_add {m : Nat} (dig : Vector UInt8 m) (a b : Nat) :
    msd dig (a + b) = msd dig a ++ (List.range b).map (fun t => dv (at_ dig (a + t))) := by
  induction b with
  | zero => simp [msd]
  | succ b ih =>
    rw [← Nat.add_assoc, msd_succ, ih, List.range_succ, List.map_append, List.append_assoc]
    rfl

theorem map_range_const (f : Nat → Nat) (b c : Nat) (h : ∀ t, t < b → f t = c) :
    (List.range b).map f = List.replicate b c := by
  apply List.ext_getElem
  · simp
  · intro i h1 h2
    simp only [List.getElem_map, List.getElem_range, List.getElem_replicate]
    exact h i (by simpa using h1)

/-- the digits `dig[j+1..P)` are all equal to the byte `K` -/
theorem msd_tail_const {m : Nat} (dig : Vector UInt8 m) (j1 P : Nat) (K : UInt8) (h : j1 ≤ P)
    (hall : ∀ t, j1 ≤ t → t < P → at_ dig t = K) :
    msd dig P = msd dig j1 ++ List.replicate (P - j1) (dv K) := by
  have e : P = j1 + (P - j1) := by omega
  rw [e, msd_add, ← e]
  congr 1
  apply map_range_const
  intro t ht
  rw [hall (j1 + t) (by omega) (by omega)]

theorem msd_head {m : Nat} (dig : Vector UInt8 m) (n : Nat) (h : 0 < n) :
    (msd dig n).head? = some (dv (at_ dig 0)) := by
  obtain ⟨k, rfl⟩ : ∃ k, n = k + 1 := ⟨n - 1, by omega⟩
  simp [msd, List.range_succ_eq_map]

theorem msd_getLast {m : Nat} (dig : Vector UInt8 m) (n : Nat) (h : 0 < n) :
    (msd dig n).getLast? = some (dv (at_ dig (n - 1))) := by
  obtain ⟨k, rfl⟩ : ∃ k, n = k + 1 := ⟨n - 1, by omega⟩
  rw [msd_succ, List.getLast?_concat]; rfl

theorem ofMsd_msd_mod2 {m : Nat} (dig : Vector UInt8 m) (P : Nat) :
    ofMsd (msd dig P) % 2 = if P = 0 then 0 else dv (at_ dig (P - 1)) % 2 := by
  cases P with
  | zero => rfl
  | succ k =>
    rw [msd_succ, ofMsd_snoc, if_neg (by omega)]
    simp only [Nat.add_sub_cancel]
    omega

theorem upS_iff (M : List Nat) (P : Nat) :
    upS M P = true ↔ (M.drop P).headD 0 > 5 ∨ ((M.drop P).headD 0 = 5 ∧
      (((M.drop P).drop 1).any (· != 0) = true ∨ ofMsd (M.take P) % 2 = 1)) := by
  unfold upS
  simp only [Bool.or_eq_true, decide_eq_true_eq, Bool.and_eq_true, beq_iff_eq]

theorem any_ne_zero_drop (M : List Nat) (k : Nat) (hl : M.getLast? ≠ some 0) :
    (M.drop k).any (· != 0) = decide (k < M.length) := by
  by_cases h : k < M.length
  · rw [decide_eq_true h, List.any_eq_true]
    have hne : M ≠ [] := by intro e; rw [e] at h; simp at h
    refine ⟨M.getLast hne, ?_, ?_⟩
    · rw [← List.getLast_drop (by simpa using h)]
      exact List.getLast_mem _
    · have : M.getLast? = some (M.getLast hne) := List.getLast?_eq_some_getLast hne
      rw [this] at hl
      simpa using fun e => hl (by rw [e])
  · rw [decide_eq_false h, List.drop_eq_nil_of_le (by omega)]; rfl

theorem u8_sub48 (y : UInt8) (h : 48 ≤ y.toNat) : ((y - 48) % 2 != 0) = decide (dv y % 2 = 1) := by
  have e : ((y - 48) % 2).toNat = dv y % 2 := by
    rw [UInt8.toNat_mod, UInt8.toNat_sub_of_le _ _ (by rw [UInt8.le_iff_toNat_le]; exact h)]; rfl
  by_cases c : dv y % 2 = 1
  · rw [decide_eq_true c]
    simp only [bne_iff_ne, ne_eq]
    intro e0; rw [e0] at e; simp at e; omega
  · rw [decide_eq_false c]
    have : ((y - 48) % 2).toNat = 0 := by omega
    have : (y - 48) % 2 = 0 := UInt8.toNat_inj.mp this
    simp [this]

theorem upC_eq_upS (d : Gen.digits) (prec : Int64) (hwf : WF d) (hp0 : 0 ≤ prec.toInt)
    (hpn : prec.toInt < d.ndig.toInt) :
    upC d prec = upS (msd d.dig d.ndig.toInt.toNat) prec.toInt.toNat := by
  obtain ⟨hn0, hn39, hdig, hfirst, hlast⟩ := hwf
  generalize hP : prec.toInt.toNat = P
  generalize hn : d.ndig.toInt.toNat = n at *
  have hPn : P < n := by omega
  have hb := hdig P hPn
  have hl : (msd d.dig n).getLast? ≠ some 0 := by
    rw [msd_getLast _ _ (by omega)]
    have h1 := hlast (by omega)
    have h2 := hdig (n - 1) (by omega)
    unfold isDig at h2
    intro e
    have : dv (at_ d.dig (n - 1)) = 0 := Option.some.inj e
    unfold dv at this
    apply h1; apply UInt8.toNat_inj.mp
    show (at_ d.dig (n - 1)).toNat = 48; omega
  have hfirstD : ((msd d.dig n).drop P).headD 0 = dv (at_ d.dig P) := by
    rw [List.headD_eq_head?_getD, List.head?_drop, List.getElem?_eq_getElem (by rw [msd_length]; exact hPn),
      msd_getElem]; rfl
  have hrest : (((msd d.dig n).drop P).drop 1).any (· != 0) = decide (P + 1 < n) := by
    rw [List.drop_drop, any_ne_zero_drop _ _ hl, msd_length]
  have hkept : ofMsd ((msd d.dig n).take P) % 2 = if P = 0 then 0 else dv (at_ d.dig (P - 1)) % 2 := by
    rw [msd_take _ _ _ (by omega), ofMsd_msd_mod2]
  apply Bool.eq_iff_iff.mpr
  rw [upS_iff, hfirstD, hrest, hkept]
  unfold upC
  rw [hP]
  have e1 : (1 : Int64).toInt = 1 := by decide
  have hp1 : (prec + 1).toInt = prec.toInt + 1 := by
    rw [i64_add _ _ (by rw [e1]; omega) (by rw [e1]; omega), e1]
  have hc1 : (d.ndig == prec + 1) = decide (n = P + 1) := by
    by_cases c : n = P + 1
    · rw [decide_eq_true c, beq_iff_eq]; apply Int64.toInt_inj.mp; rw [hp1]; omega
    · rw [decide_eq_false c]
      have : ¬ d.ndig = prec + 1 := by
        intro e; apply c; have := congrArg Int64.toInt e; rw [hp1] at this; omega
      simpa using this
  have hc2 : (at_ d.dig P == 53) = decide (dv (at_ d.dig P) = 5) := by
    unfold isDig at hb
    by_cases c : dv (at_ d.dig P) = 5
    · rw [decide_eq_true c, beq_iff_eq]; apply UInt8.toNat_inj.mp
      unfold dv at c; show (at_ d.dig P).toNat = 53; omega
    · rw [decide_eq_false c]
      have : ¬ at_ d.dig P = 53 := by
        intro e; apply c; rw [e]; rfl
      simpa using this
  have hc3 : decide (at_ d.dig P ≥ 53) = decide (dv (at_ d.dig P) ≥ 5) := by
    unfold isDig at hb
    congr 1; apply propext
    show (53 : UInt8) ≤ at_ d.dig P ↔ _
    rw [UInt8.le_iff_toNat_le]; unfold dv
    show 53 ≤ (at_ d.dig P).toNat ↔ _; omega
  have hc4 : decide (prec > 0) = decide (0 < P) := by
    congr 1; apply propext
    show (0 : Int64) < prec ↔ _
    rw [Int64.lt_iff_toInt_lt]
    have : (0 : Int64).toInt = 0 := by decide
    omega
  rw [hc1, hc2, hc3, hc4]
  by_cases cP : 0 < P
  · have hb' := hdig (P - 1) (by omega)
    unfold isDig at hb'
    rw [u8_sub48 _ hb'.1]
    have hf10 : dv (at_ d.dig P) < 10 := by unfold isDig at hb; unfold dv; omega
    rw [if_neg (show ¬ P = 0 by omega)]
    by_cases c1 : n = P + 1 <;> by_cases c2 : dv (at_ d.dig P) = 5 <;>
      simp [c1, c2, cP] <;> omega
  · have hP0 : P = 0 := by omega
    subst hP0
    by_cases c1 : n = 0 + 1 <;> by_cases c2 : dv (at_ d.dig 0) = 5 <;>
      simp [c1, c2] <;> omega

/-! ## the main theorem -/


/-- post-condition of `round`: sign kept, record well-formed, and
* `prec < 0`: exactly `exp += ndig; ndig = 0`;
* `0 ≤ prec`: the digits are those of `Spec.roundSlice (slice d) prec`, and so is the point
  position — except when the result is zero, where the code keeps `dp = exp + ndig` of the
  input (the specification normalises zero to `dp = 0`). -/
def RoundPost (d : Gen.digits) (prec : Int64) (r : Gen.digits) : Prop :=
  r.neg = d.neg ∧ WF r ∧
  (prec.toInt < 0 → r = { neg := d.neg, dig := d.dig, exp := d.exp + d.ndig, ndig := 0 }) ∧
  (0 ≤ prec.toInt →
    (slice r).ds = (Spec.roundSlice (slice d) prec.toInt.toNat).ds ∧
    (slice r).dp = if (Spec.roundSlice (slice d) prec.toInt.toNat).ds = [] then (slice d).dp
      else (Spec.roundSlice (slice d) prec.toInt.toNat).dp)

theorem dv_ne_zero {y : UInt8} (h : isDig y) (h0 : y ≠ 48) : dv y ≠ 0 := by
  unfold isDig at h; unfold dv
  intro e; apply h0; apply UInt8.toNat_inj.mp
  show y.toNat = 48; omega

theorem ne48_of_dv {y : UInt8} (h : dv y ≠ 0) : y ≠ 48 := by
  intro e; rw [e] at h; exact h rfl

theorem round_ok (d : Gen.digits) (prec : Int64) (hwf : WF d) (hexp : ExpOK d) :
    ∃ r, Gen.digits.round d prec = .ok r ∧ RoundPost d prec r := by
  have hwf' := hwf
  obtain ⟨hn0, hn39, hdig, hfirst, hlast⟩ := hwf
  obtain ⟨hx0, hx1⟩ := hexp
  have e0 : (0 : Int64).toInt = 0 := by decide
  have e1 : (1 : Int64).toInt = 1 := by decide
  have hexpadd : ∀ k : Int64, -100 ≤ k.toInt → k.toInt ≤ 100 →
      (d.exp + k).toInt = d.exp.toInt + k.toInt :=
    fun k h1 h2 => i64_add _ _ (by omega) (by omega)
  by_cases hA : d.ndig ≤ prec
  · -- nothing to round
    have hA' : d.ndig.toInt ≤ prec.toInt := Int64.le_iff_toInt_le.mp hA
    refine ⟨d, ?_, rfl, hwf', fun h => absurd h (by omega), fun _ => ?_⟩
    · unfold Gen.digits.round; rw [if_pos (by simpa using hA)]; rfl
    · have : Spec.roundSlice (slice d) prec.toInt.toNat = slice d := by
        unfold Spec.roundSlice
        rw [if_pos]
        show prec.toInt.toNat ≥ (msd d.dig d.ndig.toInt.toNat).length
        rw [msd_length]; omega
      rw [this]
      exact ⟨rfl, by split <;> rfl⟩
  by_cases hB : prec < 0
  · have hB' : prec.toInt < 0 := by have := Int64.lt_iff_toInt_lt.mp hB; omega
    refine ⟨{ neg := d.neg, dig := d.dig, exp := d.exp + d.ndig, ndig := 0 }, ?_, rfl, ?_,
      fun _ => rfl, fun h => absurd h (by omega)⟩
    · unfold Gen.digits.round
      rw [if_neg (by simpa using hA), if_pos (by simpa using hB)]; rfl
    · exact ⟨by show 0 ≤ (0 : Int64).toInt; omega, by show (0 : Int64).toInt ≤ 39; omega,
        fun t ht => absurd ht (by show ¬ t < (0 : Int64).toInt.toNat; omega),
        fun h => absurd h (by show ¬ 0 < (0 : Int64).toInt; omega),
        fun h => absurd h (by show ¬ 0 < (0 : Int64).toInt; omega)⟩
  have hp0 : 0 ≤ prec.toInt := by
    have := Int64.lt_iff_toInt_lt (x := prec) (y := 0); rw [e0] at this
    by_cases c : prec.toInt < 0
    · exact absurd (this.mpr c) hB
    · omega
  have hpn : prec.toInt < d.ndig.toInt := by
    have := Int64.le_iff_toInt_le (x := d.ndig) (y := prec)
    by_cases c : d.ndig.toInt ≤ prec.toInt
    · exact absurd (this.mpr c) hA
    · omega
  obtain ⟨r, hr, hpost⟩ := round_mid d prec hn39 hp0 hpn
  refine ⟨r, hr, ?_⟩
  rw [upC_eq_upS d prec hwf' hp0 hpn] at hpost
  unfold RoundPost
  generalize hP : prec.toInt.toNat = P at *
  generalize hn : d.ndig.toInt.toNat = n at *
  have hPn : P < n := by omega
  have hPlen : P < (msd d.dig n).length := by rw [msd_length]; exact hPn
  have hsl : slice d = ⟨msd d.dig n, d.exp.toInt + d.ndig.toInt⟩ := by
    unfold slice; rw [hn]
  have hd0 : dv (at_ d.dig 0) ≠ 0 := dv_ne_zero (hdig 0 (by omega)) (hfirst (by omega))
  have hM10 := msd_lt10 d.dig n hdig
  have htake : (msd d.dig n).take P = msd d.dig P := msd_take _ _ _ (by omega)
  rw [hsl]
  by_cases hup : upS (msd d.dig n) P = true
  · rw [if_pos hup] at hpost
    obtain ⟨j, hj0, hj1, hall, hnot, hneg, hcase⟩ := hpost
    by_cases hj : j.toInt = -1
    · -- all kept digits are nines: 9…9 → 1
      rw [if_pos hj] at hcase
      obtain ⟨hrd, hre, hrn⟩ := hcase
      have h9 : (msd d.dig n).take P = List.replicate P 9 := by
        rw [htake, msd_tail_const d.dig 0 P 57 (by omega)
          (fun t _ ht => hall t (by omega) (by omega))]
        have e9 : dv 57 = 9 := rfl
        rw [e9]; simp [msd]
      rw [round_carry _ _ P hPlen hup h9]
      have hrn' : r.ndig.toInt = 1 := by rw [hrn]; exact e1
      have hr0 : at_ r.dig 0 = 49 := by rw [hrd 0]; simp
      refine ⟨hneg, ⟨by omega, by omega, ?_, ?_, ?_⟩, fun h => absurd h (by omega), fun _ => ⟨?_, ?_⟩⟩
      · intro t ht
        have : t = 0 := by omega
        subst this; rw [hr0]; unfold isDig; decide
      · intro _; rw [hr0]; decide
      · intro _; rw [hrn']; show at_ r.dig 0 ≠ 48; rw [hr0]; decide
      · show msd r.dig r.ndig.toInt.toNat = [1]
        rw [hrn']; show [dv (at_ r.dig 0)] = [1]
        rw [hr0]; rfl
      · show r.exp.toInt + r.ndig.toInt = _
        rw [if_neg (by simp), hrn', hre, hexpadd _ (by omega) (by omega)]
    · -- the carry stops at position j
      rw [if_neg hj] at hcase
      obtain ⟨hrd, hre, hrn⟩ := hcase
      generalize hJ : j.toInt.toNat = J at *
      have hJP : J < P := by omega
      have hyd := hdig J (by omega)
      have hy57 : at_ d.dig J ≠ 57 := hnot (by omega)
      have hy56 : (at_ d.dig J).toNat ≤ 56 := by
        unfold isDig at hyd
        have : (at_ d.dig J).toNat ≠ 57 := fun e => hy57 (UInt8.toNat_inj.mp e)
        omega
      have hy1 : (at_ d.dig J + 1).toNat = (at_ d.dig J).toNat + 1 := by
        rw [UInt8.toNat_add]; show ((at_ d.dig J).toNat + 1) % 256 = _; omega
      have hxdv : dv (at_ d.dig J + 1) = dv (at_ d.dig J) + 1 := by
        unfold dv; unfold isDig at hyd; rw [hy1]; omega
      have hPsplit : (msd d.dig n).take P =
          msd d.dig J ++ [dv (at_ d.dig J)] ++ List.replicate (P - (J + 1)) 9 := by
        rw [htake, msd_tail_const d.dig (J + 1) P 57 (by omega)
          (fun t h1 ht => hall t (by omega) (by omega)), msd_succ]
        rfl
      have hx9 : dv (at_ d.dig J) < 9 := by unfold dv; unfold isDig at hyd; omega
      have hhead : (msd d.dig J ++ [dv (at_ d.dig J) + 1]).head? ≠ some 0 := by
        by_cases cJ : J = 0
        · subst cJ; simp [msd]
        · rw [List.head?_append, msd_head _ _ (by omega)]
          intro e; exact hd0 (Option.some.inj (by simpa using e))
      rw [round_up _ _ P (msd d.dig J) (dv (at_ d.dig J)) (P - (J + 1)) hPlen hup hPsplit hx9
        (msd_lt10 d.dig J (fun t ht => hdig t (by omega))) hhead]
      have hj1' : (j + 1).toInt = j.toInt + 1 := by
        rw [i64_add _ _ (by rw [e1]; omega) (by rw [e1]; omega), e1]
      have hrn' : r.ndig.toInt = (J : Int) + 1 := by rw [hrn, hj1']; omega
      have hrnat : r.ndig.toInt.toNat = J + 1 := by omega
      have hrJ : at_ r.dig J = at_ d.dig J + 1 := by rw [hrd J]; simp
      have hrold : ∀ t, t < J → at_ r.dig t = at_ d.dig t := by
        intro t ht; rw [hrd t, if_neg (by omega)]
      have hmsd : msd r.dig (J + 1) = msd d.dig J ++ [dv (at_ d.dig J) + 1] := by
        rw [msd_succ, msd_congr r.dig d.dig J hrold, hrJ, hxdv]
      have hsub : (d.ndig - (j + 1)).toInt = d.ndig.toInt - (j.toInt + 1) := by
        rw [i64_sub _ _ (by rw [hj1']; omega) (by rw [hj1']; omega), hj1']
      refine ⟨hneg, ⟨by omega, by omega, ?_, ?_, ?_⟩, fun h => absurd h (by omega), fun _ => ⟨?_, ?_⟩⟩
      · intro t ht
        by_cases c : t = J
        · rw [c, hrJ]; unfold isDig at hyd ⊢; rw [hy1]; omega
        · rw [hrold t (by omega)]; exact hdig t (by omega)
      · intro _
        by_cases cJ : J = 0
        · rw [cJ] at hrJ hy1 hyd; rw [hrJ]
          intro e; have := congrArg UInt8.toNat e; rw [hy1] at this
          unfold isDig at hyd
          have e48 : (48 : UInt8).toNat = 48 := by decide
          omega
        · rw [hrold 0 (by omega)]; exact hfirst (by omega)
      · intro _
        rw [hrnat]; show at_ r.dig (J + 1 - 1) ≠ 48
        rw [Nat.add_sub_cancel, hrJ]
        intro e; have := congrArg UInt8.toNat e; rw [hy1] at this
        unfold isDig at hyd
        have e48 : (48 : UInt8).toNat = 48 := by decide
        omega
      · show msd r.dig r.ndig.toInt.toNat = _
        rw [hrnat, hmsd]
      · show r.exp.toInt + r.ndig.toInt = _
        rw [if_neg (by simp), hrn', hre, hexpadd _ (by rw [hsub]; omega) (by rw [hsub]; omega), hsub]
        dsimp only; omega
  · have hdn : upS (msd d.dig n) P = false := by simpa using hup
    rw [if_neg hup] at hpost
    obtain ⟨j, hj0, hj1, hall, hnot, hneg, hrd, hre, hrn⟩ := hpost
    have hj1' : (j + 1).toInt = j.toInt + 1 := by
      rw [i64_add _ _ (by rw [e1]; omega) (by rw [e1]; omega), e1]
    have hsub : (d.ndig - (j + 1)).toInt = d.ndig.toInt - (j.toInt + 1) := by
      rw [i64_sub _ _ (by rw [hj1']; omega) (by rw [hj1']; omega), hj1']
    by_cases hj : j.toInt = -1
    · -- nothing is kept
      have hP0 : P = 0 := by
        by_cases c : P = 0
        · exact c
        · have := hall 0 (by omega) (by omega)
          exact absurd this (hfirst (by omega))
      subst hP0
      rw [round_down0 _ _ (by omega) hdn]
      have hrn' : r.ndig.toInt = 0 := by rw [hrn, hj1']; omega
      refine ⟨hneg, ⟨by omega, by omega, ?_, ?_, ?_⟩, fun h => absurd h (by omega), fun _ => ⟨?_, ?_⟩⟩
      · intro t ht; omega
      · intro h; omega
      · intro h; omega
      · show msd r.dig r.ndig.toInt.toNat = []
        rw [hrn']; rfl
      · show r.exp.toInt + r.ndig.toInt = _
        rw [if_pos rfl, hrn', hre, hexpadd _ (by rw [hsub]; omega) (by rw [hsub]; omega), hsub]
        dsimp only; omega
    · generalize hJ : j.toInt.toNat = J at *
      have hJP : J < P := by omega
      have hyd := hdig J (by omega)
      have hy48 : at_ d.dig J ≠ 48 := hnot (by omega)
      have hxne : dv (at_ d.dig J) ≠ 0 := dv_ne_zero hyd hy48
      have hPsplit : (msd d.dig n).take P =
          msd d.dig J ++ [dv (at_ d.dig J)] ++ List.replicate (P - (J + 1)) 0 := by
        rw [htake, msd_tail_const d.dig (J + 1) P 48 (by omega)
          (fun t h1 ht => hall t (by omega) (by omega)), msd_succ]
        rfl
      have hh : ((msd d.dig n).take P).head? ≠ some 0 := by
        rw [htake, msd_head _ _ (by omega)]
        intro e; exact hd0 (Option.some.inj e)
      rw [round_down _ _ P (msd d.dig J) (dv (at_ d.dig J)) (P - (J + 1)) hPlen hdn hPsplit hxne
        (by rw [htake]; exact msd_lt10 d.dig P (fun t ht => hdig t (by omega))) hh]
      have hrn' : r.ndig.toInt = (J : Int) + 1 := by rw [hrn, hj1']; omega
      have hrnat : r.ndig.toInt.toNat = J + 1 := by omega
      refine ⟨hneg, ⟨by omega, by omega, ?_, ?_, ?_⟩, fun h => absurd h (by omega), fun _ => ⟨?_, ?_⟩⟩
      · intro t ht; rw [hrd]; exact hdig t (by omega)
      · intro _; rw [hrd]; exact hfirst (by omega)
      · intro _; rw [hrnat, hrd]; show at_ d.dig (J + 1 - 1) ≠ 48
        rw [Nat.add_sub_cancel]; exact hy48
      · show msd r.dig r.ndig.toInt.toNat = _
        rw [hrnat, hrd, msd_succ]
      · show r.exp.toInt + r.ndig.toInt = _
        rw [if_neg (by simp), hrn', hre, hexpadd _ (by rw [hsub]; omega) (by rw [hsub]; omega), hsub]
        dsimp only; omega


/-- Rounding to zero kept digits (`prec = 0`): a lone `5` (exact tie, the even neighbour is 0) and
anything below rounds down to the empty record; anything above the tie rounds up to the single
digit `1` one position higher. -/
theorem round_zero_prec (d : Gen.digits) (hwf : WF d) (hexp : ExpOK d) (h1 : 1 ≤ d.ndig.toInt) :
    ∃ r, Gen.digits.round d 0 = .ok r ∧
      (if (53 ≤ (at_ d.dig 0).toNat ∧ ¬ (d.ndig.toInt = 1 ∧ (at_ d.dig 0).toNat = 53)) then
        slice r = ⟨[1], (slice d).dp + 1⟩
      else r.ndig = 0 ∧ r.exp.toInt = d.exp.toInt + d.ndig.toInt) := by
  have e0 : (0 : Int64).toInt = 0 := by decide
  have e1 : (1 : Int64).toInt = 1 := by decide
  obtain ⟨hx0, hx1⟩ := hexp
  obtain ⟨r, hr, hpost⟩ := round_mid d 0 hwf.n39 (by have := e0; omega) (by have := e0; omega)
  refine ⟨r, hr, ?_⟩
  have hupc : upC d 0 = decide (53 ≤ (at_ d.dig 0).toNat ∧
      ¬ (d.ndig.toInt = 1 ∧ (at_ d.dig 0).toNat = 53)) := by
    unfold upC
    have hz : (0 : Int64).toInt.toNat = 0 := by decide
    have h01 : (0 : Int64) + 1 = 1 := by decide
    have hgt : decide ((0 : Int64) > 0) = false := by decide
    rw [hz, h01, hgt, Bool.false_and]
    have c1 : (d.ndig == 1) = decide (d.ndig.toInt = 1) := by
      by_cases c : d.ndig.toInt = 1
      · rw [decide_eq_true c, beq_iff_eq]; exact Int64.toInt_inj.mp (by rw [c, e1])
      · rw [decide_eq_false c]
        have : ¬ d.ndig = 1 := fun e => c (by rw [e, e1])
        simpa using this
    have c2 : (at_ d.dig 0 == 53) = decide ((at_ d.dig 0).toNat = 53) := u8_beq _ 53 (by decide)
    have c3 : decide (at_ d.dig 0 ≥ 53) = decide (53 ≤ (at_ d.dig 0).toNat) := by
      have : (at_ d.dig 0 ≥ 53) ↔ 53 ≤ (at_ d.dig 0).toNat := by
        show (53 : UInt8) ≤ at_ d.dig 0 ↔ _
        rw [UInt8.le_iff_toNat_le]; rfl
      exact decide_eq_decide.mpr this
    rw [c1, c2, c3]
    by_cases a : d.ndig.toInt = 1 <;> by_cases b : (at_ d.dig 0).toNat = 53 <;> simp [a, b]
  rw [hupc] at hpost
  by_cases hc : 53 ≤ (at_ d.dig 0).toNat ∧ ¬ (d.ndig.toInt = 1 ∧ (at_ d.dig 0).toNat = 53)
  · rw [if_pos hc]
    rw [if_pos (decide_eq_true hc)] at hpost
    obtain ⟨j, hj0, hj1, _, _, _, hcase⟩ := hpost
    have hj : j.toInt = -1 := by rw [e0] at hj1; omega
    rw [if_pos hj] at hcase
    obtain ⟨hrd, hre, hrn⟩ := hcase
    have hrn' : r.ndig.toInt = 1 := by rw [hrn]; exact e1
    have hr0 : at_ r.dig 0 = 49 := by rw [hrd 0]; simp
    have hn39 := hwf.n39
    show (⟨msd r.dig r.ndig.toInt.toNat, r.exp.toInt + r.ndig.toInt⟩ : Spec.Slice) = _
    rw [hrn', hre, i64_add _ _ (by omega) (by omega)]
    congr 1
    show [dv (at_ r.dig 0)] = [1]
    rw [hr0]; rfl
  · rw [if_neg hc]
    rw [if_neg (by rw [decide_eq_true_eq]; exact hc)] at hpost
    obtain ⟨j, hj0, hj1, _, _, _, _, hre, hrn⟩ := hpost
    have hj : j.toInt = -1 := by rw [e0] at hj1; omega
    have hj1' : (j + 1).toInt = 0 := by
      rw [i64_add _ _ (by rw [e1]; omega) (by rw [e1]; omega), e1]; omega
    have hn39 := hwf.n39
    have hsub : (d.ndig - (j + 1)).toInt = d.ndig.toInt := by
      rw [i64_sub _ _ (by rw [hj1']; omega) (by rw [hj1']; omega), hj1']; omega
    refine ⟨Int64.toInt_inj.mp (by rw [hrn, hj1', e0]), ?_⟩
    rw [hre, i64_add _ _ (by rw [hsub]; omega) (by rw [hsub]; omega), hsub]

end Dg
