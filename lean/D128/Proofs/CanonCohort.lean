/-
  D128/Proofs/CanonCohort.lean — the conversions treated here depend on the denoted value only
  (C19, first clause, for Canonical / Int64 / Int32 / Uint64 / Uint32 / Frexp), and the
  extension of `canonical_eq_iff` to infinities.

    truncMag_eq_floor     truncMag c e = ⌊mag c e⌋₊      (ℚ floor: "truncated toward zero")
    truncInt_congr, sat_congr          Val.same x y → Spec.sat lo hi x = Spec.sat lo hi y
    canonical_congr       Val.sameNum x y → Spec.canonical x = Spec.canonical y   (valid x, y)
    canonical_eq_iff_spec' non-NaN valid x, y: canonical x = canonical y ↔ equal x y ∧ same sign
    log10_mul_pow         Nat.log 10 (c·10^a) = Nat.log 10 c + a
    frexp_congr           Val.same x y → fractions `same`, exponents equal
-/
import D128.Proofs.CanonFrexp
import Mathlib.Algebra.Order.Floor.Semifield
import Mathlib.Data.Rat.Floor
set_option autoImplicit false

namespace CanonPf
open IntConvPf FrexpPf

/-! ## truncation is the floor of the magnitude -/

theorem truncMag_eq_floor (c : Nat) (e : Int) : truncMag c e = ⌊Spec.mag c e⌋₊ := by
  unfold truncMag Spec.mag Spec.pow10
  by_cases he : e ≥ 0
  · have h0 : (-e).toNat = 0 := by omega
    rw [if_pos he, h0, Nat.pow_zero, Nat.div_one]
    have : (c : ℚ) * 10 ^ e.toNat = ((c * 10 ^ e.toNat : ℕ) : ℚ) := by push_cast; ring
    rw [this, Nat.floor_natCast]
  · have h0 : e.toNat = 0 := by omega
    rw [if_neg he, h0, Nat.pow_zero, Nat.mul_one]
    have : (c : ℚ) * (1 / 10 ^ (-e).toNat) = (c : ℚ) / ((10 ^ (-e).toNat : ℕ) : ℚ) := by
      push_cast; ring
    rw [this, Nat.floor_div_eq_div]

theorem truncInt_congr (x y : Spec.Val) (h : x.same y = true) : Spec.truncInt x = Spec.truncInt y := by
  cases x <;> cases y <;> simp only [Spec.Val.same, Bool.and_eq_true, beq_iff_eq, Bool.false_eq_true] at h
  · rfl
  · rfl
  · obtain ⟨hn, hm⟩ := h
    rw [truncInt_fin, truncInt_fin, truncMag_eq_floor, truncMag_eq_floor, hn, hm]

theorem sat_congr (lo hi : Int) (x y : Spec.Val) (h : x.same y = true) :
    Spec.sat lo hi x = Spec.sat lo hi y := by
  have ht := truncInt_congr x y h
  cases x <;> cases y <;> simp only [Spec.Val.same, Bool.and_eq_true, beq_iff_eq, Bool.false_eq_true] at h
  · rfl
  · subst h; rfl
  · simp only [Spec.sat, ht]


/-! ## `Spec.canonical` depends on the value only -/

theorem spec_equal_inf_inf (n n' : Bool) : Spec.equal (.inf n) (.inf n') = (n == n') := by
  cases n <;> cases n' <;> rfl

theorem spec_equal_inf_fin (n n' : Bool) (c : Nat) (e : Int) :
    Spec.equal (.inf n) (.fin n' c e) = false := by
  cases n <;> rfl

theorem spec_equal_fin_inf (n n' : Bool) (c : Nat) (e : Int) :
    Spec.equal (.fin n' c e) (.inf n) = false := by
  cases n <;> rfl

/-- non-NaN values: identical canonical bits iff `Equal` with the same sign -/
theorem canonical_eq_iff_spec' (x y : Spec.Val) (hx : Valid x) (hy : Valid y)
    (hnx : x.isNaN = false) (hny : y.isNaN = false) :
    Spec.canonical x = Spec.canonical y ↔ (Spec.equal x y = true ∧ x.neg = y.neg) := by
  cases x with
  | nan n p => simp [Spec.Val.isNaN] at hnx
  | inf n =>
    cases y with
    | nan n' p' => simp [Spec.Val.isNaN] at hny
    | inf n' =>
      rw [spec_equal_inf_inf]
      cases n <;> cases n' <;> simp [Spec.canonical, Spec.Val.neg]
    | fin n' c' e' =>
      rw [spec_equal_inf_fin]
      simp only [Bool.false_eq_true, false_and, iff_false]
      intro h
      have hcv : canonVal (.inf n) = canonVal (.fin n' c' e') := by unfold canonVal; rw [h]
      have h2 := canonVal_same (.fin n' c' e') hy rfl
      rw [← hcv, canonVal_inf] at h2
      simp [Spec.Val.same] at h2
  | fin n c e =>
    cases y with
    | nan n' p' => simp [Spec.Val.isNaN] at hny
    | inf n' =>
      rw [spec_equal_fin_inf]
      simp only [Bool.false_eq_true, false_and, iff_false]
      intro h
      have hcv : canonVal (.fin n c e) = canonVal (.inf n') := by unfold canonVal; rw [h]
      have h2 := canonVal_same (.fin n c e) hx rfl
      rw [hcv, canonVal_inf] at h2
      simp [Spec.Val.same] at h2
    | fin n' c' e' =>
      exact canonical_eq_iff_spec n n' c c' e e' hx hy

/-- values with the same class, sign and magnitude (any two NaNs) have the same canonical bits -/
theorem canonical_congr (x y : Spec.Val) (hx : Valid x) (hy : Valid y)
    (h : x.sameNum y = true) : Spec.canonical x = Spec.canonical y := by
  cases x with
  | nan n p =>
    cases y with
    | nan n' p' => rfl
    | inf n' => simp [Spec.Val.sameNum, Spec.Val.same] at h
    | fin n' c' e' => simp [Spec.Val.sameNum, Spec.Val.same] at h
  | inf n =>
    cases y with
    | nan n' p' => simp [Spec.Val.sameNum, Spec.Val.same] at h
    | inf n' =>
      simp only [Spec.Val.sameNum, Spec.Val.same, beq_iff_eq] at h
      rw [h]
    | fin n' c' e' => simp [Spec.Val.sameNum, Spec.Val.same] at h
  | fin n c e =>
    cases y with
    | nan n' p' => simp [Spec.Val.sameNum, Spec.Val.same] at h
    | inf n' => simp [Spec.Val.sameNum, Spec.Val.same] at h
    | fin n' c' e' =>
      simp only [Spec.Val.sameNum, Spec.Val.same, Bool.and_eq_true, beq_iff_eq] at h
      obtain ⟨hn, hm⟩ := h
      subst hn
      rw [canonical_eq_iff_spec n n c c' e e' hx hy, equal_fin_iff]
      exact ⟨hm, rfl⟩

/-! ## `Spec.frexp` depends on the value only -/

theorem log10_mul_pow (c a : Nat) (hc : c ≠ 0) : Nat.log 10 (c * 10 ^ a) = Nat.log 10 c + a := by
  induction a with
  | zero => simp
  | succ a ih =>
    have : c * 10 ^ a ≠ 0 := Nat.mul_ne_zero hc (by positivity)
    rw [Nat.pow_succ, ← Nat.mul_assoc, Nat.log_mul_base (by decide) this, ih]
    omega

theorem frexp_congr_fin (n : Bool) (c c' : Nat) (e e' : Int) (hc : c ≠ 0) (hc' : c' ≠ 0)
    (hm : Spec.mag c e = Spec.mag c' e') :
    (Spec.frexp (.fin n c e)).1.same (Spec.frexp (.fin n c' e')).1 = true ∧
    (Spec.frexp (.fin n c e)).2 = (Spec.frexp (.fin n c' e')).2 := by
  rw [spec_frexp_fin n c e hc, spec_frexp_fin n c' e' hc']
  have hv := (mag_eq_iff c c' e e').mp hm
  have key : ∀ (c c' : Nat) (e e' : Int), c ≠ 0 → e' ≤ e →
      c * 10 ^ (e - e').toNat = c' →
      (Nat.log 10 c' : Int) = Nat.log 10 c + (e - e') := by
    intro c c' e e' hc hle h
    rw [← h, log10_mul_pow _ _ hc]
    push_cast
    omega
  have hlog : e + (Nat.log 10 c : Int) = e' + (Nat.log 10 c' : Int) := by
    by_cases hle : e' ≤ e
    · have h0 : (e' - e).toNat = 0 := by omega
      rw [h0, Nat.pow_zero, Nat.mul_one] at hv
      have := key c c' e e' hc hle hv
      omega
    · have h0 : (e - e').toNat = 0 := by omega
      rw [h0, Nat.pow_zero, Nat.mul_one] at hv
      have := key c' c e' e hc' (by omega) hv.symm
      omega
  refine ⟨?_, by dsimp only; omega⟩
  dsimp only
  simp only [Spec.Val.same, beq_self_eq_true, Bool.true_and, beq_iff_eq]
  -- both fractions are `value · 10^-(e + digits)`
  have h1 := frexp_mag_scale c e (e + (Nat.log 10 c : Int) + 1)
  have h2 := frexp_mag_scale c' e' (e' + (Nat.log 10 c' : Int) + 1)
  have e1 : e - (e + (Nat.log 10 c : Int) + 1) = -(Nat.log 10 c : Int) - 1 := by omega
  have e2 : e' - (e' + (Nat.log 10 c' : Int) + 1) = -(Nat.log 10 c' : Int) - 1 := by omega
  rw [e1] at h1
  rw [e2] at h2
  have e3 : e' + (Nat.log 10 c' : Int) + 1 = e + (Nat.log 10 c : Int) + 1 := by omega
  rw [e3, ← hm, ← h1] at h2
  exact (mul_right_cancel₀ (CmpPf.pow10_pos _).ne' h2).symm

theorem frexp_congr (x y : Spec.Val) (h : x.same y = true) :
    (Spec.frexp x).1.same (Spec.frexp y).1 = true ∧ (Spec.frexp x).2 = (Spec.frexp y).2 := by
  cases x with
  | nan n p =>
    cases y with
    | nan n' p' => exact ⟨h, rfl⟩
    | inf n' => simp [Spec.Val.same] at h
    | fin n' c' e' => simp [Spec.Val.same] at h
  | inf n =>
    cases y with
    | nan n' p' => simp [Spec.Val.same] at h
    | inf n' => exact ⟨h, rfl⟩
    | fin n' c' e' => simp [Spec.Val.same] at h
  | fin n c e =>
    cases y with
    | nan n' p' => simp [Spec.Val.same] at h
    | inf n' => simp [Spec.Val.same] at h
    | fin n' c' e' =>
      have h' := h
      simp only [Spec.Val.same, Bool.and_eq_true, beq_iff_eq] at h'
      obtain ⟨hn, hm⟩ := h'
      subst hn
      by_cases hc : c = 0
      · have hc' : c' = 0 := by
          rw [← mag_eq_zero_iff c' e', ← hm, mag_eq_zero_iff]; exact hc
        subst hc; subst hc'
        exact ⟨h, rfl⟩
      · have hc' : c' ≠ 0 := by
          intro h0; apply hc
          rw [← mag_eq_zero_iff c e, hm, mag_eq_zero_iff]; exact h0
        exact frexp_congr_fin n c c' e e' hc hc' hm

end CanonPf
