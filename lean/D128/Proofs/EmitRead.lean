/-
  D128/Proofs/EmitRead.lean — pure specification-level facts used to read the emitted numerals back:
  the explicit shapes of `Spec.layoutE` / `Spec.layoutF` and the value `Spec.readNumber` /
  `Spec.readJsonNumber` assign to a canonical numeral.

  * `Emit.layoutE_one`, `layoutE_many`   : `d` / `d.ddd`, then `Spec.expStr`
  * `Emit.layoutF_int`, `layoutF_zero`, `layoutF_mid`, `layoutF_small` :
        `ddd000` / `0` / `dd.ddd` / `0.000ddd`
  * `Emit.Stop`, `Emit.readDigits_cons`, `Emit.readDigits_run` : `Spec.readDigits` over a run of digits
  * `Emit.decD`, `Emit.decS_digits`      : `toString a` as a digit list with value `a`
  * `Emit.readNumber_shape`              : `Spec.readNumber` on `digits [. digits] [e ± digits]`
  * `Emit.jsonSign`, `jsonRest`, `readJsonNumber_eq`, `Emit.readJsonNumber_shape` : the same for the
        RFC 8259 grammar `Spec.readJsonNumber` (no leading zero, a digit after the point)
-/
import D128.Proofs.EmitSpec
set_option autoImplicit false
namespace Emit

/-! ## explicit shapes of the layouts -/

theorem zeros_eq (k : Nat) : Spec.zeros k = Spec.digitsStr (List.replicate k 0) := by
  simp only [Spec.zeros, Spec.digitsStr, List.map_replicate]; rfl

theorem digitsStr_append (a b : List Nat) : Spec.digitsStr (a ++ b) = Spec.digitsStr a ++ Spec.digitsStr b := by
  simp [Spec.digitsStr]

theorem digitsStr_length (a : List Nat) : (Spec.digitsStr a).length = a.length := by
  simp [Spec.digitsStr]

/-- exponent layout of a one-digit slice -/
theorem layoutE_one (x : Nat) (dp : Int) (e : Char) (minExp : Nat) :
    Spec.layoutE ⟨[x], dp⟩ 0 false e minExp = Spec.digitChar x :: Spec.expStr e (dp - 1) minExp := rfl

/-- exponent layout of a slice with at least two digits, all of them printed -/
theorem layoutE_many (x y : Nat) (M : List Nat) (dp : Int) (e : Char) (minExp : Nat) :
    Spec.layoutE ⟨x :: y :: M, dp⟩ (M.length + 1) false e minExp =
      Spec.digitChar x :: '.' :: (Spec.digitsStr (y :: M) ++ Spec.expStr e (dp - 1) minExp) := by
  unfold Spec.layoutE
  simp only [List.drop_one, List.tail_cons, digitsStr_length, List.length_cons, Nat.sub_self,
    List.isEmpty_cons, Bool.false_eq_true, if_false]
  rw [if_pos (by omega)]
  show [Spec.digitChar x] ++ '.' :: List.take (M.length + 1) (Spec.digitsStr (y :: M) ++ Spec.zeros 0) ++ _ = _
  rw [show Spec.zeros 0 = [] from rfl, List.append_nil, List.take_of_length_le (by rw [digitsStr_length]; simp)]
  simp

/-- positional layout, no fraction: the digits followed by zeros up to the decimal point -/
theorem layoutF_int (ds : List Nat) (dp : Int) (hne : ds ≠ []) (h : (ds.length : Int) ≤ dp) :
    Spec.layoutF ⟨ds, dp⟩ 0 false = Spec.digitsStr (ds ++ List.replicate (dp.toNat - ds.length) 0) := by
  rw [layoutF_eq]
  have hl : 0 < ds.length := List.length_pos_iff.mpr hne
  simp only
  rw [if_pos (by omega), if_neg (by omega), List.take_of_length_le (by omega), zeros_eq, ← digitsStr_append]
  simp

/-- positional layout of zero -/
theorem layoutF_zero : Spec.layoutF ⟨[], 0⟩ 0 false = ['0'] := rfl

/-- positional layout with the decimal point inside the digit string -/
theorem layoutF_mid (ds : List Nat) (dp : Int) (h0 : 0 < dp) (h : dp < (ds.length : Int)) :
    Spec.layoutF ⟨ds, dp⟩ (ds.length - dp.toNat) false =
      Spec.digitsStr (ds.take dp.toNat) ++ '.' :: Spec.digitsStr (ds.drop dp.toNat) := by
  rw [layoutF_eq]
  simp only
  rw [if_pos (by omega), if_pos (by omega), zeros_eq, show dp.toNat - ds.length = 0 by omega]
  show _ ++ [] ++ _ = _
  rw [List.append_nil]
  congr 2
  rw [digitsStr_drop]
  apply List.map_congr_left
  intro i hi
  rw [List.mem_range] at hi
  have e1 : (dp + (i : Int)).toNat = dp.toNat + i := by omega
  rw [if_pos (by omega), e1]

/-- positional layout of a value below one: `0.`, zeros, then the digits -/
theorem layoutF_small (ds : List Nat) (dp : Int) (hne : ds ≠ []) (h0 : dp ≤ 0) :
    Spec.layoutF ⟨ds, dp⟩ ((-dp).toNat + ds.length) false =
      '0' :: '.' :: Spec.digitsStr (List.replicate (-dp).toNat 0 ++ ds) := by
  rw [layoutF_eq]
  have hl : 0 < ds.length := List.length_pos_iff.mpr hne
  simp only
  rw [if_neg (by omega), if_pos (by omega)]
  show '0' :: '.' :: _ = _
  congr 2
  have hP : (-dp).toNat + ds.length = (-dp).toNat + ds.length + 0 := by omega
  rw [hP, range_map_split3, digitsStr_append]
  simp only [List.range_zero, List.map_nil, List.append_nil]
  congr 1
  · rw [← zeros_eq]
    apply map_range_const
    intro i hi
    rw [if_neg (by omega)]
  · have := digitsStr_drop ds 0
    rw [List.drop_zero, Nat.sub_zero] at this
    rw [this]
    apply List.map_congr_left
    intro i hi
    rw [List.mem_range] at hi
    have e1 : (dp + (((-dp).toNat + i : Nat) : Int)).toNat = 0 + i := by omega
    rw [if_pos (by omega), e1]

/-! ## reading digit runs -/

theorem isDigit_digitChar (x : Nat) (h : x < 10) : Spec.isDigit (Spec.digitChar x) = true := by
  unfold Spec.digitChar
  interval_cases x <;> rfl

theorem digitVal_digitChar' (x : Nat) (h : x < 10) : Spec.digitVal (Spec.digitChar x) = x := by
  unfold Spec.digitChar
  interval_cases x <;> rfl

/-- the rest of the input does not continue a digit run -/
def Stop (rest : List Char) : Prop :=
  match rest with
  | [] => True
  | c :: _ => Spec.isDigit c = false ∧ c ≠ '_'

theorem readDigits_cons (sep : Bool) (c : Char) (rest : List Char) (acc cnt : Nat) :
    Spec.readDigits sep (c :: rest) acc cnt =
      if Spec.isDigit c then Spec.readDigits sep rest (acc * 10 + Spec.digitVal c) (cnt + 1)
      else if sep && c == '_' && decide (cnt > 0) then
        match rest with
        | d :: _ => if Spec.isDigit d then Spec.readDigits sep rest acc cnt else (acc, cnt, c :: rest)
        | [] => (acc, cnt, c :: rest)
      else (acc, cnt, c :: rest) := by
  rw [Spec.readDigits.eq_def]
  rfl

theorem readDigits_nil_stop (sep : Bool) (rest : List Char) (h : Stop rest) (acc cnt : Nat) :
    Spec.readDigits sep rest acc cnt = (acc, cnt, rest) := by
  cases rest with
  | nil => rw [Spec.readDigits.eq_def]
  | cons c r =>
    obtain ⟨h1, h2⟩ := h
    rw [readDigits_cons]
    have : (c == '_') = false := by simpa using h2
    simp [h1, this]

theorem readDigits_run (sep : Bool) (L : List Nat) (hL : ∀ x ∈ L, x < 10) (rest : List Char)
    (h : Stop rest) (acc cnt : Nat) :
    Spec.readDigits sep (Spec.digitsStr L ++ rest) acc cnt =
      (acc * 10 ^ L.length + Dg.ofMsd L, cnt + L.length, rest) := by
  induction L generalizing acc cnt with
  | nil => simpa [Spec.digitsStr] using readDigits_nil_stop sep rest h acc cnt
  | cons x M ih =>
    have hx := hL x (by simp)
    have hM : ∀ y ∈ M, y < 10 := fun y hy => hL y (by simp [hy])
    show Spec.readDigits sep (Spec.digitChar x :: (Spec.digitsStr M ++ rest)) acc cnt = _
    rw [readDigits_cons, isDigit_digitChar x hx, if_pos rfl, digitVal_digitChar' x hx, ih hM,
      Dg.ofMsd_cons, List.length_cons, Nat.pow_succ]
    congr 1
    · ring
    · congr 1; omega

/-! ## decimal digits of a natural number -/

/-- digit values of `toString a` -/
def decD (a : Nat) : List Nat := (decS a).map Spec.digitVal

theorem decS_digits (a : Nat) : decS a = Spec.digitsStr (decD a) ∧ (∀ x ∈ decD a, x < 10) ∧
    Dg.ofMsd (decD a) = a ∧ decD a ≠ [] := by
  induction a using Nat.strong_induction_on with
  | _ a ih =>
    by_cases h : a < 10
    · have : decD a = [a] := by unfold decD; rw [decS_lt a h]; simp [digitVal_digitChar' a h]
      rw [this, decS_lt a h]
      exact ⟨rfl, by simpa using h, by simp [Dg.ofMsd_cons], by simp⟩
    · have hge : 10 ≤ a := by omega
      obtain ⟨h1, h2, h3, h4⟩ := ih (a / 10) (by omega)
      have hd : decD a = decD (a / 10) ++ [a % 10] := by
        unfold decD
        rw [decS_ge a hge]
        simp [digitVal_digitChar' (a % 10) (Nat.mod_lt _ (by decide))]
      rw [hd, decS_ge a hge, h1]
      refine ⟨by simp [Spec.digitsStr], ?_, ?_, by simp⟩
      · intro x hx
        rcases List.mem_append.mp hx with hx | hx
        · exact h2 x hx
        · have : x = a % 10 := by simpa using hx
          omega
      · rw [Dg.ofMsd_snoc, h3]; omega

theorem decS_nonempty (a : Nat) : 0 < (decS a).length := by
  obtain ⟨h1, _, _, h4⟩ := decS_digits a
  rw [h1]; simp [Spec.digitsStr]; exact List.length_pos_iff.mpr h4

theorem stop_nil : Stop [] := trivial
theorem stop_dot (r : List Char) : Stop ('.' :: r) := ⟨by decide, by decide⟩
theorem stop_e (r : List Char) : Stop ('e' :: r) := ⟨by decide, by decide⟩
theorem stop_E (r : List Char) : Stop ('E' :: r) := ⟨by decide, by decide⟩

/-- **Reading a canonical numeral**: digits, optional `.` digits, optional exponent with explicit sign. -/
theorem readNumber_shape (sep : Bool) (A B EP : List Nat) (hasDot hasExp eneg : Bool) (ech : Char)
    (hA : ∀ x ∈ A, x < 10) (hB : ∀ x ∈ B, x < 10) (hEP : ∀ x ∈ EP, x < 10)
    (hne : A ++ B ≠ []) (hB0 : hasDot = false → B = []) (hech : ech = 'e' ∨ ech = 'E')
    (hEPne : hasExp = true → EP ≠ []) :
    Spec.readNumber sep (Spec.digitsStr A ++ ((if hasDot then '.' :: Spec.digitsStr B else []) ++
        (if hasExp then ech :: (if eneg then '-' else '+') :: Spec.digitsStr EP else []))) =
      some (Dg.ofMsd (A ++ B),
        (if hasExp then (if eneg then -(Dg.ofMsd EP : Int) else (Dg.ofMsd EP : Int)) else 0) -
          (B.length : Int)) := by
  have hcnt : (A.length + B.length == 0) = false := by
    cases A with
    | nil => cases B with
      | nil => exact absurd rfl hne
      | cons _ _ => simp
    | cons _ _ => simp
  have hEs : Stop (if hasExp then ech :: (if eneg then '-' else '+') :: Spec.digitsStr EP else []) := by
    cases hasExp
    · exact stop_nil
    · rcases hech with rfl | rfl
      · exact stop_e _
      · exact stop_E _
  have hDs : Stop ((if hasDot then '.' :: Spec.digitsStr B else []) ++
      (if hasExp then ech :: (if eneg then '-' else '+') :: Spec.digitsStr EP else [])) := by
    cases hasDot
    · simpa using hEs
    · exact stop_dot _
  unfold Spec.readNumber
  rw [readDigits_run sep A hA _ hDs 0 0]
  simp only [Nat.zero_mul, Nat.zero_add]
  cases hasDot
  · -- no fraction
    have := hB0 rfl
    subst this
    have hAne : A ≠ [] := by simpa using hne
    simp only [Bool.false_eq_true, if_false, List.nil_append, List.append_nil, List.length_nil,
      Nat.add_zero] at hcnt ⊢
    cases hasExp
    · simp [hAne]
    · have hEPn := hEPne rfl
      have hl : (EP.length == 0) = false := by
        cases EP with
        | nil => exact absurd rfl hEPn
        | cons _ _ => simp
      rcases hech with rfl | rfl <;> cases eneg <;>
        simp only [if_true, Bool.false_eq_true, if_false] <;>
        (have := readDigits_run sep EP hEP [] stop_nil 0 0
         rw [List.append_nil] at this
         simp [this, hl, hAne])
  · simp only [if_true, List.cons_append]
    rw [readDigits_run sep B hB _ hEs (Dg.ofMsd A) 0]
    simp only [Nat.zero_add, hcnt, Bool.false_eq_true, if_false, Dg.ofMsd_append]
    cases hasExp
    · simp only [Bool.false_eq_true, if_false]
      simp
    · have hEPn := hEPne rfl
      have hl : (EP.length == 0) = false := by
        cases EP with
        | nil => exact absurd rfl hEPn
        | cons _ _ => simp
      rcases hech with rfl | rfl <;> cases eneg <;>
        simp only [if_true, Bool.false_eq_true, if_false] <;>
        (have := readDigits_run sep EP hEP [] stop_nil 0 0
         rw [List.append_nil] at this
         simp [this, hl])

theorem digitChar_ne_zero (x : Nat) (h : x < 10) (h0 : x ≠ 0) : Spec.digitChar x ≠ '0' := by
  unfold Spec.digitChar
  interval_cases x <;> first | exact absurd rfl h0 | decide

theorem digitChar_ne_minus (x : Nat) (h : x < 10) : Spec.digitChar x ≠ '-' := by
  unfold Spec.digitChar
  interval_cases x <;> decide

/-- sign of a JSON number (first step of `Spec.readJsonNumber`) -/
def jsonSign (s : Spec.Str) : Bool × Spec.Str :=
  match s with | '-' :: r => (true, r) | r => (false, r)

/-- `Spec.readJsonNumber` after the sign (text copied from the specification, tied to it by
`readJsonNumber_eq : … := rfl`) -/
def jsonRest (neg : Bool) (r : Spec.Str) : Option (Bool × Nat × Int × Nat) :=
  let (ip, ni, r1) := Spec.readDigits false r 0 0
  if ni == 0 then none else
  if ni > 1 && r.head? == some '0' then none else
  let (m, nf, r2, fracOk) :=
    match r1 with
    | '.' :: r' => let (fp, nf, r'') := Spec.readDigits false r' ip 0; (fp, nf, r'', decide (nf > 0))
    | r' => (ip, 0, r', true)
  if !fracOk then none else
  match r2 with
  | [] => some (neg, m, -(nf : Int), ni + nf)
  | e :: r' =>
    if e == 'e' || e == 'E' then
      let (eneg, r') := match r' with
        | '-' :: r' => (true, r')
        | '+' :: r' => (false, r')
        | r' => (false, r')
      let (ev, ne, r'') := Spec.readDigits false r' 0 0
      if ne == 0 || r'' ≠ [] then none
      else some (neg, m, (if eneg then -(ev : Int) else (ev : Int)) - (nf : Int), ni + nf)
    else none

theorem readJsonNumber_eq (s : Spec.Str) :
    Spec.readJsonNumber s = jsonRest (jsonSign s).1 (jsonSign s).2 := rfl

/-- **Reading a canonical numeral with the RFC 8259 grammar**: optional `-`, integer part without
leading zero (or a single `0`), optional `.` with at least one digit, optional exponent. -/
theorem readJsonNumber_shape (neg : Bool) (A B EP : List Nat) (hasDot hasExp eneg : Bool) (ech : Char)
    (hA : ∀ x ∈ A, x < 10) (hB : ∀ x ∈ B, x < 10) (hEP : ∀ x ∈ EP, x < 10)
    (hAne : A ≠ []) (hlead : 1 < A.length → A.head? ≠ some 0)
    (hB0 : hasDot = false → B = []) (hB1 : hasDot = true → B ≠ [])
    (hech : ech = 'e' ∨ ech = 'E') (hEPne : hasExp = true → EP ≠ []) :
    Spec.readJsonNumber ((if neg then ['-'] else []) ++ (Spec.digitsStr A ++
        ((if hasDot then '.' :: Spec.digitsStr B else []) ++
        (if hasExp then ech :: (if eneg then '-' else '+') :: Spec.digitsStr EP else [])))) =
      some (neg, Dg.ofMsd (A ++ B),
        (if hasExp then (if eneg then -(Dg.ofMsd EP : Int) else (Dg.ofMsd EP : Int)) else 0) -
          (B.length : Int), A.length + B.length) := by
  have hEs : Stop (if hasExp then ech :: (if eneg then '-' else '+') :: Spec.digitsStr EP else []) := by
    cases hasExp
    · exact stop_nil
    · rcases hech with rfl | rfl
      · exact stop_e _
      · exact stop_E _
  have hDs : Stop ((if hasDot then '.' :: Spec.digitsStr B else []) ++
      (if hasExp then ech :: (if eneg then '-' else '+') :: Spec.digitsStr EP else [])) := by
    cases hasDot
    · simpa using hEs
    · exact stop_dot _
  generalize hT : ((if hasDot then '.' :: Spec.digitsStr B else []) ++
      (if hasExp then ech :: (if eneg then '-' else '+') :: Spec.digitsStr EP else [])) = T at *
  obtain ⟨a0, A', rfl⟩ : ∃ a0 A', A = a0 :: A' := by
    cases A with
    | nil => exact absurd rfl hAne
    | cons a0 A' => exact ⟨a0, A', rfl⟩
  have ha0 := hA a0 (by simp)
  -- strip the sign
  have hstrip : jsonSign ((if neg then ['-'] else []) ++ (Spec.digitsStr (a0 :: A') ++ T)) =
      (neg, Spec.digitsStr (a0 :: A') ++ T) := by
    cases neg
    · show jsonSign (Spec.digitChar a0 :: (Spec.digitsStr A' ++ T)) = _
      have := digitChar_ne_minus a0 ha0
      unfold jsonSign
      split
      · rename_i r heq
        injection heq with h1 h2
        exact absurd h1 this
      · rfl
    · rfl
  rw [readJsonNumber_eq, hstrip]
  unfold jsonRest
  simp only
  rw [readDigits_run false (a0 :: A') hA T hDs 0 0]
  simp only [Nat.zero_mul, Nat.zero_add]
  have hni : ((a0 :: A').length == 0) = false := by simp
  have hlead' : (decide ((a0 :: A').length > 1) &&
      ((Spec.digitsStr (a0 :: A') ++ T).head? == some '0')) = false := by
    by_cases h1 : 1 < (a0 :: A').length
    · have := hlead h1
      have ha : a0 ≠ 0 := by simpa using this
      have := digitChar_ne_zero a0 ha0 ha
      simp [Spec.digitsStr, this]
    · simp at h1
      simp [h1]
  rw [hni, hlead']
  simp only [Bool.false_eq_true, if_false]
  subst hT
  cases hasDot
  · have := hB0 rfl
    subst this
    simp only [Bool.false_eq_true, if_false, List.nil_append, List.append_nil, List.length_nil,
      Nat.add_zero]
    cases hasExp
    · simp
    · have hEPn := hEPne rfl
      have hl : (EP.length == 0) = false := by
        cases EP with
        | nil => exact absurd rfl hEPn
        | cons _ _ => simp
      rcases hech with rfl | rfl <;> cases eneg <;>
        simp only [if_true, Bool.false_eq_true, if_false] <;>
        (have := readDigits_run false EP hEP [] stop_nil 0 0
         rw [List.append_nil] at this
         simp [this, hl])
  · have hBn := hB1 rfl
    have hlB : 0 < B.length := List.length_pos_iff.mpr hBn
    have hOf : Dg.ofMsd (a0 :: (A' ++ B)) = Dg.ofMsd (a0 :: A') * 10 ^ B.length + Dg.ofMsd B := by
      rw [← List.cons_append, Dg.ofMsd_append]
    simp only [if_true, List.cons_append]
    rw [readDigits_run false B hB _ hEs (Dg.ofMsd (a0 :: A')) 0]
    simp only [Nat.zero_add]
    cases hasExp
    · simp [hlB, hOf]
    · have hEPn := hEPne rfl
      have hl : (EP.length == 0) = false := by
        cases EP with
        | nil => exact absurd rfl hEPn
        | cons _ _ => simp
      rcases hech with rfl | rfl <;> cases eneg <;>
        simp only [if_true, Bool.false_eq_true, if_false] <;>
        (have := readDigits_run false EP hEP [] stop_nil 0 0
         rw [List.append_nil] at this
         simp [this, hl, hlB, hOf])
end Emit
