/-
  A length bound in `Props.C05.parseNumber_value` is necessary (no real input: `2^58 + 23` bytes).

  The input `"0." ++ 2^58 zeros ++ "1e2882303761517117440"` is an accepted numeral with literal value
  `1 · 10^(10·2^58 − 2^58 − 1)`, far beyond the largest finite Decimal, so the specification demands `±Inf` and
  the range error.  `parseNumber` saturates the written exponent at `2^58`, subtracts the `2^58 + 1` fraction
  digits and hands `1 · 10^-1` to `reduce128`: it returns a finite value and `nil`.
  (Before the repair of the saturation bound — `10^9` instead of `2^58` — the same happened for the 1 GB input
  `"0." ++ 10^9 zeros ++ "1e10000000000"`, on which the real `Parse` returned `0.1, nil`.)

  * `ParseLong.cex N`                 the bytes `"0." ++ N zeros ++ "1e2882303761517117440"`
  * `ParseLong.readNumber_cex`        `Spec.readNumber sep (cex N) = some (1, 10·2^58 − (N+1))`
  * `ParseLong.run2_cex`              the state `parseNumber` reaches: `sig = 1`, `nfrac = N+1`, `exp = 2^58`, `trunc = 0`
  * `ParseLong.parseNumber_value_bound_necessary`   the counterexample for `N = 2^58`
-/
import D128.Proofs.ParseLongTop
import D128.Proofs.ParseValueSpec

set_option linter.unusedSimpArgs false
set_option linter.unusedVariables false

namespace ParseLong
open Parse

/-- `N` zeros followed by `1` -/
def cexFrac (N : Nat) : List UInt8 := List.replicate N 48 ++ [49]
/-- the exponent digits `2882303761517117440` (`10·2^58`) -/
def cexExp : List UInt8 :=
  [50, 56, 56, 50, 51, 48, 51, 55, 54, 49, 53, 49, 55, 49, 49, 55, 52, 52, 48]
/-- `"0." ++ N zeros ++ "1"` -/
def cexPre (N : Nat) : List UInt8 := [48] ++ (46 :: cexFrac N)
/-- `"0." ++ N zeros ++ "1e2882303761517117440"` -/
def cex (N : Nat) : List UInt8 := cexPre N ++ (101 :: ([] ++ cexExp))

theorem cex_length (N : Nat) : (cex N).length = N + 23 := by
  simp [cex, cexPre, cexFrac, cexExp]

/-! ## the specification -/

theorem val_zeros (N : Nat) : val (List.replicate N 48) = 0 := by
  induction N with
  | zero => rfl
  | succ k ih =>
    rw [List.replicate_succ, val_cons, ih]
    show (48 - 48) * _ + 0 = 0
    simp

theorem isDig_frac (N : Nat) : ∀ c ∈ cexFrac N, isDig c = true := by
  intro c hc
  rcases List.mem_append.mp hc with h | h
  · rw [List.eq_of_mem_replicate h]; decide
  · rw [List.mem_singleton.mp h]; decide

theorem readNumber_cex (sep : Bool) (N : Nat) :
    Spec.readNumber sep ((cex N).map toChar) = some (1, (2882303761517117440 : Int) - ((N + 1 : Nat) : Int)) := by
  have h := readNumber_canonical sep [48] (cexFrac N) [] cexExp true true 101
    (by decide) (isDig_frac N) (by decide) (fun h => by cases h) (by simp) (Or.inl rfl) (Or.inl rfl)
    (fun _ => by decide) (fun h => by cases h)
  have hv : val ([48] ++ cexFrac N) = 1 := by
    rw [val_append, cexFrac, val_append, val_zeros]
    show (48 - 48) * _ + (0 * _ + (49 - 48)) = 1
    simp
  have hl : (cexFrac N).length = N + 1 := by simp [cexFrac]
  have he : val cexExp = 2882303761517117440 := by decide
  rw [hv, hl, he] at h
  simp only [if_true] at h
  rw [show cex N = [48] ++ (46 :: cexFrac N) ++ (101 :: ([] ++ cexExp)) from rfl, h]
  simp

/-! ## the ghost -/

theorem gfold_zeros (N : Nat) (g : G) (hn : g.n = 0) (hd : g.dot = true) (he : g.exp = false) :
    gfold (List.replicate N 48) g = { g with nd := g.nd + N, nf := g.nf + N } := by
  induction N generalizing g with
  | zero => rfl
  | succ k ih =>
    rw [List.replicate_succ, gfold_cons, gstep_dig_sig 48 g (by decide) he]
    have hn' : g.n * 10 + dval 48 = 0 := by rw [hn]; rfl
    rw [ih { g with n := g.n * 10 + dval 48, nd := g.nd + 1, nf := if g.dot then g.nf + 1 else g.nf } hn' hd he]
    simp only [hd, if_true, hn', hn]
    congr 1 <;> omega

theorem gfold_cexPre (N : Nat) : gfold (cexPre N) g0 = ⟨1, N + 2, N + 1, 0, true, false, false⟩ := by
  show gfold ([48] ++ (46 :: (List.replicate N 48 ++ [49]))) g0 = _
  rw [List.singleton_append, gfold_cons, gfold_cons, gfold_append]
  have h1 : gstep 46 (gstep 48 g0) = ⟨0, 1, 0, 0, true, false, false⟩ := by decide
  rw [h1, gfold_zeros N _ rfl rfl rfl, gfold_cons, gfold_nil, gstep_dig_sig 49 _ (by decide) rfl]
  have : dval 49 = 1 := rfl
  simp only [this, if_true]
  congr 1 <;> omega

/-! ## the exponent digits, saturating -/

theorem step2_e_some (sep : Bool) (s s' : S2) (h : step2 sep 101 s = some s') :
    s' = ⟨s.nfrac, s.trunc, false, false, true, s.eneg, s.sawdig, s.sawdot, true, s.sig, s.exp⟩ := by
  unfold step2 at h
  simp only [isDig_101, Bool.false_eq_true, if_false, show ((101 : UInt8) == 46) = false by decide,
    show ((101 : UInt8) == 69 || (101 : UInt8) == 101) = true by decide, if_true] at h
  split at h
  · cases h
  · injection h with h; exact h.symm

theorem step2_exp_any (sep : Bool) (c : UInt8) (s : S2) (hd : isDig c = true) (he : s.sawexp = true) :
    step2 sep c s = some ⟨s.nfrac, s.trunc, true, true, false, s.eneg, true, s.sawdot, s.sawexp, s.sig,
      expDigit c s.exp⟩ := by
  unfold step2; simp only [hd, he, if_true]

theorem run2_exp_digits (sep : Bool) (ds : List UInt8) (s s' : S2) (hds : ∀ c ∈ ds, isDig c = true)
    (he : s.sawexp = true) (h : run2 sep ds s = some s') :
    s'.nfrac = s.nfrac ∧ s'.trunc = s.trunc ∧ s'.eneg = s.eneg ∧ s'.sig = s.sig ∧
      s'.exp = ds.foldl (fun e c => expDigit c e) s.exp := by
  induction ds generalizing s with
  | nil =>
    rw [run2_nil] at h; injection h with h; subst h
    exact ⟨rfl, rfl, rfl, rfl, rfl⟩
  | cons c r ih =>
    rw [run2_cons, step2_exp_any sep c s (hds c List.mem_cons_self) he, Option.bind_some] at h
    obtain ⟨h1, h2, h3, h4, h5⟩ := ih ⟨s.nfrac, s.trunc, true, true, false, s.eneg, true, s.sawdot, s.sawexp, s.sig,
      expDigit c s.exp⟩ (fun x hx => hds x (List.mem_cons_of_mem _ hx)) he h
    exact ⟨h1, h2, h3, h4, by rw [h5]; rfl⟩

theorem expFold_toInt (ds : List UInt8) (hds : ∀ c ∈ ds, isDig c = true) (e : Int64) (h0 : 0 ≤ e.toInt) :
    0 ≤ (ds.foldl (fun e c => expDigit c e) e).toInt ∧
    (ds.foldl (fun e c => expDigit c e) e).toInt =
      ds.foldl (fun (x : Int) c => if x < 288230376151711744 then x * 10 + (dval c : Int) else x) e.toInt := by
  induction ds generalizing e with
  | nil => exact ⟨h0, rfl⟩
  | cons c r ih =>
    have hc := hds c List.mem_cons_self
    have hE := expDigit_toInt c hc e h0
    rw [show (2 : Int) ^ 58 = 288230376151711744 by norm_num] at hE
    have h0' : 0 ≤ (expDigit c e).toInt := by rw [hE]; split <;> omega
    obtain ⟨h1, h2⟩ := ih (fun x hx => hds x (List.mem_cons_of_mem _ hx)) (expDigit c e) h0'
    exact ⟨h1, by rw [List.foldl_cons, h2, hE]; rfl⟩

theorem expFold_cex :
    cexExp.foldl (fun e c => expDigit c e) (0 : Int64) = (288230376151711744 : Int64) := by
  apply Int64.toInt_inj.mp
  rw [(expFold_toInt cexExp (by decide) 0 (by decide)).2]
  decide

theorem u128_one : (⟨1, 0⟩ : U128).toNat = 1 := by simp [U128.toNat]

/-- the state `parseNumber` reaches on `cex N` -/
theorem run2_cex (sep : Bool) (N : Nat) (hN : N + 23 < 2 ^ 62) :
    ∃ s, run2 sep (cex N) (toS2 init1) = some s ∧ s.caneof = true ∧ s.sawdig = true ∧
      s.sig = ⟨1, 0⟩ ∧ s.trunc = 0 ∧ s.eneg = false ∧ s.exp = (288230376151711744 : Int64) ∧
      s.nfrac.toInt = ((N + 1 : Nat) : Int) := by
  obtain ⟨s, hrun, hce, hsd⟩ := accepted_run2 sep (cex N) _ (readNumber_cex sep N)
  refine ⟨s, hrun, hce, hsd, ?_⟩
  rw [cex, run2_append] at hrun
  cases h1 : run2 sep (cexPre N) (toS2 init1) with
  | none => rw [h1] at hrun; cases hrun
  | some s1 =>
    rw [h1, Option.bind_some, List.nil_append, run2_cons] at hrun
    cases h2 : step2 sep 101 s1 with
    | none => rw [h2] at hrun; cases hrun
    | some s2 =>
      rw [h2, Option.bind_some] at hrun
      have hs2 := step2_e_some sep s1 s2 h2
      obtain ⟨e1, e2, e3, e4, e5⟩ := run2_exp_digits sep cexExp s2 s (by decide) (by rw [hs2]) hrun
      -- the state after the significand
      have hlen : (cexPre N).length = N + 3 := by simp [cexPre, cexFrac]
      obtain ⟨k, r, hR⟩ := run2_rel sep (cexPre N) (toS2 init1) s1 g0 0 0 h1 rel_init g0_inv
        (by rw [hlen]; show 0 + (N + 3) < 2 ^ 62; omega)
      rw [gfold_cexPre] at hR
      have hval := hR.val
      have hrlt := hR.rlt
      simp only at hval
      have hk0 : k = 0 := by
        by_contra hne
        have hw := hR.kpos (Nat.pos_of_ne_zero hne)
        rw [UInt64.le_iff_toNat_le] at hw
        have e1 : (1801439850948198399 : UInt64).toNat = 1801439850948198399 := rfl
        rw [e1] at hw
        have hsig : 2 ^ 64 ≤ s1.sig.toNat := by unfold U128.toNat; omega
        have : 1 ≤ 10 ^ k := Nat.one_le_pow _ _ (by decide)
        have : s1.sig.toNat * 1 ≤ s1.sig.toNat * 10 ^ k := Nat.mul_le_mul_left _ this
        omega
      subst hk0
      have hr0 : r = 0 := by simpa using hrlt
      subst hr0
      have hsig : s1.sig = ⟨1, 0⟩ := by
        have h1 : s1.sig.toNat = 1 := by omega
        exact U128.toNat_inj (h1.trans u128_one.symm)
      have htr : s1.trunc = 0 := by rw [hR.tr]; rfl
      have hen : s1.eneg = false := hR.eneg
      have hexp : s1.exp = 0 := by
        apply Int64.toInt_inj.mp
        have h0 := hR.ex0
        have h1 := hR.ex1
        simp only at h1
        show s1.exp.toInt = 0
        omega
      have hnf := hR.nfrac
      simp only at hnf
      refine ⟨by rw [e4, hs2]; exact hsig, by rw [e2, hs2]; exact htr, by rw [e3, hs2]; exact hen, ?_, ?_⟩
      · rw [e5, hs2]
        show List.foldl _ s1.exp cexExp = _
        rw [hexp]; exact expFold_cex
      · rw [e1, hs2]
        show s1.nfrac.toInt = _
        rw [hnf]; push_cast; omega

/-! ## the tail on that state, and the counterexample -/

open Spec SpecRound in
theorem tenth_not_inf (m : Spec.Mode) (neg : Bool) :
    Spec.flushOrRoundS m neg (((1 : Nat) : Rat) + 0) (-1) ≠ .inf neg := by
  intro h
  have hq : (0 : Rat) < ((1 : Nat) : Rat) + 0 := by norm_num
  rw [flushOrRoundS_eq m neg _ hq.le (-1), flushOrRound_eq_roundTo] at h
  · have hpos : (0 : Rat) < (((1 : Nat) : Rat) + 0) * (10 : Rat) ^ (-1 : Int) := by positivity
    have := roundTo_inf_gt_max hpos h
    have h1 : (1 : Rat) ≤ (Spec.Cmax : Rat) := by
      rw [RK.Cmax_val]; norm_num
    have h2 : (1 : Rat) ≤ (10 : Rat) ^ Spec.Emax := one_le_zpow₀ (by norm_num) (by unfold Spec.Emax; omega)
    have h3 : (((1 : Nat) : Rat) + 0) * (10 : Rat) ^ (-1 : Int) < 1 := by norm_num
    nlinarith
  · have : (10 : Rat) ^ (Spec.Emin - 1) ≤ (10 : Rat) ^ (-1 : Int) :=
      zpow_le_zpow_right₀ (by norm_num) (by unfold Spec.Emin; omega)
    simpa using this

local notation "𝔳[" d "]" => Spec.interp (Gen.Decimal.lo d) (Gen.Decimal.hi d)

/-- on the state reached for `N = 2^58` the tail returns a finite value and `nil` -/
theorem finish_cex (g : Globals) (neg : Bool) (m : Spec.Mode)
    (hm : Spec.Mode.ofNat? g.DefaultRoundingMode.toNat = some m) (N : Nat) (hN : N = 2 ^ 58) (s : S2)
    (hce : s.caneof = true) (hsd : s.sawdig = true) (hsig : s.sig = ⟨1, 0⟩) (htr : s.trunc = 0)
    (hen : s.eneg = false) (hexp : s.exp = (288230376151711744 : Int64))
    (hnf : s.nfrac.toInt = ((N + 1 : Nat) : Int)) :
    ∃ v, finish g neg s = .ok (v, Go.Err.nil) ∧ (𝔳[v]).isInf = false := by
  have hsyn : ¬ ((!s.caneof) || (!s.sawdig)) = true := by rw [hce, hsd]; decide
  have hz : ¬ ((s.sig.w0 ||| s.sig.w1) == (0 : UInt64)) = true := by rw [hsig]; decide
  have hx : s.exp.toInt = 288230376151711744 := by rw [hexp]; decide
  have hE := finE_toInt s (by omega) (by omega) (by omega)
  rw [hen] at hE
  simp only [Bool.false_eq_true, if_false] at hE
  generalize hE64 : s.exp - s.nfrac = E64 at hE
  have hE64' : E64 = (if s.eneg then s.exp * (-1 : Int64) else s.exp) - s.nfrac := by
    rw [← hE64, hen]; rfl
  have hEv : E64.toInt = -1 := by rw [hE, hx, hnf, hN]; norm_num
  have h6150 : (6150 : Int64).toInt = 6150 := by decide
  have h6215 : (-6215 : Int64).toInt = -6215 := by decide
  have hb : ¬ decide (E64 > (6150 : Int64)) = true := by
    rw [decide_eq_true_eq, gt_iff_lt, Int64.lt_iff_toInt_lt, h6150]; omega
  have hs : ¬ decide (E64 < (-6215 : Int64)) = true := by
    rw [decide_eq_true_eq, Int64.lt_iff_toInt_lt, h6215]; omega
  have hc16 := conv16_toInt E64 (by omega) (by omega)
  have hs1 : s.sig.toNat = 1 := by rw [hsig]; exact u128_one
  obtain ⟨sig', exp', hred, hpost⟩ := reduce128_correct g.DefaultRoundingMode m neg s.sig
    (Go.conv (E64 + (6176 : Int64)) : Int16) s.trunc 0 hm
    (by rw [hc16]; omega) (by rw [hc16]; omega)
    (Or.inl ⟨by rw [htr]; decide, rfl⟩) (by rw [hs1]; norm_num)
    (fun h => absurd h (by rw [htr]; decide)) (fun h => absurd h (by rw [htr]; decide))
    (fun h => absurd h (by rw [htr]; decide))
  rw [finish_red g neg s hsyn hz E64 hE64' hb hs (sig', exp') hred]
  rw [hc16, hEv, hs1] at hpost
  have e12 : (exp' > (12287 : Int16)) ↔ exp'.toInt > 12287 := by
    rw [gt_iff_lt, Int16.lt_iff_toInt_lt]; simp
  have hov : ¬ exp'.toInt > 12287 := by
    intro hov
    rw [if_pos hov] at hpost
    exact tenth_not_inf m neg (by simpa using hpost)
  rw [if_neg hov] at hpost
  rw [if_neg (by simpa [e12] using hov)]
  refine ⟨_, rfl, ?_⟩
  show (𝔳[Gen.compose neg sig' exp']).isInf = false
  rw [Sp.interp_compose neg sig' exp' hpost.1 hpost.2.1 (by omega)]
  rfl

/-- **a length bound of `parseNumber_value` is necessary.**  For the input
    `"0." ++ 2^58 zeros ++ "1e2882303761517117440"` (`2^58 + 23` bytes) the specification reads the literal
    `1 · 10^(10·2^58 − 2^58 − 1)`, whose value is `±Inf` with a range error in every rounding mode, but
    `parseNumber` returns a finite Decimal and `nil`: the written exponent saturates at `2^58` and cancels against
    the `2^58 + 1` fraction digits. -/
theorem parseNumber_value_bound_necessary (g : Globals) (neg sep : Bool) (m : Spec.Mode)
    (hm : Spec.Mode.ofNat? g.DefaultRoundingMode.toNat = some m) :
    ∃ d : Go.Bytes, d.size = 2 ^ 58 + 23 ∧
      ∃ (n : Nat) (sc : Int), Spec.readNumber sep (d.toList.map toChar) = some (n, sc) ∧
        Spec.literalValue m neg n sc = (.inf neg, true) ∧
        ∃ v, Gen.parseNumber g d neg sep = .ok (v, Go.Err.nil) ∧ (𝔳[v]).isInf = false := by
  obtain ⟨N, hN⟩ : ∃ N : Nat, N = 2 ^ 58 := ⟨_, rfl⟩
  have hlen := cex_length N
  refine ⟨(cex N).toArray, by simp only [List.size_toArray]; omega, 1,
    (2882303761517117440 : Int) - ((N + 1 : Nat) : Int), by simpa using readNumber_cex sep N, ?_, ?_⟩
  · have hbig := lit_big m neg 1 1 0 0 ((2882303761517117440 : Int) - ((N + 1 : Nat) : Int)) (by norm_num)
      (by norm_num) (by rw [hN]; norm_num)
    unfold Spec.literalValue
    have : ((1 : Nat) == 0) = false := rfl
    simp only [this, Bool.false_eq_true, if_false, hbig]
    rfl
  · obtain ⟨s, hrun, hce, hsd, hsig, htr, hen, hexp, hnf⟩ := run2_cex sep N (by omega)
    obtain ⟨v, hfin, hv⟩ := finish_cex g neg m hm N hN s hce hsd hsig htr hen hexp hnf
    refine ⟨v, ?_, hv⟩
    rw [parseNumber_eq_model g _ neg sep (by simp only [List.size_toArray]; omega)]
    unfold model
    rw [List.toList_toArray, loops_eq_run2, hrun]
    exact hfin

end ParseLong
