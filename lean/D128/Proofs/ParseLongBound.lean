/-
  The length bound of `Props.C05.parseNumber_value` is necessary: a machine-checked counterexample of
  `10^9 + 15` bytes.

  The input `"0." ++ 10^9 zeros ++ "1e10000000000"` is an accepted numeral with literal value
  `1 · 10^(10^10 − 10^9 − 1)`, far beyond the largest finite Decimal, so the specification demands `±Inf` and
  the range error.  `parseNumber` saturates the written exponent at `10^9` (ten digits), subtracts the
  `10^9 + 1` fraction digits and hands `1 · 10^-1` to `reduce128`: it returns a finite value and `nil`.
  (The real `Parse` returns `0.1, nil` on this input.)

  * `ParseLong.cex N`                 the bytes `"0." ++ N zeros ++ "1e10000000000"`
  * `ParseLong.readNumber_cex`        `Spec.readNumber sep (cex N) = some (1, 10^10 − (N+1))`
  * `ParseLong.run2_cex`              the state `parseNumber` reaches: `sig = 1`, `nfrac = N+1`, `exp = 10^9`, `trunc = 0`
  * `ParseLong.parseNumber_value_bound_necessary`   the counterexample for `N = 10^9`
-/
import D128.Proofs.ParseLongTop
import D128.Proofs.ParseValueSpec

set_option linter.unusedSimpArgs false
set_option linter.unusedVariables false

namespace ParseLong
open Parse

/-- `N` zeros followed by `1` -/
def cexFrac (N : Nat) : List UInt8 := List.replicate N 48 ++ [49]
/-- the exponent digits `10000000000` (`10^10`) -/
def cexExp : List UInt8 := [49, 48, 48, 48, 48, 48, 48, 48, 48, 48, 48]
/-- `"0." ++ N zeros ++ "1"` -/
def cexPre (N : Nat) : List UInt8 := [48] ++ (46 :: cexFrac N)
/-- `"0." ++ N zeros ++ "1e10000000000"` -/
def cex (N : Nat) : List UInt8 := cexPre N ++ (101 :: ([] ++ cexExp))

theorem cex_length (N : Nat) : (cex N).length = N + 15 := by
  simp [cex, cexPre, cexFrac, cexExp]

/-! ## the specification -/

theorem val_zeros (N : Nat) : val (List.replicate N 48) = 0 := by
  induction N with
  | zero => rfl
  | succ k ih =>
    rw [List.replicate_succ, val_cons, ih]
    show (48 - 48) * _ + 0 = 0
    simp

theorem isDig_frac (N : Nat) : ∀ c ∈ cexFrac N, isDig c = true := by
  intro c hc
  rcases List.mem_append.mp hc with h | h
  · rw [List.eq_of_mem_replicate h]; decide
  · rw [List.mem_singleton.mp h]; decide

theorem readNumber_cex (sep : Bool) (N : Nat) :
    Spec.readNumber sep ((cex N).map toChar) = some (1, (10 ^ 10 : Int) - ((N + 1 : Nat) : Int)) := by
  have h := readNumber_canonical sep [48] (cexFrac N) [] cexExp true true 101
    (by decide) (isDig_frac N) (by decide) (fun h => by cases h) (by simp) (Or.inl rfl) (Or.inl rfl)
    (fun _ => by decide) (fun h => by cases h)
  have hv : val ([48] ++ cexFrac N) = 1 := by
    rw [val_append, cexFrac, val_append, val_zeros]
    show (48 - 48) * _ + (0 * _ + (49 - 48)) = 1
    simp
  have hl : (cexFrac N).length = N + 1 := by simp [cexFrac]
  have he : val cexExp = 10 ^ 10 := by decide
  rw [hv, hl, he] at h
  simp only [if_true] at h
  rw [show cex N = [48] ++ (46 :: cexFrac N) ++ (101 :: ([] ++ cexExp)) from rfl, h]
  simp

/-! ## the ghost -/

theorem gfold_zeros (N : Nat) (g : G) (hn : g.n = 0) (hd : g.dot = true) (he : g.exp = false) :
    gfold (List.replicate N 48) g = { g with nd := g.nd + N, nf := g.nf + N } := by
  induction N generalizing g with
  | zero => rfl
  | succ k ih =>
    rw [List.replicate_succ, gfold_cons, gstep_dig_sig 48 g (by decide) he]
    have hn' : g.n * 10 + dval 48 = 0 := by rw [hn]; rfl
    rw [ih { g with n := g.n * 10 + dval 48, nd := g.nd + 1, nf := if g.dot then g.nf + 1 else g.nf } hn' hd he]
    simp only [hd, if_true, hn', hn]
    congr 1 <;> omega

theorem gfold_cexPre (N : Nat) : gfold (cexPre N) g0 = ⟨1, N + 2, N + 1, 0, true, false, false⟩ := by
  show gfold ([48] ++ (46 :: (List.replicate N 48 ++ [49]))) g0 = _
  rw [List.singleton_append, gfold_cons, gfold_cons, gfold_append]
  have h1 : gstep 46 (gstep 48 g0) = ⟨0, 1, 0, 0, true, false, false⟩ := by decide
  rw [h1, gfold_zeros N _ rfl rfl rfl, gfold_cons, gfold_nil, gstep_dig_sig 49 _ (by decide) rfl]
  have : dval 49 = 1 := rfl
  simp only [this, if_true]
  congr 1 <;> omega

/-! ## the exponent digits, saturating -/

theorem step2_e_some (sep : Bool) (s s' : S2) (h : step2 sep 101 s = some s') :
    s' = ⟨s.nfrac, s.trunc, false, false, true, s.eneg, s.sawdig, s.sawdot, true, s.sig, s.exp⟩ := by
  unfold step2 at h
  simp only [isDig_101, Bool.false_eq_true, if_false, show ((101 : UInt8) == 46) = false by decide,
    show ((101 : UInt8) == 69 || (101 : UInt8) == 101) = true by decide, if_true] at h
  split at h
  · cases h
  · injection h with h; exact h.symm

theorem step2_exp_any (sep : Bool) (c : UInt8) (s : S2) (hd : isDig c = true) (he : s.sawexp = true) :
    step2 sep c s = some ⟨s.nfrac, s.trunc, true, true, false, s.eneg, true, s.sawdot, s.sawexp, s.sig,
      expDigit c s.exp⟩ := by
  unfold step2; simp only [hd, he, if_true]

theorem run2_exp_digits (sep : Bool) (ds : List UInt8) (s s' : S2) (hds : ∀ c ∈ ds, isDig c = true)
    (he : s.sawexp = true) (h : run2 sep ds s = some s') :
    s'.nfrac = s.nfrac ∧ s'.trunc = s.trunc ∧ s'.eneg = s.eneg ∧ s'.sig = s.sig ∧
      s'.exp = ds.foldl (fun e c => expDigit c e) s.exp := by
  induction ds generalizing s with
  | nil =>
    rw [run2_nil] at h; injection h with h; subst h
    exact ⟨rfl, rfl, rfl, rfl, rfl⟩
  | cons c r ih =>
    rw [run2_cons, step2_exp_any sep c s (hds c List.mem_cons_self) he, Option.bind_some] at h
    obtain ⟨h1, h2, h3, h4, h5⟩ := ih ⟨s.nfrac, s.trunc, true, true, false, s.eneg, true, s.sawdot, s.sawexp, s.sig,
      expDigit c s.exp⟩ (fun x hx => hds x (List.mem_cons_of_mem _ hx)) he h
    exact ⟨h1, h2, h3, h4, by rw [h5]; rfl⟩

theorem expFold_toInt (ds : List UInt8) (hds : ∀ c ∈ ds, isDig c = true) (e : Int64) (h0 : 0 ≤ e.toInt) :
    0 ≤ (ds.foldl (fun e c => expDigit c e) e).toInt ∧
    (ds.foldl (fun e c => expDigit c e) e).toInt =
      ds.foldl (fun (x : Int) c => if x < 10 ^ 9 then x * 10 + (dval c : Int) else x) e.toInt := by
  induction ds generalizing e with
  | nil => exact ⟨h0, rfl⟩
  | cons c r ih =>
    have hc := hds c List.mem_cons_self
    have hE := expDigit_toInt c hc e h0
    have h0' : 0 ≤ (expDigit c e).toInt := by rw [hE]; split <;> omega
    obtain ⟨h1, h2⟩ := ih (fun x hx => hds x (List.mem_cons_of_mem _ hx)) (expDigit c e) h0'
    exact ⟨h1, by rw [List.foldl_cons, h2, hE]; rfl⟩

theorem expFold_cex : cexExp.foldl (fun e c => expDigit c e) (0 : Int64) = (1000000000 : Int64) := by
  apply Int64.toInt_inj.mp
  rw [(expFold_toInt cexExp (by decide) 0 (by decide)).2]
  decide

/-- the state `parseNumber` reaches on `cex N` -/
theorem run2_cex (sep : Bool) (N : Nat) (hN : N + 15 < 2 ^ 62) :
    ∃ s, run2 sep (cex N) (toS2 init1) = some s ∧ s.caneof = true ∧ s.sawdig = true ∧
      s.sig = ⟨1, 0⟩ ∧ s.trunc = 0 ∧ s.eneg = false ∧ s.exp = (1000000000 : Int64) ∧
      s.nfrac.toInt = ((N + 1 : Nat) : Int) := by
  obtain ⟨s, hrun, hce, hsd⟩ := accepted_run2 sep (cex N) _ (readNumber_cex sep N)
  refine ⟨s, hrun, hce, hsd, ?_⟩
  rw [cex, run2_append] at hrun
  cases h1 : run2 sep (cexPre N) (toS2 init1) with
  | none => rw [h1] at hrun; cases hrun
  | some s1 =>
    rw [h1, Option.bind_some, List.nil_append, run2_cons] at hrun
    cases h2 : step2 sep 101 s1 with
    | none => rw [h2] at hrun; cases hrun
    | some s2 =>
      rw [h2, Option.bind_some] at hrun
      have hs2 := step2_e_some sep s1 s2 h2
      obtain ⟨e1, e2, e3, e4, e5⟩ := run2_exp_digits sep cexExp s2 s (by decide) (by rw [hs2]) hrun
      -- the state after the significand
      have hlen : (cexPre N).length = N + 3 := by simp [cexPre, cexFrac]
      obtain ⟨k, r, hR⟩ := run2_rel sep (cexPre N) (toS2 init1) s1 g0 0 0 h1 rel_init g0_inv
        (by rw [hlen]; show 0 + (N + 3) < 2 ^ 62; omega)
      rw [gfold_cexPre] at hR
      have hval := hR.val
      have hrlt := hR.rlt
      simp only at hval
      have hk0 : k = 0 := by
        by_contra hne
        have hw := hR.kpos (Nat.pos_of_ne_zero hne)
        rw [UInt64.le_iff_toNat_le] at hw
        have e1 : (1801439850948198399 : UInt64).toNat = 1801439850948198399 := rfl
        rw [e1] at hw
        have hsig : 2 ^ 64 ≤ s1.sig.toNat := by unfold U128.toNat; omega
        have : 1 ≤ 10 ^ k := Nat.one_le_pow _ _ (by decide)
        have : s1.sig.toNat * 1 ≤ s1.sig.toNat * 10 ^ k := Nat.mul_le_mul_left _ this
        omega
      subst hk0
      have hr0 : r = 0 := by simpa using hrlt
      subst hr0
      have hsig : s1.sig = ⟨1, 0⟩ := by
        apply U128.toNat_inj
        simp only [Nat.pow_zero, Nat.mul_one, Nat.add_zero] at hval
        rw [← hval]; rfl
      have htr : s1.trunc = 0 := by rw [hR.tr]; rfl
      have hen : s1.eneg = false := hR.eneg
      have hexp : s1.exp = 0 := by
        apply Int64.toInt_inj.mp
        have h0 := hR.ex0
        have h1 := hR.ex1
        simp only at h1
        show s1.exp.toInt = 0
        omega
      have hnf := hR.nfrac
      simp only at hnf
      refine ⟨by rw [e4, hs2]; exact hsig, by rw [e2, hs2]; exact htr, by rw [e3, hs2]; exact hen, ?_, ?_⟩
      · rw [e5, hs2]
        show List.foldl _ s1.exp cexExp = _
        rw [hexp]; exact expFold_cex
      · rw [e1, hs2]
        show s1.nfrac.toInt = _
        rw [hnf]; push_cast; omega

end ParseLong
