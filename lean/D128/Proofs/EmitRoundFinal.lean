/-
  D128/Proofs/EmitRoundFinal.lean — the round trips of `D128/Proofs/EmitRound.lean` without hypotheses: the
  parser's value theorems `Props.C05.parse_value` / `Props.C05.parseNumber_value` (D128/Props/C05Value.lean) are
  instantiated (the emitted text has at most 12500 bytes), and the result is stated with `Spec.equal`.

  * `Emit.equal_of_same`              : `Val.same v (.fin n c e)` gives `Spec.equal v (.fin n c e)` and `v.neg = n`
  * `Emit.string_parse_rt`, `Emit.marshalText_parse_rt`, `Emit.json_rt` : the unconditional round trips (`Val.same`)
  * `Emit.string_parse_equal`, `Emit.marshalText_parse_equal`, `Emit.json_equal` : the same with `Spec.equal`
        and equal sign (also −0 and zeros with any exponent), for every valid `DefaultRoundingMode`
  * `Emit.interp_nan_isNaN`, `Emit.interp_inf` : what `Gen.nan` / `Gen.inf` denote
  * `Emit.string_parse_nan`, `Emit.string_parse_inf`, `Emit.marshalText_parse_nan`,
    `Emit.marshalText_parse_inf`     : NaN / ±Inf print as names that parse back to NaN / ±Inf
-/
import D128.Proofs.EmitRound
import D128.Proofs.CanonEq
import D128.Props.C05Value
set_option autoImplicit false
namespace Emit

/-- the value a bit pattern denotes -/
local notation "𝔳[" d "]" => Spec.interp (Gen.Decimal.lo d) (Gen.Decimal.hi d)

/-- same sign and value on a finite Decimal: `Equal` and the same sign bit -/
theorem equal_of_same (v : Spec.Val) (n : Bool) (c : Nat) (e : Int) (h : v.same (.fin n c e) = true) :
    Spec.equal v (.fin n c e) = true ∧ v.neg = n ∧ v.isFin = true := by
  cases v with
  | nan n' p => simp [Spec.Val.same] at h
  | inf n' => simp [Spec.Val.same] at h
  | fin n' c' e' =>
    simp only [Spec.Val.same, Bool.and_eq_true, beq_iff_eq] at h
    obtain ⟨rfl, hm⟩ := h
    exact ⟨(CanonPf.equal_fin_iff _ _ _ _ _).mpr hm, rfl, rfl⟩

/-! ## unconditional round trips -/

/-- **`parse (String d)`** has the sign and the value of `d`, for every finite bit pattern and every valid
default rounding mode; no error. -/
theorem string_parse_rt (g : Globals) (op : UInt64) (m : Spec.Mode)
    (hm : Spec.Mode.ofNat? g.DefaultRoundingMode.toNat = some m) (d : Gen.Decimal) (neg : Bool)
    (c : Nat) (e : Int) (hfin : 𝔳[d] = .fin neg c e) :
    ∃ out v, Gen.Decimal.String d = .ok out ∧ Gen.parse g out op = .ok (v, Go.Err.nil) ∧
      (𝔳[v]).same (𝔳[d]) = true :=
  string_parse_roundtrip g op m d neg c e hfin
    (fun s neg n sc hsz h => Props.C05.parse_value g s op m hm hsz neg n sc h)

theorem marshalText_parse_rt (g : Globals) (op : UInt64) (m : Spec.Mode)
    (hm : Spec.Mode.ofNat? g.DefaultRoundingMode.toNat = some m) (d : Gen.Decimal) (neg : Bool)
    (c : Nat) (e : Int) (hfin : 𝔳[d] = .fin neg c e) :
    ∃ out v, Gen.Decimal.MarshalText d = .ok (out, Go.Err.nil) ∧
      Gen.parse g out op = .ok (v, Go.Err.nil) ∧ (𝔳[v]).same (𝔳[d]) = true :=
  marshalText_parse_roundtrip g op m d neg c e hfin
    (fun s neg n sc hsz h => Props.C05.parse_value g s op m hm hsz neg n sc h)

/-- **`UnmarshalJSON (MarshalJSON d)`** (any receiver `d0`) has the sign and the value of `d`; no error. -/
theorem json_rt (g : Globals) (m : Spec.Mode)
    (hm : Spec.Mode.ofNat? g.DefaultRoundingMode.toNat = some m) (d d0 : Gen.Decimal) (neg : Bool)
    (c : Nat) (e : Int) (hfin : 𝔳[d] = .fin neg c e) :
    ∃ out v, Gen.Decimal.MarshalJSON d = .ok (out, Go.Err.nil) ∧
      Gen.Decimal.UnmarshalJSON g d0 out = .ok (v, Go.Err.nil) ∧ (𝔳[v]).same (𝔳[d]) = true :=
  json_roundtrip g m d d0 neg c e hfin
    (fun s neg n sc hsz h => Props.C05.parseNumber_value g s neg false m hm hsz n sc h)

/-! ## with `Spec.equal` -/

theorem string_parse_equal (g : Globals) (op : UInt64) (m : Spec.Mode)
    (hm : Spec.Mode.ofNat? g.DefaultRoundingMode.toNat = some m) (d : Gen.Decimal) (neg : Bool)
    (c : Nat) (e : Int) (hfin : 𝔳[d] = .fin neg c e) :
    ∃ out v, Gen.Decimal.String d = .ok out ∧ Gen.parse g out op = .ok (v, Go.Err.nil) ∧
      Spec.equal (𝔳[v]) (𝔳[d]) = true ∧ (𝔳[v]).neg = (𝔳[d]).neg ∧ (𝔳[v]).isFin = true := by
  obtain ⟨out, v, ho, hp, hs⟩ := string_parse_rt g op m hm d neg c e hfin
  rw [hfin] at hs ⊢
  obtain ⟨h1, h2, h3⟩ := equal_of_same _ neg c e hs
  exact ⟨out, v, ho, hp, h1, h2, h3⟩

theorem marshalText_parse_equal (g : Globals) (op : UInt64) (m : Spec.Mode)
    (hm : Spec.Mode.ofNat? g.DefaultRoundingMode.toNat = some m) (d : Gen.Decimal) (neg : Bool)
    (c : Nat) (e : Int) (hfin : 𝔳[d] = .fin neg c e) :
    ∃ out v, Gen.Decimal.MarshalText d = .ok (out, Go.Err.nil) ∧
      Gen.parse g out op = .ok (v, Go.Err.nil) ∧
      Spec.equal (𝔳[v]) (𝔳[d]) = true ∧ (𝔳[v]).neg = (𝔳[d]).neg ∧ (𝔳[v]).isFin = true := by
  obtain ⟨out, v, ho, hp, hs⟩ := marshalText_parse_rt g op m hm d neg c e hfin
  rw [hfin] at hs ⊢
  obtain ⟨h1, h2, h3⟩ := equal_of_same _ neg c e hs
  exact ⟨out, v, ho, hp, h1, h2, h3⟩

theorem json_equal (g : Globals) (m : Spec.Mode)
    (hm : Spec.Mode.ofNat? g.DefaultRoundingMode.toNat = some m) (d d0 : Gen.Decimal) (neg : Bool)
    (c : Nat) (e : Int) (hfin : 𝔳[d] = .fin neg c e) :
    ∃ out v, Gen.Decimal.MarshalJSON d = .ok (out, Go.Err.nil) ∧
      Gen.Decimal.UnmarshalJSON g d0 out = .ok (v, Go.Err.nil) ∧
      Spec.equal (𝔳[v]) (𝔳[d]) = true ∧ (𝔳[v]).neg = (𝔳[d]).neg ∧ (𝔳[v]).isFin = true := by
  obtain ⟨out, v, ho, hp, hs⟩ := json_rt g m hm d d0 neg c e hfin
  rw [hfin] at hs ⊢
  obtain ⟨h1, h2, h3⟩ := equal_of_same _ neg c e hs
  exact ⟨out, v, ho, hp, h1, h2, h3⟩

/-! ## NaN and infinities -/

theorem interp_nan_isNaN (op : UInt64) : (𝔳[Gen.nan op 0 0]).isNaN = true := by
  rw [Enc.interp_isNaN, Enc.IsNaN_eq]
  show decide ((8935141660703064064 : UInt64).toNat / 2 ^ 58 % 32 = 31) = true
  decide

theorem interp_inf (neg : Bool) : 𝔳[Gen.inf neg] = .inf neg := by cases neg <;> decide

theorem read_nan : Spec.readLiteral true true (chars (Go.str "NaN")) = some (.nan false) := by decide
theorem read_pinf : Spec.readLiteral true true (chars (Go.str "+Inf")) = some (.inf false) := by decide
theorem read_ninf : Spec.readLiteral true true (chars (Go.str "-Inf")) = some (.inf true) := by decide

/-- NaN prints as `NaN`, which parses back to a NaN -/
theorem string_parse_nan (g : Globals) (op : UInt64) (d : Gen.Decimal) (n : Bool) (p : UInt64)
    (h : 𝔳[d] = .nan n p) :
    ∃ v, Gen.Decimal.String d = .ok (Go.str "NaN") ∧ Gen.parse g (Go.str "NaN") op = .ok (v, Go.Err.nil) ∧
      (𝔳[v]).isNaN = true :=
  ⟨_, string_nan d n p h, (Props.C05.parse_names g (Go.str "NaN") op (by decide)).2 false read_nan,
    interp_nan_isNaN op⟩

/-- ±Inf prints as `+Inf` / `-Inf`, which parses back to the same infinity -/
theorem string_parse_inf (g : Globals) (op : UInt64) (d : Gen.Decimal) (n : Bool) (h : 𝔳[d] = .inf n) :
    ∃ out v, Gen.Decimal.String d = .ok out ∧ out = (if n then Go.str "-Inf" else Go.str "+Inf") ∧
      Gen.parse g out op = .ok (v, Go.Err.nil) ∧ 𝔳[v] = 𝔳[d] := by
  refine ⟨_, Gen.inf n, string_inf d n h, rfl, ?_, by rw [h, interp_inf]⟩
  cases n
  · exact (Props.C05.parse_names g (Go.str "+Inf") op (by decide)).1 false read_pinf
  · exact (Props.C05.parse_names g (Go.str "-Inf") op (by decide)).1 true read_ninf

theorem marshalText_parse_nan (g : Globals) (op : UInt64) (d : Gen.Decimal) (n : Bool) (p : UInt64)
    (h : 𝔳[d] = .nan n p) :
    ∃ v, Gen.Decimal.MarshalText d = .ok (Go.str "NaN", Go.Err.nil) ∧
      Gen.parse g (Go.str "NaN") op = .ok (v, Go.Err.nil) ∧ (𝔳[v]).isNaN = true :=
  ⟨_, marshalText_nan d n p h, (Props.C05.parse_names g (Go.str "NaN") op (by decide)).2 false read_nan,
    interp_nan_isNaN op⟩

theorem marshalText_parse_inf (g : Globals) (op : UInt64) (d : Gen.Decimal) (n : Bool)
    (h : 𝔳[d] = .inf n) :
    ∃ out v, Gen.Decimal.MarshalText d = .ok (out, Go.Err.nil) ∧
      out = (if n then Go.str "-Inf" else Go.str "+Inf") ∧
      Gen.parse g out op = .ok (v, Go.Err.nil) ∧ 𝔳[v] = 𝔳[d] := by
  refine ⟨_, Gen.inf n, marshalText_inf d n h, rfl, ?_, by rw [h, interp_inf]⟩
  cases n
  · exact (Props.C05.parse_names g (Go.str "+Inf") op (by decide)).1 false read_pinf
  · exact (Props.C05.parse_names g (Go.str "-Inf") op (by decide)).1 true read_ninf

end Emit
