/-
  D128/Proofs/DigitsGen.lean — `Gen.Decimal.digits_` (Go: `func (d Decimal) digits(digs *digits)`).

  * `Dg.valF`, `Dg.val`, `Dg.valF_congr`, `Dg.valF_lt`, `Dg.val_succ`, `Dg.val_zero`, `Dg.val_congr`
                            : least-significant-first value of the bytes written so far
  * `Dg.ofMsd_map_range`    : a most-significant-first list is the mirror image of that reading
  * `Dg.Inv`                : invariant of the two pair-extraction loops
        c = (S·10^n + val dig n)·10^k,  exp = e0 + k,  ASCII digits, dig[0] ≠ '0', …
  * `Dg.pow_bound`, `Dg.inv_count`, `Dg.inv_bounds`, `Dg.inv_idx`, `Dg.inv_idx1` : at most 34
        positions are in use while something is left to convert (no index leaves `dig[0..39)`)
  * `Dg.conv_exp`, `Dg.inv_init`, `Dg.inv_strip2`, `Dg.inv_strip1`, `Dg.inv_one`, `Dg.inv_two`,
    `Dg.inv_final`          : the pure step lemmas (one per branch of the loop bodies)
  * `Dg.RevInv`, `Dg.rev_init`, `Dg.rev_idx`, `Dg.rev_step` : the in-place reversal loop
  * `Dg.DigitsPost`         : post-condition  neg = Signbit ∧ WF r ∧ slice r = Spec.sliceOf c e ∧
        (c ≠ 0 → ∃ k, c = ofMsd (slice r).ds · 10^k ∧ exp = e + k)
  * `Dg.post_of_rev`, `Dg.post_zero`
  * bridging of the Boolean tests: `Dg.sig_lt`, `Dg.exp_lt`, `Dg.u128_*`, `Dg.u64_*`, `Dg.beq48`, …
  * `Dg.digits_triple`      : the Hoare triple for ALL bit patterns `d` (no panic, termination)
  * `Dg.digits_ok`          : `∃ r, Gen.Decimal.digits_ d digs = .ok r ∧ DigitsPost d r`
  * `Dg.digits_exp_bound`, `Dg.digits_expOK` : `-6176 ≤ exp ≤ 10241` for the produced record
-/
import D128.Proofs.Digits
import D128.Proofs.Encoding

set_option autoImplicit false
set_option maxRecDepth 4096
open Std.Do

namespace Dg

/-! ## least-significant-first value -/

def valF (g : Nat → Nat) : Nat → Nat
  | 0 => 0
  | n + 1 => valF g n + g n * 10 ^ n

theorem valF_congr (f g : Nat → Nat) (n : Nat) (h : ∀ t, t < n → f t = g t) :
    valF f n = valF g n := by
  induction n with
  | zero => rfl
  | succ n ih =>
    simp only [valF]
    rw [ih (fun t ht => h t (by omega)), h n (by omega)]

theorem valF_lt (g : Nat → Nat) (n : Nat) (h : ∀ t, t < n → g t < 10) : valF g n < 10 ^ n := by
  induction n with
  | zero => simp [valF]
  | succ n ih =>
    have := ih (fun t ht => h t (by omega))
    have := h n (by omega)
    simp only [valF, Nat.pow_succ]
    nlinarith [Nat.pow_pos (n := n) (show 0 < 10 by decide)]

/-- a most-significant-first list is the mirror image of the least-significant-first reading -/
theorem ofMsd_map_range (f g : Nat → Nat) (n : Nat) (h : ∀ t, t < n → f t = g (n - 1 - t)) :
    ofMsd ((List.range n).map f) = valF g n := by
  induction n generalizing f with
  | zero => rfl
  | succ n ih =>
    rw [List.range_succ_eq_map, List.map_cons, List.map_map, ofMsd_cons, List.length_map,
      List.length_range, ih (f ∘ Nat.succ)]
    · simp only [valF]
      have := h 0 (by omega)
      simp only [Nat.add_sub_cancel, Nat.sub_zero] at this
      rw [this]; ring
    · intro t ht
      have := h (t + 1) (by omega)
      simp only [Function.comp, Nat.succ_eq_add_one]
      rw [this]; congr 1; omega

/-- value of `dig[0..n)` read least-significant-first (the order in which `digits` writes) -/
def val (dig : Vector UInt8 39) (n : Nat) : Nat := valF (fun t => dv (at_ dig t)) n

theorem val_succ (dig : Vector UInt8 39) (n : Nat) :
    val dig (n + 1) = val dig n + dv (at_ dig n) * 10 ^ n := rfl

theorem val_zero (dig : Vector UInt8 39) : val dig 0 = 0 := rfl

theorem val_congr (a b : Vector UInt8 39) (n : Nat) (h : ∀ t, t < n → at_ a t = at_ b t) :
    val a n = val b n :=
  valF_congr _ _ n (fun t ht => by rw [h t ht])

theorem dv_of_toNat (x : UInt8) (v : Nat) (h : x.toNat = 48 + v) : dv x = v := by
  unfold dv; omega

theorem isDig_of_toNat (x : UInt8) (v : Nat) (h : x.toNat = 48 + v) (hv : v < 10) : isDig x := by
  unfold isDig; omega

/-! ## the pair-extraction loops -/

/-- loop invariant of the two pair-extraction loops: `S` is the part of the coefficient `c` still
to be converted, `n` bytes have been written (least significant first), `k` zeros were stripped -/
def Inv (c : Nat) (e0 : Int) (neg : Bool) (S : Nat) (n : Int64) (dg : Gen.digits) : Prop :=
  ∃ k nn : Nat, n.toInt = (nn : Int) ∧ nn ≤ 36 ∧ c = (S * 10 ^ nn + val dg.dig nn) * 10 ^ k ∧
    dg.exp.toInt = e0 + k ∧ dg.neg = neg ∧
    (∀ t, t < nn → isDig (at_ dg.dig t)) ∧ (0 < nn → dv (at_ dg.dig 0) ≠ 0) ∧
    (S = 0 → 0 < nn → dv (at_ dg.dig (nn - 1)) ≠ 0)

theorem pow_bound (a b : Nat) (h : 10 ^ a ≤ b) (hb : b < 10 ^ 35) : a ≤ 34 := by
  have : 10 ^ a < 10 ^ 35 := Nat.lt_of_le_of_lt h hb
  have := (Nat.pow_lt_pow_iff_right (a := 10) (by decide)).mp this
  omega

/-- while something is left to convert, at most 34 positions (digits + stripped zeros) are used -/
theorem inv_count {c S nn k v : Nat} (hc : c < 10 ^ 35) (hS : S ≠ 0)
    (h : c = (S * 10 ^ nn + v) * 10 ^ k) : nn + k ≤ 34 := by
  apply pow_bound (nn + k) c _ hc
  rw [h, Nat.pow_add]
  have : 1 ≤ S := Nat.pos_of_ne_zero hS
  have h1 : 10 ^ nn ≤ S * 10 ^ nn + v := by nlinarith [Nat.pow_pos (n := nn) (show 0 < 10 by decide)]
  exact Nat.mul_le_mul_right _ h1

theorem inv_bounds {c : Nat} {e0 : Int} {neg : Bool} {S : Nat} {n : Int64} {dg : Gen.digits}
    (h : Inv c e0 neg S n dg) (hc : c < 10 ^ 35) (hS : S ≠ 0) :
    0 ≤ n.toInt ∧ n.toInt ≤ 34 := by
  obtain ⟨k, nn, hn, _, hceq, _⟩ := h
  have := inv_count hc hS hceq
  omega

theorem inv_idx {c : Nat} {e0 : Int} {neg : Bool} {S : Nat} {n : Int64} {dg : Gen.digits}
    (h : Inv c e0 neg S n dg) (hc : c < 10 ^ 35) (hS : S ≠ 0) :
    0 ≤ Go.idx n ∧ (Go.idx n).toNat < 39 := by
  have := inv_bounds h hc hS
  show 0 ≤ n.toInt ∧ n.toInt.toNat < 39
  omega

theorem inv_idx1 {c : Nat} {e0 : Int} {neg : Bool} {S : Nat} {n : Int64} {dg : Gen.digits}
    (h : Inv c e0 neg S n dg) (hc : c < 10 ^ 35) (hS : S ≠ 0) :
    0 ≤ Go.idx (n + 1) ∧ (Go.idx (n + 1)).toNat < 39 := by
  have := inv_bounds h hc hS
  show 0 ≤ (n + 1).toInt ∧ (n + 1).toInt.toNat < 39
  have e1 : (1 : Int64).toInt = 1 := by decide
  rw [i64_add n 1 (by rw [e1]; omega) (by rw [e1]; omega), e1]
  omega

theorem conv_exp (exp : Int16) (h0 : 0 ≤ exp.toInt) (h1 : exp.toInt < 16384) :
    (Go.conv (exp - (6176 : Int16)) : Int64).toInt = exp.toInt - 6176 := by
  have e : (exp - (6176 : Int16)).toInt = exp.toInt - 6176 := by
    rw [Int16.toInt_sub]
    have : (6176 : Int16).toInt = 6176 := by decide
    rw [this, Int.bmod_eq_emod]; split <;> omega
  show (Int64.ofInt (exp - (6176 : Int16)).toInt).toInt = _
  rw [e, Int64.toInt_ofInt]
  exact bmod64 _ (by omega) (by omega)

theorem inv_init (c : Nat) (exp : Int16) (neg : Bool) (dig : Vector UInt8 39) (nd : Int64)
    (h0 : 0 ≤ exp.toInt) (h1 : exp.toInt < 16384) :
    Inv c (exp.toInt - 6176) neg c 0
      { neg := neg, dig := dig, exp := (Go.conv (exp - (6176 : Int16)) : Int64), ndig := nd } := by
  refine ⟨0, 0, by decide, by omega, by simp [val_zero], ?_, rfl, ?_, ?_, ?_⟩
  · show (Go.conv (exp - (6176 : Int16)) : Int64).toInt = exp.toInt - 6176 + ((0 : Nat) : Int)
    rw [conv_exp exp h0 h1]; simp
  · intro t ht; omega
  · intro h; omega
  · intro _ h; omega

/-- branch `n == 0 && rem == 0`: two zeros are stripped -/
theorem inv_strip2 {c : Nat} {e0 : Int} {neg : Bool} {S : Nat} {n : Int64} {dg : Gen.digits}
    (h : Inv c e0 neg S n dg) (hc : c < 10 ^ 35) (he : -100000 ≤ e0 ∧ e0 ≤ 100000) (hS : S ≠ 0)
    (hn : n.toInt = 0) (hr : S % 100 = 0) :
    Inv c e0 neg (S / 100) n { neg := dg.neg, dig := dg.dig, exp := dg.exp + 2, ndig := dg.ndig } := by
  obtain ⟨k, nn, hnn, hn36, hceq, hexp, hneg, hdig, hfirst, hlast⟩ := h
  have hcnt := inv_count hc hS hceq
  have hnn0 : nn = 0 := by omega
  subst hnn0
  refine ⟨k + 2, 0, hnn, hn36, ?_, ?_, hneg, hdig, hfirst, fun _ h => absurd h (by omega)⟩
  · rw [hceq]
    simp only [val_zero, Nat.pow_zero, Nat.mul_one, Nat.add_zero]
    have : S = S / 100 * 100 := by omega
    rw [Nat.pow_add]
    calc S * 10 ^ k = (S / 100 * 100) * 10 ^ k := by rw [← this]
      _ = S / 100 * (10 ^ k * 10 ^ 2) := by ring
  · show (dg.exp + 2).toInt = e0 + ((k + 2 : Nat) : Int)
    have e2 : (2 : Int64).toInt = 2 := by decide
    rw [i64_add _ _ (by rw [e2, hexp]; omega) (by rw [e2, hexp]; omega), e2, hexp]
    push_cast; ring

/-- branch `n == 0 && pair[1] == '0'`: one zero is stripped, the tens digit is the first digit -/
theorem inv_strip1 {c : Nat} {e0 : Int} {neg : Bool} {S : Nat} {n : Int64} {dg : Gen.digits}
    (h : Inv c e0 neg S n dg) (hc : c < 10 ^ 35) (he : -100000 ≤ e0 ∧ e0 ≤ 100000) (hS : S ≠ 0)
    (hn : n.toInt = 0) (hr : S % 100 ≠ 0) (hr1 : S % 100 % 10 = 0)
    (x : UInt8) (hx : x.toNat = 48 + S % 100 / 10) (dig' : Vector UInt8 39)
    (hd : ∀ t, at_ dig' t = if t = (Go.idx n).toNat then x else at_ dg.dig t) :
    Inv c e0 neg (S / 100) (n + 1)
      { neg := dg.neg, dig := dig', exp := dg.exp + 1, ndig := dg.ndig } := by
  obtain ⟨k, nn, hnn, hn36, hceq, hexp, hneg, hdig, hfirst, hlast⟩ := h
  have hcnt := inv_count hc hS hceq
  have hnn0 : nn = 0 := by omega
  subst hnn0
  have hidx : (Go.idx n).toNat = 0 := by show n.toInt.toNat = 0; omega
  have h0 : at_ dig' 0 = x := by rw [hd 0, hidx]; simp
  have hdv : dv x = S % 100 / 10 := dv_of_toNat x _ hx
  have e1 : (1 : Int64).toInt = 1 := by decide
  refine ⟨k + 1, 1, ?_, by omega, ?_, ?_, hneg, ?_, ?_, ?_⟩
  · rw [i64_add _ _ (by rw [e1]; omega) (by rw [e1]; omega), e1, hn]; rfl
  · rw [hceq]
    simp only [val_succ, val_zero, Nat.pow_zero, Nat.mul_one, Nat.add_zero, Nat.zero_add, h0, hdv,
      Nat.pow_one]
    have : S = (S / 100 * 10 + S % 100 / 10) * 10 := by omega
    rw [Nat.pow_add]
    calc S * 10 ^ k = ((S / 100 * 10 + S % 100 / 10) * 10) * 10 ^ k := by rw [← this]
      _ = (S / 100 * 10 + S % 100 / 10) * (10 ^ k * 10 ^ 1) := by ring
  · show (dg.exp + 1).toInt = e0 + ((k + 1 : Nat) : Int)
    rw [i64_add _ _ (by rw [e1, hexp]; omega) (by rw [e1, hexp]; omega), e1, hexp]
    push_cast; ring
  · intro t ht
    have : t = 0 := by omega
    subst this; show isDig (at_ dig' 0)
    rw [h0]; exact isDig_of_toNat x _ hx (by omega)
  · intro _; show dv (at_ dig' 0) ≠ 0
    rw [h0, hdv]; omega
  · intro _ _; show dv (at_ dig' (1 - 1)) ≠ 0
    rw [h0, hdv]; omega

/-- branch `pair[0] == '0' && sig == 0`: the last (leading) pair has a single digit -/
theorem inv_one {c : Nat} {e0 : Int} {neg : Bool} {S : Nat} {n : Int64} {dg : Gen.digits}
    (h : Inv c e0 neg S n dg) (hc : c < 10 ^ 35) (hS : S ≠ 0)
    (hn : n.toInt = 0 → S % 100 % 10 ≠ 0) (hr0 : S % 100 / 10 = 0) (hq : S / 100 = 0)
    (x : UInt8) (hx : x.toNat = 48 + S % 100 % 10) (dig' : Vector UInt8 39)
    (hd : ∀ t, at_ dig' t = if t = (Go.idx n).toNat then x else at_ dg.dig t) :
    Inv c e0 neg (S / 100) (n + 1)
      { neg := dg.neg, dig := dig', exp := dg.exp, ndig := dg.ndig } := by
  obtain ⟨k, nn, hnn, hn36, hceq, hexp, hneg, hdig, hfirst, hlast⟩ := h
  have hcnt := inv_count hc hS hceq
  have hidx : (Go.idx n).toNat = nn := by show n.toInt.toNat = nn; omega
  have hnew : at_ dig' nn = x := by rw [hd nn, hidx]; simp
  have hold : ∀ t, t < nn → at_ dig' t = at_ dg.dig t := by
    intro t ht; rw [hd t, hidx, if_neg (by omega)]
  have hdv : dv x = S % 100 % 10 := dv_of_toNat x _ hx
  have e1 : (1 : Int64).toInt = 1 := by decide
  have hSeq : S = S % 100 % 10 := by omega
  refine ⟨k, nn + 1, ?_, by omega, ?_, hexp, hneg, ?_, ?_, ?_⟩
  · rw [i64_add _ _ (by rw [e1]; omega) (by rw [e1]; omega), e1, hnn]; push_cast; ring
  · rw [hceq, hq]
    show _ = (0 * 10 ^ (nn + 1) + val dig' (nn + 1)) * 10 ^ k
    rw [val_succ, val_congr dig' dg.dig nn hold, hnew, hdv]
    congr 1
    rw [← hSeq]; ring
  · intro t ht
    show isDig (at_ dig' t)
    by_cases e : t = nn
    · rw [e, hnew]; exact isDig_of_toNat x _ hx (Nat.mod_lt _ (by decide))
    · rw [hold t (by omega)]; exact hdig t (by omega)
  · intro _; show dv (at_ dig' 0) ≠ 0
    by_cases e : nn = 0
    · rw [e] at hnew; rw [hnew, hdv]; exact hn (by omega)
    · rw [hold 0 (by omega)]; exact hfirst (by omega)
  · intro _ _; show dv (at_ dig' (nn + 1 - 1)) ≠ 0
    rw [Nat.add_sub_cancel, hnew, hdv]; omega

/-- general branch: both digits of the pair are written -/
theorem inv_two {c : Nat} {e0 : Int} {neg : Bool} {S : Nat} {n : Int64} {dg : Gen.digits}
    (h : Inv c e0 neg S n dg) (hc : c < 10 ^ 35) (hS : S ≠ 0)
    (hn : n.toInt = 0 → S % 100 % 10 ≠ 0) (hnl : ¬ (S % 100 / 10 = 0 ∧ S / 100 = 0))
    (x1 x0 : UInt8) (hx1 : x1.toNat = 48 + S % 100 % 10) (hx0 : x0.toNat = 48 + S % 100 / 10)
    (dig1 dig2 : Vector UInt8 39)
    (hd1 : ∀ t, at_ dig1 t = if t = (Go.idx n).toNat then x1 else at_ dg.dig t)
    (hd2 : ∀ t, at_ dig2 t = if t = (Go.idx (n + 1)).toNat then x0 else at_ dig1 t) :
    Inv c e0 neg (S / 100) (n + 2)
      { neg := dg.neg, dig := dig2, exp := dg.exp, ndig := dg.ndig } := by
  obtain ⟨k, nn, hnn, hn36, hceq, hexp, hneg, hdig, hfirst, hlast⟩ := h
  have hcnt := inv_count hc hS hceq
  have e1 : (1 : Int64).toInt = 1 := by decide
  have e2 : (2 : Int64).toInt = 2 := by decide
  have hidx : (Go.idx n).toNat = nn := by show n.toInt.toNat = nn; omega
  have hidx1 : (Go.idx (n + 1)).toNat = nn + 1 := by
    show (n + 1).toInt.toNat = nn + 1
    rw [i64_add _ _ (by rw [e1]; omega) (by rw [e1]; omega), e1]; omega
  have hnew0 : at_ dig2 nn = x1 := by
    rw [hd2 nn, hidx1, if_neg (by omega), hd1 nn, hidx]; simp
  have hnew1 : at_ dig2 (nn + 1) = x0 := by rw [hd2 (nn + 1), hidx1]; simp
  have hold : ∀ t, t < nn → at_ dig2 t = at_ dg.dig t := by
    intro t ht; rw [hd2 t, hidx1, if_neg (by omega), hd1 t, hidx, if_neg (by omega)]
  have hdv1 : dv x1 = S % 100 % 10 := dv_of_toNat x1 _ hx1
  have hdv0 : dv x0 = S % 100 / 10 := dv_of_toNat x0 _ hx0
  refine ⟨k, nn + 2, ?_, by omega, ?_, hexp, hneg, ?_, ?_, ?_⟩
  · rw [i64_add _ _ (by rw [e2]; omega) (by rw [e2]; omega), e2, hnn]; push_cast; ring
  · rw [hceq]
    show _ = (S / 100 * 10 ^ (nn + 2) + val dig2 (nn + 1 + 1)) * 10 ^ k
    rw [val_succ, val_succ, val_congr dig2 dg.dig nn hold, hnew0, hnew1, hdv0, hdv1]
    congr 1
    have hS2 : S = S / 100 * 100 + S % 100 / 10 * 10 + S % 100 % 10 := by omega
    generalize S / 100 = q at *
    generalize S % 100 / 10 = a at *
    generalize S % 100 % 10 = b at *
    rw [hS2]; ring
  · intro t ht
    show isDig (at_ dig2 t)
    by_cases e : t = nn
    · rw [e, hnew0]; exact isDig_of_toNat x1 _ hx1 (Nat.mod_lt _ (by decide))
    · by_cases e' : t = nn + 1
      · rw [e', hnew1]; exact isDig_of_toNat x0 _ hx0 (by omega)
      · rw [hold t (by omega)]; exact hdig t (by omega)
  · intro _; show dv (at_ dig2 0) ≠ 0
    by_cases e : nn = 0
    · rw [e] at hnew0; rw [hnew0, hdv1]; exact hn (by omega)
    · rw [hold 0 (by omega)]; exact hfirst (by omega)
  · intro hq _; show dv (at_ dig2 (nn + 2 - 1)) ≠ 0
    have : nn + 2 - 1 = nn + 1 := by omega
    rw [this, hnew1, hdv0]; omega

/-- at loop exit (`S = 0`) of a non-zero coefficient at least one digit has been written -/
theorem inv_final {c : Nat} {e0 : Int} {neg : Bool} {n : Int64} {dg : Gen.digits}
    (h : Inv c e0 neg 0 n dg) (hc0 : c ≠ 0) : 0 < n.toInt ∧ n.toInt ≤ 36 := by
  obtain ⟨k, nn, hnn, hn36, hceq, _⟩ := h
  have : nn ≠ 0 := by
    intro e; subst e
    simp [val_zero] at hceq; exact hc0 hceq
  omega

/-! ## the in-place reversal loop -/

/-- invariant of the reversal loop: positions outside `[i, j]` are already mirrored -/
def RevInv (src : Gen.digits) (n : Int64) (dg : Gen.digits) (i j : Int64) : Prop :=
  dg.exp = src.exp ∧ dg.neg = src.neg ∧ 0 < n.toInt ∧ n.toInt ≤ 36 ∧ 0 ≤ i.toInt ∧
    i.toInt + j.toInt = n.toInt - 1 ∧ i.toInt ≤ j.toInt + 1 ∧
    ∀ t : Nat, (t : Int) < n.toInt →
      at_ dg.dig t = if (t : Int) < i.toInt ∨ j.toInt < (t : Int)
        then at_ src.dig (n.toInt.toNat - 1 - t) else at_ src.dig t

theorem rev_init (src : Gen.digits) (n : Int64) (h0 : 0 < n.toInt) (h1 : n.toInt ≤ 36) :
    RevInv src n src 0 (n - 1) := by
  have e1 : (1 : Int64).toInt = 1 := by decide
  have e0 : (0 : Int64).toInt = 0 := by decide
  have ej : (n - 1).toInt = n.toInt - 1 := by
    rw [i64_sub _ _ (by rw [e1]; omega) (by rw [e1]; omega), e1]
  refine ⟨rfl, rfl, h0, h1, by omega, by omega, by omega, ?_⟩
  intro t ht
  rw [if_neg]; rw [e0, ej]; omega

theorem rev_idx {src : Gen.digits} {n : Int64} {dg : Gen.digits} {i j : Int64}
    (h : RevInv src n dg i j) (hij : i < j) :
    (0 ≤ Go.idx i ∧ (Go.idx i).toNat < 39) ∧ (0 ≤ Go.idx j ∧ (Go.idx j).toNat < 39) := by
  obtain ⟨_, _, h0, h1, hi, hs, _, _⟩ := h
  have hlt : i.toInt < j.toInt := Int64.lt_iff_toInt_lt.mp hij
  show (0 ≤ i.toInt ∧ i.toInt.toNat < 39) ∧ (0 ≤ j.toInt ∧ j.toInt.toNat < 39)
  omega

theorem rev_step {src : Gen.digits} {n : Int64} {dg : Gen.digits} {i j : Int64}
    (h : RevInv src n dg i j) (hij : i < j)
    (xj xi : UInt8) (hxj : xj = at_ dg.dig (Go.idx j).toNat) (hxi : xi = at_ dg.dig (Go.idx i).toNat)
    (d1 d2 : Vector UInt8 39)
    (hd1 : ∀ t, at_ d1 t = if t = (Go.idx i).toNat then xj else at_ dg.dig t)
    (hd2 : ∀ t, at_ d2 t = if t = (Go.idx j).toNat then xi else at_ d1 t) :
    ((j - 1).toInt + 1).toNat < (j.toInt + 1).toNat ∧
      RevInv src n { neg := dg.neg, dig := d2, exp := dg.exp, ndig := dg.ndig } (i + 1) (j - 1) := by
  obtain ⟨hexp, hneg, h0, h1, hi, hs, hle, hall⟩ := h
  have hlt : i.toInt < j.toInt := Int64.lt_iff_toInt_lt.mp hij
  have e1 : (1 : Int64).toInt = 1 := by decide
  have ej : (j - 1).toInt = j.toInt - 1 := by
    rw [i64_sub _ _ (by rw [e1]; omega) (by rw [e1]; omega), e1]
  have ei : (i + 1).toInt = i.toInt + 1 := by
    rw [i64_add _ _ (by rw [e1]; omega) (by rw [e1]; omega), e1]
  have hI : (Go.idx i).toNat = i.toInt.toNat := rfl
  have hJ : (Go.idx j).toNat = j.toInt.toNat := rfl
  refine ⟨by rw [ej]; omega, hexp, hneg, h0, h1, by omega, by omega, by omega, ?_⟩
  intro t ht
  show at_ d2 t = _
  rw [ei, ej, hd2 t, hd1 t, hI, hJ]
  by_cases c1 : t = j.toInt.toNat
  · rw [if_pos c1, if_pos (by omega), hxi, hI]
    have := hall i.toInt.toNat (by omega)
    rw [if_neg (by omega)] at this
    rw [this]; congr 1; omega
  · rw [if_neg c1]
    by_cases c2 : t = i.toInt.toNat
    · rw [if_pos c2, if_pos (by omega), hxj, hJ]
      have := hall j.toInt.toNat (by omega)
      rw [if_neg (by omega)] at this
      rw [this]; congr 1; omega
    · rw [if_neg c2, hall t ht]
      by_cases c3 : (t : Int) < i.toInt ∨ j.toInt < (t : Int)
      · rw [if_pos c3, if_pos (by omega)]
      · rw [if_neg c3, if_neg (by omega)]

/-- post-condition of `digits`: sign, well-formedness and the denoted slice -/
def DigitsPost (d : Gen.Decimal) (r : Gen.digits) : Prop :=
  r.neg = Gen.Decimal.Signbit d ∧ WF r ∧
    slice r = Spec.sliceOf (Gen.Decimal.decompose d).1.toNat ((Gen.Decimal.decompose d).2.toInt - 6176) ∧
    ((Gen.Decimal.decompose d).1.toNat ≠ 0 → ∃ k : Nat,
      (Gen.Decimal.decompose d).1.toNat = ofMsd (slice r).ds * 10 ^ k ∧
      r.exp.toInt = (Gen.Decimal.decompose d).2.toInt - 6176 + k)

theorem dv_ne_zero_of {x : UInt8} (h : dv x ≠ 0) : x ≠ 48 := by
  intro e; subst e; exact h (by decide)

theorem post_of_rev {c : Nat} {e0 : Int} {neg : Bool} {src dg : Gen.digits} {n i j : Int64}
    (hinv : Inv c e0 neg 0 n src) (hrev : RevInv src n dg i j) (hji : j.toInt ≤ i.toInt) :
    let r : Gen.digits := { neg := dg.neg, dig := dg.dig, exp := dg.exp, ndig := n }
    r.neg = neg ∧ WF r ∧ slice r = Spec.sliceOf c e0 ∧
      (c ≠ 0 → ∃ k : Nat, c = ofMsd (slice r).ds * 10 ^ k ∧ r.exp.toInt = e0 + k) := by
  intro r
  obtain ⟨k, nn, hnn, hn36, hceq, hexp, hneg, hdig, hfirst, hlast⟩ := hinv
  obtain ⟨hexp', hneg', h0, h1, hi, hs, hle, hall⟩ := hrev
  have hnat : n.toInt.toNat = nn := by omega
  have hmirror : ∀ t, t < nn → at_ dg.dig t = at_ src.dig (nn - 1 - t) := by
    intro t ht
    have := hall t (by omega)
    rw [hnat] at this
    by_cases c3 : (t : Int) < i.toInt ∨ j.toInt < (t : Int)
    · rw [if_pos c3] at this; exact this
    · rw [if_neg c3] at this; rw [this]; congr 1; omega
  have hnn0 : 0 < nn := by omega
  have hM : ofMsd (msd dg.dig nn) = val src.dig nn := by
    apply ofMsd_map_range
    intro t ht
    show dv (at_ dg.dig t) = dv (at_ src.dig (nn - 1 - t))
    rw [hmirror t ht]
  have hdig' : ∀ t, t < nn → isDig (at_ dg.dig t) := by
    intro t ht; rw [hmirror t ht]; exact hdig _ (by omega)
  have hf : dv (at_ dg.dig 0) ≠ 0 := by
    rw [hmirror 0 hnn0]; exact hlast rfl hnn0
  have hl : dv (at_ dg.dig (nn - 1)) ≠ 0 := by
    rw [hmirror (nn - 1) (by omega)]
    have : nn - 1 - (nn - 1) = 0 := by omega
    rw [this]; exact hfirst hnn0
  refine ⟨by show dg.neg = neg; rw [hneg', hneg], ⟨by show 0 ≤ n.toInt; omega, by show n.toInt ≤ 39; omega,
    ?_, ?_, ?_⟩, ?_, ?_⟩
  · intro t ht
    show isDig (at_ dg.dig t)
    exact hdig' t (by have : t < n.toInt.toNat := ht; omega)
  · intro _; exact dv_ne_zero_of hf
  · intro _; show at_ dg.dig (n.toInt.toNat - 1) ≠ 48
    rw [hnat]; exact dv_ne_zero_of hl
  · show (⟨msd dg.dig n.toInt.toNat, dg.exp.toInt + n.toInt⟩ : Spec.Slice) = _
    rw [hnat, hceq]
    simp only [Nat.zero_mul, Nat.zero_add]
    rw [← hM, sliceOf_of_msd (msd dg.dig nn) k e0]
    · rw [msd_length, hexp', hexp, hnn]
      congr 1; omega
    · intro e
      have := congrArg List.length e
      rw [msd_length] at this; simp at this; omega
    · exact msd_lt10 _ _ hdig'
    · obtain ⟨m, rfl⟩ : ∃ m, nn = m + 1 := ⟨nn - 1, by omega⟩
      simp only [msd, List.range_succ_eq_map, List.map_cons, List.head?_cons]
      intro e
      exact hf (Option.some.inj e)
    · obtain ⟨m, rfl⟩ : ∃ m, nn = m + 1 := ⟨nn - 1, by omega⟩
      rw [msd_succ, List.getLast?_concat]
      intro e
      exact hl (by simpa using Option.some.inj e)
  · intro _
    refine ⟨k, ?_, ?_⟩
    · show c = ofMsd (msd dg.dig n.toInt.toNat) * 10 ^ k
      rw [hnat, hM, hceq]; simp
    · show dg.exp.toInt = e0 + k
      rw [hexp', hexp]

theorem post_zero (d : Gen.Decimal) (hz : (Gen.Decimal.decompose d).1.toNat = 0) :
    DigitsPost d (Gen.digits.mk (Gen.Decimal.Signbit d) (default : Gen.digits).dig
      (default : Gen.digits).exp (default : Gen.digits).ndig) := by
  have e0 : (default : Gen.digits).ndig.toInt = 0 := by decide
  refine ⟨rfl, ⟨?_, ?_, ?_, ?_, ?_⟩, ?_, fun h => absurd hz h⟩
  · show 0 ≤ (default : Gen.digits).ndig.toInt; omega
  · show (default : Gen.digits).ndig.toInt ≤ 39; omega
  · intro t ht
    have : t < (default : Gen.digits).ndig.toInt.toNat := ht
    omega
  · intro h
    have : 0 < (default : Gen.digits).ndig.toInt := h
    omega
  · intro h
    have : 0 < (default : Gen.digits).ndig.toInt := h
    omega
  · rw [hz]
    rfl

/-! ## the Hoare triple -/


theorem sig_lt (d : Gen.Decimal) : (Gen.Decimal.decompose d).1.toNat < 10 ^ 35 := by
  have := Enc.decompose_sig_le d
  unfold Spec.Cmax at this
  omega

theorem exp_lt (d : Gen.Decimal) : (Gen.Decimal.decompose d).2.toInt < 16384 := by
  rw [Enc.decompose_exp_toInt]; split <;> omega

theorem u128_ne_zero_of_or {s : U128} (h : (s.w0 ||| s.w1 != 0) = true) : s.toNat ≠ 0 := by
  have h1 : s.w0 ||| s.w1 ≠ 0 := by simpa using h
  rw [Ne, UInt64.or_eq_zero_iff] at h1
  intro e
  unfold U128.toNat at e
  have h0 : s.w0.toNat = 0 := by omega
  have h2 : s.w1.toNat = 0 := by omega
  exact h1 ⟨UInt64.toNat_inj.mp h0, UInt64.toNat_inj.mp h2⟩

theorem u128_zero_of_or {s : U128} (h : ¬ (s.w0 ||| s.w1 != 0) = true) : s.toNat = 0 := by
  have h1 : s.w0 ||| s.w1 = 0 := by simpa using h
  rw [UInt64.or_eq_zero_iff] at h1
  unfold U128.toNat; rw [h1.1, h1.2]; rfl

theorem u128_or_beq_zero (s : U128) : (s.w0 ||| s.w1 == 0) = decide (s.toNat = 0) := by
  by_cases h : (s.w0 ||| s.w1 != 0) = true
  · have := u128_ne_zero_of_or h
    have h1 : s.w0 ||| s.w1 ≠ 0 := by simpa using h
    simp [h1, this]
  · have := u128_zero_of_or h
    have h1 : s.w0 ||| s.w1 = 0 := by simpa using h
    simp [h1, this]

theorem u128_ne_zero_of_w1 {s : U128} (h : (s.w1 != 0) = true) : s.toNat ≠ 0 := by
  have h1 : s.w1 ≠ 0 := by simpa using h
  have : s.w1.toNat ≠ 0 := fun e => h1 (UInt64.toNat_inj.mp e)
  unfold U128.toNat; omega

theorem u128_ne_zero_of_w1' {s : U128} (h : s.w1.toNat ≠ 0) : s.toNat ≠ 0 := by
  unfold U128.toNat; omega

theorem u128_or_toNat (s : U128) : ((s.w0 ||| s.w1).toNat = 0) = (s.toNat = 0) := by
  apply propext
  have e : (s.w0 ||| s.w1).toNat = 0 ↔ s.w0 ||| s.w1 = 0 := by
    rw [← UInt64.toNat_inj]; rfl
  rw [e, UInt64.or_eq_zero_iff, ← UInt64.toNat_inj, ← UInt64.toNat_inj]
  unfold U128.toNat
  simp only [UInt64.toNat_zero]
  omega

theorem toNat_of_w1_zero (s : U128) (h : s.w1 = 0) : s.toNat = s.w0.toNat := by
  unfold U128.toNat; rw [h]; simp

theorem u128_ne_zero_of_or' {s : U128} (h : (s.w0 ||| s.w1).toNat ≠ 0) : s.toNat ≠ 0 := by
  rw [Ne, ← u128_or_toNat]; exact h

theorem u128_w1_zero {s : U128} (h : ¬ (s.w1 != 0) = true) : s.w1 = 0 := by simpa using h

theorem u64_ne_zero {s : UInt64} (h : (s != 0) = true) : s.toNat ≠ 0 := by
  have h1 : s ≠ 0 := by simpa using h
  exact fun e => h1 (UInt64.toNat_inj.mp e)

theorem i64_beq_zero' (n : Int64) : (n == 0) = decide (n.toInt = 0) := by
  by_cases h : n.toInt = 0
  · have := (i64_beq_zero n).mpr h; simp [this, h]
  · have : ¬ (n == 0) = true := fun e => h ((i64_beq_zero n).mp e)
    simp only [Bool.not_eq_true] at this
    simp [this, h]

theorem u64_beq_zero (x : UInt64) : (x == 0) = decide (x.toNat = 0) := by
  by_cases h : x = 0
  · subst h; simp
  · have : x.toNat ≠ 0 := fun e => h (UInt64.toNat_inj.mp e)
    simp [h, this]

theorem u64_bne_zero (x : UInt64) : (x != 0) = decide (x.toNat ≠ 0) := by
  simp [bne, u64_beq_zero]

theorem beq48 (x : UInt8) : (x == 48) = decide (x.toNat = 48) := u8_beq x 48 (by decide)

set_option mvcgen.warning false
theorem digits_triple (d : Gen.Decimal) (digs : Gen.digits) :
    ⦃⌜True⌝⦄ Gen.Decimal.digits_ d digs ⦃⇓ r => ⌜DigitsPost d r⌝⦄ := by
  have hc := sig_lt d
  have he0 := Enc.decompose_exp_nonneg d
  have he1 := exp_lt d
  have he : -100000 ≤ (Gen.Decimal.decompose d).2.toInt - 6176 ∧
      (Gen.Decimal.decompose d).2.toInt - 6176 ≤ 100000 := by omega
  mvcgen [Gen.Decimal.digits_]
  case inv1 => exact fun st => ⟨st.2.1.toNat⟩
  case inv2 => exact ⇓ x => match x with
    | .inl st => ⌜Inv (Gen.Decimal.decompose d).1.toNat ((Gen.Decimal.decompose d).2.toInt - 6176)
        (Gen.Decimal.Signbit d) st.2.1.toNat st.2.2 st.1⌝
    | .inr st => ⌜Inv (Gen.Decimal.decompose d).1.toNat ((Gen.Decimal.decompose d).2.toInt - 6176)
        (Gen.Decimal.Signbit d) st.2.1.toNat st.2.2 st.1 ∧ st.2.1.w1 = 0⌝
  case inv3 => exact fun st => ⟨st.2.2.toNat⟩
  case inv4 => exact ⇓ x => match x with
    | .inl st => ⌜Inv (Gen.Decimal.decompose d).1.toNat ((Gen.Decimal.decompose d).2.toInt - 6176)
        (Gen.Decimal.Signbit d) st.2.2.toNat st.2.1 st.1⌝
    | .inr st => ⌜Inv (Gen.Decimal.decompose d).1.toNat ((Gen.Decimal.decompose d).2.toInt - 6176)
        (Gen.Decimal.Signbit d) 0 st.2.1 st.1⌝
  case inv5 => exact fun st => ⟨(st.2.2.toInt + 1).toNat⟩
  case inv6 => exact ⇓ x => match x with
    | .inl st => ⌜RevInv (‹Gen.digits × Int64 × UInt64›).1 (‹Gen.digits × Int64 × UInt64›).2.1
        st.1 st.2.1 st.2.2⌝
    | .inr st => ⌜RevInv (‹Gen.digits × Int64 × UInt64›).1 (‹Gen.digits × Int64 × UInt64›).2.1
        st.1 st.2.1 st.2.2 ∧ st.2.2.toInt ≤ st.2.1.toInt⌝
  all_goals (try mleave)
  all_goals (try (simp +zetaDelta only [WhileVariant.eval, SVal.evalsTo, SVal.curry_nil,
    SVal.uncurry_nil, SPred.down_pure, ULift.up.injEq, Bool.and_eq_true, i64_beq_zero',
    u64_beq_zero, u64_bne_zero, beq48, u128_or_toNat, decide_eq_true_eq, UInt64.toNat_div,
    UInt64.toNat_mod, UInt64.toNat_ofNat, Nat.reducePow, Nat.reduceMod] at *))
  -- loop 1 (two-word coefficient)
  case vc1 =>
    obtain ⟨hmb, hinv⟩ := ‹_ ∧ Inv _ _ _ _ _ _›
    obtain ⟨hq, hr⟩ := ‹_ = _ / 100 ∧ _›
    have hS := u128_ne_zero_of_w1' ‹(U128.w1 _).toNat ≠ 0›
    have hcond := ‹(_ : Int) = 0 ∧ (_ : Nat) = 0›
    refine ⟨_, rfl, by rw [hq, hmb]; omega, ?_⟩
    rw [hq]
    exact inv_strip2 hinv hc he hS hcond.1 (by rw [← hr]; exact hcond.2)
  case vc2 =>
    obtain ⟨hq, hr⟩ := ‹_ = _ / 100 ∧ _›
    omega
  case vc3 =>
    obtain ⟨hmb, hinv⟩ := ‹_ ∧ Inv _ _ _ _ _ _›
    exact inv_idx hinv hc (u128_ne_zero_of_w1' ‹(U128.w1 _).toNat ≠ 0›)
  case vc4 =>
    obtain ⟨hmb, hinv⟩ := ‹_ ∧ Inv _ _ _ _ _ _›
    obtain ⟨hq, hr⟩ := ‹_ = _ / 100 ∧ _›
    have hS := u128_ne_zero_of_w1' ‹(U128.w1 _).toNat ≠ 0›
    obtain ⟨hp0, hp1⟩ := ‹_ = 48 + _ / 10 ∧ _›
    obtain ⟨hn0, hz⟩ := ‹(_ : Int) = 0 ∧ (_ : Nat) = 48›
    have hnz := ‹¬ ((_ : Int) = 0 ∧ (_ : Nat) = 0)›
    refine ⟨_, rfl, by rw [hq, hmb]; omega, ?_⟩
    rw [hq]
    rw [hr] at hp0 hp1 hnz
    exact inv_strip1 hinv hc he hS hn0 (by omega) (by omega) _ hp0 _ ‹∀ t, _›
  case vc5 =>
    obtain ⟨hmb, hinv⟩ := ‹_ ∧ Inv _ _ _ _ _ _›
    exact inv_idx hinv hc (u128_ne_zero_of_w1' ‹(U128.w1 _).toNat ≠ 0›)
  case vc6 =>
    obtain ⟨hmb, hinv⟩ := ‹_ ∧ Inv _ _ _ _ _ _›
    obtain ⟨hq, hr⟩ := ‹_ = _ / 100 ∧ _›
    have hS := u128_ne_zero_of_w1' ‹(U128.w1 _).toNat ≠ 0›
    obtain ⟨hp0, hp1⟩ := ‹_ = 48 + _ / 10 ∧ _›
    obtain ⟨hz0, hz⟩ := ‹(_ : Nat) = 48 ∧ (_ : Nat) = 0›
    have hnz := ‹¬ ((_ : Int) = 0 ∧ (_ : Nat) = 48)›
    refine ⟨_, rfl, by rw [hq, hmb]; omega, ?_⟩
    rw [hq] at hz ⊢
    rw [hr] at hp0 hp1
    exact inv_one hinv hc hS (by omega) (by omega) hz _ hp1 _ ‹∀ t, _›
  case vc7 =>
    obtain ⟨hmb, hinv⟩ := ‹_ ∧ Inv _ _ _ _ _ _›
    exact inv_idx hinv hc (u128_ne_zero_of_w1' ‹(U128.w1 _).toNat ≠ 0›)
  case vc8 =>
    obtain ⟨hmb, hinv⟩ := ‹_ ∧ Inv _ _ _ _ _ _›
    exact inv_idx1 hinv hc (u128_ne_zero_of_w1' ‹(U128.w1 _).toNat ≠ 0›)
  case vc9 =>
    obtain ⟨hmb, hinv⟩ := ‹_ ∧ Inv _ _ _ _ _ _›
    obtain ⟨hq, hr⟩ := ‹_ = _ / 100 ∧ _›
    have hS := u128_ne_zero_of_w1' ‹(U128.w1 _).toNat ≠ 0›
    obtain ⟨hp0, hp1⟩ := ‹_ = 48 + _ / 10 ∧ _›
    have hnl := ‹¬ ((_ : Nat) = 48 ∧ (_ : Nat) = 0)›
    have hnz := ‹¬ ((_ : Int) = 0 ∧ (_ : Nat) = 48)›
    rename_i hd1 hd2
    refine ⟨_, rfl, by rw [hq, hmb]; omega, ?_⟩
    rw [hq] at hnl ⊢
    rw [hr] at hp0 hp1
    exact inv_two hinv hc hS (by omega) (by omega) _ _ hp1 hp0 _ _ hd1 hd2
  case vc10 =>
    obtain ⟨hmb, hinv⟩ := ‹_ ∧ Inv _ _ _ _ _ _›
    exact ⟨hinv, UInt64.toNat_inj.mp (by simpa using ‹¬ (U128.w1 _).toNat ≠ 0›)⟩
  case vc11 =>
    exact inv_init _ _ _ _ _ he0 he1
  -- loop 2 (one-word coefficient)
  case vc12 =>
    obtain ⟨hmb, hinv⟩ := ‹_ ∧ Inv _ _ _ _ _ _›
    have hS := ‹UInt64.toNat (Prod.snd _) ≠ 0›
    have hcond := ‹(_ : Int) = 0 ∧ (_ : Nat) = 0›
    refine ⟨_, rfl, by rw [hmb]; omega, ?_⟩
    exact inv_strip2 hinv hc he hS hcond.1 hcond.2
  case vc13 => omega
  case vc14 =>
    obtain ⟨hmb, hinv⟩ := ‹_ ∧ Inv _ _ _ _ _ _›
    exact inv_idx hinv hc ‹UInt64.toNat (Prod.snd _) ≠ 0›
  case vc15 =>
    obtain ⟨hmb, hinv⟩ := ‹_ ∧ Inv _ _ _ _ _ _›
    have hS := ‹UInt64.toNat (Prod.snd _) ≠ 0›
    obtain ⟨hp0, hp1⟩ := ‹_ = 48 + _ / 10 ∧ _›
    obtain ⟨hn0, hz⟩ := ‹(_ : Int) = 0 ∧ (_ : Nat) = 48›
    have hnz := ‹¬ ((_ : Int) = 0 ∧ (_ : Nat) = 0)›
    refine ⟨_, rfl, by rw [hmb]; omega, ?_⟩
    exact inv_strip1 hinv hc he hS hn0 (by omega) (by omega) _ hp0 _ ‹∀ t, _›
  case vc16 =>
    obtain ⟨hmb, hinv⟩ := ‹_ ∧ Inv _ _ _ _ _ _›
    exact inv_idx hinv hc ‹UInt64.toNat (Prod.snd _) ≠ 0›
  case vc17 =>
    obtain ⟨hmb, hinv⟩ := ‹_ ∧ Inv _ _ _ _ _ _›
    have hS := ‹UInt64.toNat (Prod.snd _) ≠ 0›
    obtain ⟨hp0, hp1⟩ := ‹_ = 48 + _ / 10 ∧ _›
    obtain ⟨hz0, hz⟩ := ‹(_ : Nat) = 48 ∧ (_ : Nat) = 0›
    have hnz := ‹¬ ((_ : Int) = 0 ∧ (_ : Nat) = 48)›
    refine ⟨_, rfl, by rw [hmb]; omega, ?_⟩
    exact inv_one hinv hc hS (by omega) (by omega) hz _ hp1 _ ‹∀ t, _›
  case vc18 =>
    obtain ⟨hmb, hinv⟩ := ‹_ ∧ Inv _ _ _ _ _ _›
    exact inv_idx hinv hc ‹UInt64.toNat (Prod.snd _) ≠ 0›
  case vc19 =>
    obtain ⟨hmb, hinv⟩ := ‹_ ∧ Inv _ _ _ _ _ _›
    exact inv_idx1 hinv hc ‹UInt64.toNat (Prod.snd _) ≠ 0›
  case vc20 =>
    obtain ⟨hmb, hinv⟩ := ‹_ ∧ Inv _ _ _ _ _ _›
    have hS := ‹UInt64.toNat (Prod.snd _) ≠ 0›
    obtain ⟨hp0, hp1⟩ := ‹_ = 48 + _ / 10 ∧ _›
    have hnl := ‹¬ ((_ : Nat) = 48 ∧ (_ : Nat) = 0)›
    have hnz := ‹¬ ((_ : Int) = 0 ∧ (_ : Nat) = 48)›
    rename_i hd1 hd2
    refine ⟨_, rfl, by rw [hmb]; omega, ?_⟩
    exact inv_two hinv hc hS (by omega) (by omega) _ _ hp1 hp0 _ _ hd1 hd2
  case vc21 =>
    obtain ⟨hmb, hinv⟩ := ‹_ ∧ Inv _ _ _ _ _ _›
    have hz := Decidable.of_not_not ‹¬ UInt64.toNat (Prod.snd _) ≠ 0›
    rw [hz] at hinv; exact hinv
  case vc22 =>
    obtain ⟨hinv, hw⟩ := ‹Inv _ _ _ _ _ _ ∧ _›
    rw [← toNat_of_w1_zero _ hw]; exact hinv
  -- loop 3 (in-place reversal)
  case vc23 =>
    obtain ⟨hmb, hrev⟩ := ‹_ ∧ RevInv _ _ _ _ _›
    exact (rev_idx hrev ‹_ < _›).2
  case vc24 =>
    obtain ⟨hmb, hrev⟩ := ‹_ ∧ RevInv _ _ _ _ _›
    exact (rev_idx hrev ‹_ < _›).1
  case vc25 =>
    obtain ⟨hmb, hrev⟩ := ‹_ ∧ RevInv _ _ _ _ _›
    exact (rev_idx hrev ‹_ < _›).1
  case vc26 =>
    obtain ⟨hmb, hrev⟩ := ‹_ ∧ RevInv _ _ _ _ _›
    exact (rev_idx hrev ‹_ < _›).2
  case vc27 =>
    obtain ⟨hmb, hrev⟩ := ‹_ ∧ RevInv _ _ _ _ _›
    rename_i hd1 hd2
    have := rev_step hrev ‹_ < _› _ _ ‹_ = at_ _ (Go.idx (Prod.snd (Prod.snd _))).toNat›
      ‹_ = at_ _ (Go.idx (Prod.fst (Prod.snd _))).toNat› _ _ hd1 hd2
    exact ⟨_, rfl, by rw [hmb]; exact this.1, this.2⟩
  case vc28 =>
    obtain ⟨hmb, hrev⟩ := ‹_ ∧ RevInv _ _ _ _ _›
    refine ⟨hrev, ?_⟩
    have := ‹¬ (_ : Int64) < _›
    rw [Int64.lt_iff_toInt_lt] at this
    omega
  case vc29 =>
    have := inv_final ‹Inv _ _ _ 0 _ _› (u128_ne_zero_of_or' ‹_›)
    exact rev_init _ _ this.1 this.2
  case vc30 =>
    obtain ⟨hrev, hji⟩ := ‹RevInv _ _ _ _ _ ∧ _›
    exact post_of_rev ‹Inv _ _ _ 0 _ _› hrev hji
  case vc34 =>
    have h := Decidable.of_not_not ‹¬ (_ : Nat) ≠ 0›
    rw [u128_or_toNat] at h
    exact post_zero d h

/-- `digits` never panics, terminates, and produces a well-formed record denoting the slice of
the coefficient/exponent pair of `d` — for every bit pattern `d` (special ones included, whose
`decompose` reading is then meaningless but harmless) and every initial `digs`. -/
theorem digits_ok (d : Gen.Decimal) (digs : Gen.digits) :
    ∃ r, Gen.Decimal.digits_ d digs = .ok r ∧ DigitsPost d r :=
  ok_of_triple (digits_triple d digs)

/-- the exponent field written by `digits` is small: `-6176 ≤ exp ≤ 10241` -/
theorem digits_exp_bound (d : Gen.Decimal) (digs : Gen.digits) :
    ∃ r, Gen.Decimal.digits_ d digs = .ok r ∧ DigitsPost d r ∧
      -6176 ≤ r.exp.toInt ∧ r.exp.toInt ≤ 10241 := by
  obtain ⟨r, hr, hpost⟩ := digits_ok d digs
  refine ⟨r, hr, hpost, ?_⟩
  obtain ⟨_, hwf, hs, hv⟩ := hpost
  have he0 := Enc.decompose_exp_nonneg d
  have he1 := exp_lt d
  by_cases hc : (Gen.Decimal.decompose d).1.toNat = 0
  · rw [hc] at hs
    have h0 : Spec.sliceOf 0 ((Gen.Decimal.decompose d).2.toInt - 6176) = ⟨[], 0⟩ := rfl
    rw [h0] at hs
    have hds : msd r.dig r.ndig.toInt.toNat = [] := congrArg Spec.Slice.ds hs
    have hdp : r.exp.toInt + r.ndig.toInt = 0 := congrArg Spec.Slice.dp hs
    have hlen : r.ndig.toInt.toNat = 0 := by
      rw [← msd_length r.dig r.ndig.toInt.toNat, hds]; rfl
    have := hwf.n0
    omega
  · obtain ⟨k, hk, hexp⟩ := hv hc
    have hk34 : k ≤ 34 := by
      apply pow_bound k _ _ (sig_lt d)
      rw [hk]
      have : 0 < ofMsd (slice r).ds := by
        apply Nat.pos_of_ne_zero; intro e; apply hc; rw [hk, e]; simp
      exact Nat.le_mul_of_pos_left _ this
    omega

theorem digits_expOK (d : Gen.Decimal) (digs : Gen.digits) (r : Gen.digits)
    (h : Gen.Decimal.digits_ d digs = .ok r) : ExpOK r := by
  obtain ⟨r', hr', _, h1, h2⟩ := digits_exp_bound d digs
  rw [h] at hr'
  cases hr'
  unfold ExpOK; omega

end Dg
