/-
  D128/Proofs/FloatFromSpec.lean — the statement of `fromFloat64_correct` in terms of the executable
  specification `Spec.fromBinExpect` (D128/Spec/Conv.lean), which reads the bits independently of
  `D128/Go/Float.lean`.

  Provided (namespace `FF`):
  * `pow2_eq_zpow`, `decodeBin_f64`, `decodeBin_f32` : `Spec.decodeBin` agrees with `F64.mag`/`F32.mag` and the class tests
  * `spec64_eq_fromBinExpect`, `spec32_eq_fromBinExpect` (mode nearest-even)
  * `fromFloat64_fromBinExpect`, `fromFloat32_fromBinExpect`
-/
import D128.Proofs.FloatFromFinal
import D128.Spec.Conv

set_option autoImplicit false
set_option maxRecDepth 8192
set_option exponentiation.threshold 8000

namespace FF
open Gen Go
local notation "𝔳[" d "]" => Spec.interp (Gen.Decimal.lo d) (Gen.Decimal.hi d)

theorem pow2_eq_zpow (e : Int) : Spec.pow2 e = (2 : ℚ) ^ e := by
  unfold Spec.pow2
  split
  · rename_i h
    conv_rhs => rw [← Int.toNat_of_nonneg h]
    rw [zpow_natCast]
  · rename_i h
    have h' : 0 ≤ -e := by omega
    have : e = -((-e).toNat : Int) := by rw [Int.toNat_of_nonneg h']; ring
    conv_rhs => rw [this]
    rw [zpow_neg, zpow_natCast, one_div]

theorem mag_ge (f : F64) (hz : f.isZero = false) : (1 : ℚ) / 2 ^ 1074 ≤ f.mag := by
  have hM := f.mantField_lt
  unfold F64.mag F64.dyadic
  by_cases h0 : f.expField = 0
  · have hm : f.mantField ≠ 0 := by
      intro h; unfold F64.isZero at hz; simp [h0, h] at hz
    simp only [h0, beq_self_eq_true, if_true]
    have : (1 : ℚ) ≤ f.mantField := by
      have : 1 ≤ f.mantField := Nat.pos_of_ne_zero hm
      exact_mod_cast this
    rw [zpow_neg, show ((1074 : Int)) = ((1074 : Nat) : Int) from rfl, zpow_natCast, ← one_div]
    have hp : (0 : ℚ) < 1 / 2 ^ 1074 := by positivity
    nlinarith
  · have : (f.expField == 0) = false := by simpa using h0
    simp only [this, Bool.false_eq_true, if_false]
    have h1 : (1 : ℚ) ≤ ((2 ^ 52 + f.mantField : Nat) : ℚ) := by
      have : 1 ≤ 2 ^ 52 + f.mantField := by omega
      exact_mod_cast this
    have h2 : (2 : ℚ) ^ (-1074 : Int) ≤ (2 : ℚ) ^ ((f.expField : Int) - 1075) :=
      zpow_le_zpow_right₀ (by norm_num) (by omega)
    rw [zpow_neg, show ((1074 : Int)) = ((1074 : Nat) : Int) from rfl, zpow_natCast, ← one_div] at h2
    have hp : (0 : ℚ) < 1 / 2 ^ 1074 := by positivity
    calc (1 : ℚ) / 2 ^ 1074 = 1 * (1 / 2 ^ 1074) := by ring
      _ ≤ ((2 ^ 52 + f.mantField : Nat) : ℚ) * (2 : ℚ) ^ ((f.expField : Int) - 1075) :=
          mul_le_mul h1 h2 hp.le (by positivity)

/-- a magnitude of at least `2^-1074` is not flushed: `flushOrRoundS … 0` is `roundTo` -/
theorem flush_eq_roundTo (m : Spec.Mode) (neg : Bool) (q : ℚ) (h : (1 : ℚ) / 2 ^ 1074 ≤ q) :
    Spec.flushOrRoundS m neg q 0 = Spec.roundTo m neg q := by
  have hq : 0 < q := lt_of_lt_of_le (by positivity) h
  have := SpecRound.flushOrRoundS_eq m neg q hq.le 0
  rw [zpow_zero, mul_one] at this
  rw [this]
  apply SpecRound.flushOrRound_eq_roundTo
  have h1 : (10 : ℚ) ^ (Spec.Emin - 1) ≤ (10 : ℚ) ^ (-400 : Int) :=
    zpow_le_zpow_right₀ (by norm_num) (by unfold Spec.Emin; norm_num)
  have h2 : (10 : ℚ) ^ (-400 : Int) ≤ 1 / 2 ^ 1074 := by
    rw [zpow_neg, show ((400 : Int)) = ((400 : Nat) : Int) from rfl, zpow_natCast, ← one_div,
      div_le_div_iff₀ (by positivity) (by positivity)]
    norm_num
  exact le_trans h1 (le_trans h2 h)

theorem decodeBin_f64 (f : F64) :
    Spec.decodeBin Spec.f64 f.bits.toNat =
      if f.isNaN then .nan else if f.isInf then .inf f.sign else .fin f.sign f.mag := by
  have hlt := f.bits.toNat_lt
  have he := f.expField_eq
  have hm := f.mantField_eq
  have hs : f.sign = (f.bits.toNat / 2 ^ 63 % 2 == 1) := by
    rw [F64.sign_eq, Bool.eq_iff_iff, decide_eq_true_eq, beq_iff_eq]; omega
  unfold Spec.decodeBin
  simp only [Spec.f64, show (52 + 11 : Nat) = 63 from rfl, ← he, ← hm, ← hs]
  unfold F64.isNaN F64.isInf
  by_cases h1 : f.expField = 2047
  · have : (f.expField == 2 ^ 11 - 1) = true := by rw [h1]; rfl
    rw [this, h1]
    by_cases h2 : f.mantField = 0
    · simp [h2]
    · simp [h2]
  · have : (f.expField == 2 ^ 11 - 1) = false := by
      rw [beq_eq_false_iff_ne]; simpa using h1
    rw [this]
    have h1' : (f.expField == 2047) = false := by simpa using h1
    simp only [h1', Bool.false_and, Bool.false_eq_true, if_false]
    unfold F64.mag F64.dyadic
    have hemin : Spec.f64.emin = -1074 := by decide
    have hbias : Spec.f64.bias = 1023 := by decide
    by_cases h0 : f.expField = 0
    · simp only [h0, beq_self_eq_true, if_true]
      rw [show (Spec.BinFmt.emin { mantBits := 52, expBits := 11 }) = -1074 from hemin, pow2_eq_zpow]
    · have : (f.expField == 0) = false := by simpa using h0
      simp only [this, Bool.false_eq_true, if_false]
      rw [show (Spec.BinFmt.bias { mantBits := 52, expBits := 11 }) = 1023 from hbias, pow2_eq_zpow]
      congr 3
      push_cast; ring

theorem spec64_eq_fromBinExpect (f : F64) :
    spec64 .nearestEven f = Spec.fromBinExpect Spec.f64 3 f.bits.toNat := by
  unfold spec64 Spec.fromBinExpect
  rw [decodeBin_f64]
  by_cases hn : f.isNaN = true
  · simp [hn]
  · by_cases hi : f.isInf = true
    · simp [hn, hi]
    · simp only [hn, hi, Bool.false_eq_true, if_false]
      by_cases hz : f.isZero = true
      · rw [mag_zero_of_isZero f hz]
        simp [Spec.flushOrRoundS]
      · have hz' : f.isZero = false := by simpa using hz
        have hge := mag_ge f hz'
        have hne : ¬ f.mag = 0 := by
          intro h; rw [h] at hge
          have : (0 : ℚ) < 1 / 2 ^ 1074 := by positivity
          linarith
        rw [flush_eq_roundTo _ _ _ hge]
        simp [hne]

/-- **C09 against the executable specification** (default mode nearest-even): the result of
`Gen.FromFloat64` denotes `Spec.fromBinExpect Spec.f64 3 bits`. -/
theorem fromFloat64_fromBinExpect (g : Globals) (hg : g.DefaultRoundingMode = 0) (f : F64) :
    ∃ r, Gen.FromFloat64 g f = .ok r ∧
      (𝔳[r]).same (Spec.fromBinExpect Spec.f64 3 f.bits.toNat) = true := by
  rw [← spec64_eq_fromBinExpect]
  exact fromFloat64_correct g f .nearestEven (by rw [hg]; rfl)

theorem mag_ge32 (f : F32) (hz : f.isZero = false) : (1 : ℚ) / 2 ^ 1074 ≤ f.mag := by
  have hM := f.mantField_lt
  have h149 : (1 : ℚ) / 2 ^ 1074 ≤ 1 / 2 ^ 149 := by
    rw [div_le_div_iff₀ (by positivity) (by positivity)]; norm_num
  refine le_trans h149 ?_
  unfold F32.mag F32.dyadic
  by_cases h0 : f.expField = 0
  · have hm : f.mantField ≠ 0 := by
      intro h; unfold F32.isZero at hz; simp [h0, h] at hz
    simp only [h0, beq_self_eq_true, if_true]
    have : (1 : ℚ) ≤ f.mantField := by
      have : 1 ≤ f.mantField := Nat.pos_of_ne_zero hm
      exact_mod_cast this
    rw [zpow_neg, show ((149 : Int)) = ((149 : Nat) : Int) from rfl, zpow_natCast, ← one_div]
    have hp : (0 : ℚ) < 1 / 2 ^ 149 := by positivity
    nlinarith
  · have : (f.expField == 0) = false := by simpa using h0
    simp only [this, Bool.false_eq_true, if_false]
    have h1 : (1 : ℚ) ≤ ((2 ^ 23 + f.mantField : Nat) : ℚ) := by
      have : 1 ≤ 2 ^ 23 + f.mantField := by omega
      exact_mod_cast this
    have h2 : (2 : ℚ) ^ (-149 : Int) ≤ (2 : ℚ) ^ ((f.expField : Int) - 150) :=
      zpow_le_zpow_right₀ (by norm_num) (by omega)
    rw [zpow_neg, show ((149 : Int)) = ((149 : Nat) : Int) from rfl, zpow_natCast, ← one_div] at h2
    have hp : (0 : ℚ) < 1 / 2 ^ 149 := by positivity
    calc (1 : ℚ) / 2 ^ 149 = 1 * (1 / 2 ^ 149) := by ring
      _ ≤ ((2 ^ 23 + f.mantField : Nat) : ℚ) * (2 : ℚ) ^ ((f.expField : Int) - 150) :=
          mul_le_mul h1 h2 hp.le (by positivity)

theorem mag_zero_of_isZero32 (f : F32) (h : f.isZero = true) : f.mag = 0 := by
  unfold F32.isZero at h
  simp only [Bool.and_eq_true, beq_iff_eq] at h
  unfold F32.mag F32.dyadic
  simp [h.1, h.2]

theorem decodeBin_f32 (f : F32) :
    Spec.decodeBin Spec.f32 f.bits.toNat =
      if f.isNaN then .nan else if f.isInf then .inf f.sign else .fin f.sign f.mag := by
  have hlt := f.bits.toNat_lt
  have he := f.expField_eq
  have hm := f.mantField_eq
  have hs : f.sign = (f.bits.toNat / 2 ^ 31 % 2 == 1) := by
    rw [F32.sign_eq, Bool.eq_iff_iff, decide_eq_true_eq, beq_iff_eq]; omega
  unfold Spec.decodeBin
  simp only [Spec.f32, show (23 + 8 : Nat) = 31 from rfl, ← he, ← hm, ← hs]
  unfold F32.isNaN F32.isInf
  by_cases h1 : f.expField = 255
  · have : (f.expField == 2 ^ 8 - 1) = true := by rw [h1]; rfl
    rw [this, h1]
    by_cases h2 : f.mantField = 0
    · simp [h2]
    · simp [h2]
  · have : (f.expField == 2 ^ 8 - 1) = false := by
      rw [beq_eq_false_iff_ne]; simpa using h1
    rw [this]
    have h1' : (f.expField == 255) = false := by simpa using h1
    simp only [h1', Bool.false_and, Bool.false_eq_true, if_false]
    unfold F32.mag F32.dyadic
    have hemin : Spec.f32.emin = -149 := by decide
    have hbias : Spec.f32.bias = 127 := by decide
    by_cases h0 : f.expField = 0
    · simp only [h0, beq_self_eq_true, if_true]
      rw [show (Spec.BinFmt.emin { mantBits := 23, expBits := 8 }) = -149 from hemin, pow2_eq_zpow]
    · have : (f.expField == 0) = false := by simpa using h0
      simp only [this, Bool.false_eq_true, if_false]
      rw [show (Spec.BinFmt.bias { mantBits := 23, expBits := 8 }) = 127 from hbias, pow2_eq_zpow]
      congr 3
      push_cast; ring

theorem spec32_eq_fromBinExpect (f : F32) :
    spec32 .nearestEven f = Spec.fromBinExpect Spec.f32 2 f.bits.toNat := by
  unfold spec32 Spec.fromBinExpect
  rw [decodeBin_f32]
  by_cases hn : f.isNaN = true
  · simp [hn]
  · by_cases hi : f.isInf = true
    · simp [hn, hi]
    · simp only [hn, hi, Bool.false_eq_true, if_false]
      by_cases hz : f.isZero = true
      · rw [mag_zero_of_isZero32 f hz]
        simp [Spec.flushOrRoundS]
      · have hz' : f.isZero = false := by simpa using hz
        have hge := mag_ge32 f hz'
        have hne : ¬ f.mag = 0 := by
          intro h; rw [h] at hge
          have : (0 : ℚ) < 1 / 2 ^ 1074 := by positivity
          linarith
        rw [flush_eq_roundTo _ _ _ hge]
        simp [hne]

/-- the float32 form -/
theorem fromFloat32_fromBinExpect (g : Globals) (hg : g.DefaultRoundingMode = 0) (f : F32) :
    ∃ r, Gen.FromFloat32 g f = .ok r ∧
      (𝔳[r]).same (Spec.fromBinExpect Spec.f32 2 f.bits.toNat) = true := by
  rw [← spec32_eq_fromBinExpect]
  exact fromFloat32_correct g f .nearestEven (by rw [hg]; rfl)

end FF
