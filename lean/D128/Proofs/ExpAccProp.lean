/-
  D128/Proofs/ExpAccProp.lean — property C16, from "not a `GeneralViolation`" to "not a `Violation`" (the
  complete meaning of a `.bad` verdict of the oracle, `EnclPf.Violation`), for `Exp`, `Exp2`, `Exp10`.

  Provided (namespace `ExpAcc`):
  * `same_inf_of_huge`  : `10^17000 < F`, `¬ GeneralViolation F r` ⇒ `r` is `+Inf`
  * `zero_of_tiny`      : `0 < F < 10^-17000`, `¬ GeneralViolation F r`, `r.neg = false` ⇒ `r` is `+0`
  * `no_violation_fin`  : for `f ∈ {exp, exp2, exp10}` and a finite non-special operand: a non-negative result
                          that is not a `GeneralViolation` of `f x`, and that is the prescribed value in the
                          exact cases, is not a `Violation`
  * `fin_of_interp`     : `𝔳[d] = .fin n c e` identifies `n`, `c`, `e` with sign bit, `decompose`
-/
import D128.Proofs.ExpAccSpec
import D128.Proofs.EnclosureExact
import D128.Proofs.Specials
import D128.Proofs.CmpBits
set_option autoImplicit false

namespace ExpAcc
open Gen Spec SpecRound EnclPf
local notation "𝔳[" d "]" => Spec.interp (Gen.Decimal.lo d) (Gen.Decimal.hi d)

theorem pow17000_gt : (10 : ℝ) ^ (Emax + 41) ≤ (10 : ℝ) ^ (17000 : ℕ) := by
  rw [← zpow_natCast]
  exact zpow_le_zpow_right₀ (by norm_num) (by unfold Spec.Emax; norm_num)

/-- beyond the range the only acceptable result is `+Inf` -/
theorem same_inf_of_huge {F : ℝ} {r : Val} (hF : (10 : ℝ) ^ (17000 : ℕ) < F)
    (h : ¬ GeneralViolation F r) : r.same (.inf false) = true := by
  have hF0 : 0 < F := lt_trans (by positivity) hF
  match r, h with
  | .nan _ _, h => exact absurd trivial h
  | .inf rn, h =>
    cases rn
    · rfl
    · exfalso; apply h; left; simp [hF0]
  | .fin _ 0 _, h =>
    exfalso; apply h
    show (10 : ℝ) ^ (ulpExp |F|) < |F|
    rw [abs_of_pos hF0]
    obtain ⟨h1, h2, h3⟩ := ulp_facts hF0
    have hgt : Emin < ulpExp F := by
      by_contra hc
      have he : ulpExp F = Emin := le_antisymm (not_lt.1 hc) h1
      rw [he] at h2
      have : ((Cmax : ℝ) + 1) * (10 : ℝ) ^ Emin ≤ 1 := by
        rw [Cmax1_val]
        have e : (10 : ℝ) ^ Emin = 1 / (10 : ℝ) ^ (6176 : ℕ) := by
          unfold Spec.Emin
          rw [show (-6176 : Int) = -((6176 : ℕ) : Int) by norm_num, zpow_neg, zpow_natCast, one_div]
        rw [e, mul_one_div, div_le_one (by positivity)]
        calc (10 * 2 ^ 110 : ℝ) ≤ (10 : ℝ) ^ (35 : ℕ) := by norm_num
          _ ≤ (10 : ℝ) ^ (6176 : ℕ) := pow_le_pow_right₀ (by norm_num) (by norm_num)
      have h17 : (1 : ℝ) ≤ (10 : ℝ) ^ (17000 : ℕ) := one_le_pow₀ (by norm_num)
      generalize (10 : ℝ) ^ (17000 : ℕ) = a at *
      linarith
    have h4 := h3 hgt
    have e : (10 : ℝ) ^ (ulpExp F) = (10 : ℝ) ^ (ulpExp F - 1) * 10 := by
      rw [zpow_sub₀ (by norm_num : (10 : ℝ) ≠ 0)]; field_simp
    have hp : (0 : ℝ) < (10 : ℝ) ^ (ulpExp F - 1) := zpow_pos (by norm_num) _
    have hC := Cmax1_ge
    rw [e]
    have h5 : (10 : ℝ) ^ 34 * (10 : ℝ) ^ (ulpExp F - 1) ≤ ((Cmax : ℝ) + 1) * (10 : ℝ) ^ (ulpExp F - 1) :=
      mul_le_mul_of_nonneg_right hC hp.le
    have h6 : (10 : ℝ) ^ (ulpExp F - 1) * 10 < (10 : ℝ) ^ 34 * (10 : ℝ) ^ (ulpExp F - 1) := by
      have : (10 : ℝ) < (10 : ℝ) ^ 34 := by norm_num
      nlinarith
    clear hF
    linarith
  | .fin _ (c + 1) _, h =>
    exfalso; apply h
    right; right; left
    rw [abs_of_pos hF0]
    exact le_trans pow17000_gt hF.le

/-- below the range the only acceptable non-negative result is `+0` -/
theorem zero_of_tiny {F : ℝ} {r : Val} (hF0 : 0 < F) (hF : F < 1 / (10 : ℝ) ^ (17000 : ℕ))
    (hneg : r.neg = false) (h : ¬ GeneralViolation F r) : (r.isZero && !r.neg) = true := by
  have hsmall : F < (10 : ℝ) ^ (Emin - 40) := by
    refine lt_of_lt_of_le hF ?_
    rw [one_div, ← zpow_natCast, ← zpow_neg]
    exact zpow_le_zpow_right₀ (by norm_num) (by unfold Spec.Emin; norm_num)
  match r, hneg, h with
  | .nan _ _, _, h => exact absurd trivial h
  | .inf rn, _, h =>
    exfalso; apply h; right; left
    rw [abs_of_pos hF0]
    refine lt_trans hsmall ?_
    exact zpow_lt_zpow_right₀ (by norm_num) (by unfold Spec.Emin Spec.Emax; norm_num)
  | .fin rn 0 _, hneg, _ =>
    simp only [Val.neg] at hneg
    simp [Val.isZero, Val.neg, hneg]
  | .fin _ (c + 1) _, _, h =>
    exfalso; apply h
    right; right; right
    rw [abs_of_pos hF0]; exact hsmall

/-- **From the general verdict to the complete one** (`Exp`, `Exp2`, `Exp10`, finite non-special operand). -/
theorem no_violation_fin (f : Fn) (hf : f = .exp ∨ f = .exp2 ∨ f = .exp10) (n : Bool) (c : Nat) (e : Int)
    (r : Val) (ne : Bool) (hspec : specialCase f (.fin n c e) = none)
    (hneg : r.neg = false) (hgv : ¬ GeneralViolation (realFn f (X n c e)) r)
    (hexact : ∀ want, ne = true → exactCase f n c e = some want → r.same want = true) :
    ¬ Violation f (.fin n c e) r ne := by
  have hfe : f ≠ .expm1 := by rcases hf with h | h | h <;> rw [h] <;> decide
  rintro (⟨want, hs, -⟩ | ⟨n', c', e', hx, -, hrest⟩)
  · rw [hspec] at hs; cases hs
  · injection hx with hn hc he
    subst hn hc he
    rcases hrest with ⟨want, hne, hex, -, hsame⟩ | ⟨-, -, hF, hsame⟩ | ⟨-, -, -, hF0, hF, hz⟩ |
      ⟨-, -, hm1, -⟩ | hg
    · rw [hexact want hne hex] at hsame; cases hsame
    · rw [same_inf_of_huge hF hgv] at hsame; cases hsame
    · rw [zero_of_tiny hF0 hF hneg hgv] at hz; cases hz
    · exact hfe hm1
    · exact hgv hg

/-- a bit pattern denoting a finite value is not special, and the triple is sign bit / `decompose` -/
theorem fin_of_interp (d : Decimal) (n : Bool) (c : Nat) (e : Int) (h : 𝔳[d] = .fin n c e) :
    Decimal.isSpecial d = false ∧ n = Decimal.Signbit d ∧ c = d.decompose.1.toNat ∧
      e = d.decompose.2.toInt - 6176 := by
  have hs : Decimal.isSpecial d = false := by
    cases hsp : Decimal.isSpecial d
    · rfl
    · exfalso
      rcases CmpPf.interp_special d hsp with ⟨-, h'⟩ | ⟨-, -, h'⟩ <;> rw [h'] at h <;> cases h
  rw [Enc.interp_decompose d hs] at h
  injection h with h1 h2 h3
  exact ⟨hs, h1.symm, h2.symm, h3.symm⟩

theorem isZero_of_c (d : Decimal) (h : d.decompose.1.toNat ≠ 0) : Decimal.IsZero d = false := by
  rw [Sp.IsZero_eq_sig]; simpa using h

end ExpAcc
