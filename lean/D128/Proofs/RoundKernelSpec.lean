/-
  D128/Proofs/RoundKernelSpec.lean — mathematical characterisation of the specification functions
  `Spec.pow10`, `Spec.ndigits`, `Spec.ilog10`, `Spec.splitAt`, `Spec.spacingExpRaw`, `Spec.roundAt`,
  `Spec.roundToS`, `Spec.flushOrRoundS` used by the rounding-kernel proofs (local copy of what
  `SpecRound.lean` provides project-wide).

  Provided (namespace `RK`):
  * `pow10_eq`            : `Spec.pow10 e = (10:ℚ)^e`
  * `ndigits_spec`        : `0 < n → 10^(ndigits n - 1) ≤ n ∧ n < 10^(ndigits n)`
  * `ilog10_spec`         : `0 < q → pow10 (ilog10 q) ≤ q ∧ q < pow10 (ilog10 q + 1)`
  * `ilog10_unique`
  * `floorNat_eq`         : `(n:ℚ) ≤ x → x < n+1 → floorNat x = n`
  * `splitAt_eq`          : `0 ≤ q → splitAt q e = splitQ (q / pow10 e)`
  * `IsSpacing`, `spacingExpRaw_spec`, `IsSpacing.unique`, `spacingExpRaw_eq`
  * `roundAt_eq`          : `roundAt m neg q e = rndQ m neg (q / pow10 e)`
  * `roundToS_eq`         : `roundToS` in terms of `rndQ` and a known spacing exponent
-/
import Mathlib.Data.Rat.Floor
import Mathlib.Tactic.Linarith
import Mathlib.Tactic.Ring
import Mathlib.Tactic.FieldSimp
import Mathlib.Tactic.Positivity
import Mathlib.Tactic.NormNum
import Mathlib.Tactic.IntervalCases
import D128.Spec.Val

set_option autoImplicit false

namespace RK
open Spec

/-! ## powers of ten -/

theorem pow10_eq (e : Int) : Spec.pow10 e = (10 : ℚ) ^ e := by
  unfold Spec.pow10
  split
  · rename_i h
    obtain ⟨n, rfl⟩ := Int.eq_ofNat_of_zero_le h
    simp
  · rename_i h
    have h' : e = -((-e).toNat : Int) := by omega
    rw [one_div, ← zpow_natCast, ← zpow_neg, ← h']

theorem pow10_pos (e : Int) : 0 < Spec.pow10 e := by
  rw [pow10_eq]; exact zpow_pos (by norm_num) e

theorem pow10_add (a b : Int) : Spec.pow10 (a + b) = Spec.pow10 a * Spec.pow10 b := by
  simp only [pow10_eq]; rw [zpow_add₀ (by norm_num)]

theorem pow10_zero : Spec.pow10 0 = 1 := by simp [pow10_eq]
theorem pow10_one : Spec.pow10 1 = 10 := by simp [pow10_eq]
theorem pow10_neg_one : Spec.pow10 (-1) = 1 / 10 := by simp [pow10_eq]

theorem pow10_natCast (n : Nat) : Spec.pow10 (n : Int) = (10 : ℚ) ^ n := by
  simp [pow10_eq]

theorem pow10_neg (e : Int) : Spec.pow10 (-e) = (Spec.pow10 e)⁻¹ := by
  simp only [pow10_eq, zpow_neg]

theorem pow10_sub (a b : Int) : Spec.pow10 (a - b) = Spec.pow10 a / Spec.pow10 b := by
  rw [sub_eq_add_neg, pow10_add, pow10_neg]; rfl

theorem pow10_lt_iff (a b : Int) : Spec.pow10 a < Spec.pow10 b ↔ a < b := by
  simp only [pow10_eq]
  exact zpow_lt_zpow_iff_right₀ (by norm_num)

theorem pow10_le_iff (a b : Int) : Spec.pow10 a ≤ Spec.pow10 b ↔ a ≤ b := by
  simp only [pow10_eq]
  exact zpow_le_zpow_iff_right₀ (by norm_num)

/-! ## decimal digit count -/

theorem ndigitsSlow_spec (n : Nat) (hn : 0 < n) :
    10 ^ (ndigitsSlow n - 1) ≤ n ∧ n < 10 ^ (ndigitsSlow n) := by
  induction n using Nat.strongRecOn with
  | _ n ih =>
    unfold ndigitsSlow
    split
    · rename_i h
      simp only [Nat.sub_self, pow_zero, pow_one]
      omega
    · rename_i h
      have h10 : 0 < n / 10 := by omega
      obtain ⟨h1, h2⟩ := ih (n / 10) (by omega) h10
      have hpos : 1 ≤ ndigitsSlow (n / 10) := by
        by_contra hc
        have : ndigitsSlow (n / 10) = 0 := by omega
        rw [this] at h2
        simp at h2
        omega
      constructor
      · rw [Nat.add_sub_cancel]
        calc 10 ^ ndigitsSlow (n / 10) = 10 ^ (ndigitsSlow (n / 10) - 1) * 10 := by
              rw [← pow_succ]; congr 1; omega
          _ ≤ (n / 10) * 10 := Nat.mul_le_mul_right _ h1
          _ ≤ n := Nat.div_mul_le_self n 10
      · rw [pow_succ]
        omega

theorem ndigits_spec (n : Nat) (hn : 0 < n) :
    10 ^ (ndigits n - 1) ≤ n ∧ n < 10 ^ (ndigits n) := by
  unfold ndigits
  have hn0 : (n == 0) = false := by simp; omega
  simp only [hn0, Bool.false_eq_true, if_false]
  split
  · rename_i h
    simpa [Bool.and_eq_true] using h
  · split
    · rename_i h
      simp only [Bool.and_eq_true, decide_eq_true_eq] at h
      simpa using h
    · exact ndigitsSlow_spec n hn

theorem ndigits_pos (n : Nat) (hn : 0 < n) : 1 ≤ ndigits n := by
  by_contra hc
  have h0 : ndigits n = 0 := by omega
  have := (ndigits_spec n hn).2
  rw [h0] at this
  simp at this
  omega

theorem ndigits_spec_rat (n : Nat) (hn : 0 < n) :
    Spec.pow10 ((ndigits n : Int) - 1) ≤ (n : ℚ) ∧ (n : ℚ) < Spec.pow10 (ndigits n : Int) := by
  obtain ⟨h1, h2⟩ := ndigits_spec n hn
  have hp := ndigits_pos n hn
  have e1 : ((ndigits n : Int) - 1) = ((ndigits n - 1 : Nat) : Int) := by omega
  rw [e1, pow10_natCast, pow10_natCast]
  exact ⟨by exact_mod_cast h1, by exact_mod_cast h2⟩

/-! ## `ilog10` -/

theorem ilog10_spec (q : ℚ) (hq : 0 < q) :
    Spec.pow10 (ilog10 q) ≤ q ∧ q < Spec.pow10 (ilog10 q + 1) := by
  have hnum : 0 < q.num := Rat.num_pos.2 hq
  have hn : 0 < q.num.natAbs := by omega
  have hcast : ((q.num.natAbs : Nat) : ℚ) = (q.num : ℚ) := by
    have : ((q.num.natAbs : Nat) : Int) = q.num := by omega
    rw [← Int.cast_natCast, this]
  have hqe : q = (q.num.natAbs : ℚ) / (q.den : ℚ) := by
    rw [hcast]; exact (Rat.num_div_den q).symm
  obtain ⟨a1, a2⟩ := ndigits_spec_rat q.num.natAbs hn
  unfold ilog10
  split
  · rename_i hd
    have hd1 : q.den = 1 := by simpa using hd
    have hqn : q = (q.num.natAbs : ℚ) := by
      rw [hqe, hd1]; simp
    rw [sub_add_cancel]
    constructor
    · rw [hqn] at *; exact a1
    · rw [hqn] at *; exact a2
  · obtain ⟨b1, b2⟩ := ndigits_spec_rat q.den q.den_pos
    have hdpos : (0 : ℚ) < (q.den : ℚ) := by exact_mod_cast q.den_pos
    set a : Int := (ndigits q.num.natAbs : Int) with ha
    set b : Int := (ndigits q.den : Int) with hb
    have lower : Spec.pow10 (a - b - 1) < q := by
      have : Spec.pow10 (a - b - 1) = Spec.pow10 (a - 1) / Spec.pow10 b := by
        rw [← pow10_sub]; congr 1; ring
      rw [this, hqe, div_lt_div_iff₀ (pow10_pos _) hdpos]
      calc Spec.pow10 (a - 1) * (q.den : ℚ) < Spec.pow10 (a - 1) * Spec.pow10 b :=
            mul_lt_mul_of_pos_left b2 (pow10_pos _)
        _ ≤ (q.num.natAbs : ℚ) * Spec.pow10 b :=
            mul_le_mul_of_nonneg_right a1 (le_of_lt (pow10_pos _))
    have upper : q < Spec.pow10 (a - b + 1) := by
      have : Spec.pow10 (a - b + 1) = Spec.pow10 a / Spec.pow10 (b - 1) := by
        rw [← pow10_sub]; congr 1; ring
      rw [this, hqe, div_lt_div_iff₀ hdpos (pow10_pos _)]
      calc (q.num.natAbs : ℚ) * Spec.pow10 (b - 1) < Spec.pow10 a * Spec.pow10 (b - 1) :=
            mul_lt_mul_of_pos_right a2 (pow10_pos _)
        _ ≤ Spec.pow10 a * (q.den : ℚ) :=
            mul_le_mul_of_nonneg_left b1 (le_of_lt (pow10_pos _))
    simp only []
    split
    · rename_i h
      exact ⟨h, upper⟩
    · rename_i h
      refine ⟨le_of_lt lower, ?_⟩
      rw [sub_add_cancel]
      exact lt_of_not_ge h

theorem ilog10_unique (q : ℚ) (l : Int) (h1 : Spec.pow10 l ≤ q) (h2 : q < Spec.pow10 (l + 1)) :
    ilog10 q = l := by
  have hq : 0 < q := lt_of_lt_of_le (pow10_pos l) h1
  obtain ⟨s1, s2⟩ := ilog10_spec q hq
  have c1 : l < ilog10 q + 1 := (pow10_lt_iff _ _).1 (lt_of_le_of_lt h1 s2)
  have c2 : ilog10 q < l + 1 := (pow10_lt_iff _ _).1 (lt_of_le_of_lt s1 h2)
  omega

/-! ## floor and `splitAt` -/

theorem floor_eq (x : ℚ) (n : Int) (h1 : (n : ℚ) ≤ x) (h2 : x < (n : ℚ) + 1) : x.floor = n := by
  have a : n ≤ x.floor := Rat.le_floor_iff.2 h1
  have b : x.floor < n + 1 := Rat.floor_lt_iff.2 (by push_cast; exact h2)
  omega

theorem floorNat_eq (x : ℚ) (n : Nat) (h1 : (n : ℚ) ≤ x) (h2 : x < (n : ℚ) + 1) :
    floorNat x = n := by
  unfold floorNat
  rw [floor_eq x (n : Int) (by exact_mod_cast h1) (by exact_mod_cast h2)]
  simp

theorem floorNat_le (x : ℚ) (hx : 0 ≤ x) : (floorNat x : ℚ) ≤ x := by
  unfold floorNat
  have h0 : 0 ≤ x.floor := Rat.le_floor_iff.2 (by exact_mod_cast hx)
  have : ((x.floor.toNat : Nat) : ℚ) = ((x.floor : Int) : ℚ) := by
    rw [← Int.cast_natCast, Int.toNat_of_nonneg h0]
  rw [this]; exact Rat.floor_le x

theorem lt_floorNat_add_one (x : ℚ) : x < (floorNat x : ℚ) + 1 := by
  unfold floorNat
  have h1 := Rat.lt_floor_add_one x
  have h2 : (x.floor : ℚ) ≤ ((x.floor.toNat : Nat) : ℚ) := by
    rw [← Int.cast_natCast]; exact_mod_cast Int.self_le_toNat x.floor
  push_cast at h1
  linarith

/-- position of a fraction relative to one half -/
def fracOrd (f : ℚ) : Ordering := if f < 1/2 then .lt else if f == 1/2 then .eq else .gt

/-- `Spec.splitAt` as a function of the scaled magnitude -/
def splitQ (x : ℚ) : Nat × Ordering × Bool :=
  (floorNat x, fracOrd (x - (floorNat x : ℚ)), (x - (floorNat x : ℚ)) == 0)

theorem splitAt_eq (q : ℚ) (e : Int) (hq : 0 ≤ q) : Spec.splitAt q e = splitQ (q / Spec.pow10 e) := by
  unfold Spec.splitAt
  split
  · rename_i h
    simp only [Bool.and_eq_true, beq_iff_eq, decide_eq_true_eq] at h
    obtain ⟨hd, he⟩ := h
    have hnum : 0 ≤ q.num := Rat.num_nonneg.2 hq
    have hqn : q = ((q.num.toNat : Nat) : ℚ) := by
      have h1 : q = (q.num : ℚ) := by
        conv_lhs => rw [← Rat.num_div_den q]
        rw [hd]; simp
      have h2 : ((q.num.toNat : Nat) : Int) = q.num := Int.toNat_of_nonneg hnum
      rw [← Int.cast_natCast, h2]; exact h1
    have hp : Spec.pow10 e = ((10 ^ e.toNat : Nat) : ℚ) := by
      obtain ⟨k, rfl⟩ := Int.eq_ofNat_of_zero_le he
      rw [pow10_natCast]; simp
    set n := q.num.toNat with hn
    set p := 10 ^ e.toNat with hpdef
    have hppos : 0 < p := by positivity
    have hpq : (0 : ℚ) < (p : ℚ) := by exact_mod_cast hppos
    have hdm : n = p * (n / p) + n % p := (Nat.div_add_mod n p).symm
    have hmod : n % p < p := Nat.mod_lt _ hppos
    have hx : q / Spec.pow10 e = ((n / p : Nat) : ℚ) + ((n % p : Nat) : ℚ) / (p : ℚ) := by
      rw [hqn, hp]
      field_simp
      exact_mod_cast hdm
    have hfrac_lt : ((n % p : Nat) : ℚ) / (p : ℚ) < 1 := by
      rw [div_lt_one hpq]; exact_mod_cast hmod
    have hfrac_nn : 0 ≤ ((n % p : Nat) : ℚ) / (p : ℚ) := by positivity
    have hfl : floorNat (q / Spec.pow10 e) = n / p := by
      apply floorNat_eq <;> rw [hx] <;> linarith
    unfold splitQ
    rw [hfl]
    have hfr : q / Spec.pow10 e - ((n / p : Nat) : ℚ) = ((n % p : Nat) : ℚ) / (p : ℚ) := by
      rw [hx]; ring
    rw [hfr]
    refine Prod.ext rfl (Prod.ext ?_ ?_)
    · show compare (2 * (n % p)) p = fracOrd _
      unfold fracOrd
      have k1 : ((n % p : Nat) : ℚ) / (p : ℚ) < 1 / 2 ↔ 2 * (n % p) < p := by
        rw [div_lt_div_iff₀ hpq (by norm_num)]
        constructor
        · intro h; have : ((2 * (n % p) : Nat) : ℚ) < (p : ℚ) := by push_cast; linarith
          exact_mod_cast this
        · intro h; have : ((2 * (n % p) : Nat) : ℚ) < (p : ℚ) := by exact_mod_cast h
          push_cast at this; linarith
      have k2 : ((n % p : Nat) : ℚ) / (p : ℚ) = 1 / 2 ↔ 2 * (n % p) = p := by
        rw [div_eq_div_iff (ne_of_gt hpq) (by norm_num)]
        constructor
        · intro h; have : ((2 * (n % p) : Nat) : ℚ) = (p : ℚ) := by push_cast; linarith
          exact_mod_cast this
        · intro h; have : ((2 * (n % p) : Nat) : ℚ) = (p : ℚ) := by exact_mod_cast h
          push_cast at this; linarith
      by_cases c1 : 2 * (n % p) < p
      · rw [if_pos (k1.2 c1)]; exact Nat.compare_eq_lt.2 c1
      · rw [if_neg (fun h => c1 (k1.1 h))]
        by_cases c2 : 2 * (n % p) = p
        · have : (((n % p : Nat) : ℚ) / (p : ℚ) == 1 / 2) = true := by
            rw [beq_iff_eq]; exact k2.2 c2
          rw [if_pos this]; exact Nat.compare_eq_eq.2 c2
        · have : ¬ ((((n % p : Nat) : ℚ) / (p : ℚ) == 1 / 2) = true) := by
            rw [beq_iff_eq]; exact fun h => c2 (k2.1 h)
          rw [if_neg this]; exact Nat.compare_eq_gt.2 (by omega)
    · show (n % p == 0) = (((n % p : Nat) : ℚ) / (p : ℚ) == 0)
      rw [Bool.eq_iff_iff, beq_iff_eq, beq_iff_eq, div_eq_zero_iff]
      constructor
      · intro h; left; exact_mod_cast h
      · rintro (h | h)
        · exact_mod_cast h
        · exact absurd h (ne_of_gt hpq)
  · rfl

/-! ## the spacing exponent -/

theorem Cmax_cast : ((Spec.Cmax : Nat) : ℚ) + 1 = 10 * 2 ^ 110 := by
  norm_num [Spec.Cmax]

theorem Cmax_val : Spec.Cmax = 12980742146337069071326240823050239 := by
  norm_num [Spec.Cmax]

/-- `r` is the exponent of the spacing of an unbounded-exponent format at magnitude `q`:
    `2^110 ≤ q / 10^r < 10·2^110 = Cmax + 1` -/
def IsSpacing (q : ℚ) (r : Int) : Prop :=
  (2 ^ 110 : ℚ) * Spec.pow10 r ≤ q ∧ q < 10 * 2 ^ 110 * Spec.pow10 r

theorem IsSpacing.unique {q : ℚ} {r r' : Int} (h : IsSpacing q r) (h' : IsSpacing q r') : r = r' := by
  have key : ∀ a b : Int, IsSpacing q a → IsSpacing q b → ¬ (a < b) := by
    intro a b ha hb hab
    have h1 : Spec.pow10 (a + 1) ≤ Spec.pow10 b := (pow10_le_iff _ _).2 (by omega)
    rw [pow10_add, pow10_one] at h1
    have hpa := pow10_pos a
    have : q < q := calc
      q < 10 * 2 ^ 110 * Spec.pow10 a := ha.2
      _ = 2 ^ 110 * (Spec.pow10 a * 10) := by ring
      _ ≤ 2 ^ 110 * Spec.pow10 b := by
          apply mul_le_mul_of_nonneg_left h1; positivity
      _ ≤ q := hb.1
    exact lt_irrefl _ this
  have := key r r' h h'
  have := key r' r h' h
  omega

theorem spacingExpRaw_spec (q : ℚ) (hq : 0 < q) : IsSpacing q (spacingExpRaw q) := by
  obtain ⟨l1, l2⟩ := ilog10_spec q hq
  unfold spacingExpRaw
  simp only []
  rw [splitAt_eq q _ (le_of_lt hq)]
  set e1 : Int := ilog10 q - 34 with he1
  have hpe := pow10_pos e1
  have hl : Spec.pow10 (ilog10 q) = 10 ^ 34 * Spec.pow10 e1 := by
    have : ilog10 q = (34 : Nat) + e1 := by omega
    conv_lhs => rw [this, pow10_add, pow10_natCast]
  have hl' : Spec.pow10 (ilog10 q + 1) = 10 ^ 35 * Spec.pow10 e1 := by
    have : ilog10 q + 1 = (35 : Nat) + e1 := by omega
    conv_lhs => rw [this, pow10_add, pow10_natCast]
  rw [hl] at l1; rw [hl'] at l2
  set x := q / Spec.pow10 e1 with hx
  have hqx : q = x * Spec.pow10 e1 := by rw [hx]; field_simp
  have hx0 : 0 ≤ x := by rw [hx]; positivity
  show IsSpacing q (if (splitQ x).1 ≤ Cmax then e1 else e1 + 1)
  have hs : (splitQ x).1 = floorNat x := rfl
  rw [hs]
  split
  · rename_i h
    have h2 : x < (Spec.Cmax : ℚ) + 1 := by
      have := lt_floorNat_add_one x
      have h' : (floorNat x : ℚ) ≤ (Spec.Cmax : ℚ) := by exact_mod_cast h
      linarith
    rw [Cmax_cast] at h2
    constructor
    · calc (2 ^ 110 : ℚ) * Spec.pow10 e1 ≤ 10 ^ 34 * Spec.pow10 e1 := by
            apply mul_le_mul_of_nonneg_right _ (le_of_lt hpe); norm_num
        _ ≤ q := l1
    · rw [hqx]; exact mul_lt_mul_of_pos_right h2 hpe
  · rename_i h
    have h2 : (Spec.Cmax : ℚ) + 1 ≤ x := by
      have h' : Spec.Cmax + 1 ≤ floorNat x := by omega
      have h'' : ((Spec.Cmax + 1 : Nat) : ℚ) ≤ (floorNat x : ℚ) := by exact_mod_cast h'
      have := floorNat_le x hx0
      push_cast at h''; linarith
    rw [Cmax_cast] at h2
    rw [IsSpacing, pow10_add, pow10_one]
    constructor
    · rw [hqx]
      calc (2 ^ 110 : ℚ) * (Spec.pow10 e1 * 10) = 10 * 2 ^ 110 * Spec.pow10 e1 := by ring
        _ ≤ x * Spec.pow10 e1 := mul_le_mul_of_nonneg_right h2 (le_of_lt hpe)
    · calc q < 10 ^ 35 * Spec.pow10 e1 := l2
        _ ≤ 10 * 2 ^ 110 * (Spec.pow10 e1 * 10) := by
            have : (10 : ℚ) ^ 35 ≤ 10 * 2 ^ 110 * 10 := by norm_num
            nlinarith [this, hpe]

theorem spacingExpRaw_eq (q : ℚ) (r : Int) (h : IsSpacing q r) : spacingExpRaw q = r := by
  have hq : 0 < q := lt_of_lt_of_le (by have := pow10_pos r; positivity) h.1
  exact (spacingExpRaw_spec q hq).unique h

/-! ## `roundAt` and `roundToS` -/

/-- `Spec.roundAt` as a function of the scaled magnitude -/
def rndQ (m : Mode) (neg : Bool) (x : ℚ) : Nat :=
  if roundsUp m neg ((splitQ x).1 % 2 == 1) (splitQ x).2.1 (splitQ x).2.2 then (splitQ x).1 + 1
  else (splitQ x).1

theorem roundAt_eq (m : Mode) (neg : Bool) (q : ℚ) (e : Int) (hq : 0 ≤ q) :
    roundAt m neg q e = rndQ m neg (q / Spec.pow10 e) := by
  unfold roundAt rndQ
  rw [splitAt_eq q e hq]

/-- the result of `Spec.roundToS` after the coefficient `c` at exponent `e` has been determined -/
def finish (neg : Bool) (c : Nat) (e : Int) : Val :=
  if c > Cmax then (if e + 1 > Emax then .inf neg else .fin neg (c / 10) (e + 1))
  else (if e > Emax then .inf neg else .fin neg c e)

theorem roundToS_eq (m : Mode) (neg : Bool) (q : ℚ) (k r : Int) (h : IsSpacing q r) :
    roundToS m neg q k =
      finish neg (rndQ m neg (q / Spec.pow10 ((if r + k < Emin then Emin else r + k) - k)))
        (if r + k < Emin then Emin else r + k) := by
  have hq : 0 < q := lt_of_lt_of_le (by have := pow10_pos r; positivity) h.1
  unfold roundToS spacingExpS finish
  rw [spacingExpRaw_eq q r h]
  simp only []
  rw [roundAt_eq _ _ _ _ (le_of_lt hq)]
  split <;> (split <;> rfl)

end RK
