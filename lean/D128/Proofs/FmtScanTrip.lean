/-
  D128/Proofs/FmtScanTrip.lean — scanning a text that `parse` accepts, and the round trip through `String`.

  * `FmtScan.runeOf`, `runesOf`, `byteOf_runeOf`, `tokNat`, `tokPred_runeOf`
  * `FmtScan.Scan_text` : if the text after the leading space is `out ++ rest` with `out` made of token runes,
    `parse out = (v, nil)` and `rest` does not continue the token, `Scan` returns `v` having consumed `out`
  * `FmtScan.shortestG_chars`, `string_tok` : the bytes of `String d` (finite `d`) are token runes
  * `FmtScan.window_tokEnd`, `tokEnd_pos` : what is left after the token
  * `FmtScan.Scan_string_fin`, `Scan_string_nan`, `Scan_string_inf` : scanning `String d` from any state
  * `FmtScan.sscanState`, `window_sscan`, `sscan_split`, `sscan_noPanic` : the state `fmt.Sscan` builds
  * `FmtScan.string_scan_facts`, `sscan_fin` : the round trip through `Sscan` for finite values
-/
import D128.Proofs.FmtScanTotal
import D128.Proofs.EmitRoundFinal
set_option autoImplicit false
set_option linter.unusedVariables false
set_option linter.unusedSimpArgs false

namespace FmtScan
open Go Gen

/-- a byte as a rune (Latin-1; the texts considered are ASCII) -/
def runeOf (b : UInt8) : Int32 := Int32.ofNat b.toNat

/-- a byte string as runes -/
def runesOf (b : Bytes) : List Int32 := b.toList.map runeOf

theorem runeOf_toInt (b : UInt8) : (runeOf b).toInt = b.toNat := by
  unfold runeOf
  exact Int32.toInt_ofNat_of_lt (by have := b.toNat_lt; omega)

theorem byteOf_runeOf (b : UInt8) : byteOf (runeOf b) = b := by
  unfold byteOf
  rw [runeOf_toInt]
  simp

theorem map_byteOf_runesOf (b : Bytes) : (runesOf b).map byteOf = b.toList := by
  unfold runesOf
  rw [List.map_map]
  conv => rhs; rw [← List.map_id b.toList]
  apply List.map_congr_left
  intro x _
  exact byteOf_runeOf x

/-- the token characters by their code -/
def tokNat (n : Nat) : Bool :=
  (decide (48 ≤ n) && decide (n ≤ 57)) || n == 46 || n == 69 || n == 101 || n == 45 || n == 95 || n == 43

theorem tokPred_of_toInt (r : Int32) (n : Nat) (h : r.toInt = n) (hn : n < 256) : tokPred r = tokNat n := by
  have eqk : ∀ k : Nat, k < 256 → ((r == Int32.ofNat k) = (n == k)) := by
    intro k hk
    rw [Bool.eq_iff_iff, beq_iff_eq, beq_iff_eq]
    constructor
    · intro e
      rw [e, Int32.toInt_ofNat_of_lt (by omega)] at h
      omega
    · intro e
      apply Int32.toInt_inj.mp
      rw [h, Int32.toInt_ofNat_of_lt (by omega), e]
  unfold tokPred tokNat
  have l1 : decide (48 ≤ r) = decide (48 ≤ n) := by
    rw [decide_eq_decide, Int32.le_iff_toInt_le, h, show (48 : Int32).toInt = 48 from by decide]; omega
  have l2 : decide (r ≤ 57) = decide (n ≤ 57) := by
    rw [decide_eq_decide, Int32.le_iff_toInt_le, h, show (57 : Int32).toInt = 57 from by decide]; omega
  rw [l1, l2, show (46 : Int32) = Int32.ofNat 46 from rfl, eqk 46 (by decide),
    show (69 : Int32) = Int32.ofNat 69 from rfl, eqk 69 (by decide),
    show (101 : Int32) = Int32.ofNat 101 from rfl, eqk 101 (by decide),
    show (45 : Int32) = Int32.ofNat 45 from rfl, eqk 45 (by decide),
    show (95 : Int32) = Int32.ofNat 95 from rfl, eqk 95 (by decide),
    show (43 : Int32) = Int32.ofNat 43 from rfl, eqk 43 (by decide)]

theorem tokPred_runeOf (b : UInt8) : tokPred (runeOf b) = tokNat b.toNat :=
  tokPred_of_toInt _ _ (runeOf_toInt b) b.toNat_lt

/-! ## scanning a text that `parse` accepts -/

theorem sgnOf_cases (w : List Int32) : sgnOf w = [] ∨ sgnOf w = [43] ∨ sgnOf w = [45] := by
  cases w with
  | nil => exact Or.inl rfl
  | cons r t =>
    unfold sgnOf
    by_cases h : isSign r = true
    · simp only [h, if_true]
      unfold isSign at h
      simp only [Bool.or_eq_true, beq_iff_eq] at h
      rcases h with h | h <;> subst h
      · exact Or.inr (Or.inr rfl)
      · exact Or.inr (Or.inl rfl)
    · simp only [h]; exact Or.inl rfl

theorem tokPred_sign : tokPred 43 = true ∧ tokPred 45 = true := by decide

/-- **Scanning an accepted text.**  After the leading space the input reads `out ++ rest`, where the
bytes `out` are token runes (digits `.` `e` `E` `-` `_` `+`), `parse` accepts `out` with value `v`, and
`rest` does not continue the token (it is empty — then the reader must not fail there — or starts with
another rune).  `Scan` consumes exactly `out` and stores `v`. -/
theorem Scan_text (g : Globals) (d : Decimal) (f : ScanState) (verb : Int32) (op : UInt64)
    (hv : okVerb verb = true) (hnp : ¬ panicCond f) (hsz : f.input.size < 2 ^ 62)
    (out : Bytes) (rest : List Int32) (hw : afterSpace f = runesOf out ++ rest)
    (hout : ∀ b ∈ out.toList, tokNat b.toNat = true)
    (hr : ∀ x, rest.head? = some x → tokPred x = false)
    (hend : rest = [] → endErr (advance (skipped f) (runesOf out)) = .ioEOF)
    (v : Decimal) (hparse : Gen.parse g out op = .ok (v, Err.nil)) :
    Gen.Decimal.Scan g d f verb = .ok (v, tokEnd (skipped f) (runesOf out) rest, Err.nil) := by
  have hall : ∀ x ∈ runesOf out, tokPred x = true := by
    intro x hx
    unfold runesOf at hx
    obtain ⟨b, hb, rfl⟩ := List.mem_map.mp hx
    rw [tokPred_runeOf]; exact hout b hb
  have hsb := sgn_body (runesOf out)
  have htok : ∀ x ∈ bodyOf (runesOf out), tokPred x = true := fun x hx =>
    hall x (by rw [← hsb]; exact List.mem_append_right _ hx)
  have hbytes : ((sgnOf (runesOf out) ++ bodyOf (runesOf out)).map byteOf).toArray = out := by
    rw [hsb, map_byteOf_runesOf]
  have hsign := sgnOf_cases (runesOf out)
  have hmax : sgnOf (runesOf out) = [] → (bodyOf (runesOf out) ++ rest).head? ≠ some 43 ∧
      (bodyOf (runesOf out) ++ rest).head? ≠ some 45 := by
    intro h0
    cases hro : runesOf out with
    | nil =>
      simp only [bodyOf, List.nil_append]
      constructor <;> intro e
      · have := hr _ e; rw [tokPred_sign.1] at this; cases this
      · have := hr _ e; rw [tokPred_sign.2] at this; cases this
    | cons r t =>
      rw [hro] at h0
      have h0' : (if isSign r = true then [r] else []) = ([] : List Int32) := h0
      have hns : isSign r = false := by
        cases h : isSign r
        · rfl
        · rw [h] at h0'; simp at h0' 
      unfold bodyOf
      simp only [hns, Bool.false_eq_true, if_false, List.cons_append, List.head?_cons]
      unfold isSign at hns
      simp only [Bool.or_eq_false_iff, beq_eq_false_iff_ne] at hns
      exact ⟨fun e => hns.2 (Option.some.inj e), fun e => hns.1 (Option.some.inj e)⟩
  have hsp : SignSplit (afterSpace f) (sgnOf (runesOf out)) (bodyOf (runesOf out) ++ rest) :=
    ⟨by rw [hw, ← List.append_assoc, hsb], hsign, hmax⟩
  -- the token is not empty: `parse` would reject
  have hne : bodyOf (runesOf out) ≠ [] := by
    intro h0
    have hp := parse_sign_tok g op (sgnOf (runesOf out)) (bodyOf (runesOf out)) hsign htok
      (fun h => by rw [h0]; exact ⟨by simp, by simp⟩) (by rw [h0]; decide)
    rw [hbytes, h0, List.map_nil, tailNum_nil, hparse] at hp
    cases hp
  have hlen : (runesOf out).length ≤ f.input.size := by
    have h1 := window_length_le (skipped f)
    rw [window_skipped, hw, List.length_append, skipped_input] at h1
    omega
  obtain ⟨v', e', hp', _, hS⟩ := Scan_number g d f verb op hv hnp hsz (sgnOf (runesOf out))
    (bodyOf (runesOf out)) rest hsp htok hr
    (fun h => hne (List.append_eq_nil_iff.mp h).1)
    (fun h => absurd h hne)
    (fun h => by rw [hsb]; exact hend h)
  rw [hbytes, hparse] at hp'
  injection hp' with hp'
  injection hp' with h1 h2
  subst h1; subst h2
  rw [hS, hsb]
  rfl

/-! ## the bytes of `String d` -/

theorem digitChar_toNat (x : Nat) (h : x < 10) : (Spec.digitChar x).toNat = 48 + x := by
  unfold Spec.digitChar
  exact Emit.toNat_ofNat_small _ (by omega)

theorem digitsStr_tok (L : List Nat) (h : ∀ x ∈ L, x < 10) :
    ∀ ch ∈ Spec.digitsStr L, tokNat ch.toNat = true := by
  intro ch hch
  unfold Spec.digitsStr at hch
  obtain ⟨x, hx, rfl⟩ := List.mem_map.mp hch
  have := h x hx
  rw [digitChar_toNat x this]
  unfold tokNat
  simp only [Bool.or_eq_true, Bool.and_eq_true, decide_eq_true_eq]
  exact Or.inl (Or.inl (Or.inl (Or.inl (Or.inl (Or.inl ⟨by omega, by omega⟩)))))

/-- every character of the shortest numeral is a digit, `.`, `e`, `+` or `-` -/
theorem shortestG_chars (neg : Bool) (c : Nat) (e : Int) :
    ∀ ch ∈ Spec.shortestG neg (Spec.sliceOf c e) 'e', tokNat ch.toNat = true := by
  obtain ⟨A, B, EP, hasDot, hasExp, eneg, hs, hA, hB, hEP, _⟩ := Emit.shortest_canon (-4) 6 2 c e 'e'
  have hbody : Spec.shortestG neg (Spec.sliceOf c e) 'e' =
      (if neg then ['-'] else []) ++ Emit.shortest (-4) 6 2 false (Spec.sliceOf c e) 'e' := by
    rw [Emit.shortestG_eq]
    unfold Emit.shortest
    simp
  rw [hbody, hs]
  intro ch hch
  rcases List.mem_append.mp hch with h | h
  · cases neg
    · simp at h
    · simp only [if_true, List.mem_singleton] at h; subst h; decide
  rcases List.mem_append.mp h with h | h
  · exact digitsStr_tok A hA ch h
  rcases List.mem_append.mp h with h | h
  · cases hasDot
    · simp at h
    · simp only [if_true, List.mem_cons] at h
      rcases h with h | h
      · subst h; decide
      · exact digitsStr_tok B hB ch h
  · cases hasExp
    · simp at h
    · simp only [if_true, List.mem_cons] at h
      rcases h with h | h | h
      · subst h; decide
      · cases eneg
        · simp only [Bool.false_eq_true, if_false] at h; subst h; decide
        · simp only [if_true] at h; subst h; decide
      · exact digitsStr_tok EP hEP ch h

/-- the bytes of `String d`, `d` finite, are token runes -/
theorem string_tok (out : Bytes) (neg : Bool) (c : Nat) (e : Int)
    (h : Emit.chars out = Spec.shortestG neg (Spec.sliceOf c e) 'e') :
    ∀ b ∈ out.toList, tokNat b.toNat = true := by
  intro b hb
  have : Emit.toChar b ∈ Emit.chars out := List.mem_map.mpr ⟨b, hb, rfl⟩
  rw [h] at this
  have := shortestG_chars neg c e _ this
  rwa [Emit.toChar_toNat] at this

/-! ## what is left after the token -/

theorem window_tokEnd (s0 : ScanState) (tok rest : List Int32) (h : window s0 = tok ++ rest) :
    window (tokEnd s0 tok rest) = rest := by
  have := window_advance tok h
  unfold tokEnd
  cases rest with
  | nil => exact window_stop this
  | cons x rest => rw [window_settle]; exact this

theorem stop_pos (s : ScanState) : (stop s).pos = s.pos := by
  unfold stop; split
  · rfl
  · split <;> rfl

theorem tokEnd_pos (s0 : ScanState) (tok rest : List Int32) :
    (tokEnd s0 tok rest).pos = s0.pos + tok.length := by
  unfold tokEnd
  cases rest with
  | nil => rw [stop_pos, (advance_fields _ _).2.2.2.2.2.1]
  | cons x rest => exact (advance_fields _ _).2.2.2.2.2.1

theorem skipped_pos (f : ScanState) : (skipped f).pos = f.pos + (leadSpace f).length := by
  unfold skipped
  split
  · rw [stop_pos, (advance_fields _ _).2.2.2.2.2.1]
  · exact (advance_fields _ _).2.2.2.2.2.1

/-! ## scanning `String d` -/

local notation "𝔳[" d "]" => Spec.interp (Gen.Decimal.lo d) (Gen.Decimal.hi d)

/-- **Round trip, finite values**, from ANY scanner state: if the text after the leading space is
`String d` followed by something that does not continue the token, `Scan` (any of the seven verbs) stores
a Decimal `Equal` to `d` with the same sign, and consumes exactly the text. -/
theorem Scan_string_fin (g : Globals) (m : Spec.Mode)
    (hm : Spec.Mode.ofNat? g.DefaultRoundingMode.toNat = some m) (d : Decimal) (neg : Bool)
    (c : Nat) (e : Int) (hfin : 𝔳[d] = .fin neg c e)
    (dst : Decimal) (f : ScanState) (verb : Int32) (hv : okVerb verb = true) (hnp : ¬ panicCond f)
    (hsz : f.input.size < 2 ^ 62) :
    ∃ out, Gen.Decimal.String d = .ok out ∧
      ∀ rest : List Int32, afterSpace f = runesOf out ++ rest →
        (∀ x, rest.head? = some x → tokPred x = false) →
        (rest = [] → endErr (advance (skipped f) (runesOf out)) = .ioEOF) →
        ∃ v, Gen.Decimal.Scan g dst f verb =
            .ok (v, tokEnd (skipped f) (runesOf out) rest, Err.nil) ∧
          window (tokEnd (skipped f) (runesOf out) rest) = rest ∧
          Spec.equal (𝔳[v]) (𝔳[d]) = true ∧ (𝔳[v]).neg = (𝔳[d]).neg ∧ (𝔳[v]).isFin = true := by
  obtain ⟨out, v, ho, hp, h1, h2, h3⟩ := Emit.string_parse_equal g 7 m hm d neg c e hfin
  obtain ⟨out', ho', hch, _⟩ := Emit.string_fin d neg c e hfin
  rw [ho] at ho'
  injection ho' with ho'
  subst ho'
  refine ⟨out, ho, fun rest hw hr hend => ⟨v, ?_, ?_, h1, h2, h3⟩⟩
  · exact Scan_text g dst f verb 7 hv hnp hsz out rest hw (string_tok out neg c e hch) hr hend v hp
  · exact window_tokEnd _ _ _ (by rw [window_skipped, hw])

/-- **Round trip, NaN**: `String d` is `NaN`; scanning it stores a NaN (payload `payloadOpScan`), whatever
follows; exactly three runes are consumed -/
theorem Scan_string_nan (g : Globals) (d : Decimal) (n : Bool) (p : UInt64) (h : 𝔳[d] = .nan n p)
    (dst : Decimal) (f : ScanState) (verb : Int32) (hv : okVerb verb = true) (hnp : ¬ panicCond f)
    (rest : List Int32) (hw : afterSpace f = runesOf (Go.str "NaN") ++ rest) :
    Gen.Decimal.String d = .ok (Go.str "NaN") ∧
      Gen.Decimal.Scan g dst f verb =
        .ok (nan 7 0 0, advance (skipped f) (runesOf (Go.str "NaN")), Err.nil) ∧
      window (advance (skipped f) (runesOf (Go.str "NaN"))) = rest ∧ (𝔳[nan 7 0 0]).isNaN = true := by
  refine ⟨Emit.string_nan d n p h, ?_, window_advance _ (by rw [window_skipped, hw]),
    Emit.interp_nan_isNaN 7⟩
  have hsp : SignSplit (afterSpace f) [] (78 :: ([97, 78] ++ rest)) :=
    ⟨by rw [hw]; rfl, Or.inl rfl, fun _ => ⟨by simp, by simp⟩⟩
  rw [Scan_name g dst f verb hv hnp [] 78 _ hsp (by decide)]
  rfl

/-- **Round trip, infinities**: `String d` is `+Inf` / `-Inf`; scanning it stores the same infinity -/
theorem Scan_string_inf (g : Globals) (d : Decimal) (n : Bool) (h : 𝔳[d] = .inf n)
    (dst : Decimal) (f : ScanState) (verb : Int32) (hv : okVerb verb = true) (hnp : ¬ panicCond f)
    (rest : List Int32)
    (hw : afterSpace f = runesOf (if n then Go.str "-Inf" else Go.str "+Inf") ++ rest) :
    Gen.Decimal.String d = .ok (if n then Go.str "-Inf" else Go.str "+Inf") ∧
      Gen.Decimal.Scan g dst f verb =
        .ok (inf n, advance (skipped f) (runesOf (if n then Go.str "-Inf" else Go.str "+Inf")),
          Err.nil) ∧
      window (advance (skipped f) (runesOf (if n then Go.str "-Inf" else Go.str "+Inf"))) = rest ∧
      𝔳[inf n] = 𝔳[d] := by
  refine ⟨Emit.string_inf d n h, ?_, window_advance _ (by rw [window_skipped, hw]),
    by rw [h, Emit.interp_inf]⟩
  cases n
  · have hsp : SignSplit (afterSpace f) [43] (73 :: ([110, 102] ++ rest)) :=
      ⟨by rw [hw]; rfl, Or.inr (Or.inl rfl), fun h => by cases h⟩
    rw [Scan_name g dst f verb hv hnp [43] 73 _ hsp (by decide)]
    rfl
  · have hsp : SignSplit (afterSpace f) [45] (73 :: ([110, 102] ++ rest)) :=
      ⟨by rw [hw]; rfl, Or.inr (Or.inr rfl), fun h => by cases h⟩
    rw [Scan_name g dst f verb hv hnp [45] 73 _ hsp (by decide)]
    rfl

/-! ## the state `fmt.Sscan` builds -/

/-- the ScanState `fmt.Sscan` hands to the first operand's `Scan` for an input with these runes
(`lean/Oracle/FmtModel.lean`, `scanStateFor "1"`): newlines count as space, no width -/
def sscanState (runes : List Int32) : ScanState := { input := runes.toArray, nlIsSpace := true }

theorem window_sscan (runes : List Int32) : window (sscanState runes) = runes := by
  simp [window, sscanState, room, capW]

theorem spaceLike_sscan (runes : List Int32) : spaceLike (sscanState runes) = ScanState.isSpace := by
  funext r
  simp [spaceLike, sscanState]

theorem tokPred_not_space (x : Int32) (h : tokPred x = true) : ScanState.isSpace x = false := by
  have hv := tokPred_val x h
  unfold ScanState.isSpace
  simp only [Bool.or_eq_false_iff, Bool.and_eq_false_iff, decide_eq_false_iff_not, beq_eq_false_iff_ne]
  omega

/-- leading space, then a body that does not start with space -/
theorem sscan_split (sp body : List Int32) (hsp : ∀ x ∈ sp, ScanState.isSpace x = true)
    (hb : ∀ x, body.head? = some x → ScanState.isSpace x = false) :
    leadSpace (sscanState (sp ++ body)) = sp ∧ afterSpace (sscanState (sp ++ body)) = body := by
  unfold leadSpace afterSpace
  rw [window_sscan, spaceLike_sscan]
  have h1 : body.takeWhile ScanState.isSpace = [] ∧ body.dropWhile ScanState.isSpace = body := by
    cases body with
    | nil => exact ⟨rfl, rfl⟩
    | cons x body =>
      have hx := hb x rfl
      exact ⟨List.takeWhile_cons_of_neg (by simp [hx]), List.dropWhile_cons_of_neg (by simp [hx])⟩
  constructor
  · rw [List.takeWhile_append_of_pos hsp, h1.1, List.append_nil]
  · rw [List.dropWhile_append_of_pos hsp, h1.2]

theorem sscan_endErr (runes l : List Int32) : endErr (advance (sscanState runes) l) = .ioEOF :=
  endErr_of_not_broken _ (by rw [(advance_fields _ _).2.2.2.2.1]; rfl)

theorem skipped_broken (f : ScanState) : (skipped f).broken = f.broken := by
  have hs : ∀ s : ScanState, (stop s).broken = s.broken := by
    intro s; unfold stop; split
    · rfl
    · split <;> rfl
  unfold skipped
  split
  · rw [hs, (advance_fields _ _).2.2.2.2.1]
  · exact (advance_fields _ _).2.2.2.2.1

/-- `SkipSpace` does not panic on the state of `Sscan` -/
theorem sscan_noPanic (sp body : List Int32) (hsp : ∀ x ∈ sp, ScanState.isSpace x = true)
    (hb : ∀ x, body.head? = some x → ScanState.isSpace x = false) :
    ¬ panicCond (sscanState (sp ++ body)) := by
  obtain ⟨h1, h2⟩ := sscan_split sp body hsp hb
  rintro (⟨_, he⟩ | h)
  · rw [sscan_endErr] at he; cases he
  · rw [h2] at h
    have := hb 10 h
    rw [isSpace_nl] at this; cases this

theorem parse_empty (g : Globals) (op : UInt64) :
    Gen.parse g #[] op = .ok ((default : Decimal), Err.parseSyntaxError) := by
  rw [Parse.parse_eq _ _ _ (by decide)]; rfl

/-- what the round trip needs to know about `String d`, `d` finite -/
theorem string_scan_facts (g : Globals) (m : Spec.Mode)
    (hm : Spec.Mode.ofNat? g.DefaultRoundingMode.toNat = some m) (d : Decimal) (neg : Bool)
    (c : Nat) (e : Int) (hfin : 𝔳[d] = .fin neg c e) :
    ∃ out v, Gen.Decimal.String d = .ok out ∧ Gen.parse g out 7 = .ok (v, Err.nil) ∧
      (∀ b ∈ out.toList, tokNat b.toNat = true) ∧ out.size ≤ 12500 ∧
      (∃ r t, runesOf out = r :: t ∧ tokPred r = true) ∧
      Spec.equal (𝔳[v]) (𝔳[d]) = true ∧ (𝔳[v]).neg = (𝔳[d]).neg ∧ (𝔳[v]).isFin = true := by
  obtain ⟨out, v, ho, hp, h1, h2, h3⟩ := Emit.string_parse_equal g 7 m hm d neg c e hfin
  obtain ⟨out', ho', hch, hsz⟩ := Emit.string_fin d neg c e hfin
  rw [ho] at ho'
  injection ho' with ho'
  subst ho'
  have htok := string_tok out neg c e hch
  refine ⟨out, v, ho, hp, htok, hsz, ?_, h1, h2, h3⟩
  obtain ⟨l⟩ := out
  cases l with
  | nil => rw [show (⟨[]⟩ : Bytes) = #[] from rfl, parse_empty] at hp; cases hp
  | cons b l =>
    refine ⟨runeOf b, l.map runeOf, rfl, ?_⟩
    rw [tokPred_runeOf]; exact htok b (by simp)

/-- **`fmt.Sscan` round trip, finite values.**  The input is `sp ++ String d ++ rest`: any white space, the text,
and then nothing or a rune that is not a token rune (a blank, a newline, a comma, …). -/
theorem sscan_fin (g : Globals) (m : Spec.Mode)
    (hm : Spec.Mode.ofNat? g.DefaultRoundingMode.toNat = some m) (d : Decimal) (neg : Bool)
    (c : Nat) (e : Int) (hfin : 𝔳[d] = .fin neg c e)
    (dst : Decimal) (verb : Int32) (hv : okVerb verb = true)
    (sp rest : List Int32) (hsp : ∀ x ∈ sp, ScanState.isSpace x = true)
    (hr : ∀ x, rest.head? = some x → tokPred x = false) (hlen : sp.length + rest.length < 2 ^ 61) :
    ∃ out v s', Gen.Decimal.String d = .ok out ∧
      Gen.Decimal.Scan g dst (sscanState (sp ++ (runesOf out ++ rest))) verb = .ok (v, s', Err.nil) ∧
      window s' = rest ∧ s'.pos = sp.length + out.size ∧
      Spec.equal (𝔳[v]) (𝔳[d]) = true ∧ (𝔳[v]).neg = (𝔳[d]).neg ∧ (𝔳[v]).isFin = true := by
  obtain ⟨out, v, ho, hp, htok, hsz, ⟨r, t, hrt, hr0⟩, h1, h2, h3⟩ := string_scan_facts g m hm d neg c e hfin
  have hb : ∀ x, (runesOf out ++ rest).head? = some x → ScanState.isSpace x = false := by
    intro x hx
    rw [hrt] at hx
    simp only [List.cons_append, List.head?_cons, Option.some.injEq] at hx
    subst hx
    exact tokPred_not_space r hr0
  obtain ⟨hl, ha⟩ := sscan_split sp (runesOf out ++ rest) hsp hb
  have hnp := sscan_noPanic sp (runesOf out ++ rest) hsp hb
  have hlo : (runesOf out).length = out.size := by simp [runesOf]
  have hS := Scan_text g dst (sscanState (sp ++ (runesOf out ++ rest))) verb 7 hv hnp
    (by simp only [sscanState, List.size_toArray, List.length_append, hlo]; omega)
    out rest ha htok hr (fun _ => endErr_of_not_broken _ (by
      rw [(advance_fields _ _).2.2.2.2.1, skipped_broken]; rfl)) v hp
  refine ⟨out, v, _, ho, hS, window_tokEnd _ _ _ (by rw [window_skipped, ha]), ?_, h1, h2, h3⟩
  rw [tokEnd_pos, skipped_pos, hl, hlo]
  show 0 + sp.length + out.size = _
  omega

end FmtScan
