/-
  D128/Proofs/RoundKernelWideCode.lean — code-level normal forms of the generated
  `Gen.RoundingMode.reduce192`, `reduce256`, `reduce64` (Go: /repo/rounding.go).

  The translator orders the loop-state tuples by declaration order of the mutable variables, so the
  common tail of `reduce192/256` carries the state `(exp, trunc, sig, digit)` instead of
  `(sig, exp, trunc, digit)` in `reduce128`; `loop_transport` identifies the two.

  Provided (namespace `RK`):
  * `loop_transport`     : a loop over a re-ordered state equals the original loop (terminating bodies)
  * `reduceTailP_eq`     : the tail of `reduce192/256` is `reduceTail`
  * `reduce192_eq`, `reduce256_eq`, `reduce64_eq` : normal forms
  * `wide192_inv`, `wide256_inv`, `sub64_inv` : invariant rules for the wide loops
-/
import D128.Proofs.RoundKernelReduceCode
import D128.Proofs.WordsWide

set_option autoImplicit false
set_option maxRecDepth 4096
set_option linter.unusedVariables false

namespace RK
open Gen

/-- re-labelling of a loop step -/
def mapS {β γ : Type} (ψ : β → γ) : ForInStep β → ForInStep γ
  | .yield b => .yield (ψ b)
  | .done b => .done (ψ b)

/-- A loop whose state is a re-ordering (`φ`, `ψ` mutually inverse) of the state of a loop with a
    panic-free, terminating body computes the re-ordered result. -/
theorem loop_transport {β γ : Type} (f : Unit → β → Go.GoM (ForInStep β))
    (f' : Unit → γ → Go.GoM (ForInStep γ)) (φ : γ → β) (ψ : β → γ)
    (hφψ : ∀ b, φ (ψ b) = b)
    (hsim : ∀ c, f' () c = (f () (φ c)).map (mapS ψ)) (μ : β → Nat)
    (step : ∀ b, (∃ b', f () b = .ok (.yield b') ∧ μ b' < μ b) ∨ (∃ b', f () b = .ok (.done b')))
    (c : γ) :
    forIn (m := Go.GoM) Lean.Loop.mk c f' = (forIn (m := Go.GoM) Lean.Loop.mk (φ c) f).map ψ := by
  induction hn : μ (φ c) using Nat.strongRecOn generalizing c with
  | _ n ih =>
    rw [Go.loop_unfold, Go.loop_unfold (φ c), hsim c]
    rcases step (φ c) with ⟨b', e, hlt⟩ | ⟨b', e⟩
    · rw [e]
      have := ih (μ b') (by omega) (ψ b') (by rw [hφψ])
      rw [hφψ] at this
      exact this
    · rw [e]; rfl

/-! ## the loops terminate unconditionally -/

theorem dropBody_total (b : TSt) :
    (∃ b', dropBody () b = .ok (.yield b') ∧ b'.1.toNat < b.1.toNat) ∨
    (∃ b', dropBody () b = .ok (.done b')) := by
  obtain ⟨q, r, e, hq, hr⟩ := U128_div10_spec b.1
  by_cases hc : decide (b.1.w1 > 703687441776639) = true
  · left
    have hgt : 12980742146337069071326240823050240 ≤ b.1.toNat := by
      rw [U128_w1_gt_iff] at hc; simpa using hc
    by_cases hd : (b.2.2.2 != 0) = true
    · exact ⟨_, by simp only [dropBody, hc, hd, if_true, e, ok_bind]; rfl, by show q.toNat < _; omega⟩
    · exact ⟨_, by simp only [dropBody, hc, hd, if_true, e, ok_bind]; rfl, by show q.toNat < _; omega⟩
  · right
    exact ⟨_, by simp only [dropBody, hc]; rfl⟩

theorem subBody_total (b : TSt) :
    (∃ b', subBody () b = .ok (.yield b') ∧ (-b'.2.1.toInt).toNat < (-b.2.1.toInt).toNat) ∨
    (∃ b', subBody () b = .ok (.done b')) := by
  obtain ⟨q, r, e, hq, hr⟩ := U128_div10_spec b.1
  by_cases hc : decide (b.2.1 < 0) = true
  · have hneg : b.2.1.toInt < 0 := by
      rw [i16_lt_zero] at hc; simpa using hc
    have hexp : (b.2.1 + 1).toInt = b.2.1.toInt + 1 := by
      have := b.2.1.le_toInt
      rw [Int16.toInt_add_of] <;> simp <;> omega
    by_cases hf : (q.w0 ||| q.w1 ||| r == 0) = true
    · right
      by_cases hd : (b.2.2.2 != 0) = true
      · exact ⟨_, by simp only [subBody, hc, hd, if_true, e, ok_bind, hf]; rfl⟩
      · exact ⟨_, by simp only [subBody, hc, hd, if_true, e, ok_bind, hf]; rfl⟩
    · left
      by_cases hd : (b.2.2.2 != 0) = true
      · exact ⟨_, by simp only [subBody, hc, hd, if_true, e, ok_bind, hf]; rfl,
          by show (-(b.2.1 + 1).toInt).toNat < _; rw [hexp]; omega⟩
      · exact ⟨_, by simp only [subBody, hc, hd, if_true, e, ok_bind, hf]; rfl,
          by show (-(b.2.1 + 1).toInt).toNat < _; rw [hexp]; omega⟩
  · right
    exact ⟨_, by simp only [subBody, hc]; rfl⟩

theorem upBody_total (b : U128 × Int16) :
    (∃ b', upBody () b = .ok (.yield b') ∧ b'.2.toInt.toNat < b.2.toInt.toNat) ∨
    (∃ b', upBody () b = .ok (.done b')) := by
  by_cases hc : (decide (b.2 > 12287) && decide (b.1.w1 < 703687441776639)) = true
  · have hc' := hc
    rw [Bool.and_eq_true, i16_gt_12287, decide_eq_true_eq] at hc'
    have hexp : (b.2 - 1).toInt = b.2.toInt - 1 := by
      have := b.2.toInt_lt
      rw [Int16.toInt_sub_of] <;> simp <;> omega
    by_cases hi : decide ((Gen.U128.mul64 b.1 10).w1 ≤ 703687441776639) = true
    · left
      exact ⟨_, by simp only [upBody, hc, hi, if_true]; rfl,
        by show (b.2 - 1).toInt.toNat < _; rw [hexp]; omega⟩
    · right
      exact ⟨_, by simp only [upBody, hc, hi, if_true]; rfl⟩
  · right
    exact ⟨_, by simp only [upBody, hc]; rfl⟩

/-! ## the tail with the state order of `reduce192/256` -/

abbrev PSt := Int16 × Int8 × U128 × UInt64

def toT (c : PSt) : TSt := (c.2.2.1, c.1, c.2.1, c.2.2.2)
def toP (b : TSt) : PSt := (b.2.1, b.2.2.1, b.1, b.2.2.2)

def dropBodyP (_ : Unit) (s : PSt) : Go.GoM (ForInStep PSt) :=
  if decide (s.2.2.1.w1 > 703687441776639) = true then
    if (s.2.2.2 != 0) = true then do
      let x ← Gen.U128.div10 s.2.2.1
      pure (ForInStep.yield (s.1 + 1, 1, x.1, x.2))
    else do
      let x ← Gen.U128.div10 s.2.2.1
      pure (ForInStep.yield (s.1 + 1, s.2.1, x.1, x.2))
  else pure (ForInStep.done (s.1, s.2.1, s.2.2.1, s.2.2.2))

def subBodyP (_ : Unit) (s : PSt) : Go.GoM (ForInStep PSt) :=
  if decide (s.1 < 0) = true then
    if (s.2.2.2 != 0) = true then do
      let x ← Gen.U128.div10 s.2.2.1
      if (x.1.w0 ||| x.1.w1 ||| x.2 == 0) = true then pure (ForInStep.done (0, 0, x.1, 0))
      else pure (ForInStep.yield (s.1 + 1, 1, x.1, x.2))
    else do
      let x ← Gen.U128.div10 s.2.2.1
      if (x.1.w0 ||| x.1.w1 ||| x.2 == 0) = true then pure (ForInStep.done (0, 0, x.1, 0))
      else pure (ForInStep.yield (s.1 + 1, s.2.1, x.1, x.2))
  else pure (ForInStep.done (s.1, s.2.1, s.2.2.1, s.2.2.2))

def upBodyP (_ : Unit) (s : Int16 × U128) : Go.GoM (ForInStep (Int16 × U128)) :=
  if (decide (s.1 > 12287) && decide (s.2.w1 < 703687441776639)) = true then
    if decide ((Gen.U128.mul64 s.2 10).w1 ≤ 703687441776639) = true then
      pure (ForInStep.yield (s.1 - 1, Gen.U128.mul64 s.2 10))
    else pure (ForInStep.done (s.1, s.2))
  else pure (ForInStep.done (s.1, s.2))

theorem dropLoopP_eq (c : PSt) :
    forIn (m := Go.GoM) Lean.Loop.mk c dropBodyP = (dropLoop (toT c)).map toP := by
  unfold dropLoop
  apply loop_transport dropBody dropBodyP toT toP (fun _ => rfl) _ (fun b => b.1.toNat)
    dropBody_total
  intro c
  unfold dropBodyP dropBody toT
  obtain ⟨q, r, e, _, _⟩ := U128_div10_spec c.2.2.1
  split_ifs <;> simp only [e, ok_bind] <;> rfl

theorem subLoopP_eq (c : PSt) :
    forIn (m := Go.GoM) Lean.Loop.mk c subBodyP = (subLoop (toT c)).map toP := by
  unfold subLoop
  apply loop_transport subBody subBodyP toT toP (fun _ => rfl) _ (fun b => (-b.2.1.toInt).toNat)
    subBody_total
  intro c
  unfold subBodyP subBody toT
  obtain ⟨q, r, e, _, _⟩ := U128_div10_spec c.2.2.1
  split_ifs <;> simp only [e, ok_bind] <;> first | rfl | (split_ifs <;> rfl)

theorem upLoopP_eq (c : Int16 × U128) :
    forIn (m := Go.GoM) Lean.Loop.mk c upBodyP
      = (upLoop (c.2, c.1)).map (fun b => (b.2, b.1)) := by
  unfold upLoop
  apply loop_transport upBody upBodyP (fun c => (c.2, c.1)) (fun b => (b.2, b.1)) (fun _ => rfl) _
    (fun b => b.2.toInt.toNat) upBody_total
  intro c
  unfold upBodyP upBody
  split_ifs <;> rfl

/-- the common tail as it appears in `reduce192/256` -/
def reduceTailP (rm : UInt8) (neg : Bool) (exp : Int16) (trunc : Int8) (sig : U128) (digit : UInt64) :
    Go.GoM (U128 × Int16) := do
  let s ← forIn Lean.Loop.mk (exp, trunc, sig, digit) dropBodyP
  let s ← forIn Lean.Loop.mk (s.1, s.2.1, s.2.2.1, s.2.2.2) subBodyP
  let s1 ← forIn Lean.Loop.mk (s.1, s.2.2.1) upBodyP
  RoundingMode.round rm true neg s1.2 s1.1 s.2.1 s.2.2.2

theorem map_bind {α β γ : Type} (x : Go.GoM α) (f : α → β) (g : β → Go.GoM γ) :
    (x.map f >>= g) = (x >>= fun a => g (f a)) := by
  cases x <;> rfl

theorem reduceTailP_eq (rm : UInt8) (neg : Bool) (exp : Int16) (trunc : Int8) (sig : U128)
    (digit : UInt64) :
    reduceTailP rm neg exp trunc sig digit = reduceTail rm neg sig exp trunc digit := by
  unfold reduceTailP reduceTail
  rw [dropLoopP_eq, map_bind]
  refine bind_congr fun s => ?_
  rw [subLoopP_eq, map_bind]
  refine bind_congr fun s' => ?_
  rw [upLoopP_eq, map_bind]
  rfl

/-! ## the wide phases -/

abbrev W192 := U192 × Int16 × Int8
abbrev W256 := U256 × Int16 × Int8

/-- `for sig192[2] > 0 { sig192, rem = sig192.div10000(); exp += 4; … }` -/
def wide192Body (_ : Unit) (s : W192) : Go.GoM (ForInStep W192) :=
  if decide (s.1.w2 > 0) = true then do
    let x ← Gen.U192.div10000 s.1
    if (x.2 != 0) = true then pure (ForInStep.yield (x.1, s.2.1 + 4, 1))
    else pure (ForInStep.yield (x.1, s.2.1 + 4, s.2.2))
  else pure (ForInStep.done (s.1, s.2.1, s.2.2))

/-- the same loop with the state order of `reduce256` -/
def wide192BodyP (_ : Unit) (s : Int16 × Int8 × U192) : Go.GoM (ForInStep (Int16 × Int8 × U192)) :=
  if decide (s.2.2.w2 > 0) = true then do
    let x ← Gen.U192.div10000 s.2.2
    if (x.2 != 0) = true then pure (ForInStep.yield (s.1 + 4, 1, x.1))
    else pure (ForInStep.yield (s.1 + 4, s.2.1, x.1))
  else pure (ForInStep.done (s.1, s.2.1, s.2.2))

/-- `for sig256[3] > 0 { sig256, rem = sig256.div1e19(); exp += 19; … }` -/
def wide256Body (_ : Unit) (s : W256) : Go.GoM (ForInStep W256) :=
  if decide (s.1.w3 > 0) = true then do
    let x ← Gen.U256.div1e19 s.1
    if (x.2 != 0) = true then pure (ForInStep.yield (x.1, s.2.1 + 19, 1))
    else pure (ForInStep.yield (x.1, s.2.1 + 19, s.2.2))
  else pure (ForInStep.done (s.1, s.2.1, s.2.2))

/-- `if sig192[2] > 10000 { sig192, rem = sig192.div1e8(); exp += 8; … }` in continuation-passing form -/
def step192 {α : Type} (k : U192 → Int16 → Int8 → Go.GoM α) (sig : U192) (exp : Int16)
    (trunc : Int8) : Go.GoM α :=
  if decide (sig.w2 > 10000) = true then do
    let x ← Gen.U192.div1e8 sig
    if (x.2 != 0) = true then k x.1 (exp + 8) 1 else k x.1 (exp + 8) trunc
  else k sig exp trunc

theorem reduce192_eq (rm : UInt8) (neg : Bool) (sig : U192) (exp : Int16) (trunc : Int8) :
    RoundingMode.reduce192 rm neg sig exp trunc =
      step192 (fun n e t => do
        let s ← forIn Lean.Loop.mk (n, e, t) wide192Body
        ladder128 (fun s' e' t' d' => reduceTailP rm neg e' t' s' d')
          { w0 := s.1.w0, w1 := s.1.w1 } s.2.1 s.2.2) sig exp trunc := by
  unfold RoundingMode.reduce192 step192 wide192Body ladder128 reduceTailP dropBodyP subBodyP upBodyP
  zeta_except_jp
  simp only []

theorem reduce256_eq (rm : UInt8) (neg : Bool) (sig : U256) (exp : Int16) (trunc : Int8) :
    RoundingMode.reduce256 rm neg sig exp trunc = (do
      let s ← forIn Lean.Loop.mk (sig, exp, trunc) wide256Body
      step192 (fun n e t => do
        let s2 ← forIn Lean.Loop.mk (e, t, n) wide192BodyP
        ladder128 (fun s' e' t' d' => reduceTailP rm neg e' t' s' d')
          { w0 := s2.2.2.w0, w1 := s2.2.2.w1 } s2.1 s2.2.1)
        { w0 := s.1.w0, w1 := s.1.w1, w2 := s.1.w2 } s.2.1 s.2.2) := by
  unfold RoundingMode.reduce256 step192 wide256Body wide192BodyP ladder128 reduceTailP dropBodyP
    subBodyP upBodyP
  zeta_except_jp
  simp only []

/-- `for exp < minBiasedExponent { … digit = sig64 % 10; sig64 = sig64 / 10; … }` of `reduce64` -/
def sub64Body (_ : Unit) (s : UInt64 × Int16 × Int8 × UInt64) :
    Go.GoM (ForInStep (UInt64 × Int16 × Int8 × UInt64)) :=
  if decide (s.2.1 < 0) = true then
    if (s.2.2.2 != 0) = true then
      if (s.1 / 10 ||| s.1 % 10 == 0) = true then pure (ForInStep.done (s.1 / 10, 0, 0, 0))
      else pure (ForInStep.yield (s.1 / 10, s.2.1 + 1, 1, s.1 % 10))
    else
      if (s.1 / 10 ||| s.1 % 10 == 0) = true then pure (ForInStep.done (s.1 / 10, 0, 0, 0))
      else pure (ForInStep.yield (s.1 / 10, s.2.1 + 1, s.2.2.1, s.1 % 10))
  else pure (ForInStep.done (s.1, s.2.1, s.2.2.1, s.2.2.2))

theorem reduce64_eq (rm : UInt8) (neg : Bool) (sig : UInt64) (exp : Int16) :
    RoundingMode.reduce64 rm neg sig exp = (do
      let s ← forIn Lean.Loop.mk (sig, exp, (0 : Int8), (0 : UInt64)) sub64Body
      let s1 ← forIn Lean.Loop.mk (s.2.1, ({ w0 := s.1, w1 := 0 } : U128)) upBodyP
      RoundingMode.round rm true neg s1.2 s1.1 s.2.2.1 s.2.2.2) := by
  unfold RoundingMode.reduce64 sub64Body upBodyP
  zeta_except_jp
  simp only []

/-! ## invariant rules for the wide loops -/

theorem wide192_inv (P : Nat → Int → Int → Prop)
    (hstep : ∀ n t e, P n t e → 2 ^ 128 ≤ n →
      P (n / 10000) (if n % 10000 ≠ 0 then 1 else t) (e + 4) ∧ e < 32700)
    (st : W192) (hP : P st.1.toNat st.2.2.toInt st.2.1.toInt) :
    ∃ st', forIn (m := Go.GoM) Lean.Loop.mk st wide192Body = .ok st' ∧
      P st'.1.toNat st'.2.2.toInt st'.2.1.toInt ∧ st'.1.toNat < 2 ^ 128 := by
  apply loop_inv wide192Body
    (fun st : W192 => P st.1.toNat st.2.2.toInt st.2.1.toInt)
    (fun st : W192 => P st.1.toNat st.2.2.toInt st.2.1.toInt ∧
      st.1.toNat < 2 ^ 128)
    (fun st : W192 => st.1.toNat) _ st hP
  intro b hb
  have hw0 := b.1.w0.toNat_lt
  have hw1 := b.1.w1.toNat_lt
  have hw2 := b.1.w2.toNat_lt
  
  by_cases hc : decide (b.1.w2 > 0) = true
  · left
    have hgt : 2 ^ 128 ≤ b.1.toNat := by
      rw [decide_eq_true_eq, gt_iff_lt, UInt64.lt_iff_toNat_lt] at hc
      have hc' : 0 < b.1.w2.toNat := hc
      simp only [U192.toNat]; omega
    obtain ⟨hP', hlt⟩ := hstep _ _ _ hb hgt
    obtain ⟨q, r, e, hq, hr⟩ := D128.Proofs.WordsWide.U192_div10000_eq b.1
    have hexp : (b.2.1 + 4).toInt = b.2.1.toInt + 4 := by
      have := b.2.1.le_toInt
      rw [Int16.toInt_add_of] <;> simp <;> omega
    have htr : (if (r != 0) = true then (1 : Int8) else b.2.2).toInt
        = if b.1.toNat % 10000 ≠ 0 then 1 else b.2.2.toInt := by
      rw [u64_ne_zero_iff, hr]
      by_cases h0 : b.1.toNat % 10000 ≠ 0
      · simp only [h0, decide_true, if_true, ne_eq, not_false_eq_true]; rfl
      · simp only [h0, decide_false, Bool.false_eq_true, if_false]
    refine ⟨(q, b.2.1 + 4, (if (r != 0) = true then 1 else b.2.2)), ?_, ?_, ?_⟩
    · simp only [wide192Body, hc, if_true, e, ok_bind]
      by_cases hd : (r != 0) = true
      · simp only [hd, if_true]; rfl
      · simp only [hd]; rfl
    · show P q.toNat (if (r != 0) = true then (1 : Int8) else b.2.2).toInt (b.2.1 + 4).toInt
      rw [hq, htr, hexp]; exact hP'
    · show q.toNat < b.1.toNat
      rw [hq]; omega
  · right
    refine ⟨(b.1, b.2.1, b.2.2), ?_, hb, ?_⟩
    · simp only [wide192Body, hc]; rfl
    · rw [decide_eq_true_eq, gt_iff_lt, UInt64.lt_iff_toNat_lt] at hc
      have hc' : ¬ 0 < b.1.w2.toNat := hc
      show b.1.toNat < 2 ^ 128
      simp only [U192.toNat]; omega

theorem wide192P_inv (P : Nat → Int → Int → Prop)
    (hstep : ∀ n t e, P n t e → 2 ^ 128 ≤ n →
      P (n / 10000) (if n % 10000 ≠ 0 then 1 else t) (e + 4) ∧ e < 32700)
    (st : (Int16 × Int8 × U192)) (hP : P st.2.2.toNat st.2.1.toInt st.1.toInt) :
    ∃ st', forIn (m := Go.GoM) Lean.Loop.mk st wide192BodyP = .ok st' ∧
      P st'.2.2.toNat st'.2.1.toInt st'.1.toInt ∧ st'.2.2.toNat < 2 ^ 128 := by
  apply loop_inv wide192BodyP
    (fun st : (Int16 × Int8 × U192) => P st.2.2.toNat st.2.1.toInt st.1.toInt)
    (fun st : (Int16 × Int8 × U192) => P st.2.2.toNat st.2.1.toInt st.1.toInt ∧
      st.2.2.toNat < 2 ^ 128)
    (fun st : (Int16 × Int8 × U192) => st.2.2.toNat) _ st hP
  intro b hb
  have hw0 := b.2.2.w0.toNat_lt
  have hw1 := b.2.2.w1.toNat_lt
  have hw2 := b.2.2.w2.toNat_lt
  
  by_cases hc : decide (b.2.2.w2 > 0) = true
  · left
    have hgt : 2 ^ 128 ≤ b.2.2.toNat := by
      rw [decide_eq_true_eq, gt_iff_lt, UInt64.lt_iff_toNat_lt] at hc
      have hc' : 0 < b.2.2.w2.toNat := hc
      simp only [U192.toNat]; omega
    obtain ⟨hP', hlt⟩ := hstep _ _ _ hb hgt
    obtain ⟨q, r, e, hq, hr⟩ := D128.Proofs.WordsWide.U192_div10000_eq b.2.2
    have hexp : (b.1 + 4).toInt = b.1.toInt + 4 := by
      have := b.1.le_toInt
      rw [Int16.toInt_add_of] <;> simp <;> omega
    have htr : (if (r != 0) = true then (1 : Int8) else b.2.1).toInt
        = if b.2.2.toNat % 10000 ≠ 0 then 1 else b.2.1.toInt := by
      rw [u64_ne_zero_iff, hr]
      by_cases h0 : b.2.2.toNat % 10000 ≠ 0
      · simp only [h0, decide_true, if_true, ne_eq, not_false_eq_true]; rfl
      · simp only [h0, decide_false, Bool.false_eq_true, if_false]
    refine ⟨(b.1 + 4, (if (r != 0) = true then 1 else b.2.1), q), ?_, ?_, ?_⟩
    · simp only [wide192BodyP, hc, if_true, e, ok_bind]
      by_cases hd : (r != 0) = true
      · simp only [hd, if_true]; rfl
      · simp only [hd]; rfl
    · show P q.toNat (if (r != 0) = true then (1 : Int8) else b.2.1).toInt (b.1 + 4).toInt
      rw [hq, htr, hexp]; exact hP'
    · show q.toNat < b.2.2.toNat
      rw [hq]; omega
  · right
    refine ⟨(b.1, b.2.1, b.2.2), ?_, hb, ?_⟩
    · simp only [wide192BodyP, hc]; rfl
    · rw [decide_eq_true_eq, gt_iff_lt, UInt64.lt_iff_toNat_lt] at hc
      have hc' : ¬ 0 < b.2.2.w2.toNat := hc
      show b.2.2.toNat < 2 ^ 128
      simp only [U192.toNat]; omega

theorem wide256_inv (P : Nat → Int → Int → Prop)
    (hstep : ∀ n t e, P n t e → 2 ^ 192 ≤ n →
      P (n / 10000000000000000000) (if n % 10000000000000000000 ≠ 0 then 1 else t) (e + 19) ∧ e < 32700)
    (st : W256) (hP : P st.1.toNat st.2.2.toInt st.2.1.toInt) :
    ∃ st', forIn (m := Go.GoM) Lean.Loop.mk st wide256Body = .ok st' ∧
      P st'.1.toNat st'.2.2.toInt st'.2.1.toInt ∧ st'.1.toNat < 2 ^ 192 := by
  apply loop_inv wide256Body
    (fun st : W256 => P st.1.toNat st.2.2.toInt st.2.1.toInt)
    (fun st : W256 => P st.1.toNat st.2.2.toInt st.2.1.toInt ∧
      st.1.toNat < 2 ^ 192)
    (fun st : W256 => st.1.toNat) _ st hP
  intro b hb
  have hw0 := b.1.w0.toNat_lt
  have hw1 := b.1.w1.toNat_lt
  have hw2 := b.1.w2.toNat_lt
  have hw3 := b.1.w3.toNat_lt
  by_cases hc : decide (b.1.w3 > 0) = true
  · left
    have hgt : 2 ^ 192 ≤ b.1.toNat := by
      rw [decide_eq_true_eq, gt_iff_lt, UInt64.lt_iff_toNat_lt] at hc
      have hc' : 0 < b.1.w3.toNat := hc
      simp only [U256.toNat]; omega
    obtain ⟨hP', hlt⟩ := hstep _ _ _ hb hgt
    obtain ⟨q, r, e, hq, hr⟩ := D128.Proofs.WordsWide.U256_div1e19_eq b.1
    have hexp : (b.2.1 + 19).toInt = b.2.1.toInt + 19 := by
      have := b.2.1.le_toInt
      rw [Int16.toInt_add_of] <;> simp <;> omega
    have htr : (if (r != 0) = true then (1 : Int8) else b.2.2).toInt
        = if b.1.toNat % 10000000000000000000 ≠ 0 then 1 else b.2.2.toInt := by
      rw [u64_ne_zero_iff, hr]
      by_cases h0 : b.1.toNat % 10000000000000000000 ≠ 0
      · simp only [h0, decide_true, if_true, ne_eq, not_false_eq_true]; rfl
      · simp only [h0, decide_false, Bool.false_eq_true, if_false]
    refine ⟨(q, b.2.1 + 19, (if (r != 0) = true then 1 else b.2.2)), ?_, ?_, ?_⟩
    · simp only [wide256Body, hc, if_true, e, ok_bind]
      by_cases hd : (r != 0) = true
      · simp only [hd, if_true]; rfl
      · simp only [hd]; rfl
    · show P q.toNat (if (r != 0) = true then (1 : Int8) else b.2.2).toInt (b.2.1 + 19).toInt
      rw [hq, htr, hexp]; exact hP'
    · show q.toNat < b.1.toNat
      rw [hq]; omega
  · right
    refine ⟨(b.1, b.2.1, b.2.2), ?_, hb, ?_⟩
    · simp only [wide256Body, hc]; rfl
    · rw [decide_eq_true_eq, gt_iff_lt, UInt64.lt_iff_toNat_lt] at hc
      have hc' : ¬ 0 < b.1.w3.toNat := hc
      show b.1.toNat < 2 ^ 192
      simp only [U256.toNat]; omega

theorem step192_spec (sig : U192) (exp : Int16) (trunc : Int8)
    (he0 : -32000 ≤ exp.toInt) (he1 : exp.toInt ≤ 32000) :
    ∃ n' e' t', (∀ {α : Type} (k : U192 → Int16 → Int8 → Go.GoM α),
        step192 k sig exp trunc = k n' e' t') ∧
      ((n' = sig ∧ e' = exp ∧ t' = trunc) ∨
       (10001 * 2 ^ 128 ≤ sig.toNat ∧ n'.toNat = sig.toNat / 100000000 ∧
        t'.toInt = (if sig.toNat % 100000000 ≠ 0 then 1 else trunc.toInt) ∧
        e'.toInt = exp.toInt + 8)) := by
  have hw0 := sig.w0.toNat_lt
  have hw1 := sig.w1.toNat_lt
  unfold step192
  by_cases hc : decide (sig.w2 > 10000) = true
  · obtain ⟨q, r, e, hq, hr⟩ := D128.Proofs.WordsWide.U192_div1e8_eq sig
    refine ⟨q, exp + 8, (if (r != 0) = true then 1 else trunc), ?_, Or.inr ⟨?_, hq, ?_, ?_⟩⟩
    · intro α k
      simp only [hc, if_true, e, ok_bind]
      by_cases hd : (r != 0) = true
      · simp only [hd, if_true]
      · simp only [hd, Bool.false_eq_true, if_false]
    · rw [decide_eq_true_eq, gt_iff_lt, UInt64.lt_iff_toNat_lt] at hc
      have hc' : 10000 < sig.w2.toNat := hc
      simp only [U192.toNat]; omega
    · rw [u64_ne_zero_iff, hr]
      by_cases h0 : sig.toNat % 100000000 ≠ 0
      · simp only [h0, decide_true, if_true, ne_eq, not_false_eq_true]; rfl
      · simp only [h0, decide_false, Bool.false_eq_true, if_false]
    · rw [Int16.toInt_add_of] <;> simp <;> omega
  · refine ⟨sig, exp, trunc, ?_, Or.inl ⟨rfl, rfl, rfl⟩⟩
    intro α k
    simp only [hc]
    rfl

theorem or2_eq_zero (a b : UInt64) : (a ||| b == 0) = decide (a.toNat = 0 ∧ b.toNat = 0) := by
  rw [Bool.eq_iff_iff, beq_iff_eq, decide_eq_true_eq, UInt64.or_eq_zero_iff,
    ← UInt64.toNat_inj, ← UInt64.toNat_inj]
  rfl

/-- the sub-minimum-exponent loop of `reduce64` -/
theorem sub64_inv (P : Nat → Nat → Int → Int → Prop)
    (hstep : ∀ s d t e, P s d t e → e < 0 → ¬ (s / 10 = 0 ∧ s % 10 = 0) →
      P (s / 10) (s % 10) (if d ≠ 0 then 1 else t) (e + 1))
    (st : UInt64 × Int16 × Int8 × UInt64)
    (hP : P st.1.toNat st.2.2.2.toNat st.2.2.1.toInt st.2.1.toInt) :
    ∃ st', forIn (m := Go.GoM) Lean.Loop.mk st sub64Body = .ok st' ∧
      ((st'.1.toNat = 0 ∧ st'.2.1 = 0 ∧ st'.2.2.1 = 0 ∧ st'.2.2.2 = 0 ∧
          ∃ d t e, P 0 d t e ∧ e < 0) ∨
       (P st'.1.toNat st'.2.2.2.toNat st'.2.2.1.toInt st'.2.1.toInt ∧ 0 ≤ st'.2.1.toInt)) := by
  apply loop_inv sub64Body
    (fun st : UInt64 × Int16 × Int8 × UInt64 =>
      P st.1.toNat st.2.2.2.toNat st.2.2.1.toInt st.2.1.toInt)
    (fun st' : UInt64 × Int16 × Int8 × UInt64 =>
      (st'.1.toNat = 0 ∧ st'.2.1 = 0 ∧ st'.2.2.1 = 0 ∧ st'.2.2.2 = 0 ∧
          ∃ d t e, P 0 d t e ∧ e < 0) ∨
       (P st'.1.toNat st'.2.2.2.toNat st'.2.2.1.toInt st'.2.1.toInt ∧ 0 ≤ st'.2.1.toInt))
    (fun st => (-st.2.1.toInt).toNat) _ st hP
  intro b hb
  have hq : (b.1 / 10).toNat = b.1.toNat / 10 := by rw [UInt64.toNat_div]; rfl
  have hr : (b.1 % 10).toNat = b.1.toNat % 10 := by rw [UInt64.toNat_mod]; rfl
  by_cases hc : decide (b.2.1 < 0) = true
  · have hneg : b.2.1.toInt < 0 := by
      rw [i16_lt_zero] at hc; simpa using hc
    have hexp : (b.2.1 + 1).toInt = b.2.1.toInt + 1 := by
      have := b.2.1.le_toInt
      rw [Int16.toInt_add_of] <;> simp <;> omega
    by_cases hf : (b.1 / 10 ||| b.1 % 10 == 0) = true
    · right
      have hf' := hf
      rw [or2_eq_zero, decide_eq_true_eq, hq, hr] at hf'
      refine ⟨(b.1 / 10, 0, 0, 0), ?_,
        Or.inl ⟨?_, rfl, rfl, rfl, b.2.2.2.toNat, b.2.2.1.toInt, b.2.1.toInt, ?_, hneg⟩⟩
      · simp only [sub64Body, hc, if_true, hf]
        by_cases hd : (b.2.2.2 != 0) = true
        · simp only [hd, if_true]; rfl
        · simp only [hd]; rfl
      · show (b.1 / 10).toNat = 0
        rw [hq]; exact hf'.1
      · have : b.1.toNat = 0 := by omega
        rw [← this]; exact hb
    · left
      have hf' : ¬ (b.1.toNat / 10 = 0 ∧ b.1.toNat % 10 = 0) := by
        rw [or2_eq_zero, decide_eq_true_eq, hq, hr] at hf; exact hf
      refine ⟨(b.1 / 10, b.2.1 + 1, (if (b.2.2.2 != 0) = true then 1 else b.2.2.1), b.1 % 10),
        ?_, ?_, ?_⟩
      · simp only [sub64Body, hc, if_true, hf]
        by_cases hd : (b.2.2.2 != 0) = true
        · simp only [hd, if_true]; rfl
        · simp only [hd]; rfl
      · show P (b.1 / 10).toNat (b.1 % 10).toNat
          (if (b.2.2.2 != 0) = true then (1 : Int8) else b.2.2.1).toInt (b.2.1 + 1).toInt
        rw [hq, hr, hexp]
        have : (if (b.2.2.2 != 0) = true then (1 : Int8) else b.2.2.1).toInt
            = if b.2.2.2.toNat ≠ 0 then 1 else b.2.2.1.toInt := by
          rw [u64_ne_zero_iff]
          by_cases h0 : b.2.2.2.toNat ≠ 0
          · simp only [h0, decide_true, if_true, ne_eq, not_false_eq_true]; rfl
          · simp only [h0, decide_false, Bool.false_eq_true, if_false]
        rw [this]
        exact hstep _ _ _ _ hb hneg hf'
      · show (-(b.2.1 + 1).toInt).toNat < (-b.2.1.toInt).toNat
        rw [hexp]; omega
  · right
    have hnn : 0 ≤ b.2.1.toInt := by
      rw [i16_lt_zero] at hc; simpa using hc
    refine ⟨(b.1, b.2.1, b.2.2.1, b.2.2.2), ?_, Or.inr ⟨hb, hnn⟩⟩
    simp only [sub64Body, hc]; rfl

/-! ## the 192-bit loop with the state order of `reduce256` -/

theorem wide192Body_total (b : W192) :
    (∃ b', wide192Body () b = .ok (.yield b') ∧ b'.1.toNat < b.1.toNat) ∨
    (∃ b', wide192Body () b = .ok (.done b')) := by
  obtain ⟨q, r, e, hq, hr⟩ := D128.Proofs.WordsWide.U192_div10000_eq b.1
  have hw0 := b.1.w0.toNat_lt
  have hw1 := b.1.w1.toNat_lt
  by_cases hc : decide (b.1.w2 > 0) = true
  · left
    have hgt : 2 ^ 128 ≤ b.1.toNat := by
      rw [decide_eq_true_eq, gt_iff_lt, UInt64.lt_iff_toNat_lt] at hc
      have hc' : 0 < b.1.w2.toNat := hc
      simp only [U192.toNat]; omega
    by_cases hd : (r != 0) = true
    · exact ⟨_, by simp only [wide192Body, hc, if_true, e, ok_bind, hd]; rfl,
        by show q.toNat < _; omega⟩
    · exact ⟨_, by simp only [wide192Body, hc, if_true, e, ok_bind, hd]; rfl,
        by show q.toNat < _; omega⟩
  · right
    exact ⟨_, by simp only [wide192Body, hc]; rfl⟩

theorem wide192P_eq (c : Int16 × Int8 × U192) :
    forIn (m := Go.GoM) Lean.Loop.mk c wide192BodyP
      = (forIn (m := Go.GoM) Lean.Loop.mk (c.2.2, c.1, c.2.1) wide192Body).map
          (fun b => (b.2.1, b.2.2, b.1)) := by
  apply loop_transport wide192Body wide192BodyP (fun c => (c.2.2, c.1, c.2.1))
    (fun b => (b.2.1, b.2.2, b.1)) (fun _ => rfl) _ (fun b => b.1.toNat) wide192Body_total
  intro c
  unfold wide192BodyP wide192Body
  obtain ⟨q, r, e, _, _⟩ := D128.Proofs.WordsWide.U192_div10000_eq c.2.2
  split_ifs <;> simp only [e, ok_bind] <;> first | rfl | (split_ifs <;> rfl)

end RK
