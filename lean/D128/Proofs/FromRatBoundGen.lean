/-
  D128/Proofs/FromRatBoundGen.lean — the error of the generated `Gen.FromRat` (/repo/convert.go) against
  the exact rational, from `BigConv.FromRat_spec` (the code is `FromInt(num).Quo(FromInt(den))`) and the
  three-roundings analysis of `FromRatBound.lean`.

  Provided (namespace `FromRatBound`); `s = decide (r.num < 0)`, `N = |r.num|`, `D = r.den`:
  * `FromRat_spec'`          `BigConv.FromRat_spec` with `fromIntVal` unfolded
  * `bitLen_of_lt_max`       `n < (Cmax+1)·10^Emax → bitLen n < 2^63`
  * `FromRat_value`          a finite `Spec.quo … = .fin s c e` ⇒ `FromRat g r = .ok d`, `d` finite,
                             `|value d − r| = |c·10^e − |r||`
  * `FromRat_transfer`       a finite `Spec.quo …` with `|c·10^e − N/D| ≤ B` ⇒ `FromRat g r = .ok d`, `d` finite,
                             `|value d − r| ≤ B`
  * `FromRat_error_nearest`  nearest modes, `FromInt(num)`, `FromInt(den)` finite (hypotheses on `Spec.roundTo`)
  * `FromRat_error_any`      every mode
  * `FromRat_error_same`     modes rounding numerator and denominator in the same direction
  * `FromRat_num_overflow`   numerator rounds to `±Inf` ⇒ the result is not finite (`±Inf` or NaN)
  * `FromRat_den_overflow`   denominator rounds to `+Inf`, numerator finite ⇒ the result is a zero
  * numeric constants: `c_near_a`, `c_near_b`, `c_any_a`, `c_any_b`, `c_same_a`, `c_same_b`
-/
import D128.Proofs.FromRatBound
import D128.Proofs.BigConvRat
set_option autoImplicit false

namespace FromRatBound
open Spec SpecRound BigConv
local notation "𝔳[" d "]" => Spec.interp (Gen.Decimal.lo d) (Gen.Decimal.hi d)

/-- `FromRat` = `Quo (FromInt num) (FromInt den)` at the level of values -/
theorem FromRat_spec' (g : Globals) (r : Rat) (m : Spec.Mode)
    (hm : Spec.Mode.ofNat? g.DefaultRoundingMode.toNat = some m)
    (hn : Go.Big.bitLen r.num.natAbs < 2 ^ 63) (hd : Go.Big.bitLen r.den < 2 ^ 63) (hr : r ≠ 0) :
    ∃ d, Gen.FromRat g r = .ok d ∧
      (𝔳[d]).same (Spec.quo m
          (Spec.roundTo m (decide (r.num < 0)) (r.num.natAbs : ℚ))
          (Spec.roundTo m false (r.den : ℚ))) = true := by
  obtain ⟨d, e, s⟩ := FromRat_spec g r m hm hn hd
  refine ⟨d, e, ?_⟩
  have h : r.num ≠ 0 := fun h => hr (Rat.num_eq_zero.1 h)
  rw [if_neg h] at s
  have hdz : ((r.den : Nat) : Int) ≠ 0 := by have := r.den_pos; omega
  have hneg : decide (((r.den : Nat) : Int) < 0) = false := by
    have := r.den_pos; simp
  simpa only [fromIntVal, if_neg h, if_neg hdz, hneg, Int.natAbs_natCast] using s

set_option exponentiation.threshold 7000 in
theorem Cmax_succ_mul_le : (Spec.Cmax + 1) * 10 ^ 6111 ≤ 2 ^ (4 * 6146) := by
  calc (Spec.Cmax + 1) * 10 ^ 6111 ≤ 10 ^ 35 * 10 ^ 6111 :=
        Nat.mul_le_mul_right _ (by have := Cmax_upper; omega)
    _ = 10 ^ 6146 := by rw [← Nat.pow_add]
    _ ≤ 2 ^ (4 * 6146) := pow10_le_pow2 _

theorem max_cast : (((Spec.Cmax + 1) * 10 ^ 6111 : Nat) : ℚ) =
    ((Spec.Cmax : ℚ) + 1) * (10 : ℚ) ^ Spec.Emax := by
  have : Spec.Emax = ((6111 : Nat) : Int) := rfl
  rw [this, zpow_natCast, Nat.cast_mul, Nat.cast_pow, Nat.cast_add, Nat.cast_one, Nat.cast_ofNat]

/-- an integer below the overflow threshold of every mode is a legitimate `big.Int` for the model -/
theorem bitLen_of_lt_max {n : Nat} (h : (n : ℚ) < ((Spec.Cmax : ℚ) + 1) * (10 : ℚ) ^ Spec.Emax) :
    Go.Big.bitLen n < 2 ^ 63 := by
  rw [← max_cast] at h
  have h' : n < (Spec.Cmax + 1) * 10 ^ 6111 := by exact_mod_cast h
  exact bitLen_lt_of_lt (L := 4 * 6146) (lt_of_lt_of_le h' Cmax_succ_mul_le) (by norm_num)

theorem natAbs_pos_q {r : Rat} (hr : r ≠ 0) : (1 : ℚ) ≤ (r.num.natAbs : ℚ) := by
  have hnz : r.num ≠ 0 := fun h => hr (Rat.num_eq_zero.1 h)
  exact_mod_cast Int.natAbs_pos.2 hnz

theorem den_pos_q (r : Rat) : (1 : ℚ) ≤ (r.den : ℚ) := by exact_mod_cast r.den_pos

/-- the value `FromRat` returns when the specification's quotient is finite: the distance to `r` is the
    distance of the magnitudes -/
theorem FromRat_value (g : Globals) (r : Rat) (m : Spec.Mode)
    (hm : Spec.Mode.ofNat? g.DefaultRoundingMode.toNat = some m)
    (hn : Go.Big.bitLen r.num.natAbs < 2 ^ 63) (hd : Go.Big.bitLen r.den < 2 ^ 63) (hr : r ≠ 0)
    {c : Nat} {e : Int}
    (hq : Spec.quo m (Spec.roundTo m (decide (r.num < 0)) (r.num.natAbs : ℚ))
        (Spec.roundTo m false (r.den : ℚ)) = .fin (decide (r.num < 0)) c e) :
    ∃ d, Gen.FromRat g r = .ok d ∧ (𝔳[d]).isFin = true ∧
      |(𝔳[d]).toRat - r| = |(c : ℚ) * (10 : ℚ) ^ e - (|r|)| := by
  obtain ⟨d, hd', s⟩ := FromRat_spec' g r m hm hn hd hr
  refine ⟨d, hd', ?_⟩
  rw [hq] at s
  rcases Cohort.same_cases s with ⟨_, _, _, h2⟩ | ⟨_, _, h2⟩ | ⟨n, c1, e1, c2, e2, h1, h2, h3⟩
  · cases h2
  · cases h2
  · injection h2 with hn' hc he
    subst hn' hc he
    rw [h1]
    refine ⟨rfl, ?_⟩
    rw [SpecMeaning.toRat_fin', h3]
    have hsg : decide (r.num < 0) = decide (r < 0) := decide_eq_decide.2 Rat.num_neg
    rw [hsg]
    by_cases hneg : r < 0
    · simp only [hneg, decide_true, if_true]
      rw [abs_of_neg hneg,
        show -((c : ℚ) * (10 : ℚ) ^ e) - r = -((c : ℚ) * (10 : ℚ) ^ e - -r) by ring, abs_neg]
    · simp only [hneg, decide_false, Bool.false_eq_true, if_false]
      rw [abs_of_nonneg (not_lt.1 hneg)]

/-- a bound proved for the specification's quotient is a bound for the generated `FromRat` -/
theorem FromRat_transfer (g : Globals) (r : Rat) (m : Spec.Mode)
    (hm : Spec.Mode.ofNat? g.DefaultRoundingMode.toNat = some m)
    (hn : Go.Big.bitLen r.num.natAbs < 2 ^ 63) (hd : Go.Big.bitLen r.den < 2 ^ 63) (hr : r ≠ 0)
    {B : ℚ} {c : Nat} {e : Int}
    (hq : Spec.quo m (Spec.roundTo m (decide (r.num < 0)) (r.num.natAbs : ℚ))
        (Spec.roundTo m false (r.den : ℚ)) = .fin (decide (r.num < 0)) c e)
    (hB : |(c : ℚ) * (10 : ℚ) ^ e - (r.num.natAbs : ℚ) / (r.den : ℚ)| ≤ B) :
    ∃ d, Gen.FromRat g r = .ok d ∧ (𝔳[d]).isFin = true ∧ |(𝔳[d]).toRat - r| ≤ B := by
  obtain ⟨d, h1, h2, h3⟩ := FromRat_value g r m hm hn hd hr hq
  rw [abs_num_div_den] at hB
  exact ⟨d, h1, h2, by rw [h3]; exact hB⟩

/-- finite `roundTo` results, with the sign made explicit -/
theorem fin_of_isFin {m : Mode} {neg : Bool} {q : ℚ} (hq : 0 < q)
    (h : (Spec.roundTo m neg q).isFin = true) : ∃ c e, Spec.roundTo m neg q = .fin neg c e := by
  rcases roundTo_member m neg q hq with h' | ⟨c, e, h', -⟩
  · rw [h'] at h; simp [Val.isFin] at h
  · exact ⟨c, e, h'⟩

/-- **nearest modes.**  If `FromInt(num)` and `FromInt(den)` are finite then `FromRat r` is finite and
    `|FromRat r − r| ≤ 2u/(1−u)·|r| + max (10^Emin/2) (u(1+u)/(1−u)·|r|)` with `u = 2^-111`. -/
theorem FromRat_error_nearest (g : Globals) (r : Rat) (m : Spec.Mode)
    (hm : Spec.Mode.ofNat? g.DefaultRoundingMode.toNat = some m) (hnear : isNearest m = true)
    (hr : r ≠ 0)
    (hfn : (Spec.roundTo m (decide (r.num < 0)) (r.num.natAbs : ℚ)).isFin = true)
    (hfd : (Spec.roundTo m false (r.den : ℚ)).isFin = true) :
    ∃ d, Gen.FromRat g r = .ok d ∧ (𝔳[d]).isFin = true ∧
      |(𝔳[d]).toRat - r| ≤
        2 * (1 / 2 ^ 111) / (1 - 1 / 2 ^ 111) * |r| +
          max ((10 : ℚ) ^ Spec.Emin / 2)
            (1 / 2 ^ 111 * ((1 + 1 / 2 ^ 111) / (1 - 1 / 2 ^ 111)) * |r|) := by
  have hN := natAbs_pos_q hr
  have hD := den_pos_q r
  obtain ⟨cn, en, h1⟩ := fin_of_isFin (by linarith) hfn
  obtain ⟨cd, ed, h2⟩ := fin_of_isFin (by linarith) hfd
  obtain ⟨c, e, hq, hB⟩ := quoRounded_nearest hnear _ hN hD h1 h2
  have hbn := bitLen_of_lt_max (roundTo_fin_lt (by linarith) h1)
  have hbd := bitLen_of_lt_max (roundTo_fin_lt (by linarith) h2)
  have := FromRat_transfer g r m hm hbn hbd hr hq hB
  rwa [abs_num_div_den] at this

/-- **every mode.**  The same with `u = 2^-110` and a whole unit of `10^Emin`. -/
theorem FromRat_error_any (g : Globals) (r : Rat) (m : Spec.Mode)
    (hm : Spec.Mode.ofNat? g.DefaultRoundingMode.toNat = some m)
    (hr : r ≠ 0)
    (hfn : (Spec.roundTo m (decide (r.num < 0)) (r.num.natAbs : ℚ)).isFin = true)
    (hfd : (Spec.roundTo m false (r.den : ℚ)).isFin = true) :
    ∃ d, Gen.FromRat g r = .ok d ∧ (𝔳[d]).isFin = true ∧
      |(𝔳[d]).toRat - r| ≤
        2 * (1 / 2 ^ 110) / (1 - 1 / 2 ^ 110) * |r| +
          max ((10 : ℚ) ^ Spec.Emin)
            (1 / 2 ^ 110 * ((1 + 1 / 2 ^ 110) / (1 - 1 / 2 ^ 110)) * |r|) := by
  have hN := natAbs_pos_q hr
  have hD := den_pos_q r
  obtain ⟨cn, en, h1⟩ := fin_of_isFin (by linarith) hfn
  obtain ⟨cd, ed, h2⟩ := fin_of_isFin (by linarith) hfd
  obtain ⟨c, e, hq, hB⟩ := quoRounded_any m _ hN hD h1 h2
  have hbn := bitLen_of_lt_max (roundTo_fin_lt (by linarith) h1)
  have hbd := bitLen_of_lt_max (roundTo_fin_lt (by linarith) h2)
  have := FromRat_transfer g r m hm hbn hbd hr hq hB
  rwa [abs_num_div_den] at this

/-- **modes that round numerator and denominator in the same direction** (`SameDir`: toZero, awayFromZero,
    and toNegInf / toPosInf when `r > 0`) -/
theorem FromRat_error_same (g : Globals) (r : Rat) (m : Spec.Mode)
    (hm : Spec.Mode.ofNat? g.DefaultRoundingMode.toNat = some m)
    (hr : r ≠ 0) (hs : SameDir m (decide (r.num < 0)))
    (hfn : (Spec.roundTo m (decide (r.num < 0)) (r.num.natAbs : ℚ)).isFin = true)
    (hfd : (Spec.roundTo m false (r.den : ℚ)).isFin = true) :
    ∃ d, Gen.FromRat g r = .ok d ∧ (𝔳[d]).isFin = true ∧
      |(𝔳[d]).toRat - r| ≤
        1 / 2 ^ 110 / (1 - 1 / 2 ^ 110) * |r| +
          max ((10 : ℚ) ^ Spec.Emin) (1 / 2 ^ 110 * (1 / (1 - 1 / 2 ^ 110)) * |r|) := by
  have hN := natAbs_pos_q hr
  have hD := den_pos_q r
  obtain ⟨cn, en, h1⟩ := fin_of_isFin (by linarith) hfn
  obtain ⟨cd, ed, h2⟩ := fin_of_isFin (by linarith) hfd
  obtain ⟨c, e, hq, hB⟩ := quoRounded_same m _ hs hN hD h1 h2
  have hbn := bitLen_of_lt_max (roundTo_fin_lt (by linarith) h1)
  have hbd := bitLen_of_lt_max (roundTo_fin_lt (by linarith) h2)
  have := FromRat_transfer g r m hm hbn hbd hr hq hB
  rwa [abs_num_div_den] at this

/-! ## the exclusions are necessary -/

/-- the numerator rounds to `±Inf` ⇒ `FromRat r` is `±Inf` or NaN, whatever `r` is -/
theorem FromRat_num_overflow (g : Globals) (r : Rat) (m : Spec.Mode)
    (hm : Spec.Mode.ofNat? g.DefaultRoundingMode.toNat = some m)
    (hn : Go.Big.bitLen r.num.natAbs < 2 ^ 63) (hd : Go.Big.bitLen r.den < 2 ^ 63) (hr : r ≠ 0)
    (hinf : (Spec.roundTo m (decide (r.num < 0)) (r.num.natAbs : ℚ)).isFin = false) :
    ∃ d, Gen.FromRat g r = .ok d ∧ (𝔳[d]).isFin = false := by
  obtain ⟨d, hd', s⟩ := FromRat_spec' g r m hm hn hd hr
  refine ⟨d, hd', ?_⟩
  have hN := natAbs_pos_q hr
  rcases roundTo_member m (decide (r.num < 0)) (r.num.natAbs : ℚ) (by linarith) with h | ⟨c, e, h, -⟩
  · rw [h] at s
    have hq := quo_of_inf_left m (decide (r.num < 0)) (Spec.roundTo m false (r.den : ℚ))
    rcases Cohort.same_cases s with ⟨_, _, h1, _⟩ | ⟨_, h1, _⟩ | ⟨_, _, _, _, _, _, h2, _⟩
    · rw [h1]; rfl
    · rw [h1]; rfl
    · rw [h2] at hq; simp [Val.isFin] at hq
  · rw [h] at hinf; simp [Val.isFin] at hinf

/-- the denominator rounds to `+Inf` while the numerator stays finite ⇒ `FromRat r` is a zero: the
    error is `|r|` itself (relative error 1) -/
theorem FromRat_den_overflow (g : Globals) (r : Rat) (m : Spec.Mode)
    (hm : Spec.Mode.ofNat? g.DefaultRoundingMode.toNat = some m)
    (hn : Go.Big.bitLen r.num.natAbs < 2 ^ 63) (hd : Go.Big.bitLen r.den < 2 ^ 63) (hr : r ≠ 0)
    (hfn : (Spec.roundTo m (decide (r.num < 0)) (r.num.natAbs : ℚ)).isFin = true)
    (hinf : (Spec.roundTo m false (r.den : ℚ)).isFin = false) :
    ∃ d, Gen.FromRat g r = .ok d ∧ (𝔳[d]).toRat = 0 ∧ |(𝔳[d]).toRat - r| = |r| := by
  obtain ⟨d, hd', s⟩ := FromRat_spec' g r m hm hn hd hr
  refine ⟨d, hd', ?_⟩
  have hN := natAbs_pos_q hr
  have hD := den_pos_q r
  obtain ⟨cn, en, h1⟩ := fin_of_isFin (by linarith) hfn
  have h2 : Spec.roundTo m false (r.den : ℚ) = .inf false := by
    rcases roundTo_member m false (r.den : ℚ) (by linarith) with h | ⟨c, e, h, -⟩
    · exact h
    · rw [h] at hinf; simp [Val.isFin] at hinf
  rw [h1, h2, quo_of_inf_right] at s
  rcases Cohort.same_cases s with ⟨_, _, _, h'⟩ | ⟨_, _, h'⟩ | ⟨n, c1, e1, c2, e2, h3, h4, h5⟩
  · cases h'
  · cases h'
  · injection h4 with _ hc he
    subst hc he
    have hz : (𝔳[d]).toRat = 0 := by
      rw [h3, ← abs_eq_zero, SpecMeaning.abs_toRat_fin, h5]; simp
    exact ⟨hz, by rw [hz, zero_sub, abs_neg]⟩

/-! ## the constants in decimal -/

theorem c_near_a : 2 * (1 / 2 ^ 111) / (1 - 1 / 2 ^ 111) ≤ 8 / 10 * (10 : ℚ) ^ (-33 : Int) := by norm_num
theorem c_near_b : 1 / 2 ^ 111 * ((1 + 1 / 2 ^ 111) / (1 - 1 / 2 ^ 111)) ≤ 4 / 10 * (10 : ℚ) ^ (-33 : Int) := by
  norm_num
theorem c_any_a : 2 * (1 / 2 ^ 110) / (1 - 1 / 2 ^ 110) ≤ 16 / 10 * (10 : ℚ) ^ (-33 : Int) := by norm_num
theorem c_any_b : 1 / 2 ^ 110 * ((1 + 1 / 2 ^ 110) / (1 - 1 / 2 ^ 110)) ≤ 8 / 10 * (10 : ℚ) ^ (-33 : Int) := by
  norm_num
theorem c_same_a : 1 / 2 ^ 110 / (1 - 1 / 2 ^ 110) ≤ 8 / 10 * (10 : ℚ) ^ (-33 : Int) := by norm_num
theorem c_same_b : 1 / 2 ^ 110 * (1 / (1 - 1 / 2 ^ 110)) ≤ 8 / 10 * (10 : ℚ) ^ (-33 : Int) := by norm_num

/-- replacing the exact constants by decimal ones -/
theorem bound_simpl {a b a' b' A R : ℚ} (ha : a ≤ a') (hb : b ≤ b') (hR : 0 ≤ R) :
    a * R + max A (b * R) ≤ a' * R + max A (b' * R) :=
  add_le_add (mul_le_mul_of_nonneg_right ha hR)
    (max_le_max (le_refl _) (mul_le_mul_of_nonneg_right hb hR))

end FromRatBound
