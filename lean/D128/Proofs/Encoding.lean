/-
  Encoding lemmas for Gen.Decimal (decimal.go / binary.go), all bit patterns.  Core-only.

  Bit-field helpers (namespace Enc):
    Nat.and_mask, and_hi63/61/59/58, and_lo63/49/47, and_e47/e49, or_disj, or_hi63, xor_hi63,
    shr_toNat, shl_toNat, conv_u64_u8, conv_u8_u64, conv_u64_i16, conv_i16_u64, beq_iff_toNat
  Nat characterisations of the generated predicates:
    isSpecial_eq, IsNaN_eq, isInf_eq, Signbit_eq, IsZero_eq, decompose_eq, decompose_w0,
    decompose_w1_toNat, decompose_exp_toInt, decompose_sig_toNat, interp_eq
  A.1 classification:  isSpecial_iff, classify_partition, interp_isNaN, interp_isInf, interp_isFin,
       interp_neg, interp_isZero
  A.2 interp_decompose, decompose_sig_le, decompose_exp_nonneg, decompose_exp_le
  A.3 compose_lo, compose_hi_toNat, compose_fields, decompose_compose, Signbit_compose,
       isSpecial_compose
  A.4 compose_decompose   (helpers U128_ext, Decimal_ext)
  A.5 interp_zero, interp_inf, interp_one, interp_nan, setNeg, interp_setNeg, Abs_lo, Neg_lo,
       Abs_hi_toNat, Neg_hi_toNat, interp_Abs, interp_Neg, class_of_low63, Abs_class, Neg_class,
       Signbit_Abs, Signbit_Neg, Neg_Neg, IsInf_eq, IsInf_spec,
       nan_hi, nan_lo, IsNaN_nan, isInf_nan, isSpecial_nan, Signbit_nan, Payload_nan, Payload_ok_iff,
       isInf_inf, IsNaN_inf, isSpecial_inf, Signbit_inf, IsZero_zero, isSpecial_zero, Signbit_zero,
       decompose_zero, isSpecial_one, IsZero_one, Signbit_one, decompose_one
  B. marshalling (used by D128/Props/C12.lean):
    bytesOf (the 16 big-endian bytes), marshal_eq : MarshalBinary d = .ok (bytesOf d, .nil),
    bytesOf_size, beNat_bytesOf, bidDecode_of_beNat, bidDecode_bytesOf,
    word8, word8_toNat, word8_bytes, word8_unbytes, unmarshal_eq (size = 16), len_ne_16,
    unmarshal_bad (size ≠ 16), bget_ok, unmarshal_no_panic, unmarshal_bytesOf, array16_eq, bytesOf_words,
    bytesOf_of_unmarshal, bidDecode_of_unmarshal, not_steering_of_canonical, compose_not_steering,
    compose_steering_iff, bytesOf_first, bytesOf_prefix
-/
import D128.Gen.Decimal3
import D128.Gen.Binary
import D128.Gen.Payload
import D128.Spec.Bid

namespace Enc

theorem Nat.and_mask (h j k : Nat) : h &&& ((2^j-1) * 2^k) = h / 2^k % 2^j * 2^k := by
  apply Nat.eq_of_testBit_eq
  intro i
  simp only [Nat.testBit_and, Nat.testBit_mul_two_pow, Nat.testBit_two_pow_sub_one,
    Nat.testBit_mod_two_pow, Nat.testBit_div_two_pow]
  by_cases h1 : k ≤ i
  · simp [h1]
    by_cases h2 : i - k < j
    · simp [h2]
    · simp [h2]
  · simp [h1]

theorem and_hi63 (h : UInt64) : (h &&& 9223372036854775808).toNat = h.toNat / 2^63 % 2 * 2^63 := by
  rw [UInt64.toNat_and]; exact Nat.and_mask h.toNat 1 63
theorem and_hi61 (h : UInt64) : (h &&& 6917529027641081856).toNat = h.toNat / 2^61 % 4 * 2^61 := by
  rw [UInt64.toNat_and]; exact Nat.and_mask h.toNat 2 61
theorem and_hi59 (h : UInt64) : (h &&& 8646911284551352320).toNat = h.toNat / 2^59 % 16 * 2^59 := by
  rw [UInt64.toNat_and]; exact Nat.and_mask h.toNat 4 59
theorem and_hi58 (h : UInt64) : (h &&& 8935141660703064064).toNat = h.toNat / 2^58 % 32 * 2^58 := by
  rw [UInt64.toNat_and]; exact Nat.and_mask h.toNat 5 58
theorem and_lo63 (h : UInt64) : (h &&& 9223372036854775807).toNat = h.toNat % 2^63 := by
  rw [UInt64.toNat_and]; simpa using Nat.and_mask h.toNat 63 0
theorem and_lo49 (h : UInt64) : (h &&& 562949953421311).toNat = h.toNat % 2^49 := by
  rw [UInt64.toNat_and]; simpa using Nat.and_mask h.toNat 49 0
theorem and_lo47 (h : UInt64) : (h &&& 140737488355327).toNat = h.toNat % 2^47 := by
  rw [UInt64.toNat_and]; simpa using Nat.and_mask h.toNat 47 0
theorem and_e47 (h : UInt64) : (h &&& 2305702271725338624).toNat = h.toNat / 2^47 % 2^14 * 2^47 := by
  rw [UInt64.toNat_and]; exact Nat.and_mask h.toNat 14 47
theorem and_e49 (h : UInt64) : (h &&& 9222809086901354496).toNat = h.toNat / 2^49 % 2^14 * 2^49 := by
  rw [UInt64.toNat_and]; exact Nat.and_mask h.toNat 14 49


theorem beq_iff_toNat (a b : UInt64) : (a == b) = decide (a.toNat = b.toNat) := by
  by_cases h : a = b
  · simp [h]
  · have : ¬ a.toNat = b.toNat := fun e => h (UInt64.toNat_inj.mp e)
    simp [h, this]

theorem isSpecial_eq (d : Gen.Decimal) :
    Gen.Decimal.isSpecial d = decide (d.hi.toNat / 2^59 % 16 = 15) := by
  unfold Gen.Decimal.isSpecial
  simp only [Id.run, pure, beq_iff_toNat, and_hi59, UInt64.toNat_ofNat, Nat.reducePow, Nat.reduceMod]
  congr 1; apply propext; omega

theorem IsNaN_eq (d : Gen.Decimal) :
    Gen.Decimal.IsNaN d = decide (d.hi.toNat / 2^58 % 32 = 31) := by
  unfold Gen.Decimal.IsNaN
  simp only [Id.run, pure, beq_iff_toNat, and_hi58, UInt64.toNat_ofNat, Nat.reducePow, Nat.reduceMod]
  congr 1; apply propext; omega

theorem isInf_eq (d : Gen.Decimal) :
    Gen.Decimal.isInf d = decide (d.hi.toNat / 2^58 % 32 = 30) := by
  unfold Gen.Decimal.isInf
  simp only [Id.run, pure, beq_iff_toNat, and_hi58, UInt64.toNat_ofNat, Nat.reducePow, Nat.reduceMod]
  congr 1; apply propext; omega

theorem Signbit_eq (d : Gen.Decimal) :
    Gen.Decimal.Signbit d = decide (d.hi.toNat / 2^63 % 2 = 1) := by
  unfold Gen.Decimal.Signbit
  simp only [Id.run, pure, beq_iff_toNat, and_hi63, UInt64.toNat_ofNat, Nat.reducePow, Nat.reduceMod]
  congr 1; apply propext; omega

theorem IsZero_eq (d : Gen.Decimal) :
    Gen.Decimal.IsZero d = decide (d.hi.toNat / 2^61 % 4 ≠ 3 ∧ d.lo.toNat = 0 ∧ d.hi.toNat % 2^49 = 0) := by
  unfold Gen.Decimal.IsZero
  simp only [Id.run, pure, beq_iff_toNat, and_hi61, and_lo49, UInt64.toNat_ofNat, Nat.reducePow, Nat.reduceMod]
  split <;> rename_i h <;> simp at h ⊢ <;> omega


theorem shr_toNat (x : UInt64) (s : Int) (h0 : 0 ≤ s) (hs : s < 64) :
    (Go.shr x s).toNat = x.toNat / 2^s.toNat := by
  have h1 : s.toNat < 64 := by omega
  simp only [Go.shr, Go.GoShift.shr, h1, if_true, UInt64.toNat_shiftRight, UInt64.toNat_ofNat',
    Nat.shiftRight_eq_div_pow]
  congr 2; omega

theorem shl_toNat (x : UInt64) (s : Int) (h0 : 0 ≤ s) (hs : s < 64) :
    (Go.shl x s).toNat = x.toNat * 2^s.toNat % 2^64 := by
  have h1 : s.toNat < 64 := by omega
  simp only [Go.shl, Go.GoShift.shl, h1, if_true, UInt64.toNat_shiftLeft, UInt64.toNat_ofNat',
    Nat.shiftLeft_eq]
  congr 3; omega

theorem or_disj (a b k : Nat) (ha : a < 2^k) : a ||| b * 2^k = a + b * 2^k := by
  rw [Nat.or_comm, Nat.mul_comm, ← Nat.two_pow_add_eq_or_of_lt ha]; omega

theorem conv_u64_u8 (x : UInt64) : (Go.conv x : UInt8).toNat = x.toNat % 256 := by
  simp [Go.conv, Go.GoInt.ofInt, Go.GoInt.toInt, UInt8.ofInt]
  omega

theorem conv_u8_u64 (x : UInt8) : (Go.conv x : UInt64).toNat = x.toNat := by
  have := x.toNat_lt
  simp [Go.conv, Go.GoInt.ofInt, Go.GoInt.toInt, UInt64.ofInt]
  omega

theorem conv_u64_i16 (x : UInt64) (h : x.toNat < 2^15) : (Go.conv x : Int16).toInt = x.toNat := by
  simp only [Go.conv, Go.GoInt.ofInt, Go.GoInt.toInt]
  rw [Int16.toInt_ofInt_of_le] <;> omega

theorem conv_i16_u64 (e : Int16) (h : 0 ≤ e.toInt) : (Go.conv e : UInt64).toNat = e.toInt.toNat := by
  have := e.toInt_lt
  simp only [Go.conv, Go.GoInt.ofInt, Go.GoInt.toInt, UInt64.ofInt, UInt64.toNat_ofNat']
  omega

/-! ## decompose -/

theorem decompose_eq (d : Gen.Decimal) :
    Gen.Decimal.decompose d =
      if d.hi.toNat / 2^61 % 4 = 3 then
        (U128.mk d.lo ((d.hi &&& (140737488355327 : UInt64)) ||| (562949953421312 : UInt64)),
         (Go.conv (Go.shr (d.hi &&& (2305702271725338624 : UInt64)) (47 : Int)) : Int16))
      else
        (U128.mk d.lo (d.hi &&& (562949953421311 : UInt64)),
         (Go.conv (Go.shr (d.hi &&& (9222809086901354496 : UInt64)) (49 : Int)) : Int16)) := by
  unfold Gen.Decimal.decompose
  simp only [Id.run, pure, beq_iff_toNat, and_hi61, UInt64.toNat_ofNat, Nat.reducePow, Nat.reduceMod]
  have e : (d.hi.toNat / 2305843009213693952 % 4 * 2305843009213693952 = 6917529027641081856)
      ↔ (d.hi.toNat / 2305843009213693952 % 4 = 3) := by omega
  simp only [e]
  by_cases h : d.hi.toNat / 2305843009213693952 % 4 = 3 <;> simp [h]


theorem decompose_w0 (d : Gen.Decimal) : (Gen.Decimal.decompose d).1.w0 = d.lo := by
  rw [decompose_eq]; split <;> rfl

theorem decompose_w1_toNat (d : Gen.Decimal) :
    (Gen.Decimal.decompose d).1.w1.toNat =
      if d.hi.toNat / 2^61 % 4 = 3 then 2^49 + d.hi.toNat % 2^47 else d.hi.toNat % 2^49 := by
  rw [decompose_eq]
  split
  · simp only [UInt64.toNat_or, and_lo47, UInt64.toNat_ofNat, Nat.reducePow, Nat.reduceMod]
    have := or_disj (d.hi.toNat % 140737488355328) 4 47 (Nat.mod_lt _ (by decide))
    simp only [Nat.reducePow, Nat.reduceMul] at this
    omega
  · simp only [and_lo49]

theorem decompose_exp_toInt (d : Gen.Decimal) :
    (Gen.Decimal.decompose d).2.toInt =
      if d.hi.toNat / 2^61 % 4 = 3 then ((d.hi.toNat / 2^47 % 2^14 : Nat) : Int)
      else ((d.hi.toNat / 2^49 % 2^14 : Nat) : Int) := by
  rw [decompose_eq]
  split
  · rw [conv_u64_i16] <;> rw [shr_toNat _ _ (by decide) (by decide), and_e47] <;>
      simp only [Int.reduceToNat, Nat.reducePow] <;> omega
  · rw [conv_u64_i16] <;> rw [shr_toNat _ _ (by decide) (by decide), and_e49] <;>
      simp only [Int.reduceToNat, Nat.reducePow] <;> omega

theorem decompose_sig_toNat (d : Gen.Decimal) :
    (Gen.Decimal.decompose d).1.toNat =
      if d.hi.toNat / 2^61 % 4 = 3 then (2^49 + d.hi.toNat % 2^47) * 2^64 + d.lo.toNat
      else d.hi.toNat % 2^49 * 2^64 + d.lo.toNat := by
  rw [U128.toNat, decompose_w0, decompose_w1_toNat]
  split <;> omega


/-! ## the specification reading, in `if … = …` form -/

theorem interp_eq (lo hi : UInt64) : Spec.interp lo hi =
    if hi.toNat / 2^58 % 32 = 31 then .nan (decide (hi.toNat / 2^63 % 2 = 1)) lo
    else if hi.toNat / 2^58 % 32 = 30 then .inf (decide (hi.toNat / 2^63 % 2 = 1))
    else if hi.toNat / 2^61 % 4 = 3 then
      .fin (decide (hi.toNat / 2^63 % 2 = 1)) ((2^49 + hi.toNat % 2^47) * 2^64 + lo.toNat)
        (((hi.toNat / 2^47 % 2^14 : Nat) : Int) - 6176)
    else
      .fin (decide (hi.toNat / 2^63 % 2 = 1)) (hi.toNat % 2^49 * 2^64 + lo.toNat)
        (((hi.toNat / 2^49 % 2^14 : Nat) : Int) - 6176) := by
  unfold Spec.interp
  simp only [Spec.bias, beq_iff_eq]
  rfl


/-! ## A.1 classification -/

theorem isSpecial_iff (d : Gen.Decimal) :
    Gen.Decimal.isSpecial d = (Gen.Decimal.IsNaN d || Gen.Decimal.isInf d) := by
  rw [isSpecial_eq, IsNaN_eq, isInf_eq, ← Bool.decide_or]
  congr 1; apply propext; omega

/-- exactly one of the four classes NaN / Inf / zero / non-zero finite holds -/
theorem classify_partition (d : Gen.Decimal) :
    (Gen.Decimal.IsNaN d = true ∧ Gen.Decimal.isInf d = false ∧ Gen.Decimal.isSpecial d = true
        ∧ Gen.Decimal.IsZero d = false) ∨
    (Gen.Decimal.IsNaN d = false ∧ Gen.Decimal.isInf d = true ∧ Gen.Decimal.isSpecial d = true
        ∧ Gen.Decimal.IsZero d = false) ∨
    (Gen.Decimal.IsNaN d = false ∧ Gen.Decimal.isInf d = false ∧ Gen.Decimal.isSpecial d = false
        ∧ Gen.Decimal.IsZero d = true) ∨
    (Gen.Decimal.IsNaN d = false ∧ Gen.Decimal.isInf d = false ∧ Gen.Decimal.isSpecial d = false
        ∧ Gen.Decimal.IsZero d = false) := by
  rw [isSpecial_eq, IsNaN_eq, isInf_eq, IsZero_eq]
  simp only [decide_eq_true_eq, decide_eq_false_iff_not]
  omega

theorem interp_isNaN (d : Gen.Decimal) :
    (Spec.interp d.lo d.hi).isNaN = Gen.Decimal.IsNaN d := by
  rw [interp_eq, IsNaN_eq]
  repeat' split
  all_goals simp_all [Spec.Val.isNaN]

theorem interp_isInf (d : Gen.Decimal) :
    (Spec.interp d.lo d.hi).isInf = Gen.Decimal.isInf d := by
  rw [interp_eq, isInf_eq]
  repeat' split
  all_goals simp_all [Spec.Val.isInf]

theorem interp_isFin (d : Gen.Decimal) :
    (Spec.interp d.lo d.hi).isFin = !Gen.Decimal.isSpecial d := by
  rw [interp_eq, isSpecial_eq]
  repeat' split
  all_goals simp [Spec.Val.isFin]
  all_goals omega

theorem interp_neg (d : Gen.Decimal) :
    (Spec.interp d.lo d.hi).neg = Gen.Decimal.Signbit d := by
  rw [interp_eq, Signbit_eq]
  repeat' split
  all_goals simp [Spec.Val.neg]

theorem isZero_fin (n : Bool) (c : Nat) (e : Int) : (Spec.Val.fin n c e).isZero = decide (c = 0) := by
  cases c <;> simp [Spec.Val.isZero]

theorem isZero_nan (n : Bool) (p : UInt64) : (Spec.Val.nan n p).isZero = false := rfl
theorem isZero_inf (n : Bool) : (Spec.Val.inf n).isZero = false := rfl

theorem interp_isZero (d : Gen.Decimal) :
    (Spec.interp d.lo d.hi).isZero = Gen.Decimal.IsZero d := by
  rw [interp_eq, IsZero_eq]
  repeat' split
  all_goals simp only [isZero_fin, isZero_nan, isZero_inf, decide_eq_decide, Bool.false_eq,
    decide_eq_false_iff_not, Nat.reducePow] at *
  all_goals omega


/-! ## A.2 interp ∘ bits = decompose (finite case) -/

theorem interp_decompose (d : Gen.Decimal) (h : Gen.Decimal.isSpecial d = false) :
    Spec.interp d.lo d.hi =
      .fin (Gen.Decimal.Signbit d) (Gen.Decimal.decompose d).1.toNat
        ((Gen.Decimal.decompose d).2.toInt - 6176) := by
  rw [isSpecial_eq] at h
  simp only [decide_eq_false_iff_not] at h
  rw [interp_eq, Signbit_eq, decompose_sig_toNat, decompose_exp_toInt]
  repeat' split
  all_goals first | rfl | omega

theorem decompose_sig_le (d : Gen.Decimal) : (Gen.Decimal.decompose d).1.toNat ≤ Spec.Cmax := by
  have := d.lo.toNat_lt
  rw [decompose_sig_toNat, Spec.Cmax]
  split <;> omega

theorem decompose_exp_nonneg (d : Gen.Decimal) : 0 ≤ (Gen.Decimal.decompose d).2.toInt := by
  rw [decompose_exp_toInt]; split <;> omega

theorem decompose_exp_le (d : Gen.Decimal) (h : Gen.Decimal.isSpecial d = false) :
    (Gen.Decimal.decompose d).2.toInt ≤ 12287 := by
  rw [isSpecial_eq] at h
  simp only [decide_eq_false_iff_not] at h
  rw [decompose_exp_toInt]; split <;> omega


/-! ## A.3 / A.4 compose -/
theorem compose_lo (neg : Bool) (sig : U128) (exp : Int16) :
    (Gen.compose neg sig exp).lo = sig.w0 := by
  unfold Gen.compose
  simp only [Id.run, pure]
  repeat' split
  all_goals rfl

theorem or_hi63 (x : UInt64) (h : x.toNat < 2^63) : (x ||| 9223372036854775808).toNat = x.toNat + 2^63 := by
  rw [UInt64.toNat_or]
  have := or_disj x.toNat 1 63 h
  simpa using this

theorem compose_hi_toNat (neg : Bool) (sig : U128) (exp : Int16)
    (hs : sig.toNat ≤ Spec.Cmax) (h0 : 0 ≤ exp.toInt) (h1 : exp.toInt ≤ 12287) :
    (Gen.compose neg sig exp).hi.toNat =
      (if neg then 2^63 else 0) +
      (if 2^49 ≤ sig.w1.toNat then 3 * 2^61 + exp.toInt.toNat * 2^47 + sig.w1.toNat % 2^47
       else exp.toInt.toNat * 2^49 + sig.w1.toNat) := by
  have hw : sig.w1.toNat < 5 * 2^47 := by
    rw [U128.toNat, Spec.Cmax] at hs; have := sig.w0.toNat_lt; omega
  unfold Gen.compose
  simp only [Id.run, pure, gt_iff_lt, UInt64.lt_iff_toNat_lt, UInt64.toNat_ofNat, Nat.reducePow, Nat.reduceMod, decide_eq_true_eq]
  have ha : (6917529027641081856 ||| Go.shl (Go.conv exp) 47 ||| sig.w1 &&& 140737488355327 : UInt64).toNat
      = 3 * 2^61 + exp.toInt.toNat * 2^47 + sig.w1.toNat % 2^47 := by
    simp only [UInt64.toNat_or, and_lo47, shl_toNat _ _ (by decide : (0:Int) ≤ 47) (by decide), conv_i16_u64 _ h0,
      UInt64.toNat_ofNat, Int.reduceToNat, Nat.reducePow, Nat.reduceMod]
    rw [Nat.or_assoc, Nat.or_comm]
    have e1 : exp.toInt.toNat * 140737488355328 % 18446744073709551616 = exp.toInt.toNat * 140737488355328 := by omega
    rw [e1, Nat.or_comm (exp.toInt.toNat * 140737488355328)]
    have := or_disj (sig.w1.toNat % 140737488355328) exp.toInt.toNat 47 (by omega)
    simp only [Nat.reducePow] at this
    rw [this]
    have := or_disj (sig.w1.toNat % 140737488355328 + exp.toInt.toNat * 140737488355328) 3 61 (by omega)
    simp only [Nat.reducePow, Nat.reduceMul] at this
    rw [this]; omega
  have hb : sig.w1.toNat < 2^49 → (Go.shl (Go.conv exp) 49 ||| sig.w1 : UInt64).toNat
      = exp.toInt.toNat * 2^49 + sig.w1.toNat := by
    intro hlt
    simp only [UInt64.toNat_or, shl_toNat _ _ (by decide : (0:Int) ≤ 49) (by decide), conv_i16_u64 _ h0,
      Int.reduceToNat, Nat.reducePow]
    have e1 : exp.toInt.toNat * 562949953421312 % 18446744073709551616 = exp.toInt.toNat * 562949953421312 := by omega
    rw [e1, Nat.or_comm]
    have := or_disj sig.w1.toNat exp.toInt.toNat 49 hlt
    simp only [Nat.reducePow] at this
    rw [this]; omega
  repeat' split
  all_goals first | omega | skip
  · dsimp only
    rw [or_hi63 _ (by rw [ha]; omega), ha]; omega
  · dsimp only
    rw [ha]; omega
  · have hb' := hb (by omega)
    dsimp only
    rw [or_hi63 _ (by rw [hb']; omega), hb']; omega
  · have hb' := hb (by omega)
    dsimp only
    rw [hb']; omega

theorem U128_ext (a b : U128) (h0 : a.w0 = b.w0) (h1 : a.w1.toNat = b.w1.toNat) : a = b := by
  cases a; cases b; simp only [U128.mk.injEq]; exact ⟨h0, UInt64.toNat_inj.mp h1⟩

theorem compose_fields (neg : Bool) (sig : U128) (exp : Int16)
    (hs : sig.toNat ≤ Spec.Cmax) (h0 : 0 ≤ exp.toInt) (h1 : exp.toInt ≤ 12287) :
    (Gen.Decimal.decompose (Gen.compose neg sig exp)).1.w0 = sig.w0 ∧
    (Gen.Decimal.decompose (Gen.compose neg sig exp)).1.w1.toNat = sig.w1.toNat ∧
    (Gen.Decimal.decompose (Gen.compose neg sig exp)).2.toInt = exp.toInt ∧
    Gen.Decimal.Signbit (Gen.compose neg sig exp) = neg ∧
    Gen.Decimal.isSpecial (Gen.compose neg sig exp) = false := by
  have hw : sig.w1.toNat < 5 * 2^47 := by
    rw [U128.toNat, Spec.Cmax] at hs; have := sig.w0.toNat_lt; omega
  have hhi := compose_hi_toNat neg sig exp hs h0 h1
  have hlo := compose_lo neg sig exp
  generalize Gen.compose neg sig exp = d at *
  rw [decompose_w0, decompose_w1_toNat, decompose_exp_toInt, Signbit_eq, isSpecial_eq]
  refine ⟨hlo, ?_, ?_, ?_, ?_⟩
  all_goals
    cases neg <;> by_cases hc : 2^49 ≤ sig.w1.toNat <;>
    simp only [hc, if_true, if_false, Bool.false_eq_true, decide_eq_true_eq, decide_eq_false_iff_not] at hhi ⊢ <;>
    (try split) <;> omega

theorem decompose_compose (neg : Bool) (sig : U128) (exp : Int16)
    (hs : sig.toNat ≤ Spec.Cmax) (h0 : 0 ≤ exp.toInt) (h1 : exp.toInt ≤ 12287) :
    Gen.Decimal.decompose (Gen.compose neg sig exp) = (sig, exp) := by
  obtain ⟨a, b, c, _, _⟩ := compose_fields neg sig exp hs h0 h1
  exact Prod.ext (U128_ext _ _ a b) (Int16.toInt_inj.mp c)

theorem Signbit_compose (neg : Bool) (sig : U128) (exp : Int16)
    (hs : sig.toNat ≤ Spec.Cmax) (h0 : 0 ≤ exp.toInt) (h1 : exp.toInt ≤ 12287) :
    Gen.Decimal.Signbit (Gen.compose neg sig exp) = neg :=
  (compose_fields neg sig exp hs h0 h1).2.2.2.1

theorem isSpecial_compose (neg : Bool) (sig : U128) (exp : Int16)
    (hs : sig.toNat ≤ Spec.Cmax) (h0 : 0 ≤ exp.toInt) (h1 : exp.toInt ≤ 12287) :
    Gen.Decimal.isSpecial (Gen.compose neg sig exp) = false :=
  (compose_fields neg sig exp hs h0 h1).2.2.2.2

theorem Decimal_ext (a b : Gen.Decimal) (h0 : a.lo = b.lo) (h1 : a.hi.toNat = b.hi.toNat) : a = b := by
  cases a; cases b; simp only [Gen.Decimal.mk.injEq]; exact ⟨h0, UInt64.toNat_inj.mp h1⟩

theorem compose_decompose (d : Gen.Decimal) (h : Gen.Decimal.isSpecial d = false) :
    Gen.compose (Gen.Decimal.Signbit d) (Gen.Decimal.decompose d).1 (Gen.Decimal.decompose d).2 = d := by
  apply Decimal_ext
  · rw [compose_lo, decompose_w0]
  · rw [compose_hi_toNat _ _ _ (decompose_sig_le d) (decompose_exp_nonneg d) (decompose_exp_le d h),
      decompose_w1_toNat, decompose_exp_toInt, Signbit_eq]
    rw [isSpecial_eq] at h
    simp only [decide_eq_false_iff_not] at h
    have := d.hi.toNat_lt
    by_cases hn : d.hi.toNat / 2 ^ 63 % 2 = 1 <;> by_cases hc : d.hi.toNat / 2 ^ 61 % 4 = 3 <;>
      simp only [hn, hc, if_true, if_false, decide_true, decide_false, Bool.false_eq_true, Int.toNat_natCast] <;>
      (try split) <;> omega

/-! ## A.5 constructors, Abs, Neg -/

theorem xor_hi63 (x : UInt64) :
    (x ^^^ 9223372036854775808).toNat % 2^63 = x.toNat % 2^63 ∧
    (x ^^^ 9223372036854775808).toNat / 2^63 = 1 - x.toNat / 2^63 := by
  have hx := x.toNat_lt
  rw [UInt64.toNat_xor]
  have e : (9223372036854775808 : UInt64).toNat = 2^63 := rfl
  rw [e, Nat.xor_mod_two_pow, Nat.xor_div_two_pow]
  constructor
  · simp
  · have : x.toNat / 2^63 = 0 ∨ x.toNat / 2^63 = 1 := by omega
    rcases this with h | h <;> rw [h] <;> simp

/-- replace the sign of an abstract value -/
def setNeg (b : Bool) : Spec.Val → Spec.Val
  | .nan _ p => .nan b p
  | .inf _ => .inf b
  | .fin _ c e => .fin b c e

theorem interp_setNeg (lo hi hi' : UInt64) (h : hi'.toNat % 2^63 = hi.toNat % 2^63) :
    Spec.interp lo hi' = setNeg (decide (hi'.toNat / 2^63 % 2 = 1)) (Spec.interp lo hi) := by
  rw [interp_eq, interp_eq]
  have e1 : hi'.toNat / 2^58 % 32 = hi.toNat / 2^58 % 32 := by omega
  have e2 : hi'.toNat / 2^61 % 4 = hi.toNat / 2^61 % 4 := by omega
  have e3 : hi'.toNat % 2^47 = hi.toNat % 2^47 := by omega
  have e4 : hi'.toNat % 2^49 = hi.toNat % 2^49 := by omega
  have e5 : hi'.toNat / 2^47 % 2^14 = hi.toNat / 2^47 % 2^14 := by omega
  have e6 : hi'.toNat / 2^49 % 2^14 = hi.toNat / 2^49 % 2^14 := by omega
  rw [e1, e2, e3, e4, e5, e6]
  repeat' split
  all_goals rfl

theorem Abs_lo (d : Gen.Decimal) : (Gen.Abs d).lo = d.lo := rfl
theorem Neg_lo (d : Gen.Decimal) : (Gen.Decimal.Neg d).lo = d.lo := rfl
theorem Abs_hi_toNat (d : Gen.Decimal) : (Gen.Abs d).hi.toNat = d.hi.toNat % 2^63 := by
  show (d.hi &&& 9223372036854775807).toNat = _
  rw [and_lo63]
theorem Neg_hi_toNat (d : Gen.Decimal) :
    (Gen.Decimal.Neg d).hi.toNat % 2^63 = d.hi.toNat % 2^63 ∧
    (Gen.Decimal.Neg d).hi.toNat / 2^63 = 1 - d.hi.toNat / 2^63 := xor_hi63 d.hi

theorem interp_Abs (d : Gen.Decimal) :
    Spec.interp (Gen.Abs d).lo (Gen.Abs d).hi = setNeg false (Spec.interp d.lo d.hi) := by
  have h := Abs_hi_toNat d
  rw [Abs_lo, interp_setNeg d.lo d.hi (Gen.Abs d).hi (by omega)]
  congr 1
  simp only [decide_eq_false_iff_not]; omega

theorem interp_Neg (d : Gen.Decimal) :
    Spec.interp (Gen.Decimal.Neg d).lo (Gen.Decimal.Neg d).hi
      = setNeg (!(Spec.interp d.lo d.hi).neg) (Spec.interp d.lo d.hi) := by
  have h := Neg_hi_toNat d
  have hx := d.hi.toNat_lt
  rw [Neg_lo, interp_setNeg d.lo d.hi (Gen.Decimal.Neg d).hi h.1, interp_neg, Signbit_eq]
  congr 1
  rw [← decide_not]
  congr 1; apply propext; omega


theorem interp_zero (neg : Bool) :
    Spec.interp (Gen.zero neg).lo (Gen.zero neg).hi = .fin neg 0 (-6176) := by
  cases neg <;> rfl

theorem interp_inf (neg : Bool) :
    Spec.interp (Gen.inf neg).lo (Gen.inf neg).hi = .inf neg := by
  cases neg <;> rfl

theorem interp_one (neg : Bool) :
    Spec.interp (Gen.one neg).lo (Gen.one neg).hi = .fin neg 1 0 := by
  cases neg <;> rfl

theorem interp_nan (op l r : UInt64) :
    Spec.interp (Gen.nan op l r).lo (Gen.nan op l r).hi
      = .nan false ((op ||| Go.shl l 8) ||| Go.shl r 16) := by
  have h : (Gen.nan op l r).hi = 8935141660703064064 := rfl
  have l : (Gen.nan op l r).lo = ((op ||| Go.shl l 8) ||| Go.shl r 16) := rfl
  rw [interp_eq, h, l]
  rfl


/-- everything except the sign depends only on `lo` and the low 63 bits of `hi` -/
theorem class_of_low63 (d d' : Gen.Decimal) (hlo : d'.lo = d.lo)
    (h : d'.hi.toNat % 2^63 = d.hi.toNat % 2^63) :
    Gen.Decimal.isSpecial d' = Gen.Decimal.isSpecial d ∧ Gen.Decimal.IsNaN d' = Gen.Decimal.IsNaN d ∧
    Gen.Decimal.isInf d' = Gen.Decimal.isInf d ∧ Gen.Decimal.IsZero d' = Gen.Decimal.IsZero d ∧
    Gen.Decimal.decompose d' = Gen.Decimal.decompose d := by
  have e0 : d'.hi.toNat / 2^59 % 16 = d.hi.toNat / 2^59 % 16 := by omega
  have e1 : d'.hi.toNat / 2^58 % 32 = d.hi.toNat / 2^58 % 32 := by omega
  have e2 : d'.hi.toNat / 2^61 % 4 = d.hi.toNat / 2^61 % 4 := by omega
  have e3 : d'.hi.toNat % 2^47 = d.hi.toNat % 2^47 := by omega
  have e4 : d'.hi.toNat % 2^49 = d.hi.toNat % 2^49 := by omega
  have e5 : d'.hi.toNat / 2^47 % 2^14 = d.hi.toNat / 2^47 % 2^14 := by omega
  have e6 : d'.hi.toNat / 2^49 % 2^14 = d.hi.toNat / 2^49 % 2^14 := by omega
  refine ⟨?_, ?_, ?_, ?_, ?_⟩
  · rw [isSpecial_eq, isSpecial_eq, e0]
  · rw [IsNaN_eq, IsNaN_eq, e1]
  · rw [isInf_eq, isInf_eq, e1]
  · rw [IsZero_eq, IsZero_eq, e2, e4, hlo]
  · apply Prod.ext
    · apply U128_ext
      · rw [decompose_w0, decompose_w0, hlo]
      · rw [decompose_w1_toNat, decompose_w1_toNat, e2, e3, e4]
    · apply Int16.toInt_inj.mp
      rw [decompose_exp_toInt, decompose_exp_toInt, e2, e5, e6]

theorem Abs_class (d : Gen.Decimal) :
    Gen.Decimal.isSpecial (Gen.Abs d) = Gen.Decimal.isSpecial d ∧
    Gen.Decimal.IsNaN (Gen.Abs d) = Gen.Decimal.IsNaN d ∧
    Gen.Decimal.isInf (Gen.Abs d) = Gen.Decimal.isInf d ∧
    Gen.Decimal.IsZero (Gen.Abs d) = Gen.Decimal.IsZero d ∧
    Gen.Decimal.decompose (Gen.Abs d) = Gen.Decimal.decompose d :=
  class_of_low63 d (Gen.Abs d) (Abs_lo d) (by rw [Abs_hi_toNat]; omega)

theorem Neg_class (d : Gen.Decimal) :
    Gen.Decimal.isSpecial (Gen.Decimal.Neg d) = Gen.Decimal.isSpecial d ∧
    Gen.Decimal.IsNaN (Gen.Decimal.Neg d) = Gen.Decimal.IsNaN d ∧
    Gen.Decimal.isInf (Gen.Decimal.Neg d) = Gen.Decimal.isInf d ∧
    Gen.Decimal.IsZero (Gen.Decimal.Neg d) = Gen.Decimal.IsZero d ∧
    Gen.Decimal.decompose (Gen.Decimal.Neg d) = Gen.Decimal.decompose d :=
  class_of_low63 d (Gen.Decimal.Neg d) (Neg_lo d) (Neg_hi_toNat d).1

theorem Signbit_Abs (d : Gen.Decimal) : Gen.Decimal.Signbit (Gen.Abs d) = false := by
  rw [Signbit_eq, Abs_hi_toNat]; simp only [decide_eq_false_iff_not]; omega

theorem Signbit_Neg (d : Gen.Decimal) :
    Gen.Decimal.Signbit (Gen.Decimal.Neg d) = !Gen.Decimal.Signbit d := by
  have h := Neg_hi_toNat d
  have hx := d.hi.toNat_lt
  rw [Signbit_eq, Signbit_eq, ← decide_not]
  congr 1; apply propext; omega

theorem Neg_Neg (d : Gen.Decimal) : Gen.Decimal.Neg (Gen.Decimal.Neg d) = d := by
  have h := Neg_hi_toNat d
  have h' := Neg_hi_toNat (Gen.Decimal.Neg d)
  have hx := d.hi.toNat_lt
  have hx' := (Gen.Decimal.Neg (Gen.Decimal.Neg d)).hi.toNat_lt
  apply Decimal_ext
  · rfl
  · omega

/-! ## predicates on the constructors, Payload -/

section ctor
set_option maxRecDepth 4096
theorem nan_hi (op l r : UInt64) : (Gen.nan op l r).hi = 8935141660703064064 := rfl
theorem nan_lo (op l r : UInt64) : (Gen.nan op l r).lo = ((op ||| Go.shl l 8) ||| Go.shl r 16) := rfl
theorem IsNaN_nan (op l r : UInt64) : Gen.Decimal.IsNaN (Gen.nan op l r) = true := by
  rw [IsNaN_eq, nan_hi]; rfl
theorem isInf_nan (op l r : UInt64) : Gen.Decimal.isInf (Gen.nan op l r) = false := by
  rw [isInf_eq, nan_hi]; rfl
theorem isSpecial_nan (op l r : UInt64) : Gen.Decimal.isSpecial (Gen.nan op l r) = true := by
  rw [isSpecial_eq, nan_hi]; rfl
theorem Signbit_nan (op l r : UInt64) : Gen.Decimal.Signbit (Gen.nan op l r) = false := by
  rw [Signbit_eq, nan_hi]; rfl
theorem Payload_nan (op l r : UInt64) :
    Gen.Decimal.Payload_ (Gen.nan op l r) = .ok ((op ||| Go.shl l 8) ||| Go.shl r 16) := by
  unfold Gen.Decimal.Payload_
  rw [IsNaN_nan, nan_lo]; rfl
theorem Payload_ok_iff (d : Gen.Decimal) :
    (∃ p, Gen.Decimal.Payload_ d = .ok p) ↔ Gen.Decimal.IsNaN d = true := by
  unfold Gen.Decimal.Payload_
  cases h : Gen.Decimal.IsNaN d
  · simp only [Bool.not_false, if_true, Bool.false_eq_true, iff_false]
    rintro ⟨p, hp⟩; cases hp
  · simp only [Bool.not_true, Bool.false_eq_true, if_false, iff_true]
    exact ⟨_, rfl⟩
theorem isInf_inf (neg : Bool) : Gen.Decimal.isInf (Gen.inf neg) = true := by cases neg <;> rfl
theorem IsNaN_inf (neg : Bool) : Gen.Decimal.IsNaN (Gen.inf neg) = false := by cases neg <;> rfl
theorem isSpecial_inf (neg : Bool) : Gen.Decimal.isSpecial (Gen.inf neg) = true := by cases neg <;> rfl
theorem Signbit_inf (neg : Bool) : Gen.Decimal.Signbit (Gen.inf neg) = neg := by cases neg <;> rfl
theorem IsZero_zero (neg : Bool) : Gen.Decimal.IsZero (Gen.zero neg) = true := by cases neg <;> rfl
theorem isSpecial_zero (neg : Bool) : Gen.Decimal.isSpecial (Gen.zero neg) = false := by cases neg <;> rfl
theorem Signbit_zero (neg : Bool) : Gen.Decimal.Signbit (Gen.zero neg) = neg := by cases neg <;> rfl
theorem decompose_zero (neg : Bool) : Gen.Decimal.decompose (Gen.zero neg) = (⟨0, 0⟩, 0) := by
  cases neg <;> rfl
theorem isSpecial_one (neg : Bool) : Gen.Decimal.isSpecial (Gen.one neg) = false := by cases neg <;> rfl
theorem IsZero_one (neg : Bool) : Gen.Decimal.IsZero (Gen.one neg) = false := by cases neg <;> rfl
theorem Signbit_one (neg : Bool) : Gen.Decimal.Signbit (Gen.one neg) = neg := by cases neg <;> rfl
theorem decompose_one (neg : Bool) : Gen.Decimal.decompose (Gen.one neg) = (⟨1, 0⟩, 6176) := by
  cases neg <;> rfl
end ctor

/-! ## the exported IsInf -/

theorem IsInf_eq (d : Gen.Decimal) (sign : Int64) :
    Gen.Decimal.IsInf d sign =
      (Gen.Decimal.isInf d &&
        (sign == 0 || (if sign > 0 then !Gen.Decimal.Signbit d else Gen.Decimal.Signbit d))) := by
  unfold Gen.Decimal.IsInf
  simp only [Id.run, pure]
  cases h1 : Gen.Decimal.isInf d <;> by_cases h2 : sign = 0 <;> by_cases h3 : sign > 0 <;> simp [h2, h3]

/-- `IsInf d sign` holds exactly when the bits read as an infinity whose sign agrees with `sign` -/
theorem IsInf_spec (d : Gen.Decimal) (sign : Int64) :
    Gen.Decimal.IsInf d sign = true ↔
      ∃ neg, Spec.interp d.lo d.hi = .inf neg ∧
        (sign = 0 ∨ (sign > 0 ∧ neg = false) ∨ (¬ sign > 0 ∧ neg = true)) := by
  rw [IsInf_eq, ← interp_isInf, ← interp_neg]
  cases h : Spec.interp d.lo d.hi with
  | nan n p => simp [Spec.Val.isInf]
  | fin n c e => simp [Spec.Val.isInf]
  | inf n =>
    by_cases h2 : sign = 0 <;> by_cases h3 : sign > 0 <;> cases n <;>
      simp [Spec.Val.isInf, Spec.Val.neg, h2, h3]

/-! ## B. marshalling -/


/-- the sixteen big-endian bytes of `d` -/
def bytesOf (d : Gen.Decimal) : Array UInt8 :=
  #[(Go.conv (Go.shr d.hi (56 : Int)) : UInt8), (Go.conv (Go.shr d.hi (48 : Int)) : UInt8),
    (Go.conv (Go.shr d.hi (40 : Int)) : UInt8), (Go.conv (Go.shr d.hi (32 : Int)) : UInt8),
    (Go.conv (Go.shr d.hi (24 : Int)) : UInt8), (Go.conv (Go.shr d.hi (16 : Int)) : UInt8),
    (Go.conv (Go.shr d.hi (8 : Int)) : UInt8), (Go.conv d.hi : UInt8),
    (Go.conv (Go.shr d.lo (56 : Int)) : UInt8), (Go.conv (Go.shr d.lo (48 : Int)) : UInt8),
    (Go.conv (Go.shr d.lo (40 : Int)) : UInt8), (Go.conv (Go.shr d.lo (32 : Int)) : UInt8),
    (Go.conv (Go.shr d.lo (24 : Int)) : UInt8), (Go.conv (Go.shr d.lo (16 : Int)) : UInt8),
    (Go.conv (Go.shr d.lo (8 : Int)) : UInt8), (Go.conv d.lo : UInt8)]

theorem marshal_eq (d : Gen.Decimal) :
    Gen.Decimal.MarshalBinary d = .ok (bytesOf d, Go.Err.nil) := by
  unfold Gen.Decimal.MarshalBinary
  have e : (Array.replicate (Go.idx (16 : Int64)).toNat (0 : UInt8))
      = #[0,0,0,0,0,0,0,0,0,0,0,0,0,0,0,0] := rfl
  rw [e]
  simp [Go.bset, bytesOf]
  rfl

theorem conv_shr_u8 (x : UInt64) (s : Int) (h0 : 0 ≤ s) (hs : s < 64) :
    (Go.conv (Go.shr x s) : UInt8).toNat = x.toNat / 2^s.toNat % 256 := by
  rw [conv_u64_u8, shr_toNat _ _ h0 hs]

theorem be8 (a x : Nat) (hx : x < 2^64) :
    (((((((a * 256 + x / 72057594037927936 % 256) * 256 + x / 281474976710656 % 256) * 256 + x / 1099511627776 % 256) * 256
      + x / 4294967296 % 256) * 256 + x / 16777216 % 256) * 256 + x / 65536 % 256) * 256 + x / 256 % 256) * 256
      + x % 256 = a * 2^64 + x := by omega
theorem cs56 (x : UInt64) : (Go.conv (Go.shr x (56:Int)) : UInt8).toNat = x.toNat / 72057594037927936 % 256 :=
  conv_shr_u8 x 56 (by decide) (by decide)
theorem cs48 (x : UInt64) : (Go.conv (Go.shr x (48:Int)) : UInt8).toNat = x.toNat / 281474976710656 % 256 :=
  conv_shr_u8 x 48 (by decide) (by decide)
theorem cs40 (x : UInt64) : (Go.conv (Go.shr x (40:Int)) : UInt8).toNat = x.toNat / 1099511627776 % 256 :=
  conv_shr_u8 x 40 (by decide) (by decide)
theorem cs32 (x : UInt64) : (Go.conv (Go.shr x (32:Int)) : UInt8).toNat = x.toNat / 4294967296 % 256 :=
  conv_shr_u8 x 32 (by decide) (by decide)
theorem cs24 (x : UInt64) : (Go.conv (Go.shr x (24:Int)) : UInt8).toNat = x.toNat / 16777216 % 256 :=
  conv_shr_u8 x 24 (by decide) (by decide)
theorem cs16 (x : UInt64) : (Go.conv (Go.shr x (16:Int)) : UInt8).toNat = x.toNat / 65536 % 256 :=
  conv_shr_u8 x 16 (by decide) (by decide)
theorem cs8 (x : UInt64) : (Go.conv (Go.shr x (8:Int)) : UInt8).toNat = x.toNat / 256 % 256 :=
  conv_shr_u8 x 8 (by decide) (by decide)

theorem beNat_bytesOf (d : Gen.Decimal) : Spec.beNat (bytesOf d) = d.hi.toNat * 2^64 + d.lo.toNat := by
  have hh := d.hi.toNat_lt
  have hl := d.lo.toNat_lt
  simp only [Spec.beNat, bytesOf, List.foldl_toArray, List.foldl_cons, List.foldl_nil,
    cs56, cs48, cs40, cs32, cs24, cs16, cs8]
  simp only [conv_u64_u8]
  rw [be8 0 _ hh, be8 _ _ hl]
  omega

theorem bytesOf_size (d : Gen.Decimal) : (bytesOf d).size = 16 := rfl

section bidfields
variable (H L : Nat)
theorem bid_e1 : (H * 2^64 + L) / 2^110 % 2^17 / 2^12 = (H * 2^64 + L) / 2^122 % 32 := by omega
theorem bid_e2 : (H * 2^64 + L) / 2^110 % 2^17 / 2^15 = (H * 2^64 + L) / 2^125 % 4 := by omega
theorem bid_e5 : (H * 2^64 + L) / 2^110 % 2^17 / 2 % 2^14 = (H * 2^64 + L) / 2^111 % 2^14 := by omega
theorem bid_e7 : (H * 2^64 + L) / 2^110 % 2^17 / 2^3 = (H * 2^64 + L) / 2^113 % 2^14 := by omega
theorem bid_e6 : (8 + (H * 2^64 + L) / 2^110 % 2^17 % 2) * 2^110 + (H * 2^64 + L) % 2^110
      = 2^113 + (H * 2^64 + L) % 2^111 := by omega
theorem bid_e8 : ((H * 2^64 + L) / 2^110 % 2^17 % 8) * 2^110 + (H * 2^64 + L) % 2^110
      = (H * 2^64 + L) % 2^113 := by omega
variable (hl : L < 2^64)
include hl
theorem split_div63 : (H * 2^64 + L) / 2^127 = H / 2^63 := by omega
theorem split_div58 : (H * 2^64 + L) / 2^122 = H / 2^58 := by omega
theorem split_div61 : (H * 2^64 + L) / 2^125 = H / 2^61 := by omega
theorem split_div47 : (H * 2^64 + L) / 2^111 = H / 2^47 := by omega
theorem split_div49 : (H * 2^64 + L) / 2^113 = H / 2^49 := by omega
theorem split_mod64 : (H * 2^64 + L) % 2^64 = L := by omega
theorem split_mod111 : (H * 2^64 + L) % 2^111 = H % 2^47 * 2^64 + L := by omega
theorem split_mod113 : (H * 2^64 + L) % 2^113 = H % 2^49 * 2^64 + L := by omega
end bidfields

/-- the IEEE decoder applied to a 16-byte string whose big-endian value is hi·2^64+lo -/
theorem bidDecode_of_beNat (b : Array UInt8) (lo hi : UInt64) (hsz : b.size = 16)
    (hN : Spec.beNat b = hi.toNat * 2^64 + lo.toNat) :
    Spec.bidDecode b = some (Spec.interp lo hi) := by
  have hh := hi.toNat_lt
  have hl := lo.toNat_lt
  unfold Spec.bidDecode
  rw [interp_eq]
  simp only [hsz, ne_eq, not_true_eq_false, if_false, hN, beq_iff_eq, Spec.bias]
  rw [bid_e1, bid_e2, bid_e5, bid_e6, bid_e7, bid_e8, split_div63 _ _ hl, split_div58 _ _ hl,
    split_div61 _ _ hl, split_div47 _ _ hl, split_div49 _ _ hl, split_mod64 _ _ hl, split_mod111 _ _ hl,
    split_mod113 _ _ hl]
  have es : (hi.toNat / 2^63 == 1) = decide (hi.toNat / 2^63 % 2 = 1) := by
    have : hi.toNat / 2^63 % 2 = hi.toNat / 2^63 := by omega
    rw [this]; by_cases hq : hi.toNat / 2^63 = 1 <;> simp [hq]
  have ec : 2 ^ 113 + (hi.toNat % 2 ^ 47 * 2 ^ 64 + lo.toNat) = (2 ^ 49 + hi.toNat % 2 ^ 47) * 2 ^ 64 + lo.toNat := by
    omega
  rw [es, ec, UInt64.ofNat_toNat]
  repeat' split
  all_goals rfl

theorem bidDecode_bytesOf (d : Gen.Decimal) :
    Spec.bidDecode (bytesOf d) = some (Spec.interp d.lo d.hi) :=
  bidDecode_of_beNat _ _ _ (bytesOf_size d) (beNat_bytesOf d)

/-- little-endian assembly of eight bytes, as written in UnmarshalBinary -/
def word8 (b0 b1 b2 b3 b4 b5 b6 b7 : UInt8) : UInt64 :=
  (((((((((Go.conv b0 : UInt64) ||| (Go.shl (Go.conv b1 : UInt64) (8 : Int)))
    ||| (Go.shl (Go.conv b2 : UInt64) (16 : Int))) ||| (Go.shl (Go.conv b3 : UInt64) (24 : Int)))
    ||| (Go.shl (Go.conv b4 : UInt64) (32 : Int))) ||| (Go.shl (Go.conv b5 : UInt64) (40 : Int)))
    ||| (Go.shl (Go.conv b6 : UInt64) (48 : Int))) ||| (Go.shl (Go.conv b7 : UInt64) (56 : Int))))

theorem shl_conv_u8 (b : UInt8) (s : Int) (h0 : 0 ≤ s) (hs : s ≤ 56) :
    (Go.shl (Go.conv b : UInt64) s).toNat = b.toNat * 2^s.toNat := by
  have hb := b.toNat_lt
  rw [shl_toNat _ _ h0 (by omega), conv_u8_u64]
  apply Nat.mod_eq_of_lt
  have h1 : s.toNat ≤ 56 := by omega
  calc b.toNat * 2^s.toNat ≤ b.toNat * 2^56 := Nat.mul_le_mul_left _ (Nat.pow_le_pow_right (by decide) h1)
    _ < 2^64 := by omega

theorem word8_toNat (b0 b1 b2 b3 b4 b5 b6 b7 : UInt8) :
    (word8 b0 b1 b2 b3 b4 b5 b6 b7).toNat =
      b0.toNat + b1.toNat * 2^8 + b2.toNat * 2^16 + b3.toNat * 2^24 + b4.toNat * 2^32
        + b5.toNat * 2^40 + b6.toNat * 2^48 + b7.toNat * 2^56 := by
  have h0 := b0.toNat_lt; have h1 := b1.toNat_lt; have h2 := b2.toNat_lt; have h3 := b3.toNat_lt
  have h4 := b4.toNat_lt; have h5 := b5.toNat_lt; have h6 := b6.toNat_lt; have h7 := b7.toNat_lt
  simp only [word8, UInt64.toNat_or, conv_u8_u64,
    shl_conv_u8 _ _ (by decide : (0:Int) ≤ 8) (by decide),
    shl_conv_u8 _ _ (by decide : (0:Int) ≤ 16) (by decide),
    shl_conv_u8 _ _ (by decide : (0:Int) ≤ 24) (by decide),
    shl_conv_u8 _ _ (by decide : (0:Int) ≤ 32) (by decide),
    shl_conv_u8 _ _ (by decide : (0:Int) ≤ 40) (by decide),
    shl_conv_u8 _ _ (by decide : (0:Int) ≤ 48) (by decide),
    shl_conv_u8 _ _ (by decide : (0:Int) ≤ 56) (by decide), Int.reduceToNat]
  rw [or_disj _ _ 8 (by omega), or_disj _ _ 16 (by omega), or_disj _ _ 24 (by omega),
    or_disj _ _ 32 (by omega), or_disj _ _ 40 (by omega), or_disj _ _ 48 (by omega),
    or_disj _ _ 56 (by omega)]


theorem unmarshal_eq (d0 : Gen.Decimal) (data : Go.Bytes) (h : data.size = 16) :
    Gen.Decimal.UnmarshalBinary d0 data =
      .ok (⟨word8 data[15] data[14] data[13] data[12] data[11] data[10] data[9] data[8],
            word8 data[7] data[6] data[5] data[4] data[3] data[2] data[1] data[0]⟩, Go.Err.nil) := by
  unfold Gen.Decimal.UnmarshalBinary
  simp [Go.len, Go.bget, h, word8]
  rfl

theorem len_ne_16 (data : Go.Bytes) (h : data.size ≠ 16) (hlt : data.size < 2^64) :
    (Go.len data != (16 : Int64)) = true := by
  simp only [Go.len, bne_iff_ne, ne_eq]
  intro e
  have this : (Int64.ofNat data.size).toInt = 16 := by rw [e]; rfl
  rw [Int64.toInt_ofNat'] at this
  simp only [Int.bmod, Int64.size] at this
  split at this <;> omega

theorem unmarshal_bad (d0 : Gen.Decimal) (data : Go.Bytes) (h : data.size ≠ 16) (hlt : data.size < 2^64) :
    Gen.Decimal.UnmarshalBinary d0 data = .ok (d0, Go.Err.errorsNew) := by
  unfold Gen.Decimal.UnmarshalBinary
  simp only [len_ne_16 data h hlt, if_true]
  rfl

theorem bget_ok (b : Go.Bytes) (i : Nat) (h : i < b.size) : Go.bget b (i : Int) = .ok b[i] := by
  unfold Go.bget
  rw [dif_pos ⟨by omega, by simpa using h⟩]
  rfl

/-- UnmarshalBinary returns normally on every input (also on the slices of impossible length
    ≥ 2^64 on which `Go.len` wraps). -/
theorem unmarshal_no_panic (d0 : Gen.Decimal) (data : Go.Bytes) :
    ∃ d1 e, Gen.Decimal.UnmarshalBinary d0 data = .ok (d1, e) := by
  by_cases hl : (Go.len data != (16 : Int64)) = true
  · refine ⟨d0, Go.Err.errorsNew, ?_⟩
    unfold Gen.Decimal.UnmarshalBinary
    simp only [hl, if_true]
    rfl
  · have hsz : 16 ≤ data.size := by
      simp only [Go.len, bne_iff_ne, ne_eq, Decidable.not_not] at hl
      have this : (Int64.ofNat data.size).toInt = 16 := by rw [hl]; rfl
      rw [Int64.toInt_ofNat'] at this
      simp only [Int.bmod, Int64.size] at this
      split at this <;> omega
    have b0 : Go.bget data (0:Int) = .ok data[0] := bget_ok data 0 (by omega)
    have b1 : Go.bget data (1:Int) = .ok data[1] := bget_ok data 1 (by omega)
    have b2 : Go.bget data (2:Int) = .ok data[2] := bget_ok data 2 (by omega)
    have b3 : Go.bget data (3:Int) = .ok data[3] := bget_ok data 3 (by omega)
    have b4 : Go.bget data (4:Int) = .ok data[4] := bget_ok data 4 (by omega)
    have b5 : Go.bget data (5:Int) = .ok data[5] := bget_ok data 5 (by omega)
    have b6 : Go.bget data (6:Int) = .ok data[6] := bget_ok data 6 (by omega)
    have b7 : Go.bget data (7:Int) = .ok data[7] := bget_ok data 7 (by omega)
    have b8 : Go.bget data (8:Int) = .ok data[8] := bget_ok data 8 (by omega)
    have b9 : Go.bget data (9:Int) = .ok data[9] := bget_ok data 9 (by omega)
    have b10 : Go.bget data (10:Int) = .ok data[10] := bget_ok data 10 (by omega)
    have b11 : Go.bget data (11:Int) = .ok data[11] := bget_ok data 11 (by omega)
    have b12 : Go.bget data (12:Int) = .ok data[12] := bget_ok data 12 (by omega)
    have b13 : Go.bget data (13:Int) = .ok data[13] := bget_ok data 13 (by omega)
    have b14 : Go.bget data (14:Int) = .ok data[14] := bget_ok data 14 (by omega)
    have b15 : Go.bget data (15:Int) = .ok data[15] := bget_ok data 15 (by omega)
    unfold Gen.Decimal.UnmarshalBinary
    simp only [hl, b0, b1, b2, b3, b4, b5, b6, b7, b8, b9, b10, b11, b12, b13, b14, b15]
    exact ⟨_, _, rfl⟩

theorem word8_bytes (x : UInt64) :
    word8 (Go.conv x) (Go.conv (Go.shr x (8 : Int))) (Go.conv (Go.shr x (16 : Int)))
      (Go.conv (Go.shr x (24 : Int))) (Go.conv (Go.shr x (32 : Int))) (Go.conv (Go.shr x (40 : Int)))
      (Go.conv (Go.shr x (48 : Int))) (Go.conv (Go.shr x (56 : Int))) = x := by
  apply UInt64.toNat_inj.mp
  have hx := x.toNat_lt
  rw [word8_toNat]
  simp only [conv_u64_u8,
    conv_shr_u8 _ _ (by decide : (0:Int) ≤ 56) (by decide),
    conv_shr_u8 _ _ (by decide : (0:Int) ≤ 48) (by decide),
    conv_shr_u8 _ _ (by decide : (0:Int) ≤ 40) (by decide),
    conv_shr_u8 _ _ (by decide : (0:Int) ≤ 32) (by decide),
    conv_shr_u8 _ _ (by decide : (0:Int) ≤ 24) (by decide),
    conv_shr_u8 _ _ (by decide : (0:Int) ≤ 16) (by decide),
    conv_shr_u8 _ _ (by decide : (0:Int) ≤ 8) (by decide), Int.reduceToNat, Nat.reducePow]
  omega

theorem unmarshal_bytesOf (d0 d : Gen.Decimal) :
    Gen.Decimal.UnmarshalBinary d0 (bytesOf d) = .ok (d, Go.Err.nil) := by
  rw [unmarshal_eq d0 (bytesOf d) (bytesOf_size d)]
  have hlo := word8_bytes d.lo
  have hhi := word8_bytes d.hi
  have e : ∀ (lo hi : UInt64), lo = d.lo → hi = d.hi →
      (Except.ok (⟨lo, hi⟩, Go.Err.nil) : Go.GoM (Gen.Decimal × Go.Err)) = .ok (d, Go.Err.nil) := by
    intro lo hi h1 h2; subst h1; subst h2; rfl
  exact e _ _ hlo hhi

theorem array16_eq (data : Array UInt8) (h : data.size = 16) :
    data = #[data[0], data[1], data[2], data[3], data[4], data[5], data[6], data[7],
             data[8], data[9], data[10], data[11], data[12], data[13], data[14], data[15]] := by
  apply Array.ext
  · simp [h]
  · intro i h1 h2
    match i, h1, h2 with
    | 0, _, _ => rfl
    | 1, _, _ => rfl
    | 2, _, _ => rfl
    | 3, _, _ => rfl
    | 4, _, _ => rfl
    | 5, _, _ => rfl
    | 6, _, _ => rfl
    | 7, _, _ => rfl
    | 8, _, _ => rfl
    | 9, _, _ => rfl
    | 10, _, _ => rfl
    | 11, _, _ => rfl
    | 12, _, _ => rfl
    | 13, _, _ => rfl
    | 14, _, _ => rfl
    | 15, _, _ => rfl
    | n + 16, h1, _ => omega

theorem u8_eq_of_toNat (a b : UInt8) (h : a.toNat = b.toNat) : a = b := UInt8.toNat_inj.mp h

theorem word8_unbytes (b0 b1 b2 b3 b4 b5 b6 b7 : UInt8) :
    (Go.conv (word8 b0 b1 b2 b3 b4 b5 b6 b7) : UInt8) = b0 ∧
    (Go.conv (Go.shr (word8 b0 b1 b2 b3 b4 b5 b6 b7) (8 : Int)) : UInt8) = b1 ∧
    (Go.conv (Go.shr (word8 b0 b1 b2 b3 b4 b5 b6 b7) (16 : Int)) : UInt8) = b2 ∧
    (Go.conv (Go.shr (word8 b0 b1 b2 b3 b4 b5 b6 b7) (24 : Int)) : UInt8) = b3 ∧
    (Go.conv (Go.shr (word8 b0 b1 b2 b3 b4 b5 b6 b7) (32 : Int)) : UInt8) = b4 ∧
    (Go.conv (Go.shr (word8 b0 b1 b2 b3 b4 b5 b6 b7) (40 : Int)) : UInt8) = b5 ∧
    (Go.conv (Go.shr (word8 b0 b1 b2 b3 b4 b5 b6 b7) (48 : Int)) : UInt8) = b6 ∧
    (Go.conv (Go.shr (word8 b0 b1 b2 b3 b4 b5 b6 b7) (56 : Int)) : UInt8) = b7 := by
  have h0 := b0.toNat_lt; have h1 := b1.toNat_lt; have h2 := b2.toNat_lt; have h3 := b3.toNat_lt
  have h4 := b4.toNat_lt; have h5 := b5.toNat_lt; have h6 := b6.toNat_lt; have h7 := b7.toNat_lt
  have hw := word8_toNat b0 b1 b2 b3 b4 b5 b6 b7
  generalize word8 b0 b1 b2 b3 b4 b5 b6 b7 = w at *
  refine ⟨?_, ?_, ?_, ?_, ?_, ?_, ?_, ?_⟩ <;> apply u8_eq_of_toNat
  · rw [conv_u64_u8]; omega
  · rw [conv_shr_u8 _ _ (by decide) (by decide)]; simp only [Int.reduceToNat]; omega
  · rw [conv_shr_u8 _ _ (by decide) (by decide)]; simp only [Int.reduceToNat]; omega
  · rw [conv_shr_u8 _ _ (by decide) (by decide)]; simp only [Int.reduceToNat]; omega
  · rw [conv_shr_u8 _ _ (by decide) (by decide)]; simp only [Int.reduceToNat]; omega
  · rw [conv_shr_u8 _ _ (by decide) (by decide)]; simp only [Int.reduceToNat]; omega
  · rw [conv_shr_u8 _ _ (by decide) (by decide)]; simp only [Int.reduceToNat]; omega
  · rw [conv_shr_u8 _ _ (by decide) (by decide)]; simp only [Int.reduceToNat]; omega


theorem bytesOf_words (a0 a1 a2 a3 a4 a5 a6 a7 c0 c1 c2 c3 c4 c5 c6 c7 : UInt8) :
    bytesOf ⟨word8 c0 c1 c2 c3 c4 c5 c6 c7, word8 a0 a1 a2 a3 a4 a5 a6 a7⟩
      = #[a7, a6, a5, a4, a3, a2, a1, a0, c7, c6, c5, c4, c3, c2, c1, c0] := by
  obtain ⟨x0, x1, x2, x3, x4, x5, x6, x7⟩ := word8_unbytes a0 a1 a2 a3 a4 a5 a6 a7
  obtain ⟨y0, y1, y2, y3, y4, y5, y6, y7⟩ := word8_unbytes c0 c1 c2 c3 c4 c5 c6 c7
  simp only [bytesOf, x0, x1, x2, x3, x4, x5, x6, x7, y0, y1, y2, y3, y4, y5, y6, y7]

theorem bytesOf_of_unmarshal (d0 d1 : Gen.Decimal) (data : Go.Bytes) (hsz : data.size = 16)
    (h : Gen.Decimal.UnmarshalBinary d0 data = .ok (d1, Go.Err.nil)) : bytesOf d1 = data := by
  rw [unmarshal_eq d0 data hsz] at h
  injection h with h; injection h with h _
  rw [← h, bytesOf_words]
  exact (array16_eq data hsz).symm

theorem bidDecode_of_unmarshal (d0 d1 : Gen.Decimal) (data : Go.Bytes) (hsz : data.size = 16)
    (h : Gen.Decimal.UnmarshalBinary d0 data = .ok (d1, Go.Err.nil)) :
    Spec.bidDecode data = some (Spec.interp d1.lo d1.hi) := by
  rw [← bidDecode_bytesOf d1, bytesOf_of_unmarshal d0 d1 data hsz h]

theorem not_steering_of_canonical (d : Gen.Decimal)
    (hc : Spec.ieeeCanonical (Gen.Decimal.decompose d).1.toNat = true) :
    d.hi.toNat / 2^61 % 4 ≠ 3 := by
  rw [Spec.ieeeCanonical, decompose_sig_toNat] at hc
  simp only [decide_eq_true_eq, Nat.reducePow] at hc
  intro h3
  rw [if_pos (by simpa using h3)] at hc
  omega

theorem compose_not_steering (neg : Bool) (sig : U128) (exp : Int16)
    (hc : Spec.ieeeCanonical sig.toNat = true) (h0 : 0 ≤ exp.toInt) (h1 : exp.toInt ≤ 12287) :
    (Gen.compose neg sig exp).hi.toNat / 2^61 % 4 ≠ 3 := by
  rw [Spec.ieeeCanonical] at hc
  simp only [decide_eq_true_eq, Nat.reducePow] at hc
  have hs : sig.toNat ≤ Spec.Cmax := by rw [Spec.Cmax]; omega
  have hw : sig.w1.toNat < 2^49 := by rw [U128.toNat] at hc; omega
  have hw' : ¬ 2^49 ≤ sig.w1.toNat := by omega
  rw [compose_hi_toNat neg sig exp hs h0 h1]
  simp only [hw', if_false]
  cases neg <;> simp only [if_true, if_false, Bool.false_eq_true] <;> omega

/-- compose uses the steering form exactly when the coefficient needs bit 113 -/
theorem compose_steering_iff (neg : Bool) (sig : U128) (exp : Int16)
    (hs : sig.toNat ≤ Spec.Cmax) (h0 : 0 ≤ exp.toInt) (h1 : exp.toInt ≤ 12287) :
    (Gen.compose neg sig exp).hi.toNat / 2^61 % 4 = 3 ↔ 2^113 ≤ sig.toNat := by
  have hw : sig.w1.toNat < 5 * 2^47 := by
    rw [U128.toNat, Spec.Cmax] at hs; have := sig.w0.toNat_lt; omega
  have hl := sig.w0.toNat_lt
  rw [compose_hi_toNat neg sig exp hs h0 h1, U128.toNat]
  by_cases hc : 2^49 ≤ sig.w1.toNat <;> cases neg <;>
    simp only [hc, if_true, if_false, Bool.false_eq_true] <;> omega

/-- first byte of the interchange string: sign bit and the five leading combination bits -/
theorem bytesOf_first (d : Gen.Decimal) :
    (bytesOf d)[0]!.toNat / 128 = d.hi.toNat / 2^63 % 2 ∧
    (bytesOf d)[0]!.toNat / 4 % 32 = d.hi.toNat / 2^58 % 32 := by
  have hh := d.hi.toNat_lt
  have e : (bytesOf d)[0]! = (Go.conv (Go.shr d.hi (56 : Int)) : UInt8) := rfl
  rw [e, cs56]
  omega

theorem bytesOf_prefix (d : Gen.Decimal) :
    Gen.Decimal.Signbit d = decide ((bytesOf d)[0]!.toNat / 128 = 1) ∧
    Gen.Decimal.IsNaN d = decide ((bytesOf d)[0]!.toNat / 4 % 32 = 31) ∧
    Gen.Decimal.isInf d = decide ((bytesOf d)[0]!.toNat / 4 % 32 = 30) := by
  obtain ⟨h1, h2⟩ := bytesOf_first d
  rw [Signbit_eq, IsNaN_eq, isInf_eq, h1, h2]
  exact ⟨rfl, rfl, rfl⟩

end Enc
