/-
  D128/Proofs/FmtFormatNeg.lean — why `Decimal.Format` needs a non-negative width on finite values: the
  allocation `make([]byte, 0, sizeHint)` of `digits.fmtF` with the empty buffer `Format` passes.

  * `Ly.fmtF_neg_width_panic`    : `fmtF r nil prec width …` with `width < 0` and `2 + ndig + exp < 0` is
                                   `.error makeslice`
  * `Ly.formatF_neg_width_panic` : the `f`/`F` arm of `format` on a value whose digits are all rounded away
  * `Ly.format_neg_width_panic`  : `Format d st verb` for `|d| < 10^-3`, precision `< −dp`, verb `f`/`F`,
                                   a present negative width: `.error makeslice`
-/
import D128.Proofs.FmtFormatSprintf
set_option autoImplicit false
set_option maxRecDepth 4096

namespace Ly
open Dg Gen


/-- `fmtF` with an empty buffer, a negative width and a negative size hint `2 + ndig + exp` panics in
`make([]byte, 0, sizeHint)` -/
theorem fmtF_neg_width_panic (r : digits) (prec width : Int64) (fdp ps pds pr pz : Bool)
    (hw : width.toInt < 0) (hs : ((2 : Int64) + r.ndig + r.exp).toInt < 0) :
    digits.fmtF r #[] prec width fdp ps pds pr pz = .error Go.Panic.makeslice := by
  unfold digits.fmtF
  have h0 : (Go.len (#[] : Go.Bytes) == (0 : Int64)) = true := by decide
  simp only [h0, if_true]
  by_cases hc : width > (2 : Int64) + r.ndig + r.exp
  · simp only [hc, decide_true, if_true]
    have : Go.makeBytes (0 : Int) (Go.idx width) = .error Go.Panic.makeslice := by
      unfold Go.makeBytes
      rw [if_neg (by show ¬ ((0 : Int) ≤ 0 ∧ (0 : Int) ≤ width.toInt); omega)]; rfl
    rw [this]; rfl
  · simp only [hc, decide_false, Bool.false_eq_true, if_false]
    have : Go.makeBytes (0 : Int) (Go.idx ((2 : Int64) + r.ndig + r.exp)) = .error Go.Panic.makeslice := by
      unfold Go.makeBytes
      rw [if_neg (by show ¬ ((0 : Int) ≤ 0 ∧ (0 : Int) ≤ ((2 : Int64) + r.ndig + r.exp).toInt); omega)]; rfl
    rw [this]; rfl

/-- the `f`/`F` arm: when the rounding step drops every digit (`dp + precision < 0`) and `dp < -2`, the size
hint is negative and the negative width does not replace it by anything better -/
theorem formatF_neg_width_panic (r0 : digits) (h : Fin0 r0) (args : formatArgs) (width : Int64)
    (hw : width.toInt < 0) (hp : args.prec.toInt < 2 ^ 56)
    (hdp : r0.exp.toInt + r0.ndig.toInt < -2)
    (hdp' : r0.exp.toInt + r0.ndig.toInt + (if args.prec.toInt < 0 then 6 else args.prec.toInt) < 0) :
    formatF r0 #[] args (formatArgs.precision args).1 (formatArgs.precision args).2 width =
      .error Go.Panic.makeslice := by
  have hn0 := h.wf.n0
  have hn39 := h.wf.n39
  have hx0 := h.x0
  have z0 : (0 : Int64).toInt = 0 := by decide
  have e6 : (6 : Int64).toInt = 6 := by decide
  have e2' : (2 : Int64).toInt = 2 := by decide
  have hexpneg : r0.exp < 0 := by rw [i64_lt, z0]; omega
  have hsum : (r0.ndig + r0.exp).toInt = r0.ndig.toInt + r0.exp.toInt :=
    i64_add _ _ (by omega) (by omega)
  -- the rounding step drops every digit
  have key : ∀ P : Int64, 0 ≤ P.toInt → P.toInt < 2 ^ 56 →
      r0.exp.toInt + r0.ndig.toInt + P.toInt < 0 → ∀ (fdp ps pds pr pz : Bool),
      (do let r ← digits.round r0 (r0.ndig + r0.exp + P)
          let x ← digits.fmtF r #[] P width fdp ps pds pr pz
          pure (args, x.2) : Go.GoM (formatArgs × Go.Bytes)) = .error Go.Panic.makeslice := by
    intro P hP0 hP1 hlt fdp ps pds pr pz
    have hq : (r0.ndig + r0.exp + P).toInt = r0.ndig.toInt + r0.exp.toInt + P.toInt := by
      rw [i64_add _ _ (by omega) (by omega), hsum]
    obtain ⟨r, hr, _, _, h3, _⟩ := round_ok r0 (r0.ndig + r0.exp + P) h.wf h.expOK
    have hr' := h3 (by omega)
    rw [hr, ok_bind, fmtF_neg_width_panic r P width fdp ps pds pr pz hw (by
      rw [hr']
      show ((2 : Int64) + 0 + (r0.exp + r0.ndig)).toInt < 0
      have a1 : (r0.exp + r0.ndig).toInt = r0.exp.toInt + r0.ndig.toInt :=
        i64_add _ _ (by omega) (by omega)
      have a2 : ((2 : Int64) + 0).toInt = 2 := by decide
      rw [i64_add _ _ (by omega) (by omega), a2, a1]; omega)]
    rfl
  unfold formatF
  rw [precision_eq]
  by_cases hn : args.prec < 0
  · have hn' : args.prec.toInt < 0 := by rw [i64_lt, z0] at hn; exact hn
    rw [if_pos hn'] at hdp'
    simp only [hn, if_true, Bool.not_false, hexpneg, decide_true]
    exact key 6 (by decide) (by decide) (by rw [e6]; omega) _ _ _ _ _
  · have hn' : ¬ args.prec.toInt < 0 := by rw [i64_lt, z0] at hn; exact hn
    rw [if_neg hn'] at hdp'
    simp only [hn, if_false, Bool.not_true, Bool.false_eq_true, hexpneg, decide_true, if_true]
    exact key args.prec (by omega) hp hdp' _ _ _ _ _
/-- **a negative width makes `Format` panic** on small finite values under `%f` -/
theorem format_neg_width_panic (d : Decimal) (st : Go.FmtState) (verb : Int32)
    (hfin : Decimal.isSpecial d = false)
    (hv : (Go.conv verb : UInt8) = 102 ∨ (Go.conv verb : UInt8) = 70) (hlt : verb < 128)
    (w : Int64) (hw : st.wid = some w) (hneg : w.toInt < 0)
    (hprec : ∀ p, st.prec = some p → p.toInt < 2 ^ 56)
    (hdp : (Spec.sliceOf (coefOf d) (expoOf d)).dp < -2)
    (hdp' : (Spec.sliceOf (coefOf d) (expoOf d)).dp + ((precSt st).getD 6 : Nat) < 0) :
    Decimal.Format d st verb = .error Go.Panic.makeslice := by
  obtain ⟨r0, hr0, hwf, _, hs, hx0, hdpp, hz⟩ := digits_fin d (default : digits) hfin
  replace hs : slice r0 = Spec.sliceOf (coefOf d) (expoOf d) := hs
  have hsdp : (slice r0).dp = r0.exp.toInt + r0.ndig.toInt := rfl
  rw [← hs, hsdp] at hdp hdp'
  have hwd : formatArgs.width (argsOf st verb) = w := by
    show widOf st = w
    unfold widOf; rw [hw]
  have hpl := precOfSt_lt st hprec
  rw [Format_ascii d st verb hfin hlt, format_F d #[] (argsOf st verb) hv, hr0, hwd]
  simp only [ok_bind]
  rw [formatF_neg_width_panic r0 ⟨hwf, hx0, hdpp, hz⟩ (argsOf st verb) w hneg hpl hdp (by
    rw [← precOf_argsOf st verb] at hdp'
    unfold precOf at hdp'
    show r0.exp.toInt + r0.ndig.toInt + (if (argsOf st verb).prec.toInt < 0 then 6 else (argsOf st verb).prec.toInt) < 0
    split
    · rename_i hlt; rw [if_pos hlt] at hdp'; simpa using hdp'
    · rename_i hlt; rw [if_neg hlt] at hdp'
      simp only [Option.getD_some] at hdp'
      omega)]
  rfl
end Ly
