/-
  D128/Proofs/QuoRemAccum.lean — the two outer loops of `Gen.Decimal.QuoRemWithMode`
  (`l2Body`: quotient digits are accumulated; `l3Body`: only the remainder continues), with the
  long-division invariant `QR.LD` of `QuoRemMath.lean`.

  Provided (namespace `QR`):
  * `i16_pass`   : a variable that is decremented together with `exp` (`a' - e' = a - e` in `Int16`)
  * `l2Loop`     : from `LD T O exp sig rem 0 exp` the accumulating loop terminates without panic in a
                   state with `LD T O exp' sig' rem' trunc' (qexp' - 6176)` and
                   `¬ (0 < exp' ∧ rem' ≠ 0 ∧ sig' ≤ Cmax)`
  * `l3Loop`     : from `LD …` and `(0 < exp ∧ rem ≠ 0 → Cmax < sig)` the remainder-only loop
                   terminates without panic in a state with `LD …` and `¬ (0 < exp' ∧ rem' ≠ 0)`
-/
import D128.Proofs.QuoRemLoops
import D128.Proofs.QuoRemMath
import D128.Proofs.Words128Div

set_option autoImplicit false
set_option maxRecDepth 8192
set_option linter.unusedVariables false
set_option linter.unusedSimpArgs false

namespace QR
open Gen

theorem i16_pass (a a' e e' : Int16) (h : a' - e' = a - e)
    (h1 : -32768 ≤ a.toInt - e.toInt) (h2 : a.toInt - e.toInt < 32768)
    (h3 : -32768 ≤ a.toInt - e.toInt + e'.toInt) (h4 : a.toInt - e.toInt + e'.toInt < 32768) :
    a'.toInt = a.toInt - e.toInt + e'.toInt := by
  have e1 : a' = a - e + e' := by grind
  have e2 : (a - e).toInt = a.toInt - e.toInt := Int16.toInt_sub_of _ _ h1 h2
  rw [e1, Int16.toInt_add_of _ _ (by rw [e2]; exact h3) (by rw [e2]; exact h4), e2]

theorem u192_low (x : U192) (h : x.toNat < 2 ^ 128) :
    ({ w0 := x.w0, w1 := x.w1 } : U128).toNat = x.toNat := by
  have := D128.Proofs.WordsWide.U192.bounds x
  simp only [U128.toNat, U192.toNat] at *
  omega

theorem u128_add192 (a b : U128) : (U128.add a b).toNat = a.toNat + b.toNat := U128_add_toNat a b

theorem Cmax_lt_B18 : Spec.Cmax < B18 := by rw [RK.Cmax_val]; decide
theorem Cmax_lt_div : Spec.Cmax < 2 ^ 128 / 10 := by rw [RK.Cmax_val]; decide

/-- the loop condition of `l2Body` on the abstract state -/
theorem l2_cond (exp : Int16) (sig rem : U128) :
    (decide (exp > 0) && rem.w0 ||| rem.w1 != 0 && decide (sig.w1 ≤ 703687441776639)) =
    decide (0 < exp.toInt ∧ rem.toNat ≠ 0 ∧ sig.toNat ≤ Spec.Cmax) := by
  rw [i16_gt_0, RK.U128_or_ne_zero, w1_le_27, Bool.eq_iff_iff]
  simp only [Bool.and_eq_true, decide_eq_true_eq, RK.Cmax_val, B27]
  omega

theorem l2Loop (oS : U128) (T : Nat) (cr : Int16) (s : M6)
    (hO : oS.toNat ≤ Spec.Cmax ∨ s.1.toInt = 0)
    (he0 : 0 ≤ s.1.toInt) (he1 : s.1.toInt ≤ 12287)
    (hq : s.2.1.toInt = s.1.toInt + 6176) (hr : s.2.2.1 - s.1 = cr)
    (hLD : LD T oS.toNat s.1.toInt.toNat s.2.2.2.1.toNat s.2.2.2.2.1.toNat s.2.2.2.2.2
      s.1.toInt.toNat) :
    ∃ s' : M6, forIn (m := Go.GoM) Lean.Loop.mk s (l2Body oS) = .ok s' ∧
      0 ≤ s'.1.toInt ∧ s'.1.toInt ≤ s.1.toInt ∧ s'.2.2.1 - s'.1 = cr ∧
      s'.1.toInt + 6176 ≤ s'.2.1.toInt ∧ s'.2.1.toInt ≤ s'.1.toInt + 6196 ∧
      LD T oS.toNat s'.1.toInt.toNat s'.2.2.2.1.toNat s'.2.2.2.2.1.toNat s'.2.2.2.2.2
        (s'.2.1.toInt - 6176).toNat ∧
      ¬ (0 < s'.1.toInt ∧ s'.2.2.2.2.1.toNat ≠ 0 ∧ s'.2.2.2.1.toNat ≤ Spec.Cmax) := by
  have hCm := RK.Cmax_val
  apply RK.loop_inv (l2Body oS)
    (fun b : M6 => 0 ≤ b.1.toInt ∧ b.1.toInt ≤ s.1.toInt ∧ b.2.2.1 - b.1 = cr ∧
      b.1.toInt + 6176 ≤ b.2.1.toInt ∧ b.2.1.toInt ≤ b.1.toInt + 6196 ∧
      LD T oS.toNat b.1.toInt.toNat b.2.2.2.1.toNat b.2.2.2.2.1.toNat b.2.2.2.2.2
        (b.2.1.toInt - 6176).toNat)
    (fun b : M6 => 0 ≤ b.1.toInt ∧ b.1.toInt ≤ s.1.toInt ∧ b.2.2.1 - b.1 = cr ∧
      b.1.toInt + 6176 ≤ b.2.1.toInt ∧ b.2.1.toInt ≤ b.1.toInt + 6196 ∧
      LD T oS.toNat b.1.toInt.toNat b.2.2.2.1.toNat b.2.2.2.2.1.toNat b.2.2.2.2.2
        (b.2.1.toInt - 6176).toNat ∧
      ¬ (0 < b.1.toInt ∧ b.2.2.2.2.1.toNat ≠ 0 ∧ b.2.2.2.1.toNat ≤ Spec.Cmax))
    (fun b : M6 => b.1.toInt.toNat) ?_ s
    ⟨he0, le_refl _, hr, by omega, by omega, by
      have : (s.2.1.toInt - 6176).toNat = s.1.toInt.toNat := by omega
      rw [this]; exact hLD⟩
  rintro ⟨exp, qexp, rexp, sig, rem, trunc⟩ ⟨hb0, hb1, hbr, hbq0, hbq1, hbLD⟩
  simp only at hb0 hb1 hbr hbq0 hbq1 hbLD
  by_cases hc : 0 < exp.toInt ∧ rem.toNat ≠ 0 ∧ sig.toNat ≤ Spec.Cmax
  · left
    obtain ⟨hc1, hc2, hc3⟩ := hc
    have hOC : oS.toNat ≤ Spec.Cmax := by
      rcases hO with h | h
      · exact h
      · omega
    have hremlt := ld_rem_lt _ _ _ _ _ _ _ hbLD
    obtain ⟨htr0, hK⟩ := ld_small _ _ _ _ _ _ _ hbLD hc3
    have hqexp : qexp.toInt = exp.toInt + 6176 := by omega
    subst htr0
    -- the two scaling loops
    obtain ⟨s1, m1, e1, h1e, h1s, h1r, h1q, h1x, h1m⟩ := m4Loop (exp, qexp, rexp, sig, rem)
    obtain ⟨s2, m2, e2, h2e, h2s, h2r, h2q, h2x, h2m, h2exit⟩ :=
      m1Loop (s1.1, s1.2.1, s1.2.2.1, s1.2.2.2.1, s1.2.2.2.2)
    simp only at h1e h1s h1r h1q h1x h1m h2e h2s h2r h2q h2x h2m
    have hk : (m1 + m2 : Int) ≤ exp.toInt := by omega
    have hexp2 : s2.1.toInt = exp.toInt - ((m1 + m2 : Nat) : Int) := by push_cast; omega
    have hsig2 : s2.2.2.2.1.toNat = sig.toNat * 10 ^ (m1 + m2) := by
      rw [h2s, h1s, Nat.pow_add, Nat.mul_assoc]
    have hrem2 : s2.2.2.2.2.toNat = rem.toNat * 10 ^ (m1 + m2) := by
      rw [h2r, h1r, Nat.pow_add, Nat.mul_assoc]
    have hqp : s2.2.1 - s2.1 = qexp - exp := h2q.trans h1q
    have hrp : s2.2.2.1 - s2.1 = rexp - exp := h2x.trans h1x
    have hqexp2 : s2.2.1.toInt = s2.1.toInt + 6176 := by
      have := i16_pass _ _ _ _ hqp (by omega) (by omega) (by omega) (by omega)
      omega
    -- progress
    have hkpos : 0 < m1 + m2 := by
      by_contra h0
      have hm1 : m1 = 0 := by omega
      have hm2 : m2 = 0 := by omega
      apply h2exit
      rw [hsig2, hrem2, hexp2, hm1, hm2]
      simp only [Nat.add_zero, Nat.pow_zero, Nat.mul_one, Nat.cast_zero, sub_zero]
      have := Cmax_lt_B18
      exact ⟨hc1, by omega, by omega⟩
    -- division and sum
    have hOne : oS.toNat ≠ 0 := by omega
    obtain ⟨tq, tr, ediv, htq, htr⟩ := U128_div_spec s2.2.2.2.2 oS hOne
    have hsum : (U128.add s2.2.2.2.1 tq).toNat = s2.2.2.2.1.toNat + tq.toNat := U128_add_toNat _ _
    obtain ⟨s3, j, e3, hj, h3s, h3lt, h3e, h3t, h3j⟩ :=
      dropLoop (s2.2.1, (0 : Int8), U128.add s2.2.2.2.1 tq) (by show s2.2.1.toInt ≤ 30000; omega)
    simp only at h3s h3lt h3e h3t h3j
    refine ⟨(s2.1, s3.1, s2.2.2.1, { w0 := s3.2.2.w0, w1 := s3.2.2.w1 }, tr, s3.2.1), ?_, ?_, ?_⟩
    · simp only [l2Body, l2_cond, hc1, hc2, hc3, ne_eq, not_false_eq_true, and_self, decide_true,
        if_true, e1, RK.ok_bind, e2, ediv, e3]
      rfl
    · have hx : (s2.1.toInt.toNat) = exp.toInt.toNat - (m1 + m2) := by omega
      have hstep := ld_step2 T oS.toNat exp.toInt.toNat sig.toNat rem.toNat _ (m1 + m2) j hbLD hc3
        (by omega) (by
          rcases h3j with h | h
          · exact Or.inl h
          · right
            rw [h3s, hsum, hsig2, htq, hrem2] at h
            have := Cmax_lt_div
            omega)
      refine ⟨by show 0 ≤ s2.1.toInt; omega, by show s2.1.toInt ≤ s.1.toInt; omega, ?_, ?_, ?_, ?_⟩
      · show s2.2.2.1 - s2.1 = cr
        rw [hrp]; exact hbr
      · show s2.1.toInt + 6176 ≤ s3.1.toInt
        rw [h3e]; omega
      · show s3.1.toInt ≤ s2.1.toInt + 6196
        rw [h3e]; omega
      · show LD T oS.toNat s2.1.toInt.toNat ({ w0 := s3.2.2.w0, w1 := s3.2.2.w1 } : U128).toNat
          tr.toNat s3.2.1 (s3.1.toInt - 6176).toNat
        rw [u192_low _ h3lt, h3s, hsum, hsig2, htq, hrem2, htr, hrem2, h3t, hsum, hsig2, htq, hrem2,
          hx]
        have hK' : (s3.1.toInt - 6176).toNat = exp.toInt.toNat - (m1 + m2) + j := by
          rw [h3e]; omega
        rw [hK']
        exact hstep
    · show s2.1.toInt.toNat < exp.toInt.toNat
      omega
  · right
    refine ⟨(exp, qexp, rexp, sig, rem, trunc), ?_, hb0, hb1, hbr, hbq0, hbq1, hbLD, hc⟩
    simp only [l2Body, l2_cond, hc, decide_false, Bool.false_eq_true, if_false]
    rfl

/-- the loop condition of `l3Body` on the abstract state -/
theorem l3_cond (exp : Int16) (rem : U128) :
    (decide (exp > 0) && rem.w0 ||| rem.w1 != 0) = decide (0 < exp.toInt ∧ rem.toNat ≠ 0) := by
  rw [i16_gt_0, RK.U128_or_ne_zero, Bool.eq_iff_iff]
  simp only [Bool.and_eq_true, decide_eq_true_eq]
  omega

theorem l3Loop_run (oS : U128) (T : Nat) (cr : Int16) (sig K : Nat) (s : R4)
    (hO : oS.toNat ≤ Spec.Cmax ∨ s.1.toInt = 0) (hs : Spec.Cmax < sig)
    (he0 : 0 ≤ s.1.toInt) (he1 : s.1.toInt ≤ 12287) (hr : s.2.1 - s.1 = cr)
    (hLD : LD T oS.toNat s.1.toInt.toNat sig s.2.2.1.toNat s.2.2.2 K) :
    ∃ s' : R4, forIn (m := Go.GoM) Lean.Loop.mk s (l3Body oS) = .ok s' ∧
      0 ≤ s'.1.toInt ∧ s'.1.toInt ≤ s.1.toInt ∧ s'.2.1 - s'.1 = cr ∧
      LD T oS.toNat s'.1.toInt.toNat sig s'.2.2.1.toNat s'.2.2.2 K ∧
      ¬ (0 < s'.1.toInt ∧ s'.2.2.1.toNat ≠ 0) := by
  have hCm := RK.Cmax_val
  apply RK.loop_inv (l3Body oS)
    (fun b : R4 => 0 ≤ b.1.toInt ∧ b.1.toInt ≤ s.1.toInt ∧ b.2.1 - b.1 = cr ∧
      LD T oS.toNat b.1.toInt.toNat sig b.2.2.1.toNat b.2.2.2 K)
    (fun b : R4 => 0 ≤ b.1.toInt ∧ b.1.toInt ≤ s.1.toInt ∧ b.2.1 - b.1 = cr ∧
      LD T oS.toNat b.1.toInt.toNat sig b.2.2.1.toNat b.2.2.2 K ∧
      ¬ (0 < b.1.toInt ∧ b.2.2.1.toNat ≠ 0))
    (fun b : R4 => b.1.toInt.toNat) ?_ s ⟨he0, le_refl _, hr, hLD⟩
  rintro ⟨exp, rexp, rem, trunc⟩ ⟨hb0, hb1, hbr, hbLD⟩
  simp only at hb0 hb1 hbr hbLD
  by_cases hc : 0 < exp.toInt ∧ rem.toNat ≠ 0
  · left
    obtain ⟨hc1, hc2⟩ := hc
    have hOC : oS.toNat ≤ Spec.Cmax := by
      rcases hO with h | h
      · exact h
      · omega
    have hremlt := ld_rem_lt _ _ _ _ _ _ _ hbLD
    obtain ⟨s1, m1, e1, h1e, h1r, h1x, h1m⟩ := r4Loop (exp, rexp, rem)
    obtain ⟨s2, m2, e2, h2e, h2r, h2x, h2m, h2exit⟩ := r1Loop (s1.1, s1.2.1, s1.2.2)
    simp only at h1e h1r h1x h1m h2e h2r h2x h2m
    have hk : (m1 + m2 : Int) ≤ exp.toInt := by omega
    have hexp2 : s2.1.toInt = exp.toInt - ((m1 + m2 : Nat) : Int) := by push_cast; omega
    have hrem2 : s2.2.2.toNat = rem.toNat * 10 ^ (m1 + m2) := by
      rw [h2r, h1r, Nat.pow_add, Nat.mul_assoc]
    have hrp : s2.2.1 - s2.1 = rexp - exp := h2x.trans h1x
    have hkpos : 0 < m1 + m2 := by
      by_contra h0
      have hm1 : m1 = 0 := by omega
      have hm2 : m2 = 0 := by omega
      apply h2exit
      rw [hrem2, hexp2, hm1, hm2]
      simp only [Nat.add_zero, Nat.pow_zero, Nat.mul_one, Nat.cast_zero, sub_zero]
      have := Cmax_lt_B18
      exact ⟨hc1, by omega⟩
    have hOne : oS.toNat ≠ 0 := by omega
    obtain ⟨tq, tr, ediv, htq, htr⟩ := U128_div_spec s2.2.2 oS hOne
    refine ⟨(s2.1, s2.2.1, tr, (if (tq.w0 ||| tq.w1 != 0) = true then 1 else trunc)), ?_, ?_, ?_⟩
    · simp only [l3Body, l3_cond, hc1, hc2, ne_eq, not_false_eq_true, and_self, decide_true,
        if_true, e1, RK.ok_bind, e2, ediv]
      by_cases ht : (tq.w0 ||| tq.w1 != 0) = true
      · simp only [ht, if_true]; rfl
      · simp only [ht]; rfl
    · have hx : (s2.1.toInt.toNat) = exp.toInt.toNat - (m1 + m2) := by omega
      have hstep := ld_step3 T oS.toNat exp.toInt.toNat sig rem.toNat trunc K (m1 + m2) hbLD hs
        (by omega)
      refine ⟨by show 0 ≤ s2.1.toInt; omega, by show s2.1.toInt ≤ s.1.toInt; omega, ?_, ?_⟩
      · show s2.2.1 - s2.1 = cr
        rw [hrp]; exact hbr
      · show LD T oS.toNat s2.1.toInt.toNat sig tr.toNat
          (if (tq.w0 ||| tq.w1 != 0) = true then 1 else trunc) K
        rw [RK.U128_or_ne_zero, htr, htq, hrem2, hx]
        simp only [decide_eq_true_eq]
        exact hstep
    · show s2.1.toInt.toNat < exp.toInt.toNat
      omega
  · right
    refine ⟨(exp, rexp, rem, trunc), ?_, hb0, hb1, hbr, hbLD, hc⟩
    simp only [l3Body, l3_cond, hc, decide_false, Bool.false_eq_true, if_false]
    rfl

theorem l3Loop (oS : U128) (T : Nat) (cr : Int16) (sig K : Nat) (s : R4)
    (hO : oS.toNat ≤ Spec.Cmax ∨ s.1.toInt = 0)
    (hs : (0 < s.1.toInt ∧ s.2.2.1.toNat ≠ 0) → Spec.Cmax < sig)
    (he0 : 0 ≤ s.1.toInt) (he1 : s.1.toInt ≤ 12287) (hr : s.2.1 - s.1 = cr)
    (hLD : LD T oS.toNat s.1.toInt.toNat sig s.2.2.1.toNat s.2.2.2 K) :
    ∃ s' : R4, forIn (m := Go.GoM) Lean.Loop.mk s (l3Body oS) = .ok s' ∧
      0 ≤ s'.1.toInt ∧ s'.1.toInt ≤ s.1.toInt ∧ s'.2.1 - s'.1 = cr ∧
      LD T oS.toNat s'.1.toInt.toNat sig s'.2.2.1.toNat s'.2.2.2 K ∧
      ¬ (0 < s'.1.toInt ∧ s'.2.2.1.toNat ≠ 0) := by
  by_cases hc : 0 < s.1.toInt ∧ s.2.2.1.toNat ≠ 0
  · exact l3Loop_run oS T cr sig K s hO (hs hc) he0 he1 hr hLD
  · refine ⟨s, ?_, he0, le_refl _, hr, hLD, hc⟩
    rw [Go.loop_unfold]
    obtain ⟨exp, rexp, rem, trunc⟩ := s
    simp only [l3Body, l3_cond, hc, decide_false, Bool.false_eq_true, if_false]
    rfl

end QR
