/-
  D128.Proofs.TotalBase — vocabulary for the totality proofs of the `decomposed192` layer (C20).

  Word tests of the generated code, re-expressed on `toNat` (so that `omega` can close the
  verification conditions produced by `mvcgen`):
  * `U384.w5_pos/w5_zero/w4_pos/w4_zero/low256`
  * `U256.w3_le/w3_lt/w3_pos/w3_zero/low192`
  * `U192.w2_le/le_w2/w2_lt/lt_w2/w2_zero/or_zero/toNat_mk`
  * `ok_of_triple'` : a triple with a pure precondition gives `∃ r, f = .ok r ∧ Q r`
  * tactic `d192_norm` (the `simp only` set) and `d192_close` (`d192_norm; omega`).
-/
import D128.Gen.Decomposed
import D128.Proofs.WordsWideMul
import D128.Proofs.WordsWideMsd2
import D128.Proofs.WordsWideShift
import D128.Proofs.Words128
import Mathlib.Tactic.CasesM
import Mathlib.Tactic.Tauto

set_option autoImplicit false
set_option exponentiation.threshold 512

namespace D128.Proofs.Total
open Std.Do
open D128.Proofs.WordsWide

theorem u64_pos_iff (x : UInt64) : 0 < x ↔ 0 < x.toNat := by
  rw [UInt64.lt_iff_toNat_lt]; rfl

theorem u64_zero_iff (x : UInt64) : x = 0 ↔ x.toNat = 0 := by
  rw [← UInt64.toNat_inj]; rfl

theorem u64_sub_toNat (a b : UInt64) (h : b.toNat ≤ a.toNat) : (a - b).toNat = a.toNat - b.toNat :=
  UInt64.toNat_sub_of_le _ _ (UInt64.le_iff_toNat_le.2 h)

theorem u64_add_toNat (a b : UInt64) (h : a.toNat + b.toNat < 2^64) : (a + b).toNat = a.toNat + b.toNat := by
  rw [UInt64.toNat_add]; exact Nat.mod_eq_of_lt h

/-! ### U384 -/

theorem U384.w5_pos (n : U384) : 0 < n.w5 ↔ 2^320 ≤ n.toNat := by
  have := n.w0.toNat_lt; have := n.w1.toNat_lt; have := n.w2.toNat_lt; have := n.w3.toNat_lt
  have := n.w4.toNat_lt
  rw [u64_pos_iff]; simp only [U384.toNat]; omega

theorem U384.w5_zero (n : U384) : n.w5 = 0 ↔ n.toNat < 2^320 := by
  have := n.w0.toNat_lt; have := n.w1.toNat_lt; have := n.w2.toNat_lt; have := n.w3.toNat_lt
  have := n.w4.toNat_lt
  rw [u64_zero_iff]; simp only [U384.toNat]; omega

theorem U384.w4_pos (n : U384) : 0 < n.w4 ↔ 2^256 ≤ n.toNat % 2^320 := by
  have := n.w0.toNat_lt; have := n.w1.toNat_lt; have := n.w2.toNat_lt; have := n.w3.toNat_lt
  have := n.w4.toNat_lt
  rw [u64_pos_iff]; simp only [U384.toNat]; omega

theorem U384.w4_zero (n : U384) : n.w4 = 0 ↔ n.toNat % 2^320 < 2^256 := by
  have := n.w0.toNat_lt; have := n.w1.toNat_lt; have := n.w2.toNat_lt; have := n.w3.toNat_lt
  have := n.w4.toNat_lt
  rw [u64_zero_iff]; simp only [U384.toNat]; omega

theorem U384.low256 (n : U384) : (U256.mk n.w0 n.w1 n.w2 n.w3).toNat = n.toNat % 2^256 := by
  have := n.w0.toNat_lt; have := n.w1.toNat_lt; have := n.w2.toNat_lt; have := n.w3.toNat_lt
  simp only [U384.toNat, U256.toNat]; omega

/-! ### U256 -/

theorem U256.w3_le (n : U256) (c : UInt64) : c ≤ n.w3 ↔ c.toNat * 2^192 ≤ n.toNat := by
  have := n.w0.toNat_lt; have := n.w1.toNat_lt; have := n.w2.toNat_lt
  rw [UInt64.le_iff_toNat_le]; simp only [U256.toNat]; omega

theorem U256.w3_lt (n : U256) (c : UInt64) : n.w3 < c ↔ n.toNat < c.toNat * 2^192 := by
  have := n.w0.toNat_lt; have := n.w1.toNat_lt; have := n.w2.toNat_lt
  rw [UInt64.lt_iff_toNat_lt]; simp only [U256.toNat]; omega

theorem U256.w3_pos (n : U256) : 0 < n.w3 ↔ 2^192 ≤ n.toNat := by
  have := n.w0.toNat_lt; have := n.w1.toNat_lt; have := n.w2.toNat_lt
  rw [u64_pos_iff]; simp only [U256.toNat]; omega

theorem U256.w3_zero (n : U256) : n.w3 = 0 ↔ n.toNat < 2^192 := by
  have := n.w0.toNat_lt; have := n.w1.toNat_lt; have := n.w2.toNat_lt
  rw [u64_zero_iff]; simp only [U256.toNat]; omega

theorem U256.low192 (n : U256) : (U192.mk n.w0 n.w1 n.w2).toNat = n.toNat % 2^192 := by
  have := n.w0.toNat_lt; have := n.w1.toNat_lt; have := n.w2.toNat_lt
  simp only [U192.toNat, U256.toNat]; omega

/-! ### U192 -/

theorem U192.w2_le (n : U192) (c : UInt64) : n.w2 ≤ c ↔ n.toNat < (c.toNat + 1) * 2^128 := by
  have := n.w0.toNat_lt; have := n.w1.toNat_lt
  rw [UInt64.le_iff_toNat_le]; simp only [U192.toNat]; omega

theorem U192.le_w2 (n : U192) (c : UInt64) : c ≤ n.w2 ↔ c.toNat * 2^128 ≤ n.toNat := by
  have := n.w0.toNat_lt; have := n.w1.toNat_lt
  rw [UInt64.le_iff_toNat_le]; simp only [U192.toNat]; omega

theorem U192.w2_lt (n : U192) (c : UInt64) : n.w2 < c ↔ n.toNat < c.toNat * 2^128 := by
  have := n.w0.toNat_lt; have := n.w1.toNat_lt
  rw [UInt64.lt_iff_toNat_lt]; simp only [U192.toNat]; omega

theorem U192.lt_w2 (n : U192) (c : UInt64) : c < n.w2 ↔ (c.toNat + 1) * 2^128 ≤ n.toNat := by
  have := n.w0.toNat_lt; have := n.w1.toNat_lt
  rw [UInt64.lt_iff_toNat_lt]; simp only [U192.toNat]; omega

theorem U192.w2_zero (n : U192) : n.w2 = 0 ↔ n.toNat < 2^128 := by
  have := n.w0.toNat_lt; have := n.w1.toNat_lt
  rw [u64_zero_iff]; simp only [U192.toNat]; omega

theorem u64_or_zero (a b : UInt64) : a ||| b = 0 ↔ a = 0 ∧ b = 0 := by
  constructor
  · intro h
    have h' : (a ||| b).toNat = 0 := by rw [h]; rfl
    rw [UInt64.toNat_or] at h'
    have ha : a.toNat = 0 := Nat.eq_zero_of_le_zero (h' ▸ Nat.left_le_or)
    have hb : b.toNat = 0 := Nat.eq_zero_of_le_zero (h' ▸ Nat.right_le_or)
    exact ⟨(u64_zero_iff a).2 ha, (u64_zero_iff b).2 hb⟩
  · rintro ⟨rfl, rfl⟩; rfl

theorem U192.or_zero (n : U192) : ((n.w0 ||| n.w1) ||| n.w2) = 0 ↔ n.toNat = 0 := by
  rw [u64_or_zero, u64_or_zero, u64_zero_iff, u64_zero_iff, u64_zero_iff]
  simp only [U192.toNat]; omega

theorem U192.and_zero (n : U192) : ((n.w0 = 0 ∧ n.w1 = 0) ∧ n.w2 = 0) ↔ n.toNat = 0 := by
  rw [u64_zero_iff, u64_zero_iff, u64_zero_iff]
  simp only [U192.toNat]; omega

theorem U192.imp_nonzero (n : U192) : (n.w0 = 0 → n.w1 = 0 → ¬ n.w2 = 0) ↔ ¬ n.toNat = 0 := by
  rw [u64_zero_iff, u64_zero_iff, u64_zero_iff]
  simp only [U192.toNat]; omega

theorem U192_sub_snd_zero (n o : U192) : (Gen.U192.sub n o).2 = 0 ↔ o.toNat ≤ n.toNat := by
  rw [U192_sub_snd]; split <;> simp <;> omega

theorem U128.or_zero (n : U128) : (n.w0 ||| n.w1) = 0 ↔ n.toNat = 0 := by
  rw [u64_or_zero, u64_zero_iff, u64_zero_iff]
  have := n.w0.toNat_lt
  simp only [U128.toNat]; omega

theorem U128.and_zero (n : U128) : (n.w0 = 0 ∧ n.w1 = 0) ↔ n.toNat = 0 := by
  rw [u64_zero_iff, u64_zero_iff]
  have := n.w0.toNat_lt
  simp only [U128.toNat]; omega

theorem U128.imp_nonzero (n : U128) : (n.w0 = 0 → ¬ n.w1 = 0) ↔ ¬ n.toNat = 0 := by
  rw [u64_zero_iff, u64_zero_iff]
  have := n.w0.toNat_lt
  simp only [U128.toNat]; omega

/-- a 128-bit value widened to 192 bits -/
theorem U192.of128 (n : U128) : (U192.mk n.w0 n.w1 0).toNat = n.toNat := by
  simp [U192.toNat, U128.toNat]

theorem U192.toNat_mk (a b c : UInt64) :
    (U192.mk a b c).toNat = a.toNat + b.toNat * 2^64 + c.toNat * 2^128 := rfl

theorem U256.toNat_mk (a b c d : UInt64) :
    (U256.mk a b c d).toNat = a.toNat + b.toNat * 2^64 + c.toNat * 2^128 + d.toNat * 2^192 := rfl

theorem U128.default_eq : (default : U128) = ⟨0, 0⟩ := rfl
theorem U192.default_eq : (default : U192) = ⟨0, 0, 0⟩ := rfl
theorem U256.default_eq : (default : U256) = ⟨0, 0, 0, 0⟩ := rfl

/-- `1 << x` as a word is zero exactly for shift counts beyond the width -/
theorem shl_one_zero_iff (x : UInt64) :
    (Go.shl (1 : UInt64) (Go.idx x)).toNat = 0 ↔ 64 ≤ x.toNat := by
  rw [shl_toNat]
  simp only [UInt64.toNat_one, Nat.one_mul]
  constructor
  · intro h
    by_contra hlt
    have hlt' : x.toNat < 64 := by omega
    have : 2 ^ x.toNat < 2 ^ 64 := Nat.pow_lt_pow_right (by norm_num) hlt'
    rw [Nat.mod_eq_of_lt this] at h
    have := Nat.two_pow_pos x.toNat
    omega
  · intro h
    have h2 : (2:Nat)^x.toNat = 2^64 * 2^(x.toNat - 64) := by
      rw [← Nat.pow_add]; congr 1; omega
    rw [h2, Nat.mul_mod_right]

theorem shl_one_zero_iff' (x : UInt64) :
    (Go.shl (1 : UInt64) ((x.toNat : Nat) : Int)).toNat = 0 ↔ 64 ≤ x.toNat :=
  shl_one_zero_iff x

/-! ### fixed-width signed arithmetic without wrap -/

theorem bmod64_id (x : Int) (h0 : -2^63 ≤ x) (h1 : x < 2^63) : x.bmod (2^64) = x := by
  apply Int.bmod_eq_of_le <;> simp only [Nat.reducePow] at * <;> omega

theorem bmod16_id (x : Int) (h0 : -2^15 ≤ x) (h1 : x < 2^15) : x.bmod (2^16) = x := by
  apply Int.bmod_eq_of_le <;> simp only [Nat.reducePow] at * <;> omega

theorem i64_sub_toInt (a b : Int64) (h0 : -2^63 ≤ a.toInt - b.toInt) (h1 : a.toInt - b.toInt < 2^63) :
    (a - b).toInt = a.toInt - b.toInt := by
  rw [Int64.toInt_sub]; exact bmod64_id _ h0 h1

theorem i64_div_two_toInt (p : Int64) (h : 0 ≤ p.toInt) : (p / 2).toInt = p.toInt / 2 := by
  have h2 : (2 : Int64).toInt = 2 := rfl
  have := p.toInt_lt
  rw [Int64.toInt_div, h2, Int.tdiv_eq_ediv_of_nonneg h]
  exact bmod64_id _ (by omega) (by omega)

theorem i16_add_toInt (a b : Int16) (h0 : -2^15 ≤ a.toInt + b.toInt) (h1 : a.toInt + b.toInt < 2^15) :
    (a + b).toInt = a.toInt + b.toInt := by
  rw [Int16.toInt_add]; exact bmod16_id _ h0 h1

theorem i16_sub_toInt (a b : Int16) (h0 : -2^15 ≤ a.toInt - b.toInt) (h1 : a.toInt - b.toInt < 2^15) :
    (a - b).toInt = a.toInt - b.toInt := by
  rw [Int16.toInt_sub]; exact bmod16_id _ h0 h1

theorem i16_neg_toInt (a : Int16) (h : -2^15 < a.toInt) : (-a).toInt = -a.toInt := by
  have := a.toInt_lt
  rw [Int16.toInt_neg]; exact bmod16_id _ (by omega) (by omega)

/-- variants whose side condition may use the intrinsic ranges of the operands (for `simp`'s
discharger) -/
theorem i16_add_toInt' (a b : Int16)
    (h : a.toInt < 2^15 → -2^15 ≤ a.toInt → b.toInt < 2^15 → -2^15 ≤ b.toInt →
      -2^15 ≤ a.toInt + b.toInt ∧ a.toInt + b.toInt < 2^15) :
    (a + b).toInt = a.toInt + b.toInt := by
  obtain ⟨h0, h1⟩ := h a.toInt_lt a.le_toInt b.toInt_lt b.le_toInt
  exact i16_add_toInt a b h0 h1

theorem i16_sub_toInt' (a b : Int16)
    (h : a.toInt < 2^15 → -2^15 ≤ a.toInt → b.toInt < 2^15 → -2^15 ≤ b.toInt →
      -2^15 ≤ a.toInt - b.toInt ∧ a.toInt - b.toInt < 2^15) :
    (a - b).toInt = a.toInt - b.toInt := by
  obtain ⟨h0, h1⟩ := h a.toInt_lt a.le_toInt b.toInt_lt b.le_toInt
  exact i16_sub_toInt a b h0 h1

theorem i16_eq_iff (a b : Int16) : a = b ↔ a.toInt = b.toInt := Int16.toInt_inj.symm

/-- `x.toInt`, hidden from the default simp set (which would expand `(a + b).toInt` to `bmod`);
unfolded by `i16_norm` -/
def i16v (x : Int16) : Int := x.toInt

/-- termination measures on `Int16` loop counters -/
def dn16 (x : Int16) : Nat := (32767 - x.toInt).toNat
def up16 (x : Int16) : Nat := (x.toInt + 32768).toNat

macro "i16_disch" : tactic =>
  `(tactic| (intros; (try simp only [Int16.reduceToInt, Int.reducePow, Int.reduceNeg] at *); omega))

/-- rewrite `Int16` comparisons and (non-wrapping) arithmetic to `toInt` facts; side conditions
by `omega` -/
macro "i16_norm" : tactic =>
  `(tactic| (
    try simp only [Int16.lt_iff_toInt_lt, Int16.le_iff_toInt_le, i16_eq_iff, Int16.reduceToInt,
      gt_iff_lt, ge_iff_le, not_lt, not_le, Go.idx, Go.GoInt.toInt, dn16, up16, i16v] at *
    try simp (disch := i16_disch) only
      [i16_add_toInt', i16_sub_toInt', i16_neg_toInt, Int16.reduceToInt] at *))

/-! ### `Int64` (same scheme) -/

theorem i64_eq_iff (a b : Int64) : a = b ↔ a.toInt = b.toInt := Int64.toInt_inj.symm

theorem i64_add_toInt' (a b : Int64)
    (h : a.toInt < 2^63 → -2^63 ≤ a.toInt → b.toInt < 2^63 → -2^63 ≤ b.toInt →
      -2^63 ≤ a.toInt + b.toInt ∧ a.toInt + b.toInt < 2^63) :
    (a + b).toInt = a.toInt + b.toInt := by
  obtain ⟨h0, h1⟩ := h a.toInt_lt a.le_toInt b.toInt_lt b.le_toInt
  rw [Int64.toInt_add]; exact bmod64_id _ h0 h1

theorem i64_sub_toInt' (a b : Int64)
    (h : a.toInt < 2^63 → -2^63 ≤ a.toInt → b.toInt < 2^63 → -2^63 ≤ b.toInt →
      -2^63 ≤ a.toInt - b.toInt ∧ a.toInt - b.toInt < 2^63) :
    (a - b).toInt = a.toInt - b.toInt := by
  obtain ⟨h0, h1⟩ := h a.toInt_lt a.le_toInt b.toInt_lt b.le_toInt
  exact i64_sub_toInt a b h0 h1

/-- multiplication by a literal `k` (pattern `a * k` with `k.toInt` reducing to a numeral) -/
theorem i64_mul_toInt' (a b : Int64)
    (h : a.toInt < 2^63 → -2^63 ≤ a.toInt →
      -2^63 ≤ a.toInt * b.toInt ∧ a.toInt * b.toInt < 2^63) :
    (a * b).toInt = a.toInt * b.toInt := by
  obtain ⟨h0, h1⟩ := h a.toInt_lt a.le_toInt
  rw [Int64.toInt_mul]; exact bmod64_id _ h0 h1

theorem conv_i16_i64_toInt (x : Int16) : (Go.conv x : Int64).toInt = x.toInt := by
  have h0 := x.le_toInt; have h1 := x.toInt_lt
  show (Int64.ofInt x.toInt).toInt = _
  rw [Int64.toInt_ofInt]
  apply Int.bmod_eq_of_le <;> simp only [Int64.size] <;> omega

theorem u64_mul_toNat (a b : UInt64) (h : a.toNat * b.toNat < 2^64) :
    (a * b).toNat = a.toNat * b.toNat := by
  rw [UInt64.toNat_mul]; exact Nat.mod_eq_of_lt h

theorem conv_i64_u64_toNat (x : Int64) (h : 0 ≤ x.toInt) :
    (Go.conv x : UInt64).toNat = x.toInt.toNat := by
  have := x.toInt_lt
  show (UInt64.ofInt x.toInt).toNat = _
  rw [UInt64.ofInt]
  simp only [UInt64.toNat_ofNat']
  omega

def dn64 (x : Int64) : Nat := (9223372036854775807 - x.toInt).toNat
def up64 (x : Int64) : Nat := (x.toInt + 9223372036854775808).toNat

macro "i64_disch" : tactic =>
  `(tactic| (intros; (try simp only [Int64.reduceToInt, Int.reducePow, Int.reduceNeg, Int.reduceMul, conv_i16_i64_toInt] at *); omega))

macro "i64_norm" : tactic =>
  `(tactic| (
    try simp only [Int64.lt_iff_toInt_lt, Int64.le_iff_toInt_le, i64_eq_iff, Int64.reduceToInt,
      gt_iff_lt, ge_iff_le, not_lt, not_le, Go.idx, Go.GoInt.toInt, dn64, up64] at *
    try simp (disch := i64_disch) only
      [i64_add_toInt', i64_sub_toInt', i64_mul_toInt', conv_i64_u64_toNat, conv_i16_i64_toInt,
       Int64.reduceToInt] at *))

/-! ### table lookups -/

theorem triple_of_ok_pre {α : Type} {f : Go.GoM α} {P : Prop} {Q : α → Prop}
    (h : P → ∃ v, f = .ok v ∧ Q v) : ⦃⌜P⌝⦄ f ⦃⇓ r => ⌜Q r⌝⦄ := by
  by_cases hp : P
  · obtain ⟨v, e, hq⟩ := h hp
    have := triple_of_eq e hq
    simpa [hp] using this
  · simp [Triple, hp]

@[spec] theorem vget_pow192_triple (i : Int) :
    ⦃⌜0 ≤ i ∧ i < 58⌝⦄ Go.vget Gen.uint192PowersOf10 i ⦃⇓ v => ⌜v.toNat = 10^i.toNat⌝⦄ :=
  triple_of_ok_pre fun h => uint192PowersOf10_vget i h.1 h.2

theorem vget_any_triple {α : Type} {n : Nat} (v : Vector α n) (i : Int) :
    ⦃⌜0 ≤ i ∧ i.toNat < n⌝⦄ Go.vget v i ⦃⇓ _ => ⌜True⌝⦄ :=
  triple_of_ok_pre fun h => ⟨v[i.toNat]'h.2, by simp only [Go.vget, h, and_self, dif_pos]; rfl, trivial⟩

/-- consequence rule for pure pre/postconditions over `GoM` -/
theorem triple_conseq {α : Type} {f : Go.GoM α} {P : Prop} {Q Q' : α → Prop}
    (h : ⦃⌜True⌝⦄ f ⦃⇓ r => ⌜Q r⌝⦄) (himp : P → ∀ r, Q r → Q' r) :
    ⦃⌜P⌝⦄ f ⦃⇓ r => ⌜Q' r⌝⦄ :=
  triple_of_ok_pre fun hp =>
    let ⟨r, e, hq⟩ := ok_of_triple h
    ⟨r, e, himp hp r hq⟩

/-- a triple with a pure precondition that holds gives the result equation. -/
theorem ok_of_triple_pre {α : Type} {f : Go.GoM α} {P : Prop} {Q : α → Prop}
    (h : ⦃⌜P⌝⦄ f ⦃⇓ r => ⌜Q r⌝⦄) (hp : P) : ∃ r, f = .ok r ∧ Q r := by
  apply ok_of_triple
  simpa [hp] using h

macro "d192_disch" : tactic =>
  `(tactic| ((try simp only [UInt64.toNat_ofNat, UInt64.reduceToNat, Nat.reducePow, Nat.reduceMul, Nat.reduceMod] at *); omega))

/-- normalise word tests to `toNat` facts -/
macro "d192_norm" : tactic =>
  `(tactic| (
    try simp only [U192.or_zero, U192.and_zero, U192.imp_nonzero, U128.or_zero, U128.and_zero,
      U128.imp_nonzero, U192.of128] at *
    try simp only [U384.w5_pos, U384.w5_zero, U384.w4_pos, U384.w4_zero, U384.low256,
      U256.w3_le, U256.w3_lt, U256.w3_pos, U256.w3_zero, U256.low192,
      U192.w2_le, U192.le_w2, U192.w2_lt, U192.lt_w2, U192.w2_zero,
      U192_add_toNat, U192_lsh_toNat, U192.of128, U192_sub_snd_zero, U192_sub_fst_toNat, U192_twos_toNat,
      UInt64.toNat_ofNat, UInt64.toNat_zero, UInt64.toNat_one, UInt64.reduceToNat,
      Nat.reducePow, Nat.reduceMul, Nat.reduceAdd, Nat.reduceMod,
      ne_eq, not_lt, not_le, gt_iff_lt, ge_iff_le] at *
    try simp only [U192.toNat_mk, U256.toNat_mk, U128.default_eq, U192.default_eq, U256.default_eq,
      shl_one_zero_iff, shl_one_zero_iff',
      UInt64.toNat_ofNat, UInt64.toNat_zero, UInt64.toNat_one,
      UInt64.reduceToNat, Nat.reducePow, Nat.reduceMul, Nat.reduceAdd, Nat.reduceMod] at *
    try simp only [UInt64.lt_iff_toNat_lt, UInt64.le_iff_toNat_le, u64_zero_iff,
      UInt64.toNat_ofNat, UInt64.toNat_zero, UInt64.toNat_one, UInt64.reduceToNat] at *
    try simp (disch := d192_disch) only [U192_mul64_toNat_of_lt, Nat.mod_eq_of_lt, u64_sub_toNat,
      u64_add_toNat, u64_mul_toNat,
      UInt64.toNat_ofNat, UInt64.reduceToNat, Nat.reducePow, Nat.reduceMul, Nat.reduceMod] at *))

open Lean in
/-- closed subterms `f x` with `f` one of the given unary constants -/
partial def collectToNat (tbl : List (Name × List Name)) (e : Expr) (acc : Array (Name × Expr)) :
    Array (Name × Expr) :=
  let acc :=
    if e.isApp && e.getAppNumArgs == 1 && !e.hasLooseBVars then
      match e.getAppFn.constName? with
      | some n =>
        match tbl.lookup n with
        | some lems =>
          let x := e.appArg!
          lems.foldl (fun acc lem =>
            if acc.any (fun p => p.1 == lem && p.2 == x) then acc else acc.push (lem, x)) acc
        | none => acc
      | none => acc
    else acc
  match e with
  | .app f a => collectToNat tbl a (collectToNat tbl f acc)
  | .lam _ t b _ => collectToNat tbl b (collectToNat tbl t acc)
  | .forallE _ t b _ => collectToNat tbl b (collectToNat tbl t acc)
  | .letE _ t v b _ => collectToNat tbl b (collectToNat tbl v (collectToNat tbl t acc))
  | .mdata _ b => collectToNat tbl b acc
  | .proj _ _ b => collectToNat tbl b acc
  | _ => acc

open Lean Elab Tactic Meta in
/-- add `x.toNat < 2^k` for every closed subterm `U192.toNat x`, `U256.toNat x`, `U384.toNat x`,
`U128.toNat x`, `UInt64.toNat x` occurring in the hypotheses or the goal (facts `omega` does not
know) -/
elab "toNat_bounds" : tactic => do
  if (← getGoals).isEmpty then return
  withMainContext do
  let g ← getMainGoal
  let lctx ← getLCtx
  let mut tys : Array Expr := #[← instantiateMVars (← g.getType)]
  for d in lctx do
    if d.isImplementationDetail then continue
    tys := tys.push (← instantiateMVars d.type)
  let tbl : List (Name × List Name) :=
    [(``U192.toNat, [``D128.Proofs.WordsWide.U192.toNat_lt]),
     (``U256.toNat, [``D128.Proofs.WordsWide.U256.toNat_lt]),
     (``U384.toNat, [``D128.Proofs.WordsWide.U384.toNat_lt]),
     (``U128.toNat, [``U128.toNat_lt]),
     (``UInt64.toNat, [``UInt64.toNat_lt]),
     (``Int16.toInt, [``Int16.le_toInt, ``Int16.toInt_lt]),
     (``Int64.toInt, [``Int64.le_toInt, ``Int64.toInt_lt])]
  let mut found : Array (Name × Expr) := #[]
  for ty in tys do
    found := collectToNat tbl ty found
  let mut g := g
  for (lem, x) in found do
    let fv := (collectFVars {} x).fvarIds
    if fv.all (fun f => lctx.contains f) then
      let pf := mkApp (mkConst lem) x
      let ty ← inferType pf
      let (_, g') ← (← g.assert `hb ty pf).intro1
      g := g'
  replaceMainGoal [g]

open Lean Elab Tactic Meta in
/-- rewrite with the hypotheses `_ = none` / `_ = some _` (reduces the `match` of early-return
loops) -/
elab "opt_eqs" : tactic => do
  if (← getGoals).isEmpty then return
  withMainContext do
    let mut stxs : Array (TSyntax `term) := #[]
    for d in (← getLCtx) do
      if d.isImplementationDetail then continue
      let ty ← instantiateMVars d.type
      if let some (_, _, rhs) := ty.eq? then
        if rhs.isAppOf ``Option.none || rhs.isAppOf ``Option.some then
          stxs := stxs.push (← Term.exprToSyntax d.toExpr)
    if stxs.isEmpty then return
    let lems : Array (TSyntax `Lean.Parser.Tactic.simpLemma) ←
      stxs.mapM fun s => `(Lean.Parser.Tactic.simpLemma| $s:term)
    evalTactic (← `(tactic| try simp only [$lems,*] at *))

macro "d192_close1" : tactic =>
  `(tactic| first | omega | assumption | (simp only [or_true, true_or]; done) | (exact Or.inl (by assumption)) | (exact Or.inr (by assumption)) | (simp_all; done))

macro "d192_close" : tactic =>
  `(tactic| (d192_norm; (try casesm* _ ∧ _); (try and_intros); all_goals d192_close1))

/-- full preparation of a verification condition: use equations among the hypotheses (reduces the
`match` of early-return loops), word tests and `Int16` arithmetic to `toNat`/`toInt`, add bounds -/
macro "d192_prep" : tactic =>
  `(tactic| (opt_eqs; d192_norm; i16_norm; i64_norm; toNat_bounds; i16_norm; i64_norm))

macro "d192_fin1" : tactic => `(tactic| first | omega | trivial | grind)

macro "d192_fin" : tactic => `(tactic| first | omega | (and_intros <;> d192_fin1))

end D128.Proofs.Total
