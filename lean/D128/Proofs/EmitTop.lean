/-
  D128/Proofs/EmitTop.lean — the callers of the emitters: layout selection, specials, and the normal forms of
  String / MarshalText / MarshalJSON / Append.

  * `Emit.fin_fields`, `Emit.digits_fin`  : the digit record of a finite `d` (well-formed, slice of `(c, e)`,
        normalised zero, `-6176 ≤ exp`, `exp + ndig ≤ 6146`)
  * `Emit.shortest`, `Emit.shortestG_eq`  : `Spec.shortestG` with the switch-over points as parameters
  * `Emit.selE`, `Emit.selF`              : `fmtE` with `prec = ndig - 1`, `fmtF` with `prec = max(-exp, 0)` on such
        a record print `Spec.layoutE … (len-1)` / `Spec.layoutF … (len-dp)`
  * `Emit.gTail`, `Emit.gSel`, `Emit.gSel_spec` : the selection shared by String, MarshalText, MarshalJSON
  * `Emit.specialB`, `Emit.spTail`, `Emit.appendSpecial_eq`, `Emit.spTail_nop`, `Emit.appendSpecial_plain`
  * `Emit.spTail_spec`, `Emit.specialText`, `Emit.appendSpecial_spec` : `appendSpecial` for all flags and widths
  * `Emit.String_eq`, `Emit.MarshalText_eq`, `Emit.MarshalJSON_eq` (by `rfl`), `Emit.Append_neg_eq`
-/
import D128.Proofs.EmitFmt
import D128.Proofs.DigitsGen
import D128.Gen.JsonText
set_option autoImplicit false
namespace Emit

/-- the value a bit pattern denotes -/
local notation "𝔳[" d "]" => Spec.interp (Gen.Decimal.lo d) (Gen.Decimal.hi d)

theorem fin_fields (d : Gen.Decimal) (neg : Bool) (c : Nat) (e : Int)
    (hfin : 𝔳[d] = .fin neg c e) :
    Gen.Decimal.isSpecial d = false ∧ Gen.Decimal.Signbit d = neg ∧
      (Gen.Decimal.decompose d).1.toNat = c ∧ (Gen.Decimal.decompose d).2.toInt - 6176 = e := by
  have hs : Gen.Decimal.isSpecial d = false := by
    have := Enc.interp_isFin d
    rw [hfin] at this
    simpa [Spec.Val.isFin] using this.symm
  have := Enc.interp_decompose d hs
  rw [hfin] at this
  injection this with h1 h2 h3
  exact ⟨hs, h1.symm, h2.symm, h3.symm⟩

/-- **The digit record of a finite `d`**: everything the emitters need. -/
theorem digits_fin (d : Gen.Decimal) (digs : Gen.digits) (neg : Bool) (c : Nat) (e : Int)
    (hfin : 𝔳[d] = .fin neg c e) :
    ∃ r, Gen.Decimal.digits_ d digs = .ok r ∧ r.neg = neg ∧ Dg.WF r ∧
      Dg.slice r = Spec.sliceOf c e ∧ (r.ndig.toInt = 0 → r.exp.toInt = 0) ∧
      -6176 ≤ r.exp.toInt ∧ r.exp.toInt + r.ndig.toInt ≤ 6146 := by
  obtain ⟨hs, h1, h2, h3⟩ := fin_fields d neg c e hfin
  obtain ⟨r, hr, hn, hwf, hsl, hv⟩ := Dg.digits_ok d digs
  have he0 := Enc.decompose_exp_nonneg d
  have he1 := Enc.decompose_exp_le d hs
  have hc35 := Dg.sig_lt d
  rw [h2, h3] at hsl hv
  rw [h2] at hc35
  refine ⟨r, hr, hn.trans h1, hwf, hsl, ?_⟩
  have hn0 := hwf.n0
  have hlen : (Dg.slice r).ds.length = r.ndig.toInt.toNat := Dg.msd_length _ _
  by_cases hc : c = 0
  · subst hc
    have h0 : Spec.sliceOf 0 e = ⟨[], 0⟩ := rfl
    rw [h0] at hsl
    have hds : (Dg.slice r).ds = [] := congrArg Spec.Slice.ds hsl
    have hdp : r.exp.toInt + r.ndig.toInt = 0 := congrArg Spec.Slice.dp hsl
    rw [hds] at hlen
    simp only [List.length_nil] at hlen
    refine ⟨fun _ => by omega, by omega, by omega⟩
  · obtain ⟨k, hk, hexp⟩ := hv hc
    have hpos : 0 < r.ndig.toInt := by
      by_contra hneg
      have hz : r.ndig.toInt.toNat = 0 := by omega
      have : (Dg.slice r).ds = [] := List.eq_nil_of_length_eq_zero (by rw [hlen, hz])
      rw [this] at hk
      simp at hk
      exact hc hk
    have hfirst := hwf.first hpos
    have hdig := hwf.dig 0 (by omega)
    have hhead := Dg.msd_head r.dig r.ndig.toInt.toNat (by omega)
    cases hM : Dg.msd r.dig r.ndig.toInt.toNat with
    | nil => rw [hM] at hhead; simp at hhead
    | cons x M' =>
      rw [hM] at hhead
      simp only [List.head?_cons, Option.some.injEq] at hhead
      have hx : x ≠ 0 := by
        rw [hhead]; exact Dg.dv_ne_zero hdig hfirst
      have hge := Dg.ofMsd_pos x M' hx
      have hMl : M'.length + 1 = r.ndig.toInt.toNat := by
        have := Dg.msd_length r.dig r.ndig.toInt.toNat
        rw [hM] at this; simpa using this
      have hds : (Dg.slice r).ds = x :: M' := hM
      rw [hds] at hk
      have hpow : 10 ^ (M'.length + k) ≤ c := by
        rw [hk, Nat.pow_add]
        exact Nat.mul_le_mul_right _ hge
      have h34 := Dg.pow_bound _ _ hpow hc35
      refine ⟨fun h => by omega, by omega, by omega⟩

/-! ## the shortest layouts, parametrised by the switch-over points -/

/-- `Spec.shortestG` with the thresholds and the minimal number of exponent digits as parameters:
positional iff `lo ≤ exponent of the leading digit < hi` -/
def shortest (lo hi : Int) (minExp : Nat) (neg : Bool) (s : Spec.Slice) (e : Char) : Spec.Str :=
  (if neg then ['-'] else []) ++
    (if s.ds.isEmpty then ['0']
     else if s.dp - 1 < lo || s.dp - 1 ≥ hi then Spec.layoutE s (s.ds.length - 1) false e minExp
     else Spec.layoutF s (if (s.ds.length : Int) > s.dp then ((s.ds.length : Int) - s.dp).toNat else 0)
       false)

theorem shortestG_eq (neg : Bool) (s : Spec.Slice) (e : Char) :
    Spec.shortestG neg s e = shortest (-4) 6 2 neg s e := rfl


/-! ## layout selection (shared by String, MarshalText, MarshalJSON) -/

/-- the tail of String / MarshalText / MarshalJSON after `prec` is known: choose `fmtE` or `fmtF`
(text copied from the generated source; `k` is the rest of the caller) -/
def gTail {α : Type} (r : Gen.digits) (buf : Go.Bytes) (lo hi : Int64) (padExp : Bool) (e : UInt8)
    (k : Go.Bytes → Go.GoM α) (prec : Int64) : Go.GoM α :=
  if (decide (r.exp + prec < lo) || decide (r.exp + prec ≥ hi)) = true then do
    let __x ← r.fmtE buf prec 0 false false false padExp false false e
    match __x with
      | (_, r_4) => k r_4
  else
    if decide (r.exp < 0) = true then do
      let __x ← r.fmtF buf (-r.exp) 0 false false false false false
      match __x with
        | (_, r_6) => k r_6
    else do
      let __x ← r.fmtF buf 0 0 false false false false false
      match __x with
        | (_, r_6) => k r_6

/-- the layout selection of String / MarshalText / MarshalJSON -/
def gSel {α : Type} (r : Gen.digits) (buf : Go.Bytes) (lo hi : Int64) (padExp : Bool) (e : UInt8)
    (k : Go.Bytes → Go.GoM α) : Go.GoM α :=
  if (r.ndig != 0) = true then gTail r buf lo hi padExp e k (r.ndig - 1)
  else gTail r buf lo hi padExp e k 0

theorem signS_ff (neg : Bool) : signS neg false false = (if neg then ['-'] else []) := by
  cases neg <;> rfl

/-- **Positional shortest**: on the record of a finite decimal, `fmtF` with `prec = -exp` (or 0 when the
exponent is not negative) prints the sign and `Spec.layoutF` with exactly the fraction digits the record
has. -/
theorem selF (r : Gen.digits) (buf : Go.Bytes) (precF : Int64) (hwf : Dg.WF r)
    (hz : r.ndig.toInt = 0 → r.exp.toInt = 0)
    (hx0 : -6176 ≤ r.exp.toInt) (hx1 : r.exp.toInt + r.ndig.toInt ≤ 6146) (hbuf : buf.size < 2 ^ 62)
    (hpF : precF.toInt = (if r.exp.toInt < 0 then -r.exp.toInt else 0)) :
    ∃ out, r.fmtF buf precF 0 false false false false false = .ok (r, out) ∧
      chars out = chars buf ++ ((if r.neg then ['-'] else []) ++
        Spec.layoutF (Dg.slice r)
          (if ((Dg.slice r).ds.length : Int) > (Dg.slice r).dp then
            (((Dg.slice r).ds.length : Int) - (Dg.slice r).dp).toNat else 0) false) ∧
      out.size ≤ buf.size + 12500 := by
  have h0 := hwf.n0
  have h39 := hwf.n39
  have hexp : Dg.ExpOK r := ⟨by omega, by omega⟩
  have hlen : (Dg.slice r).ds.length = r.ndig.toInt.toNat := Dg.msd_length _ _
  have hdp : (Dg.slice r).dp = r.exp.toInt + r.ndig.toInt := rfl
  have hp0 : 0 ≤ precF.toInt ∧ precF.toInt ≤ 6176 := by rw [hpF]; split <;> omega
  have hsize := fBytes_size_le r precF false false false h0 h39 hexp (by omega)
  have hc := fBytes_chars r precF false false false hwf hexp hz (by omega)
    (by intro _ _; rw [hpF]; split <;> omega)
  have hl := chars_length (F.fBytes r precF false false false)
  rw [hc] at hl
  obtain ⟨out, ho, hco⟩ := fmtF_spec r buf precF 0 false false false false false hwf hexp hz (by omega)
    (by intro _ _; rw [hpF]; split <;> omega) (by rw [i64_zero])
    (by rw [i64_zero]; omega) (by rw [hl]; omega)
  have hos : out.size ≤ buf.size + 12500 := by
    have := chars_length out
    rw [hco, List.append_assoc, List.length_append, hl, chars_length] at this
    omega
  refine ⟨out, ho, ?_, hos⟩
  rw [hco, signS_ff, List.append_assoc]
  have : precF.toInt.toNat = (if ((Dg.slice r).ds.length : Int) > (Dg.slice r).dp then
      (((Dg.slice r).ds.length : Int) - (Dg.slice r).dp).toNat else 0) := by
    rw [hlen, hdp, hpF]; split <;> split <;> omega
  rw [this]

/-- **Exponent-form shortest**: on the record of a finite decimal, `fmtE` with `prec = ndig - 1` (any
non-positive `prec` for the empty record) prints the sign and `Spec.layoutE` with all digits. -/
theorem selE (r : Gen.digits) (buf : Go.Bytes) (precE : Int64) (padExp : Bool) (e : UInt8) (hwf : Dg.WF r)
    (hz : r.ndig.toInt = 0 → r.exp.toInt = 0)
    (hx0 : -6176 ≤ r.exp.toInt) (hx1 : r.exp.toInt + r.ndig.toInt ≤ 6146) (hbuf : buf.size < 2 ^ 62)
    (hpE : precE.toInt = r.ndig.toInt - 1 ∨ (r.ndig.toInt = 0 ∧ precE.toInt ≤ 0)) :
    ∃ out, r.fmtE buf precE 0 false false false padExp false false e = .ok (r, out) ∧
      chars out = chars buf ++ ((if r.neg then ['-'] else []) ++
        Spec.layoutE (Dg.slice r) ((Dg.slice r).ds.length - 1) false (toChar e) (if padExp then 2 else 1)) ∧
      out.size ≤ buf.size + 12500 := by
  have h0 := hwf.n0
  have h39 := hwf.n39
  have hlen : (Dg.slice r).ds.length = r.ndig.toInt.toNat := Dg.msd_length _ _
  have hfit : r.ndig.toInt ≤ precE.toInt + 1 ∨ precE.toInt ≤ 0 := by omega
  have hsize := eBytes_size_le r precE false false false padExp e h39
  have hcE := eBytes_chars r precE false false false padExp e hwf hz (by omega) hfit
  have hl := chars_length (E.eBytes r precE false false false padExp e)
  rw [hcE] at hl
  obtain ⟨out, ho, hco⟩ := fmtE_spec r buf precE 0 false false false padExp false false e hwf hz
    (by omega) hfit (by rw [i64_zero]) (by rw [i64_zero]; omega)
    (by rw [hl]; omega)
  have hos : out.size ≤ buf.size + 12500 := by
    have := chars_length out
    rw [hco, List.append_assoc, List.length_append, hl, chars_length] at this
    omega
  refine ⟨out, ho, ?_, hos⟩
  rw [hco, signS_ff, List.append_assoc]
  have : precE.toInt.toNat = (Dg.slice r).ds.length - 1 := by rw [hlen]; omega
  rw [this]

/-- for a non-empty record the Go test `exp < lo || exp >= hi` is the test on the slice -/
theorem selCond (r : Gen.digits) (lo hi : Int64) (hwf : Dg.WF r)
    (hx0 : -6176 ≤ r.exp.toInt) (hx1 : r.exp.toInt + r.ndig.toInt ≤ 6146) :
    (decide (r.exp + (r.ndig - 1) < lo) || decide (r.exp + (r.ndig - 1) ≥ hi)) =
      (decide ((Dg.slice r).dp - 1 < lo.toInt) || decide ((Dg.slice r).dp - 1 ≥ hi.toInt)) := by
  have h0 := hwf.n0
  have h39 := hwf.n39
  have hdp : (Dg.slice r).dp = r.exp.toInt + r.ndig.toInt := rfl
  have e1 : (r.ndig - 1).toInt = r.ndig.toInt - 1 := by
    rw [Dg.i64_sub _ _ (by rw [i64_one]; omega) (by rw [i64_one]; omega), i64_one]
  have e2 : (r.exp + (r.ndig - 1)).toInt = (Dg.slice r).dp - 1 := by
    rw [Dg.i64_add _ _ (by rw [e1]; omega) (by rw [e1]; omega), e1, hdp]; omega
  congr 1
  · rw [decide_eq_decide, i64_lt_iff, e2]
  · rw [decide_eq_decide, ge_iff_le, i64_le_iff, e2]

/-- the empty record of a (normalised) zero is the slice `⟨[], 0⟩` -/
theorem slice_zero (r : Gen.digits) (hn : r.ndig.toInt = 0) (he : r.exp.toInt = 0) :
    Dg.slice r = ⟨[], 0⟩ := by
  have hlen : (Dg.slice r).ds.length = r.ndig.toInt.toNat := Dg.msd_length _ _
  have hdp : (Dg.slice r).dp = r.exp.toInt + r.ndig.toInt := rfl
  have hds : (Dg.slice r).ds = [] := List.eq_nil_of_length_eq_zero (by rw [hlen, hn]; rfl)
  cases hs : Dg.slice r with
  | mk ds dp =>
    rw [hs] at hds hdp
    simp only at hds hdp
    rw [hds, hdp, he, hn]; rfl

theorem slice_nonempty (r : Gen.digits) (hwf : Dg.WF r) (hn : r.ndig.toInt ≠ 0) :
    (Dg.slice r).ds.isEmpty = false := by
  have hlen : (Dg.slice r).ds.length = r.ndig.toInt.toNat := Dg.msd_length _ _
  have h0 := hwf.n0
  rw [List.isEmpty_eq_false_iff]
  intro h
  rw [h] at hlen
  simp only [List.length_nil] at hlen
  omega

/-- **Layout selection is `shortest`.**  For the digit record of a finite decimal the selection appends
the shortest text: positional iff `lo ≤` exponent of the leading digit `< hi`. -/
theorem gSel_spec {α : Type} (r : Gen.digits) (buf : Go.Bytes) (lo hi : Int64) (padExp : Bool) (e : UInt8)
    (k : Go.Bytes → Go.GoM α) (hwf : Dg.WF r) (hz : r.ndig.toInt = 0 → r.exp.toInt = 0)
    (hx0 : -6176 ≤ r.exp.toInt) (hx1 : r.exp.toInt + r.ndig.toInt ≤ 6146)
    (hlo : lo.toInt ≤ 0) (hhi : 0 < hi.toInt) (hbuf : buf.size < 2 ^ 62) :
    ∃ out, gSel r buf lo hi padExp e k = k out ∧
      chars out = chars buf ++
        shortest lo.toInt hi.toInt (if padExp then 2 else 1) r.neg (Dg.slice r) (toChar e) ∧
      out.size ≤ buf.size + 12500 := by
  have h0 := hwf.n0
  have h39 := hwf.n39
  unfold gSel shortest
  by_cases hn : r.ndig.toInt = 0
  · -- zero: positional "0"
    have hne : ¬ (r.ndig != 0) = true := by
      have : r.ndig = 0 := Int64.toInt_inj.mp (by rw [hn]; rfl)
      simp [this]
    have he := hz hn
    rw [if_neg hne]
    unfold gTail
    have e1 : (r.exp + 0).toInt = 0 := by
      rw [Dg.i64_add _ _ (by rw [i64_zero]; omega) (by rw [i64_zero]; omega), i64_zero, he]; rfl
    have c1 : ¬ (decide (r.exp + 0 < lo) || decide (r.exp + 0 ≥ hi)) = true := by
      rw [Bool.or_eq_true, decide_eq_true_eq, decide_eq_true_eq, i64_lt_iff, ge_iff_le, i64_le_iff, e1]
      omega
    have c2 : ¬ decide (r.exp < 0) = true := by
      rw [decide_eq_true_eq, i64_lt_iff, i64_zero, he]; omega
    rw [if_neg c1, if_neg c2]
    obtain ⟨out, ho, hco, hos⟩ := selF r buf 0 hwf hz hx0 hx1 hbuf (by rw [i64_zero, he]; rfl)
    refine ⟨out, by rw [ho]; rfl, ?_, hos⟩
    rw [hco, slice_zero r hn he]
    rfl
  · have hne : (r.ndig != 0) = true := by
      have : r.ndig ≠ 0 := fun h => hn (by rw [h]; rfl)
      simp [this]
    rw [if_pos hne, slice_nonempty r hwf hn]
    simp only [Bool.false_eq_true, if_false]
    unfold gTail
    rw [selCond r lo hi hwf hx0 hx1]
    by_cases hc : (decide ((Dg.slice r).dp - 1 < lo.toInt) || decide ((Dg.slice r).dp - 1 ≥ hi.toInt)) = true
    · rw [if_pos hc, if_pos hc]
      have e1 : (r.ndig - 1).toInt = r.ndig.toInt - 1 := by
        rw [Dg.i64_sub _ _ (by rw [i64_one]; omega) (by rw [i64_one]; omega), i64_one]
      obtain ⟨out, ho, hco, hos⟩ := selE r buf (r.ndig - 1) padExp e hwf hz hx0 hx1 hbuf (Or.inl e1)
      exact ⟨out, by rw [ho]; rfl, hco, hos⟩
    · rw [if_neg hc, if_neg hc]
      by_cases hneg : decide (r.exp < 0) = true
      · rw [if_pos hneg]
        have hneg' : r.exp.toInt < 0 := by
          rw [decide_eq_true_eq, i64_lt_iff, i64_zero] at hneg; exact hneg
        obtain ⟨out, ho, hco, hos⟩ := selF r buf (-r.exp) hwf hz hx0 hx1 hbuf
          (by rw [i64_neg _ (by omega), if_pos hneg'])
        exact ⟨out, by rw [ho]; rfl, hco, hos⟩
      · rw [if_neg hneg]
        have hneg' : ¬ r.exp.toInt < 0 := by
          rw [decide_eq_true_eq, i64_lt_iff, i64_zero] at hneg; exact hneg
        obtain ⟨out, ho, hco, hos⟩ := selF r buf 0 hwf hz hx0 hx1 hbuf (by rw [i64_zero, if_neg hneg'])
        exact ⟨out, by rw [ho]; rfl, hco, hos⟩

/-! ## specials -/

/-- the text of a NaN or an infinity with all flags off -/
def specialB (d : Gen.Decimal) : Go.Bytes :=
  if Gen.Decimal.IsNaN d then Gen.nanText else if Gen.Decimal.Signbit d then Gen.negInfText else Gen.posInfText

/-- the part of `appendSpecial` after the text has been chosen (copied from the generated source) -/
def spTail (buf : Go.Bytes) (width : Int64) (padRight : Bool) (value : Go.Bytes) : Go.GoM Go.Bytes :=
  have __do_jp := fun (__r : Unit) (buf : Go.Bytes) =>
    have n := Go.len value;
    have p := width - n;
    have __do_jp := fun (__r : Unit) (buf : Go.Bytes) => (pure buf : Go.GoM Go.Bytes);
    if decide (p > 0) = true then
      if padRight = true then
        have buf := buf ++ value;
        have i := n;
        do
        let __s ←
          forIn Lean.Loop.mk (buf, i) fun (_ : Unit) (__s : Go.Bytes × Int64) =>
              have buf := __s.fst;
              have i := __s.snd;
              if decide (i < width) = true then
                have buf := Array.push buf 32;
                have i := i + 1;
                pure (ForInStep.yield (buf, i))
              else pure (ForInStep.done (buf, i))
        have buf : Go.Bytes := __s.fst
        __do_jp () buf
      else
        have i_1 := 0;
        do
        let __s ←
          forIn Lean.Loop.mk (buf, i_1) fun (_ : Unit) (__s : Go.Bytes × Int64) =>
              have buf := __s.fst;
              have i_1 := __s.snd;
              if decide (i_1 < p) = true then
                have buf := Array.push buf 32;
                have i_1 := i_1 + 1;
                pure (ForInStep.yield (buf, i_1))
              else pure (ForInStep.done (buf, i_1))
        have buf : Go.Bytes := __s.fst
        have buf : Go.Bytes := buf ++ value
        __do_jp () buf
    else
      have buf := buf ++ value;
      __do_jp () buf;
  if (Go.len buf == 0) = true then
    have sizeHint := Go.len value;
    have __do_jp := fun (__r : Unit) (sizeHint : Int64) => do
      let t_1 ← Go.makeBytes 0 (Go.idx sizeHint)
      have buf : Go.Bytes := t_1
      __do_jp () buf;
    if decide (width > sizeHint) = true then
      have sizeHint := width;
      __do_jp () sizeHint
    else __do_jp () sizeHint
  else __do_jp () buf

theorem appendSpecial_eq (d : Gen.Decimal) (buf : Go.Bytes) (width : Int64)
    (printSign padSign padRight : Bool) :
    Gen.Decimal.appendSpecial d buf width printSign padSign padRight =
      spTail buf width padRight
        (if Gen.Decimal.IsNaN d then
          (if printSign then Gen.posNaNText else if padSign then Gen.padNaNText else Gen.nanText)
        else if Gen.Decimal.Signbit d then Gen.negInfText
        else if (padSign && !printSign) then Gen.padInfText else Gen.posInfText) := by
  unfold Gen.Decimal.appendSpecial
  cases Gen.Decimal.IsNaN d <;> cases Gen.Decimal.Signbit d <;> cases printSign <;> cases padSign <;> rfl

/-- without padding the text is appended -/
theorem spTail_nop (buf : Go.Bytes) (width : Int64) (padRight : Bool) (value : Go.Bytes)
    (hbuf : buf.size < 2 ^ 62) (hv : value.size < 2 ^ 62) (hw0 : 0 ≤ width.toInt)
    (hw : width.toInt ≤ value.size) :
    spTail buf width padRight value = .ok (buf ++ value) := by
  have hlv := len_toInt value (by omega)
  have hp : ¬ width - Go.len value > 0 := by
    rw [i64_gt_iff, i64_zero, Dg.i64_sub _ _ (by rw [hlv]; omega) (by rw [hlv]; have := width.toInt_lt; omega), hlv]
    omega
  unfold spTail
  simp only [hp, decide_false, Bool.false_eq_true, if_false]
  rw [len_beq_zero buf (by omega)]
  by_cases hb : buf.size = 0
  · have hbuf : buf = #[] := Array.eq_empty_of_size_eq_zero hb
    rw [if_pos (by simp [hb]), makeBytes_zero _ (by show 0 ≤ width.toInt; exact hw0),
      makeBytes_zero _ (by show 0 ≤ (Go.len value).toInt; omega)]
    subst hbuf
    split <;> rfl
  · rw [if_neg (by simp [hb])]
    rfl

theorem special_sizes : Gen.nanText.size = 3 ∧ Gen.negInfText.size = 4 ∧ Gen.posInfText.size = 4 := by
  decide

/-- **Specials**: with all flags off and no width, `appendSpecial` appends "NaN", "-Inf" or "+Inf". -/
theorem appendSpecial_plain (d : Gen.Decimal) (buf : Go.Bytes) (hbuf : buf.size < 2 ^ 62) :
    Gen.Decimal.appendSpecial d buf 0 false false false = .ok (buf ++ specialB d) := by
  rw [appendSpecial_eq]
  obtain ⟨s1, s2, s3⟩ := special_sizes
  unfold specialB
  cases Gen.Decimal.IsNaN d <;> cases Gen.Decimal.Signbit d <;>
    simp only [Bool.false_eq_true, if_false, if_true, Bool.false_and, Bool.not_false] <;>
    exact spTail_nop _ _ _ _ hbuf (by omega) (by decide) (by rw [i64_zero]; omega)

/-- `appendSpecial` after the choice of the text, for every width: spaces on the right (`padRight`) or in
front -/
theorem spTail_spec (buf : Go.Bytes) (width : Int64) (padRight : Bool) (value : Go.Bytes)
    (hbuf : buf.size < 2 ^ 62) (hv : value.size < 2 ^ 61) (hw0 : 0 ≤ width.toInt)
    (hw : width.toInt < 2 ^ 61) :
    spTail buf width padRight value = .ok (buf ++
      (if width.toInt.toNat ≤ value.size then value
       else if padRight then value ++ Array.replicate (width.toInt.toNat - value.size) 32
       else Array.replicate (width.toInt.toNat - value.size) 32 ++ value)) := by
  have hlv := len_toInt value (by omega)
  have hpv : (width - Go.len value).toInt = width.toInt - value.size := by
    rw [Dg.i64_sub _ _ (by rw [hlv]; omega) (by rw [hlv]; omega), hlv]
  -- the part after the allocation
  have key : ∀ b : Go.Bytes, b = buf →
      (have n := Go.len value;
       have p := width - n;
       have __do_jp := fun (__r : Unit) (buf : Go.Bytes) => (pure buf : Go.GoM Go.Bytes);
       if decide (p > 0) = true then
         if padRight = true then
           have buf := b ++ value;
           have i := n;
           do
           let __s ←
             forIn Lean.Loop.mk (buf, i) fun (_ : Unit) (__s : Go.Bytes × Int64) =>
                 have buf := __s.fst;
                 have i := __s.snd;
                 if decide (i < width) = true then
                   have buf := Array.push buf 32;
                   have i := i + 1;
                   pure (ForInStep.yield (buf, i))
                 else pure (ForInStep.done (buf, i))
           have buf : Go.Bytes := __s.fst
           __do_jp () buf
         else
           have i_1 := 0;
           do
           let __s ←
             forIn Lean.Loop.mk (b, i_1) fun (_ : Unit) (__s : Go.Bytes × Int64) =>
                 have buf := __s.fst;
                 have i_1 := __s.snd;
                 if decide (i_1 < p) = true then
                   have buf := Array.push buf 32;
                   have i_1 := i_1 + 1;
                   pure (ForInStep.yield (buf, i_1))
                 else pure (ForInStep.done (buf, i_1))
           have buf : Go.Bytes := __s.fst
           have buf : Go.Bytes := buf ++ value
           __do_jp () buf
       else
         have buf := b ++ value;
         __do_jp () buf) = .ok (buf ++
      (if width.toInt.toNat ≤ value.size then value
       else if padRight then value ++ Array.replicate (width.toInt.toNat - value.size) 32
       else Array.replicate (width.toInt.toNat - value.size) 32 ++ value)) := by
    intro b hb
    subst hb
    simp only
    by_cases hp : width - Go.len value > 0
    · have hp' := (i64_gt_iff _ _).mp hp
      rw [i64_zero, hpv] at hp'
      rw [if_pos (by simpa using hp), if_neg (show ¬ width.toInt.toNat ≤ value.size by omega)]
      cases padRight
      · simp only [Bool.false_eq_true, if_false]
        have e : ((width - Go.len value).toInt - (0 : Int64).toInt).toNat =
            width.toInt.toNat - value.size := by rw [hpv, i64_zero]; omega
        rw [loop_up, e]
        show Except.ok (b ++ Array.replicate _ 32 ++ value) = _
        rw [Array.append_assoc]
      · simp only [if_true]
        have e : (width.toInt - (Go.len value).toInt).toNat = width.toInt.toNat - value.size := by
          rw [hlv]; omega
        rw [loop_up, e]
        show Except.ok (b ++ value ++ Array.replicate _ 32) = _
        rw [Array.append_assoc]
    · have hp' := hp
      rw [i64_gt_iff, i64_zero, hpv] at hp'
      rw [if_neg (by simpa using hp), if_pos (show width.toInt.toNat ≤ value.size by omega)]
      rfl
  unfold spTail
  simp only
  rw [len_beq_zero buf (by omega)]
  by_cases hb : buf.size = 0
  · have hbuf' : buf = #[] := Array.eq_empty_of_size_eq_zero hb
    rw [if_pos (by simp [hb]), makeBytes_zero _ (by show 0 ≤ width.toInt; exact hw0),
      makeBytes_zero _ (by show 0 ≤ (Go.len value).toInt; omega)]
    split <;> exact key #[] hbuf'.symm
  · rw [if_neg (by simp [hb])]
    exact key buf rfl

/-- the text `appendSpecial` selects -/
def specialText (d : Gen.Decimal) (printSign padSign : Bool) : Go.Bytes :=
  if Gen.Decimal.IsNaN d then
    (if printSign then Gen.posNaNText else if padSign then Gen.padNaNText else Gen.nanText)
  else if Gen.Decimal.Signbit d then Gen.negInfText
  else if (padSign && !printSign) then Gen.padInfText else Gen.posInfText

/-- **`appendSpecial` for all flags and widths**: `NaN` / `+NaN` / ` NaN` / `-Inf` / `+Inf` / ` Inf`, padded
with spaces to `width`. -/
theorem appendSpecial_spec (d : Gen.Decimal) (buf : Go.Bytes) (width : Int64)
    (printSign padSign padRight : Bool) (hbuf : buf.size < 2 ^ 62) (hw0 : 0 ≤ width.toInt)
    (hw : width.toInt < 2 ^ 61) :
    Gen.Decimal.appendSpecial d buf width printSign padSign padRight = .ok (buf ++
      (if width.toInt.toNat ≤ (specialText d printSign padSign).size then specialText d printSign padSign
       else if padRight then specialText d printSign padSign ++
         Array.replicate (width.toInt.toNat - (specialText d printSign padSign).size) 32
       else Array.replicate (width.toInt.toNat - (specialText d printSign padSign).size) 32 ++
         specialText d printSign padSign)) := by
  rw [appendSpecial_eq]
  have hv : (specialText d printSign padSign).size < 2 ^ 61 := by
    unfold specialText
    cases Gen.Decimal.IsNaN d <;> cases Gen.Decimal.Signbit d <;> cases printSign <;> cases padSign <;>
      decide
  exact spTail_spec buf width padRight _ hbuf hv hw0 hw

/-! ## normal forms of the callers -/

theorem String_eq (d : Gen.Decimal) : Gen.Decimal.String d =
    (if Gen.Decimal.isSpecial d = true then
      Gen.Decimal.appendSpecial d #[] 0 false false false >>= fun t_1 => pure t_1
    else do
      let r ← Gen.Decimal.digits_ d default
      gSel r #[] (-4) 6 true 101 (fun b => pure b)) := rfl

theorem MarshalText_eq (d : Gen.Decimal) : Gen.Decimal.MarshalText d =
    (if Gen.Decimal.isSpecial d = true then do
      let t_1 ← Gen.Decimal.appendSpecial d #[] 0 false false false
      pure (t_1, Go.Err.nil)
    else do
      let r ← Gen.Decimal.digits_ d default
      gSel r #[] (-4) 6 true 101 (fun b => pure (b, Go.Err.nil))) := rfl

theorem MarshalJSON_eq (d : Gen.Decimal) : Gen.Decimal.MarshalJSON d =
    (if Gen.Decimal.isSpecial d = true then do
      let _ ← Gen.Decimal.String d
      pure (#[], Go.Err.jsonUnsupportedValue)
    else do
      let r ← Gen.Decimal.digits_ d default
      gSel r #[] (-6) 20 false 101 (fun b => pure (b, Go.Err.nil))) := rfl

theorem Append_neg_eq (buf : Go.Bytes) (d : Gen.Decimal) (fmt : UInt8) (prec : Int64)
    (hs : Gen.Decimal.isSpecial d = false) (hp : prec < 0) :
    Gen.Append buf d fmt prec = (do
      let r ← Gen.Decimal.digits_ d default
      if (fmt == 101 || fmt == 69) = true then
        (if (r.ndig != 0) = true then
          r.fmtE buf (r.ndig - 1) 0 false false false true false false fmt >>= fun x => pure x.2
        else r.fmtE buf 0 0 false false false true false false fmt >>= fun x => pure x.2)
      else if (fmt == 102) = true then
        (if decide (r.exp < 0) = true then
          r.fmtF buf (-r.exp) 0 false false false false false >>= fun x => pure x.2
        else r.fmtF buf 0 0 false false false false false >>= fun x => pure x.2)
      else if (fmt == 103 || fmt == 71) = true then
        (if (decide (r.exp + (if (r.ndig != 0) = true then r.ndig - 1 else 0) < -4) ||
            decide (r.exp + (if (r.ndig != 0) = true then r.ndig - 1 else 0) ≥ 6)) = true then
          r.fmtE buf (r.ndig - 1) 0 false false false true false false
            (if (fmt == 71) = true then 69 else 101) >>= fun x => pure x.2
        else if decide (r.exp < 0) = true then
          r.fmtF buf (0 - r.exp) 0 false false false false false >>= fun x => pure x.2
        else r.fmtF buf 0 0 false false false false false >>= fun x => pure x.2)
      else pure ((Array.push buf 37).push fmt)) := by
  unfold Gen.Append
  simp only [hs, Bool.false_eq_true, if_false, hp, decide_true, if_true]
  congr 1
  funext r
  split
  · split <;> rfl
  · split
    · split <;> rfl
    · split
      · by_cases h71 : (fmt == 71) = true <;> by_cases h1 : (r.ndig != 0) = true <;>
          simp only [h71, h1, if_true, if_false, Bool.false_eq_true]
      · rfl

end Emit
