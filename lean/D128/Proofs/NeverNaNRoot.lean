/-
  D128/Proofs/NeverNaNRoot.lean — property C15, clause "never yields NaN from finite operands otherwise":
  `Sqrt` and `Cbrt`, for ALL bit patterns and every valid default rounding mode.  Corollaries of C17.

  Provided (namespace `NN`):
  * `Sqrt_isNaN`  : `Sqrt d` is a NaN exactly when `d` is a NaN or `d` is negative and not a zero
                    (−Inf and negative finite numbers: the listed invalid case)
  * `Cbrt_isNaN`  : `Cbrt d` is a NaN exactly when `d` is
  * `Sqrt_invalid_payload` : in the invalid case the payload is `sqrt | class(d) << 8`
-/
import D128.Proofs.NeverNaNArith
import D128.Props.C17
set_option autoImplicit false

namespace NN
open Spec

local notation "𝔳[" d "]" => Spec.interp (Gen.Decimal.lo d) (Gen.Decimal.hi d)

theorem Sqrt_isNaN (g : Globals) (d : Gen.Decimal) (m : Mode)
    (hm : Mode.ofNat? g.DefaultRoundingMode.toNat = some m) :
    ∃ r, Gen.Sqrt g d = .ok r ∧
      Gen.Decimal.IsNaN r =
        (Gen.Decimal.IsNaN d || (Gen.Decimal.Signbit d && !Gen.Decimal.IsZero d)) := by
  rcases Enc.classify_partition d with ⟨a, b, c, e⟩ | ⟨a, b, c, e⟩ | ⟨a, b, c, e⟩ | ⟨a, b, c, e⟩
  · exact ⟨d, Props.C17.sqrt_nan g d a, by rw [a]; rfl⟩
  · cases hs : Gen.Decimal.Signbit d
    · exact ⟨d, Props.C17.sqrt_pos_inf g d b hs, by rw [a]; rfl⟩
    · exact ⟨_, (Props.C17.sqrt_neg_inf g d b hs).1, by rw [Enc.IsNaN_nan, a, e]; rfl⟩
  · exact ⟨d, Props.C17.sqrt_zero g d c e, by rw [a, e]; simp⟩
  · cases hs : Gen.Decimal.Signbit d
    · have hv := Enc.interp_decompose d c
      rw [hs] at hv
      obtain ⟨r, rc, re, hr, hrv, -⟩ := Props.C17.sqrt_any_mode g m d _ _ c e hs hv hm
      exact ⟨r, hr, by rw [← Enc.interp_isNaN, hrv, a]; rfl⟩
    · exact ⟨_, (Props.C17.sqrt_neg_finite g d c e hs).1, by rw [Enc.IsNaN_nan, a, e]; rfl⟩

theorem Cbrt_isNaN (g : Globals) (d : Gen.Decimal) (m : Mode)
    (hm : Mode.ofNat? g.DefaultRoundingMode.toNat = some m) :
    ∃ r, Gen.Cbrt g d = .ok r ∧ Gen.Decimal.IsNaN r = Gen.Decimal.IsNaN d := by
  rcases Enc.classify_partition d with ⟨a, b, c, e⟩ | ⟨a, b, c, e⟩ | ⟨a, b, c, e⟩ | ⟨a, b, c, e⟩
  · exact ⟨d, Props.C17.cbrt_nan g d a, rfl⟩
  · exact ⟨d, Props.C17.cbrt_inf g d b, rfl⟩
  · exact ⟨d, Props.C17.cbrt_zero g d e, rfl⟩
  · obtain ⟨r, rc, re, hr, hrv, -⟩ :=
      Props.C17.cbrt_any_mode g m d _ _ _ c e (Enc.interp_decompose d c) hm
    exact ⟨r, hr, by rw [← Enc.interp_isNaN, hrv, a]; rfl⟩

/-- the invalid operation of `Sqrt` (negative non-zero argument, −Inf included), every `Globals`:
    the result is a NaN whose payload decodes to `sqrt | class(d) << 8` -/
theorem Sqrt_invalid_payload (g : Globals) (d : Gen.Decimal)
    (hn : Gen.Decimal.IsNaN d = false) (hs : Gen.Decimal.Signbit d = true)
    (hz : Gen.Decimal.IsZero d = false) :
    ∃ r, Gen.Sqrt g d = .ok r ∧ Gen.Decimal.IsNaN r = true ∧
      Gen.Decimal.Payload_ r = .ok (Op.sqrt.code ||| classCode 𝔳[d] <<< 8 ||| (0 : UInt64) <<< 16) ∧
      𝔳[r] = invalid1 .sqrt 𝔳[d] := by
  rcases Enc.classify_partition d with ⟨a, b, c, e⟩ | ⟨a, b, c, e⟩ | ⟨a, b, c, e⟩ | ⟨a, b, c, e⟩
  · rw [a] at hn; cases hn
  · obtain ⟨h1, -, h3⟩ := Props.C17.sqrt_neg_inf g d b hs
    refine ⟨_, h1, Enc.IsNaN_nan _ _ _, ?_, h3⟩
    apply Sp.payload_of_same _ false
    rw [h3]; exact Sp.same_refl _
  · rw [e] at hz; cases hz
  · obtain ⟨h1, -, h3⟩ := Props.C17.sqrt_neg_finite g d c e hs
    refine ⟨_, h1, Enc.IsNaN_nan _ _ _, ?_, h3⟩
    apply Sp.payload_of_same _ false
    rw [h3]; exact Sp.same_refl _

end NN
