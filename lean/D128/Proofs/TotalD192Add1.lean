/-
  D128.Proofs.TotalD192Add1 — totality (termination, no panic) of `decomposed192.add1`,
  `decomposed192.sub1`, `decomposed192.add1neg` (x+1, x−1, 1−x in the working format), for every
  input (C20).

  * `d192_add1_triple`    : `⦃True⦄ add1 d t ⦃r => r.1.sig ≠ 0 ∧ (r.2 = t ∨ r.2 = 1)⦄`
  * `d192_sub1_triple`    : `⦃True⦄ sub1 d t ⦃r => r.2.1.sig ≠ 0 ∨ r.2.2 = t ∨ r.2.2 = 1⦄`
  * `d192_add1neg_triple` : `⦃True⦄ add1neg d t ⦃r => r.2.1.sig ≠ 0 ∨ r.2.2 = t ∨ r.2.2 = 1⦄`
  * `d192_add1_total`, `d192_sub1_total`, `d192_add1neg_total` : `∃ r, f … = .ok r ∧ …`.
  The table lookup `uint192PowersOf10[-d.exp]` is in range because the two scaling loops leave
  `-57 ≤ d.exp ≤ 0`.
-/
import D128.Proofs.TotalBase

set_option autoImplicit false
set_option mvcgen.warning false
set_option exponentiation.threshold 512

namespace D128.Proofs.Total
open Std.Do
open D128.Proofs.WordsWide

def A1Post (trunc : Int8) (r : Gen.decomposed192 × Int8) : Prop :=
  r.1.sig.toNat ≠ 0 ∧ (r.2 = trunc ∨ r.2 = 1)

@[spec] theorem d192_add1_triple (d : Gen.decomposed192) (trunc : Int8) :
    ⦃⌜True⌝⦄ Gen.decomposed192.add1 d trunc
    ⦃⇓ r => ⌜r.1.sig.toNat ≠ 0 ∧ (r.2 = trunc ∨ r.2 = 1)⌝⦄ := by
  mvcgen [Gen.decomposed192.add1]
  case inv1 | inv3 => exact fun st => ⟨dn16 st.2.1.exp⟩
  case inv2 => exact ⇓ x => match x with
    | .inl st => ⌜st.1 = none ∧ st.2.1.sig.toNat ≠ 0 ∧ -116 ≤ st.2.1.exp ∧ st.2.1.exp ≤ 0 ∧
        (st.2.2 = trunc ∨ st.2.2 = 1)⌝
    | .inr st => ⌜match st.1 with
        | some v => A1Post trunc v
        | none => st.2.1.sig.toNat ≠ 0 ∧ -62 ≤ st.2.1.exp ∧ st.2.1.exp ≤ 0 ∧
            (st.2.2 = trunc ∨ st.2.2 = 1)⌝
  case inv4 => exact ⇓ x => match x with
    | .inl st => ⌜st.1 = none ∧ st.2.1.sig.toNat ≠ 0 ∧ -62 ≤ st.2.1.exp ∧ st.2.1.exp ≤ 0 ∧
        (st.2.2 = trunc ∨ st.2.2 = 1)⌝
    | .inr st => ⌜match st.1 with
        | some v => A1Post trunc v
        | none => st.2.1.sig.toNat ≠ 0 ∧ -57 ≤ st.2.1.exp ∧ st.2.1.exp ≤ 0 ∧
            (st.2.2 = trunc ∨ st.2.2 = 1)⌝
  case inv5 | inv7 => exact fun st => ⟨up16 st.exp⟩
  case inv6 | inv8 => exact ⇓ x => match x with
    | .inl st => ⌜st.sig.toNat ≠ 0 ∧ 0 ≤ st.exp⌝
    | .inr st => ⌜st.sig.toNat ≠ 0 ∧ 0 ≤ st.exp⌝
  all_goals (simp +zetaDelta [A1Post] at *)
  all_goals d192_prep
  all_goals d192_fin

theorem d192_add1_total (d : Gen.decomposed192) (trunc : Int8) :
    ∃ r, Gen.decomposed192.add1 d trunc = .ok r ∧ r.1.sig.toNat ≠ 0 ∧ (r.2 = trunc ∨ r.2 = 1) :=
  ok_of_triple (d192_add1_triple d trunc)

def S1Post (trunc : Int8) (r : Bool × Gen.decomposed192 × Int8) : Prop :=
  r.2.1.sig.toNat ≠ 0 ∨ r.2.2 = trunc ∨ r.2.2 = 1

@[spec] theorem d192_sub1_triple (d : Gen.decomposed192) (trunc : Int8) :
    ⦃⌜True⌝⦄ Gen.decomposed192.sub1 d trunc
    ⦃⇓ r => ⌜r.2.1.sig.toNat ≠ 0 ∨ r.2.2 = trunc ∨ r.2.2 = 1⌝⦄ := by
  mvcgen [Gen.decomposed192.sub1]
  case inv1 | inv3 => exact fun st => ⟨dn16 st.2.1.exp⟩
  case inv2 => exact ⇓ x => match x with
    | .inl st => ⌜st.1 = none ∧ st.2.1.sig.toNat ≠ 0 ∧ -116 ≤ st.2.1.exp ∧ st.2.1.exp ≤ 0 ∧
        (st.2.2 = trunc ∨ st.2.2 = 1)⌝
    | .inr st => ⌜match st.1 with
        | some v => S1Post trunc v
        | none => st.2.1.sig.toNat ≠ 0 ∧ -62 ≤ st.2.1.exp ∧ st.2.1.exp ≤ 0 ∧
            (st.2.2 = trunc ∨ st.2.2 = 1)⌝
  case inv4 => exact ⇓ x => match x with
    | .inl st => ⌜st.1 = none ∧ st.2.1.sig.toNat ≠ 0 ∧ -62 ≤ st.2.1.exp ∧ st.2.1.exp ≤ 0 ∧
        (st.2.2 = trunc ∨ st.2.2 = 1)⌝
    | .inr st => ⌜match st.1 with
        | some v => S1Post trunc v
        | none => st.2.1.sig.toNat ≠ 0 ∧ -57 ≤ st.2.1.exp ∧ st.2.1.exp ≤ 0 ∧
            (st.2.2 = trunc ∨ st.2.2 = 1)⌝
  case inv5 | inv7 => exact fun st => ⟨up16 st.exp⟩
  case inv6 | inv8 => exact ⇓ x => match x with
    | .inl st => ⌜st.sig.toNat ≠ 0 ∧ 0 ≤ st.exp⌝
    | .inr st => ⌜st.sig.toNat ≠ 0 ∧ 0 ≤ st.exp⌝
  all_goals (simp +zetaDelta [S1Post] at *)
  all_goals d192_prep
  all_goals d192_fin

theorem d192_sub1_total (d : Gen.decomposed192) (trunc : Int8) :
    ∃ r, Gen.decomposed192.sub1 d trunc = .ok r ∧
      (r.2.1.sig.toNat ≠ 0 ∨ r.2.2 = trunc ∨ r.2.2 = 1) :=
  ok_of_triple (d192_sub1_triple d trunc)

@[spec] theorem d192_add1neg_triple (d : Gen.decomposed192) (trunc : Int8) :
    ⦃⌜True⌝⦄ Gen.decomposed192.add1neg d trunc
    ⦃⇓ r => ⌜r.2.1.sig.toNat ≠ 0 ∨ r.2.2 = trunc ∨ r.2.2 = 1⌝⦄ := by
  mvcgen [Gen.decomposed192.add1neg]
  case inv1 | inv3 => exact fun st => ⟨dn16 st.2.1.exp⟩
  case inv2 => exact ⇓ x => match x with
    | .inl st => ⌜st.1 = none ∧ st.2.1.sig.toNat ≠ 0 ∧ -116 ≤ st.2.1.exp ∧ st.2.1.exp ≤ 0 ∧
        (st.2.2 = trunc ∨ st.2.2 = 1)⌝
    | .inr st => ⌜match st.1 with
        | some v => S1Post trunc v
        | none => st.2.1.sig.toNat ≠ 0 ∧ -62 ≤ st.2.1.exp ∧ st.2.1.exp ≤ 0 ∧
            (st.2.2 = trunc ∨ st.2.2 = 1)⌝
  case inv4 => exact ⇓ x => match x with
    | .inl st => ⌜st.1 = none ∧ st.2.1.sig.toNat ≠ 0 ∧ -62 ≤ st.2.1.exp ∧ st.2.1.exp ≤ 0 ∧
        (st.2.2 = trunc ∨ st.2.2 = 1)⌝
    | .inr st => ⌜match st.1 with
        | some v => S1Post trunc v
        | none => st.2.1.sig.toNat ≠ 0 ∧ -57 ≤ st.2.1.exp ∧ st.2.1.exp ≤ 0 ∧
            (st.2.2 = trunc ∨ st.2.2 = 1)⌝
  case inv5 | inv7 => exact fun st => ⟨up16 st.exp⟩
  case inv6 | inv8 => exact ⇓ x => match x with
    | .inl st => ⌜st.sig.toNat ≠ 0 ∧ 0 ≤ st.exp⌝
    | .inr st => ⌜st.sig.toNat ≠ 0 ∧ 0 ≤ st.exp⌝
  all_goals (simp +zetaDelta [S1Post] at *)
  all_goals d192_prep
  all_goals d192_fin

theorem d192_add1neg_total (d : Gen.decomposed192) (trunc : Int8) :
    ∃ r, Gen.decomposed192.add1neg d trunc = .ok r ∧
      (r.2.1.sig.toNat ≠ 0 ∨ r.2.2 = trunc ∨ r.2.2 = 1) :=
  ok_of_triple (d192_add1neg_triple d trunc)

example : ∃ r, Gen.decomposed192.add1 Gen.ln2 0 = .ok r ∧ r.1.sig.toNat ≠ 0 := by
  obtain ⟨r, h, h1, _⟩ := d192_add1_total Gen.ln2 0
  exact ⟨r, h, h1⟩

end D128.Proofs.Total
