/-
  D128/Proofs/LogAccP1Math.lean — the rational arithmetic behind `decomposed192.log1p`
  (Go: /repo/decomposed.go): the polynomial that is evaluated and one step of the error recursion.

  Provided (namespace `LogAcc`):
  * `sgn neg j`, `term neg x j`, `Pk neg x k`, `P10 neg x` : `s_j = 1` if `neg` or `j` odd else `-1`;
        `term = s_j·x^j/j`; `Pk = Σ_{j=1}^{k} term`; `P10 = Pk · 10`
  * `Pk_succ`, `Pk_one`, `P10_false`, `P10_true`            : recursion and the explicit polynomials
  * `term_abs_le`, `Pk_near`                               : `|term j| ≤ x²` (`j ≥ 2`), `|Pk k - x| ≤ (k-1)·x²`
  * `num_step`, `tmp_step`, `res_step`                     : one pass of the loop in ℚ
  * `pow_succ_le_small`                                    : `x^(k+1) ≤ x·10^-9 ` for `k ≥ 1`, `x ≤ 10^-9`
-/
import Mathlib.Tactic.Ring
import Mathlib.Tactic.Linarith
import Mathlib.Tactic.NormNum
import Mathlib.Tactic.Positivity
import Mathlib.Tactic.FieldSimp
import Mathlib.Algebra.BigOperators.Group.Finset.Basic
import Mathlib.Algebra.Order.AbsoluteValue.Basic
import Mathlib.Data.Rat.Cast.Order
set_option autoImplicit false
set_option linter.unusedVariables false

namespace LogAcc

/-- sign of the `j`-th term: all `+` for a negative argument (`-ln(1-|x|)`), alternating otherwise -/
def sgn (neg : Bool) (j : Nat) : ℚ := if neg || j % 2 == 1 then 1 else -1

/-- the `j`-th term of the series -/
def term (neg : Bool) (x : ℚ) (j : Nat) : ℚ := sgn neg j * x ^ j / (j : ℚ)

/-- the first `k` terms -/
def Pk (neg : Bool) (x : ℚ) (k : Nat) : ℚ := ∑ j ∈ Finset.range k, term neg x (j + 1)

/-- the polynomial evaluated by `decomposed192.log1p` -/
def P10 (neg : Bool) (x : ℚ) : ℚ := Pk neg x 10

theorem Pk_succ (neg : Bool) (x : ℚ) (k : Nat) : Pk neg x (k + 1) = Pk neg x k + term neg x (k + 1) := by
  unfold Pk; rw [Finset.sum_range_succ]

theorem Pk_one (neg : Bool) (x : ℚ) : Pk neg x 1 = x := by
  unfold Pk term sgn; cases neg <;> simp

theorem P10_false (x : ℚ) : P10 false x =
    x - x ^ 2 / 2 + x ^ 3 / 3 - x ^ 4 / 4 + x ^ 5 / 5 - x ^ 6 / 6 + x ^ 7 / 7 - x ^ 8 / 8 + x ^ 9 / 9
      - x ^ 10 / 10 := by
  unfold P10 Pk term sgn
  simp only [Finset.sum_range_succ, Finset.sum_range_zero]
  norm_num
  ring

theorem P10_true (x : ℚ) : P10 true x =
    x + x ^ 2 / 2 + x ^ 3 / 3 + x ^ 4 / 4 + x ^ 5 / 5 + x ^ 6 / 6 + x ^ 7 / 7 + x ^ 8 / 8 + x ^ 9 / 9
      + x ^ 10 / 10 := by
  unfold P10 Pk term sgn
  simp only [Finset.sum_range_succ, Finset.sum_range_zero]
  norm_num

theorem sgn_cases (neg : Bool) (j : Nat) : sgn neg j = 1 ∨ sgn neg j = -1 := by
  unfold sgn; split
  · exact Or.inl rfl
  · exact Or.inr rfl

theorem term_eq (neg : Bool) (x : ℚ) (j : Nat) : term neg x j = sgn neg j * (x ^ j / (j : ℚ)) := by
  unfold term; ring

theorem pow_le_sq (x : ℚ) (hx0 : 0 ≤ x) (hx1 : x ≤ 1) (j : Nat) (hj : 2 ≤ j) : x ^ j ≤ x ^ 2 :=
  pow_le_pow_of_le_one hx0 hx1 hj

theorem term_abs_le (neg : Bool) (x : ℚ) (hx0 : 0 ≤ x) (hx1 : x ≤ 1) (j : Nat) (hj : 2 ≤ j) :
    |term neg x j| ≤ x ^ 2 := by
  have hjq : (1 : ℚ) ≤ (j : ℚ) := by exact_mod_cast (by omega : 1 ≤ j)
  have hp : 0 ≤ x ^ j := pow_nonneg hx0 j
  have h1 : x ^ j / (j : ℚ) ≤ x ^ j := div_le_self hp hjq
  have h0 : 0 ≤ x ^ j / (j : ℚ) := div_nonneg hp (by linarith)
  have h2 := pow_le_sq x hx0 hx1 j hj
  rw [term_eq]
  rcases sgn_cases neg j with h | h <;> rw [h, abs_le] <;> constructor <;> nlinarith

theorem Pk_near (neg : Bool) (x : ℚ) (hx0 : 0 ≤ x) (hx1 : x ≤ 1) :
    ∀ k : Nat, |Pk neg x (k + 1) - x| ≤ (k : ℚ) * x ^ 2
  | 0 => by rw [Pk_one]; simp
  | k + 1 => by
      have ih := Pk_near neg x hx0 hx1 k
      have ht := term_abs_le neg x hx0 hx1 (k + 2) (by omega)
      rw [Pk_succ]
      rw [abs_le] at ih ht ⊢
      push_cast
      constructor <;> nlinarith [ih.1, ih.2, ht.1, ht.2]

theorem pow_succ_le_small (x : ℚ) (hx0 : 0 ≤ x) (hx : x ≤ 1 / 10 ^ 9) (k : Nat) (hk : 1 ≤ k) :
    x ^ (k + 1) ≤ x * (1 / 10 ^ 9) := by
  have hx1 : x ≤ 1 := le_trans hx (by norm_num)
  have h1 : x ^ k ≤ x ^ 1 := pow_le_pow_of_le_one hx0 hx1 hk
  rw [pow_one] at h1
  rw [pow_succ]
  calc x ^ k * x ≤ x * x := mul_le_mul_of_nonneg_right h1 hx0
    _ ≤ x * (1 / 10 ^ 9) := mul_le_mul_of_nonneg_left hx hx0

/-- the running power: `num ← num·x` truncated by relative `L` -/
theorem num_step (x L q a n n' : ℚ) (hq : 0 ≤ q) (hx : 0 ≤ x) (ha : 0 ≤ a) (hL0 : 0 ≤ L) (hL : L ≤ 1)
    (h1 : q * (1 - a) ≤ n) (h2 : n ≤ q) (h3 : n * x * (1 - L) ≤ n') (h4 : n' ≤ n * x) :
    q * x * (1 - (a + L)) ≤ n' ∧ n' ≤ q * x := by
  constructor
  · have hxl : 0 ≤ x * (1 - L) := mul_nonneg hx (by linarith)
    have s1 : q * (1 - a) * (x * (1 - L)) ≤ n * (x * (1 - L)) := mul_le_mul_of_nonneg_right h1 hxl
    have s2 : 0 ≤ q * x * (a * L) := mul_nonneg (mul_nonneg hq hx) (mul_nonneg ha hL0)
    nlinarith
  · exact le_trans h4 (mul_le_mul_of_nonneg_right h2 hx)

/-- the term: `tmp ← num/j` truncated by relative `L` -/
theorem tmp_step (p b L j n' tmp : ℚ) (hp : 0 ≤ p) (hb0 : 0 ≤ b) (hL0 : 0 ≤ L) (hL : L ≤ 1)
    (hj : 0 < j) (hbj : b + L = j * L)
    (h1 : p * (1 - b) ≤ n') (h2 : n' ≤ p) (h3 : n' / j * (1 - L) ≤ tmp) (h4 : tmp ≤ n' / j) :
    p / j - p * L ≤ tmp ∧ tmp ≤ p / j := by
  constructor
  · have hl : 0 ≤ (1 - L) / j := div_nonneg (by linarith) hj.le
    have s1 : p * (1 - b) * ((1 - L) / j) ≤ n' * ((1 - L) / j) := mul_le_mul_of_nonneg_right h1 hl
    have e1 : n' * ((1 - L) / j) = n' / j * (1 - L) := by ring
    have e2 : p * (1 - b) * ((1 - L) / j) = p / j - p * ((b + L) / j) + p * (b * L) / j := by
      field_simp; ring
    have e3 : (b + L) / j = L := by rw [hbj]; field_simp
    have s2 : 0 ≤ p * (b * L) / j := div_nonneg (mul_nonneg hp (mul_nonneg hb0 hL0)) hj.le
    rw [e1, e2, e3] at s1
    linarith
  · exact le_trans h4 (div_le_div_of_nonneg_right h2 hj.le)

/-- the accumulator: `res ← res ± tmp` with an error of at most `L·(res + tmp)` -/
theorem res_step (x L S E T p res tmp res' σ : ℚ) (hσ : σ = 1 ∨ σ = -1)
    (hx : 0 < x) (hL0 : 0 ≤ L) (hS : |S - x| ≤ x / 100) (hE0 : 0 ≤ E) (hE : E ≤ x / 100)
    (hp0 : 0 ≤ p) (hp : p ≤ x / 100) (hT : T ≤ p)
    (hres : |res - S| ≤ E) (htmp1 : T - p * L ≤ tmp) (htmp2 : tmp ≤ T)
    (hr : |res' - (res + σ * tmp)| ≤ L * (res + tmp)) :
    |res' - (S + σ * T)| ≤ E + 11 / 10 * L * x := by
  rw [abs_le] at hS hres hr
  have hsum : res + tmp ≤ 103 / 100 * x := by linarith [hS.2, hres.2]
  have h1 : L * (res + tmp) ≤ L * (103 / 100 * x) := mul_le_mul_of_nonneg_left hsum hL0
  have h2 : p * L ≤ x / 100 * L := mul_le_mul_of_nonneg_right hp hL0
  have h3 : 0 ≤ p * L := mul_nonneg hp0 hL0
  rw [abs_le]
  rcases hσ with h | h <;> subst h <;> constructor <;> nlinarith [hr.1, hr.2, hres.1, hres.2]

end LogAcc
