/-
  D128/Proofs/FloatFromBig.lean — the `div10`/`lsh` loop of `FromFloat64` for |f| ≥ 2^(53+192).

  Provided (namespace `FF`):
  * `BigInv`, `BigPost` : loop invariant / post-condition: with `X = V / (10^k · 2^sh)` the register
      satisfies `sig ≤ X ≤ sig·(1 + k·2^-250)`, the sticky flag is set exactly when `sig < X`
  * `big_arith`  : the arithmetic of one pass
  * `bigLoop_spec` : the loop terminates without panic and establishes `BigPost`
-/
import D128.Proofs.FloatFromWords
import D128.Proofs.RoundKernelReduceCode
import Mathlib.Tactic.Positivity
import Mathlib.Tactic.FieldSimp
import Mathlib.Tactic.NormNum

set_option autoImplicit false
set_option maxRecDepth 8192

namespace FF
open Gen

/-- relation between the exact scaled value `X`, the register `sig`, the number of passes `k` and the
    sticky flag `t` -/
def Approx (X : ℚ) (sig k : Nat) (t : Int) : Prop :=
  (sig : ℚ) ≤ X ∧ X * 2 ^ 250 ≤ (sig : ℚ) * (2 ^ 250 + k) ∧
    ((t = 0 ∧ X = sig) ∨ (t = 1 ∧ (sig : ℚ) < X))

/-- one pass: divide by ten (remainder `r`), multiply by `2^z` -/
theorem big_arith (X : ℚ) (q r k z : Nat) (t : Int) (hr : r ≤ 9) (hq : 2 ^ 251 ≤ q) (hk : k ≤ 2 ^ 20)
    (h : Approx X (10 * q + r) k t) :
    Approx (X * 2 ^ z / 10) (q * 2 ^ z) (k + 1) (if r ≠ 0 then 1 else t) := by
  unfold Approx at h ⊢
  obtain ⟨h1, h2, h3⟩ := h
  have hz : (0 : ℚ) < 2 ^ z := by positivity
  have hq' : (2 : ℚ) ^ 251 ≤ q := by exact_mod_cast hq
  have hr' : (r : ℚ) ≤ 9 := by exact_mod_cast hr
  have hk' : (k : ℚ) ≤ 2 ^ 20 := by exact_mod_cast hk
  have hr0 : (0 : ℚ) ≤ r := by positivity
  have hk0 : (0 : ℚ) ≤ k := by positivity
  push_cast at h1 h2 h3 ⊢
  have hrk : (r : ℚ) * k ≤ 9 * 2 ^ 20 := by
    calc (r : ℚ) * k ≤ 9 * k := mul_le_mul_of_nonneg_right hr' hk0
      _ ≤ 9 * 2 ^ 20 := by linarith
  refine ⟨?_, ?_, ?_⟩
  · rw [le_div_iff₀ (by norm_num : (0 : ℚ) < 10)]
    have : (q : ℚ) * 2 ^ z * 10 = (10 * q) * 2 ^ z := by ring
    rw [this]
    exact mul_le_mul_of_nonneg_right (by linarith) (le_of_lt hz)
  · have e1 : X * 2 ^ z / 10 * 2 ^ 250 = (X * 2 ^ 250) * (2 ^ z / 10) := by ring
    have e2 : (q : ℚ) * 2 ^ z * (2 ^ 250 + ((k : ℚ) + 1)) = (10 * q * (2 ^ 250 + k + 1)) * (2 ^ z / 10) := by
      ring
    rw [e1, e2]
    apply mul_le_mul_of_nonneg_right _ (by positivity)
    have : (10 * (q : ℚ) + r) * (2 ^ 250 + k) = 10 * q * (2 ^ 250 + k) + r * 2 ^ 250 + r * k := by ring
    rw [this] at h2
    have : (r : ℚ) * 2 ^ 250 ≤ 9 * 2 ^ 250 := mul_le_mul_of_nonneg_right hr' (by positivity)
    nlinarith
  · by_cases hr0' : r = 0
    · subst hr0'
      simp only [ne_eq, not_true_eq_false, if_false]
      rcases h3 with ⟨ht, hX⟩ | ⟨ht, hX⟩
      · left; refine ⟨ht, ?_⟩
        rw [hX]; push_cast; ring
      · right; refine ⟨ht, ?_⟩
        rw [lt_div_iff₀ (by norm_num : (0 : ℚ) < 10)]
        have : (q : ℚ) * 2 ^ z * 10 = (10 * q + (0 : Nat)) * 2 ^ z := by push_cast; ring
        rw [this]
        exact mul_lt_mul_of_pos_right hX hz
    · simp only [ne_eq, hr0', not_false_eq_true, if_true]
      right; refine ⟨trivial, ?_⟩
      rw [lt_div_iff₀ (by norm_num : (0 : ℚ) < 10)]
      have hrpos : (0 : ℚ) < r := by
        have : 0 < r := Nat.pos_of_ne_zero hr0'
        exact_mod_cast this
      have : (q : ℚ) * 2 ^ z * 10 < (10 * q + r) * 2 ^ z := by nlinarith
      calc (q : ℚ) * 2 ^ z * 10 < (10 * q + r) * 2 ^ z := this
        _ ≤ X * 2 ^ z := mul_le_mul_of_nonneg_right h1 (le_of_lt hz)

/-- loop invariant: `k` passes done, `sh` bits still to shift in, top bit of the register set -/
def BigInv (V : ℚ) (S0 : Nat) (s : St) : Prop :=
  ∃ k sh : Nat, s.1.toInt = 6176 + k ∧ s.2.1.toInt = sh ∧ k + sh ≤ S0 ∧ 2 ^ 255 ≤ s.2.2.1.toNat ∧
    Approx (V / (10 ^ k * 2 ^ sh)) s.2.2.1.toNat k s.2.2.2.1.toInt

/-- post-condition: all bits shifted in -/
def BigPost (V : ℚ) (S0 : Nat) (s : St) : Prop :=
  ∃ k : Nat, s.1.toInt = 6176 + k ∧ k ≤ S0 ∧ 2 ^ 251 ≤ s.2.2.1.toNat ∧
    Approx (V / 10 ^ k) s.2.2.1.toNat k s.2.2.2.1.toInt

theorem u64_ne_zero_iff' (r : UInt64) : (r != 0) = decide (r.toNat ≠ 0) := by
  rw [Bool.eq_iff_iff, bne_iff_ne, decide_eq_true_eq, ne_eq, ne_eq, ← UInt64.toNat_inj]
  rfl

theorem int8_ite_toInt (c : Prop) [Decidable c] (t : Int8) :
    (if c then (1 : Int8) else t).toInt = if c then 1 else t.toInt := by
  split <;> rfl

theorem bigBody_step (V : ℚ) (S0 : Nat) (hS : S0 ≤ 2000) (b : St) (hb : BigInv V S0 b) :
    (∃ b', bigBody () b = .ok (.yield b') ∧ BigInv V S0 b' ∧ b'.2.1.toInt.toNat < b.2.1.toInt.toNat) ∨
    (∃ b', bigBody () b = .ok (.done b') ∧ BigPost V S0 b') := by
  obtain ⟨k, sh, he, hsh, hks, hbig, happ⟩ := hb
  have h256 := D128.Proofs.WordsWide.U256.toNat_lt b.2.2.1
  by_cases h0 : sh = 0
  · right
    subst h0
    refine ⟨(b.1, b.2.1, b.2.2.1, b.2.2.2.1, b.2.2.2.2), ?_, k, he, by omega,
      by show 2 ^ 251 ≤ b.2.2.1.toNat; omega, ?_⟩
    · have : (b.2.1 != 0) = false := by rw [i64_ne_zero, hsh]; simp
      simp only [bigBody, this]; rfl
    · simpa using happ
  · obtain ⟨q, r, ediv, hq, hr⟩ := D128.Proofs.WordsWide.U256_div10_eq b.2.2.1
    have hsig : b.2.2.1.toNat = 10 * q.toNat + r.toNat := by rw [hq, hr]; omega
    have hr9 : r.toNat ≤ 9 := by rw [hr]; omega
    have hq251 : 2 ^ 251 ≤ q.toNat := by rw [hq]; omega
    have hq253 : q.toNat < 2 ^ 253 := by rw [hq]; omega
    obtain ⟨z, hz, hz64, hzlt, hzbig, _⟩ := lz_w3 q
    obtain ⟨hz63, hz255⟩ := hzbig (by omega)
    have hz1 : 1 ≤ z := by
      by_contra hc
      have : z = 0 := by omega
      subst this
      simp at hz255; omega
    have hc0 : (b.2.1 != 0) = true := by rw [i64_ne_zero, hsh]; simp; omega
    have hexp : (b.1 + 1).toInt = 6176 + ((k + 1 : Nat) : Int) := by
      rw [Int16.toInt_add_of] <;> simp <;> omega
    rw [hsig] at happ
    have htr : (if (r != 0) = true then (1 : Int8) else b.2.2.2.1).toInt
        = if r.toNat ≠ 0 then 1 else b.2.2.2.1.toInt := by
      rw [u64_ne_zero_iff', int8_ite_toInt]; simp
    by_cases hgt : (sh : Int) > z
    · left
      have hcg : decide (b.2.1 > Go.bits.LeadingZeros64 q.w3) = true := by
        rw [i64_gt, hsh, hz]; simpa using hgt
      have hsub : (b.2.1 - Go.bits.LeadingZeros64 q.w3).toInt = ((sh - z : Nat) : Int) := by
        rw [i64_sub] <;> rw [hsh, hz] <;> omega
      have hconv : (Go.conv (Go.bits.LeadingZeros64 q.w3) : UInt64).toNat = z := by
        rw [i64_conv_u64 _ (by rw [hz]; omega), hz]; simp
      have hlsh : (U256.lsh q (Go.conv (Go.bits.LeadingZeros64 q.w3))).toNat = q.toNat * 2 ^ z := by
        rw [D128.Proofs.WordsWide.U256_lsh_toNat, hconv, Nat.mod_eq_of_lt hzlt]
      have hX : V / (10 ^ (k + 1) * 2 ^ (sh - z)) = V / (10 ^ k * 2 ^ sh) * 2 ^ z / 10 := by
        have : (2 : ℚ) ^ sh = 2 ^ (sh - z) * 2 ^ z := by rw [← pow_add]; congr 1; omega
        rw [this, pow_succ]
        field_simp
      refine ⟨(b.1 + 1, b.2.1 - Go.bits.LeadingZeros64 q.w3,
          U256.lsh q (Go.conv (Go.bits.LeadingZeros64 q.w3)),
          (if (r != 0) = true then 1 else b.2.2.2.1), Go.bits.LeadingZeros64 q.w3), ?_,
        ⟨k + 1, sh - z, hexp, hsub, by omega, by rw [hlsh]; exact hz255, ?_⟩, ?_⟩
      · simp only [bigBody, hc0, if_true, ediv, D128.Proofs.WordsWide.ok_bind, hcg]
        by_cases hd : (r != 0) = true
        · simp only [hd, if_true]; rfl
        · simp only [hd]; rfl
      · show Approx _ (U256.lsh q _).toNat (k + 1) (if (r != 0) = true then (1 : Int8) else b.2.2.2.1).toInt
        rw [hlsh, htr, hX]
        exact big_arith _ _ _ _ _ _ hr9 hq251 (by omega) happ
      · show (b.2.1 - Go.bits.LeadingZeros64 q.w3).toInt.toNat < b.2.1.toInt.toNat
        rw [hsub, hsh]; omega
    · right
      have hcg : decide (b.2.1 > Go.bits.LeadingZeros64 q.w3) = false := by
        rw [i64_gt, hsh, hz]; simpa using hgt
      have hconv : (Go.conv b.2.1 : UInt64).toNat = sh := by
        rw [i64_conv_u64 _ (by rw [hsh]; omega), hsh]; simp
      have hle : q.toNat * 2 ^ sh ≤ q.toNat * 2 ^ z :=
        Nat.mul_le_mul_left _ (Nat.pow_le_pow_right (by norm_num) (by omega))
      have hlsh : (U256.lsh q (Go.conv b.2.1)).toNat = q.toNat * 2 ^ sh := by
        rw [D128.Proofs.WordsWide.U256_lsh_toNat, hconv, Nat.mod_eq_of_lt (by omega)]
      have hX : V / 10 ^ (k + 1) = V / (10 ^ k * 2 ^ sh) * 2 ^ sh / 10 := by
        rw [pow_succ]
        field_simp
      refine ⟨(b.1 + 1, b.2.1, U256.lsh q (Go.conv b.2.1),
          (if (r != 0) = true then 1 else b.2.2.2.1), Go.bits.LeadingZeros64 q.w3), ?_,
        k + 1, hexp, by omega, ?_, ?_⟩
      · simp only [bigBody, hc0, if_true, ediv, D128.Proofs.WordsWide.ok_bind, hcg]
        by_cases hd : (r != 0) = true
        · simp only [hd, if_true]; rfl
        · simp only [hd]; rfl
      · show 2 ^ 251 ≤ (U256.lsh q (Go.conv b.2.1)).toNat
        rw [hlsh]
        calc 2 ^ 251 ≤ q.toNat := hq251
          _ ≤ q.toNat * 2 ^ sh := Nat.le_mul_of_pos_right _ (Nat.pow_pos (by norm_num))
      · show Approx _ (U256.lsh q _).toNat (k + 1) (if (r != 0) = true then (1 : Int8) else b.2.2.2.1).toInt
        rw [hlsh, htr, hX]
        exact big_arith _ _ _ _ _ _ hr9 hq251 (by omega) happ

/-- the `div10`/`lsh` loop terminates without panic and keeps the scaled value within
    `sig ≤ X ≤ sig·(1 + k·2^-250)` -/
theorem bigLoop_spec (V : ℚ) (S0 : Nat) (hS : S0 ≤ 2000) (st : St) (hst : BigInv V S0 st) :
    ∃ st', forIn (m := Go.GoM) Lean.Loop.mk st bigBody = .ok st' ∧ BigPost V S0 st' :=
  RK.loop_inv bigBody (BigInv V S0) (BigPost V S0) (fun s => s.2.1.toInt.toNat)
    (fun b hb => bigBody_step V S0 hS b hb) st hst

end FF
