/-
  The executable specification `Spec/Val.lean` is the mathematical notion it claims to be, part 1:
  powers of ten, digit counts, decimal logarithm, splitting at an exponent, spacing exponent.

  1. `pow10_eq_zpow e : Spec.pow10 e = (10:ℚ)^e`, `pow10_pos`, `pow10_add`, `pow10_sub`, `pow10_neg`,
     `pow10_mono`, `pow10_strictMono`, `pow10_le_iff`, `pow10_lt_iff`, `pow10_natCast`
  2. `ndigitsSlow_spec n : n ≠ 0 → 10^(ndigitsSlow n - 1) ≤ n ∧ n < 10^(ndigitsSlow n)`,
     `ndigits_eq_ndigitsSlow n : ndigits n = ndigitsSlow n` (all n), `ndigits_spec`, `ndigits_unique`,
     `ndigits_eq_of`
  3. `ilog10_spec q : 0 < q → 10^(ilog10 q) ≤ q ∧ q < 10^(ilog10 q + 1)`, `ilog10_unique`, `ilog10_eq_of`
  4. `splitOf s` (mathematical split of s: ⌊s⌋₊, comparison of s-⌊s⌋₊ with 1/2, s-⌊s⌋₊ = 0),
     `splitAt_eq_splitOf q (0 ≤ q) e : splitAt q e = splitOf (q / 10^e)` (both code paths),
     `splitOf_spec`, `splitAt_spec` (component-wise form)
  5. `coef q e := ⌊q/10^e⌋₊`, `coef_antitone`, `coef_scale`,
     `spacingExpRaw_spec q : 0 < q → coef q (spacingExpRaw q) ≤ Cmax ∧ Cmax < coef q (spacingExpRaw q - 1)`,
     `spacingExpRaw_unique`, `spacingExpRaw_eq_of`, `coef_le_Cmax_iff` (minimality),
     `spacingExpRaw_scale : spacingExpRaw (q * 10^j) = spacingExpRaw q + j`,
     `spacingExpS_eq` (= max Emin (raw + k)), `spacingExpS_scale`, `spacingExpS_spec`
-/
import D128.Spec.Val
import Mathlib.Data.Rat.Floor
import Mathlib.Algebra.Order.Floor.Ring
import Mathlib.Tactic.Linarith
import Mathlib.Tactic.Positivity
import Mathlib.Tactic.FieldSimp
import Mathlib.Tactic.Ring
import Mathlib.Tactic.NormNum

namespace SpecRound
open Spec

/-! ## 1. pow10 -/

theorem pow10_eq_zpow (e : Int) : Spec.pow10 e = (10 : Rat) ^ e := by
  unfold Spec.pow10
  split
  · rename_i h
    conv_rhs => rw [← Int.toNat_of_nonneg h]
    rw [zpow_natCast]
  · rename_i h
    have h' : 0 ≤ -e := by omega
    have : e = -((-e).toNat : Int) := by rw [Int.toNat_of_nonneg h']; ring
    conv_rhs => rw [this]
    rw [zpow_neg, zpow_natCast, one_div]

theorem pow10_pos (e : Int) : 0 < Spec.pow10 e := by
  rw [pow10_eq_zpow]; exact zpow_pos (by norm_num) e

theorem pow10_ne_zero (e : Int) : Spec.pow10 e ≠ 0 := (pow10_pos e).ne'

theorem pow10_add (a b : Int) : Spec.pow10 (a + b) = Spec.pow10 a * Spec.pow10 b := by
  simp only [pow10_eq_zpow]; exact zpow_add₀ (by norm_num) a b

theorem pow10_sub (a b : Int) : Spec.pow10 (a - b) = Spec.pow10 a / Spec.pow10 b := by
  simp only [pow10_eq_zpow]; exact zpow_sub₀ (by norm_num) a b

theorem pow10_neg (a : Int) : Spec.pow10 (-a) = (Spec.pow10 a)⁻¹ := by
  simp only [pow10_eq_zpow]; exact zpow_neg _ a

theorem pow10_zero : Spec.pow10 0 = 1 := by simp [pow10_eq_zpow]

theorem pow10_natCast (n : Nat) : Spec.pow10 (n : Int) = ((10 ^ n : Nat) : Rat) := by
  rw [pow10_eq_zpow, zpow_natCast]; push_cast; rfl

theorem pow10_mono {a b : Int} (h : a ≤ b) : Spec.pow10 a ≤ Spec.pow10 b := by
  simp only [pow10_eq_zpow]; exact zpow_le_zpow_right₀ (by norm_num) h

theorem pow10_strictMono {a b : Int} (h : a < b) : Spec.pow10 a < Spec.pow10 b := by
  simp only [pow10_eq_zpow]; exact zpow_lt_zpow_right₀ (by norm_num) h

theorem pow10_le_iff {a b : Int} : Spec.pow10 a ≤ Spec.pow10 b ↔ a ≤ b := by
  simp only [pow10_eq_zpow]; exact zpow_le_zpow_iff_right₀ (by norm_num)

theorem pow10_lt_iff {a b : Int} : Spec.pow10 a < Spec.pow10 b ↔ a < b := by
  simp only [pow10_eq_zpow]; exact zpow_lt_zpow_iff_right₀ (by norm_num)

example : Spec.pow10 (-2) = 1 / 100 := by rw [pow10_eq_zpow]; norm_num
example : Spec.pow10 3 = 1000 := by rw [pow10_eq_zpow]; norm_num


/-! ## 2. ndigits -/

theorem ndigitsSlow_pos (n : Nat) : 1 ≤ Spec.ndigitsSlow n := by
  unfold Spec.ndigitsSlow; split <;> omega

theorem ndigitsSlow_spec (n : Nat) (hn : n ≠ 0) :
    10 ^ (Spec.ndigitsSlow n - 1) ≤ n ∧ n < 10 ^ (Spec.ndigitsSlow n) := by
  induction n using Nat.strong_induction_on with
  | _ n ih =>
    unfold Spec.ndigitsSlow
    split
    · rename_i h; simp; omega
    · rename_i h
      have h10 : n / 10 ≠ 0 := by omega
      have hlt : n / 10 < n := by omega
      obtain ⟨h1, h2⟩ := ih (n / 10) hlt h10
      have hp := ndigitsSlow_pos (n / 10)
      generalize Spec.ndigitsSlow (n / 10) = d at *
      obtain ⟨d', rfl⟩ : ∃ d', d = d' + 1 := ⟨d - 1, by omega⟩
      simp only [Nat.add_sub_cancel] at *
      constructor
      · rw [pow_succ]; omega
      · rw [pow_succ (n := d' + 1)]; omega

/-- the digit count is determined by its defining inequalities -/
theorem ndigits_unique {n a b : Nat} (ha : 1 ≤ a) (hb : 1 ≤ b)
    (ha1 : 10 ^ (a - 1) ≤ n) (ha2 : n < 10 ^ a) (hb1 : 10 ^ (b - 1) ≤ n) (hb2 : n < 10 ^ b) :
    a = b := by
  have h1 : a - 1 < b := (Nat.pow_lt_pow_iff_right (by norm_num : 1 < 10)).1 (lt_of_le_of_lt ha1 hb2)
  have h2 : b - 1 < a := (Nat.pow_lt_pow_iff_right (by norm_num : 1 < 10)).1 (lt_of_le_of_lt hb1 ha2)
  omega

theorem ndigits_eq_ndigitsSlow (n : Nat) : Spec.ndigits n = Spec.ndigitsSlow n := by
  unfold Spec.ndigits
  split
  · rename_i h
    have : n = 0 := by simpa using h
    subst this; unfold Spec.ndigitsSlow; simp
  · rename_i h
    have hn : n ≠ 0 := by simpa using h
    obtain ⟨s1, s2⟩ := ndigitsSlow_spec n hn
    have sp := ndigitsSlow_pos n
    simp only []
    generalize n.log2 * 1233 / 4096 + 1 = d
    split
    · rename_i h1
      simp only [Bool.and_eq_true, decide_eq_true_eq] at h1
      by_cases hd : 1 ≤ d
      · exact ndigits_unique hd sp h1.1 h1.2 s1 s2
      · have : d = 0 := by omega
        subst this; simp at h1; omega
    · split
      · rename_i h2
        simp only [Bool.and_eq_true, decide_eq_true_eq] at h2
        exact ndigits_unique (by omega) sp (by simpa using h2.1) h2.2 s1 s2
      · rfl

theorem ndigits_pos (n : Nat) : 1 ≤ Spec.ndigits n := by
  rw [ndigits_eq_ndigitsSlow]; exact ndigitsSlow_pos n

theorem ndigits_spec (n : Nat) (hn : n ≠ 0) :
    10 ^ (Spec.ndigits n - 1) ≤ n ∧ n < 10 ^ (Spec.ndigits n) := by
  rw [ndigits_eq_ndigitsSlow]; exact ndigitsSlow_spec n hn

theorem ndigits_eq_of {n d : Nat} (hd : 1 ≤ d) (h1 : 10 ^ (d - 1) ≤ n) (h2 : n < 10 ^ d) :
    Spec.ndigits n = d := by
  have hn : n ≠ 0 := by
    rintro rfl
    have : 0 < 10 ^ (d - 1) := by positivity
    omega
  obtain ⟨s1, s2⟩ := ndigits_spec n hn
  exact ndigits_unique (ndigits_pos n) hd s1 s2 h1 h2

example : Spec.ndigitsSlow 12345 = 5 := by
  rw [← ndigits_eq_ndigitsSlow]; exact ndigits_eq_of (by norm_num) (by norm_num) (by norm_num)
example : 10 ^ (Spec.ndigitsSlow 12345 - 1) ≤ 12345 ∧ 12345 < 10 ^ Spec.ndigitsSlow 12345 :=
  ndigitsSlow_spec 12345 (by norm_num)
example : Spec.ndigits 1000 = 4 := ndigits_eq_of (by norm_num) (by norm_num) (by norm_num)


/-! ## 3. ilog10 -/

theorem ndigits_spec_rat (n : Nat) (hn : n ≠ 0) :
    (10 : Rat) ^ ((Spec.ndigits n : Int) - 1) ≤ (n : Rat) ∧ (n : Rat) < (10 : Rat) ^ (Spec.ndigits n : Int) := by
  obtain ⟨h1, h2⟩ := ndigits_spec n hn
  have hp := ndigits_pos n
  generalize Spec.ndigits n = d at *
  obtain ⟨d', rfl⟩ : ∃ d', d = d' + 1 := ⟨d - 1, by omega⟩
  simp only [Nat.add_sub_cancel] at h1
  constructor
  · have : ((d' + 1 : Nat) : Int) - 1 = (d' : Int) := by push_cast; ring
    rw [this, zpow_natCast]; exact_mod_cast h1
  · rw [zpow_natCast]; exact_mod_cast h2

theorem ilog10_spec (q : Rat) (hq : 0 < q) :
    (10 : Rat) ^ (Spec.ilog10 q) ≤ q ∧ q < (10 : Rat) ^ (Spec.ilog10 q + 1) := by
  have hnum : 0 < q.num := Rat.num_pos.2 hq
  have hn0 : q.num.natAbs ≠ 0 := by omega
  have hnq : ((q.num.natAbs : Nat) : Rat) = (q.num : Rat) := by
    have : ((q.num.natAbs : Nat) : Int) = q.num := Int.natAbs_of_nonneg hnum.le
    rw [← this]; simp
  have hqe : (q.num : Rat) / (q.den : Rat) = q := Rat.num_div_den q
  obtain ⟨n1, n2⟩ := ndigits_spec_rat _ hn0
  obtain ⟨d1, d2⟩ := ndigits_spec_rat _ q.den_nz
  rw [hnq] at n1 n2
  have hdpos : (0 : Rat) < (q.den : Rat) := by exact_mod_cast q.den_pos
  unfold Spec.ilog10
  split
  · rename_i h
    have hd : q.den = 1 := by simpa using h
    have : (q.num : Rat) = q := by rw [← hqe, hd]; simp
    rw [this] at n1 n2
    refine ⟨n1, ?_⟩
    simpa using n2
  · simp only [pow10_eq_zpow]
    generalize (Spec.ndigits q.num.natAbs : Int) = a at *
    generalize (Spec.ndigits q.den : Int) = b at *
    split
    · rename_i h
      refine ⟨h, ?_⟩
      -- q = num/den < 10^a / 10^(b-1)
      have e : (10 : Rat) ^ (a - b + 1) = (10 : Rat) ^ a / (10 : Rat) ^ (b - 1) := by
        rw [← zpow_sub₀ (by norm_num)]; congr 1; ring
      rw [e, ← hqe]
      have hp : (0 : Rat) < (10 : Rat) ^ (b - 1) := zpow_pos (by norm_num) _
      rw [div_lt_div_iff₀ hdpos hp]
      calc (q.num : Rat) * 10 ^ (b - 1) < 10 ^ a * 10 ^ (b - 1) := by
            exact mul_lt_mul_of_pos_right n2 hp
        _ ≤ 10 ^ a * (q.den : Rat) := by
            exact mul_le_mul_of_nonneg_left d1 (zpow_pos (by norm_num) _).le
    · rename_i h
      have h' : q < (10 : Rat) ^ (a - b) := not_le.1 h
      constructor
      · have e : (10 : Rat) ^ (a - b - 1) = (10 : Rat) ^ (a - 1) / (10 : Rat) ^ b := by
          rw [← zpow_sub₀ (by norm_num)]; congr 1; ring
        rw [e, ← hqe]
        have hp : (0 : Rat) < (10 : Rat) ^ b := zpow_pos (by norm_num) _
        rw [div_le_div_iff₀ hp hdpos]
        calc (10 : Rat) ^ (a - 1) * (q.den : Rat) ≤ (q.num : Rat) * (q.den : Rat) := by
              exact mul_le_mul_of_nonneg_right n1 hdpos.le
          _ ≤ (q.num : Rat) * 10 ^ b := by
              exact mul_le_mul_of_nonneg_left d2.le (by exact_mod_cast hnum.le)
      · have : a - b - 1 + 1 = a - b := by ring
        rw [this]; exact h'

/-- ⌊log10 q⌋ is determined by its defining inequalities -/
theorem ilog10_unique {q : Rat} {a b : Int} (ha1 : (10 : Rat) ^ a ≤ q) (ha2 : q < (10 : Rat) ^ (a + 1))
    (hb1 : (10 : Rat) ^ b ≤ q) (hb2 : q < (10 : Rat) ^ (b + 1)) : a = b := by
  have h1 : a < b + 1 := (zpow_lt_zpow_iff_right₀ (by norm_num : (1 : Rat) < 10)).1 (lt_of_le_of_lt ha1 hb2)
  have h2 : b < a + 1 := (zpow_lt_zpow_iff_right₀ (by norm_num : (1 : Rat) < 10)).1 (lt_of_le_of_lt hb1 ha2)
  omega

theorem ilog10_eq_of {q : Rat} {a : Int} (h1 : (10 : Rat) ^ a ≤ q) (h2 : q < (10 : Rat) ^ (a + 1)) :
    Spec.ilog10 q = a := by
  have hq : 0 < q := lt_of_lt_of_le (zpow_pos (by norm_num) _) h1
  obtain ⟨s1, s2⟩ := ilog10_spec q hq
  exact ilog10_unique s1 s2 h1 h2

example : Spec.ilog10 (3 / 700) = -3 := ilog10_eq_of (by norm_num) (by norm_num)
example : (10 : Rat) ^ Spec.ilog10 (3 / 700) ≤ 3 / 700 ∧ (3 / 700 : Rat) < 10 ^ (Spec.ilog10 (3 / 700) + 1) :=
  ilog10_spec _ (by norm_num)


/-! ## 4. splitAt -/

/-- the mathematical content of `splitAt`: integer part of `s`, comparison of the fractional part
    with 1/2, and whether the fractional part vanishes -/
def splitOf (s : Rat) : Nat × Ordering × Bool :=
  (⌊s⌋₊,
   (if s - (⌊s⌋₊ : Rat) < 1/2 then .lt else if s - (⌊s⌋₊ : Rat) = 1/2 then .eq else .gt),
   decide (s - (⌊s⌋₊ : Rat) = 0))

theorem floorNat_eq (q : Rat) : Spec.floorNat q = ⌊q⌋₊ := by
  unfold Spec.floorNat; exact Int.floor_toNat q

theorem splitOf_natDiv (n p : Nat) (hp : 0 < p) :
    splitOf ((n : Rat) / (p : Rat)) = (n / p, compare (2 * (n % p)) p, n % p == 0) := by
  have hp' : (0 : Rat) < (p : Rat) := by exact_mod_cast hp
  have hfl : ⌊(n : Rat) / (p : Rat)⌋₊ = n / p := Rat.natFloor_natCast_div_natCast n p
  have hfrac : (n : Rat) / (p : Rat) - ((n / p : Nat) : Rat) = ((n % p : Nat) : Rat) / (p : Rat) := by
    have h := Nat.div_add_mod n p
    have h' : (p : Rat) * ((n / p : Nat) : Rat) + ((n % p : Nat) : Rat) = (n : Rat) := by exact_mod_cast h
    rw [← h']; field_simp; ring
  unfold splitOf
  rw [hfl, hfrac]
  have e1 : ((n % p : Nat) : Rat) / (p : Rat) < 1 / 2 ↔ 2 * (n % p) < p := by
    rw [div_lt_div_iff₀ hp' (by norm_num)]
    constructor
    · intro h; have : ((n % p * 2 : Nat) : Rat) < ((1 * p : Nat) : Rat) := by push_cast; linarith
      have := Nat.cast_lt.1 this; omega
    · intro h; have : ((2 * (n % p) : Nat) : Rat) < (p : Rat) := by exact_mod_cast h
      push_cast at this; linarith
  have e2 : ((n % p : Nat) : Rat) / (p : Rat) = 1 / 2 ↔ 2 * (n % p) = p := by
    rw [div_eq_div_iff hp'.ne' (by norm_num)]
    constructor
    · intro h; have : ((n % p * 2 : Nat) : Rat) = ((1 * p : Nat) : Rat) := by push_cast; linarith
      have := Nat.cast_inj.1 this; omega
    · intro h; have : ((2 * (n % p) : Nat) : Rat) = (p : Rat) := by exact_mod_cast h
      push_cast at this; linarith
  have e3 : ((n % p : Nat) : Rat) / (p : Rat) = 0 ↔ n % p = 0 := by
    rw [div_eq_zero_iff]
    constructor
    · rintro (h | h)
      · exact_mod_cast h
      · exact absurd h hp'.ne'
    · intro h; left; exact_mod_cast h
  refine Prod.ext rfl (Prod.ext ?_ ?_)
  · simp only [e1, e2]
    rcases lt_trichotomy (2 * (n % p)) p with h | h | h
    · rw [if_pos h, compare_lt_iff_lt.2 h]
    · rw [if_neg (by omega), if_pos h, compare_eq_iff_eq.2 h]
    · rw [if_neg (by omega), if_neg (by omega), compare_gt_iff_gt.2 h]
  · show decide (((n % p : Nat) : Rat) / (p : Rat) = 0) = (n % p == 0)
    by_cases h : n % p = 0
    · rw [decide_eq_true (e3.2 h)]; simp [h]
    · rw [decide_eq_false (mt e3.1 h)]; simp [h]


theorem splitAt_eq_splitOf (q : Rat) (hq : 0 ≤ q) (e : Int) :
    Spec.splitAt q e = splitOf (q / (10 : Rat) ^ e) := by
  unfold Spec.splitAt
  split
  · rename_i h
    simp only [Bool.and_eq_true, beq_iff_eq, decide_eq_true_eq] at h
    obtain ⟨hd, he⟩ := h
    have hnum : 0 ≤ q.num := Rat.num_nonneg.2 hq
    have hq' : q = ((q.num.toNat : Nat) : Rat) := by
      have h1 : (q.num : Rat) = q := by
        have := Rat.num_div_den q; rw [hd] at this; simpa using this
      have h2 : ((q.num.toNat : Nat) : Int) = q.num := Int.toNat_of_nonneg hnum
      calc q = (q.num : Rat) := h1.symm
        _ = (((q.num.toNat : Nat) : Int) : Rat) := by rw [h2]
        _ = _ := Int.cast_natCast _
    have hp : (10 : Rat) ^ e = ((10 ^ e.toNat : Nat) : Rat) := by
      conv_lhs => rw [← Int.toNat_of_nonneg he, zpow_natCast]
      push_cast; rfl
    conv_rhs => rw [hq', hp]
    rw [splitOf_natDiv _ _ (by positivity)]
  · simp only [pow10_eq_zpow, floorNat_eq]
    unfold splitOf
    simp
    exact beq_eq_decide _ _

theorem splitOf_spec (s : Rat) :
    (splitOf s).1 = ⌊s⌋₊ ∧
    ((splitOf s).2.1 = .lt ↔ s - (⌊s⌋₊ : Rat) < 1 / 2) ∧
    ((splitOf s).2.1 = .eq ↔ s - (⌊s⌋₊ : Rat) = 1 / 2) ∧
    ((splitOf s).2.1 = .gt ↔ 1 / 2 < s - (⌊s⌋₊ : Rat)) ∧
    ((splitOf s).2.2 = true ↔ s - (⌊s⌋₊ : Rat) = 0) := by
  unfold splitOf
  generalize s - (⌊s⌋₊ : Rat) = f
  refine ⟨rfl, ?_⟩
  show ((if _ then _ else _) = _ ↔ _) ∧ ((if _ then _ else _) = _ ↔ _) ∧
    ((if _ then _ else _) = _ ↔ _) ∧ (decide _ = true ↔ _)
  rw [decide_eq_true_iff]
  rcases lt_trichotomy f (1 / 2) with h | h | h
  · have h1 : ¬ f = 1 / 2 := ne_of_lt h
    have h2 : ¬ 1 / 2 < f := not_lt.2 h.le
    simp only [h, h1, h2, ↓reduceIte, reduceCtorEq, and_self]
  · simp only [h, ↓reduceIte, reduceCtorEq, and_self, lt_irrefl]
  · have h1 : ¬ f = 1 / 2 := ne_of_gt h
    have h2 : ¬ f < 1 / 2 := not_lt.2 h.le
    simp only [h, h1, h2, ↓reduceIte, reduceCtorEq, and_self]

theorem splitAt_spec (q : Rat) (hq : 0 ≤ q) (e : Int) :
    let s := q / (10 : Rat) ^ e
    (Spec.splitAt q e).1 = ⌊s⌋₊ ∧
    ((Spec.splitAt q e).2.1 = .lt ↔ s - (⌊s⌋₊ : Rat) < 1 / 2) ∧
    ((Spec.splitAt q e).2.1 = .eq ↔ s - (⌊s⌋₊ : Rat) = 1 / 2) ∧
    ((Spec.splitAt q e).2.1 = .gt ↔ 1 / 2 < s - (⌊s⌋₊ : Rat)) ∧
    ((Spec.splitAt q e).2.2 = true ↔ s - (⌊s⌋₊ : Rat) = 0) := by
  intro s
  rw [splitAt_eq_splitOf q hq e]
  exact splitOf_spec s

/-! ## 5. spacing exponent -/

/-- the coefficient of q at exponent e: ⌊q / 10^e⌋ -/
def coef (q : Rat) (e : Int) : Nat := ⌊q / (10 : Rat) ^ e⌋₊

theorem splitAt_fst (q : Rat) (hq : 0 ≤ q) (e : Int) : (Spec.splitAt q e).1 = coef q e := by
  rw [splitAt_eq_splitOf q hq e]; rfl

theorem coef_antitone {q : Rat} (hq : 0 ≤ q) {a b : Int} (h : a ≤ b) : coef q b ≤ coef q a := by
  unfold coef
  apply Nat.floor_le_floor
  have ha : (0 : Rat) < (10 : Rat) ^ a := zpow_pos (by norm_num) _
  exact div_le_div_of_nonneg_left hq ha (zpow_le_zpow_right₀ (by norm_num) h)

theorem coef_scale (q : Rat) (j e : Int) : coef (q * (10 : Rat) ^ j) e = coef q (e - j) := by
  unfold coef
  congr 1
  rw [zpow_sub₀ (by norm_num : (10 : Rat) ≠ 0)]
  have h1 : (10 : Rat) ^ e ≠ 0 := zpow_ne_zero _ (by norm_num)
  have h2 : (10 : Rat) ^ j ≠ 0 := zpow_ne_zero _ (by norm_num)
  field_simp

theorem Cmax_lower : 10 ^ 34 ≤ Spec.Cmax := by unfold Spec.Cmax; norm_num
theorem Cmax_upper : Spec.Cmax < 10 ^ 35 := by unfold Spec.Cmax; norm_num

theorem spacingExpRaw_spec (q : Rat) (hq : 0 < q) :
    coef q (Spec.spacingExpRaw q) ≤ Spec.Cmax ∧ Spec.Cmax < coef q (Spec.spacingExpRaw q - 1) := by
  obtain ⟨l1, l2⟩ := ilog10_spec q hq
  unfold Spec.spacingExpRaw
  simp only [splitAt_fst q hq.le]
  generalize Spec.ilog10 q = l at *
  have h10 : (10 : Rat) ≠ 0 := by norm_num
  split
  · rename_i h
    refine ⟨h, ?_⟩
    apply lt_of_lt_of_le Cmax_upper
    unfold coef
    apply Nat.le_floor
    have hp : (0 : Rat) < (10 : Rat) ^ (l - 34 - 1) := zpow_pos (by norm_num) _
    rw [le_div_iff₀ hp]
    have : (((10 ^ 35 : Nat) : Rat)) * (10 : Rat) ^ (l - 34 - 1) = (10 : Rat) ^ l := by
      have : ((10 ^ 35 : Nat) : Rat) = (10 : Rat) ^ (35 : Int) := by norm_num
      rw [this, ← zpow_add₀ h10]; congr 1; ring
    rw [this]; exact l1
  · rename_i h
    have e : l - 34 + 1 - 1 = l - 34 := by ring
    rw [e]
    refine ⟨?_, not_le.1 h⟩
    apply le_trans _ Cmax_lower
    apply le_of_lt
    unfold coef
    have hp : (0 : Rat) < (10 : Rat) ^ (l - 34 + 1) := zpow_pos (by norm_num) _
    rw [Nat.floor_lt (div_nonneg hq.le hp.le), div_lt_iff₀ hp]
    have : (((10 ^ 34 : Nat) : Rat)) * (10 : Rat) ^ (l - 34 + 1) = (10 : Rat) ^ (l + 1) := by
      have : ((10 ^ 34 : Nat) : Rat) = (10 : Rat) ^ (34 : Int) := by norm_num
      rw [this, ← zpow_add₀ h10]; congr 1; ring
    rw [this]; exact l2

/-- the spacing exponent is the unique exponent at which the coefficient just fits -/
theorem spacingExpRaw_unique {q : Rat} (hq : 0 ≤ q) {a b : Int}
    (ha1 : coef q a ≤ Spec.Cmax) (ha2 : Spec.Cmax < coef q (a - 1))
    (hb1 : coef q b ≤ Spec.Cmax) (hb2 : Spec.Cmax < coef q (b - 1)) : a = b := by
  rcases lt_trichotomy a b with h | h | h
  · have := coef_antitone hq (show a ≤ b - 1 by omega); omega
  · exact h
  · have := coef_antitone hq (show b ≤ a - 1 by omega); omega

theorem spacingExpRaw_eq_of {q : Rat} (hq : 0 < q) {a : Int}
    (ha1 : coef q a ≤ Spec.Cmax) (ha2 : Spec.Cmax < coef q (a - 1)) : Spec.spacingExpRaw q = a := by
  obtain ⟨h1, h2⟩ := spacingExpRaw_spec q hq
  exact spacingExpRaw_unique hq.le h1 h2 ha1 ha2

/-- minimality: the coefficient fits at exponent e iff e is at least the spacing exponent -/
theorem coef_le_Cmax_iff (q : Rat) (hq : 0 < q) (e : Int) :
    coef q e ≤ Spec.Cmax ↔ Spec.spacingExpRaw q ≤ e := by
  obtain ⟨h1, h2⟩ := spacingExpRaw_spec q hq
  constructor
  · intro h
    by_contra hc
    have := coef_antitone hq.le (show e ≤ Spec.spacingExpRaw q - 1 by omega); omega
  · intro h; exact le_trans (coef_antitone hq.le h) h1

theorem spacingExpRaw_scale (q : Rat) (hq : 0 < q) (j : Int) :
    Spec.spacingExpRaw (q * (10 : Rat) ^ j) = Spec.spacingExpRaw q + j := by
  obtain ⟨h1, h2⟩ := spacingExpRaw_spec q hq
  have hp : (0 : Rat) < (10 : Rat) ^ j := zpow_pos (by norm_num) _
  apply spacingExpRaw_eq_of (mul_pos hq hp)
  · rw [coef_scale]; simpa using h1
  · rw [coef_scale]
    have : Spec.spacingExpRaw q + j - 1 - j = Spec.spacingExpRaw q - 1 := by ring
    rw [this]; exact h2

theorem spacingExpS_eq (q : Rat) (k : Int) :
    Spec.spacingExpS q k = max Spec.Emin (Spec.spacingExpRaw q + k) := by
  unfold Spec.spacingExpS
  simp only []
  split <;> omega

theorem spacingExpS_scale (q : Rat) (hq : 0 < q) (k : Int) :
    Spec.spacingExpS q k = Spec.spacingExpS (q * (10 : Rat) ^ k) 0 := by
  rw [spacingExpS_eq, spacingExpS_eq, spacingExpRaw_scale q hq k]; simp

/-- the spacing exponent of the format at q·10^k: at least Emin, the coefficient fits, and above Emin
    it is the least such exponent -/
theorem spacingExpS_spec (q : Rat) (hq : 0 < q) (k : Int) :
    Spec.Emin ≤ Spec.spacingExpS q k ∧
    coef (q * (10 : Rat) ^ k) (Spec.spacingExpS q k) ≤ Spec.Cmax ∧
    (Spec.Emin < Spec.spacingExpS q k →
      Spec.Cmax < coef (q * (10 : Rat) ^ k) (Spec.spacingExpS q k - 1)) := by
  have hp : (0 : Rat) < (10 : Rat) ^ k := zpow_pos (by norm_num) _
  obtain ⟨h1, h2⟩ := spacingExpRaw_spec _ (mul_pos hq hp)
  rw [spacingExpS_eq, ← spacingExpRaw_scale q hq k]
  refine ⟨le_max_left _ _, ?_, ?_⟩
  · exact le_trans (coef_antitone (mul_pos hq hp).le (le_max_right _ _)) h1
  · intro h
    have : max Spec.Emin (Spec.spacingExpRaw (q * (10 : Rat) ^ k)) = Spec.spacingExpRaw (q * (10 : Rat) ^ k) := by
      omega
    rw [this]; exact h2


/-! ## examples for 4 and 5 -/

example : (Spec.splitAt (7/2) 0).1 = 3 ∧ (Spec.splitAt (7/2) 0).2.1 = .eq ∧ (Spec.splitAt (7/2) 0).2.2 = false := by
  have hf : ⌊(7 / 2 : Rat) / (10 : Rat) ^ (0 : Int)⌋₊ = 3 :=
    (Nat.floor_eq_iff (by norm_num)).2 ⟨by norm_num, by norm_num⟩
  obtain ⟨h1, -, h3, -, h5⟩ := splitAt_spec (7/2) (by norm_num) 0
  simp only [hf] at h1 h3 h5
  refine ⟨h1, h3.2 (by norm_num), ?_⟩
  rw [Bool.eq_false_iff, ne_eq, h5]; norm_num

example : (Spec.splitAt 1234 2).1 = 12 := by
  rw [(splitAt_spec 1234 (by norm_num) 2).1]
  exact (Nat.floor_eq_iff (by norm_num)).2 ⟨by norm_num, by norm_num⟩

theorem coef_natCast_zpow_neg (c n : Nat) : coef (c : Rat) (-(n : Int)) = c * 10 ^ n := by
  unfold coef
  rw [zpow_neg, zpow_natCast, div_inv_eq_mul]
  have : (c : Rat) * (10 : Rat) ^ n = ((c * 10 ^ n : Nat) : Rat) := by push_cast; rfl
  rw [this, Nat.floor_natCast]

example : Spec.spacingExpRaw 1 = -34 := by
  apply spacingExpRaw_eq_of (by norm_num)
  · have := coef_natCast_zpow_neg 1 34
    simp only [Nat.cast_one, Nat.cast_ofNat] at this
    rw [this]; unfold Spec.Cmax; norm_num
  · have := coef_natCast_zpow_neg 1 35
    simp only [Nat.cast_one, Nat.cast_ofNat] at this
    show Spec.Cmax < coef 1 (-35)
    rw [this]; unfold Spec.Cmax; norm_num
end SpecRound
