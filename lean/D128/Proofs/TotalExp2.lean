/-
  D128.Proofs.TotalExp2 — totality (termination, no panic) of the exported `Exp2` for every bit
  pattern and every `DefaultRoundingMode` (C20).

  `Gen.Exp2` is cut into four stages (prefix; `exp2Split`: integer/fraction split of the argument;
  `exp2Pow`: `2^n` for the integer part `n ≤ 20640` as a working-format number; `exp2Tail`:
  `2^frac`, product, reciprocal, rounding).  The stage definitions are copies of the generated
  statements in continuation-passing form, tied to the generated definition by `Exp2_eq : Gen.Exp2 g d
  = exp2Staged g d := rfl` (breaks if the generated code changes).

  * helpers: `shl_one_pos`, `lsh_ne_zero_of_le`, `lsh_clz_facts` (the `bits.LeadingZeros64`
    renormalisation of the `2^n` loop keeps the top bit set and makes progress), `log_step`,
    `lt_of_log_le5`, `BInv`, `BInv_step`, `BInv_init` (digit-count bookkeeping of the split)
  * `exp2Pow_triple`, `exp2Tail_triple`, `exp2Split_triple`
  * `Exp2_triple : ⦃True⦄ Gen.Exp2 g d ⦃_ => True⦄`,  `Exp2_total : ∃ r, Gen.Exp2 g d = .ok r`

  The delicate point is the reciprocal for negative arguments: `rcp` panics (division by zero) on a
  zero significand, so the proof shows that the integer part `dSigInt` is non-zero whenever the
  fractional part is zero (the split keeps exactly `⌊log10⌋+1+exp ≤ 6` integer digits, the first of
  them non-zero), and that `2^dSigInt` is built with a non-zero significand in each of its five
  construction cases.
-/
import D128.Proofs.TotalElem
set_option autoImplicit false
set_option mvcgen.warning false
set_option exponentiation.threshold 512
set_option maxRecDepth 16384
set_option linter.unusedVariables false
namespace D128.Proofs.Total
open Std.Do
open D128.Proofs.WordsWide

theorem shl_one_pos (x : UInt64) (h : x.toNat < 64) :
    1 ≤ (Go.shl (1 : UInt64) (Go.idx x)).toNat := by
  have := (shl_one_zero_iff x).not.2 (by omega)
  omega

/-- shifting by at most the number of leading zeros does not lose a non-zero value -/
theorem lsh_ne_zero_of_le (x : U256) (s : UInt64) (h0 : x.toNat ≠ 0)
    (hs : s.toNat ≤ (Go.conv (Go.bits.LeadingZeros64 x.w3) : UInt64).toNat) (hw : 2^192 ≤ x.toNat) :
    ((Gen.U256.lsh x s).toNat = 0) = False := by
  have hw0 := x.w0.toNat_lt; have hw1 := x.w1.toNat_lt; have hw2 := x.w2.toNat_lt
  have hx : x.toNat = x.w0.toNat + x.w1.toNat * 2^64 + x.w2.toNat * 2^128 + x.w3.toNat * 2^192 := rfl
  have hw3 : x.w3 ≠ 0 := by
    intro h; rw [h] at hx; simp only [UInt64.toNat_zero] at hx; omega
  obtain ⟨L, hL1, hL2, hlo, hhi, hz⟩ := Go.bits.LeadingZeros64_spec x.w3 hw3
  rw [hz] at hs
  have hxhi : x.toNat < 2^L * 2^192 := by
    have : (x.w3.toNat + 1) * 2^192 ≤ 2^L * 2^192 := Nat.mul_le_mul_right _ hhi
    omega
  have hpow : x.toNat * 2^s.toNat < 2^256 := by
    calc x.toNat * 2^s.toNat < (2^L * 2^192) * 2^s.toNat :=
          Nat.mul_lt_mul_of_pos_right hxhi (Nat.two_pow_pos _)
      _ = 2^(L + 192 + s.toNat) := by rw [← Nat.pow_add, ← Nat.pow_add]
      _ ≤ 2^256 := Nat.pow_le_pow_right (by norm_num) (by omega)
  rw [U256_lsh_toNat, Nat.mod_eq_of_lt hpow, eq_iff_iff, iff_false]
  exact Nat.ne_of_gt (Nat.mul_pos (by omega) (Nat.two_pow_pos _))

/-- decimal digit count bookkeeping: one division by ten -/
theorem log_step (s q : Nat) (hq : q = s / 10) (h : 1 ≤ Nat.log 10 s) :
    Nat.log 10 q = Nat.log 10 s - 1 ∧ 1 ≤ q := by
  subst hq
  refine ⟨Nat.log_div_base 10 s, ?_⟩
  have : 10 ≤ s := (Nat.log_pos_iff.1 (by omega)).1
  omega

theorem log_mul10 (s : Nat) (h : 1 ≤ s) : Nat.log 10 (s * 10) = Nat.log 10 s + 1 :=
  Nat.log_mul_base (by norm_num) (by omega)

theorem lt_of_log_le5 (s : Nat) (h : Nat.log 10 s ≤ 5) : s < 1000000 := by
  have h1 := Nat.lt_pow_succ_log_self (b := 10) (by norm_num) s
  have h2 : 10 ^ (Nat.log 10 s).succ ≤ 10 ^ 6 := Nat.pow_le_pow_right (by norm_num) (by omega)
  omega

/-- after the division by ten of a 256-bit value with the top bit set: the count of leading zeros
of the top word is positive, shifting by it sets the top bit again, and shifting by less does not
lose the value -/
theorem lsh_clz_facts (x : U256) (h1 : 2^251 ≤ x.toNat) (h2 : x.toNat < 2^255) :
    1 ≤ (Go.conv (Go.bits.LeadingZeros64 x.w3) : UInt64).toNat ∧
    2^255 ≤ (Gen.U256.lsh x (Go.conv (Go.bits.LeadingZeros64 x.w3) : UInt64)).toNat ∧
    ∀ s : UInt64, s.toNat ≤ (Go.conv (Go.bits.LeadingZeros64 x.w3) : UInt64).toNat →
      (Gen.U256.lsh x s).toNat ≠ 0 := by
  have hw0 := x.w0.toNat_lt; have hw1 := x.w1.toNat_lt; have hw2 := x.w2.toNat_lt
  have hx : x.toNat = x.w0.toNat + x.w1.toNat * 2^64 + x.w2.toNat * 2^128 + x.w3.toNat * 2^192 := rfl
  have hw3 : x.w3 ≠ 0 := by
    intro h0
    rw [h0] at hx
    simp only [UInt64.toNat_zero] at hx
    omega
  obtain ⟨L, hL1, hL2, hlo, hhi, hz⟩ := Go.bits.LeadingZeros64_spec x.w3 hw3
  generalize (Go.conv (Go.bits.LeadingZeros64 x.w3) : UInt64) = z at *
  -- x ∈ [2^(L-1+192), 2^(L+192))
  have hxlo : 2^(L-1) * 2^192 ≤ x.toNat := by
    have := Nat.mul_le_mul_right (2^192) hlo
    omega
  have hxhi : x.toNat < 2^L * 2^192 := by
    have : (x.w3.toNat + 1) * 2^192 ≤ 2^L * 2^192 := Nat.mul_le_mul_right _ hhi
    omega
  have hL63 : L ≤ 63 := by
    by_contra hc
    have hL : L = 64 := by omega
    subst hL
    have : (2:Nat)^(64-1) * 2^192 = 2^255 := by norm_num
    omega
  have hpow : ∀ s : Nat, s ≤ 64 - L → x.toNat * 2^s < 2^256 := by
    intro s hs
    calc x.toNat * 2^s < (2^L * 2^192) * 2^s := Nat.mul_lt_mul_of_pos_right hxhi (Nat.two_pow_pos _)
      _ = 2^(L + 192 + s) := by rw [← Nat.pow_add, ← Nat.pow_add]
      _ ≤ 2^256 := Nat.pow_le_pow_right (by norm_num) (by omega)
  refine ⟨by omega, ?_, ?_⟩
  · rw [U256_lsh_toNat, hz, Nat.mod_eq_of_lt (hpow _ (Nat.le_refl _))]
    calc (2:Nat)^255 = 2^(L - 1 + 192 + (64 - L)) := by congr 1; omega
      _ = (2^(L-1) * 2^192) * 2^(64 - L) := by rw [← Nat.pow_add, ← Nat.pow_add]
      _ ≤ x.toNat * 2^(64 - L) := Nat.mul_le_mul_right _ hxlo
  · intro s hs
    rw [U256_lsh_toNat, Nat.mod_eq_of_lt (hpow _ (by omega))]
    have := Nat.two_pow_pos s.toNat
    have hxpos : 0 < x.toNat := by omega
    exact Nat.ne_of_gt (Nat.mul_pos hxpos this)

section
open Gen

/-- `Exp2`, last stage: `2^frac` via `epow`, product with the integer power, reciprocal, rounding -/
def exp2Tail (g : Globals) (d : Decimal) (dSig : U128) (dExp : Int16) (dSigInt : UInt64) (sigInt : U192)
    (expInt : Int16) (trunc : Int8) : Go.GoM Decimal := do
  let mut res : decomposed192 := (default : decomposed192)
  let mut trunc : Int8 := trunc
  if ((dSig.w0 ||| dSig.w1) != (0 : UInt64)) then
    let (r_12, r_13) ← decomposed192.mul ({ (default : decomposed192) with sig := (U192.mk dSig.w0 dSig.w1 (0 : UInt64)), exp := dExp } : decomposed192) ln2 (0 : Int8)
    res := r_12
    trunc := r_13
    let t_14 ← U192.log10 res.sig
    let (r_15, r_16) ← decomposed192.epow res (Go.conv t_14 : Int16) trunc
    res := r_15
    trunc := r_16
    if (decide (res.exp > (6169 : Int16))) then
      if (Decimal.Signbit d) then
        return (zero false)
      return (inf false)
    if (dSigInt != (0 : UInt64)) then
      let (r_17, r_18) ← decomposed192.mul ({ (default : decomposed192) with sig := sigInt, exp := expInt } : decomposed192) res trunc
      res := r_17
      trunc := r_18
  else
    res := ({ (default : decomposed192) with sig := sigInt, exp := expInt } : decomposed192)
  if (decide (res.exp > (6146 : Int16))) then
    if (Decimal.Signbit d) then
      return (zero false)
    return (inf false)
  if (Decimal.Signbit d) then
    let (r_19, r_20) ← decomposed192.rcp res trunc
    res := r_19
    trunc := r_20
  let (r_21, r_22) ← RoundingMode.reduce192 g.DefaultRoundingMode false res.sig (res.exp + (6176 : Int16)) trunc
  let mut sig_1 : U128 := r_21
  let mut exp_1 : Int16 := r_22
  if (decide (exp_1 > (12287 : Int16))) then
    if (Decimal.Signbit d) then
      return (zero false)
    return (inf false)
  return (compose false sig_1 exp_1)

/-- `Exp2`, third stage: `2^dSigInt` as a working-format number (continuation-passing) -/
def exp2Pow (d : Decimal) (dSigInt : UInt64) (k : U192 → Int16 → Int8 → Go.GoM Decimal) :
    Go.GoM Decimal := do
  let mut res : decomposed192 := (default : decomposed192)
  let mut trunc : Int8 := (0 : Int8)
  let mut sigInt : U192 := (default : U192)
  let mut expInt : Int16 := (0 : Int16)
  if (dSigInt != (0 : UInt64)) then
    if (decide (dSigInt > (20640 : UInt64))) then
      if (Decimal.Signbit d) then
        return (zero false)
      return (inf false)
    let mut shift : UInt64 := dSigInt
    if (decide (shift < (64 : UInt64))) then
      sigInt := { sigInt with w0 := (Go.shl (1 : UInt64) (Go.idx shift)) }
    else
      if (decide (shift < (128 : UInt64))) then
        sigInt := { sigInt with w1 := (Go.shl (1 : UInt64) (Go.idx (shift - (64 : UInt64)))) }
      else
        let mut sigInt256 : U256 := (default : U256)
        if (decide (shift < (192 : UInt64))) then
          sigInt256 := { sigInt256 with w2 := (Go.shl (1 : UInt64) (Go.idx (shift - (128 : UInt64)))) }
        else
          if (decide (shift < (256 : UInt64))) then
            sigInt256 := { sigInt256 with w3 := (Go.shl (1 : UInt64) (Go.idx (shift - (192 : UInt64)))) }
          else
            sigInt256 := { sigInt256 with w3 := (9223372036854775808 : UInt64) }
            shift := (shift - (255 : UInt64))
            while (decide (shift > (0 : UInt64))) do
              let mut rem_2 : UInt64 := (0 : UInt64)
              let (r_8, r_9) ← U256.div10 sigInt256
              sigInt256 := r_8
              rem_2 := r_9
              expInt := (expInt + (1 : Int16))
              if (rem_2 != (0 : UInt64)) then
                trunc := (1 : Int8)
              let mut zeros : UInt64 := (Go.conv (Go.bits.LeadingZeros64 sigInt256.w3) : UInt64)
              if (decide (shift > zeros)) then
                sigInt256 := (U256.lsh sigInt256 zeros)
                shift := (shift - zeros)
              else
                sigInt256 := (U256.lsh sigInt256 shift)
                break
        while (decide (sigInt256.w3 > (0 : UInt64))) do
          let mut rem_3 : UInt64 := (0 : UInt64)
          let (r_10, r_11) ← U256.div1e19 sigInt256
          sigInt256 := r_10
          rem_3 := r_11
          expInt := (expInt + (19 : Int16))
          if (rem_3 != (0 : UInt64)) then
            trunc := (1 : Int8)
        sigInt := (U192.mk sigInt256.w0 sigInt256.w1 sigInt256.w2)
  k sigInt expInt trunc

/-- `Exp2`, second stage: split the argument into integer and fractional part -/
def exp2Split {α : Type} (dSig : U128) (dExp : Int16) (l10 : Int64)
    (k : U128 → Int16 → UInt64 → Go.GoM α) : Go.GoM α := do
  let mut dSig : U128 := dSig
  let mut dExp : Int16 := dExp
  let mut dSigInt : UInt64 := (0 : UInt64)
  if (decide ((l10 + (Go.conv dExp : Int64)) ≥ (0 : Int64))) then
    let mut sig : U128 := dSig
    let mut exp : Int16 := dExp
    dSig := (default : U128)
    while (decide (exp < (0 : Int16))) do
      let mut rem : UInt64 := (0 : UInt64)
      let (r_4, r_5) ← U128.div10 sig
      sig := r_4
      rem := r_5
      dSig := (U128.mul64 dSig (10 : UInt64))
      dSig := (U128.add64 dSig rem)
      exp := (exp + (1 : Int16))
    dSigInt := sig.w0
    while (decide (exp > (0 : Int16))) do
      dSigInt := (dSigInt * (10 : UInt64))
      exp := (exp - (1 : Int16))
    sig := dSig
    dSig := (default : U128)
    dExp := (0 : Int16)
    while ((sig.w0 ||| sig.w1) != (0 : UInt64)) do
      let mut rem_1 : UInt64 := (0 : UInt64)
      let (r_6, r_7) ← U128.div10 sig
      sig := r_6
      rem_1 := r_7
      dSig := (U128.mul64 dSig (10 : UInt64))
      dSig := (U128.add64 dSig rem_1)
      dExp := (dExp - (1 : Int16))
  k dSig dExp dSigInt

/-- `Exp2` with its three later stages named -/
def exp2Staged (g : Globals) (d : Decimal) : Go.GoM Decimal := do
  if (Decimal.isSpecial d) then
    if (Decimal.IsNaN d) then
      return d
    if (Decimal.Signbit d) then
      return (zero false)
    return (inf false)
  if (Decimal.IsZero d) then
    return (one false)
  let (r_1, r_2) := Decimal.decompose d
  let mut dSig : U128 := r_1
  let mut dExp : Int16 := r_2
  dExp := (dExp - (6176 : Int16))
  let t_3 ← U128.log10 dSig
  let mut l10 : Int64 := t_3
  if (decide ((Go.conv dExp : Int64) > ((5 : Int64) - l10))) then
    if (Decimal.Signbit d) then
      return (zero false)
    return (inf false)
  exp2Split dSig dExp l10 (fun dSig dExp dSigInt =>
    exp2Pow d dSigInt (fun sigInt expInt trunc =>
      exp2Tail g d dSig dExp dSigInt sigInt expInt trunc))

theorem Exp2_eq (g : Globals) (d : Decimal) : Gen.Exp2 g d = exp2Staged g d := rfl

end

/-- `U256.div10` together with what the power-of-two loop of `Exp2` needs about its result -/
theorem U256_div10_clz (n : U256) :
    ⦃⌜True⌝⦄ Gen.U256.div10 n
    ⦃⇓ p => ⌜p.1.toNat = n.toNat / 10 ∧ p.2.toNat = n.toNat % 10 ∧
      (2^255 ≤ n.toNat →
        1 ≤ (Go.conv (Go.bits.LeadingZeros64 p.1.w3) : UInt64).toNat ∧
        2^255 ≤ (Gen.U256.lsh p.1 (Go.conv (Go.bits.LeadingZeros64 p.1.w3) : UInt64)).toNat)⌝⦄ := by
  obtain ⟨q, r, e, hq, hr⟩ := U256_div10_eq n
  refine triple_of_eq e ⟨hq, hr, fun h => ?_⟩
  have := U256.toNat_lt n
  obtain ⟨a, b, _⟩ := lsh_clz_facts q (by rw [hq]; omega) (by rw [hq]; omega)
  exact ⟨a, b⟩

theorem exp2Pow_triple (d : Gen.Decimal) (dSigInt : UInt64)
    (k : U192 → Int16 → Int8 → Go.GoM Gen.Decimal)
    (hk : ∀ s e t, ⦃⌜dSigInt.toNat ≠ 0 → s.toNat ≠ 0⌝⦄ k s e t ⦃⇓ _ => ⌜True⌝⦄) :
    ⦃⌜True⌝⦄ exp2Pow d dSigInt k ⦃⇓ _ => ⌜True⌝⦄ := by
  have hd := U256_div10_clz
  have s0 := shl_one_pos dSigInt
  have s1 := shl_one_pos (dSigInt - 64)
  have s2 := shl_one_pos (dSigInt - 128)
  have s3 := shl_one_pos (dSigInt - 192)
  mvcgen -trivial [exp2Pow, hk, hd, -U256_div10_spec]
  case inv1 | inv3 | inv7 => exact fun st => ⟨st.2.2.toNat⟩
  case inv2 | inv4 | inv8 => exact ⇓ x => match x with
    | .inl st => ⌜st.2.2.toNat ≠ 0⌝
    | .inr st => ⌜st.2.2.toNat ≠ 0 ∧ st.2.2.toNat < 2^192⌝
  case inv5 => exact fun st => ⟨st.2.2.1.toNat⟩
  case inv6 => exact ⇓ x => match x with
    | .inl st => ⌜2^255 ≤ st.2.2.2.toNat⌝
    | .inr st => ⌜st.2.2.2.toNat ≠ 0⌝
  all_goals (simp +zetaDelta at *)
  all_goals d192_prep
  all_goals (try simp (disch := omega) only [lsh_ne_zero_of_le, not_false_eq_true])
  all_goals omega

theorem exp2Tail_triple (g : Globals) (d : Gen.Decimal) (dSig : U128) (dExp : Int16) (dSigInt : UInt64)
    (sigInt : U192) (expInt : Int16) (trunc : Int8) :
    ⦃⌜(dSigInt.toNat ≠ 0 ∨ dSig.toNat ≠ 0) ∧ (dSigInt.toNat ≠ 0 → sigInt.toNat ≠ 0)⌝⦄
    exp2Tail g d dSig dExp dSigInt sigInt expInt trunc ⦃⇓ _ => ⌜True⌝⦄ := by
  have he := d192_epow_triple divSpec
  have hr := d192_rcp_triple divSpec
  have h2 := ln2_ne_zero
  mvcgen -trivial [exp2Tail, he, hr]
  all_goals (simp +zetaDelta at *)
  all_goals d192_prep
  all_goals d192_fin


/-- invariant of the loop `for exp > 0 { dSigInt *= 10; exp-- }` of `Exp2`/`Exp10` -/
def BInv (a : UInt64) (e : Int16) : Prop :=
  1 ≤ a.toNat ∧ 0 ≤ e.toInt ∧ e.toInt ≤ 5 ∧ a.toNat * 10 ^ e.toInt.toNat < 10 ^ 11

theorem BInv_pos {a : UInt64} {e : Int16} (h : BInv a e) : 1 ≤ a.toNat := h.1

theorem BInv_step {a : UInt64} {e : Int16} (h : BInv a e) (he : 0 < e) :
    up16 (e - 1) < up16 e ∧ BInv (a * 10) (e - 1) := by
  obtain ⟨h1, h2, h3, h4⟩ := h
  rw [Int16.lt_iff_toInt_lt] at he
  have he0 : (0 : Int16).toInt = 0 := rfl
  rw [he0] at he
  have e1 : (e - 1).toInt = e.toInt - 1 := by
    have : (1 : Int16).toInt = 1 := rfl
    rw [i16_sub_toInt] <;> rw [this] <;> omega
  have hp : (10:Nat) ^ e.toInt.toNat = 10 * 10 ^ (e.toInt - 1).toNat := by
    have : e.toInt.toNat = (e.toInt - 1).toNat + 1 := by omega
    rw [this, Nat.pow_succ, Nat.mul_comm]
  have hpos : 1 ≤ 10 ^ (e.toInt - 1).toNat := Nat.one_le_pow _ _ (by norm_num)
  have hlt : a.toNat * 10 < 10 ^ 11 := by
    calc a.toNat * 10 ≤ a.toNat * 10 * 10 ^ (e.toInt - 1).toNat := Nat.le_mul_of_pos_right _ hpos
      _ = a.toNat * 10 ^ e.toInt.toNat := by rw [hp]; ring
      _ < 10 ^ 11 := h4
  have ea : (a * 10).toNat = a.toNat * 10 := by
    have : (10 : UInt64).toNat = 10 := rfl
    rw [u64_mul_toNat] <;> rw [this]
    omega
  refine ⟨?_, ?_, ?_, ?_, ?_⟩
  · unfold up16; rw [e1]; omega
  · rw [ea]; omega
  · rw [e1]; omega
  · rw [e1]; omega
  · rw [ea, e1]
    calc a.toNat * 10 * 10 ^ (e.toInt - 1).toNat = a.toNat * 10 ^ e.toInt.toNat := by rw [hp]; ring
      _ < 10 ^ 11 := h4

theorem BInv_init (s : U128) (e : Int16) (h1 : 1 ≤ s.toNat) (h2 : s.toNat < 1000000)
    (he0 : 0 ≤ e.toInt) (he5 : e.toInt ≤ 5) : BInv s.w0 e := by
  have hw : s.w0.toNat = s.toNat := by
    have := s.w0.toNat_lt
    simp only [U128.toNat] at *; omega
  refine ⟨by omega, he0, he5, ?_⟩
  rw [hw]
  have : (10:Nat) ^ e.toInt.toNat ≤ 10 ^ 5 := Nat.pow_le_pow_right (by norm_num) (by omega)
  calc s.toNat * 10 ^ e.toInt.toNat ≤ s.toNat * 10 ^ 5 := Nat.mul_le_mul_left _ this
    _ < 10 ^ 11 := by omega

/-- `U128.div10` together with the decimal-digit bookkeeping of the integer/fraction split -/
theorem U128_div10_log (n : U128) :
    ⦃⌜True⌝⦄ Gen.U128.div10 n
    ⦃⇓ p => ⌜p.1.toNat = n.toNat / 10 ∧ p.2.toNat = n.toNat % 10 ∧
      (1 ≤ Nat.log 10 n.toNat → Nat.log 10 p.1.toNat = Nat.log 10 n.toNat - 1 ∧ 1 ≤ p.1.toNat) ∧
      (Nat.log 10 p.1.toNat ≤ 5 → p.1.toNat < 1000000)⌝⦄ := by
  obtain ⟨q, r, e, hq, hr⟩ := U128_div10_spec n
  exact Go.triple_of_ok e ⟨hq, hr, fun h => log_step _ _ hq h, lt_of_log_le5 _⟩

theorem exp2Split_triple {α : Type} (dSig : U128) (dExp : Int16) (l10 : Int64)
    (k : U128 → Int16 → UInt64 → Go.GoM α) (Q : α → Prop)
    (hk : ∀ s e i, ⦃⌜i.toNat ≠ 0 ∨ s.toNat ≠ 0⌝⦄ k s e i ⦃⇓ r => ⌜Q r⌝⦄) :
    ⦃⌜dSig.toNat ≠ 0 ∧ l10.toInt = Nat.log 10 dSig.toNat ∧ i16v dExp ≤ 5 - l10.toInt⌝⦄
    exp2Split dSig dExp l10 k ⦃⇓ r => ⌜Q r⌝⦄ := by
  have hd := U128_div10_log
  have h5 := lt_of_log_le5 dSig.toNat
  mvcgen -trivial [exp2Split, hk, hd, -U128_div10_triple]
  case inv1 => exact fun st => ⟨dn16 st.2.2⟩
  case inv2 => exact ⇓ x => match x with
    | .inl st => ⌜1 ≤ st.2.1.toNat ∧
        (Nat.log 10 st.2.1.toNat : Int) + i16v st.2.2 = (Nat.log 10 dSig.toNat : Int) + i16v dExp ∧
        (Nat.log 10 st.2.1.toNat ≤ 5 → st.2.1.toNat < 1000000) ∧ (st.2.2 ≤ 0 ∨ st.2.2 = dExp)⌝
    | .inr st => ⌜1 ≤ st.2.1.toNat ∧
        (Nat.log 10 st.2.1.toNat : Int) + i16v st.2.2 = (Nat.log 10 dSig.toNat : Int) + i16v dExp ∧
        (Nat.log 10 st.2.1.toNat ≤ 5 → st.2.1.toNat < 1000000) ∧ (st.2.2 ≤ 0 ∨ st.2.2 = dExp) ∧
        0 ≤ st.2.2⌝
  case inv3 => exact fun st => ⟨up16 st.2⟩
  case inv4 => exact ⇓ x => match x with
    | .inl st => ⌜BInv st.1 st.2⌝
    | .inr st => ⌜1 ≤ st.1.toNat⌝
  case inv5 => exact fun st => ⟨st.2.2.toNat⟩
  case inv6 => exact ⇓ _ => ⌜True⌝
  all_goals (simp +zetaDelta at *)
  case vc4 =>
    obtain ⟨hm, hB⟩ := ‹_ ∧ BInv _ _›
    rw [hm]
    exact BInv_step hB ‹_›
  case vc5 => exact BInv_pos ‹_ ∧ BInv _ _›.2
  all_goals d192_prep
  case vc6 => exact BInv_init _ _ (by omega) (by omega) (by omega) (by omega)
  all_goals omega

/-- `U128.log10` in terms of `Nat.log` -/
theorem U128_log10_log (n : U128) :
    ⦃⌜True⌝⦄ Gen.U128.log10 n ⦃⇓ l => ⌜l.toInt = Nat.log 10 n.toNat⌝⦄ := by
  have hk := Nat.log10_lt_39_of_lt n.toNat n.toNat_lt
  exact Go.triple_of_ok (U128_log10_eq n) (Int64.toInt_ofNat_small _ (by omega))

set_option maxHeartbeats 1000000 in
theorem Exp2_triple (g : Globals) (d : Gen.Decimal) :
    ⦃⌜True⌝⦄ Gen.Exp2 g d ⦃⇓ _ => ⌜True⌝⦄ := by
  rw [Exp2_eq]
  have hnz := sig_ne_zero d
  have hl := U128_log10_log
  have hs : ∀ (dSig : U128) (dExp : Int16) (l10 : Int64),
      ⦃⌜dSig.toNat ≠ 0 ∧ l10.toInt = Nat.log 10 dSig.toNat ∧ i16v dExp ≤ 5 - l10.toInt⌝⦄
      exp2Split dSig dExp l10 (fun dSig dExp dSigInt =>
        exp2Pow d dSigInt (fun sigInt expInt trunc =>
          exp2Tail g d dSig dExp dSigInt sigInt expInt trunc)) ⦃⇓ _ => ⌜True⌝⦄ := by
    intro dSig dExp l10
    apply exp2Split_triple
    intro s e i
    apply triple_of_ok_pre
    intro hpre
    have := exp2Pow_triple d i (fun sigInt expInt trunc => exp2Tail g d s e i sigInt expInt trunc)
      (fun s' e' t' => by
        apply triple_of_ok_pre
        intro hs'
        obtain ⟨r, hr, _⟩ := ok_of_triple_pre (exp2Tail_triple g d s e i s' e' t') ⟨hpre, hs'⟩
        exact ⟨r, hr, trivial⟩)
    obtain ⟨r, hr, _⟩ := ok_of_triple this
    exact ⟨r, hr, trivial⟩
  mvcgen -trivial [exp2Staged, hl, hs, -U128_log10_triple]
  all_goals (simp +zetaDelta at *)
  all_goals (try have hnz' := hnz (by first | assumption | (casesm* _ ∧ _ <;> assumption)))
  all_goals d192_prep
  all_goals d192_fin

theorem Exp2_total (g : Globals) (d : Gen.Decimal) : ∃ r, Gen.Exp2 g d = .ok r :=
  total_of_triple (Exp2_triple g d)

end D128.Proofs.Total
