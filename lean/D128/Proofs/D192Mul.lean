/-
  D128/Proofs/D192Mul.lean — contracts of `decomposed192.mul` and `decomposed192.pow2`
  (Go: /repo/decomposed.go), for ALL inputs.

  * `mul_triple`, `pow2_triple` : Hoare triples (no panic, termination) with the truncation state `Tr`
  * `mul_spec`  : `Gen.decomposed192.mul d o t = .ok (r, t')` with, for some `k ≤ 58`,
        `r.sig = d.sig·o.sig / 10^k`, `r.exp = d.exp + o.exp + k` (wrapping `Int16` arithmetic),
        `t' = if 10^k ∣ d.sig·o.sig then t else 1`, and `k = 0 ∨ 2^192/10 ≤ r.sig` (57 digits kept)
  * `pow2_spec` : the same for `pow2` with `d.sig^2` and `d.exp * 2`
  * `mul_contract`, `pow2_contract` : rational form under the explicit no-wrap hypothesis on the
        exponents:  `val r ≤ val d · val o < val r + ulp r`, the result is exact iff the flag was left
        untouched (`t' = t`), inexact ⇒ `t' = 1`; and `val d · val o < 2^192·10^(d.exp+o.exp)`-style
        precision statement `k = 0 ∨ 2^192/10 ≤ r.sig`.
  * `ok_of_triple'` : result equation from a triple.
-/
import D128.Proofs.D192Base
import D128.Proofs.WordsWideMul
import D128.Proofs.WordsWideMsd2

set_option autoImplicit false
set_option maxRecDepth 4096
set_option exponentiation.threshold 512
open Std.Do D128.Proofs.WordsWide
set_option mvcgen.warning false

namespace D192

theorem mul_triple (d o : Gen.decomposed192) (t : Int8) :
    ⦃⌜True⌝⦄ Gen.decomposed192.mul d o t
    ⦃⇓ x => ⌜Tr (d.sig.toNat * o.sig.toNat) t (d.exp + o.exp) x.2 x.1.sig.toNat x.1.exp⌝⦄ := by
  mvcgen [Gen.decomposed192.mul]
  case inv1 => exact fun st => ⟨st.2.1.toNat⟩
  case inv2 => exact ⇓ x => match x with
    | .inl st => ⌜Tr (d.sig.toNat * o.sig.toNat) t (d.exp + o.exp) st.1 st.2.1.toNat st.2.2⌝
    | .inr st => ⌜Tr (d.sig.toNat * o.sig.toNat) t (d.exp + o.exp) st.1 st.2.1.toNat st.2.2 ∧ st.2.1.w5 = 0⌝
  case inv3 => exact fun st => ⟨st.2.1.toNat⟩
  case inv4 => exact ⇓ x => match x with
    | .inl st => ⌜Tr (d.sig.toNat * o.sig.toNat) t (d.exp + o.exp) st.1 st.2.1.toNat st.2.2 ∧ st.2.1.w5 = 0⌝
    | .inr st => ⌜Tr (d.sig.toNat * o.sig.toNat) t (d.exp + o.exp) st.1 st.2.1.toNat st.2.2 ∧ st.2.1.w5 = 0 ∧ st.2.1.w4 = 0⌝
  case inv5 | inv7 | inv9 => exact fun st => ⟨st.2.2.toNat⟩
  case inv6 | inv8 => exact ⇓ x => match x with
    | .inl st => ⌜Tr (d.sig.toNat * o.sig.toNat) t (d.exp + o.exp) st.1 st.2.2.toNat st.2.1⌝
    | .inr st => ⌜Tr (d.sig.toNat * o.sig.toNat) t (d.exp + o.exp) st.1 st.2.2.toNat st.2.1⌝
  case inv10 => exact ⇓ x => match x with
    | .inl st => ⌜Tr (d.sig.toNat * o.sig.toNat) t (d.exp + o.exp) st.1 st.2.2.toNat st.2.1⌝
    | .inr st => ⌜Tr (d.sig.toNat * o.sig.toNat) t (d.exp + o.exp) st.1 st.2.2.toNat st.2.1 ∧ st.2.2.w3 = 0⌝
  all_goals (simp +zetaDelta at *)
  case vc1 => rename_i hdiv hg hinv hnz; exact vc_nz 19 (by norm_num) _ _ _ hdiv (U384.ge_of_w5 _ hg) hinv hnz
  case vc2 => rename_i hdiv hg hinv hz; exact vc_z 19 (by norm_num) _ _ _ hdiv (U384.ge_of_w5 _ hg) hinv hz
  case vc3 => rename_i hz hinv; exact ⟨hinv.2, hz⟩
  case vc4 => rw [U192_mul_toNat]; exact Tr.refl _ _ _
  case vc5 =>
    rename_i hdiv hg hinv hnz
    have := vc_nz 19 (by norm_num) _ _ _ hdiv (U384.ge_of_w4 _ hg) ⟨hinv.1, hinv.2.1⟩ hnz
    exact ⟨this.1, this.2, U384.w5_zero_of_le _ _ (div_le_of_eq hdiv.1) hinv.2.2⟩
  case vc6 =>
    rename_i hdiv hg hinv hz
    have := vc_z 19 (by norm_num) _ _ _ hdiv (U384.ge_of_w4 _ hg) ⟨hinv.1, hinv.2.1⟩ hz
    exact ⟨this.1, this.2, U384.w5_zero_of_le _ _ (div_le_of_eq hdiv.1) hinv.2.2⟩
  case vc7 => rename_i hz hinv; exact ⟨hinv.2.1, hinv.2.2, hz⟩
  case vc8 => rename_i h; exact h
  case vc9 => rename_i hdiv hg hinv hnz; exact vc_nz 8 (by norm_num) _ _ _ hdiv (U256.ge_of_w3_1e8 _ hg) hinv hnz
  case vc10 => rename_i hdiv hg hinv hz; exact vc_z 8 (by norm_num) _ _ _ hdiv (U256.ge_of_w3_1e8 _ hg) hinv hz
  case vc11 | vc15 => rename_i hinv; exact hinv.2
  case vc12 => rename_i h; rw [U384.toNat_low4 _ h.2.1 h.2.2]; exact h.1
  case vc13 => rename_i hdiv hg hinv hnz; exact vc_nz 4 (by norm_num) _ _ _ hdiv (U256.ge_of_w3_1e4 _ hg) hinv hnz
  case vc14 => rename_i hdiv hg hinv hz; exact vc_z 4 (by norm_num) _ _ _ hdiv (U256.ge_of_w3_1e4 _ hg) hinv hz
  case vc16 | vc20 => rename_i h; exact h
  case vc17 => rename_i hdiv hg hinv hnz; exact vc_nz 1 (by norm_num) _ _ _ hdiv (U256.ge_of_w3 _ hg) hinv hnz
  case vc18 => rename_i hdiv hg hinv hz; exact vc_z 1 (by norm_num) _ _ _ hdiv (U256.ge_of_w3 _ hg) hinv hz
  case vc19 => rename_i hz hinv; exact ⟨hinv.2, hz⟩
  case vc21 => rename_i h; rw [U256.toNat_low3 _ h.2]; exact h.1

theorem pow2_triple (d : Gen.decomposed192) (t : Int8) :
    ⦃⌜True⌝⦄ Gen.decomposed192.pow2 d t
    ⦃⇓ x => ⌜Tr (d.sig.toNat ^ 2) t (d.exp * 2) x.2 x.1.sig.toNat x.1.exp⌝⦄ := by
  mvcgen [Gen.decomposed192.pow2]
  case inv1 => exact fun st => ⟨st.2.1.toNat⟩
  case inv2 => exact ⇓ x => match x with
    | .inl st => ⌜Tr (d.sig.toNat ^ 2) t (d.exp * 2) st.1 st.2.1.toNat st.2.2⌝
    | .inr st => ⌜Tr (d.sig.toNat ^ 2) t (d.exp * 2) st.1 st.2.1.toNat st.2.2 ∧ st.2.1.w5 = 0⌝
  case inv3 => exact fun st => ⟨st.2.1.toNat⟩
  case inv4 => exact ⇓ x => match x with
    | .inl st => ⌜Tr (d.sig.toNat ^ 2) t (d.exp * 2) st.1 st.2.1.toNat st.2.2 ∧ st.2.1.w5 = 0⌝
    | .inr st => ⌜Tr (d.sig.toNat ^ 2) t (d.exp * 2) st.1 st.2.1.toNat st.2.2 ∧ st.2.1.w5 = 0 ∧ st.2.1.w4 = 0⌝
  case inv5 | inv7 => exact fun st => ⟨st.2.2.toNat⟩
  case inv6 => exact ⇓ x => match x with
    | .inl st => ⌜Tr (d.sig.toNat ^ 2) t (d.exp * 2) st.1 st.2.2.toNat st.2.1⌝
    | .inr st => ⌜Tr (d.sig.toNat ^ 2) t (d.exp * 2) st.1 st.2.2.toNat st.2.1⌝
  case inv8 => exact ⇓ x => match x with
    | .inl st => ⌜Tr (d.sig.toNat ^ 2) t (d.exp * 2) st.1 st.2.2.toNat st.2.1⌝
    | .inr st => ⌜Tr (d.sig.toNat ^ 2) t (d.exp * 2) st.1 st.2.2.toNat st.2.1 ∧ st.2.2.w3 = 0⌝
  all_goals (simp +zetaDelta at *)
  case vc1 => rename_i hdiv hg hinv hnz; exact vc_nz 19 (by norm_num) _ _ _ hdiv (U384.ge_of_w5 _ hg) hinv hnz
  case vc2 => rename_i hdiv hg hinv hz; exact vc_z 19 (by norm_num) _ _ _ hdiv (U384.ge_of_w5 _ hg) hinv hz
  case vc3 => rename_i hz hinv; exact ⟨hinv.2, hz⟩
  case vc4 => rw [U192_pow2_toNat]; exact Tr.refl _ _ _
  case vc5 =>
    rename_i hdiv hg hinv hnz
    have := vc_nz 19 (by norm_num) _ _ _ hdiv (U384.ge_of_w4 _ hg) ⟨hinv.1, hinv.2.1⟩ hnz
    exact ⟨this.1, this.2, U384.w5_zero_of_le _ _ (div_le_of_eq hdiv.1) hinv.2.2⟩
  case vc6 =>
    rename_i hdiv hg hinv hz
    have := vc_z 19 (by norm_num) _ _ _ hdiv (U384.ge_of_w4 _ hg) ⟨hinv.1, hinv.2.1⟩ hz
    exact ⟨this.1, this.2, U384.w5_zero_of_le _ _ (div_le_of_eq hdiv.1) hinv.2.2⟩
  case vc7 => rename_i hz hinv; exact ⟨hinv.2.1, hinv.2.2, hz⟩
  case vc8 => rename_i h; exact h
  case vc9 => rename_i hdiv hg hinv hnz; exact vc_nz 4 (by norm_num) _ _ _ hdiv (U256.ge_of_w3_1e4 _ hg) hinv hnz
  case vc10 => rename_i hdiv hg hinv hz; exact vc_z 4 (by norm_num) _ _ _ hdiv (U256.ge_of_w3_1e4 _ hg) hinv hz
  case vc11 => rename_i hinv; exact hinv.2
  case vc12 => rename_i h; rw [U384.toNat_low4 _ h.2.1 h.2.2]; exact h.1
  case vc13 => rename_i hdiv hg hinv hnz; exact vc_nz 1 (by norm_num) _ _ _ hdiv (U256.ge_of_w3 _ hg) hinv hnz
  case vc14 => rename_i hdiv hg hinv hz; exact vc_z 1 (by norm_num) _ _ _ hdiv (U256.ge_of_w3 _ hg) hinv hz
  case vc15 => rename_i hz hinv; exact ⟨hinv.2, hz⟩
  case vc16 => rename_i h; exact h
  case vc17 => rename_i h; rw [U256.toNat_low3 _ h.2]; exact h.1

theorem prod_lt (a b : U192) : a.toNat * b.toNat < 2 ^ 192 / 10 * 10 ^ (58 + 1) := by
  have ha := U192.toNat_lt a
  have hb := U192.toNat_lt b
  calc a.toNat * b.toNat < 2 ^ 192 * 2 ^ 192 := Nat.mul_lt_mul'' ha hb
    _ ≤ _ := by norm_num

/-- `decomposed192.mul`, all inputs: never panics; the significand is the exact 384-bit product with
`k ≤ 58` low digits dropped, the exponent is advanced by `k` (wrapping), the sticky flag becomes `1`
iff a non-zero digit was dropped (otherwise it is passed through), and unless `k = 0` the result
keeps at least 57 digits. -/
theorem mul_spec (d o : Gen.decomposed192) (t : Int8) :
    ∃ r t' k, Gen.decomposed192.mul d o t = .ok (r, t') ∧ k ≤ 58 ∧
      r.sig.toNat = d.sig.toNat * o.sig.toNat / 10 ^ k ∧
      r.exp = d.exp + o.exp + Int16.ofNat k ∧
      t' = (if d.sig.toNat * o.sig.toNat % 10 ^ k = 0 then t else 1) ∧
      (k = 0 ∨ 2 ^ 192 / 10 ≤ r.sig.toNat) := by
  obtain ⟨⟨r, t'⟩, hr, k, h1, h2, h3, h4⟩ := ok_of_triple (mul_triple d o t)
  exact ⟨r, t', k, hr, Tr.k_le' 58 (prod_lt _ _) (h1 ▸ h4), h1, h2, h3, h4⟩

theorem pow2_spec (d : Gen.decomposed192) (t : Int8) :
    ∃ r t' k, Gen.decomposed192.pow2 d t = .ok (r, t') ∧ k ≤ 58 ∧
      r.sig.toNat = d.sig.toNat ^ 2 / 10 ^ k ∧
      r.exp = d.exp * 2 + Int16.ofNat k ∧
      t' = (if d.sig.toNat ^ 2 % 10 ^ k = 0 then t else 1) ∧
      (k = 0 ∨ 2 ^ 192 / 10 ≤ r.sig.toNat) := by
  obtain ⟨⟨r, t'⟩, hr, k, h1, h2, h3, h4⟩ := ok_of_triple (pow2_triple d t)
  have hP : d.sig.toNat ^ 2 < 2 ^ 192 / 10 * 10 ^ (58 + 1) := by rw [pow_two]; exact prod_lt _ _
  exact ⟨r, t', k, hr, Tr.k_le' 58 hP (h1 ▸ h4), h1, h2, h3, h4⟩

theorem val_mul (d o : Gen.decomposed192) :
    val d * val o = ((d.sig.toNat * o.sig.toNat : Nat) : ℚ) * (10 : ℚ) ^ (d.exp.toInt + o.exp.toInt) := by
  unfold val
  rw [zpow_add₀ (by norm_num)]
  push_cast
  ring

/-- `decomposed192.mul`, rational contract.  Hypothesis: the exponent sum stays `58` away from the
`int16` wrap.  The result is the product truncated toward zero to the result's own unit, exact iff
the flag is passed through unchanged; an inexact result always raises the flag to `1`. -/
theorem mul_contract (d o : Gen.decomposed192) (t : Int8)
    (hlo : -32768 ≤ d.exp.toInt + o.exp.toInt) (hhi : d.exp.toInt + o.exp.toInt + 58 ≤ 32767) :
    ∃ r t', Gen.decomposed192.mul d o t = .ok (r, t') ∧
      val r ≤ val d * val o ∧ val d * val o < val r + ulp r ∧
      (val r = val d * val o → t' = t) ∧ (val r ≠ val d * val o → t' = 1) ∧
      d.exp.toInt + o.exp.toInt ≤ r.exp.toInt ∧ r.exp.toInt ≤ d.exp.toInt + o.exp.toInt + 58 ∧
      (r.exp = d.exp + o.exp ∨ 2 ^ 192 / 10 ≤ r.sig.toNat) := by
  obtain ⟨⟨r, t'⟩, hr, h⟩ := ok_of_triple (mul_triple d o t)
  have he : (d.exp + o.exp).toInt = d.exp.toInt + o.exp.toInt := Int16.toInt_add_of _ _ hlo (by omega)
  have := Tr.contract 58 h (prod_lt _ _) (by norm_num) (by rw [he]; exact hlo)
    (by rw [he]; exact_mod_cast hhi)
  rw [he, ← val_mul] at this
  exact ⟨r, t', hr, by simpa using this⟩

/-- `decomposed192.pow2`, rational contract (hypothesis: `2·d.exp` stays `58` away from the wrap). -/
theorem pow2_contract (d : Gen.decomposed192) (t : Int8)
    (hlo : -32768 ≤ 2 * d.exp.toInt) (hhi : 2 * d.exp.toInt + 58 ≤ 32767) :
    ∃ r t', Gen.decomposed192.pow2 d t = .ok (r, t') ∧
      val r ≤ val d ^ 2 ∧ val d ^ 2 < val r + ulp r ∧
      (val r = val d ^ 2 → t' = t) ∧ (val r ≠ val d ^ 2 → t' = 1) ∧
      2 * d.exp.toInt ≤ r.exp.toInt ∧ r.exp.toInt ≤ 2 * d.exp.toInt + 58 ∧
      (r.exp = d.exp * 2 ∨ 2 ^ 192 / 10 ≤ r.sig.toNat) := by
  obtain ⟨⟨r, t'⟩, hr, h⟩ := ok_of_triple (pow2_triple d t)
  have he : (d.exp * 2).toInt = 2 * d.exp.toInt := by
    have e2 : d.exp * 2 = d.exp + d.exp := by rw [Int16.mul_two]
    rw [e2, Int16.toInt_add_of] <;> omega
  have hP : d.sig.toNat ^ 2 < 2 ^ 192 / 10 * 10 ^ (58 + 1) := by rw [pow_two]; exact prod_lt _ _
  have := Tr.contract 58 h hP (by norm_num) (by rw [he]; exact hlo) (by rw [he]; exact_mod_cast hhi)
  have hv : val d ^ 2 = ((d.sig.toNat ^ 2 : Nat) : ℚ) * (10 : ℚ) ^ (2 * d.exp.toInt) := by
    rw [pow_two, val_mul, pow_two, two_mul]
  rw [he, ← hv] at this
  exact ⟨r, t', hr, by simpa using this⟩

/-- the hypotheses of `mul_contract` / `pow2_contract` are satisfiable on a non-trivial input (a
116-digit product): `(2^192-1)·10^-57 × (2^192-1)·10^-57`. -/
example := mul_contract
    ⟨⟨18446744073709551615, 18446744073709551615, 18446744073709551615⟩, -57⟩
    ⟨⟨18446744073709551615, 18446744073709551615, 18446744073709551615⟩, -57⟩ 0 (by decide) (by decide)
example := pow2_contract
    ⟨⟨18446744073709551615, 18446744073709551615, 18446744073709551615⟩, -57⟩ 0 (by decide) (by decide)

end D192
