/-
  Exponent alignment of `Cmp` / `CmpAbs` / (later) `Equal`: for non-zero coefficients below 2^114
  and biased exponents below 2^14 the staged cores compute the order of `a·10^ed` and `b·10^eo`.

  * `magSpec a ed b eo res` — the mathematical answer (as seen from `res = ±1`)
  * `core_ok`    : `core dSig oSig dExp oExp res = .ok (magSpec …)`
  * `coreAbs_ok` : `coreAbs dSig oSig dExp oExp = .ok (magSpec … 1)`
-/
import D128.Proofs.CmpTail
set_option autoImplicit false

namespace CmpPf
open Gen

def magSpec (a ed b eo : Nat) (res : Int8) : Int8 :=
  if eo ≤ ed then cmp3 (a * 10 ^ (ed - eo)) b res else cmp3 (b * 10 ^ (eo - ed)) a (res * (-1))

theorem U128_cmp_ge (n o : U128) : (Gen.U128.cmp n o ≥ (0 : Int64)) ↔ o.toNat ≤ n.toNat := by
  rw [U128_cmp_eq]
  by_cases h1 : n.toNat = o.toNat
  · simp [h1]
  · by_cases h2 : n.toNat < o.toNat
    · simp only [h1, h2, if_false, if_true]
      constructor
      · intro h; exact absurd h (by decide)
      · intro h; omega
    · simp only [h1, h2, if_false]
      constructor
      · intro _; omega
      · intro _; decide

theorem cmp3_gt (x y : Nat) (res : Int8) (h : y < x) : cmp3 x y res = res := by
  unfold cmp3
  rw [if_neg (by omega), if_neg (by omega)]

theorem i16_lits :
    (0 : Int16).toInt = 0 ∧ (19 : Int16).toInt = 19 ∧ (35 : Int16).toInt = 35 ∧
    (-19 : Int16).toInt = -19 ∧ (-35 : Int16).toInt = -35 ∧ (-1 : Int16).toInt = -1 := by decide

theorem pow_ge_of_le (g k : Nat) (h : k ≤ g) : 10 ^ k ≤ 10 ^ g :=
  Nat.pow_le_pow_right (by norm_num) h

theorem core_ok (dSig oSig : U128) (dExp oExp : Int16) (res : Int8) (ed eo : Nat)
    (hd : dExp.toInt = ed) (ho : oExp.toInt = eo) (hed : ed < 16384) (heo : eo < 16384)
    (ha : 0 < dSig.toNat) (ha' : dSig.toNat < 2 ^ 114)
    (hb : 0 < oSig.toNat) (hb' : oSig.toNat < 2 ^ 114)
    (hres : res = 1 ∨ res = -1) :
    core dSig oSig dExp oExp res = .ok (magSpec dSig.toNat ed oSig.toNat eo res) := by
  obtain ⟨l0, l19, l35, lm19, lm35, lm1⟩ := i16_lits
  have hres' : res * (-1) = 1 ∨ res * (-1) = -1 := by
    rcases hres with rfl | rfl
    · right; decide
    · left; decide
  have he : (dExp - oExp).toInt = (ed : Int) - eo := by
    rw [i16_sub _ _ (by omega) (by omega), hd, ho]
  unfold core magSpec
  generalize dExp - oExp = e at he ⊢
  simp only [Int16.lt_iff_toInt_lt, Int16.le_iff_toInt_le, U128_cmp_ge, he, l0, l19,
    l35, lm19, lm35]
  by_cases hlt : ed < eo
  · -- d has the smaller exponent
    have hg : 1 ≤ eo - ed := by omega
    have c1 : (ed : Int) - eo < 0 := by omega
    have c2 : ¬ eo ≤ ed := by omega
    simp only [c1, c2, decide_true, if_true, if_false]
    by_cases hc : dSig.toNat ≤ oSig.toNat
    · simp only [hc, decide_true, if_true]
      rw [cmp3_gt]; rfl
      have := pow_ge_of_le (eo - ed) 1 hg
      nlinarith
    · simp only [hc, decide_false, Bool.false_eq_true, if_false]
      by_cases h19 : 19 ≤ eo - ed
      · have c3 : (ed : Int) - eo ≤ -19 := by omega
        simp only [c3, decide_true, if_true]
        by_cases h35 : 35 < eo - ed
        · have c4 : (ed : Int) - eo < -35 := by omega
          simp only [c4, decide_true, if_true]
          rw [cmp3_gt]; rfl
          have := pow_ge_of_le (eo - ed) 36 (by omega)
          have : (2:Nat) ^ 114 < 10 ^ 36 := by norm_num
          nlinarith
        · have c4 : ¬ (ed : Int) - eo < -35 := by omega
          simp only [c4, decide_false, Bool.false_eq_true, if_false]
          obtain ⟨q, r, hdv, hq, hr⟩ := U128_div1e19_eq dSig
          rw [hdv]
          simp only [bind, Except.bind, U128_or_eq_zero, u64_ne_zero]
          have hk : (((e + (19 : Int16)) * (-1 : Int16)).toInt) = ((eo - ed - 19 : Nat) : Int) := by
            have h1 : (e + (19 : Int16)).toInt = e.toInt + 19 := by
              rw [i16_add _ _ (by rw [l19, he]; omega) (by rw [l19, he]; omega), l19]
            rw [i16_mul _ _ (by rw [lm1, h1, he]; omega) (by rw [lm1, h1, he]; omega), lm1, h1, he]
            omega
          by_cases h0 : q.toNat = 0
          · simp only [h0, decide_true, if_true]
            rw [cmp3_gt]; rfl
            have := pow_ge_of_le (eo - ed) 19 h19
            have h10 : (10:Nat) ^ 19 = 10000000000000000000 := by norm_num
            have : dSig.toNat < 10 ^ 19 := by
              rw [h10]
              rw [hq] at h0
              exact Nat.lt_of_div_eq_zero (by norm_num) h0
            nlinarith
          · simp only [h0, decide_false, Bool.false_eq_true, if_false]
            have hstep := tailSpec_step oSig.toNat dSig.toNat (eo - ed) 19 10000000000000000000
              (by norm_num) h19 false (res * (-1))
            rw [tailSpec_false] at hstep
            rw [← hstep, ← hq, ← hr]
            by_cases h1 : r.toNat = 0
            · simp only [h1, ne_eq, not_true_eq_false, decide_false, Bool.false_eq_true, if_false,
                Bool.or_self]
              exact tail_ok oSig q _ (eo - ed - 19) (by omega) hk false _ hb hres'
            · simp only [h1, ne_eq, not_false_eq_true, decide_true, if_true, Bool.or_true]
              exact tail_ok oSig q _ (eo - ed - 19) (by omega) hk true _ hb hres'
      · have c3 : ¬ (ed : Int) - eo ≤ -19 := by omega
        simp only [c3, decide_false, Bool.false_eq_true, if_false]
        have hk : ((e * (-1 : Int16)).toInt) = ((eo - ed : Nat) : Int) := by
          rw [i16_mul _ _ (by rw [lm1, he]; omega) (by rw [lm1, he]; omega), lm1, he]
          omega
        rw [← tailSpec_false]
        exact tail_ok oSig dSig _ (eo - ed) (by omega) hk false _ hb hres'
  · have c1 : ¬ (ed : Int) - eo < 0 := by omega
    have c2 : eo ≤ ed := by omega
    simp only [c1, c2, decide_false, Bool.false_eq_true, if_true, if_false]
    by_cases hgt : eo < ed
    · have hg : 1 ≤ ed - eo := by omega
      have c3 : (0 : Int) < (ed : Int) - eo := by omega
      simp only [c3, decide_true, if_true]
      by_cases hc : oSig.toNat ≤ dSig.toNat
      · simp only [hc, decide_true, if_true]
        rw [cmp3_gt]; rfl
        have := pow_ge_of_le (ed - eo) 1 hg
        nlinarith
      · simp only [hc, decide_false, Bool.false_eq_true, if_false]
        by_cases h19 : 19 ≤ ed - eo
        · have c4 : (19 : Int) ≤ (ed : Int) - eo := by omega
          simp only [c4, decide_true, if_true]
          by_cases h35 : 35 < ed - eo
          · have c5 : (35 : Int) < (ed : Int) - eo := by omega
            simp only [c5, decide_true, if_true]
            rw [cmp3_gt]; rfl
            have := pow_ge_of_le (ed - eo) 36 (by omega)
            have : (2:Nat) ^ 114 < 10 ^ 36 := by norm_num
            nlinarith
          · have c5 : ¬ (35 : Int) < (ed : Int) - eo := by omega
            simp only [c5, decide_false, Bool.false_eq_true, if_false]
            obtain ⟨q, r, hdv, hq, hr⟩ := U128_div1e19_eq oSig
            rw [hdv]
            simp only [bind, Except.bind, U128_or_eq_zero, u64_ne_zero]
            have hk : ((e - (19 : Int16)).toInt) = ((ed - eo - 19 : Nat) : Int) := by
              rw [i16_sub _ _ (by rw [l19, he]; omega) (by rw [l19, he]; omega), l19, he]
              omega
            by_cases h0 : q.toNat = 0
            · simp only [h0, decide_true, if_true]
              rw [cmp3_gt]; rfl
              have := pow_ge_of_le (ed - eo) 19 h19
              have h10 : (10:Nat) ^ 19 = 10000000000000000000 := by norm_num
              have : oSig.toNat < 10 ^ 19 := by
                rw [h10]
                rw [hq] at h0
                exact Nat.lt_of_div_eq_zero (by norm_num) h0
              nlinarith
            · simp only [h0, decide_false, Bool.false_eq_true, if_false]
              have hstep := tailSpec_step dSig.toNat oSig.toNat (ed - eo) 19 10000000000000000000
                (by norm_num) h19 false res
              rw [tailSpec_false] at hstep
              rw [← hstep, ← hq, ← hr]
              by_cases h1 : r.toNat = 0
              · simp only [h1, ne_eq, not_true_eq_false, decide_false, Bool.false_eq_true, if_false,
                  Bool.or_self]
                exact tail_ok dSig q _ (ed - eo - 19) (by omega) hk false _ ha hres
              · simp only [h1, ne_eq, not_false_eq_true, decide_true, if_true, Bool.or_true]
                exact tail_ok dSig q _ (ed - eo - 19) (by omega) hk true _ ha hres
        · have c4 : ¬ (19 : Int) ≤ (ed : Int) - eo := by omega
          simp only [c4, decide_false, Bool.false_eq_true, if_false]
          have hk : (e.toInt) = ((ed - eo : Nat) : Int) := by rw [he]; omega
          rw [← tailSpec_false]
          exact tail_ok dSig oSig _ (ed - eo) (by omega) hk false _ ha hres
    · have c3 : ¬ (0 : Int) < (ed : Int) - eo := by omega
      simp only [c3, decide_false, Bool.false_eq_true, if_false]
      have hk : (e.toInt) = ((ed - eo : Nat) : Int) := by rw [he]; omega
      rw [← tailSpec_false]
      exact tail_ok dSig oSig _ (ed - eo) (by omega) hk false _ ha hres

theorem coreAbs_eq_core (dSig oSig : U128) (dExp oExp : Int16) :
    coreAbs dSig oSig dExp oExp = core dSig oSig dExp oExp 1 := by
  unfold coreAbs core
  rw [show (1 : Int8) * (-1) = -1 from by decide]

theorem coreAbs_ok (dSig oSig : U128) (dExp oExp : Int16) (ed eo : Nat)
    (hd : dExp.toInt = ed) (ho : oExp.toInt = eo) (hed : ed < 16384) (heo : eo < 16384)
    (ha : 0 < dSig.toNat) (ha' : dSig.toNat < 2 ^ 114)
    (hb : 0 < oSig.toNat) (hb' : oSig.toNat < 2 ^ 114) :
    coreAbs dSig oSig dExp oExp = .ok (magSpec dSig.toNat ed oSig.toNat eo 1) := by
  rw [coreAbs_eq_core]
  exact core_ok dSig oSig dExp oExp 1 ed eo hd ho hed heo ha ha' hb hb' (Or.inl rfl)

end CmpPf
