/-
  D128/Proofs/PowAccEpow.lean — property C18, general path of `Pow`: `decomposed192.epow` against `Real.exp`
  for ANY incoming sticky flag (`ExpAcc.epowHyp` is stated for the flags 0 and 1 that `Exp` passes; `Pow` passes
  the flag of `log` and `mul`, which can be `-1`).  The value does not depend on the flag; only the outgoing flag does.

  Provided (namespace `PowAcc`):
  * `EpowFacts3 a z` : `ExpAcc.EpowFacts` with `flag3 z.2` in place of `z.2 = 0 ∨ z.2 = 1`
  * `pow_stage3`     : `ExpAcc.pow_stage` for a flag in `{0, 1, -1}`
  * `epow_any`       : `EpowPre a l10`, `l10 = ⌊log10 a.sig⌋`, `flag3 t` ⇒ `epow a l10 t = .ok z ∧ EpowFacts3 a z`
-/
import D128.Proofs.ExpAccEpow
import D128.Proofs.LogAccOps
set_option autoImplicit false
set_option maxRecDepth 4096
set_option exponentiation.threshold 512

namespace PowAcc
open Gen D192 Spec SpecRound EnclPf ExpAcc LogAcc

/-- what the result `z` of `epow a l10 t` satisfies, for any incoming flag -/
def EpowFacts3 (a : decomposed192) (z : decomposed192 × Int8) : Prop :=
  (z.1 = dinf ∧ (10 : ℝ) ^ (16326 : ℕ) ≤ Real.exp ((val a : ℚ) : ℝ)) ∨
   (flag3 z.2 ∧
    Real.exp ((val a : ℚ) : ℝ) * (1 - 1 / 10 ^ 38) ≤ ((val z.1 : ℚ) : ℝ) ∧
    ((val z.1 : ℚ) : ℝ) ≤ Real.exp ((val a : ℚ) : ℝ) ∧ 1 / 2 ≤ val z.1 ∧
    (z.1 = D192.one ∨ 10 ^ 55 ≤ z.1.sig.toNat) ∧ (z.1 = D192.one → val a < 1 / 10 ^ 50))

/-- `ExpAcc.pow_stage` for any flag -/
theorem pow_stage3 (a : decomposed192) (x : ℚ) (o : Int16) (y : decomposed192) (ty : Int8)
    (hx0 : 0 < x) (hx1 : x ≤ 1) (ho0 : 0 ≤ o.toInt) (ho7 : o.toInt ≤ 7)
    (hxa : x * (10 : ℚ) ^ (o.toInt.toNat) = val a) (hx10 : o = 0 ∨ 1 / 10 ≤ x)
    (hy1 : R x * (1 - theta) ^ 118 ≤ val y) (hy2 : val y ≤ R x) (hy3 : 1 ≤ val y)
    (htyf : flag3 ty) (hysz : y = D192.one ∨ 10 ^ 55 ≤ y.sig.toNat) :
    ∃ z, decomposed192.powexp10 y o ty = .ok z ∧ EpowFacts3 a z := by
  obtain ⟨z, hz, hcases⟩ := powexp10_spec y o ty hy3 ho0 ho7
  refine ⟨z, hz, ?_⟩
  obtain ⟨hr1, hr2⟩ := horner_real x hx0.le hx1 (val y) hy1 hy2
  have hgt := horner_gt_one x (val y) hx0.le hy1
  rcases hcases with ⟨ho0', hzy⟩ | ⟨hone, hpost⟩
  · -- o = 0: the result is the Horner value
    right
    have hav : val a = x := by
      rw [← hxa, ho0', i16_zero_toInt]; simp
    rw [hzy, hav]
    refine ⟨htyf, ?_, hr2, by linarith, hysz, ?_⟩
    · have he : 0 < Real.exp (x : ℝ) := Real.exp_pos _
      nlinarith
    · intro hyo
      have hyo' : y = D192.one := hyo
      have hv1 : val y = 1 := by rw [hyo', val_one]
      rw [hv1] at hgt
      have : x * (1 - 118 / 10 ^ 56) ≤ 118 / 10 ^ 56 := by linarith
      have h2 : x * (1 / 2) ≤ x * (1 - 118 / 10 ^ 56) := mul_le_mul_of_nonneg_left (by norm_num) hx0.le
      have : x ≤ 236 / 10 ^ 56 := by linarith
      calc x ≤ 236 / 10 ^ 56 := this
        _ < 1 / 10 ^ 50 := by norm_num
  · -- o ≥ 1: the power
    have hoN : o ≠ 0 := hone
    have hx10' : 1 / 10 ≤ x := hx10.resolve_left hoN
    have hopos : 1 ≤ o.toInt := by
      by_contra hcon
      apply hoN; apply Int16.toInt_inj.1; rw [i16_zero_toInt]; omega
    set P := 10 ^ o.toInt.toNat with hP
    have hP7 : P ≤ 10 ^ 7 := Nat.pow_le_pow_right (by norm_num) (by omega)
    have hP10 : 10 ≤ P := by
      calc 10 = 10 ^ 1 := by norm_num
        _ ≤ 10 ^ o.toInt.toNat := Nat.pow_le_pow_right (by norm_num) (by omega)
    have hav : (x : ℝ) * (P : ℝ) = ((val a : ℚ) : ℝ) := by
      rw [← hxa, hP]; push_cast; rfl
    have hxP : (1 : ℝ) ≤ (x : ℝ) * (P : ℝ) := by
      have h1 : ((1 / 10 : ℚ) : ℝ) ≤ (x : ℝ) := by exact_mod_cast hx10'
      have h2 : (10 : ℝ) ≤ (P : ℝ) := by exact_mod_cast hP10
      push_cast at h1
      nlinarith
    rcases hpost with ⟨hdinf, hhuge⟩ | ⟨hz1, hz2, hf1, hf2⟩
    · left
      refine ⟨hdinf, ?_⟩
      rw [← hav, mul_comm, Real.exp_nat_mul]
      have h1 : (((10 : ℚ) ^ (16326 : Int) : ℚ) : ℝ) ≤ ((val y ^ P : ℚ) : ℝ) := Rat.cast_le.2 hhuge
      rw [Rat.cast_zpow, Rat.cast_pow, Rat.cast_ofNat, zpow_ofNat] at h1
      have hy0 : (0 : ℝ) ≤ ((val y : ℚ) : ℝ) := by exact_mod_cast (val_nonneg y)
      exact le_trans h1 (pow_le_pow_left₀ hy0 hr2 P)
    · right
      obtain ⟨hp1, hp2⟩ := pow_real x P hP7 (val y) (val z.1) hr1 hr2 hz1 hz2
      rw [hav] at hp1 hp2
      refine ⟨?_, hp1, hp2, ?_, ?_, ?_⟩
      · by_cases hex : val z.1 = val y ^ P
        · rw [hf1 hex]; split
          · exact flag3_zero
          · exact flag3_one
        · rw [hf2 hex]; exact flag3_one
      · have h1 : (1 : ℚ) ≤ val y ^ P := one_le_pow₀ hy3
        have h2 := pow_eps_ge_half P hP7
        calc (1 : ℚ) / 2 ≤ 1 * (1 - D192.eps) ^ P := by linarith
          _ ≤ val y ^ P * (1 - D192.eps) ^ P := mul_le_mul_of_nonneg_right h1 (by linarith)
          _ ≤ val z.1 := hz1
      · have hyne : y ≠ D192.one := by
          intro hyo
          have hv1 : val y = 1 := by rw [hyo, val_one]
          rw [hv1] at hgt
          have : (1 + 1 / 10 : ℚ) * (1 - 118 / 10 ^ 56) ≤ (1 + x) * (1 - 118 / 10 ^ 56) :=
            mul_le_mul_of_nonneg_right (by linarith) (by norm_num)
          have h3 : (1 : ℚ) < (1 + 1 / 10) * (1 - 118 / 10 ^ 56) := by norm_num
          linarith
        have hbig := powexp10_big y o ty (10 ^ 55) (by norm_num) (by norm_num) (hysz.resolve_left hyne) z hz
        right
        rcases hbig with h | h
        · rw [h]; decide
        · exact h
      · intro hzo
        exfalso
        have hv1 : ((val z.1 : ℚ) : ℝ) = 1 := by rw [hzo, val_one]; norm_num
        rw [hv1] at hp1
        have he : (2 : ℝ) ≤ Real.exp ((val a : ℚ) : ℝ) := by
          rw [← hav]
          have := Real.add_one_le_exp ((x : ℝ) * (P : ℝ))
          linarith
        nlinarith

/-- **`epow` against the real exponential, any incoming flag** -/
theorem epow_any (a : decomposed192) (l10 : Int16) (t : Int8) (hpre : EpowPre a l10)
    (hl : l10.toInt = Nat.log 10 a.sig.toNat) (ht : flag3 t) :
    ∃ z, decomposed192.epow a l10 t = .ok z ∧ EpowFacts3 a z := by
  obtain ⟨ho0, ho7, hx0, hx1, hxa, hx10⟩ := epow_arg a l10 hpre
  obtain ⟨y, ty, heq, hy1, hy2, hy3, hty, hysz, -, -⟩ := epow_head a l10 t hpre
  have htyf : flag3 ty := flag3_of_or ht hty
  rw [heq]
  exact pow_stage3 a _ _ y ty hx0 hx1 ho0 ho7 hxa
    (hx10.imp id (fun h => h hl)) hy1 hy2 hy3 htyf hysz

end PowAcc
