/-
  D128/Proofs/CohortElemSqrt.lean — property C19 for `Gen.Sqrt` on its general path (finite, non-zero, positive argument):
  bit-identical results for two encodings of one value, for every default rounding mode — UNDER THE HYPOTHESIS that the
  first quotient of the Heron loop is inexact.

  `Sqrt` scales the coefficient `c` of its argument to `nrm = c·10^(−L)` (`L = ⌊log10 c⌋`; `·10^(−L−1)` when `e + L` is odd),
  forms the linear seed `x₀ = nrm·mul + add` and runs eight Heron steps `x ← 0.5·(x + nrm/x)` in the 57-digit working format.
  For a cohort member `⟨c·10^k, e−k⟩` the logarithm is `L + k`, so parity, final exponent `dExp` and the VALUE of `nrm` are
  the same, but the registers of `nrm` and of the (exactly computed) seed differ.  An inexact quotient is normalised to full
  width and therefore does not depend on the representations of its operands (`CohortElem.quo_congr`); after it the two
  runs coincide (`CohortElemSqrtStep.lean`).

  WHAT IS MISSING (why the theorems are `_partial`): the arguments whose FIRST quotient `nrm/x₀` is exact
  (`A ∣ c·10^n` for some `n`, with at most 57 quotient digits; `A = 819·c + 259·10^L` resp. `2590·c + 819·10^L`; this needs
  `7 ∣ c` and `A/7` of the form `2^a·5^b·37^s` resp. `2^a·5^b·3^s·13^t`; the only coefficients below `3·10^7` are `c = 854·10^j` (odd parity: `85.4`,
  `0.854`, …) and `c = 4989376` (even parity)).  There the two first quotients, sums and halves are exact with DIFFERENT
  registers, and the argument has to be repeated for the second (third, …) quotient, where the side conditions of the
  operation lemmas are not known to hold for every argument: `add_congr` needs "no over-full twin" for the iterate (an exact
  `0.5·(x + ν/x)` may be `P` in one run and `P·10^m ≥ 10·LIM` in the other), its flag clause cannot be decided by magnitude
  when digits of an exact quotient are dropped, and `quo_congr` needs `NoSkip (ν/x₁)`, which FAILS for `c = 854`
  (`ν/x₁ = 0.6406…` lies in `[0.61299…, 0.71299…)`).  Numerically (`#guard`s at the end: cohort members, all six modes)
  `Sqrt` is encoding-independent for these arguments, too: the states coincide after the second Heron step.

  Provided (namespace `CohortElem`):
  * `sqrtFirstQuo d`        : the prefix of `Root.sqrtCore d` up to the first `quo` of the loop (`log10`, parity test, seed, `quo`)
  * `seedInt c e`           : the integer of the seed: `819·c + 259·10^L` (`e + L` even) resp. `2590·c + 819·10^L` (odd)
  * `ArgFacts`, `argFacts`, `nrm_sig`, `sqrtNrm_even`, `sqrtNrm_odd`, `zpow_shift`, `sqrt_cohort_log`, `parity_word_congr` :
                              facts about `Root.sqrtNrm`, the parity word `dExp − 6176 + l10` and cohort members
  * `core_even_congr`, `core_odd_congr` : the two branches of `sqrtCore` on two encodings
  * `sqrtCore_congr`        : `sqrtCore d = sqrtCore d'` for `d ~ d'` when `sqrtFirstQuo d` returns flag 1
  * `sqrtFirstQuo_inexact`  : `(∀ n, ¬ seedInt c e ∣ c·10^n) → ∃ x, sqrtFirstQuo d = .ok x ∧ x.2 = 1`
  * **`sqrt_encoding_independent_partial`**  : `Gen.Sqrt g d = Gen.Sqrt g d'` (run-level hypothesis)
  * **`sqrt_encoding_independent_of_arith`** : the same from the arithmetic hypothesis `∀ n, ¬ seedInt c e ∣ c·10^n`
  * **`sqrt_encoding_independent_of_not_dvd_seven`** : the same, UNCONDITIONALLY, for every coefficient `c` with `7 ∤ c`
    (both seed integers are multiples of 7, and `7 ∤ c·10^n`)
  * `sqrt_encoding_independent_same_partial`, `…_same_of_arith`, `…_same_of_not_dvd_seven` : the C19 form
    `∃ r r', Gen.Sqrt g d = .ok r ∧ Gen.Sqrt g d' = .ok r' ∧ (𝔳[r]).same 𝔳[r'] = true`
  * `example`s: `Sqrt` of 2 written `2e0` and `2000e-3` (`seedInt = 1897 = 7·271`, `271 ∤ 2·10^n`), of 20 (odd parity,
    `5999 = 7·857`), of `123.456` (`7 ∤ 123456`)
  * `ofCE`, `sqrtBits` + `#guard`s : the uncovered arguments `854e-1`, `4989376e0` by evaluation
-/
import D128.Proofs.CohortElemSqrtStep
import D128.Proofs.TotalElem
set_option autoImplicit false
set_option maxRecDepth 4096
set_option exponentiation.threshold 512
set_option linter.unusedVariables false
open D128.Proofs.WordsWide

namespace CohortElem
open Gen D192 Root
local notation "𝔳[" d "]" => Spec.interp (Gen.Decimal.lo d) (Gen.Decimal.hi d)

/-- the prefix of `Root.sqrtCore` up to the first quotient of the Heron loop: returns that quotient and its flag -/
def sqrtFirstQuo (d : Decimal) : Go.GoM (decomposed192 × Int8) := do
  let t ← U128.log10 d.decompose.1
  if (d.decompose.2 - 6176 + Go.conv t &&& 1 == 0) = true then
    firstQuo (sqrtNrm d (Go.conv t) false)
      { sig := { w0 := 819, w1 := 0, w2 := 0 }, exp := -3 }
      { sig := { w0 := 259, w1 := 0, w2 := 0 }, exp := -3 }
  else
    firstQuo (sqrtNrm d (Go.conv t) true)
      { sig := { w0 := 259, w1 := 0, w2 := 0 }, exp := -2 }
      { sig := { w0 := 819, w1 := 0, w2 := 0 }, exp := -4 }

/-- the integer of the linear seed of `Sqrt(c·10^e)`: the seed is `seedInt c e · 10^(−L−3)` resp. `· 10^(−L−4)` -/
def seedInt (c : Nat) (e : Int) : Nat :=
  if (e + Nat.log 10 c) % 2 = 0 then 819 * c + 259 * 10 ^ Nat.log 10 c else 2590 * c + 819 * 10 ^ Nat.log 10 c

/-! ### small facts -/

theorem conv_log38 (L : Nat) (hL : L ≤ 38) : ((Go.conv (Int64.ofNat L) : Int16)).toInt = L := by
  have hki : (Int64.ofNat L).toInt = L := Int64.toInt_ofNat_small _ (by omega)
  show (Int16.ofInt (Int64.ofNat L).toInt).toInt = L
  rw [hki, Int16.toInt_ofInt]
  have : (Int16.size : Int) = 65536 := rfl
  apply Int.bmod_eq_of_le <;> omega

theorem log_cmax {c : Nat} (h : c ≤ Spec.Cmax) : Nat.log 10 c ≤ 34 := by
  have : Nat.log 10 c < 35 := Nat.log_lt_of_lt_pow' (by norm_num) (by unfold Spec.Cmax at h; omega)
  omega

theorem zpow_shift {c c' : ℚ} {x x' a a' : Int} (h : c * (10 : ℚ) ^ x = c' * (10 : ℚ) ^ x')
    (ha : a - x = a' - x') : c * (10 : ℚ) ^ a = c' * (10 : ℚ) ^ a' := by
  have e1 : (10 : ℚ) ^ a = (10 : ℚ) ^ x * (10 : ℚ) ^ (a - x) := by
    rw [← zpow_add₀ (by norm_num)]; congr 1; ring
  have e2 : (10 : ℚ) ^ a' = (10 : ℚ) ^ x' * (10 : ℚ) ^ (a - x) := by
    rw [ha, ← zpow_add₀ (by norm_num)]; congr 1; ring
  rw [e1, e2, ← mul_assoc, ← mul_assoc, h]

/-- cohort members: the decimal exponent `e + ⌊log10 c⌋` is the same -/
theorem sqrt_cohort_log {c c' : Nat} {x x' : Int} (hc : c ≠ 0) (hc' : c' ≠ 0)
    (h : (c : ℚ) * (10 : ℚ) ^ x = (c' : ℚ) * (10 : ℚ) ^ x') :
    x + Nat.log 10 c = x' + Nat.log 10 c' := by
  rcases le_total x' x with hle | hle
  · have := q_eq_nat h hle
    rw [this, log10_mul_pow _ _ hc]
    push_cast
    rw [Int.toNat_of_nonneg (by omega)]; ring
  · have := q_eq_nat h.symm hle
    rw [this, log10_mul_pow _ _ hc']
    push_cast
    rw [Int.toNat_of_nonneg (by omega)]; ring

/-- what `Sqrt` knows about a finite non-zero argument -/
structure ArgFacts (d : Decimal) : Prop where
  c0 : d.decompose.1.toNat ≠ 0
  cC : d.decompose.1.toNat ≤ Spec.Cmax
  L34 : Nat.log 10 d.decompose.1.toNat ≤ 34
  lo : 10 ^ Nat.log 10 d.decompose.1.toNat ≤ d.decompose.1.toNat
  hi : d.decompose.1.toNat < 10 ^ (Nat.log 10 d.decompose.1.toNat + 1)
  e0 : 0 ≤ d.decompose.2.toInt
  e1 : d.decompose.2.toInt ≤ 12287
  /-- the parity word `dExp − 6176 + l10` -/
  par : (d.decompose.2 - 6176 + (Go.conv (Int64.ofNat (Nat.log 10 d.decompose.1.toNat)) : Int16)).toInt
      = d.decompose.2.toInt - 6176 + Nat.log 10 d.decompose.1.toNat

theorem argFacts (d : Decimal) (hsp : Decimal.isSpecial d = false) (hz : Decimal.IsZero d = false) : ArgFacts d := by
  have hcnz : d.decompose.1.toNat ≠ 0 := by
    have := Sp.IsZero_eq_sig d; rw [hz] at this; simpa using this.symm
  have hC := Enc.decompose_sig_le d
  have hL := log_cmax hC
  have hd0 := Enc.decompose_exp_nonneg d
  have hd1 := Enc.decompose_exp_le d hsp
  refine ⟨hcnz, hC, hL, Nat.pow_log_le_self 10 hcnz, Nat.lt_pow_succ_log_self (by omega) _, hd0, hd1, ?_⟩
  have h6 : (6176 : Int16).toInt = 6176 := by decide
  have e1 : (d.decompose.2 - 6176).toInt = d.decompose.2.toInt - 6176 := by
    rw [Int16.toInt_sub_of] <;> rw [h6] <;> omega
  have hc := conv_log38 _ (show Nat.log 10 d.decompose.1.toNat ≤ 38 by omega)
  rw [Int16.toInt_add_of] <;> rw [e1, hc] <;> omega

theorem nrm_sig (d : Decimal) (l : Int16) (odd : Bool) : (sqrtNrm d l odd).sig.toNat = d.decompose.1.toNat := by
  simp [sqrtNrm, U192.toNat, U128.toNat]

/-- the scaled argument in the even case: `c·10^(−L) ∈ [1, 10)` -/
theorem sqrtNrm_even (d : Decimal) (F : ArgFacts d) :
    (sqrtNrm d (Go.conv (Int64.ofNat (Nat.log 10 d.decompose.1.toNat))) false).exp.toInt
      = -(Nat.log 10 d.decompose.1.toNat : Int) ∧
    1 ≤ val (sqrtNrm d (Go.conv (Int64.ofNat (Nat.log 10 d.decompose.1.toNat))) false) ∧
    val (sqrtNrm d (Go.conv (Int64.ofNat (Nat.log 10 d.decompose.1.toNat))) false) < 10 := by
  have hL := F.L34
  have hc := conv_log38 _ (show Nat.log 10 d.decompose.1.toNat ≤ 38 by omega)
  have eneg : (-(Go.conv (Int64.ofNat (Nat.log 10 d.decompose.1.toNat)) : Int16)).toInt
      = -(Nat.log 10 d.decompose.1.toNat : Int) := by
    rw [Int16.toInt_neg, hc]; apply Int.bmod_eq_of_le <;> omega
  have hexp : (sqrtNrm d (Go.conv (Int64.ofNat (Nat.log 10 d.decompose.1.toNat))) false).exp.toInt
      = -(Nat.log 10 d.decompose.1.toNat : Int) := by
    simp only [sqrtNrm, Bool.false_eq_true, if_false]; exact eneg
  have hcq1 : ((10 ^ Nat.log 10 d.decompose.1.toNat : Nat) : ℚ) ≤ (d.decompose.1.toNat : ℚ) := by exact_mod_cast F.lo
  have hcq2 : (d.decompose.1.toNat : ℚ) < ((10 ^ (Nat.log 10 d.decompose.1.toNat + 1) : Nat) : ℚ) := by
    exact_mod_cast F.hi
  push_cast at hcq1 hcq2
  have hpk : (0 : ℚ) < (10 : ℚ) ^ Nat.log 10 d.decompose.1.toNat := by positivity
  refine ⟨hexp, ?_, ?_⟩
  · unfold D192.val
    rw [nrm_sig, hexp, zpow_neg, zpow_natCast, ← div_eq_mul_inv, le_div_iff₀ hpk]; linarith
  · unfold D192.val
    rw [nrm_sig, hexp, zpow_neg, zpow_natCast, ← div_eq_mul_inv, div_lt_iff₀ hpk]
    rw [pow_succ] at hcq2; linarith

/-- the scaled argument in the odd case: `c·10^(−L−1) ∈ [0.1, 1)` -/
theorem sqrtNrm_odd (d : Decimal) (F : ArgFacts d) :
    (sqrtNrm d (Go.conv (Int64.ofNat (Nat.log 10 d.decompose.1.toNat))) true).exp.toInt
      = -(Nat.log 10 d.decompose.1.toNat : Int) - 1 ∧
    1 / 10 ≤ val (sqrtNrm d (Go.conv (Int64.ofNat (Nat.log 10 d.decompose.1.toNat))) true) ∧
    val (sqrtNrm d (Go.conv (Int64.ofNat (Nat.log 10 d.decompose.1.toNat))) true) < 1 := by
  have hL := F.L34
  have hc := conv_log38 _ (show Nat.log 10 d.decompose.1.toNat ≤ 38 by omega)
  have h1' : (1 : Int16).toInt = 1 := by decide
  have eneg : (-(Go.conv (Int64.ofNat (Nat.log 10 d.decompose.1.toNat)) : Int16)).toInt
      = -(Nat.log 10 d.decompose.1.toNat : Int) := by
    rw [Int16.toInt_neg, hc]; apply Int.bmod_eq_of_le <;> omega
  have eneg1 : (-(Go.conv (Int64.ofNat (Nat.log 10 d.decompose.1.toNat)) : Int16) - 1).toInt
      = -(Nat.log 10 d.decompose.1.toNat : Int) - 1 := by
    rw [Int16.toInt_sub_of] <;> rw [eneg, h1'] <;> omega
  have hexp : (sqrtNrm d (Go.conv (Int64.ofNat (Nat.log 10 d.decompose.1.toNat))) true).exp.toInt
      = -(Nat.log 10 d.decompose.1.toNat : Int) - 1 := by
    simp only [sqrtNrm, if_true]; exact eneg1
  have hcq1 : ((10 ^ Nat.log 10 d.decompose.1.toNat : Nat) : ℚ) ≤ (d.decompose.1.toNat : ℚ) := by exact_mod_cast F.lo
  have hcq2 : (d.decompose.1.toNat : ℚ) < ((10 ^ (Nat.log 10 d.decompose.1.toNat + 1) : Nat) : ℚ) := by
    exact_mod_cast F.hi
  push_cast at hcq1 hcq2
  have hpk1 : (0 : ℚ) < (10 : ℚ) ^ (Nat.log 10 d.decompose.1.toNat + 1) := by positivity
  have hz1 : (10 : ℚ) ^ (-(Nat.log 10 d.decompose.1.toNat : Int) - 1)
      = ((10 : ℚ) ^ (Nat.log 10 d.decompose.1.toNat + 1))⁻¹ := by
    rw [show (-(Nat.log 10 d.decompose.1.toNat : Int) - 1)
      = -((Nat.log 10 d.decompose.1.toNat + 1 : Nat) : Int) by push_cast; ring, zpow_neg, zpow_natCast]
  refine ⟨hexp, ?_, ?_⟩
  · unfold D192.val
    rw [nrm_sig, hexp, hz1, ← div_eq_mul_inv, le_div_iff₀ hpk1, pow_succ]; linarith
  · unfold D192.val
    rw [nrm_sig, hexp, hz1, ← div_eq_mul_inv, div_lt_iff₀ hpk1]; linarith

/-! ### the core of `Sqrt` on two encodings of one value -/

/-- the parity word `dExp − 6176 + l10` of two encodings of one value -/
theorem parity_word_congr (d d' : Decimal) (F : ArgFacts d) (F' : ArgFacts d')
    (hqv : ((Decimal.decompose d).1.toNat : ℚ) * (10 : ℚ) ^ ((Decimal.decompose d).2.toInt - 6176)
      = ((Decimal.decompose d').1.toNat : ℚ) * (10 : ℚ) ^ ((Decimal.decompose d').2.toInt - 6176)) :
    d'.decompose.2 - 6176 + (Go.conv (Int64.ofNat (Nat.log 10 d'.decompose.1.toNat)) : Int16)
      = d.decompose.2 - 6176 + (Go.conv (Int64.ofNat (Nat.log 10 d.decompose.1.toNat)) : Int16) := by
  have hEL := sqrt_cohort_log F.c0 F'.c0 hqv
  apply Int16.toInt_inj.mp
  rw [F.par, F'.par]; omega

/-- the even branch of `sqrtCore` on two encodings -/
theorem core_even_congr (d d' : Decimal) (F : ArgFacts d) (F' : ArgFacts d')
    (hqv : ((Decimal.decompose d).1.toNat : ℚ) * (10 : ℚ) ^ ((Decimal.decompose d).2.toInt - 6176)
      = ((Decimal.decompose d').1.toNat : ℚ) * (10 : ℚ) ^ ((Decimal.decompose d').2.toInt - 6176))
    (mulc addc : decomposed192)
    (hm : mulc = { sig := { w0 := 819, w1 := 0, w2 := 0 }, exp := -3 })
    (ha : addc = { sig := { w0 := 259, w1 := 0, w2 := 0 }, exp := -3 })
    (hq : ∃ x, firstQuo (sqrtNrm d (Go.conv (Int64.ofNat (Nat.log 10 d.decompose.1.toNat))) false) mulc addc = .ok x ∧
      x.2 = 1) :
    (sqrtSeed (sqrtNrm d (Go.conv (Int64.ofNat (Nat.log 10 d.decompose.1.toNat))) false) mulc addc
        >>= iter (sqrtStep (sqrtNrm d (Go.conv (Int64.ofNat (Nat.log 10 d.decompose.1.toNat))) false)) 8)
    = (sqrtSeed (sqrtNrm d' (Go.conv (Int64.ofNat (Nat.log 10 d'.decompose.1.toNat))) false) mulc addc
        >>= iter (sqrtStep (sqrtNrm d' (Go.conv (Int64.ofNat (Nat.log 10 d'.decompose.1.toNat))) false)) 8) := by
  have hEL := sqrt_cohort_log F.c0 F'.c0 hqv
  have hL := F.L34; have hL' := F'.L34
  obtain ⟨x1, x2, x3⟩ := sqrtNrm_even d F
  obtain ⟨y1, y2, y3⟩ := sqrtNrm_even d' F'
  have hv : val (sqrtNrm d (Go.conv (Int64.ofNat (Nat.log 10 d.decompose.1.toNat))) false)
      = val (sqrtNrm d' (Go.conv (Int64.ofNat (Nat.log 10 d'.decompose.1.toNat))) false) := by
    unfold D192.val
    rw [nrm_sig, nrm_sig, x1, y1]
    exact zpow_shift hqv (by omega)
  exact sqrt_chain_congr _ _ _ _ hv (by rw [nrm_sig]; exact F.c0) (by rw [nrm_sig]; exact F'.c0)
    (by rw [nrm_sig]; exact F.cC) (by rw [nrm_sig]; exact F'.cC) (by omega) (by omega)
    (Or.inl ⟨x2, x3, hm, ha⟩) hq

/-- the odd branch of `sqrtCore` on two encodings -/
theorem core_odd_congr (d d' : Decimal) (F : ArgFacts d) (F' : ArgFacts d')
    (hqv : ((Decimal.decompose d).1.toNat : ℚ) * (10 : ℚ) ^ ((Decimal.decompose d).2.toInt - 6176)
      = ((Decimal.decompose d').1.toNat : ℚ) * (10 : ℚ) ^ ((Decimal.decompose d').2.toInt - 6176))
    (mulc addc : decomposed192)
    (hm : mulc = { sig := { w0 := 259, w1 := 0, w2 := 0 }, exp := -2 })
    (ha : addc = { sig := { w0 := 819, w1 := 0, w2 := 0 }, exp := -4 })
    (hq : ∃ x, firstQuo (sqrtNrm d (Go.conv (Int64.ofNat (Nat.log 10 d.decompose.1.toNat))) true) mulc addc = .ok x ∧
      x.2 = 1) :
    (sqrtSeed (sqrtNrm d (Go.conv (Int64.ofNat (Nat.log 10 d.decompose.1.toNat))) true) mulc addc
        >>= iter (sqrtStep (sqrtNrm d (Go.conv (Int64.ofNat (Nat.log 10 d.decompose.1.toNat))) true)) 8)
    = (sqrtSeed (sqrtNrm d' (Go.conv (Int64.ofNat (Nat.log 10 d'.decompose.1.toNat))) true) mulc addc
        >>= iter (sqrtStep (sqrtNrm d' (Go.conv (Int64.ofNat (Nat.log 10 d'.decompose.1.toNat))) true)) 8) := by
  have hEL := sqrt_cohort_log F.c0 F'.c0 hqv
  have hL := F.L34; have hL' := F'.L34
  obtain ⟨x1, x2, x3⟩ := sqrtNrm_odd d F
  obtain ⟨y1, y2, y3⟩ := sqrtNrm_odd d' F'
  have hv : val (sqrtNrm d (Go.conv (Int64.ofNat (Nat.log 10 d.decompose.1.toNat))) true)
      = val (sqrtNrm d' (Go.conv (Int64.ofNat (Nat.log 10 d'.decompose.1.toNat))) true) := by
    unfold D192.val
    rw [nrm_sig, nrm_sig, x1, y1]
    exact zpow_shift hqv (by omega)
  exact sqrt_chain_congr _ _ _ _ hv (by rw [nrm_sig]; exact F.c0) (by rw [nrm_sig]; exact F'.c0)
    (by rw [nrm_sig]; exact F.cC) (by rw [nrm_sig]; exact F'.cC) (by omega) (by omega)
    (Or.inr ⟨x2, x3, hm, ha⟩) hq

theorem bind_pure_congr {α β : Type} {m m' : Go.GoM α} (h : m = m') (f : α → β) :
    (m >>= fun s => (pure (f s) : Go.GoM β)) = (m' >>= fun s => pure (f s)) := by rw [h]

/-- **`sqrtCore` does not depend on the encoding**, provided the first quotient of the Heron loop is inexact -/
theorem sqrtCore_congr (d d' : Decimal) (h : (𝔳[d]).same 𝔳[d'] = true)
    (h1 : Decimal.isSpecial d = false) (h2 : Decimal.IsZero d = false)
    (hq : ∃ x, sqrtFirstQuo d = .ok x ∧ x.2 = 1) : sqrtCore d = sqrtCore d' := by
  obtain ⟨h1', -, hz, hqv⟩ := fin_args d d' h h1
  have h2' : Decimal.IsZero d' = false := by rw [hz]; exact h2
  have F := argFacts d h1 h2
  have F' := argFacts d' h1' h2'
  have hP := parity_word_congr d d' F F' hqv
  unfold sqrtFirstQuo at hq
  unfold sqrtCore
  rw [U128_log10_eq, RK.ok_bind] at hq
  rw [U128_log10_eq, U128_log10_eq, RK.ok_bind, RK.ok_bind]
  rw [hP]
  by_cases hev : (d.decompose.2 - 6176 + (Go.conv (Int64.ofNat (Nat.log 10 d.decompose.1.toNat)) : Int16) &&& 1 == 0) = true
  · rw [if_pos hev] at hq
    rw [if_pos hev, if_pos hev]
    have := core_even_congr d d' F F' hqv _ _ rfl rfl hq
    have := bind_pure_congr this (fun s => (s.1, s.2,
      d.decompose.2 - 6176 + (Go.conv (Int64.ofNat (Nat.log 10 d.decompose.1.toNat)) : Int16)))
    simpa only [bind_assoc] using this
  · rw [if_neg hev] at hq
    rw [if_neg hev, if_neg hev]
    have := core_odd_congr d d' F F' hqv _ _ rfl rfl hq
    have := bind_pure_congr this (fun s => (s.1, s.2,
      d.decompose.2 - 6176 + (Go.conv (Int64.ofNat (Nat.log 10 d.decompose.1.toNat)) : Int16) + 1))
    simpa only [bind_assoc] using this

/-- **C19 for `Sqrt`, general path, first quotient inexact** (run-level hypothesis): bit-identical results for every
default rounding mode.  Missing: the arguments whose first quotient `nrm/x₀` is exact (see the header). -/
theorem sqrt_encoding_independent_partial (g : Globals) (d d' : Decimal) (h : (𝔳[d]).same 𝔳[d'] = true)
    (h1 : Decimal.isSpecial d = false) (h2 : Decimal.IsZero d = false) (h3 : Decimal.Signbit d = false)
    (hq : ∃ x, sqrtFirstQuo d = .ok x ∧ x.2 = 1) :
    Gen.Sqrt g d = Gen.Sqrt g d' := by
  obtain ⟨h1', hsb, hz, -⟩ := fin_args d d' h h1
  rw [Sqrt_eq g d h1 h2 h3, Sqrt_eq g d' h1' (by rw [hz]; exact h2) (by rw [hsb]; exact h3),
    sqrtCore_congr d d' h h1 h2 hq]

/-- the C19 form: no panic, and results of the same class, sign and value -/
theorem sqrt_encoding_independent_same_partial (g : Globals) (d d' : Decimal) (h : (𝔳[d]).same 𝔳[d'] = true)
    (h1 : Decimal.isSpecial d = false) (h2 : Decimal.IsZero d = false) (h3 : Decimal.Signbit d = false)
    (hq : ∃ x, sqrtFirstQuo d = .ok x ∧ x.2 = 1) :
    ∃ r r', Gen.Sqrt g d = .ok r ∧ Gen.Sqrt g d' = .ok r' ∧ (𝔳[r]).same 𝔳[r'] = true := by
  obtain ⟨r, hr⟩ := D128.Proofs.Total.Sqrt_total g d
  exact ⟨r, r, hr, by rw [← sqrt_encoding_independent_partial g d d' h h1 h2 h3 hq]; exact hr, Cohort.same_refl _⟩

/-! ### the arithmetic form of the hypothesis -/

theorem seed_val_even (c L : Nat) :
    (c : ℚ) * (10 : ℚ) ^ (-(L : Int)) * (819 / 1000) + 259 / 1000
      = ((819 * c + 259 * 10 ^ L : Nat) : ℚ) * (10 : ℚ) ^ (-(L : Int) - 3) := by
  have hp : (10 : ℚ) ^ L ≠ 0 := by positivity
  rw [zpow_sub₀ (by norm_num), zpow_neg, zpow_natCast]
  push_cast
  field_simp

theorem seed_val_odd (c L : Nat) :
    (c : ℚ) * (10 : ℚ) ^ (-(L : Int) - 1) * (259 / 100) + 819 / 10000
      = ((2590 * c + 819 * 10 ^ L : Nat) : ℚ) * (10 : ℚ) ^ (-(L : Int) - 4) := by
  have hp : (10 : ℚ) ^ L ≠ 0 := by positivity
  rw [zpow_sub₀ (by norm_num), zpow_sub₀ (by norm_num), zpow_neg, zpow_natCast]
  push_cast
  field_simp
  ring

/-- **arithmetic criterion**: with `c` the coefficient and `e` the exponent of `d`, if no `c·10^n` is a multiple of the
integer `seedInt c e` of the seed, the first quotient of the Heron loop is inexact -/
theorem sqrtFirstQuo_inexact (d : Decimal) (h1 : Decimal.isSpecial d = false) (h2 : Decimal.IsZero d = false)
    (hdiv : ∀ n, ¬ seedInt d.decompose.1.toNat (d.decompose.2.toInt - 6176) ∣ d.decompose.1.toNat * 10 ^ n) :
    ∃ x, sqrtFirstQuo d = .ok x ∧ x.2 = 1 := by
  have F := argFacts d h1 h2
  have hL := F.L34
  unfold sqrtFirstQuo
  rw [U128_log10_eq, RK.ok_bind]
  by_cases hev : (d.decompose.2 - 6176 + (Go.conv (Int64.ofNat (Nat.log 10 d.decompose.1.toNat)) : Int16) &&& 1 == 0) = true
  · rw [if_pos hev]
    rw [i16_and_one, F.par] at hev
    unfold seedInt at hdiv
    rw [if_pos hev] at hdiv
    obtain ⟨x1, x2, x3⟩ := sqrtNrm_even d F
    have hcase : SeedCase (sqrtNrm d (Go.conv (Int64.ofNat (Nat.log 10 d.decompose.1.toNat))) false)
        { sig := { w0 := 819, w1 := 0, w2 := 0 }, exp := -3 }
        { sig := { w0 := 259, w1 := 0, w2 := 0 }, exp := -3 } := Or.inl ⟨x2, x3, rfl, rfl⟩
    refine firstQuo_inexact _ _ _ (by rw [nrm_sig]; exact F.c0) (by rw [nrm_sig]; exact F.cC) (by omega) hcase
      _ (-(Nat.log 10 d.decompose.1.toNat : Int) - 3) ?_ (by rw [nrm_sig]; exact hdiv)
    rcases hcase.consts with ⟨-, -, hm, ha, -⟩ | ⟨-, hlt, -⟩
    · rw [hm, ha, ← seed_val_even]
      unfold D192.val; rw [nrm_sig, x1]
    · linarith
  · rw [if_neg hev]
    rw [i16_and_one, F.par] at hev
    unfold seedInt at hdiv
    rw [if_neg hev] at hdiv
    obtain ⟨x1, x2, x3⟩ := sqrtNrm_odd d F
    have hcase : SeedCase (sqrtNrm d (Go.conv (Int64.ofNat (Nat.log 10 d.decompose.1.toNat))) true)
        { sig := { w0 := 259, w1 := 0, w2 := 0 }, exp := -2 }
        { sig := { w0 := 819, w1 := 0, w2 := 0 }, exp := -4 } := Or.inr ⟨x2, x3, rfl, rfl⟩
    refine firstQuo_inexact _ _ _ (by rw [nrm_sig]; exact F.c0) (by rw [nrm_sig]; exact F.cC) (by omega) hcase
      _ (-(Nat.log 10 d.decompose.1.toNat : Int) - 4) ?_ (by rw [nrm_sig]; exact hdiv)
    rcases hcase.consts with ⟨hge, -⟩ | ⟨-, -, hm, ha, -⟩
    · linarith
    · rw [hm, ha, ← seed_val_odd]
      unfold D192.val; rw [nrm_sig, x1]

/-- **C19 for `Sqrt`, general path, arithmetic hypothesis**: `d = c·10^e` finite, non-zero, positive; `A = seedInt c e`
(`819·c + 259·10^L` for even `e + L`, `2590·c + 819·10^L` for odd `e + L`, `L = ⌊log10 c⌋`) divides no `c·10^n`.  Then
`Sqrt` returns bit-identical results on every encoding of the value of `d`, for every default rounding mode.
Missing: the arguments with `A ∣ c·10^n` (see the header). -/
theorem sqrt_encoding_independent_of_arith (g : Globals) (d d' : Decimal) (h : (𝔳[d]).same 𝔳[d'] = true)
    (h1 : Decimal.isSpecial d = false) (h2 : Decimal.IsZero d = false) (h3 : Decimal.Signbit d = false)
    (c : Nat) (e : Int) (hc : d.decompose.1.toNat = c) (he : d.decompose.2.toInt - 6176 = e)
    (hdiv : ∀ n, ¬ seedInt c e ∣ c * 10 ^ n) :
    Gen.Sqrt g d = Gen.Sqrt g d' :=
  sqrt_encoding_independent_partial g d d' h h1 h2 h3
    (sqrtFirstQuo_inexact d h1 h2 (by rw [hc, he]; exact hdiv))

/-- the C19 form of `sqrt_encoding_independent_of_arith` -/
theorem sqrt_encoding_independent_same_of_arith (g : Globals) (d d' : Decimal) (h : (𝔳[d]).same 𝔳[d'] = true)
    (h1 : Decimal.isSpecial d = false) (h2 : Decimal.IsZero d = false) (h3 : Decimal.Signbit d = false)
    (c : Nat) (e : Int) (hc : d.decompose.1.toNat = c) (he : d.decompose.2.toInt - 6176 = e)
    (hdiv : ∀ n, ¬ seedInt c e ∣ c * 10 ^ n) :
    ∃ r r', Gen.Sqrt g d = .ok r ∧ Gen.Sqrt g d' = .ok r' ∧ (𝔳[r]).same 𝔳[r'] = true :=
  sqrt_encoding_independent_same_partial g d d' h h1 h2 h3
    (sqrtFirstQuo_inexact d h1 h2 (by rw [hc, he]; exact hdiv))

/-! ### a large unconditional class: coefficients not divisible by 7

Both seed integers are multiples of 7 (`819 = 7·117`, `259 = 7·37`, `2590 = 7·370`), and 7 is coprime to 10: an exact first
quotient needs `7 ∣ c`.  (Sharper, not formalised: it needs `7 ∣ c` and `117·c + 37·10^L = 2^a·5^b·37^s` resp. `370·c + 117·10^L = 2^a·5^b·3^s·13^t`.) -/

theorem seven_dvd_seedInt (c : Nat) (e : Int) : 7 ∣ seedInt c e := by
  unfold seedInt
  split
  · exact ⟨117 * c + 37 * 10 ^ Nat.log 10 c, by ring⟩
  · exact ⟨370 * c + 117 * 10 ^ Nat.log 10 c, by ring⟩

theorem no_dvd_of_not_dvd_seven (c : Nat) (e : Int) (h7 : ¬ 7 ∣ c) : ∀ n, ¬ seedInt c e ∣ c * 10 ^ n :=
  no_dvd_of_cofactor _ c 7 (seven_dvd_seedInt c e) (by decide) h7

/-- **C19 for `Sqrt`, general path, coefficient not divisible by 7** (6 of 7 arguments; the condition holds for one encoding
iff it holds for all): bit-identical results for every default rounding mode, no further hypothesis. -/
theorem sqrt_encoding_independent_of_not_dvd_seven (g : Globals) (d d' : Decimal) (h : (𝔳[d]).same 𝔳[d'] = true)
    (h1 : Decimal.isSpecial d = false) (h2 : Decimal.IsZero d = false) (h3 : Decimal.Signbit d = false)
    (h7 : ¬ 7 ∣ d.decompose.1.toNat) :
    Gen.Sqrt g d = Gen.Sqrt g d' :=
  sqrt_encoding_independent_of_arith g d d' h h1 h2 h3 _ _ rfl rfl (no_dvd_of_not_dvd_seven _ _ h7)

/-- the C19 form of `sqrt_encoding_independent_of_not_dvd_seven` -/
theorem sqrt_encoding_independent_same_of_not_dvd_seven (g : Globals) (d d' : Decimal)
    (h : (𝔳[d]).same 𝔳[d'] = true)
    (h1 : Decimal.isSpecial d = false) (h2 : Decimal.IsZero d = false) (h3 : Decimal.Signbit d = false)
    (h7 : ¬ 7 ∣ d.decompose.1.toNat) :
    ∃ r r', Gen.Sqrt g d = .ok r ∧ Gen.Sqrt g d' = .ok r' ∧ (𝔳[r]).same 𝔳[r'] = true :=
  sqrt_encoding_independent_same_of_arith g d d' h h1 h2 h3 _ _ rfl rfl (no_dvd_of_not_dvd_seven _ _ h7)

/-! ### the hypotheses are satisfiable -/

theorem seedInt_2_0 : seedInt 2 0 = 1897 := by
  unfold seedInt; rw [Nat.log_of_lt (by norm_num)]; norm_num
theorem seedInt_2_1 : seedInt 2 1 = 5999 := by
  unfold seedInt; rw [Nat.log_of_lt (by norm_num)]; norm_num

/-- `√2`, even parity: `2e0` against `2000e-3`; the seed is `1.897`, `1897 = 7·271`, and `271 ∤ 2·10^n` -/
theorem ex_div_2_0 : ∀ n, ¬ seedInt 2 0 ∣ 2 * 10 ^ n := by
  rw [seedInt_2_0]
  exact no_dvd_of_cofactor 1897 2 271 (by norm_num) (by decide) (by norm_num)

/-- `√20`, odd parity: `2e1` against `20e0`; the seed is `0.5999`, `5999 = 7·857`, and `857 ∤ 2·10^n` -/
theorem ex_div_2_1 : ∀ n, ¬ seedInt 2 1 ∣ 2 * 10 ^ n := by
  rw [seedInt_2_1]
  exact no_dvd_of_cofactor 5999 2 857 (by norm_num) (by decide) (by norm_num)

example (g : Globals) : Gen.Sqrt g (Gen.compose false ⟨2, 0⟩ 6176) = Gen.Sqrt g (Gen.compose false ⟨2000, 0⟩ 6173) :=
  sqrt_encoding_independent_of_arith g _ _ (by decide +kernel) (by decide) (by decide) (by decide) 2 0
    (by decide) (by decide) ex_div_2_0

example (g : Globals) : Gen.Sqrt g (Gen.compose false ⟨2, 0⟩ 6177) = Gen.Sqrt g (Gen.compose false ⟨20, 0⟩ 6176) :=
  sqrt_encoding_independent_of_arith g _ _ (by decide +kernel) (by decide) (by decide) (by decide) 2 1
    (by decide) (by decide) ex_div_2_1

example (g : Globals) : ∃ r r', Gen.Sqrt g (Gen.compose false ⟨2, 0⟩ 6176) = .ok r ∧
    Gen.Sqrt g (Gen.compose false ⟨2000, 0⟩ 6173) = .ok r' ∧ (𝔳[r]).same 𝔳[r'] = true :=
  sqrt_encoding_independent_same_of_arith g _ _ (by decide +kernel) (by decide) (by decide) (by decide) 2 0
    (by decide) (by decide) ex_div_2_0

/-- `√123.456`: `123456e-3` against `12345600e-5` (`123456 = 7·17636 + 4`) -/
example (g : Globals) :
    Gen.Sqrt g (Gen.compose false ⟨123456, 0⟩ 6173) = Gen.Sqrt g (Gen.compose false ⟨12345600, 0⟩ 6171) :=
  sqrt_encoding_independent_of_not_dvd_seven g _ _ (by decide +kernel) (by decide) (by decide) (by decide)
    (by rw [show (Gen.compose false ⟨123456, 0⟩ 6173).decompose.1.toNat = 123456 by decide]; decide)

/-- the run-level hypothesis of `sqrt_encoding_independent_partial`, on `2e0` -/
example (g : Globals) : Gen.Sqrt g (Gen.compose false ⟨2, 0⟩ 6176) = Gen.Sqrt g (Gen.compose false ⟨2000, 0⟩ 6173) :=
  sqrt_encoding_independent_partial g _ _ (by decide +kernel) (by decide) (by decide) (by decide)
    (sqrtFirstQuo_inexact _ (by decide) (by decide)
      (by rw [show (Gen.compose false ⟨2, 0⟩ 6176).decompose.1.toNat = 2 by decide,
            show (Gen.compose false ⟨2, 0⟩ 6176).decompose.2.toInt - 6176 = 0 by decide]; exact ex_div_2_0))

/-! ### observations by evaluation: the arguments that are NOT covered

An exhaustive search (exact integer arithmetic outside Lean) finds, among the coefficients `c < 3·10^7`, exactly two values whose
seed integer divides some `c·10^n`: `c = 854·10^j` with odd `e + L` (`85.4`, `0.854`, …: seed `2.29376 = 2^15·7·10^-5`, first
quotient `0.372314453125`) and `c = 4989376` with even `e + L` (seed `4.345298944`, first quotient `1.148223876953125`).  For
these the first quotient is exact and its register depends on the encoding; the states of the two runs differ after the first
Heron step and coincide after the second (whose quotient is inexact); the results of `Sqrt` are bit-identical in all six modes.
For `c = 854` the second quotient is `0.6406…`, inside the window `[0.61299…, 0.71299…)` where `NoSkip` fails, so `quo_congr`
cannot be used for it with the value-level criterion. -/

/-- a positive Decimal from coefficient and exponent -/
def ofCE (c : Nat) (e : Int) : Decimal :=
  Gen.compose false ⟨UInt64.ofNat c, UInt64.ofNat (c / 2 ^ 64)⟩ (Int16.ofInt (e + 6176))

/-- the bits of `Sqrt(c·10^e)` under default rounding mode `m` -/
def sqrtBits (m : Nat) (c : Nat) (e : Int) : Option (UInt64 × UInt64) :=
  (Gen.Sqrt { (default : Globals) with DefaultRoundingMode := UInt8.ofNat m } (ofCE c e)).toOption.map
    fun r => (r.lo, r.hi)

#guard runOf (sqrtFirstQuo (ofCE 854 (-1))) == some (372314453125 * 10 ^ 40, -52, 0)
#guard runOf (sqrtFirstQuo (ofCE 854000 (-4))) == some (372314453125 * 10 ^ 37, -49, 0)
#guard runOf (sqrtFirstQuo (ofCE 4989376 0)) == some (1148223876953125 * 10 ^ 33, -48, 0)
#guard runOf (sqrtFirstQuo (ofCE 498937600 (-2))) == some (1148223876953125 * 10 ^ 31, -46, 0)
#guard (List.range 6).all fun m => [1, 3, 17, 31].all fun (k : Nat) =>
  sqrtBits m (854 * 10 ^ k) (-1 - (k : Int)) == sqrtBits m 854 (-1)
#guard (List.range 6).all fun m => [1, 2, 13, 27].all fun (k : Nat) =>
  sqrtBits m (4989376 * 10 ^ k) (0 - (k : Int)) == sqrtBits m 4989376 0
/-- for comparison, a covered argument: the first quotient of `√2` is inexact and the same register on both encodings -/
example : True := trivial
#guard runOf (sqrtFirstQuo (ofCE 2 0)) == runOf (sqrtFirstQuo (ofCE 2000 (-3)))
#guard (runOf (sqrtFirstQuo (ofCE 2 0))).map (·.2.2) == some 1

end CohortElem
