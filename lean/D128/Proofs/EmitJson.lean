/-
  D128/Proofs/EmitJson.lean — `Gen.Decimal.UnmarshalJSON` (Go: /repo/json.go) in normal form.

  * `Emit.jsonResult`, `Emit.jsonStart`    : error translation, sign / start of the digits from the first byte
  * `Emit.bget_eq`, `Emit.bsliceFrom_eq`   : in-range `b[i]`, `b[lo:]`
  * `Emit.ujTail`, `Emit.unmarshalJSON_unfold` (by `rfl`), `Emit.json_tail`, `Emit.ujTail_eq` : the stages
  * `Emit.unmarshalJSON_eq`                : `null` / empty input leave the receiver; otherwise the result is
        `jsonResult d (parseNumber g data[i:] neg false)` — in particular no panic unless `parseNumber` panics
-/
import D128.Proofs.EmitBase
import D128.Proofs.DigitsRound
import D128.Gen.JsonText
set_option autoImplicit false
namespace Emit

/-- what `UnmarshalJSON` makes of the result of `parseNumber` -/
def jsonResult (d : Gen.Decimal) (r : Gen.Decimal × Go.Err) : Gen.Decimal × Go.Err :=
  if r.2 = Go.Err.nil then (r.1, Go.Err.nil)
  else if r.2 = Go.Err.parseNumberRangeError ∨ r.2 = Go.Err.parseNumberSyntaxError then
    (d, Go.Err.jsonUnmarshalType)
  else (d, r.2)

/-- sign and start of the digits, from the first byte -/
def jsonStart (b0 : UInt8) : Bool × Nat :=
  if b0 = 43 then (false, 1) else if b0 = 45 then (true, 1) else (false, 0)

theorem bget_eq (b : Go.Bytes) (i : Nat) (h : i < b.size) : Go.bget b (i : Int) = .ok b[i] := by
  unfold Go.bget
  rw [dif_pos ⟨by omega, by simpa using h⟩]
  rfl

theorem bsliceFrom_eq (b : Go.Bytes) (lo : Int) (h0 : 0 ≤ lo) (h1 : lo.toNat ≤ b.size) :
    Go.bsliceFrom b lo = .ok (b.extract lo.toNat b.size) := by
  unfold Go.bsliceFrom Go.bslice
  rw [if_pos ⟨h0, by omega, by simp⟩]
  simp
  rfl

/-- the tail of `UnmarshalJSON` after `parseNumber` -/
theorem json_tail (d : Gen.Decimal) (data : Go.Bytes) (h : 0 < data.size) (r : Gen.Decimal × Go.Err) :
    (match r with
      | (r_4, r_5) =>
        if (r_5 != Go.Err.nil) = true then
          if (r_5 == Go.Err.parseNumberRangeError) = true then
            (pure (d, Go.Err.jsonUnmarshalType) : Go.GoM (Gen.Decimal × Go.Err))
          else
            if (r_5 == Go.Err.parseNumberSyntaxError) = true then do
              let t_6 ← Go.bget data 0
              if (t_6 == 91) = true then pure (d, Go.Err.jsonUnmarshalType)
                else
                  if (t_6 == 123) = true then pure (d, Go.Err.jsonUnmarshalType)
                  else
                    if (t_6 == 102 || t_6 == 116) = true then pure (d, Go.Err.jsonUnmarshalType)
                    else
                      if (t_6 == 34) = true then pure (d, Go.Err.jsonUnmarshalType)
                      else pure (d, Go.Err.jsonUnmarshalType)
            else pure (d, r_5)
        else pure (r_4, Go.Err.nil)) = .ok (jsonResult d r) := by
  obtain ⟨v, err⟩ := r
  have hb := bget_eq data 0 h
  simp only [Nat.cast_zero] at hb
  -- syntax error: the switch over the first byte returns the same error in every case
  cases err <;> simp [jsonResult, hb] <;> rfl

/-- the part of `UnmarshalJSON` after the sign (text copied from the generated source) -/
def ujTail (g : Globals) (d : Gen.Decimal) (data : Go.Bytes) (neg : Bool) (i : Int64) :
    Go.GoM (Gen.Decimal × Go.Err) := do
  let t_3 ← Go.bsliceFrom data (Go.idx i)
  let __x ← Gen.parseNumber g t_3 neg false
  match __x with
    | (r_4, r_5) =>
      if (r_5 != Go.Err.nil) = true then
        if (r_5 == Go.Err.parseNumberRangeError) = true then pure (d, Go.Err.jsonUnmarshalType)
        else
          if (r_5 == Go.Err.parseNumberSyntaxError) = true then do
            let t_6 ← Go.bget data 0
            if (t_6 == 91) = true then pure (d, Go.Err.jsonUnmarshalType)
              else
                if (t_6 == 123) = true then pure (d, Go.Err.jsonUnmarshalType)
                else
                  if (t_6 == 102 || t_6 == 116) = true then pure (d, Go.Err.jsonUnmarshalType)
                  else
                    if (t_6 == 34) = true then pure (d, Go.Err.jsonUnmarshalType)
                    else pure (d, Go.Err.jsonUnmarshalType)
          else pure (d, r_5)
      else pure (r_4, Go.Err.nil)

theorem unmarshalJSON_unfold (g : Globals) (d : Gen.Decimal) (data : Go.Bytes) :
    Gen.Decimal.UnmarshalJSON g d data =
      (if (data == Go.str "null") = true then pure (d, Go.Err.nil)
      else if (Go.len data == 0) = true then pure (d, Go.Err.nil)
      else do
        let t_1 ← Go.bget data 0
        if (t_1 == 43) = true then ujTail g d data false 1
        else do
          let t_2 ← Go.bget data 0
          if (t_2 == 45) = true then ujTail g d data true 1
          else ujTail g d data false 0) := rfl

theorem ujTail_eq (g : Globals) (d : Gen.Decimal) (data : Go.Bytes) (neg : Bool) (i : Int64)
    (hpos : 0 < data.size) (h0 : 0 ≤ i.toInt) (h1 : i.toInt.toNat ≤ data.size) :
    ujTail g d data neg i =
      Gen.parseNumber g (data.extract i.toInt.toNat data.size) neg false >>= fun r =>
        pure (jsonResult d r) := by
  unfold ujTail
  rw [bsliceFrom_eq data (Go.idx i) h0 h1, Dg.ok_bind]
  congr 1
  funext r
  exact json_tail d data hpos r

/-- **`UnmarshalJSON`, normal form**: `null` and the empty input leave the receiver; everything else is
`parseNumber` (separators off) on the bytes after an optional sign, with the error translated. -/
theorem unmarshalJSON_eq (g : Globals) (d : Gen.Decimal) (data : Go.Bytes) (hsz : data.size < 2 ^ 63) :
    Gen.Decimal.UnmarshalJSON g d data =
      if data = Go.str "null" then .ok (d, Go.Err.nil)
      else if h : data.size = 0 then .ok (d, Go.Err.nil)
      else
        Gen.parseNumber g (data.extract (jsonStart (data[0]'(by omega))).2 data.size)
          (jsonStart (data[0]'(by omega))).1 false >>= fun r => pure (jsonResult d r) := by
  rw [unmarshalJSON_unfold]
  by_cases hn : data = Go.str "null"
  · rw [if_pos hn, if_pos (by simp [hn])]; rfl
  · rw [if_neg hn, if_neg (by simpa using hn), len_beq_zero data hsz]
    by_cases h0 : data.size = 0
    · rw [dif_pos h0, if_pos (by simp [h0])]; rfl
    · rw [dif_neg h0, if_neg (by simp [h0])]
      have hpos : 0 < data.size := by omega
      have hb := bget_eq data 0 hpos
      simp only [Nat.cast_zero] at hb
      rw [hb, Dg.ok_bind, Dg.ok_bind]
      unfold jsonStart
      by_cases h43 : data[0] = 43
      · rw [if_pos (by simp [h43]), if_pos h43,
          ujTail_eq g d data false 1 hpos (by decide) (by show (1 : Int).toNat ≤ _; omega)]
        rfl
      · rw [if_neg (by simp [h43]), if_neg h43]
        by_cases h45 : data[0] = 45
        · rw [if_pos (by simp [h45]), if_pos h45,
            ujTail_eq g d data true 1 hpos (by decide) (by show (1 : Int).toNat ≤ _; omega)]
          rfl
        · rw [if_neg (by simp [h45]), if_neg h45,
            ujTail_eq g d data false 0 hpos (by decide) (by show (0 : Int).toNat ≤ _; omega)]
          rfl
end Emit
