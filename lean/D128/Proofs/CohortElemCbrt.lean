/-
  D128/Proofs/CohortElemCbrt.lean — property C19 for `Gen.Cbrt` on its general path (finite non-zero argument of either
  sign), every `g : Globals`.

  RESULT.  For two encodings `d`, `d'` of one finite non-zero value, `Gen.Cbrt g d` and `Gen.Cbrt g d'` both succeed and
  return Decimals of the same class, sign and numeric value (`cbrt_encoding_independent_partial`), and they are EQUAL bit for
  bit when the core of the first run returns a raised sticky flag (`cbrt_encoding_independent_bits_partial`) — under ONE
  run-level hypothesis `CbrtRunCond d` about the run on `d` (nothing is assumed about the run on `d'`).

  Bit-identity cannot be claimed in general: `Cbrt(1e0) = 10^34e-34`, `Cbrt(10^15e-15) = 10^33e-33` (when every operation of
  every step is exact the iterates keep representation-dependent trailing zeros to the end; the final rounding of an exact
  `10^57e-57` resp. `10^55e-55` keeps them) — `#eval` over the cohorts of 2, 3, -2.5, 0.1, 123.456, 184, 1, -1000 in all six
  modes: values always equal, bits equal except in the all-exact chains (1, 1000).

  METHOD.  `cbrtCore d = iter (cbrtStep arg arg2) 7 (start, 0)` with `arg = c·10^e`, `arg2 = 2c·10^e`,
  `start = c·10^(e − (x − x/3))`, `x = e + ⌊log10 c⌋` (`+1` if negative).  `x` is a function of the VALUE (`start_congr`), so the
  two runs start from states of equal value with flag `0`, with argument registers of equal values.  The pair invariant
  `K` (CohortElemCbrtStep.lean: identical long states, or equal values with both flags `0`) is preserved by each of the seven
  steps (`cbrtStep_K`), and `K` on the final states makes the finish stage return `same` results (`cbrt_same_of_K`,
  CohortElemCbrtFinish.lean), identical ones in the first alternative.

  WHAT IS ASSUMED AND WHY.  `CbrtRunCond d`: for every state `x` with flag `0` reached by the run on `d` in fewer than seven
  steps, `CbrtStepCond arg arg2 x`: IF the cube `x³` is computed exactly (flag of `mul sq x 0` is `0`), THEN the values of `cub`,
  `cub + cub`, `cub + arg2` have no over-full representation (`NoOverfull`: no `n·10^e` with `10·LIM ≤ n < 2^192`, i.e. leading
  digits outside `[6.1299…, 6.2771…)`) and the Halley quotient `(cub + arg2)/(cub + cub + arg)` satisfies `NoSkip` (leading
  digits outside `[6.1299…, 7.1299…)`).  These conditions cannot simply be dropped because the operations `add` and `quo` of the
  working format are NOT functions of the values of their operands without them:
   * `add`: CohortElemAddCongr.lean OBSERVATION 1 (`#guard`): `⟨10·LIM, 5⟩ + ⟨7, 5⟩` is exact, `⟨LIM, 6⟩ + ⟨7, 5⟩` drops the `7`;
   * `quo`: CohortElemQuoCongr.lean OBSERVATION 1 (over-full numerator, `#guard`) and OBSERVATION 2 / FINDING (`#guard`): the long
     division steps over its stopping point for `(⌊LIM/1000⌋·1001 + 500)/1001` but not for `…/(1001·10^50 e−50)`: different values.
  An exact cube of a short start value can be over-full in one run and short in the other (`c = 184`: `184³·10^51 ∈ [10·LIM, 2^192)`),
  and the Halley quotient lies in `(0.5, 2)`, so both conditions have content.  They are sufficient, not necessary (the cohort of
  `184` evaluates to equal results).  When the cube is INEXACT nothing is assumed (`mul_congr`: the same register in both runs,
  full width, and `add_congr_d_full` absorbs the short operands), nor once a last multiplication was inexact (flag `1`: the two
  states are identical from then on).  The mode byte must be valid for the `same` form (`reduce192_correct`); the bit form needs
  no such hypothesis.

  Provided (namespace `CohortElem`):
  * `cbrtL10`, `cbrtCore_eq`   : `cbrtCore d = iter (cbrtStep (cbrtArg d) (cbrtArg2 d)) 7 (cbrtStart d (cbrtL10 d), 0)`
  * `cbrt_regs`                : the registers `cbrtArg d`, `cbrtArg2 d`, `cbrtStart d (cbrtL10 d)` in numbers
  * `cbrt_argOK`, `cbrt_start_W` : `ArgOK`, and `W` for the start state
  * `start_congr`              : two encodings of one value: argument registers and start registers of equal values
  * `W_window`                 : `W arg s` ⇒ `-2200 ≤ s.1.exp ≤ 2100`
  * `iter_K`                   : `K` through `n` steps
  * `CbrtRunCond d`            : the run-level hypothesis
  * `cbrtCore_K`               : both cores succeed with final states related by `K`
  * **`cbrt_encoding_independent_partial`**, **`cbrt_encoding_independent_bits_partial`**, `cbrtCore_congr_of_flag`
  * `cbrtStep_flag_one`, `iter_flag_one`, `runCond_of_first`, `core_flag_of_first` : `CbrtRunCond d` from the side conditions at
                                 the start state plus a raised flag after the first step
  * examples: CohortElemCbrtEx.lean
-/
import D128.Proofs.CohortElemCbrtFinish
import D128.Proofs.D192RootCbrtMain
set_option autoImplicit false
set_option maxRecDepth 4096
set_option exponentiation.threshold 512
set_option linter.unusedVariables false

namespace CohortElem
open Gen D192 Root
local notation "𝔳[" d "]" => Spec.interp (Gen.Decimal.lo d) (Gen.Decimal.hi d)

/-- the `l10` of `Cbrt`: `⌊log10 c⌋` as an `int16` -/
def cbrtL10 (d : Decimal) : Int16 := Go.conv (Int64.ofNat (Nat.log 10 d.decompose.1.toNat))

theorem cbrtCore_eq (d : Decimal) :
    cbrtCore d = iter (cbrtStep (cbrtArg d) (cbrtArg2 d)) 7 (cbrtStart d (cbrtL10 d), 0) := by
  unfold cbrtCore; rw [U128_log10_eq]; rfl

theorem conv_ofNat_small (k : Nat) (hk : k ≤ 38) : (Go.conv (Int64.ofNat k) : Int16).toInt = k := by
  have hki : (Int64.ofNat k).toInt = k := Int64.toInt_ofNat_small _ (by omega)
  show (Int16.ofInt (Int64.ofNat k).toInt).toInt = k
  rw [hki, Int16.toInt_ofInt]
  have : (Int16.size : Int) = 65536 := rfl
  apply Int.bmod_eq_of_le <;> omega

/-- the registers of `Cbrt` in numbers, for any `l10` with the right value -/
theorem cbrt_regs_aux (d : Decimal) (hsp : Decimal.isSpecial d = false) (k : Nat) (l : Int16)
    (hk : k ≤ 38) (hc : l.toInt = k) :
    (cbrtArg d).sig.toNat = d.decompose.1.toNat ∧ (cbrtArg d).exp.toInt = d.decompose.2.toInt - 6176 ∧
      (cbrtArg2 d).sig.toNat = 2 * d.decompose.1.toNat ∧ (cbrtArg2 d).exp = (cbrtArg d).exp ∧
      (cbrtStart d l).sig.toNat = d.decompose.1.toNat ∧
      (cbrtStart d l).exp.toInt = cbrtStartExp k (d.decompose.2.toInt - 6176) := by
  have hd0 := Enc.decompose_exp_nonneg d
  have hd1 := Enc.decompose_exp_le d hsp
  have hcm := Enc.decompose_sig_le d
  have h6 : (6176 : Int16).toInt = 6176 := by decide
  have h1' : (1 : Int16).toInt = 1 := by decide
  have h0' : (0 : Int16).toInt = 0 := by decide
  have e1 : (d.decompose.2 - 6176).toInt = d.decompose.2.toInt - 6176 := by
    rw [Int16.toInt_sub_of] <;> rw [h6] <;> omega
  have e2 : (d.decompose.2 - 6176 + l).toInt = d.decompose.2.toInt - 6176 + k := by
    rw [Int16.toInt_add_of] <;> rw [e1, hc] <;> omega
  have esig : ({ w0 := d.decompose.1.w0, w1 := d.decompose.1.w1, w2 := 0 } : U192).toNat
      = d.decompose.1.toNat := by simp [U192.toNat, U128.toNat]
  have esig2 : (U192.lsh { w0 := d.decompose.1.w0, w1 := d.decompose.1.w1, w2 := 0 } 1).toNat
      = 2 * d.decompose.1.toNat := by
    rw [D128.Proofs.WordsWide.U192_lsh_toNat, esig]
    have : (1 : UInt64).toNat = 1 := rfl
    rw [this]
    have := d.decompose.1.toNat_lt
    omega
  refine ⟨esig, e1, esig2, rfl, esig, ?_⟩
  unfold cbrtStart cbrtStartExp
  simp only [decide_eq_true_eq]
  have hlt : (d.decompose.2 - 6176 + l < 0) ↔
      d.decompose.2.toInt - 6176 + k < 0 := by rw [Int16.lt_iff_toInt_lt, e2, h0']
  split
  · rename_i hneg
    rw [hlt] at hneg
    rw [if_pos hneg]
    have e3 : (d.decompose.2 - 6176 + l + 1).toInt
        = d.decompose.2.toInt - 6176 + k + 1 := by
      rw [Int16.toInt_add_of] <;> rw [e2, h1'] <;> omega
    have hb := tdiv3_bounds (d.decompose.2.toInt - 6176 + k + 1)
    have e4 := i16_third (d.decompose.2 - 6176 + l + 1)
    rw [e3] at e4
    have e5 : (d.decompose.2 - 6176 + l + 1 -
        (d.decompose.2 - 6176 + l + 1) / 3).toInt
        = (d.decompose.2.toInt - 6176 + k + 1) - (d.decompose.2.toInt - 6176 + k + 1).tdiv 3 := by
      rw [Int16.toInt_sub_of] <;> rw [e3, e4] <;> omega
    rw [Int16.toInt_sub_of] <;> rw [e1, e5] <;> omega
  · rename_i hnn
    rw [hlt] at hnn
    rw [if_neg hnn]
    have hb := tdiv3_bounds (d.decompose.2.toInt - 6176 + k)
    have e4 := i16_third (d.decompose.2 - 6176 + l)
    rw [e2] at e4
    have e5 : (d.decompose.2 - 6176 + l -
        (d.decompose.2 - 6176 + l) / 3).toInt
        = (d.decompose.2.toInt - 6176 + k) - (d.decompose.2.toInt - 6176 + k).tdiv 3 := by
      rw [Int16.toInt_sub_of] <;> rw [e2, e4] <;> omega
    rw [Int16.toInt_sub_of] <;> rw [e1, e5] <;> omega

/-- the registers of `Cbrt` in numbers (`c`, `E` the coefficient and unbiased exponent of `d`, `k = ⌊log10 c⌋`) -/
theorem cbrt_regs (d : Decimal) (hsp : Decimal.isSpecial d = false) (hz : Decimal.IsZero d = false) :
    ∃ k : Nat, k = Nat.log 10 d.decompose.1.toNat ∧ 10 ^ k ≤ d.decompose.1.toNat ∧
      d.decompose.1.toNat < 10 ^ (k + 1) ∧
      (cbrtArg d).sig.toNat = d.decompose.1.toNat ∧ (cbrtArg d).exp.toInt = d.decompose.2.toInt - 6176 ∧
      (cbrtArg2 d).sig.toNat = 2 * d.decompose.1.toNat ∧ (cbrtArg2 d).exp = (cbrtArg d).exp ∧
      (cbrtStart d (cbrtL10 d)).sig.toNat = d.decompose.1.toNat ∧
      (cbrtStart d (cbrtL10 d)).exp.toInt = cbrtStartExp k (d.decompose.2.toInt - 6176) := by
  have hk : Nat.log 10 d.decompose.1.toNat ≤ 38 := by
    have := Nat.log10_lt_39_of_lt d.decompose.1.toNat d.decompose.1.toNat_lt
    omega
  have hcnz : d.decompose.1.toNat ≠ 0 := by
    have := Sp.IsZero_eq_sig d; rw [hz] at this; simpa using this.symm
  have hk1 : 10 ^ Nat.log 10 d.decompose.1.toNat ≤ d.decompose.1.toNat := Nat.pow_log_le_self 10 hcnz
  have hk2 : d.decompose.1.toNat < 10 ^ (Nat.log 10 d.decompose.1.toNat + 1) :=
    Nat.lt_pow_succ_log_self (by omega) _
  obtain ⟨a1, a2, a3, a4, a5, a6⟩ := cbrt_regs_aux d hsp _ (cbrtL10 d) hk (conv_ofNat_small _ hk)
  exact ⟨_, rfl, hk1, hk2, a1, a2, a3, a4, a5, a6⟩

theorem cbrt_arg_val (d : Decimal) (hsp : Decimal.isSpecial d = false) (hz : Decimal.IsZero d = false) :
    val (cbrtArg d) = (d.decompose.1.toNat : ℚ) * (10 : ℚ) ^ (d.decompose.2.toInt - 6176) ∧
    val (cbrtArg2 d) = 2 * val (cbrtArg d) := by
  obtain ⟨k, -, -, -, a1, a2, a3, a4, -, -⟩ := cbrt_regs d hsp hz
  have a4' : (cbrtArg2 d).exp.toInt = d.decompose.2.toInt - 6176 := by rw [a4, a2]
  constructor
  · unfold val; rw [a1, a2]
  · unfold val; rw [a1, a2, a3, a4']; push_cast; ring

/-- the argument registers of `Cbrt` satisfy `ArgOK` -/
theorem cbrt_argOK (d : Decimal) (hsp : Decimal.isSpecial d = false) (hz : Decimal.IsZero d = false) :
    ArgOK (cbrtArg d) (cbrtArg2 d) := by
  obtain ⟨k, -, hk1, hk2, a1, a2, a3, a4, -, -⟩ := cbrt_regs d hsp hz
  obtain ⟨v1, v2⟩ := cbrt_arg_val d hsp hz
  have hd0 := Enc.decompose_exp_nonneg d
  have hd1 := Enc.decompose_exp_le d hsp
  have hcC := Enc.decompose_sig_le d
  have hCm := RK.Cmax_val
  have hc0 : 0 < d.decompose.1.toNat := lt_of_lt_of_le (by positivity) hk1
  refine ⟨by rw [a1]; omega, by omega, by omega, ?_, v2, a4, ?_, ?_⟩
  · rw [v1, a2, zpow_add₀ (by norm_num : (10 : ℚ) ≠ 0), mul_comm ((10 : ℚ) ^ _)]
    apply mul_lt_mul_of_pos_right _ (zpow_pos (by norm_num) _)
    have h35 : d.decompose.1.toNat < 10 ^ 35 := lt_of_le_of_lt hcC SpecRound.Cmax_upper
    have : (d.decompose.1.toNat : ℚ) < ((10 ^ 35 : ℕ) : ℚ) := by exact_mod_cast h35
    have e35 : (10 : ℚ) ^ (35 : ℤ) = ((10 ^ 35 : ℕ) : ℚ) := by norm_num
    rw [e35]; exact this
  · rw [a1]; unfold LIM; omega
  · rw [a3]; unfold LIM; omega

/-- the start state satisfies the loop invariant -/
theorem cbrt_start_W (d : Decimal) (hsp : Decimal.isSpecial d = false) (hz : Decimal.IsZero d = false) :
    W (cbrtArg d) (cbrtStart d (cbrtL10 d), 0) := by
  obtain ⟨k, -, hk1, hk2, -, -, -, -, b1, b2⟩ := cbrt_regs d hsp hz
  obtain ⟨v1, -⟩ := cbrt_arg_val d hsp hz
  have hc0 : 0 < d.decompose.1.toNat := lt_of_lt_of_le (by positivity) hk1
  have hcq : (0 : ℚ) < (d.decompose.1.toNat : ℚ) := by exact_mod_cast hc0
  have hv0 : val (cbrtStart d (cbrtL10 d))
      = (d.decompose.1.toNat : ℚ) * (10 : ℚ) ^ (cbrtStartExp k (d.decompose.2.toInt - 6176)) := by
    unfold val; rw [b1, b2]
  have hok := cbrt_start_ok d.decompose.1.toNat k (d.decompose.2.toInt - 6176) hk1 hk2
  exact ⟨by rw [b1]; omega, by rw [hv0, v1]; exact hok.1, by rw [hv0, v1]; exact hok.2, Or.inl rfl, Or.inr rfl⟩

/-- **the start of the two runs**: argument registers and start registers of equal values -/
theorem start_congr (d d' : Decimal) (h : (𝔳[d]).same 𝔳[d'] = true) (hsp : Decimal.isSpecial d = false)
    (hz : Decimal.IsZero d = false) :
    Decimal.isSpecial d' = false ∧ Decimal.IsZero d' = false ∧ Decimal.Signbit d' = Decimal.Signbit d ∧
    val (cbrtArg d) = val (cbrtArg d') ∧ val (cbrtArg2 d) = val (cbrtArg2 d') ∧
    val (cbrtStart d (cbrtL10 d)) = val (cbrtStart d' (cbrtL10 d')) := by
  obtain ⟨hsp', hsg, hz', hq⟩ := fin_args d d' h hsp
  rw [hz] at hz'
  obtain ⟨k, hk, hk1, hk2, -, -, -, -, b1, b2⟩ := cbrt_regs d hsp hz
  obtain ⟨k', hk', hk1', hk2', -, -, -, -, b1', b2'⟩ := cbrt_regs d' hsp' hz'
  obtain ⟨v1, v2⟩ := cbrt_arg_val d hsp hz
  obtain ⟨v1', v2'⟩ := cbrt_arg_val d' hsp' hz'
  have hva : val (cbrtArg d) = val (cbrtArg d') := by rw [v1, v1']; exact hq
  refine ⟨hsp', hz', hsg, hva, by rw [v2, v2', hva], ?_⟩
  -- `E + k` is a function of the value
  set c := d.decompose.1.toNat with hc
  set c' := d'.decompose.1.toNat with hc'
  set E := d.decompose.2.toInt - 6176 with hE
  set E' := d'.decompose.2.toInt - 6176 with hE'
  have hc0 : c ≠ 0 := by have : 0 < c := lt_of_lt_of_le (by positivity) hk1; omega
  have hc0' : c' ≠ 0 := by have : 0 < c' := lt_of_lt_of_le (by positivity) hk1'; omega
  have hsum : E + k = E' + k' := by
    rcases le_total E' E with hle | hle
    · have := q_eq_nat hq hle
      rw [hk', this, log10_mul_pow _ _ hc0, ← hk]
      push_cast
      rw [Int.toNat_of_nonneg (by omega)]; ring
    · have := q_eq_nat hq.symm hle
      rw [hk, this, log10_mul_pow _ _ hc0', ← hk']
      push_cast
      rw [Int.toNat_of_nonneg (by omega)]; ring
  have hy : cbrtStartExp k E - E = cbrtStartExp k' E' - E' := by
    unfold cbrtStartExp; rw [hsum]; ring
  unfold val
  rw [b1, b2, b1', b2']
  have e1 : cbrtStartExp k E = E + (cbrtStartExp k E - E) := by ring
  have e2 : cbrtStartExp k' E' = E' + (cbrtStartExp k E - E) := by rw [hy]; ring
  rw [e1, e2, zpow_add₀ (by norm_num), zpow_add₀ (by norm_num), ← mul_assoc, ← mul_assoc, hq]

/-- exponent window of an iterate -/
theorem W_window {arg arg2 : decomposed192} (A : ArgOK arg arg2) {s : decomposed192 × Int8} (h : W arg s) :
    -2200 ≤ s.1.exp.toInt ∧ s.1.exp.toInt ≤ 2100 := by
  obtain ⟨hs0, hlo, hhi, -, -⟩ := h
  have ha0 : (10 : ℚ) ^ arg.exp.toInt ≤ val arg := by
    unfold val
    exact le_mul_of_one_le_left (zpow_pos (by norm_num) _).le
      (by exact_mod_cast Nat.pos_of_ne_zero A.nz)
  have hx3 : 0 ≤ val s.1 ^ 3 := pow_nonneg (val_nonneg _) 3
  obtain ⟨hw0, hw1⟩ := cbrt_exp_window s.1 (val arg) arg.exp.toInt hs0 ha0 A.lt (by nlinarith) (by nlinarith)
  have := A.e0; have := A.e1
  constructor <;> omega

/-- **`K` through `n` Halley steps** -/
theorem iter_K {arg arg2 arg' arg2' : decomposed192}
    (A : ArgOK arg arg2) (A' : ArgOK arg' arg2') (hva : val arg = val arg') (hva2 : val arg2 = val arg2') :
    ∀ (n : Nat) (s s' : decomposed192 × Int8), W arg s → W arg' s' → K s s' →
      (∀ i, i < n → ∀ x, iter (cbrtStep arg arg2) i s = .ok x → x.2 = 0 → CbrtStepCond arg arg2 x) →
      ∃ t t', iter (cbrtStep arg arg2) n s = .ok t ∧ iter (cbrtStep arg' arg2') n s' = .ok t' ∧
        W arg t ∧ W arg' t' ∧ K t t' := by
  intro n
  induction n with
  | zero => intro s s' w w' hK _; exact ⟨s, s', rfl, rfl, w, w', hK⟩
  | succ n ih =>
    intro s s' w w' hK hrun
    obtain ⟨s1, s1', e1, e1', w1, w1', hK1⟩ :=
      cbrtStep_K A A' hva hva2 w w' hK (hrun 0 (by omega) s rfl)
    obtain ⟨t, t', f1, f1', wt, wt', hKt⟩ := ih s1 s1' w1 w1' hK1 (by
      intro i hi x hx
      exact hrun (i + 1) (by omega) x (by rw [iter_succ_ok _ _ _ _ e1]; exact hx))
    exact ⟨t, t', by rw [iter_succ_ok _ _ _ _ e1]; exact f1, by rw [iter_succ_ok _ _ _ _ e1']; exact f1',
      wt, wt', hKt⟩

/-- **The run-level hypothesis** (about the run on `d` only): every state with flag `0` reached in fewer than seven steps
satisfies the side conditions `CbrtStepCond` of the exact alternative (which say something only if the cube of that state is
computed exactly). -/
def CbrtRunCond (d : Decimal) : Prop :=
  ∀ i, i < 7 → ∀ x, iter (cbrtStep (cbrtArg d) (cbrtArg2 d)) i (cbrtStart d (cbrtL10 d), 0) = .ok x →
    x.2 = 0 → CbrtStepCond (cbrtArg d) (cbrtArg2 d) x

/-- both cores succeed, with final states related by `K` -/
theorem cbrtCore_K (d d' : Decimal) (h : (𝔳[d]).same 𝔳[d'] = true) (hsp : Decimal.isSpecial d = false)
    (hz : Decimal.IsZero d = false) (hrun : CbrtRunCond d) :
    ∃ t t', cbrtCore d = .ok t ∧ cbrtCore d' = .ok t' ∧ K t t' ∧ (t.2 = 0 ∨ t.2 = 1) ∧ t.1.sig.toNat ≠ 0 ∧
      (-2200 ≤ t.1.exp.toInt ∧ t.1.exp.toInt ≤ 2100) ∧ (-2200 ≤ t'.1.exp.toInt ∧ t'.1.exp.toInt ≤ 2100) := by
  obtain ⟨hsp', hz', -, hva, hva2, hst⟩ := start_congr d d' h hsp hz
  have A := cbrt_argOK d hsp hz
  have A' := cbrt_argOK d' hsp' hz'
  obtain ⟨t, t', e, e', wt, wt', hK⟩ := iter_K A A' hva hva2 7 _ _ (cbrt_start_W d hsp hz)
    (cbrt_start_W d' hsp' hz') (Or.inr ⟨hst, rfl, rfl⟩) hrun
  refine ⟨t, t', by rw [cbrtCore_eq, e], by rw [cbrtCore_eq, e'], hK, wt.2.2.2.1, wt.1,
    W_window A wt, W_window A' wt'⟩

/-- **Property C19 for `Cbrt`, general path, partial**: two encodings `d`, `d'` of one finite non-zero value, a valid default
rounding mode, and the run-level hypothesis `CbrtRunCond d` (see the header: side conditions of the exact alternative of the
working-format `add`/`quo`, on the run of `d` only).  Then both calls succeed and return Decimals of the same class, sign and
numeric value.  (PARTIAL: `CbrtRunCond d` is assumed; it is not a consequence of the other hypotheses as far as we can prove.) -/
theorem cbrt_encoding_independent_partial (g : Globals) (m : Spec.Mode)
    (hm : Spec.Mode.ofNat? g.DefaultRoundingMode.toNat = some m) (d d' : Decimal)
    (h : (𝔳[d]).same 𝔳[d'] = true) (hsp : Decimal.isSpecial d = false) (hz : Decimal.IsZero d = false)
    (hrun : CbrtRunCond d) :
    ∃ r r', Gen.Cbrt g d = .ok r ∧ Gen.Cbrt g d' = .ok r' ∧ (𝔳[r]).same 𝔳[r'] = true := by
  obtain ⟨hsp', hz', hsg, -⟩ := start_congr d d' h hsp hz
  obtain ⟨t, t', e, e', hK, hf, hn, hw, hw'⟩ := cbrtCore_K d d' h hsp hz hrun
  obtain ⟨r, r', hr, hr', hs⟩ := cbrt_same_of_K g m (Decimal.Signbit d) t t' hm hK hf hn
    ⟨by omega, by omega⟩ ⟨by omega, by omega⟩
  refine ⟨r, r', ?_, ?_, hs⟩
  · rw [Cbrt_eq g d hsp hz, e]; exact hr
  · rw [Cbrt_eq g d' hsp' hz', e', hsg]; exact hr'

/-- a raised final flag in the first run: the two cores return the same state -/
theorem cbrtCore_congr_of_flag (d d' : Decimal) (h : (𝔳[d]).same 𝔳[d'] = true)
    (hsp : Decimal.isSpecial d = false) (hz : Decimal.IsZero d = false) (hrun : CbrtRunCond d)
    (hflag : ∃ x, cbrtCore d = .ok (x, 1)) : cbrtCore d = cbrtCore d' := by
  obtain ⟨t, t', e, e', hK, -⟩ := cbrtCore_K d d' h hsp hz hrun
  obtain ⟨x, hx⟩ := hflag
  rw [e] at hx
  have ht : t.2 = 1 := by rw [ok_inj hx]
  rcases hK with ⟨hss, -⟩ | ⟨-, h0, -⟩
  · rw [e, e', hss]
  · rw [ht] at h0; exact absurd h0 (by decide)

/-- **Property C19 for `Cbrt`, general path, bit form, partial**: if in addition the core of the run on `d` returns a raised
sticky flag (some last multiplication of a Halley step was inexact — the generic case), the two calls are EQUAL in
`Go.GoM Decimal` (bit-identical results), for every `g` (valid mode byte or not). -/
theorem cbrt_encoding_independent_bits_partial (g : Globals) (d d' : Decimal)
    (h : (𝔳[d]).same 𝔳[d'] = true) (hsp : Decimal.isSpecial d = false) (hz : Decimal.IsZero d = false)
    (hrun : CbrtRunCond d) (hflag : ∃ x, cbrtCore d = .ok (x, 1)) :
    Gen.Cbrt g d = Gen.Cbrt g d' := by
  obtain ⟨hsp', hz', hsg, -⟩ := start_congr d d' h hsp hz
  rw [Cbrt_eq g d hsp hz, Cbrt_eq g d' hsp' hz', hsg, cbrtCore_congr_of_flag d d' h hsp hz hrun hflag]

/-! ### a convenient sufficient condition for `CbrtRunCond` -/

/-- the sticky flag of the Halley loop, once raised, stays raised -/
theorem cbrtStep_flag_one {arg arg2 : decomposed192} {s s1 : decomposed192 × Int8}
    (h : cbrtStep arg arg2 s = .ok s1) (hs : s.2 = 1) : s1.2 = 1 := by
  unfold cbrtStep at h
  obtain ⟨sq, -, h⟩ := bind_ok h
  obtain ⟨cub, -, h⟩ := bind_ok h
  obtain ⟨num, -, h⟩ := bind_ok h
  obtain ⟨den, -, h⟩ := bind_ok h
  obtain ⟨den', -, h⟩ := bind_ok h
  obtain ⟨frc, -, h⟩ := bind_ok h
  obtain ⟨x, hx, h⟩ := bind_ok h
  cases h
  obtain ⟨r, t', k, hr, -, -, -, ht, -⟩ := D192.mul_spec s.1 frc.1 s.2
  rw [hr] at hx
  cases hx
  show t' = 1
  rw [ht]
  split
  · exact hs
  · rfl

theorem iter_flag_one {arg arg2 : decomposed192} (n : Nat) (s x : decomposed192 × Int8)
    (h : iter (cbrtStep arg arg2) n s = .ok x) (hs : s.2 = 1) : x.2 = 1 :=
  iter_inv _ (fun s => s.2 = 1) (fun a b ha hab => cbrtStep_flag_one hab ha) n s x hs h

/-- **sufficient for the run-level hypothesis**: the side conditions at the start state, and a raised flag after the first
step (then the two runs are in identical states from the second step on and nothing more is needed) -/
theorem runCond_of_first (d : Decimal)
    (h0 : CbrtStepCond (cbrtArg d) (cbrtArg2 d) (cbrtStart d (cbrtL10 d), 0))
    (h1 : ∀ s1, cbrtStep (cbrtArg d) (cbrtArg2 d) (cbrtStart d (cbrtL10 d), 0) = .ok s1 → s1.2 = 1) :
    CbrtRunCond d := by
  intro i hi x hx hx0
  cases i with
  | zero => cases hx; exact h0
  | succ i =>
    obtain ⟨s1, e1, e2⟩ := bind_ok hx
    have := iter_flag_one i s1 x e2 (h1 s1 e1)
    rw [this] at hx0
    exact absurd hx0 (by decide)

/-- a raised flag after the first step reaches the end of the core -/
theorem core_flag_of_first (d : Decimal) (hsp : Decimal.isSpecial d = false) (hz : Decimal.IsZero d = false)
    (h1 : ∀ s1, cbrtStep (cbrtArg d) (cbrtArg2 d) (cbrtStart d (cbrtL10 d), 0) = .ok s1 → s1.2 = 1) :
    ∃ x, cbrtCore d = .ok (x, 1) := by
  obtain ⟨res, trunc, hc, -⟩ := cbrtCore_ok d hsp hz
  have hc' := hc
  rw [cbrtCore_eq] at hc'
  obtain ⟨s1, e1, e2⟩ := bind_ok hc'
  have := iter_flag_one 6 s1 (res, trunc) e2 (h1 s1 e1)
  exact ⟨res, by rw [hc]; simp only at this; rw [this]⟩

end CohortElem
