/-
  D128.Proofs.TotalBase128 — additions to `TotalBase` for the 128-bit arithmetic entry points
  (`QuoWithMode`, `add`, `QuoRemWithMode`): word tests of `U128` on `toNat`, `bits.Add64`/`bits.Div64`
  facts in linear form, and the preparation tactic `d128_prep`.

  * `U128.w1_le/le_w1/w1_lt/lt_w1/w1_zero`, `U192.low128`, `U128.toNat_mk`
  * `add64_fst_toNat`, `add64_snd_zero`, `add64_snd_ne_zero`
  * `div64_lin`   : `⦃0 < y⦄ Div64 0 lo y ⦃p => p.2 < y ∧ (y ≤ lo → 1 ≤ p.1) ∧ p.1 ≤ lo⦄`
  * `div128_lin`  : `⦃o ≠ 0⦄ U128.div n o ⦃p => p.2 < o ∧ (o ≤ n → 1 ≤ p.1) ∧ p.1 ≤ n⦄`
  * tactic `d128_prep`
-/
import D128.Proofs.TotalBase
import D128.Proofs.Words128Div

set_option autoImplicit false
set_option exponentiation.threshold 512

namespace D128.Proofs.Total
open Std.Do
open D128.Proofs.WordsWide

theorem U128.w1_le (n : U128) (c : UInt64) : n.w1 ≤ c ↔ n.toNat < (c.toNat + 1) * 2^64 := by
  have := n.w0.toNat_lt
  rw [UInt64.le_iff_toNat_le]; simp only [U128.toNat]; omega

theorem U128.le_w1 (n : U128) (c : UInt64) : c ≤ n.w1 ↔ c.toNat * 2^64 ≤ n.toNat := by
  have := n.w0.toNat_lt
  rw [UInt64.le_iff_toNat_le]; simp only [U128.toNat]; omega

theorem U128.w1_lt (n : U128) (c : UInt64) : n.w1 < c ↔ n.toNat < c.toNat * 2^64 := by
  have := n.w0.toNat_lt
  rw [UInt64.lt_iff_toNat_lt]; simp only [U128.toNat]; omega

theorem U128.lt_w1 (n : U128) (c : UInt64) : c < n.w1 ↔ (c.toNat + 1) * 2^64 ≤ n.toNat := by
  have := n.w0.toNat_lt
  rw [UInt64.lt_iff_toNat_lt]; simp only [U128.toNat]; omega

theorem U128.w1_zero (n : U128) : n.w1 = 0 ↔ n.toNat < 2^64 := by
  have := n.w0.toNat_lt
  rw [u64_zero_iff]; simp only [U128.toNat]; omega

theorem U192.low128 (n : U192) : (U128.mk n.w0 n.w1).toNat = n.toNat % 2^128 := by
  have := n.w0.toNat_lt; have := n.w1.toNat_lt
  simp only [U128.toNat, U192.toNat]; omega

theorem U128.toNat_mk (a b : UInt64) : (U128.mk a b).toNat = a.toNat + b.toNat * 2^64 := rfl

theorem add64_fst_toNat (a b : UInt64) :
    (Go.bits.Add64 a b 0).1.toNat = (a.toNat + b.toNat) % 2^64 := by
  obtain ⟨s, k, e, h, hk⟩ := add64_spec a b 0 (by simp)
  have := s.toNat_lt
  rw [e]; simp only [UInt64.toNat_zero] at h; show s.toNat = _; omega

theorem add64_snd_zero (a b : UInt64) :
    (Go.bits.Add64 a b 0).2 = 0 ↔ a.toNat + b.toNat < 2^64 := by
  obtain ⟨s, k, e, h, hk⟩ := add64_spec a b 0 (by simp)
  have := s.toNat_lt
  rw [e, u64_zero_iff]; simp only [UInt64.toNat_zero] at h; show k.toNat = 0 ↔ _; omega

theorem add64_snd_toNat (a b : UInt64) :
    (Go.bits.Add64 a b 0).2.toNat = (a.toNat + b.toNat) / 2^64 := by
  obtain ⟨s, k, e, h, hk⟩ := add64_spec a b 0 (by simp)
  have := s.toNat_lt
  rw [e]; simp only [UInt64.toNat_zero] at h; show k.toNat = _; omega

theorem div64_lin (lo y : UInt64) :
    ⦃⌜0 < y.toNat⌝⦄ Go.bits.Div64 0 lo y
    ⦃⇓ p => ⌜p.2.toNat < y.toNat ∧ (y.toNat ≤ lo.toNat → 1 ≤ p.1.toNat) ∧ p.1.toNat ≤ lo.toNat⌝⦄ := by
  apply triple_of_ok_pre
  intro hy
  obtain ⟨q, r, e, h, hr⟩ := div64_spec 0 lo y (by simpa using hy)
  simp only [UInt64.toNat_zero, Nat.zero_mul, Nat.zero_add] at h
  refine ⟨(q, r), e, hr, ?_, ?_⟩
  · intro hle
    show 1 ≤ q.toNat
    by_contra hq
    have hq0 : q.toNat = 0 := by omega
    rw [hq0] at h; omega
  · show q.toNat ≤ lo.toNat
    have : q.toNat * 1 ≤ q.toNat * y.toNat := Nat.mul_le_mul_left _ hy
    omega

theorem div128_lin (n o : U128) :
    ⦃⌜o.toNat ≠ 0⌝⦄ Gen.U128.div n o
    ⦃⇓ p => ⌜p.2.toNat < o.toNat ∧ (o.toNat ≤ n.toNat → 1 ≤ p.1.toNat) ∧ p.1.toNat ≤ n.toNat⌝⦄ := by
  apply triple_of_ok_pre
  intro ho
  obtain ⟨q, r, e, hq, hr⟩ := U128_div_spec n o ho
  refine ⟨(q, r), e, ?_, ?_, ?_⟩
  · rw [hr]; exact Nat.mod_lt _ (Nat.pos_of_ne_zero ho)
  · intro h; rw [hq]; exact Nat.div_pos h (Nat.pos_of_ne_zero ho)
  · rw [hq]; exact Nat.div_le_self _ _

macro "d128_disch" : tactic =>
  `(tactic| ((try simp only [UInt64.toNat_ofNat, UInt64.reduceToNat, Nat.reducePow, Nat.reduceMul, Nat.reduceMod] at *); omega))

/-- the `U128` counterpart of `d192_norm` -/
macro "d128_norm" : tactic =>
  `(tactic| (
    try simp only [U128.or_zero, U128.and_zero, U128.imp_nonzero, U128_sub_borrow_eq_zero_iff] at *
    try simp only [U128.w1_le, U128.le_w1, U128.w1_lt, U128.lt_w1, U128.w1_zero, U192.low128, U128.w0_toNat,
      U128_add_toNat, U128_sub_toNat, U128_twos_toNat, add64_fst_toNat, add64_snd_zero, add64_snd_toNat,
      UInt64.toNat_ofNat, UInt64.toNat_zero, UInt64.toNat_one, UInt64.reduceToNat,
      Nat.reducePow, Nat.reduceMul, Nat.reduceAdd, Nat.reduceMod,
      ne_eq, not_lt, not_le, gt_iff_lt, ge_iff_le] at *
    try simp (disch := d128_disch) only [U128_mul64_toNat_of_lt,
      UInt64.toNat_ofNat, UInt64.reduceToNat, Nat.reducePow, Nat.reduceMul, Nat.reduceMod] at *))

macro "d128_prep" : tactic =>
  `(tactic| (opt_eqs; d128_norm; d192_norm; d128_norm; (try simp only [U128.toNat_mk, UInt64.toNat_zero,
      Nat.reducePow, Nat.reduceMul, Nat.reduceAdd] at *); i16_norm; i64_norm; toNat_bounds; i16_norm; i64_norm))

end D128.Proofs.Total
