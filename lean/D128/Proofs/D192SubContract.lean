/-
  D128/Proofs/D192SubContract.lean — contract of `decomposed192.sub` (Go: /repo/decomposed.go), for ALL
  inputs; built on `sub_triple` / `sub_spec` of `D192Sub.lean`.

  `sub_spec` (in `D192Sub.lean`): `Gen.decomposed192.sub d o t = .ok (neg, r, t')` (no panic, termination)
  with `SubPost`: with `e = d.exp - o.exp` (wrapping `Int16`), the operand with the larger exponent is scaled
  by `10^j` (`sig·10^j < 2^192`), `k = |e| - j` low digits of the other one are dropped (`k = 0` or the
  scaled operand is `≥ scaleLim = 25·2^184`); with `A`, `B` the aligned significands of `d`, `o`:
  `r.sig = |A - B|`, `neg = (A < B)`, `r.exp` = the aligned exponent (no normalisation), and the flag is
  `t1` resp. `t1 * -1` on borrow, where `t1 = if 10^k ∣ d.sig then t else 1` when digits of `d` are
  dropped and `t1 = if 10^k ∣ o.sig then t else -1` when digits of `o` are dropped.

  * `sub_contract` : rational form (hypothesis: `|d.exp - o.exp| ≤ 32767`).  With `V = val d - val o` and
        the signed result `R = ± val r`:
        - digits of `d` dropped (`d.exp ≤ o.exp`):  `R ≤ V < R + ulp r`  — for `neg = false` the magnitude
          is truncated toward zero, for `neg = true` it is rounded AWAY from zero (too large by `< 1 ulp`);
          inexact ⇒ flag `+1` resp. `-1`;  `neg ↔ val d < val o`.
        - digits of `o` dropped (`o.exp < d.exp`):  `R - ulp r < V ≤ R`  — for `neg = false` the magnitude
          is too large by `< 1 ulp` (flag `-1`), for `neg = true` truncated (flag `+1`);
          `neg → val d < val o`, and `val d < val o → neg ∨ r.sig = 0` (see F3 in `D192AddEval.lean`).
        - exact ⇒ flag passed through (negated on borrow); the flag always has the sign of
          `|V| - val r` (for the sign given by `neg`), i.e. no flag defect in `sub`.
        - `min ≤ r.exp ≤ max`; `r.exp = min` ⇒ exact; otherwise the operand with the larger exponent is
          `≥ scaleLim · ulp r` (absolute error `< 2^-188.6` of the larger operand; NO bound relative to
          the result: a cancelling subtraction with one dropped digit can lose everything, F2).
  * helper lemmas `sgnVal`, `subFin_signed`, `sub_branch_neg`, `sub_branch_pos`.
-/
import D128.Proofs.D192Sub
import D128.Proofs.D192AddContract

set_option autoImplicit false
set_option maxRecDepth 4096
set_option exponentiation.threshold 512
open Std.Do D128.Proofs.WordsWide

namespace D192

/-- the signed value returned by `sub`: `(neg, r)` stands for `-val r` resp. `val r`. -/
def sgnVal (neg : Bool) (r : Gen.decomposed192) : ℚ := if neg then - val r else val r

theorem subFin_signed {X Y : Nat} {T : Int8} {e0 : Int16} {neg : Bool} {r : Gen.decomposed192}
    {t' : Int8} (h : SubFin X Y T e0 neg r t') :
    r.exp = e0 ∧ sgnVal neg r = ((X : ℚ) - (Y : ℚ)) * (10 : ℚ) ^ r.exp.toInt ∧
      t' = (if neg then T * (-1) else T) ∧ (neg = true ↔ X < Y) ∧
      (r.sig.toNat = 0 ↔ X = Y) := by
  obtain ⟨he, h1, h2⟩ := h
  refine ⟨he, ?_⟩
  rcases Nat.lt_or_ge X Y with hlt | hge
  · obtain ⟨hn, hs, ht⟩ := h1 hlt
    subst hn
    refine ⟨?_, by simpa using ht, by simpa using hlt, by omega⟩
    simp only [sgnVal, if_true, val, hs]
    rw [Nat.cast_sub hlt.le]; ring
  · obtain ⟨hn, hs, ht⟩ := h2 hge
    subst hn
    refine ⟨?_, by simpa using ht, by simpa using hge, by omega⟩
    simp only [sgnVal, val, hs]
    rw [Nat.cast_sub hge]; simp


theorem i8_one_neg : (1 : Int8) * (-1) = -1 := by decide
theorem i8_neg_neg : (-1 : Int8) * (-1) = 1 := by decide

/-- rational contract of the branch of `sub` in which the MINUEND loses `k` digits. -/
theorem sub_branch_neg {A B0 j k : Nat} {EA EB : Int} {e0 : Int16} {t T t' : Int8} {neg : Bool}
    {r : Gen.decomposed192} (hE : EB = EA + j + k) (he0 : e0.toInt = EA + k)
    (hprec : k = 0 ∨ scaleLim ≤ B0 * 10 ^ j)
    (hT : T = if A % 10 ^ k = 0 then t else 1)
    (h : SubFin (A / 10 ^ k) (B0 * 10 ^ j) T e0 neg r t') :
    let V := (A : ℚ) * (10 : ℚ) ^ EA - (B0 : ℚ) * (10 : ℚ) ^ EB
    let R := sgnVal neg r
    R ≤ V ∧ V < R + ulp r ∧ (R = V → t' = if neg then t * (-1) else t) ∧
      (R ≠ V → t' = if neg then -1 else 1) ∧ (neg = true ↔ V < 0) ∧
      EA ≤ r.exp.toInt ∧ r.exp.toInt ≤ EB ∧
      (r.exp.toInt = EA ∨ (scaleLim : ℚ) * ulp r ≤ (B0 : ℚ) * (10 : ℚ) ^ EB) ∧
      (r.exp.toInt = EA → R = V) := by
  intro V R
  obtain ⟨hexp, hR, ht, hneg, _⟩ := subFin_signed h
  have hre : r.exp.toInt = EA + k := by rw [hexp, he0]
  obtain ⟨h1, h2, h3⟩ := trunc_val A k EA
  have hu : (0 : ℚ) < (10 : ℚ) ^ (EA + k) := zpow_pos (by norm_num) _
  have hb : (B0 : ℚ) * (10 : ℚ) ^ EB = ((B0 * 10 ^ j : Nat) : ℚ) * (10 : ℚ) ^ (EA + k) := by
    rw [hE, show EA + (j : Int) + k = (j : Int) + (EA + k) by ring, zpow_add₀ (by norm_num),
      zpow_natCast]
    push_cast; ring
  have hulp : ulp r = (10 : ℚ) ^ (EA + k) := by unfold ulp; rw [hre]
  have hR' : R = (((A / 10 ^ k : Nat) : ℚ) - ((B0 * 10 ^ j : Nat) : ℚ)) * (10 : ℚ) ^ (EA + k) := by
    rw [← hre]; exact hR
  have hV : V = (A : ℚ) * (10 : ℚ) ^ EA - ((B0 * 10 ^ j : Nat) : ℚ) * (10 : ℚ) ^ (EA + k) := by
    simp only [V]; rw [hb]
  have hxy : ((A / 10 ^ k : Nat) : ℚ) < ((B0 * 10 ^ j : Nat) : ℚ) ↔ A / 10 ^ k < B0 * 10 ^ j :=
    Nat.cast_lt
  have hxy1 : A / 10 ^ k < B0 * 10 ^ j →
      ((A / 10 ^ k : Nat) : ℚ) + 1 ≤ ((B0 * 10 ^ j : Nat) : ℚ) := fun hh => by exact_mod_cast hh
  have hyx : B0 * 10 ^ j ≤ A / 10 ^ k →
      ((B0 * 10 ^ j : Nat) : ℚ) ≤ ((A / 10 ^ k : Nat) : ℚ) := fun hh => by exact_mod_cast hh
  have hsl : scaleLim ≤ B0 * 10 ^ j → (scaleLim : ℚ) ≤ ((B0 * 10 ^ j : Nat) : ℚ) :=
    fun hh => by exact_mod_cast hh
  have hRV : R = V ↔ A % 10 ^ k = 0 := by
    rw [← h3, hR', hV]
    constructor <;> intro hh <;> linarith
  rw [hulp, hb]
  rw [hR', hV] at *
  generalize ((A / 10 ^ k : Nat) : ℚ) = x at *
  generalize ((B0 * 10 ^ j : Nat) : ℚ) = y at *
  generalize (10 : ℚ) ^ (EA + ↑k) = u at *
  generalize (A : ℚ) * (10 : ℚ) ^ EA = a at *
  refine ⟨by linarith, by linarith, ?_, ?_, ?_, by omega, by omega, ?_, ?_⟩
  · intro hv
    rw [ht, hT, if_pos (hRV.mp hv)]
  · intro hv
    rw [ht, hT, if_neg (fun h0 => hv (hRV.mpr h0))]
    cases neg <;> simp
  · rw [hneg]
    constructor
    · intro hlt
      have := hxy1 hlt
      nlinarith
    · intro hlt
      by_contra hge
      have := hyx (by omega)
      nlinarith
  · rcases hprec with hk | hs
    · left; omega
    · right; exact mul_le_mul_of_nonneg_right (hsl hs) hu.le
  · intro hk
    have : k = 0 := by omega
    exact hRV.mpr (by rw [this]; simp [Nat.mod_one])

/-- rational contract of the branch of `sub` in which the SUBTRAHEND loses `k` digits. -/
theorem sub_branch_pos {A B0 j k : Nat} {EA EB : Int} {e0 : Int16} {t T t' : Int8} {neg : Bool}
    {r : Gen.decomposed192} (hE : EB = EA + j + k) (he0 : e0.toInt = EA + k)
    (hprec : k = 0 ∨ scaleLim ≤ B0 * 10 ^ j)
    (hT : T = if A % 10 ^ k = 0 then t else -1)
    (h : SubFin (B0 * 10 ^ j) (A / 10 ^ k) T e0 neg r t') :
    let V := (B0 : ℚ) * (10 : ℚ) ^ EB - (A : ℚ) * (10 : ℚ) ^ EA
    let R := sgnVal neg r
    R - ulp r < V ∧ V ≤ R ∧ (R = V → t' = if neg then t * (-1) else t) ∧
      (R ≠ V → t' = if neg then 1 else -1) ∧ (neg = true → V < 0) ∧
      (V < 0 → neg = true ∨ r.sig.toNat = 0) ∧
      EA ≤ r.exp.toInt ∧ r.exp.toInt ≤ EB ∧
      (r.exp.toInt = EA ∨ (scaleLim : ℚ) * ulp r ≤ (B0 : ℚ) * (10 : ℚ) ^ EB) ∧
      (r.exp.toInt = EA → R = V) := by
  intro V R
  obtain ⟨hexp, hR, ht, hneg, hzero⟩ := subFin_signed h
  have hre : r.exp.toInt = EA + k := by rw [hexp, he0]
  obtain ⟨h1, h2, h3⟩ := trunc_val A k EA
  have hu : (0 : ℚ) < (10 : ℚ) ^ (EA + k) := zpow_pos (by norm_num) _
  have hb : (B0 : ℚ) * (10 : ℚ) ^ EB = ((B0 * 10 ^ j : Nat) : ℚ) * (10 : ℚ) ^ (EA + k) := by
    rw [hE, show EA + (j : Int) + k = (j : Int) + (EA + k) by ring, zpow_add₀ (by norm_num),
      zpow_natCast]
    push_cast; ring
  have hulp : ulp r = (10 : ℚ) ^ (EA + k) := by unfold ulp; rw [hre]
  have hR' : R = (((B0 * 10 ^ j : Nat) : ℚ) - ((A / 10 ^ k : Nat) : ℚ)) * (10 : ℚ) ^ (EA + k) := by
    rw [← hre]; exact hR
  have hV : V = ((B0 * 10 ^ j : Nat) : ℚ) * (10 : ℚ) ^ (EA + k) - (A : ℚ) * (10 : ℚ) ^ EA := by
    simp only [V]; rw [hb]
  have hyx1 : B0 * 10 ^ j < A / 10 ^ k →
      ((B0 * 10 ^ j : Nat) : ℚ) + 1 ≤ ((A / 10 ^ k : Nat) : ℚ) := fun hh => by exact_mod_cast hh
  have hxy1 : A / 10 ^ k < B0 * 10 ^ j →
      ((A / 10 ^ k : Nat) : ℚ) + 1 ≤ ((B0 * 10 ^ j : Nat) : ℚ) := fun hh => by exact_mod_cast hh
  have hsl : scaleLim ≤ B0 * 10 ^ j → (scaleLim : ℚ) ≤ ((B0 * 10 ^ j : Nat) : ℚ) :=
    fun hh => by exact_mod_cast hh
  have hRV : R = V ↔ A % 10 ^ k = 0 := by
    rw [← h3, hR', hV]
    constructor <;> intro hh <;> linarith
  rw [hulp, hb]
  rw [hR', hV] at *
  generalize ((A / 10 ^ k : Nat) : ℚ) = x at *
  generalize ((B0 * 10 ^ j : Nat) : ℚ) = y at *
  generalize (10 : ℚ) ^ (EA + ↑k) = u at *
  generalize (A : ℚ) * (10 : ℚ) ^ EA = a at *
  refine ⟨by linarith, by linarith, ?_, ?_, ?_, ?_, by omega, by omega, ?_, ?_⟩
  · intro hv
    rw [ht, hT, if_pos (hRV.mp hv)]
  · intro hv
    rw [ht, hT, if_neg (fun h0 => hv (hRV.mpr h0))]
    cases neg <;> simp
  · intro hn
    have := hyx1 (hneg.mp hn)
    nlinarith
  · intro hlt
    by_cases hn : neg = true
    · exact Or.inl hn
    · right
      rw [hzero]
      have hge : A / 10 ^ k ≤ B0 * 10 ^ j := by
        by_contra hc; exact hn (hneg.mpr (by omega))
      rcases Nat.lt_or_ge (A / 10 ^ k) (B0 * 10 ^ j) with hc | hc
      · have := hxy1 hc
        nlinarith
      · omega
  · rcases hprec with hk | hs
    · left; omega
    · right; exact mul_le_mul_of_nonneg_right (hsl hs) hu.le
  · intro hk
    have : k = 0 := by omega
    exact hRV.mpr (by rw [this]; simp [Nat.mod_one])

/-- `decomposed192.sub`, rational contract (`V` the exact difference, `R` the signed result). -/
theorem sub_contract (d o : Gen.decomposed192) (t : Int8)
    (hlo : -32767 ≤ d.exp.toInt - o.exp.toInt) (hhi : d.exp.toInt - o.exp.toInt ≤ 32767) :
    ∃ neg r t', Gen.decomposed192.sub d o t = .ok (neg, r, t') ∧
      (d.exp.toInt ≤ o.exp.toInt →
        sgnVal neg r ≤ val d - val o ∧ val d - val o < sgnVal neg r + ulp r ∧
        (sgnVal neg r ≠ val d - val o → t' = if neg then -1 else 1) ∧
        (neg = true ↔ val d < val o)) ∧
      (o.exp.toInt < d.exp.toInt →
        sgnVal neg r - ulp r < val d - val o ∧ val d - val o ≤ sgnVal neg r ∧
        (sgnVal neg r ≠ val d - val o → t' = if neg then 1 else -1) ∧
        (neg = true → val d < val o) ∧ (val d < val o → neg = true ∨ r.sig.toNat = 0)) ∧
      (sgnVal neg r = val d - val o → t' = if neg then t * (-1) else t) ∧
      min d.exp.toInt o.exp.toInt ≤ r.exp.toInt ∧ r.exp.toInt ≤ max d.exp.toInt o.exp.toInt ∧
      (r.exp.toInt = min d.exp.toInt o.exp.toInt → sgnVal neg r = val d - val o) ∧
      (r.exp.toInt = min d.exp.toInt o.exp.toInt ∨
        (scaleLim : ℚ) * ulp r ≤ (if d.exp.toInt ≤ o.exp.toInt then val o else val d)) := by
  obtain ⟨neg, r, t', hr, h⟩ := sub_spec d o t
  refine ⟨neg, r, t', hr, ?_⟩
  have he : (d.exp - o.exp).toInt = d.exp.toInt - o.exp.toInt :=
    Int16.toInt_sub_of _ _ (by omega) (by omega)
  have hbd := i16_bounds d.exp
  have hbo := i16_bounds o.exp
  have hlt0 : ∀ a b : ℚ, a - b < 0 ↔ a < b := fun a b => sub_neg
  rcases h with ⟨hneg, j, k, hjk, hlt, hprec, hfin⟩ | ⟨hpos, j, k, hjk, hlt, hprec, hfin⟩ | ⟨hz, hfin⟩
  · rw [he] at hneg
    have hjk' : (j : Int) + k = o.exp.toInt - d.exp.toInt := by
      unfold negNat at hjk; rw [he] at hjk; omega
    have he0 : (o.exp - Int16.ofNat j).toInt = d.exp.toInt + k := by
      rw [i16_sub_nat _ _ (by omega) (by omega)]; omega
    have := sub_branch_neg (t := t) (show o.exp.toInt = d.exp.toInt + j + k by omega) he0 hprec rfl hfin
    simp only [← val_eq_zpow, hlt0] at this
    obtain ⟨h1, h2, h3, h4, h5, h6, h7, h8, h9⟩ := this
    refine ⟨fun _ => ⟨h1, h2, h4, h5⟩, fun hc => by omega, h3, ?_, ?_, ?_, ?_⟩
    · rw [min_eq_left (by omega)]; exact h6
    · rw [max_eq_right (by omega)]; exact h7
    · rw [min_eq_left (by omega)]; exact h9
    · rw [min_eq_left (by omega), if_pos (by omega)]; exact h8
  · rw [he] at hpos
    have hjk' : (j : Int) + k = d.exp.toInt - o.exp.toInt := by
      unfold posNat at hjk; rw [he] at hjk; omega
    have he0 : (d.exp - Int16.ofNat j).toInt = o.exp.toInt + k := by
      rw [i16_sub_nat _ _ (by omega) (by omega)]; omega
    have := sub_branch_pos (t := t) (show d.exp.toInt = o.exp.toInt + j + k by omega) he0 hprec rfl hfin
    simp only [← val_eq_zpow, hlt0] at this
    obtain ⟨h1, h2, h3, h4, h5, h5', h6, h7, h8, h9⟩ := this
    refine ⟨fun hc => by omega, fun _ => ⟨h1, h2, h4, h5, h5'⟩, h3, ?_, ?_, ?_, ?_⟩
    · rw [min_eq_right (by omega)]; exact h6
    · rw [max_eq_left (by omega)]; exact h7
    · rw [min_eq_right (by omega)]; exact h9
    · rw [min_eq_right (by omega), if_neg (by omega)]; exact h8
  · rw [he] at hz
    have hfin' : SubFin (d.sig.toNat / 10 ^ 0) (o.sig.toNat * 10 ^ 0)
        (if d.sig.toNat % 10 ^ 0 = 0 then t else 1) d.exp neg r t' := by
      simpa [Nat.mod_one] using hfin
    have := sub_branch_neg (t := t) (k := 0) (j := 0)
      (show o.exp.toInt = d.exp.toInt + (0 : Nat) + (0 : Nat) by omega) (by simp) (Or.inl rfl) rfl hfin'
    simp only [← val_eq_zpow, hlt0] at this
    obtain ⟨h1, h2, h3, h4, h5, h6, h7, h8, h9⟩ := this
    refine ⟨fun _ => ⟨h1, h2, h4, h5⟩, fun hc => by omega, h3, ?_, ?_, ?_, ?_⟩
    · rw [min_eq_left (by omega)]; exact h6
    · rw [max_eq_right (by omega)]; exact h7
    · rw [min_eq_left (by omega)]; exact h9
    · rw [min_eq_left (by omega), if_pos (by omega)]; exact h8

/-- the hypotheses of `sub_contract` are satisfiable on non-trivial inputs
(`(2^192-1)·10^-57 - 12345·10^-3`: one digit of `d` is dropped, borrow; and the mirrored call). -/
example := sub_contract
    ⟨⟨18446744073709551615, 18446744073709551615, 18446744073709551615⟩, -57⟩ ⟨⟨12345, 0, 0⟩, -3⟩ 0
    (by decide) (by decide)
example := sub_contract
    ⟨⟨12345, 0, 0⟩, -3⟩ ⟨⟨18446744073709551615, 18446744073709551615, 18446744073709551615⟩, -57⟩ 0
    (by decide) (by decide)

end D192
