/-
  The accepted language of `parse` (sign, special names, numerals) is `Spec.readLiteral true true`.

  * `Parse.litBody_none_iff`     when the body of a literal is rejected
  * `Parse.tailNum_syntax_iff`, `Parse.restM_syntax_iff`
  * `Parse.parseM_syntax_iff`    the error of `parseM` is `parseSyntaxError` iff `Spec.readLiteral` rejects
-/
import D128.Proofs.ParseTop
import D128.Proofs.ParseGrammar

set_option linter.unusedSimpArgs false
set_option linter.unusedVariables false

namespace Parse


theorem litBody_none_iff (sep n sg : Bool) (body : List UInt8) :
    litBody sep true n sg (body.map toChar) = none ↔
      (isInfL body = false ∧ isNanL body = false ∧ Spec.readNumber sep (body.map toChar) = none) := by
  unfold litBody
  rw [Bool.true_and, Bool.true_and, eqFold_inf, eqFold_nan]
  cases h1 : isInfL body
  · cases h2 : isNanL body
    · simp only [Bool.false_eq_true, if_false, true_and]
      cases Spec.readNumber sep (body.map toChar) with
      | none => simp
      | some v => simp
    · simp
  · simp

/-- the number branch reports a syntax error exactly when the specification rejects the numeral -/
theorem tailNum_syntax_iff (g : Globals) (d : Go.Bytes) (neg : Bool)
    (hsz : d.size < 2^63) (r : Gen.Decimal) (e : Go.Err) (h : tailNum g d neg = .ok (r, e)) :
    e = .parseSyntaxError ↔ Spec.readNumber true (d.toList.map toChar) = none := by
  obtain ⟨r', e', h1, h2⟩ := parseNumber_total' g d neg true hsz
  have key := parseNumber_syntax_accF g d neg true hsz r' e' h1
  rw [accF_eq_readNumber] at key
  rw [tailNum_of_ok g d neg r' e' h1] at h
  injection h with h; injection h with _ he
  subst he
  have : mapErr e' = .parseSyntaxError ↔ e' = .parseNumberSyntaxError := by
    rcases h2 with h | h | h <;> subst h <;> decide
  rw [this, key]
  cases Spec.readNumber true (d.toList.map toChar) <;> simp

theorem restM_syntax_iff (g : Globals) (op : UInt64) (body : List UInt8) (neg n sg : Bool)
    (hsz : body.length < 2^63) (r : Gen.Decimal) (e : Go.Err) (h : restM g op body neg = .ok (r, e)) :
    e = .parseSyntaxError ↔ litBody true true n sg (body.map toChar) = none := by
  rw [litBody_none_iff]
  unfold restM at h
  split at h
  · -- empty body
    injection h with h; injection h with _ he
    subst he
    simp only [true_iff]
    exact ⟨rfl, rfl, by decide⟩
  · -- three bytes
    rename_i b0 b1 b2
    by_cases hi : isInf3 b0 b1 b2 = true
    · rw [if_pos hi] at h
      injection h with h; injection h with _ he
      subst he
      have : isInfL [b0, b1, b2] = true := hi
      simp [this]
    rw [if_neg hi] at h
    by_cases hn : isNan3 b0 b1 b2 = true
    · rw [if_pos hn] at h
      injection h with h; injection h with _ he
      subst he
      have : isNanL [b0, b1, b2] = true := hn
      simp [this]
    rw [if_neg hn] at h
    have h1 : isInfL [b0, b1, b2] = false := by simpa [isInfL] using hi
    have h2 : isNanL [b0, b1, b2] = false := by simpa [isNanL] using hn
    rw [h1, h2]
    simp only [true_and]
    exact tailNum_syntax_iff g #[b0, b1, b2] neg (by simp) r e h
  · -- eight bytes
    rename_i b0 b1 b2 b3 b4 b5 b6 b7
    by_cases hi : isInf8 b0 b1 b2 b3 b4 b5 b6 b7 = true
    · rw [if_pos hi] at h
      injection h with h; injection h with _ he
      subst he
      have : isInfL [b0, b1, b2, b3, b4, b5, b6, b7] = true := hi
      simp [this]
    rw [if_neg hi] at h
    have h1 : isInfL [b0, b1, b2, b3, b4, b5, b6, b7] = false := by simpa [isInfL] using hi
    have h2 : isNanL [b0, b1, b2, b3, b4, b5, b6, b7] = false := rfl
    rw [h1, h2]
    simp only [true_and]
    exact tailNum_syntax_iff g #[b0, b1, b2, b3, b4, b5, b6, b7] neg (by simp) r e h
  · -- any other length
    rename_i h0 h3 h8
    have h1 : isInfL body = false := by
      unfold isInfL
      split
      · rename_i a b c; exact absurd rfl (h3 a b c)
      · rename_i a b c d' e' f g' i; exact absurd rfl (h8 a b c d' e' f g' i)
      · rfl
    have h2 : isNanL body = false := by
      unfold isNanL
      split
      · rename_i a b c; exact absurd rfl (h3 a b c)
      · rfl
    rw [h1, h2]
    simp only [true_and]
    have := tailNum_syntax_iff g body.toArray neg (by simpa using hsz) r e h
    simpa using this

/-- `parse` reports a syntax error exactly when the specification rejects the literal -/
theorem parseM_syntax_iff (g : Globals) (op : UInt64) (cs : List UInt8)
    (hsz : cs.length < 2^63) (r : Gen.Decimal) (e : Go.Err) (h : parseM g op cs = .ok (r, e)) :
    e = .parseSyntaxError ↔ Spec.readLiteral true true (cs.map toChar) = none := by
  cases cs with
  | nil =>
    injection h with h; injection h with _ he
    subst he
    simp only [true_iff]
    decide
  | cons c body =>
    simp only [List.length_cons] at hsz
    rw [List.map_cons, readLiteral_cons]
    rw [parseM_cons] at h
    by_cases h43 : c = 43
    · subst h43
      rw [if_pos (by decide)] at h
      rw [if_neg (show toChar 43 ≠ '-' by decide), if_pos (show toChar 43 = '+' from rfl)]
      exact restM_syntax_iff g op body false false true (by omega) r e h
    by_cases h45 : c = 45
    · subst h45
      rw [if_neg (by decide), if_pos (by decide)] at h
      rw [if_pos (show toChar 45 = '-' from rfl)]
      exact restM_syntax_iff g op body true true true (by omega) r e h
    · rw [if_neg (by simpa using h43), if_neg (by simpa using h45)] at h
      have e1 : toChar c ≠ '-' := fun hh => h45 (toChar_inj (hh.trans toChar_45.symm))
      have e2 : toChar c ≠ '+' := fun hh => h43 (toChar_inj (hh.trans toChar_43.symm))
      rw [if_neg e1, if_neg e2, ← List.map_cons]
      exact restM_syntax_iff g op (c :: body) false false false (by simpa using hsz) r e h


end Parse
