/-
  D128/Proofs/TotalLog1pAll.lean — property C20 (totality): `Log1p` in the directed rounding modes.

  `TotalLog.Log1p_total_modes` covers every mode byte except ToZero / ToNegativeInf / ToPositiveInf.  Here:
  * `Log1p_triple_range` / `Log1p_total_range` : EVERY mode byte, for arguments whose decoded biased exponent is at
    least 2912, i.e. `d = c·10^e` with `e ≥ -3264` (and all NaN/Inf/zero arguments with such an exponent field).
  * `Log1p_total_partial` : the union of the two results.
  How: the value handed to the rounding kernel must not be the pair "zero significand, flag −1".
    - `|d| ≥ 10^-9` (branch `l10 > -10`): `1 ± d` is computed by `add1`/`add1neg` (contracts `D192.add1_contract`,
      `D192.add1neg_contract`), is at least `10^-11` away from 1, hence `decomposed192.log` of it is non-zero by the
      accuracy theorem `LogAcc.log_spec` (`log_sig_ne_zero_gap`, `add1_logOK`, `add1neg_logOK`).
    - `|d| < 10^-9`: the series `decomposed192.log1p`; PA17b's `LogAcc.log1p_spec_strong` shows its result is non-zero
      as long as no intermediate `int16` exponent wraps, which needs `d.exp ≥ -3264`.
  What is missing (`…_partial`): directed modes for finite arguments with exponent below −3264.  There the exponents
  of the powers `d^k` wrap around in `int16` and the function is WRONG anyway (finding, `#eval` of the generated
  model): `Log1p(1e-3641) = 0`, `Log1p(1e-4000) = +Inf`, `Log1p(1e-6000) = +Inf`, `Log1p(-1e-6000) = -Inf`
  (exact: `≈ ±10^e`; every `10^e`, `e ≤ -3641`, gives 0 or ±Inf).  Whether the rounding kernel can be entered with
  `(0, −1)` from that garbage is not decided here.
-/
import D128.Proofs.TotalLogAll
import D128.Proofs.LogAccP1Code
import D128.Proofs.D192OneAddContract
import D128.Proofs.D192OneNegContract
import D128.Proofs.TotalExp2
set_option autoImplicit false
set_option mvcgen.warning false
set_option exponentiation.threshold 512
set_option maxRecDepth 16384
namespace D128.Proofs.Total
open Std.Do
open D128.Proofs.WordsWide

open D192 in
/-- for an argument at least `10^-11` away from 1 the result of `decomposed192.log` is non-zero -/
theorem log_sig_ne_zero_gap (d : Gen.decomposed192) (hd : d.sig.toNat ≠ 0)
    (he : -16000 ≤ d.exp.toInt ∧ d.exp.toInt ≤ 16000)
    (hgap : val d ≤ 1 - 1 / 10 ^ 11 ∨ 1 + 1 / 10 ^ 11 ≤ val d)
    (r : Bool × Gen.decomposed192 × Int8) (hr : Gen.decomposed192.log d = .ok r) :
    r.2.1.sig.toNat ≠ 0 := by
  obtain ⟨neg, x, t, e0, M, v, S, F, hlog, -, -, -, -, he0a, he0b, hM0, hM1, -, -, hF0, hF1, -, hS,
    -, -, -, herr⟩ := LogAcc.log_spec d hd he
  rw [hlog] at hr
  obtain rfl : (neg, x, t) = r := by injection hr
  show x.sig.toNat ≠ 0
  have hXpos : (0 : ℝ) < ((val d : ℚ) : ℝ) := by
    have : (0 : ℚ) < val d := by
      unfold val
      have : (0 : ℚ) < (d.sig.toNat : ℚ) := by exact_mod_cast Nat.pos_of_ne_zero hd
      positivity
    exact_mod_cast this
  have hgapR : ((val d : ℚ) : ℝ) ≤ 1 - 1 / 10 ^ 11 ∨ 1 + 1 / 10 ^ 11 ≤ ((val d : ℚ) : ℝ) := by
    rcases hgap with h | h
    · left; have : ((val d : ℚ) : ℝ) ≤ ((1 - 1 / 10 ^ 11 : ℚ) : ℝ) := Rat.cast_le.mpr h
      push_cast at this; exact this
    · right; have : ((1 + 1 / 10 ^ 11 : ℚ) : ℝ) ≤ ((val d : ℚ) : ℝ) := Rat.cast_le.mpr h
      push_cast at this; exact this
  have hgap' := log_gap _ (1 / 10 ^ 11) hXpos (by positivity) (by norm_num) hgapR
  have hMr : (10 : ℝ) ≤ (M : ℝ) := by exact_mod_cast hM0
  have hF20 : F ≤ 1 / 20 := by
    refine le_trans hF1 ?_
    rw [div_le_div_iff₀ (by linarith) (by norm_num)]; linarith
  have hsmall := errLog_small e0.natAbs (if M = 10 then 0 else 1) S F (by omega)
    (by split <;> norm_num) hF0 hF20 hS
  have hpos : (0 : ℝ) < ((val x : ℚ) : ℝ) := by
    have := (abs_le.mp herr).1
    have h35 : (1 : ℝ) / 10 ^ 35 / 2 ≤ 1 / 10 ^ 11 / 2 := by norm_num
    linarith
  intro h0
  have : val x = 0 := by unfold val; rw [h0]; simp
  rw [this] at hpos
  simp at hpos

/-- an admissible argument for `decomposed192.log` in front of the rounding kernel -/
def LogOK (x : Gen.decomposed192) : Prop :=
  x.sig.toNat ≠ 0 ∧ ∀ r, Gen.decomposed192.log x = .ok r → Good r

open D192 in
theorem logOK_of_gap (x : Gen.decomposed192) (hpos : 0 < val x)
    (he : -16000 ≤ x.exp.toInt ∧ x.exp.toInt ≤ 16000)
    (hgap : val x ≤ 1 - 1 / 10 ^ 11 ∨ 1 + 1 / 10 ^ 11 ≤ val x) : LogOK x := by
  have hd : x.sig.toNat ≠ 0 := by
    intro h0; unfold val at hpos; rw [h0] at hpos; simp at hpos
  exact ⟨hd, fun r hr => Or.inl (log_sig_ne_zero_gap x hd he hgap r hr)⟩

open D192 in
/-- `1 + x` for `x ≥ 10^-9` is an admissible argument of `log` -/
theorem add1_logOK (x : Gen.decomposed192) (t : Int8) (hx : 1 / 10 ^ 9 ≤ val x)
    (he : -16000 ≤ x.exp.toInt ∧ x.exp.toInt ≤ 16000) :
    ∃ r, Gen.decomposed192.add1 x t = .ok r ∧ LogOK r.1 := by
  obtain ⟨r, t', hr, h1, h2, -, -, h5, h6, h7⟩ := add1_contract x t
  refine ⟨(r, t'), hr, ?_⟩
  have hp56 : (0 : ℚ) < 10 ^ 56 := by positivity
  apply logOK_of_gap r (by linarith)
  · rcases h7 with ⟨rfl, _⟩ | h7
    · exact he
    · omega
  · right
    -- val r * (1 + 10^-56) ≥ 1 + val x
    have : (1 + 1 / 10 ^ 9 - val r) * 10 ^ 56 ≤ val r := by nlinarith
    nlinarith

open D192 in
/-- `1 - x` for `10^-9 ≤ x < 1` is an admissible argument of `log` -/
theorem add1neg_logOK (x : Gen.decomposed192) (t : Int8) (hx : 1 / 10 ^ 9 ≤ val x) (hx1 : val x < 1)
    (he : -16000 ≤ x.exp.toInt ∧ x.exp.toInt ≤ 16000) :
    ∃ r, Gen.decomposed192.add1neg x t = .ok r ∧ LogOK r.2.1 := by
  obtain ⟨neg, r, t', hr, -, h2, h3, -, h5, h7⟩ := add1neg_contract x t
  refine ⟨(neg, r, t'), hr, ?_⟩
  have habs : |val x - 1| = 1 - val x := by rw [abs_of_neg (by linarith)]; ring
  rw [habs] at h2 h3 h5
  apply logOK_of_gap r (by linarith)
  · rcases h7 with ⟨rfl, _⟩ | h7
    · exact he
    · omega
  · left
    rcases h5 with h5 | ⟨h5, h6⟩
    · have h57 : (10 : ℚ) ^ (-57 : Int) = 1 / 10 ^ 57 := by
        rw [zpow_neg]; norm_num
      rw [h57] at h5
      have := (abs_lt.mp h5).1
      have h911 : (1 : ℚ) / 10 ^ 9 - 1 / 10 ^ 11 - 1 / 10 ^ 57 ≥ 0 := by norm_num
      linarith
    · have : (10 : ℚ) ^ 57 ≤ 2 := by linarith
      norm_num at this

open D192 in
/-- the series `decomposed192.log1p` for a small argument inside the exponent range where its
intermediate exponents do not wrap: the result is non-zero -/
theorem log1p_good (x : Gen.decomposed192) (neg : Bool) (hd : x.sig.toNat ≠ 0)
    (hx : val x ≤ 1 / 10 ^ 9) (he : -3264 ≤ x.exp.toInt) :
    ∃ r, Gen.decomposed192.log1p x neg = .ok r ∧ Good r := by
  obtain ⟨r, t, h1, -, h3, -⟩ := LogAcc.log1p_spec_strong x neg hd hx he
  exact ⟨(neg, r, t), h1, Or.inl h3⟩

section
open D192
def ArgBig (x : Gen.decomposed192) : Prop :=
  1 / 10 ^ 9 ≤ val x ∧ -16000 ≤ x.exp.toInt ∧ x.exp.toInt ≤ 16000
def ArgBigLt (x : Gen.decomposed192) : Prop :=
  1 / 10 ^ 9 ≤ val x ∧ val x < 1 ∧ -16000 ≤ x.exp.toInt ∧ x.exp.toInt ≤ 16000
def ArgSmall (x : Gen.decomposed192) : Prop :=
  x.sig.toNat ≠ 0 ∧ val x ≤ 1 / 10 ^ 9 ∧ -3264 ≤ x.exp.toInt

theorem conv64_16 (l : Int64) (h0 : 0 ≤ l.toInt) (h1 : l.toInt ≤ 57) :
    (Go.conv l : Int16).toInt = l.toInt := by
  show (Int16.ofInt l.toInt).toInt = _
  rw [Int16.toInt_ofInt]
  have : (Int16.size : Int) = 65536 := rfl
  apply Int.bmod_eq_of_le <;> omega

/-- the argument `Log1p` works on -/
def l1pArg (s : U128) (e : Int16) : Gen.decomposed192 :=
  { sig := { w0 := s.w0, w1 := s.w1, w2 := 0 }, exp := e - 6176 }

theorem l1pArg_sig (s : U128) (e : Int16) : (l1pArg s e).sig.toNat = s.toNat := by
  simp [l1pArg, U192.toNat, U128.toNat]

theorem l1pArg_exp (s : U128) (e : Int16) (he : 0 ≤ e.toInt ∧ e.toInt < 16384) :
    (l1pArg s e).exp.toInt = e.toInt - 6176 := by
  show (e - 6176).toInt = _
  have : (6176 : Int16).toInt = 6176 := rfl
  rw [i16_sub_toInt] <;> rw [this] <;> omega

theorem l1pArg_val (s : U128) (e : Int16) (he : 0 ≤ e.toInt ∧ e.toInt < 16384) :
    val (l1pArg s e) = (s.toNat : ℚ) * (10 : ℚ) ^ (e.toInt - 6176) := by
  unfold val; rw [l1pArg_sig, l1pArg_exp s e he]

/-- `l10 = log10(sig) + exp` as an integer -/
theorem l10_toInt (e : Int16) (l : Int64) (he : 0 ≤ e.toInt ∧ e.toInt < 16384)
    (hl0 : 0 ≤ l.toInt) (hl1 : l.toInt ≤ 57) :
    ((Go.conv l : Int16) + (e - 6176)).toInt = l.toInt + (e.toInt - 6176) := by
  have h1 := conv64_16 l hl0 hl1
  have h2 : (e - 6176).toInt = e.toInt - 6176 := by
    have : (6176 : Int16).toInt = 6176 := rfl
    rw [i16_sub_toInt] <;> rw [this] <;> omega
  rw [Int16.toInt_add_of] <;> rw [h1, h2] <;> omega

theorem val_ge_of_log (s : U128) (e : Int16) (he : 0 ≤ e.toInt ∧ e.toInt < 16384) (hs : s.toNat ≠ 0) :
    (10 : ℚ) ^ ((Nat.log 10 s.toNat : Int) + (e.toInt - 6176)) ≤ val (l1pArg s e) := by
  rw [l1pArg_val s e he, zpow_add₀ (by norm_num), zpow_natCast]
  apply mul_le_mul_of_nonneg_right _ (zpow_nonneg (by norm_num) _)
  exact_mod_cast Nat.pow_log_le_self 10 hs

theorem val_lt_of_log (s : U128) (e : Int16) (he : 0 ≤ e.toInt ∧ e.toInt < 16384) :
    val (l1pArg s e) < (10 : ℚ) ^ ((Nat.log 10 s.toNat : Int) + 1 + (e.toInt - 6176)) := by
  rw [l1pArg_val s e he, zpow_add₀ (by norm_num)]
  apply mul_lt_mul_of_pos_right _ (zpow_pos (by norm_num) _)
  have h := Nat.lt_pow_succ_log_self (b := 10) (by norm_num) s.toNat
  have e1 : (10 : ℚ) ^ ((Nat.log 10 s.toNat : Int) + 1) = ((10 ^ (Nat.log 10 s.toNat + 1) : Nat) : ℚ) := by
    push_cast; rw [← zpow_natCast]; congr 1
  rw [e1]; exact_mod_cast h

theorem argBig_of (s : U128) (e : Int16) (l : Int64) (he : 0 ≤ e.toInt ∧ e.toInt < 16384)
    (hs : s.toNat ≠ 0) (hl : l.toInt = Nat.log 10 s.toNat)
    (hgt : -10 < (Go.conv l : Int16) + (e - 6176)) : ArgBig (l1pArg s e) := by
  have hL := Nat.log10_lt_39_of_lt s.toNat s.toNat_lt
  rw [Int16.lt_iff_toInt_lt, l10_toInt e l he (by omega) (by omega)] at hgt
  have h10 : (-10 : Int16).toInt = -10 := rfl
  rw [h10, hl] at hgt
  refine ⟨?_, by rw [l1pArg_exp s e he]; omega, by rw [l1pArg_exp s e he]; omega⟩
  refine le_trans ?_ (val_ge_of_log s e he hs)
  have : (1 : ℚ) / 10 ^ 9 = (10 : ℚ) ^ (-9 : Int) := by rw [zpow_neg]; norm_num
  rw [this]
  exact zpow_le_zpow_right₀ (by norm_num) (by omega)

theorem argSmall_of (s : U128) (e : Int16) (l : Int64) (he : 0 ≤ e.toInt ∧ e.toInt < 16384)
    (hr : 2912 ≤ e.toInt)
    (hs : s.toNat ≠ 0) (hl : l.toInt = Nat.log 10 s.toNat)
    (hle : (Go.conv l : Int16) + (e - 6176) ≤ -10) : ArgSmall (l1pArg s e) := by
  have hL := Nat.log10_lt_39_of_lt s.toNat s.toNat_lt
  rw [Int16.le_iff_toInt_le, l10_toInt e l he (by omega) (by omega)] at hle
  have h10 : (-10 : Int16).toInt = -10 := rfl
  rw [h10, hl] at hle
  refine ⟨by rw [l1pArg_sig]; exact hs, ?_, by rw [l1pArg_exp s e he]; omega⟩
  refine le_trans (val_lt_of_log s e he).le ?_
  have : (1 : ℚ) / 10 ^ 9 = (10 : ℚ) ^ (-9 : Int) := by rw [zpow_neg]; norm_num
  rw [this]
  exact zpow_le_zpow_right₀ (by norm_num) (by omega)

/-- `val < 1` from the comparison with the power table -/
theorem val_lt_one_of_cmp (s : U128) (e : Int16) (he : 0 ≤ e.toInt ∧ e.toInt < 16384)
    (h0 : e - 6176 ≤ 0) (p : Nat) (hp : p = 10 ^ (Go.idx (6176 - e)).toNat)
    (hle : s.toNat ≤ p) (hne : ¬ s.toNat = p) : val (l1pArg s e) < 1 := by
  have h6 : (6176 : Int16).toInt = 6176 := rfl
  have h0' : (0 : Int16).toInt = 0 := rfl
  have h2 : (e - 6176).toInt = e.toInt - 6176 := by
    rw [i16_sub_toInt] <;> rw [h6] <;> omega
  rw [Int16.le_iff_toInt_le, h2, h0'] at h0
  have h3 : (6176 - e).toInt = 6176 - e.toInt := by
    rw [i16_sub_toInt] <;> rw [h6] <;> omega
  have hidx : Go.idx (6176 - e) = 6176 - e.toInt := by
    simp only [Go.idx, Go.GoInt.toInt]; exact h3
  rw [hidx] at hp
  obtain ⟨k, hk⟩ : ∃ k : Nat, 6176 - e.toInt = k := ⟨(6176 - e.toInt).toNat, by omega⟩
  rw [hk, Int.toNat_natCast] at hp
  have hlt : s.toNat < 10 ^ k := by omega
  rw [l1pArg_val s e he]
  have : e.toInt - 6176 = -(k : Int) := by omega
  rw [this, zpow_neg, zpow_natCast, ← div_eq_mul_inv, div_lt_one (by positivity)]
  exact_mod_cast hlt

theorem val_lt_one_of_exp (s : U128) (e : Int16) (he : 0 ≤ e.toInt ∧ e.toInt < 16384)
    (h39 : e - 6176 ≤ -39) : val (l1pArg s e) < 1 := by
  have h6 : (6176 : Int16).toInt = 6176 := rfl
  have h39' : (-39 : Int16).toInt = -39 := rfl
  have h2 : (e - 6176).toInt = e.toInt - 6176 := by
    rw [i16_sub_toInt] <;> rw [h6] <;> omega
  rw [Int16.le_iff_toInt_le, h2, h39'] at h39
  rw [l1pArg_val s e he]
  have hs : (s.toNat : ℚ) < 10 ^ 39 := by
    have := s.toNat_lt
    have : s.toNat < 10 ^ 39 := by omega
    exact_mod_cast this
  have hz : (10 : ℚ) ^ (e.toInt - 6176) ≤ (10 : ℚ) ^ (-39 : Int) :=
    zpow_le_zpow_right₀ (by norm_num) (by omega)
  have hzp : (0 : ℚ) < (10 : ℚ) ^ (e.toInt - 6176) := zpow_pos (by norm_num) _
  have h39v : (10 : ℚ) ^ (-39 : Int) = 1 / 10 ^ 39 := by rw [zpow_neg]; norm_num
  rw [h39v] at hz
  have hs0 : (0 : ℚ) ≤ (s.toNat : ℚ) := Nat.cast_nonneg _
  calc (s.toNat : ℚ) * (10 : ℚ) ^ (e.toInt - 6176) ≤ (s.toNat : ℚ) * (1 / 10 ^ 39) :=
        mul_le_mul_of_nonneg_left hz hs0
    _ < 10 ^ 39 * (1 / 10 ^ 39) := by apply mul_lt_mul_of_pos_right hs (by positivity)
    _ = 1 := by norm_num

theorem argBigLt_of (x : Gen.decomposed192) (h : ArgBig x) (h1 : val x < 1) : ArgBigLt x :=
  ⟨h.1, h1, h.2.1, h.2.2⟩

/-! forms matching the verification conditions of `Log1p` -/

theorem i16_not_gt {a b : Int16} (h : ¬ decide (a > b) = true) : a ≤ b := by
  simpa using h

theorem neg_sub_eq (e : Int16) : -(e - 6176) = 6176 - e := by
  rw [Int16.neg_sub]

theorem idx_bounds_raw (e : Int16) (he : 0 ≤ e.toInt ∧ e.toInt < 16384)
    (h0 : ¬ decide (e - 6176 > 0) = true) (h39 : decide (e - 6176 > -39) = true) :
    0 ≤ Go.idx (-(e - 6176)) ∧ Go.idx (-(e - 6176)) < 39 := by
  have h0 := i16_not_gt h0
  have h39 : -39 < e - 6176 := of_decide_eq_true h39
  have h6 : (6176 : Int16).toInt = 6176 := rfl
  have h2 : (e - 6176).toInt = e.toInt - 6176 := by
    rw [i16_sub_toInt] <;> rw [h6] <;> omega
  have h3 : (6176 - e).toInt = 6176 - e.toInt := by
    rw [i16_sub_toInt] <;> rw [h6] <;> omega
  rw [Int16.le_iff_toInt_le, h2] at h0
  rw [Int16.lt_iff_toInt_lt, h2] at h39
  have z0 : (0 : Int16).toInt = 0 := rfl
  have z39 : (-39 : Int16).toInt = -39 := rfl
  rw [neg_sub_eq]
  simp only [Go.idx, Go.GoInt.toInt]
  rw [h3]; omega

theorem argBig_raw (s : U128) (e : Int16) (l : Int64) (he : 0 ≤ e.toInt ∧ e.toInt < 16384)
    (hs : s.toNat ≠ 0) (hl : l.toInt = Nat.log 10 s.toNat)
    (hgt : decide ((Go.conv l : Int16) + (e - 6176) > -10) = true) : ArgBig (l1pArg s e) :=
  argBig_of s e l he hs hl (of_decide_eq_true hgt)

theorem argSmall_raw (s : U128) (e : Int16) (l : Int64) (he : 0 ≤ e.toInt ∧ e.toInt < 16384)
    (hr : 2912 ≤ e.toInt) (hs : s.toNat ≠ 0) (hl : l.toInt = Nat.log 10 s.toNat)
    (hle : ¬ decide ((Go.conv l : Int16) + (e - 6176) > -10) = true) : ArgSmall (l1pArg s e) :=
  argSmall_of s e l he hr hs hl (i16_not_gt hle)

theorem argBigLt_cmp_raw (s : U128) (e : Int16) (l : Int64) (p : U128)
    (he : 0 ≤ e.toInt ∧ e.toInt < 16384)
    (hs : s.toNat ≠ 0) (hl : l.toInt = Nat.log 10 s.toNat)
    (hgt : decide ((Go.conv l : Int16) + (e - 6176) > -10) = true)
    (h0 : ¬ decide (e - 6176 > 0) = true)
    (hp : p.toNat = 10 ^ (Go.idx (-(e - 6176))).toNat)
    (hc0 : ¬ (Gen.U128.cmp s p == 0) = true) (hc1 : ¬ decide (Gen.U128.cmp s p > 0) = true) :
    ArgBigLt (l1pArg s e) := by
  refine argBigLt_of _ (argBig_raw s e l he hs hl hgt) ?_
  rw [neg_sub_eq] at hp
  have hne : ¬ s.toNat = p.toNat := by
    intro h; apply hc0; rw [beq_iff_eq]; exact (U128_cmp_eq_zero_iff s p).2 h
  have hle : s.toNat ≤ p.toNat := by
    by_contra h; apply hc1; rw [decide_eq_true_eq]; exact (U128_cmp_gt_zero_iff s p).2 (by omega)
  exact val_lt_one_of_cmp s e he (i16_not_gt h0) p.toNat hp hle hne

theorem argBigLt_exp_raw (s : U128) (e : Int16) (l : Int64)
    (he : 0 ≤ e.toInt ∧ e.toInt < 16384)
    (hs : s.toNat ≠ 0) (hl : l.toInt = Nat.log 10 s.toNat)
    (hgt : decide ((Go.conv l : Int16) + (e - 6176) > -10) = true)
    (h39 : ¬ decide (e - 6176 > -39) = true) : ArgBigLt (l1pArg s e) :=
  argBigLt_of _ (argBig_raw s e l he hs hl hgt) (val_lt_one_of_exp s e he (i16_not_gt h39))

end

theorem log_logOK_triple (x : Gen.decomposed192) :
    ⦃⌜LogOK x⌝⦄ Gen.decomposed192.log x ⦃⇓ r => ⌜Good r⌝⦄ :=
  triple_of_ok_pre fun ⟨h1, h2⟩ =>
    let ⟨r, e, _⟩ := ok_of_triple_pre (d192_log_triple divSpec x) h1
    ⟨r, e, h2 r e⟩

theorem add1_logOK_triple (x : Gen.decomposed192) (t : Int8) :
    ⦃⌜ArgBig x⌝⦄ Gen.decomposed192.add1 x t ⦃⇓ r => ⌜LogOK r.1⌝⦄ :=
  triple_of_ok_pre fun ⟨h1, h2, h3⟩ => add1_logOK x t h1 ⟨h2, h3⟩

theorem add1neg_logOK_triple (x : Gen.decomposed192) (t : Int8) :
    ⦃⌜ArgBigLt x⌝⦄ Gen.decomposed192.add1neg x t ⦃⇓ r => ⌜LogOK r.2.1⌝⦄ :=
  triple_of_ok_pre fun ⟨h1, h2, h3, h4⟩ => add1neg_logOK x t h1 h2 ⟨h3, h4⟩

theorem log1p_good_triple (x : Gen.decomposed192) (neg : Bool) :
    ⦃⌜ArgSmall x⌝⦄ Gen.decomposed192.log1p x neg ⦃⇓ r => ⌜Good r⌝⦄ :=
  triple_of_ok_pre fun ⟨h1, h2, h3⟩ => log1p_good x neg h1 h2 h3

set_option maxHeartbeats 1000000 in
theorem Log1p_triple_range (g : Globals) (d : Gen.Decimal)
    (hr : 2912 ≤ (d.decompose).2.toInt) :
    ⦃⌜True⌝⦄ Gen.Log1p g d ⦃⇓ _ => ⌜True⌝⦄ := by
  have hl := log_logOK_triple
  have hl1 := log1p_good_triple
  have ha1 := add1_logOK_triple
  have ha := add1neg_logOK_triple
  have hv := vget_pow128_triple
  have hlg := U128_log10_log
  have hnz := sig_ne_zero d
  have hexp := decompose_exp_range d
  mvcgen -trivial [Gen.Log1p, hl, hl1, ha1, ha, hv, hlg, -d192_add1neg_triple, -d192_add1_triple, -U128_log10_triple]
  all_goals (clear hl hl1 ha1 ha hv hlg)
  all_goals (try assumption)
  all_goals (try contradiction)
  all_goals (have hs' := hnz (Bool.eq_false_iff.mpr (by assumption)))
  all_goals first
    | exact idx_bounds_raw _ hexp (by assumption) (by assumption)
    | exact argBigLt_cmp_raw _ _ _ _ hexp hs' (by assumption) (by assumption) (by assumption)
        (by assumption) (by assumption) (by assumption)
    | exact argBigLt_exp_raw _ _ _ hexp hs' (by assumption) (by assumption) (by assumption)
    | exact argBig_raw _ _ _ hexp hs' (by assumption) (by assumption)
    | exact argSmall_raw _ _ _ hexp hr hs' (by assumption) (by assumption)

/-- `Log1p`, every mode byte, arguments with decoded biased exponent `≥ 2912` (exponent `≥ -3264`) -/
theorem Log1p_total_range (g : Globals) (d : Gen.Decimal) (hr : 2912 ≤ (d.decompose).2.toInt) :
    ∃ r, Gen.Log1p g d = .ok r := total_of_triple (Log1p_triple_range g d hr)

/-- **partial**: `Log1p` terminates without panic if the argument's exponent is at least −3264 OR the mode
is not one of ToZero / ToNegativeInf / ToPositiveInf.  Missing: the directed modes for arguments below
`10^-3264` (see the file header: the function is wrong there because of `int16` exponent wrap-around). -/
theorem Log1p_total_partial (g : Globals) (d : Gen.Decimal)
    (h : 2912 ≤ (d.decompose).2.toInt ∨
      (g.DefaultRoundingMode ≠ 2 ∧ g.DefaultRoundingMode ≠ 4 ∧ g.DefaultRoundingMode ≠ 5)) :
    ∃ r, Gen.Log1p g d = .ok r := by
  rcases h with h | h
  · exact Log1p_total_range g d h
  · exact Log1p_total_modes g d h

/-- e.g. `Log1p(0.5)` and `Log1p(-3e-20)` under ToZero (mode byte 2) -/
example : ∃ r, Gen.Log1p { DefaultRoundingMode := 2 } (Gen.compose false ⟨5, 0⟩ 6175) = .ok r :=
  Log1p_total_range _ _ (by decide)
example : ∃ r, Gen.Log1p { DefaultRoundingMode := 2 } (Gen.compose true ⟨3, 0⟩ 6156) = .ok r :=
  Log1p_total_range _ _ (by decide)

end D128.Proofs.Total
