/-
  D128/Proofs/D192Rcp.lean — `decomposed192.rcp` (Go: /repo/decomposed.go): the reciprocal
  `10^57·10^-57 / d`, same long division as `quo` with the fixed numerator `oneSig = 10^57`.

  * `oneSig_toNat`          : the constant `uint192{0x4a00…, 0xebfd…, 0x28c8…}` is `10^57`
  * `RcpPost`, `rcp_triple` : for `d.sig ≠ 0`: no panic, termination, and the result is
        `r.sig = ⌊10^57·10^c / (On·10^tt)⌋` with `On = d.sig / 10^b` the divisor with `b ≤ 2` low digits
        DROPPED, `r.exp = -57 - (d.exp + b) - c + tt` (wrapping), flag `1` iff anything non-zero was
        dropped (else passed through), `≥ 25·2^184` kept unless the division terminated.
-/
import D128.Proofs.D192Quo
set_option autoImplicit false
set_option maxRecDepth 4096
set_option exponentiation.threshold 512
set_option linter.unusedVariables false
open Std.Do D128.Proofs.WordsWide
set_option mvcgen.warning false

namespace D192

def oneSig : U192 := ⟨5332261958806667264, 17004971331911604867, 2938735877055718769⟩

theorem oneSig_toNat : oneSig.toNat = 10 ^ 57 := by decide

/-- what `rcp` returns -/
def RcpPost (d : Gen.decomposed192) (t : Int8) (x : Gen.decomposed192 × Int8) : Prop :=
  ∃ (o1 : Gen.decomposed192 × Int8),
    QFin (10 ^ 57) o1.1.sig.toNat (-57 - o1.1.exp) o1.2 x.1 x.2 ∧
    (TrO d.sig.toNat t d.exp o1 ∧ o1.1.sig.toNat < OLIM) ∧ o1.1.sig.toNat ≠ 0

theorem rcp_triple (d : Gen.decomposed192) (t : Int8) :
    ⦃⌜d.sig.toNat ≠ 0⌝⦄ Gen.decomposed192.rcp d t
    ⦃⇓ x => ⌜RcpPost d t x⌝⦄ := by
  mvcgen [Gen.decomposed192.rcp]
  case inv1 => exact fun st => ⟨st.1.sig.toNat⟩
  case inv2 => exact ⇓ x => match x with
    | .inl st => ⌜TrO d.sig.toNat t d.exp st⌝
    | .inr st => ⌜TrO d.sig.toNat t d.exp st ∧ st.1.sig.toNat < OLIM⌝
  case inv3 => exact fun st => ⟨gap st.2.1.toNat⟩
  case inv4 =>
    rename_i o1 _ _ _ _ _ _ _ _
    exact ⇓ x => match x with
    | .inl st => ⌜QSt (10 ^ 57) o1.1.sig.toNat (-57 - o1.1.exp) o1.2 st⌝
    | .inr st => ⌜QSt (10 ^ 57) o1.1.sig.toNat (-57 - o1.1.exp) o1.2 st ∧
        (st.2.2.1.toNat = 0 ∨ LIM ≤ st.2.1.toNat)⌝
  case inv5 | inv7 => exact fun st => ⟨gap st.1.toNat⟩
  case inv6 =>
    rename_i b _ _ _ _ _ _ _ _ _
    exact ⇓ x => match x with
    | .inl st => ⌜QSc b.2.1.toNat b.2.2.1.toNat b.2.2.2 st⌝
    | .inr st => ⌜QSc b.2.1.toNat b.2.2.1.toNat b.2.2.2 st⌝
  case inv8 =>
    rename_i b _ _ _ _ _ _ _ _ _ _ _ _ _ _ _
    exact ⇓ x => match x with
    | .inl st => ⌜QSc b.2.1.toNat b.2.2.1.toNat b.2.2.2 st⌝
    | .inr st => ⌜QSc b.2.1.toNat b.2.2.1.toNat b.2.2.2 st ∧
        (lim < st.2.1.w2.toNat ∨ lim < st.1.w2.toNat)⌝
  case inv9 => exact fun st => ⟨st.2.2.toNat⟩
  case inv10 =>
    rename_i b _ _ _ _ _ _ _ _ _ _ _ _ _ _ _ s2 _ _ _ _ _ tq _ _ _ _
    exact ⇓ x => match x with
    | .inl st => ⌜QRed (s2.1.toNat + tq.1.toNat) b.1 s2.2.2 st⌝
    | .inr st => ⌜QRed (s2.1.toNat + tq.1.toNat) b.1 s2.2.2 st ∧ st.2.2.w3 = 0⌝
  all_goals (simp +zetaDelta at *)
  case vc1 =>
    rename_i hdiv hg hinv hnz
    have := TrO.step hinv.2 _ _ hdiv hg
    rw [if_neg hnz] at this
    exact ⟨by rw [hinv.1]; exact this.1, this.2⟩
  case vc2 =>
    rename_i hdiv hg hinv hz
    have := TrO.step hinv.2 _ _ hdiv hg
    rw [if_pos hz] at this
    exact ⟨by rw [hinv.1]; exact this.1, this.2⟩
  case vc3 => rename_i hlt hinv; exact ⟨hinv.2, lt_OLIM_of_lt _ hlt⟩
  case vc4 => exact TrO.refl d t
  case vc5 | vc12 =>
    exact TrO.ne_zero (O := d.sig.toNat) (t0 := t) (e0 := d.exp) (And.left (by assumption))
      (by assumption)
  case vc6 =>
    rename_i hc hq hz hinv
    obtain ⟨_, _, _, _, _, _, _, _, h1⟩ := hq.2
    exact QSc.step _ 10000 4 (by decide) (by norm_num) h1 (fit4 _ hz.2) (fit4 _ hz.1) hinv
  case vc7 => rename_i hinv; exact hinv.2
  case vc8 => exact QSc.refl _ _ _
  case vc9 =>
    rename_i hc hq hz hinv
    obtain ⟨_, _, _, _, _, _, _, _, h1⟩ := hq.2
    exact QSc.step _ 10 1 (by decide) (by norm_num) h1 (fit1 _ hz.2) (fit1 _ hz.1) hinv
  case vc10 => rename_i hex hinv; exact ⟨hinv.2, exit2 _ _ hex⟩
  case vc11 => assumption
  case vc13 => rename_i hdiv _ _ hw hinv hnz; exact QRed.vc_nz _ _ _ hdiv hw hinv hnz
  case vc14 => rename_i hdiv _ _ hw hinv hz; exact QRed.vc_z _ _ _ hdiv hw hinv hz
  case vc15 => rename_i hw hinv; exact ⟨hinv.2, hw⟩
  case vc16 => exact QRed.init _ _ _ _
  case vc17 =>
    rename_i hcond hinv
    exact QSt.next _ _ _ _ _
      (TrO.ne_zero (O := d.sig.toNat) (t0 := t) (e0 := d.exp) (And.left (by assumption)) (by assumption))
      (And.right (by assumption)) hcond.2 hinv (by assumption) (by assumption) (by assumption)
  case vc21 => rename_i hex hinv; exact ⟨hinv.2, exit_outer _ _ hex⟩
  case vc22 =>
    rename_i hdiv
    rw [show (U192.mk 5332261958806667264 17004971331911604867 2938735877055718769).toNat = 10 ^ 57
      from oneSig_toNat] at hdiv
    exact QSt.init _ _ _ _ _ _ hdiv.1 hdiv.2 (by unfold LIM; norm_num) (And.right (by assumption))
      (TrO.ne_zero (O := d.sig.toNat) (t0 := t) (e0 := d.exp) (And.left (by assumption)) (by assumption))
  case vc23 =>
    rename_i hst hnz
    have hO0 := TrO.ne_zero (O := d.sig.toNat) (t0 := t) (e0 := d.exp) (And.left (by assumption))
      (by assumption)
    exact ⟨_, QFin.of_nz (Nat.pos_of_ne_zero hO0) hst.1 hst.2 hnz, by assumption, hO0⟩
  case vc24 =>
    rename_i hst hz
    have hO0 := TrO.ne_zero (O := d.sig.toNat) (t0 := t) (e0 := d.exp) (And.left (by assumption))
      (by assumption)
    exact ⟨_, QFin.of_z (Nat.pos_of_ne_zero hO0) hst.1 hst.2 hz, by assumption, hO0⟩

end D192
