/-
  D128/Proofs/PowEarly.lean — the first rungs of `PowWithMode` (code level), all bit patterns, every
  mode byte; none of them can panic.

  * `pow_yzero`     : y = ±0                      ⇒ `one false`
  * `pow_xone`      : |x| = 1 and (x > 0 or y = ±Inf) ⇒ `one false`
  * `pow_to_stage2` : otherwise the call continues at `stage2`
  * `stage2_yone`   : |y| = 1 ⇒ `QuoWithMode (one false) d mode` (y < 0) or `d` itself (y > 0)
  * `stage2_ladder` : otherwise the call continues at `ladder`
  * `ladder_nan_left`, `ladder_nan_right` : the first NaN operand is returned bit for bit
  * `ladder_infY`, `ladder_strip` : y = ±Inf goes to `infY`; a finite y is stripped and goes to `afterO`
-/
import D128.Proofs.PowBase

set_option autoImplicit false
set_option maxRecDepth 8192
set_option linter.unusedVariables false
set_option linter.unusedSimpArgs false

namespace PowPf
open Gen Sp
local notation "𝔳[" d "]" => Spec.interp (Gen.Decimal.lo d) (Gen.Decimal.hi d)

theorem pow_yzero (d o : Decimal) (mode : UInt8) (h : Decimal.IsZero o = true) :
    Decimal.PowWithMode d o mode = .ok (one false) := by
  rw [PowWithMode_eq, staged]; simp only [h, if_true]; rfl

theorem pow_xone (d o : Decimal) (mode : UInt8) (h0 : Decimal.IsZero o = false)
    (h1 : absOne 𝔳[d] = true) (h2 : ((!(Decimal.Signbit d)) || (Decimal.isInf o)) = true) :
    Decimal.PowWithMode d o mode = .ok (one false) := by
  rw [PowWithMode_eq, staged, isOne_eq, h1]
  simp only [h0, if_false, Bool.false_eq_true, RK.ok_bind, h2, if_true]; rfl

theorem pow_to_stage2 (d o : Decimal) (mode : UInt8) (h0 : Decimal.IsZero o = false)
    (h : (absOne 𝔳[d] && ((!(Decimal.Signbit d)) || (Decimal.isInf o))) = false) :
    Decimal.PowWithMode d o mode = stage2 mode d o := by
  rw [PowWithMode_eq, staged, isOne_eq]
  simp only [h0, if_false, Bool.false_eq_true, RK.ok_bind]
  cases h1 : absOne 𝔳[d]
  · simp only [if_false, Bool.false_eq_true]
  · rw [h1, Bool.true_and] at h
    simp only [h, if_true, if_false, Bool.false_eq_true]

theorem stage2_yone (d o : Decimal) (mode : UInt8) (h : absOne 𝔳[o] = true) :
    stage2 mode d o =
      if Decimal.Signbit o = true then Decimal.QuoWithMode (one false) d mode else .ok d := by
  rw [stage2, isOne_eq, h]; rfl

theorem stage2_ladder (d o : Decimal) (mode : UInt8) (h : absOne 𝔳[o] = false) :
    stage2 mode d o = ladder mode d o := by
  rw [stage2, isOne_eq, h]; rfl

theorem ladder_nan_left (d o : Decimal) (mode : UInt8) (h : Decimal.IsNaN d = true) :
    ladder mode d o = .ok d := by
  rw [ladder]; simp only [h, if_true]; rfl

theorem ladder_nan_right (d o : Decimal) (mode : UInt8) (hd : Decimal.IsNaN d = false)
    (h : Decimal.IsNaN o = true) : ladder mode d o = .ok o := by
  rw [ladder]; simp only [hd, h, if_true, if_false, Bool.false_eq_true]; rfl

theorem ladder_infY (d o : Decimal) (mode : UInt8) (hd : Decimal.IsNaN d = false)
    (ho : Decimal.IsNaN o = false) (h : Decimal.isInf o = true) :
    ladder mode d o = infY d (Decimal.Signbit o) := by
  rw [ladder]; simp only [hd, ho, h, if_true, if_false, Bool.false_eq_true]

theorem ladder_strip (d o : Decimal) (mode : UInt8) (hd : Decimal.IsNaN d = false)
    (ho : Decimal.IsNaN o = false) (h : Decimal.isInf o = false) :
    ladder mode d o = (do
      let s ← strip (Decimal.decompose o)
      afterO mode d (Decimal.Signbit d) (Decimal.Signbit o) s.1 s.2) := by
  rw [ladder]; simp only [hd, ho, h, if_false, Bool.false_eq_true]

end PowPf
