/-
  D128/Proofs/LogAccSpec.lean — **`log_spec`**: the working value returned by `Gen.decomposed192.log` against `Real.log`.

  For `d.sig ≠ 0`, `|d.exp| ≤ 16000`, `X = val d`:
    `log d = .ok (neg, x, t)`, no panic, flag in `{0,1,-1}`, `-5930 ≤ x.exp ≤ 5500`, and with the decomposition
    `X = v·10^e0`, `M = ⌊10v⌋ ∈ [10,99]`, the computed quotient `F ∈ [0, 1/(2M)]` and series value `S ∈ [F, 1.01·F]`:
      `neg = (e0 < 0)`   (so `neg ↔ X < 1`)
      `|val x − |ln X|| ≤ errLog |e0| [M≠10] S F = 2·tailR F + (16·|e0| + 7·[M≠10] + 231·S)·10^-57`
      `10v = M → F = 0`            (exact first reduction: the series vanishes)
      `M = 10 → e0 = 0 → 199/100·S ≤ ln X`   (the result is the series itself)
  `tailR F = F^35/(35(1−F²))` is the truncation of the artanh series after the 33rd power.
  * `tailR_le`  : `0 ≤ F ≤ 1/20 → tailR F ≤ F^35/34`
  * `ln10v_table`, `lnM_table` : the table constants against `Real.log 10`, `Real.log (M/10)` (from EnclosureTables)
  * `core_estimate` : `|2R − ln q| ≤ 2·tailR F + (2[M≠10] + 217·S)·10^-57`  (first reduction, quotient, series)
  * `caseA_lower`, `err_total` : the two real-arithmetic lemmas `log_spec` is assembled from
-/
import D128.Proofs.LogAccReal
set_option autoImplicit false
set_option maxRecDepth 4096
set_option linter.unusedVariables false
namespace LogAcc
open Gen D192 Root

/-- the error budget of `log` -/
noncomputable def errLog (K : ℕ) (m S F : ℝ) : ℝ := 2 * tailR F + (16 * (K : ℝ) + 7 * m + 231 * S) / 10 ^ 57

theorem tailR_nonneg (F : ℝ) (h0 : 0 ≤ F) (h1 : F ≤ 1 / 20) : 0 ≤ tailR F := by
  unfold tailR
  have : 0 < 1 - F * F := by nlinarith
  positivity

theorem tailR_le (F : ℝ) (h0 : 0 ≤ F) (h1 : F ≤ 1 / 20) : tailR F ≤ F ^ 35 / 34 := by
  unfold tailR
  have h2 : F * F ≤ 1 / 400 := by nlinarith
  have hden : (34 : ℝ) ≤ ((2 * 17 + 1 : ℕ) : ℝ) * (1 - F * F) := by
    push_cast; nlinarith
  have e : F * (F * F) ^ 17 = F ^ 35 := by ring
  rw [e]
  exact div_le_div_of_nonneg_left (by positivity) (by norm_num) hden

theorem lamR_le : ((lam : ℚ) : ℝ) ≤ 1 / (6 * 10 ^ 56) := by
  have : ((lam : ℚ) : ℝ) ≤ ((1 / (6 * 10 ^ 56) : ℚ) : ℝ) := Rat.cast_le.mpr lam_le
  norm_num at this ⊢; exact this

theorem lamR_pos : (0 : ℝ) < ((lam : ℚ) : ℝ) := by exact_mod_cast lam_pos

/-- `ln10v` against `Real.log 10` -/
theorem ln10v_table : |((ln10v : ℚ) : ℝ) - Real.log 10| ≤ 1 / 2 / 10 ^ 57 := by
  have h := EnclPf.ln10_table
  have e : ((ln10v : ℚ) : ℝ) = (Gen.ln10.sig.toNat : ℝ) * (10 : ℝ) ^ (-57 : ℤ) := by
    unfold ln10v val; rw [ln10_exp]; push_cast; rfl
  rw [e]
  have e2 : (1 : ℝ) / 2 * (10 : ℝ) ^ (-57 : ℤ) = 1 / 2 / 10 ^ 57 := by
    rw [zpow_neg]; norm_num
  rw [e2] at h; exact h

/-- the table value for the leading digits against the real logarithm -/
theorem lnM_table (M : Int64) (h0 : 10 ≤ M.toInt) (h1 : M.toInt ≤ 99) :
    |((lnM M : ℚ) : ℝ) - Real.log ((M.toInt : ℝ) / 10)| ≤ (if M.toInt = 10 then 0 else 1) * (1 / 2 / 10 ^ 57) := by
  by_cases h10 : M.toInt = 10
  · unfold lnM; rw [if_pos h10, if_pos h10, h10]; norm_num
  · rw [if_neg h10, one_mul]
    have hi : Go.idx (M - 11) = M.toInt - 11 := i64_sub11 M h0 h1
    have hc : 0 ≤ Go.idx (M - 11) ∧ (Go.idx (M - 11)).toNat < 89 := by rw [hi]; omega
    have := EnclPf.ln_table ⟨(Go.idx (M - 11)).toNat, hc.2⟩
    have e : (((⟨(Go.idx (M - 11)).toNat, hc.2⟩ : Fin 89).val + 11 : ℕ) : ℝ) = (M.toInt : ℝ) := by
      simp only
      rw [hi]
      have : ((M.toInt - 11).toNat + 11 : ℕ) = M.toInt.toNat := by omega
      rw [this]
      have h2 : ((M.toInt.toNat : ℕ) : ℤ) = M.toInt := Int.toNat_of_nonneg (by omega)
      exact_mod_cast h2
    rw [e] at this
    have e3 : ((lnM M : ℚ) : ℝ) = ((Gen.ln[(⟨(Go.idx (M - 11)).toNat, hc.2⟩ : Fin 89)]).toNat : ℝ) * (10 : ℝ) ^ (-57 : ℤ) := by
      unfold lnM lnMsig
      rw [if_neg h10, dif_pos hc]; push_cast; rfl
    rw [e3]
    have e2 : (1 : ℝ) / 2 * (10 : ℝ) ^ (-57 : ℤ) = 1 / 2 / 10 ^ 57 := by
      rw [zpow_neg]; norm_num
    rw [e2] at this; exact this

end LogAcc

namespace LogAcc
open Gen D192 Root

/-- the core estimate: twice the computed series against the logarithm of the reduced argument `q` -/
theorem core_estimate (m q V2 S Rr F : ℝ)
    (hm : m = 0 ∨ m = 1) (hq1 : V2 ≤ q) (hq2 : q * (1 - m * ((lam : ℚ) : ℝ)) ≤ V2) (hV2 : 1 ≤ V2)
    (hqhi : q ≤ 11 / 10)
    (hser : |Real.log V2 - 2 * S| ≤ 2 * tailR F + 5 / 10 ^ 56 * S)
    (hR1 : S * (1 - ((lam : ℚ) : ℝ)) ^ 50 ≤ Rr) (hR2 : Rr ≤ S) (hS0 : 0 ≤ S) :
    |2 * Rr - Real.log q| ≤ 2 * tailR F + (2 * m + 217 * S) / 10 ^ 57 := by
  have hl := lamR_pos
  have hle := lamR_le
  have hm0 : 0 ≤ m := by rcases hm with h | h <;> simp [h]
  have hm1 : m ≤ 1 := by rcases hm with h | h <;> simp [h]
  have hqpos : 0 < q := by linarith
  have hV2pos : 0 < V2 := by linarith
  -- log q − log V2 ∈ [0, 2m·10^-57]
  have hq_lo : 0 ≤ Real.log q - Real.log V2 := by
    have := Real.log_le_log hV2pos hq1; linarith
  have hq_hi : Real.log q - Real.log V2 ≤ 2 * m / 10 ^ 57 := by
    have h1 := log_sub_le hqpos hV2pos
    have h2 : (q - V2) / V2 ≤ q - V2 := by
      rw [div_le_iff₀ hV2pos]; nlinarith
    have h3 : q - V2 ≤ q * (m * ((lam : ℚ) : ℝ)) := by nlinarith
    have h4 : q * (m * ((lam : ℚ) : ℝ)) ≤ 11 / 10 * (m * (1 / (6 * 10 ^ 56))) := by
      apply mul_le_mul hqhi (mul_le_mul_of_nonneg_left hle hm0) (by positivity) (by norm_num)
    have h5 : (11 : ℝ) / 10 * (m * (1 / (6 * 10 ^ 56))) ≤ 2 * m / 10 ^ 57 := by
      have : (11 : ℝ) / 10 * (m * (1 / (6 * 10 ^ 56))) = m * (11 / (6 * 10 ^ 57)) := by ring
      rw [this]
      have : 2 * m / 10 ^ 57 = m * (2 / 10 ^ 57) := by ring
      rw [this]
      exact mul_le_mul_of_nonneg_left (by norm_num) hm0
    linarith
  -- S − R ∈ [0, 38 lam S]
  have hbern : 1 - 50 * ((lam : ℚ) : ℝ) ≤ (1 - ((lam : ℚ) : ℝ)) ^ 50 := by
    have := one_add_mul_le_pow (a := -((lam : ℚ) : ℝ)) (by linarith [show (1 : ℝ) / (6 * 10 ^ 56) ≤ 1 by norm_num]) 50
    have e : (1 : ℝ) + (50 : ℕ) * -((lam : ℚ) : ℝ) = 1 - 50 * ((lam : ℚ) : ℝ) := by push_cast; ring
    have e2 : (1 : ℝ) + -((lam : ℚ) : ℝ) = 1 - ((lam : ℚ) : ℝ) := by ring
    rw [e, e2] at this; exact this
  have hSR : S - Rr ≤ 50 / (6 * 10 ^ 56) * S := by
    have : S * (1 - 50 * ((lam : ℚ) : ℝ)) ≤ Rr := le_trans (mul_le_mul_of_nonneg_left hbern hS0) hR1
    nlinarith
  have hs := abs_le.mp hser
  have e : (2 * m + 217 * S) / 10 ^ 57 = 2 * m / 10 ^ 57 + 5 / 10 ^ 56 * S + 167 / 10 ^ 57 * S := by ring
  have h14 : 2 * (50 / (6 * 10 ^ 56) * S) ≤ 167 / 10 ^ 57 * S := by nlinarith
  have h14' : 0 ≤ 167 / 10 ^ 57 * S := by positivity
  have hmm2 : 0 ≤ 2 * m / 10 ^ 57 := by positivity
  rw [abs_le, e]
  constructor <;> linarith [hs.1, hs.2]

end LogAcc

namespace LogAcc
open Gen D192 Root

/-- case A (no table, no exponent): the logarithm is at least `1.99·S` -/
theorem caseA_lower (V S F : ℝ) (hser : |Real.log V - 2 * S| ≤ 2 * tailR F + 5 / 10 ^ 56 * S)
    (hF0 : 0 ≤ F) (hF20 : F ≤ 1 / 20) (hFS : F ≤ S) : 199 / 100 * S ≤ Real.log V := by
  have hS0 : 0 ≤ S := le_trans hF0 hFS
  have hs := (abs_le.mp hser).1
  have ht := tailR_le F hF0 hF20
  have hc : (1 / 20 : ℝ) ^ 34 ≤ 1 / 10 ^ 44 := by norm_num
  have hp : F ^ 35 ≤ 1 / 10 ^ 44 * S := by
    have e : F ^ 35 = F ^ 34 * F := by ring
    rw [e]
    exact mul_le_mul (le_trans (pow_le_pow_left₀ hF0 hF20 34) hc) hFS hF0 (by positivity)
  have h2 : F ^ 35 / 34 ≤ 1 / 10 ^ 44 * S / 34 := div_le_div_of_nonneg_right hp (by norm_num)
  have h3 : 2 * (1 / 10 ^ 44 * S / 34) ≤ 1 / 1000 * S := by
    have e : 2 * (1 / 10 ^ 44 * S / 34) = 2 / (34 * 10 ^ 44) * S := by ring
    rw [e]; exact mul_le_mul_of_nonneg_right (by norm_num) hS0
  have h4 : (5 : ℝ) / 10 ^ 56 * S ≤ 1 / 1000 * S := mul_le_mul_of_nonneg_right (by norm_num) hS0
  linarith

/-- the total error of `log`, from the estimate of the tail stage and the component estimates -/
theorem err_total (K m S T R l10 lM L10 LM Lq B L x : ℝ) (hK : 0 ≤ K) (hm : m = 0 ∨ m = 1)
    (hR0 : 0 ≤ R) (hRS : R ≤ S)
    (hcore : |2 * R - Lq| ≤ 2 * T + (2 * m + 217 * S) / 10 ^ 57)
    (h10 : |l10 - L10| ≤ 1 / 2 / 10 ^ 57) (hM : |lM - LM| ≤ m * (1 / 2 / 10 ^ 57))
    (hl10 : l10 ≤ 231 / 100) (hlM : lM ≤ 231 / 100 * m)
    (hBL : (B = 2 * R + K * l10 + lM ∧ L = K * L10 + LM + Lq) ∨
           (B = K * l10 - 2 * R - lM ∧ L = -(K * L10) + LM + Lq))
    (hxB : |x - (|B|)| ≤ ((lam : ℚ) : ℝ) * (4 * (K * l10 + 2 * R) + lM)) :
    |x - (|L|)| ≤ 2 * T + (16 * K + 7 * m + 231 * S) / 10 ^ 57 := by
  have hl := lamR_pos
  have hle := lamR_le
  have hm0 : 0 ≤ m := by rcases hm with h | h <;> simp [h]
  have hS0 : 0 ≤ S := le_trans hR0 hRS
  have hc := abs_le.mp hcore
  have h10t := abs_le.mp h10
  have hMt := abs_le.mp hM
  have hK1 : K * (l10 - L10) ≤ K * (1 / 2 / 10 ^ 57) := mul_le_mul_of_nonneg_left h10t.2 hK
  have hK2 : K * (-(1 / 2 / 10 ^ 57)) ≤ K * (l10 - L10) := mul_le_mul_of_nonneg_left h10t.1 hK
  have hmm : 0 ≤ m * (1 / 2 / 10 ^ 57) := by positivity
  have key : |(|B|) - (|L|)| ≤ 2 * T + (K / 2 + 3 * m + 217 * S) / 10 ^ 57 := by
    have ebound : 2 * T + (K / 2 + 3 * m + 217 * S) / 10 ^ 57
        = K * (1 / 2 / 10 ^ 57) + m * (1 / 2 / 10 ^ 57) + m * (1 / 2 / 10 ^ 57)
          + (2 * T + (2 * m + 217 * S) / 10 ^ 57) := by ring
    rcases hBL with ⟨hB, hL⟩ | ⟨hB, hL⟩
    · refine le_trans (abs_abs_sub_abs_le_abs_sub _ _) ?_
      rw [hB, hL, ebound, abs_le]
      constructor <;> linarith [hc.1, hc.2, hMt.1, hMt.2]
    · have hnegL : |L| = |-L| := (abs_neg _).symm
      rw [hnegL]
      refine le_trans (abs_abs_sub_abs_le_abs_sub _ _) ?_
      rw [hB, hL, ebound, abs_le]
      constructor <;> linarith [hc.1, hc.2, hMt.1, hMt.2]
  have hk := abs_le.mp key
  have hxb := abs_le.mp hxB
  have hlamsum : ((lam : ℚ) : ℝ) * (4 * (K * l10 + 2 * R) + lM)
      ≤ (31 / 2 * K + 4 * m + 14 * S) / 10 ^ 57 := by
    have h1 : 4 * (K * l10 + 2 * R) + lM ≤ 4 * (K * (231 / 100) + 2 * S) + 231 / 100 * m := by
      have := mul_le_mul_of_nonneg_left hl10 hK
      linarith
    have h2 : 0 ≤ 4 * (K * (231 / 100) + 2 * S) + 231 / 100 * m := by positivity
    by_cases hneg : 4 * (K * l10 + 2 * R) + lM ≤ 0
    · have : ((lam : ℚ) : ℝ) * (4 * (K * l10 + 2 * R) + lM) ≤ 0 := mul_nonpos_of_nonneg_of_nonpos hl.le hneg
      have : 0 ≤ (31 / 2 * K + 4 * m + 14 * S) / 10 ^ 57 := by positivity
      linarith
    · calc _ ≤ ((lam : ℚ) : ℝ) * (4 * (K * (231 / 100) + 2 * S) + 231 / 100 * m) :=
            mul_le_mul_of_nonneg_left h1 hl.le
        _ ≤ 1 / (6 * 10 ^ 56) * (4 * (K * (231 / 100) + 2 * S) + 231 / 100 * m) :=
            mul_le_mul_of_nonneg_right hle h2
        _ ≤ (31 / 2 * K + 4 * m + 14 * S) / 10 ^ 57 := by
            have e : (1 : ℝ) / (6 * 10 ^ 56) * (4 * (K * (231 / 100) + 2 * S) + 231 / 100 * m)
                = (154 / 10 * K + 385 / 100 * m + 40 / 3 * S) / 10 ^ 57 := by ring
            rw [e]
            apply div_le_div_of_nonneg_right _ (by positivity)
            linarith
  have efin : 2 * T + (16 * K + 7 * m + 231 * S) / 10 ^ 57
      = (2 * T + (K / 2 + 3 * m + 217 * S) / 10 ^ 57) + (31 / 2 * K + 4 * m + 14 * S) / 10 ^ 57 := by ring
  rw [efin, abs_le]
  constructor <;> linarith [hk.1, hk.2, hxb.1, hxb.2]

set_option maxHeartbeats 600000 in
/-- **`log_spec`**: the working value of `decomposed192.log` against the real logarithm. -/
theorem log_spec (d : decomposed192) (hd : d.sig.toNat ≠ 0)
    (he : -16000 ≤ d.exp.toInt ∧ d.exp.toInt ≤ 16000) :
    ∃ (neg : Bool) (x : decomposed192) (t : Int8) (e0 : ℤ) (M : ℤ) (v S F : ℝ),
      Gen.decomposed192.log d = .ok (neg, x, t) ∧ flag3 t ∧ -5930 ≤ x.exp.toInt ∧ x.exp.toInt ≤ 5500 ∧
      ((val d : ℚ) : ℝ) = v * (10 : ℝ) ^ e0 ∧ -16000 ≤ e0 ∧ e0 ≤ 16057 ∧ 10 ≤ M ∧ M ≤ 99 ∧
      (M : ℝ) ≤ 10 * v ∧ 10 * v < (M : ℝ) + 1 ∧
      0 ≤ F ∧ F ≤ 1 / (2 * (M : ℝ)) ∧ F ≤ S ∧ S ≤ 101 / 100 * F ∧
      (10 * v = (M : ℝ) → F = 0) ∧
      (M = 10 → e0 = 0 → 199 / 100 * S ≤ Real.log ((val d : ℚ) : ℝ)) ∧
      neg = decide (e0 < 0) ∧
      |((val x : ℚ) : ℝ) - (|Real.log ((val d : ℚ) : ℝ)|)|
        ≤ errLog e0.natAbs (if M = 10 then 0 else 1) S F := by
  obtain ⟨neg, x, t, e0, M, v, v2, f, R, hlog, ht, hxe0, hxe1, hvd, he0a, he0b, hM0, hM1, hMlo, hMhi,
    h21, h22, h23, hf0, hf20, hf1, hf2, hR1, hR2, hneg, hx⟩ := log_code_spec d hd he
  -- real versions
  have hl := lamR_pos
  have hle := lamR_le
  have hMr0 : (10 : ℝ) ≤ ((M.toInt : ℤ) : ℝ) := by exact_mod_cast hM0
  have hMr1 : ((M.toInt : ℤ) : ℝ) ≤ 99 := by exact_mod_cast hM1
  have hMpos : (0 : ℝ) < ((M.toInt : ℤ) : ℝ) := by linarith
  have hMloR : ((M.toInt : ℤ) : ℝ) ≤ 10 * (v : ℝ) := by
    have : (((M.toInt : ℤ) : ℚ) : ℝ) ≤ ((10 * v : ℚ) : ℝ) := Rat.cast_le.mpr hMlo
    push_cast at this; exact this
  have hMhiR : 10 * (v : ℝ) < ((M.toInt : ℤ) : ℝ) + 1 := by
    have : ((10 * v : ℚ) : ℝ) < ((((M.toInt : ℤ) : ℚ) + 1 : ℚ) : ℝ) := Rat.cast_lt.mpr hMhi
    push_cast at this; exact this
  have hvpos : (0 : ℝ) < (v : ℝ) := by linarith
  set q : ℝ := 10 * (v : ℝ) / ((M.toInt : ℤ) : ℝ) with hq
  have hq1 : 1 ≤ q := by rw [hq, le_div_iff₀ hMpos]; linarith
  have hqhi' : q < (((M.toInt : ℤ) : ℝ) + 1) / ((M.toInt : ℤ) : ℝ) := by
    rw [hq]; exact div_lt_div_of_pos_right hMhiR hMpos
  have hqhi : q ≤ 11 / 10 := by
    have : (((M.toInt : ℤ) : ℝ) + 1) / ((M.toInt : ℤ) : ℝ) ≤ 11 / 10 := by
      rw [div_le_div_iff₀ hMpos (by norm_num)]; linarith
    linarith
  have hV2a : (1 : ℝ) ≤ (v2 : ℝ) := by exact_mod_cast h21
  have hV2b : (v2 : ℝ) ≤ q := by
    have : ((v2 : ℚ) : ℝ) ≤ ((10 * v / ((M.toInt : ℤ) : ℚ) : ℚ) : ℝ) := Rat.cast_le.mpr h22
    push_cast at this; exact this
  set m : ℝ := if (M.toInt : ℤ) = 10 then 0 else 1 with hm
  have hm01 : m = 0 ∨ m = 1 := by rw [hm]; split <;> simp
  have hV2c : q * (1 - m * ((lam : ℚ) : ℝ)) ≤ (v2 : ℝ) := by
    have : ((10 * v / ((M.toInt : ℤ) : ℚ) * (1 - (if M.toInt = 10 then 0 else lam)) : ℚ) : ℝ) ≤ ((v2 : ℚ) : ℝ) :=
      Rat.cast_le.mpr h23
    rw [hm, hq]
    split at this <;> rename_i h10
    · rw [if_pos h10]; push_cast at this; linarith
    · rw [if_neg h10]; push_cast at this; linarith
  have hF0 : (0 : ℝ) ≤ (f : ℝ) := by exact_mod_cast hf0
  have hfloR : ((v2 : ℝ) - 1) / ((v2 : ℝ) + 1) * (1 - ((lam : ℚ) : ℝ)) ≤ (f : ℝ) := by
    have : (((v2 - 1) / (v2 + 1) * (1 - lam) : ℚ) : ℝ) ≤ ((f : ℚ) : ℝ) := Rat.cast_le.mpr hf1
    push_cast at this; exact this
  have hfhiR : (f : ℝ) ≤ ((v2 : ℝ) - 1) / ((v2 : ℝ) + 1) * ((1 + ((Root.eps : ℚ) : ℝ)) / (1 - ((lam : ℚ) : ℝ))) := by
    have : ((f : ℚ) : ℝ) ≤ (((v2 - 1) / (v2 + 1) * ((1 + Root.eps) / (1 - lam)) : ℚ) : ℝ) := Rat.cast_le.mpr hf2
    push_cast at this; exact this
  have hser := log_v2_series (v2 : ℝ) f hV2a hf0 hf20 hfloR hfhiR
  set S : ℝ := ((Sj f 16 : ℚ) : ℝ) with hS
  have hFS : (f : ℝ) ≤ S := by rw [hS]; exact_mod_cast Sj_ge f hf0 16
  have hS2F : S ≤ 101 / 100 * (f : ℝ) := by
    have : ((Sj f 16 : ℚ) : ℝ) ≤ ((101 / 100 * f : ℚ) : ℝ) := Rat.cast_le.mpr (Sj_le_101 f hf0 hf20 16)
    push_cast at this; exact this
  have hS0 : 0 ≤ S := le_trans hF0 hFS
  have hRR1 : S * (1 - ((lam : ℚ) : ℝ)) ^ 50 ≤ (R : ℝ) := by
    have : ((Sj f 16 * (1 - lam) ^ 50 : ℚ) : ℝ) ≤ ((R : ℚ) : ℝ) := Rat.cast_le.mpr hR1
    push_cast at this; exact this
  have hRR2 : (R : ℝ) ≤ S := by rw [hS]; exact_mod_cast hR2
  have hR0 : (0 : ℝ) ≤ (R : ℝ) := by
    have h1 : (0 : ℝ) < 1 - ((lam : ℚ) : ℝ) := by linarith [show (1 : ℝ) / (6 * 10 ^ 56) < 1 by norm_num]
    exact le_trans (mul_nonneg hS0 (pow_nonneg h1.le _)) hRR1
  -- F ≤ 1/(2M)
  have hu : (0 : ℝ) < 1 - ((lam : ℚ) : ℝ) := by linarith [show (1 : ℝ) / (6 * 10 ^ 56) < 1 by norm_num]
  have hepsle : ((Root.eps : ℚ) : ℝ) ≤ 21 / 10 ^ 57 := by
    have h : Root.eps ≤ 21 / 10 ^ 57 := by unfold Root.eps; norm_num
    have : ((Root.eps : ℚ) : ℝ) ≤ ((21 / 10 ^ 57 : ℚ) : ℝ) := Rat.cast_le.mpr h
    norm_num at this ⊢; exact this
  have heps0 : (0 : ℝ) < ((Root.eps : ℚ) : ℝ) := by exact_mod_cast Root.eps_pos
  have hz_hi : ((v2 : ℝ) - 1) / ((v2 : ℝ) + 1) ≤ 1 / (2 * ((M.toInt : ℤ) : ℝ) + 1) := by
    rw [div_le_div_iff₀ (by linarith) (by linarith)]
    have : (v2 : ℝ) * ((M.toInt : ℤ) : ℝ) ≤ ((M.toInt : ℤ) : ℝ) + 1 := by
      have h1 : (v2 : ℝ) ≤ (((M.toInt : ℤ) : ℝ) + 1) / ((M.toInt : ℤ) : ℝ) := le_trans hV2b hqhi'.le
      rwa [le_div_iff₀ hMpos] at h1
    nlinarith
  have hz0 : 0 ≤ ((v2 : ℝ) - 1) / ((v2 : ℝ) + 1) := div_nonneg (by linarith) (by linarith)
  have hfac : (1 + ((Root.eps : ℚ) : ℝ)) / (1 - ((lam : ℚ) : ℝ)) ≤ 1 + 23 / 10 ^ 57 := by
    rw [div_le_iff₀ hu]; nlinarith
  have hF2M : (f : ℝ) ≤ 1 / (2 * ((M.toInt : ℤ) : ℝ)) := by
    have h1 : (f : ℝ) ≤ 1 / (2 * ((M.toInt : ℤ) : ℝ) + 1) * (1 + 23 / 10 ^ 57) :=
      le_trans hfhiR (mul_le_mul hz_hi hfac (by positivity) (by positivity))
    refine le_trans h1 ?_
    rw [div_mul_eq_mul_div, one_mul, div_le_div_iff₀ (by linarith) (by linarith)]
    nlinarith
  -- exact reduction
  have hexact : 10 * (v : ℝ) = ((M.toInt : ℤ) : ℝ) → (f : ℝ) = 0 := by
    intro h
    have hq1' : q = 1 := by rw [hq, h]; exact div_self hMpos.ne'
    have hv21 : (v2 : ℝ) = 1 := le_antisymm (by rw [← hq1']; exact hV2b) hV2a
    rw [hv21, sub_self, zero_div, zero_mul] at hfhiR
    linarith
  -- the logarithm of the argument
  have hX : ((val d : ℚ) : ℝ) = (v : ℝ) * (10 : ℝ) ^ e0 := by
    rw [hvd]; push_cast; rfl
  have hLsplit : Real.log ((val d : ℚ) : ℝ)
      = (e0 : ℝ) * Real.log 10 + Real.log (((M.toInt : ℤ) : ℝ) / 10) + Real.log q := by
    rw [hX, Real.log_mul hvpos.ne' (zpow_ne_zero _ (by norm_num)), Real.log_zpow]
    have hv : (v : ℝ) = ((M.toInt : ℤ) : ℝ) / 10 * q := by rw [hq]; field_simp
    rw [hv, Real.log_mul (by positivity) (by positivity)]
    ring
  have hLq0 : 0 ≤ Real.log q := Real.log_nonneg hq1
  have hLM0 : 0 ≤ Real.log (((M.toInt : ℤ) : ℝ) / 10) := Real.log_nonneg (by rw [le_div_iff₀ (by norm_num)]; linarith)
  have hL10 : 0 < Real.log 10 := Real.log_pos (by norm_num)
  -- the core estimate
  have htab := lnM_table M hM0 hM1
  have htab' : |((lnM M : ℚ) : ℝ) - Real.log (((M.toInt : ℤ) : ℝ) / 10)| ≤ m * (1 / 2 / 10 ^ 57) := by
    rw [hm]; exact_mod_cast htab
  have hcore := core_estimate m q (v2 : ℝ) S (R : ℝ) (f : ℝ)
    hm01 hV2b hV2c hV2a hqhi hser hRR1 hRR2 hS0
  have hKabs : ((e0.natAbs : ℕ) : ℝ) = |(e0 : ℝ)| := by
    rw [Nat.cast_natAbs]; push_cast; rfl
  refine ⟨neg, x, t, e0, M.toInt, (v : ℝ), S, (f : ℝ), hlog, ht, hxe0, hxe1, hX, he0a, he0b, hM0, hM1,
    hMloR, hMhiR, hF0, hF2M, hFS, hS2F, hexact, ?_, hneg, ?_⟩
  · -- case A lower bound
    intro hM10 he00
    have hm0 : m = 0 := by rw [hm, if_pos hM10]
    rw [hLsplit, he00, hM10]
    have h1 : Real.log (((10 : ℤ) : ℝ) / 10) = 0 := by norm_num
    rw [h1]
    push_cast
    have hqv : q = (v2 : ℝ) := by
      rw [hm0] at hV2c; linarith
    rw [hqv]
    have hF20 : (f : ℝ) ≤ 1 / 20 := by
      have : ((f : ℚ) : ℝ) ≤ ((1 / 20 : ℚ) : ℝ) := Rat.cast_le.mpr hf20
      norm_num at this ⊢; exact this
    have := caseA_lower (v2 : ℝ) S (f : ℝ) hser hF0 hF20 hFS
    linarith
  · -- the error bound
    have hLk0 : (0 : ℝ) ≤ ((e0.natAbs : ℕ) : ℝ) := Nat.cast_nonneg _
    have hlnM0 : (0 : ℝ) ≤ ((lnM M : ℚ) : ℝ) := by exact_mod_cast lnM_nonneg M
    have hl10hi : ((ln10v : ℚ) : ℝ) ≤ 231 / 100 := by
      have : ((ln10v : ℚ) : ℝ) ≤ ((231 / 100 : ℚ) : ℝ) := Rat.cast_le.mpr ln10v_hi
      norm_num at this ⊢; exact this
    have hl10lo : (0 : ℝ) ≤ ((ln10v : ℚ) : ℝ) := by
      have : ((23 / 10 : ℚ) : ℝ) ≤ ((ln10v : ℚ) : ℝ) := Rat.cast_le.mpr ln10v_lo
      norm_num at this; linarith
    -- lnM ≤ 2.31·m
    have hlnMhi : ((lnM M : ℚ) : ℝ) ≤ 231 / 100 * m := by
      by_cases h10 : M.toInt = 10
      · have : lnM M = 0 := by unfold lnM; rw [if_pos h10]
        rw [this, hm, if_pos h10]; norm_num
      · have hm1 : m = 1 := by rw [hm, if_neg h10]
        rw [hm1, mul_one]
        have h1 := (abs_le.mp htab').2
        rw [hm1, one_mul] at h1
        have h2 : Real.log (((M.toInt : ℤ) : ℝ) / 10) ≤ Real.log 10 :=
          Real.log_le_log (by positivity) (by linarith)
        have h3 := (abs_le.mp ln10v_table).1
        have h4 : ((ln10v : ℚ) : ℝ) ≤ 2303 / 1000 := by
          have h : ln10v ≤ 2303 / 1000 := by rw [ln10v_eq]; norm_num
          have : ((ln10v : ℚ) : ℝ) ≤ ((2303 / 1000 : ℚ) : ℝ) := Rat.cast_le.mpr h
          norm_num at this ⊢; exact this
        have h5 : (1 : ℝ) / 2 / 10 ^ 57 ≤ 1 / 1000 := by norm_num
        linarith
    -- the computed value against B
    set B : ℝ := if e0 < 0 then ((e0.natAbs : ℕ) : ℝ) * ((ln10v : ℚ) : ℝ) - 2 * (R : ℝ) - ((lnM M : ℚ) : ℝ)
        else 2 * (R : ℝ) + ((e0.natAbs : ℕ) : ℝ) * ((ln10v : ℚ) : ℝ) + ((lnM M : ℚ) : ℝ) with hB
    have hxB : |((val x : ℚ) : ℝ) - (|B|)|
        ≤ ((lam : ℚ) : ℝ) * (4 * (((e0.natAbs : ℕ) : ℝ) * ((ln10v : ℚ) : ℝ) + 2 * (R : ℝ)) + ((lnM M : ℚ) : ℝ)) := by
      have := Rat.cast_le (K := ℝ) |>.mpr hx
      rw [hB]
      split_ifs at this ⊢ with h
      all_goals (push_cast at this; exact this)
    have hmeq : (if M.toInt = 10 then (0 : ℝ) else 1) = m := by rw [hm]
    unfold errLog
    rw [hmeq]
    refine err_total ((e0.natAbs : ℕ) : ℝ) m S (tailR (f : ℝ)) (R : ℝ) ((ln10v : ℚ) : ℝ) ((lnM M : ℚ) : ℝ)
      (Real.log 10) (Real.log (((M.toInt : ℤ) : ℝ) / 10)) (Real.log q) B _ _ hLk0 hm01 hR0 hRR2 hcore
      ln10v_table htab' hl10hi hlnMhi ?_ hxB
    by_cases hneg0 : e0 < 0
    · right
      have hK : (e0 : ℝ) = -((e0.natAbs : ℕ) : ℝ) := by
        rw [hKabs, abs_of_neg (by exact_mod_cast hneg0)]; ring
      refine ⟨by rw [hB, if_pos hneg0], ?_⟩
      rw [hLsplit, hK]; ring
    · left
      have hK : (e0 : ℝ) = ((e0.natAbs : ℕ) : ℝ) := by
        rw [hKabs, abs_of_nonneg (by exact_mod_cast (not_lt.mp hneg0))]
      refine ⟨by rw [hB, if_neg hneg0], ?_⟩
      rw [hLsplit, hK]

end LogAcc
