/-
  D128/Proofs/CohortConv.lean — the integer conversions and `Frexp` of the specification respect
  `sameNum` (any two NaNs identified), complementing `CanonPf.sat_congr` / `CanonPf.frexp_congr`
  (property C19, first clause).

  * `sat_congr_num`   : `x.sameNum x' → Spec.sat lo hi x = Spec.sat lo hi x'`  (NaN ↦ `none`, the documented panic)
  * `frexp_congr_num` : fractions `sameNum`, exponents equal
-/
import D128.Proofs.CanonCohort
import D128.Proofs.CohortBase
set_option autoImplicit false

namespace Cohort
open Spec

theorem sat_congr_num (lo hi : Int) {x x' : Val} (h : x.sameNum x' = true) :
    Spec.sat lo hi x = Spec.sat lo hi x' := by
  cases hn : x.isNaN
  · exact CanonPf.sat_congr lo hi x x' (same_of_sameNum h hn)
  · rcases sameNum_cases h with ⟨_, _, _, _, rfl, rfl⟩ | ⟨_, rfl, rfl⟩ | ⟨_, _, _, _, _, rfl, rfl, _⟩
    · rfl
    · simp [Val.isNaN] at hn
    · simp [Val.isNaN] at hn

theorem frexp_congr_num {x x' : Val} (h : x.sameNum x' = true) :
    (Spec.frexp x).1.sameNum (Spec.frexp x').1 = true ∧ (Spec.frexp x).2 = (Spec.frexp x').2 := by
  cases hn : x.isNaN
  · obtain ⟨a, b⟩ := CanonPf.frexp_congr x x' (same_of_sameNum h hn)
    exact ⟨sameNum_of_same a, b⟩
  · rcases sameNum_cases h with ⟨_, _, _, _, rfl, rfl⟩ | ⟨_, rfl, rfl⟩ | ⟨_, _, _, _, _, rfl, rfl, _⟩
    · exact ⟨rfl, rfl⟩
    · simp [Val.isNaN] at hn
    · simp [Val.isNaN] at hn

end Cohort
