/-
  D128/Proofs/EmitF.lean — `Gen.digits.fmtF` (Go: `func (d *digits) fmtF(...)`, /repo/format.go) at byte level.

  The generated function is cut at its join points into the continuations `Emit.F.kA … k6` (text copied
  from the generated source, tied to it by `Emit.F.fmtF_eq : … := rfl`).

  * `Emit.F.dpOf`, `intB`, `fracB`, `fBytes` : what `fmtF` appends
  * `Emit.F.k4loop_eq … k0_eq`  : the stages
  * `Emit.F.fmtF_bytes`         : `fmtF d buf prec width … = .ok (d, buf ++ fBytes …)` (no panic, all four
                                  loops terminate)
-/
import D128.Proofs.EmitE
set_option autoImplicit false

namespace Emit
namespace F
open Emit.E (signB)

section
variable (d : Gen.digits) (prec width : Int64)
  (forceDP printSign padSign padRight padZero : Bool) (start : Int64)

def k6 (buf : Go.Bytes) : Go.GoM (Gen.digits × Go.Bytes) := do
  let __x ← d.pad buf start width printSign padSign padRight padZero
  match __x with
    | (r_5, r_6) => pure (r_5, r_6)

def k4loop (prec' : Int64) (buf : Go.Bytes) (i_1 : Int64) : Go.GoM (Gen.digits × Go.Bytes) := do
  let __s ←
    forIn Lean.Loop.mk (buf, i_1) fun (_ : Unit) (__s : Go.Bytes × Int64) =>
        if decide (__s.snd < prec') = true then
          pure (ForInStep.yield (Array.push __s.fst 48, __s.snd + 1))
        else pure (ForInStep.done (__s.fst, __s.snd))
  k6 d width printSign padSign padRight padZero start __s.fst

def k3tail (buf : Go.Bytes) (prec' dp' : Int64) : Go.GoM (Gen.digits × Go.Bytes) :=
  if decide (d.ndig > dp') = true then do
    let t_4 ← Go.vslice d.dig (Go.idx dp') (Go.idx d.ndig)
    k4loop d width printSign padSign padRight padZero start prec' (buf ++ t_4) (d.ndig - dp')
  else k4loop d width printSign padSign padRight padZero start prec' buf 0

def k3 (buf : Go.Bytes) (dp : Int64) : Go.GoM (Gen.digits × Go.Bytes) :=
  if decide (prec > 0) = true then do
    let __s ←
      forIn Lean.Loop.mk (Array.push buf 46, prec, dp)
        fun (_ : Unit) (__s : Go.Bytes × Int64 × Int64) =>
          if decide (__s.snd.snd < 0) = true then
            pure (ForInStep.yield (Array.push __s.fst 48, __s.snd.fst - 1, __s.snd.snd + 1))
          else pure (ForInStep.done (__s.fst, __s.snd.fst, __s.snd.snd))
    k3tail d width printSign padSign padRight padZero start __s.fst __s.snd.fst __s.snd.snd
  else
    if forceDP = true then
      k6 d width printSign padSign padRight padZero start (Array.push buf 46)
    else k6 d width printSign padSign padRight padZero start buf

def k2 (buf : Go.Bytes) : Go.GoM (Gen.digits × Go.Bytes) :=
  if (d.ndig == 0) = true then
    k3 d prec width forceDP printSign padSign padRight padZero start (Array.push buf 48) 0
  else
    if decide (d.ndig + d.exp > 0) = true then
      if decide (d.ndig > d.ndig + d.exp) = true then do
        let t_2 ← Go.vslice d.dig 0 (Go.idx (d.ndig + d.exp))
        k3 d prec width forceDP printSign padSign padRight padZero start (buf ++ t_2) (d.ndig + d.exp)
      else do
        let t_3 ← Go.vslice d.dig 0 (Go.idx d.ndig)
        let __s ←
          forIn Lean.Loop.mk (buf ++ t_3, d.ndig + d.exp - d.ndig)
            fun (_ : Unit) (__s : Go.Bytes × Int64) =>
              if decide (__s.snd > 2) = true then
                pure (ForInStep.yield (((Array.push __s.fst 48).push 48).push 48, __s.snd - 3))
              else pure (ForInStep.done (__s.fst, __s.snd))
        let __s ←
          forIn Lean.Loop.mk (__s.fst, __s.snd) fun (_ : Unit) (__s : Go.Bytes × Int64) =>
              if decide (__s.snd > 0) = true then
                pure (ForInStep.yield (Array.push __s.fst 48, __s.snd - 1))
              else pure (ForInStep.done (__s.fst, __s.snd))
        k3 d prec width forceDP printSign padSign padRight padZero start __s.fst (d.ndig + d.exp)
    else
      k3 d prec width forceDP printSign padSign padRight padZero start (Array.push buf 48)
        (d.ndig + d.exp)

def k0 (buf : Go.Bytes) : Go.GoM (Gen.digits × Go.Bytes) :=
  if d.neg = true then
    k2 d prec width forceDP printSign padSign padRight padZero (Go.len buf) (Array.push buf 45)
  else
    if printSign = true then
      k2 d prec width forceDP printSign padSign padRight padZero (Go.len buf) (Array.push buf 43)
    else
      if padSign = true then
        k2 d prec width forceDP printSign padSign padRight padZero (Go.len buf) (Array.push buf 32)
      else k2 d prec width forceDP printSign padSign padRight padZero (Go.len buf) buf

def kA (buf : Go.Bytes) : Go.GoM (Gen.digits × Go.Bytes) :=
  if (Go.len buf == 0) = true then
    if decide (width > 2 + d.ndig + d.exp) = true then do
      let t_1 ← Go.makeBytes 0 (Go.idx width)
      k0 d prec width forceDP printSign padSign padRight padZero t_1
    else do
      let t_1 ← Go.makeBytes 0 (Go.idx (2 + d.ndig + d.exp))
      k0 d prec width forceDP printSign padSign padRight padZero t_1
  else k0 d prec width forceDP printSign padSign padRight padZero buf
end

theorem fmtF_eq (d : Gen.digits) (buf : Go.Bytes) (prec width : Int64)
    (forceDP printSign padSign padRight padZero : Bool) :
    Gen.digits.fmtF d buf prec width forceDP printSign padSign padRight padZero =
      kA d prec width forceDP printSign padSign padRight padZero buf := rfl

theorem k6_congr (d : Gen.digits) (width : Int64) (printSign padSign padRight padZero : Bool)
    (start : Int64) {a b : Go.Bytes} (h : a.toList = b.toList) :
    k6 d width printSign padSign padRight padZero start a =
      k6 d width printSign padSign padRight padZero start b := by
  rw [Array.toList_inj.mp h]

/-- equality of continuations applied to byte arrays built from `push`/`++`/literals -/
macro "arrF" : tactic => `(tactic| (apply k6_congr; simp))

/-! ## byte-level description -/

/-- position of the decimal point relative to the first digit (`dp` of the Go code) -/
def dpOf (d : Gen.digits) : Int64 := if d.ndig == 0 then 0 else d.ndig + d.exp

/-- integer part -/
def intB (d : Gen.digits) : Go.Bytes :=
  if d.ndig == 0 then #[48]
  else if d.ndig + d.exp > 0 then
    if d.ndig > d.ndig + d.exp then digB d.dig 0 (d.ndig + d.exp).toInt.toNat
    else digB d.dig 0 d.ndig.toInt.toNat ++
      Array.replicate (d.ndig + d.exp - d.ndig).toInt.toNat 48
  else #[48]

/-- digits after the leading fraction zeros: the rest of the record, then zeros up to the precision -/
def tailB (d : Gen.digits) (prec' dp' : Int64) : Go.Bytes :=
  if d.ndig > dp' then
    digB d.dig dp'.toInt.toNat d.ndig.toInt.toNat ++
      Array.replicate (prec'.toInt - (d.ndig - dp').toInt).toNat 48
  else Array.replicate (prec'.toInt - 0).toNat 48

/-- decimal point and fraction -/
def fracB (d : Gen.digits) (prec : Int64) (forceDP : Bool) : Go.Bytes :=
  if prec > 0 then
    #[46] ++ Array.replicate (-(dpOf d).toInt).toNat 48 ++
      tailB d (if dpOf d < 0 then prec + dpOf d else prec) (if dpOf d < 0 then 0 else dpOf d)
  else if forceDP then #[46] else #[]

/-- everything `fmtF` appends (before padding) -/
def fBytes (d : Gen.digits) (prec : Int64) (forceDP printSign padSign : Bool) : Go.Bytes :=
  signB d.neg printSign padSign ++ intB d ++ fracB d prec forceDP

section
variable (d : Gen.digits) (prec width : Int64)
  (forceDP printSign padSign padRight padZero : Bool) (start : Int64)

theorem k4loop_eq (prec' : Int64) (buf : Go.Bytes) (i : Int64) :
    k4loop d width printSign padSign padRight padZero start prec' buf i =
      k6 d width printSign padSign padRight padZero start
        (buf ++ Array.replicate (prec'.toInt - i.toInt).toNat 48) := by
  unfold k4loop
  rw [loop_up]
  rfl

theorem k3tail_eq (buf : Go.Bytes) (prec' dp' : Int64) (h39 : d.ndig.toInt ≤ 39)
    (hdp : 0 ≤ dp'.toInt) :
    k3tail d width printSign padSign padRight padZero start buf prec' dp' =
      k6 d width printSign padSign padRight padZero start (buf ++ tailB d prec' dp') := by
  unfold k3tail tailB
  split
  · rename_i h
    have h' : d.ndig > dp' := by simpa using h
    have h'' := (i64_gt_iff _ _).mp h'
    rw [if_pos h', vslice_eq d.dig (Go.idx dp') (Go.idx d.ndig) (by show 0 ≤ dp'.toInt; exact hdp)
        (by show dp'.toInt ≤ d.ndig.toInt; omega) (by show d.ndig.toInt ≤ 39; omega)]
    show k4loop _ _ _ _ _ _ _ _ _ _ = _
    rw [k4loop_eq]
    apply k6_congr
    show (_ ++ digB d.dig dp'.toInt.toNat d.ndig.toInt.toNat ++ _).toList = _
    simp
  · rename_i h
    have h' : ¬ d.ndig > dp' := by simpa using h
    rw [if_neg h', k4loop_eq, i64_zero]

theorem k3_eq (buf : Go.Bytes) (h39 : d.ndig.toInt ≤ 39)
    (dp : Int64) (hdp : dp = dpOf d) :
    k3 d prec width forceDP printSign padSign padRight padZero start buf dp =
      k6 d width printSign padSign padRight padZero start (buf ++ fracB d prec forceDP) := by
  unfold k3 fracB
  rw [← hdp]
  split
  · rename_i h
    have h' : prec > 0 := by simpa using h
    have hside : 0 ≤ (if dp < 0 then 0 else dp).toInt := by
      split
      · rw [i64_zero]
      · rename_i h2
        rw [i64_lt_iff, i64_zero] at h2; omega
    rw [if_pos h', loop_dp]
    show k3tail _ _ _ _ _ _ _ _ (if dp < 0 then prec + dp else prec) (if dp < 0 then 0 else dp) = _
    rw [k3tail_eq _ _ _ _ _ _ _ _ _ _ h39 hside]
    arrF
  · rename_i h
    have h' : ¬ prec > 0 := by simpa using h
    rw [if_neg h']
    cases forceDP <;> arrF

theorem k2_eq (buf : Go.Bytes) (h0 : 0 ≤ d.ndig.toInt) (h39 : d.ndig.toInt ≤ 39) :
    k2 d prec width forceDP printSign padSign padRight padZero start buf =
      k6 d width printSign padSign padRight padZero start (buf ++ intB d ++ fracB d prec forceDP) := by
  unfold k2 intB
  split
  · rename_i h
    rw [k3_eq _ _ _ _ _ _ _ _ _ _ h39 _ (by unfold dpOf; rw [if_pos h])]
    arrF
  · rename_i h
    have hdp : d.ndig + d.exp = dpOf d := by unfold dpOf; rw [if_neg h]
    split
    · rename_i h1
      have h1' : d.ndig + d.exp > 0 := by simpa using h1
      have h1'' := (i64_gt_iff _ _).mp h1'
      rw [i64_zero] at h1''
      rw [if_pos h1']
      split
      · rename_i h2
        have h2' : d.ndig > d.ndig + d.exp := by simpa using h2
        have h2'' := (i64_gt_iff _ _).mp h2'
        rw [if_pos h2', vslice_eq d.dig 0 _ (Int.le_refl _)
          (by show 0 ≤ (d.ndig + d.exp).toInt; omega) (by show (d.ndig + d.exp).toInt ≤ 39; omega)]
        show k3 _ _ _ _ _ _ _ _ _ _ _ = _
        rw [k3_eq _ _ _ _ _ _ _ _ _ _ h39 _ hdp]
        rfl
      · rename_i h2
        have h2' : ¬ d.ndig > d.ndig + d.exp := by simpa using h2
        rw [if_neg h2', vslice_eq d.dig 0 _ (Int.le_refl _)
          (by show 0 ≤ d.ndig.toInt; omega) (by show d.ndig.toInt ≤ 39; omega)]
        show (do
          let __s ← forIn Lean.Loop.mk (buf ++ digB d.dig 0 d.ndig.toInt.toNat, d.ndig + d.exp - d.ndig) _
          let __s ← forIn Lean.Loop.mk (__s.fst, __s.snd) _
          k3 d prec width forceDP printSign padSign padRight padZero start __s.fst (d.ndig + d.exp)) = _
        rw [loop_down3]
        show (do
          let __s ← forIn Lean.Loop.mk (_, _) _
          k3 d prec width forceDP printSign padSign padRight padZero start __s.fst (d.ndig + d.exp)) = _
        rw [loop_down1]
        show k3 _ _ _ _ _ _ _ _ _ _ _ = _
        rw [k3_eq _ _ _ _ _ _ _ _ _ _ h39 _ hdp]
        apply k6_congr
        generalize d.ndig + d.exp - d.ndig = i
        have : 3 * (i.toInt.toNat / 3) + (if i > 2 then Int64.ofInt (i.toInt % 3) else i).toInt.toNat
            = i.toInt.toNat := by
          split
          · rename_i h3
            rw [i64_gt_iff, i64_two] at h3
            rw [Int64.toInt_ofInt]
            have := i.toInt_lt
            show _ + (Int.bmod _ (2 ^ 64)).toNat = _
            rw [Dg.bmod64 _ (by omega) (by omega)]; omega
          · rename_i h3
            rw [i64_gt_iff, i64_two] at h3
            omega
        simp only [Array.toList_append, Array.toList_replicate, List.append_assoc,
          List.replicate_append_replicate, this]
    · rename_i h1
      have h1' : ¬ d.ndig + d.exp > 0 := by simpa using h1
      rw [if_neg h1', k3_eq _ _ _ _ _ _ _ _ _ _ h39 _ hdp]
      arrF

theorem k0_eq (buf : Go.Bytes) (h0 : 0 ≤ d.ndig.toInt) (h39 : d.ndig.toInt ≤ 39) :
    k0 d prec width forceDP printSign padSign padRight padZero buf =
      k6 d width printSign padSign padRight padZero (Go.len buf)
        (buf ++ fBytes d prec forceDP printSign padSign) := by
  unfold k0 fBytes signB
  cases d.neg <;> cases printSign <;> cases padSign <;>
    simp only [k2_eq _ _ _ _ _ _ _ _ _ _ h0 h39, if_true, if_false, Bool.false_eq_true] <;> arrF

theorem k6_nop (buf X : Go.Bytes) (hw0 : 0 ≤ width.toInt) (hsz : buf.size + X.size < 2 ^ 63)
    (hw : width.toInt ≤ X.size) :
    k6 d width printSign padSign padRight padZero (Go.len buf) (buf ++ X) = .ok (d, buf ++ X) :=
  E.k6_nop d width printSign padSign padRight padZero buf X hw0 hsz hw

end

/-- **`fmtF`, byte level**: without padding (`width` at most the length of the emitted text) `fmtF`
appends exactly `fBytes`: sign, integer part, fraction.  No panic, all loops terminate.  Holds for every
precision (a non-positive one means "no fraction digits"). -/
theorem fmtF_bytes (d : Gen.digits) (buf : Go.Bytes) (prec width : Int64)
    (forceDP printSign padSign padRight padZero : Bool)
    (h0 : 0 ≤ d.ndig.toInt) (h39 : d.ndig.toInt ≤ 39) (hw0 : 0 ≤ width.toInt)
    (hsz : buf.size + (fBytes d prec forceDP printSign padSign).size < 2 ^ 63)
    (hw : width.toInt ≤ (fBytes d prec forceDP printSign padSign).size) :
    Gen.digits.fmtF d buf prec width forceDP printSign padSign padRight padZero =
      .ok (d, buf ++ fBytes d prec forceDP printSign padSign) := by
  rw [fmtF_eq]
  unfold kA
  rw [len_beq_zero buf (by omega)]
  by_cases hb : buf.size = 0
  · have hbuf : buf = #[] := Array.eq_empty_of_size_eq_zero hb
    have hk : k0 d prec width forceDP printSign padSign padRight padZero #[] =
        .ok (d, buf ++ fBytes d prec forceDP printSign padSign) := by
      rw [← hbuf, k0_eq _ _ _ _ _ _ _ _ _ h0 h39, k6_nop _ _ _ _ _ _ _ _ hw0 hsz hw]
    rw [if_pos (by simp [hb]), makeBytes_zero _ (by show 0 ≤ width.toInt; exact hw0)]
    split
    · exact hk
    · rename_i h
      have h' : ¬ width > 2 + d.ndig + d.exp := by simpa using h
      rw [i64_gt_iff] at h'
      rw [makeBytes_zero _ (by show 0 ≤ (2 + d.ndig + d.exp).toInt; omega)]
      exact hk
  · rw [if_neg (by simp [hb])]
    rw [k0_eq _ _ _ _ _ _ _ _ _ h0 h39, k6_nop _ _ _ _ _ _ _ _ hw0 hsz hw]

end F
end Emit
