/-
  D128.Proofs.WordsWidePow10 — item 8: the table of powers of ten and `uint192.log10`.

  * `uint192PowersOf10_toNat : i < 58 → (Gen.uint192PowersOf10[i]).toNat = 10^i`
  * `uint192PowersOf10_vget  : 0 ≤ i < 58 → ∃ v, Go.vget Gen.uint192PowersOf10 i = .ok v ∧ v.toNat = 10^i.toNat`
  * `Len64_spec`             : x ≠ 0 → ∃ L, Len64 x = Int64.ofNat L ∧ 1 ≤ L ≤ 64 ∧ 2^(L-1) ≤ x.toNat < 2^L
  * `log10_estimate192`, `log10_estimate192_bounds` (bit length → decimal length estimate, L ≤ 192)
  * `U192_log10_eq   : Gen.U192.log10 n = .ok (Int64.ofNat (Nat.log 10 n.toNat))`   (all n; never panics)
  * `U192_log10_spec : ∃ k ≤ 57, log10 n = .ok (Int64.ofNat k) ∧ (Int64.ofNat k).toInt = k ∧
                         (n.toNat = 0 → k = 0) ∧ (n.toNat ≠ 0 → 10^k ≤ n.toNat < 10^(k+1))`
  * `U192_log10_triple` : the `@[spec]` Hoare triple.
  (Structure adapted from the 128-bit proof in `Words128Log.lean`; self-contained.)
-/
import Mathlib.Data.Nat.Log
import Mathlib.Tactic.IntervalCases
import D128.Proofs.WordsWide

set_option autoImplicit false
set_option maxRecDepth 8192
set_option exponentiation.threshold 512
set_option mvcgen.warning false

namespace D128.Proofs.WordsWide

open Std.Do

/-! ## 8. the table of powers of ten and `log10` -/

theorem uint192PowersOf10_toNat (i : Nat) (h : i < 58) :
    (Gen.uint192PowersOf10[i]).toNat = 10^i := by
  interval_cases i <;>
    simp only [Gen.uint192PowersOf10, Vector.getElem_mk, List.getElem_toArray,
      List.getElem_cons_zero, List.getElem_cons_succ, U192.toNat, UInt64.toNat_ofNat,
      Nat.reducePow, Nat.reduceMod, Nat.reduceMul, Nat.reduceAdd]

/-- indexing the table with an in-range Go index never panics. -/
theorem uint192PowersOf10_vget (i : Int) (h0 : 0 ≤ i) (h1 : i < 58) :
    ∃ v, Go.vget Gen.uint192PowersOf10 i = .ok v ∧ v.toNat = 10^i.toNat := by
  have hi : i.toNat < 58 := by omega
  refine ⟨Gen.uint192PowersOf10[i.toNat], ?_, uint192PowersOf10_toNat _ hi⟩
  simp only [Go.vget, h0, hi, and_self, dif_pos]
  rfl

/-- `bits.Len64 x` is the bit length of `x`. -/
theorem Len64_spec (x : UInt64) (hx : x ≠ 0) :
    ∃ L : Nat, Go.bits.Len64 x = Int64.ofNat L ∧ 1 ≤ L ∧ L ≤ 64 ∧
      2^(L-1) ≤ x.toNat ∧ x.toNat < 2^L := by
  have hx' : x.toNat ≠ 0 := by
    intro h; apply hx; exact UInt64.toNat_inj.mp (by simpa using h)
  refine ⟨x.toNat.log2 + 1, ?_, by omega, ?_, ?_, Nat.lt_log2_self⟩
  · simp [Go.bits.Len64, hx]
  · have : x.toNat.log2 < 64 := (Nat.log2_lt hx').mpr x.toNat_lt
    omega
  · simpa using Nat.log2_self_le hx'

/-- the estimate `⌊L·1233/4096⌋` as computed in `int64`, for bit lengths up to 192. -/
theorem log10_estimate192 (L : Nat) (h1 : 1 ≤ L) (h2 : L ≤ 192) :
    Go.shr (Int64.ofNat L * 1233) (12 : Int) = Int64.ofNat (L * 1233 / 4096) := by
  interval_cases L <;> decide

/-- `⌊L·1233/4096⌋` is `⌊log10 2^L⌋` or one more than `⌊log10 2^(L-1)⌋`, for `L ≤ 192` —
what makes one correction step enough. -/
theorem log10_estimate192_bounds (L : Nat) (h1 : 1 ≤ L) (h2 : L ≤ 192) :
    L * 1233 / 4096 ≤ 57 ∧ 2^L ≤ 10^(L * 1233 / 4096 + 1) ∧
      10^(L * 1233 / 4096) ≤ 10 * 2^(L-1) := by
  interval_cases L <;> simp only [Nat.reduceMul, Nat.reduceDiv, Nat.reduceAdd, Nat.reduceSub,
    Nat.reducePow, Nat.reduceLeDiff, and_self]

theorem Int64_toInt_ofNat_small (k : Nat) (h : k ≤ 4096) : (Int64.ofNat k).toInt = k :=
  Int64.toInt_ofNat_of_lt (by omega)

/-- the common tail of `uint192.log10`: estimate from the bit length `L`, one table lookup,
one correction. -/
theorem U192_log10_tail (n : U192) (L : Nat) (h1 : 1 ≤ L) (h2 : L ≤ 192)
    (hlo : 2^(L-1) ≤ n.toNat) (hhi : n.toNat < 2^L) (l2 : Int64) (hl2 : l2 = Int64.ofNat L) :
    (do
        let t_1 ← Go.vget Gen.uint192PowersOf10 (Go.idx (Go.shr (l2 * 1233) 12))
        if Gen.U192.cmp n t_1 < 0 then pure (Go.shr (l2 * 1233) 12 - 1)
          else pure (Go.shr (l2 * 1233) 12) : Go.GoM Int64)
      = .ok (Int64.ofNat (Nat.log 10 n.toNat)) := by
  subst hl2
  obtain ⟨ht, hup, hdn⟩ := log10_estimate192_bounds L h1 h2
  rw [log10_estimate192 L h1 h2]
  generalize L * 1233 / 4096 = t at *
  have hidx : Go.idx (Int64.ofNat t) = (t : Int) := Int64_toInt_ofNat_small t (by omega)
  obtain ⟨v, hv, hvn⟩ := uint192PowersOf10_vget (t : Int) (by omega) (by omega)
  rw [hidx, hv]
  simp only [bind, Except.bind, U192_cmp_lt_zero, hvn, Int.toNat_natCast]
  have hn1 : 1 ≤ n.toNat := Nat.le_trans (Nat.one_le_two_pow) hlo
  by_cases hc : n.toNat < 10^t
  · rw [if_pos hc]
    have ht1 : 1 ≤ t := by
      rcases Nat.eq_zero_or_pos t with rfl | h
      · simp at hc; omega
      · exact h
    have e : Nat.log 10 n.toNat = t - 1 := by
      apply Nat.log_eq_of_pow_le_of_lt_pow
      · have : 10^t = 10 * 10^(t-1) := by
          conv_lhs => rw [show t = (t - 1) + 1 by omega, Nat.pow_succ, Nat.mul_comm]
        omega
      · rw [show t - 1 + 1 = t by omega]; exact hc
    rw [e, Int64.ofNat_sub _ _ ht1]
    rfl
  · rw [if_neg hc]
    have e : Nat.log 10 n.toNat = t := by
      apply Nat.log_eq_of_pow_le_of_lt_pow
      · omega
      · omega
    rw [e]; rfl

theorem U192_log10_eq (n : U192) :
    Gen.U192.log10 n = .ok (Int64.ofNat (Nat.log 10 n.toNat)) := by
  unfold Gen.U192.log10
  simp only [bne_iff_ne, ne_eq, ite_not, decide_eq_true_eq]
  have hw0 := n.w0.toNat_lt
  have hw1 := n.w1.toNat_lt
  by_cases hw2 : n.w2 = 0
  · rw [if_pos hw2]
    by_cases hw1z : n.w1 = 0
    · rw [if_pos hw1z]
      by_cases hw0z : n.w0 = 0
      · rw [if_pos hw0z]
        have : n.toNat = 0 := by simp [U192.toNat, hw2, hw1z, hw0z]
        rw [this]; rfl
      · rw [if_neg hw0z]
        obtain ⟨L, hL, h1, h2, hlo, hhi⟩ := Len64_spec n.w0 hw0z
        have hn : n.toNat = n.w0.toNat := by simp [U192.toNat, hw2, hw1z]
        exact U192_log10_tail n L h1 (by omega) (by rw [hn]; exact hlo) (by rw [hn]; exact hhi)
          _ hL
    · rw [if_neg hw1z]
      obtain ⟨L, hL, h1, h2, hlo, hhi⟩ := Len64_spec n.w1 hw1z
      have hL' : Go.bits.Len64 n.w1 + 64 = Int64.ofNat (L + 64) := by
        rw [Int64.ofNat_add, hL]; rfl
      have hn : n.toNat = n.w0.toNat + n.w1.toNat * 2^64 := by simp [U192.toNat, hw2]
      refine U192_log10_tail n (L + 64) (by omega) (by omega) ?_ ?_ _ hL'
      · have : L + 64 - 1 = (L - 1) + 64 := by omega
        rw [this, Nat.pow_add]
        have := Nat.mul_le_mul_right (2^64) hlo
        rw [hn]; omega
      · rw [Nat.pow_add]
        have : (n.w1.toNat + 1) * 2^64 ≤ 2^L * 2^64 := Nat.mul_le_mul_right _ hhi
        rw [hn]; omega
  · rw [if_neg hw2]
    obtain ⟨L, hL, h1, h2, hlo, hhi⟩ := Len64_spec n.w2 hw2
    have hL' : Go.bits.Len64 n.w2 + 128 = Int64.ofNat (L + 128) := by
      rw [Int64.ofNat_add, hL]; rfl
    refine U192_log10_tail n (L + 128) (by omega) (by omega) ?_ ?_ _ hL'
    · have : L + 128 - 1 = (L - 1) + 128 := by omega
      rw [this, Nat.pow_add]
      have := Nat.mul_le_mul_right (2^128) hlo
      simp only [U192.toNat]; omega
    · rw [Nat.pow_add]
      have : (n.w2.toNat + 1) * 2^128 ≤ 2^L * 2^128 := Nat.mul_le_mul_right _ hhi
      simp only [U192.toNat]; omega

theorem Nat_log10_le_57_of_lt (m : Nat) (h : m < 2^192) : Nat.log 10 m ≤ 57 := by
  have : Nat.log 10 m < 58 := by
    apply Nat.log_lt_of_lt_pow' (by omega)
    exact Nat.lt_trans h (by norm_num)
  omega

/-- `uint192.log10` never panics; the result `k` is `0` for `n = 0` and otherwise the unique
`k` with `10^k ≤ n < 10^(k+1)`; `0 ≤ k ≤ 57`. -/
theorem U192_log10_spec (n : U192) :
    ∃ k : Nat, k ≤ 57 ∧ Gen.U192.log10 n = .ok (Int64.ofNat k) ∧ (Int64.ofNat k).toInt = k ∧
      (n.toNat = 0 → k = 0) ∧ (n.toNat ≠ 0 → 10^k ≤ n.toNat ∧ n.toNat < 10^(k+1)) := by
  have hk := Nat_log10_le_57_of_lt n.toNat (U192.toNat_lt n)
  refine ⟨Nat.log 10 n.toNat, hk, U192_log10_eq n, Int64_toInt_ofNat_small _ (by omega), ?_, ?_⟩
  · intro h; rw [h]; simp
  · intro h
    exact ⟨Nat.pow_log_le_self 10 h, Nat.lt_pow_succ_log_self (by omega) _⟩

@[spec] theorem U192_log10_triple (n : U192) :
    ⦃⌜True⌝⦄ Gen.U192.log10 n
    ⦃⇓ l => ⌜0 ≤ l.toInt ∧ l.toInt ≤ 57 ∧ (n.toNat = 0 → l = 0) ∧
      (n.toNat ≠ 0 → 10^l.toInt.toNat ≤ n.toNat ∧ n.toNat < 10^(l.toInt.toNat+1))⌝⦄ := by
  obtain ⟨k, hk, e, hi, h0, h1⟩ := U192_log10_spec n
  refine triple_of_eq e ⟨by omega, by omega, ?_, ?_⟩
  · intro h; rw [h0 h]; rfl
  · intro h; rw [hi]; simpa using h1 h

end D128.Proofs.WordsWide
