/-
  D128/Proofs/D192RootHalley.lean — convergence of the seven (perturbed) Halley steps of `Gen.Cbrt`, over ℚ
  and without cube roots, and its connection to the final-step theorem.

  With `u = a/x³` the exact Halley step `x' = x(x³+2a)/(2x³+a)` maps the defect `δ = 1 - u` to
  `δ³(2-δ)/(3-2δ)³` (identity `u(2+u)³ = (1+2u)³ + (u-1)³(u+1)`): cubic convergence from both sides.

  Provided (namespace `Root`):
  * `psiP_mono`, `psiM_mono` : monotonicity of `δ ↦ δ³(2-δ)/(3-2δ)³` on [0,B] and of `s ↦ s³(2+s)/(3+2s)³`
  * `halley_step_u`, `halley_step` : one step.  If `a/x³ ∈ [1-B, 1+S]` and `x'` is within relative `η` of the
       exact step (`(1-η)·x(x³+2a) ≤ x'(2x³+a) ≤ (1+η)·x(x³+2a)`), then `a/x'³ ∈ [1-B', 1+S']` whenever
       `ψ₊(B) ≤ β`, `(1-B')(1+η)³ ≤ 1-β`, `ψ₋(S) ≤ σ`, `1+σ ≤ (1+S')(1-η)³`
  * `eta_up`, `eta_dn`, `hB'_of`, `hS'_of` : the perturbation bookkeeping
  * `halley7`      : seven steps from a start value with `a/100 ≤ x₀³ ≤ 100a` (what `Cbrt`'s start value
       `c·10^(e-(x-x/3))` guarantees: ratio to the root in [0.215, 4.65)): `a/x₇³ ∈ [1-4η-1e-130, 1+4η+1e-148]`
  * `bridge_cube`  : relative closeness ⇒ the absolute hypotheses `((N∓a)P)³ ≤/≥ X` of the final-step theorems
  * `cbrt_of_rel`, `cbrt_of_halley` : `Gen.Cbrt` is accepted by `Spec.rootOk 3` given relative closeness of the
       last iterate resp. per-step accuracy `η ≤ 1e-55` of the seven iterates
  * `cbrtStartExp`, `cbrt_start_ok`, `cbrtCore_start_ok` : the start value `c·10^(e-(x-x/3))` of `Cbrt` satisfies
       the start condition of `halley7` (`x₀³/100 ≤ c·10^e ≤ 100·x₀³`), for every finite non-zero argument
  What remains for an unconditional C17(Cbrt): derive the per-step facts (and the start condition from
  `cbrtCore_spec`) from the contracts of `decomposed192.mul/add/quo`.
-/
import D128.Proofs.D192RootFinish
import D128.Proofs.D192RootCore
set_option autoImplicit false
set_option maxRecDepth 4096
set_option linter.unusedVariables false
namespace Root
open Gen
local notation "𝔳[" d "]" => Spec.interp (Gen.Decimal.lo d) (Gen.Decimal.hi d)

/-- monotonicity of `δ ↦ δ³(2-δ)/(3-2δ)³` on `[0, B]`, `B < 3/2`, cross-multiplied -/
theorem psiP_mono (δ B : ℚ) (h0 : 0 ≤ δ) (h1 : δ ≤ B) (hB : B < 3 / 2) :
    δ ^ 3 * (2 - δ) * (3 - 2 * B) ^ 3 ≤ B ^ 3 * (2 - B) * (3 - 2 * δ) ^ 3 := by
  -- p = 3-2δ ≥ q = 3-2B > 0 ; (p+1) q³ ≤ (q+1) p³
  have hq : 0 < 3 - 2 * B := by linarith
  have hpq : 3 - 2 * B ≤ 3 - 2 * δ := by linarith
  have hp : 0 < 3 - 2 * δ := by linarith
  have hcub : (3 - 2 * B) ^ 3 ≤ (3 - 2 * δ) ^ 3 := pow_le_pow_left₀ hq.le hpq 3
  have hsq : (3 - 2 * B) ^ 2 ≤ (3 - 2 * δ) ^ 2 := pow_le_pow_left₀ hq.le hpq 2
  have key : (2 - δ) * (3 - 2 * B) ^ 3 ≤ (2 - B) * (3 - 2 * δ) ^ 3 := by
    -- with p, q: ((p+1)/2) q³ ≤ ((q+1)/2) p³  ⟸  p q (p² - q²) + (p³ - q³) ≥ 0
    have e1 : (2 - δ) = ((3 - 2 * δ) + 1) / 2 := by ring
    have e2 : (2 - B) = ((3 - 2 * B) + 1) / 2 := by ring
    rw [e1, e2]
    generalize 3 - 2 * δ = p at *
    generalize 3 - 2 * B = q at *
    have h1' : 0 ≤ p * q * (p ^ 2 - q ^ 2) := mul_nonneg (mul_nonneg hp.le hq.le) (by linarith)
    have h2' : 0 ≤ p ^ 3 - q ^ 3 := by linarith
    have e : (q + 1) / 2 * p ^ 3 - (p + 1) / 2 * q ^ 3 = (p * q * (p ^ 2 - q ^ 2) + (p ^ 3 - q ^ 3)) / 2 := by
      ring
    linarith
  have hd3 : δ ^ 3 ≤ B ^ 3 := pow_le_pow_left₀ h0 h1 3
  have h2B : 0 ≤ 2 - B := by linarith
  calc δ ^ 3 * (2 - δ) * (3 - 2 * B) ^ 3 = δ ^ 3 * ((2 - δ) * (3 - 2 * B) ^ 3) := by ring
    _ ≤ δ ^ 3 * ((2 - B) * (3 - 2 * δ) ^ 3) := mul_le_mul_of_nonneg_left key (pow_nonneg h0 3)
    _ ≤ B ^ 3 * ((2 - B) * (3 - 2 * δ) ^ 3) :=
        mul_le_mul_of_nonneg_right hd3 (mul_nonneg h2B (pow_nonneg hp.le 3))
    _ = B ^ 3 * (2 - B) * (3 - 2 * δ) ^ 3 := by ring

/-- monotonicity of `s ↦ s³(2+s)/(3+2s)³` on `[0, S]`, cross-multiplied -/
theorem psiM_mono (s S : ℚ) (h0 : 0 ≤ s) (h1 : s ≤ S) :
    s ^ 3 * (2 + s) * (3 + 2 * S) ^ 3 ≤ S ^ 3 * (2 + S) * (3 + 2 * s) ^ 3 := by
  have hS0 : 0 ≤ S := le_trans h0 h1
  have h3 : s * (3 + 2 * S) ≤ S * (3 + 2 * s) := by nlinarith
  have h4 : (s * (3 + 2 * S)) ^ 3 ≤ (S * (3 + 2 * s)) ^ 3 :=
    pow_le_pow_left₀ (mul_nonneg h0 (by linarith)) h3 3
  calc s ^ 3 * (2 + s) * (3 + 2 * S) ^ 3 = (s * (3 + 2 * S)) ^ 3 * (2 + s) := by ring
    _ ≤ (S * (3 + 2 * s)) ^ 3 * (2 + s) := mul_le_mul_of_nonneg_right h4 (by linarith)
    _ ≤ (S * (3 + 2 * s)) ^ 3 * (2 + S) :=
        mul_le_mul_of_nonneg_left (by linarith) (pow_nonneg (mul_nonneg hS0 (by linarith)) 3)
    _ = S ^ 3 * (2 + S) * (3 + 2 * s) ^ 3 := by ring

/-- One perturbed Halley step for the cube root, in terms of `u = a/x³`, `v = a/x'³`. -/
theorem halley_step_u (u v η B S β σ B' S' : ℚ) (hu : 0 < u) (hv : 0 < v)
    (hη0 : 0 ≤ η) (hη1 : η ≤ 1 / 100)
    (hB0 : 0 ≤ B) (hB1 : B < 1) (hS0 : 0 ≤ S)
    (hlo : 1 - B ≤ u) (hhi : u ≤ 1 + S)
    (hr1 : (1 - η) ^ 3 * (1 + 2 * u) ^ 3 * v ≤ u * (2 + u) ^ 3)
    (hr2 : u * (2 + u) ^ 3 ≤ (1 + η) ^ 3 * (1 + 2 * u) ^ 3 * v)
    (hβ : B ^ 3 * (2 - B) ≤ β * (3 - 2 * B) ^ 3) (hσ : S ^ 3 * (2 + S) ≤ σ * (3 + 2 * S) ^ 3)
    (hB' : (1 - B') * (1 + η) ^ 3 ≤ 1 - β) (hS' : 1 + σ ≤ (1 + S') * (1 - η) ^ 3) :
    1 - B' ≤ v ∧ v ≤ 1 + S' := by
  have hw : 0 < (1 + 2 * u) ^ 3 := pow_pos (by linarith) 3
  have h1η : 0 < (1 - η) ^ 3 := pow_pos (by linarith) 3
  have h1η' : 0 < (1 + η) ^ 3 := pow_pos (by linarith) 3
  have hβ0 : 0 ≤ β := by
    have h3 : 0 < (3 - 2 * B) ^ 3 := pow_pos (by linarith) 3
    by_contra hcon
    have : β * (3 - 2 * B) ^ 3 < 0 := mul_neg_of_neg_of_pos (not_le.1 hcon) h3
    have : 0 ≤ B ^ 3 * (2 - B) := mul_nonneg (pow_nonneg hB0 3) (by linarith)
    linarith
  have hσ0 : 0 ≤ σ := by
    have h3 : 0 < (3 + 2 * S) ^ 3 := pow_pos (by linarith) 3
    by_contra hcon
    have : σ * (3 + 2 * S) ^ 3 < 0 := mul_neg_of_neg_of_pos (not_le.1 hcon) h3
    have : 0 ≤ S ^ 3 * (2 + S) := mul_nonneg (pow_nonneg hS0 3) (by linarith)
    linarith
  -- identity u(2+u)³ = (1+2u)³ + s³(2+s), s = u - 1
  have hid : u * (2 + u) ^ 3 = (1 + 2 * u) ^ 3 + (u - 1) ^ 3 * (2 + (u - 1)) := by ring
  constructor
  · -- lower bound on v
    have hlow : (1 - β) * (1 + 2 * u) ^ 3 ≤ u * (2 + u) ^ 3 := by
      rcases le_total u 1 with h | h
      · -- δ = 1 - u ∈ [0, B]
        have hm := psiP_mono (1 - u) B (by linarith) (by linarith) (by linarith)
        have e3 : 3 - 2 * (1 - u) = 1 + 2 * u := by ring
        have e2 : 2 - (1 - u) = 1 + u := by ring
        rw [e3, e2] at hm
        have h3 : 0 < (3 - 2 * B) ^ 3 := pow_pos (by linarith) 3
        have h5 : (1 - u) ^ 3 * (1 + u) * (3 - 2 * B) ^ 3 ≤ (β * (1 + 2 * u) ^ 3) * (3 - 2 * B) ^ 3 := by
          calc (1 - u) ^ 3 * (1 + u) * (3 - 2 * B) ^ 3 ≤ B ^ 3 * (2 - B) * (1 + 2 * u) ^ 3 := hm
            _ ≤ (β * (3 - 2 * B) ^ 3) * (1 + 2 * u) ^ 3 := mul_le_mul_of_nonneg_right hβ hw.le
            _ = (β * (1 + 2 * u) ^ 3) * (3 - 2 * B) ^ 3 := by ring
        have h6 : (1 - u) ^ 3 * (1 + u) ≤ β * (1 + 2 * u) ^ 3 := le_of_mul_le_mul_right h5 h3
        have e : (u - 1) ^ 3 * (2 + (u - 1)) = -((1 - u) ^ 3 * (1 + u)) := by ring
        rw [hid, e]
        have e' : (1 - β) * (1 + 2 * u) ^ 3 = (1 + 2 * u) ^ 3 - β * (1 + 2 * u) ^ 3 := by ring
        rw [e']; linarith
      · have : 0 ≤ (u - 1) ^ 3 * (2 + (u - 1)) :=
          mul_nonneg (pow_nonneg (by linarith) 3) (by linarith)
        have e' : (1 - β) * (1 + 2 * u) ^ 3 = (1 + 2 * u) ^ 3 - β * (1 + 2 * u) ^ 3 := by ring
        have : 0 ≤ β * (1 + 2 * u) ^ 3 := mul_nonneg hβ0 hw.le
        rw [hid, e']; linarith
    -- (1+η)³ (1+2u)³ v ≥ (1-β)(1+2u)³ ≥ (1-B')(1+η)³ (1+2u)³
    have h7 : ((1 - B') * (1 + η) ^ 3) * (1 + 2 * u) ^ 3 ≤ ((1 + η) ^ 3 * v) * (1 + 2 * u) ^ 3 := by
      calc ((1 - B') * (1 + η) ^ 3) * (1 + 2 * u) ^ 3 ≤ (1 - β) * (1 + 2 * u) ^ 3 :=
            mul_le_mul_of_nonneg_right hB' hw.le
        _ ≤ u * (2 + u) ^ 3 := hlow
        _ ≤ (1 + η) ^ 3 * (1 + 2 * u) ^ 3 * v := hr2
        _ = ((1 + η) ^ 3 * v) * (1 + 2 * u) ^ 3 := by ring
    have h8 : (1 - B') * (1 + η) ^ 3 ≤ (1 + η) ^ 3 * v := le_of_mul_le_mul_right h7 hw
    have h9 : (1 + η) ^ 3 * (1 - B') ≤ (1 + η) ^ 3 * v := by rw [mul_comm]; exact h8
    exact le_of_mul_le_mul_left h9 h1η'
  · -- upper bound on v
    have hupp : u * (2 + u) ^ 3 ≤ (1 + σ) * (1 + 2 * u) ^ 3 := by
      rcases le_total u 1 with h | h
      · have : (u - 1) ^ 3 * (2 + (u - 1)) ≤ 0 := by
          have e : (u - 1) ^ 3 * (2 + (u - 1)) = -((1 - u) ^ 3 * (1 + u)) := by ring
          rw [e]
          have : 0 ≤ (1 - u) ^ 3 * (1 + u) := mul_nonneg (pow_nonneg (by linarith) 3) (by linarith)
          linarith
        have e' : (1 + σ) * (1 + 2 * u) ^ 3 = (1 + 2 * u) ^ 3 + σ * (1 + 2 * u) ^ 3 := by ring
        have : 0 ≤ σ * (1 + 2 * u) ^ 3 := mul_nonneg hσ0 hw.le
        rw [hid, e']; linarith
      · have hm := psiM_mono (u - 1) S (by linarith) (by linarith)
        have e3 : 3 + 2 * (u - 1) = 1 + 2 * u := by ring
        rw [e3] at hm
        have h3 : 0 < (3 + 2 * S) ^ 3 := pow_pos (by linarith) 3
        have h5 : (u - 1) ^ 3 * (2 + (u - 1)) * (3 + 2 * S) ^ 3 ≤ (σ * (1 + 2 * u) ^ 3) * (3 + 2 * S) ^ 3 := by
          calc (u - 1) ^ 3 * (2 + (u - 1)) * (3 + 2 * S) ^ 3 ≤ S ^ 3 * (2 + S) * (1 + 2 * u) ^ 3 := hm
            _ ≤ (σ * (3 + 2 * S) ^ 3) * (1 + 2 * u) ^ 3 := mul_le_mul_of_nonneg_right hσ hw.le
            _ = (σ * (1 + 2 * u) ^ 3) * (3 + 2 * S) ^ 3 := by ring
        have h6 : (u - 1) ^ 3 * (2 + (u - 1)) ≤ σ * (1 + 2 * u) ^ 3 := le_of_mul_le_mul_right h5 h3
        have e' : (1 + σ) * (1 + 2 * u) ^ 3 = (1 + 2 * u) ^ 3 + σ * (1 + 2 * u) ^ 3 := by ring
        rw [hid, e']; linarith
    have h7 : ((1 - η) ^ 3 * v) * (1 + 2 * u) ^ 3 ≤ ((1 + S') * (1 - η) ^ 3) * (1 + 2 * u) ^ 3 := by
      calc ((1 - η) ^ 3 * v) * (1 + 2 * u) ^ 3 = (1 - η) ^ 3 * (1 + 2 * u) ^ 3 * v := by ring
        _ ≤ u * (2 + u) ^ 3 := hr1
        _ ≤ (1 + σ) * (1 + 2 * u) ^ 3 := hupp
        _ ≤ ((1 + S') * (1 - η) ^ 3) * (1 + 2 * u) ^ 3 := mul_le_mul_of_nonneg_right hS' hw.le
    have h8 : (1 - η) ^ 3 * v ≤ (1 + S') * (1 - η) ^ 3 := le_of_mul_le_mul_right h7 hw
    have h9 : (1 - η) ^ 3 * v ≤ (1 - η) ^ 3 * (1 + S') := by rw [mul_comm _ (1 + S')]; exact h8
    exact le_of_mul_le_mul_left h9 h1η

/-- the Halley step lemma in terms of the iterates: `x' ≈ x·(x³+2a)/(2x³+a)` within relative `η`,
written without division. -/
theorem halley_step (a x x' η B S β σ B' S' : ℚ) (hx : 0 < x) (ha : 0 < a) (hx' : 0 < x')
    (hη0 : 0 ≤ η) (hη1 : η ≤ 1 / 100)
    (hB0 : 0 ≤ B) (hB1 : B < 1) (hS0 : 0 ≤ S)
    (h : (1 - B) * x ^ 3 ≤ a ∧ a ≤ (1 + S) * x ^ 3)
    (hs : (1 - η) * (x * (x ^ 3 + 2 * a)) ≤ x' * (2 * x ^ 3 + a) ∧
      x' * (2 * x ^ 3 + a) ≤ (1 + η) * (x * (x ^ 3 + 2 * a)))
    (hβ : B ^ 3 * (2 - B) ≤ β * (3 - 2 * B) ^ 3) (hσ : S ^ 3 * (2 + S) ≤ σ * (3 + 2 * S) ^ 3)
    (hB' : (1 - B') * (1 + η) ^ 3 ≤ 1 - β) (hS' : 1 + σ ≤ (1 + S') * (1 - η) ^ 3) :
    (1 - B') * x' ^ 3 ≤ a ∧ a ≤ (1 + S') * x' ^ 3 := by
  have hA : 0 < x ^ 3 := pow_pos hx 3
  have hY : 0 < x' ^ 3 := pow_pos hx' 3
  set A := x ^ 3 with hAdef
  set Y := x' ^ 3 with hYdef
  set u := a / A with hudef
  set v := a / Y with hvdef
  have hua : u * A = a := div_mul_cancel₀ a hA.ne'
  have hvy : v * Y = a := div_mul_cancel₀ a hY.ne'
  have hu : 0 < u := div_pos ha hA
  have hv : 0 < v := div_pos ha hY
  have hlo : 1 - B ≤ u := by rw [hudef, le_div_iff₀ hA]; exact h.1
  have hhi : u ≤ 1 + S := by rw [hudef, div_le_iff₀ hA]; exact h.2
  have hA4 : 0 < A ^ 4 := pow_pos hA 4
  have e1 : A + 2 * a = A * (1 + 2 * u) := by rw [← hua]; ring
  have e2 : 2 * A + a = A * (2 + u) := by rw [← hua]; ring
  have hpos1 : 0 ≤ (1 - η) * (x * (A + 2 * a)) :=
    mul_nonneg (by linarith) (mul_nonneg hx.le (by linarith))
  have hpos2 : 0 ≤ x' * (2 * A + a) := mul_nonneg hx'.le (by linarith)
  have c1 := pow_le_pow_left₀ hpos1 hs.1 3
  have c2 := pow_le_pow_left₀ hpos2 hs.2 3
  have l1 : ((1 - η) * (x * (A + 2 * a))) ^ 3 = A ^ 4 * ((1 - η) ^ 3 * (1 + 2 * u) ^ 3) := by
    rw [e1, hAdef]; ring
  have l2 : (x' * (2 * A + a)) ^ 3 = Y * (A ^ 3 * (2 + u) ^ 3) := by
    rw [e2, hYdef]; ring
  have l3 : ((1 + η) * (x * (A + 2 * a))) ^ 3 = A ^ 4 * ((1 + η) ^ 3 * (1 + 2 * u) ^ 3) := by
    rw [e1, hAdef]; ring
  rw [l1, l2] at c1
  rw [l2, l3] at c2
  -- multiply by v and use v·Y = u·A
  have m1 : A ^ 4 * ((1 - η) ^ 3 * (1 + 2 * u) ^ 3 * v) ≤ A ^ 4 * (u * (2 + u) ^ 3) := by
    have := mul_le_mul_of_nonneg_left c1 hv.le
    have e : v * (Y * (A ^ 3 * (2 + u) ^ 3)) = (v * Y) * (A ^ 3 * (2 + u) ^ 3) := by ring
    rw [e, hvy, ← hua] at this
    calc A ^ 4 * ((1 - η) ^ 3 * (1 + 2 * u) ^ 3 * v) = v * (A ^ 4 * ((1 - η) ^ 3 * (1 + 2 * u) ^ 3)) := by ring
      _ ≤ u * A * (A ^ 3 * (2 + u) ^ 3) := this
      _ = A ^ 4 * (u * (2 + u) ^ 3) := by ring
  have m2 : A ^ 4 * (u * (2 + u) ^ 3) ≤ A ^ 4 * ((1 + η) ^ 3 * (1 + 2 * u) ^ 3 * v) := by
    have := mul_le_mul_of_nonneg_left c2 hv.le
    have e : v * (Y * (A ^ 3 * (2 + u) ^ 3)) = (v * Y) * (A ^ 3 * (2 + u) ^ 3) := by ring
    rw [e, hvy, ← hua] at this
    calc A ^ 4 * (u * (2 + u) ^ 3) = u * A * (A ^ 3 * (2 + u) ^ 3) := by ring
      _ ≤ v * (A ^ 4 * ((1 + η) ^ 3 * (1 + 2 * u) ^ 3)) := this
      _ = A ^ 4 * ((1 + η) ^ 3 * (1 + 2 * u) ^ 3 * v) := by ring
  have hr1 := le_of_mul_le_mul_left m1 hA4
  have hr2 := le_of_mul_le_mul_left m2 hA4
  obtain ⟨g1, g2⟩ := halley_step_u u v η B S β σ B' S' hu hv hη0 hη1 hB0 hB1 hS0 hlo hhi hr1 hr2 hβ hσ
    hB' hS'
  constructor
  · have := mul_le_mul_of_nonneg_right g1 hY.le
    rw [hvy] at this; exact this
  · have := mul_le_mul_of_nonneg_right g2 hY.le
    rw [hvy] at this; exact this

theorem eta_up (η : ℚ) (h0 : 0 ≤ η) (h1 : η ≤ 1 / 100) : (1 + η) ^ 3 ≤ 1 + 4 * η := by
  have e : (1 + η) ^ 3 = 1 + 3 * η + η * (3 * η + η ^ 2) := by ring
  have h2 : 3 * η + η ^ 2 ≤ 1 := by nlinarith
  have h3 : η * (3 * η + η ^ 2) ≤ η * 1 := mul_le_mul_of_nonneg_left h2 h0
  rw [e]; linarith

theorem eta_dn (η : ℚ) (h0 : 0 ≤ η) (h1 : η ≤ 1) : 1 - 3 * η ≤ (1 - η) ^ 3 := by
  have e : (1 - η) ^ 3 = 1 - 3 * η + η ^ 2 * (3 - η) := by ring
  have : 0 ≤ η ^ 2 * (3 - η) := mul_nonneg (sq_nonneg _) (by linarith)
  rw [e]; linarith

/-- perturbation of the lower defect bound: `β + 4η ≤ B' ≤ 1` suffices -/
theorem hB'_of (η β B' : ℚ) (h0 : 0 ≤ η) (h1 : η ≤ 1 / 100) (hB'1 : B' ≤ 1) (hB'0 : 0 ≤ B')
    (h : β + 4 * η ≤ B') : (1 - B') * (1 + η) ^ 3 ≤ 1 - β := by
  have h2 := mul_le_mul_of_nonneg_left (eta_up η h0 h1) (show 0 ≤ 1 - B' by linarith)
  have h3 : (1 - B') * (4 * η) ≤ 1 * (4 * η) := mul_le_mul_of_nonneg_right (by linarith) (by linarith)
  have e : (1 - B') * (1 + 4 * η) = (1 - B') + (1 - B') * (4 * η) := by ring
  rw [e] at h2; linarith

/-- perturbation of the upper defect bound: `σ + 3η(1+S') ≤ S'` suffices -/
theorem hS'_of (η σ S' : ℚ) (h0 : 0 ≤ η) (h1 : η ≤ 1) (hS'0 : 0 ≤ S')
    (h : σ + 3 * η * (1 + S') ≤ S') : 1 + σ ≤ (1 + S') * (1 - η) ^ 3 := by
  have h2 := mul_le_mul_of_nonneg_left (eta_dn η h0 h1) (show 0 ≤ 1 + S' by linarith)
  have e : (1 + S') * (1 - 3 * η) = 1 + S' - 3 * η * (1 + S') := by ring
  rw [e] at h2; linarith

/-- **Seven perturbed Halley steps.**  `x 0` is a first guess with `a/100 ≤ x₀³ ≤ 100·a` (between 0.215 and
4.65 times the cube root: what `Cbrt`'s start value guarantees), every step is within relative `η ≤ 1e-50`
of the exact Halley step `x(x³+2a)/(2x³+a)` (written without division).  Then
`a/x₇³ ∈ [1 - 4η - 1e-130, 1 + 4η + 1e-148]`, i.e. `x₇` is within relative `≈ (4/3)η` of `∛a`.
Defect bounds from above 0.99 ↦ 0.94 ↦ 0.65 ↦ 0.08 ↦ 4.4e-5 ↦ 7e-15 ↦ 3e-44 ↦ 1e-130 and from below
99 ↦ 12.2 ↦ 1.3 ↦ 0.042 ↦ 5.3e-6 ↦ 1.2e-17 ↦ 1e-49 ↦ 1e-148: all seven steps are needed for 57 digits. -/
theorem halley7 (a η : ℚ) (x : ℕ → ℚ) (ha : 0 < a) (hx : ∀ n, n ≤ 7 → 0 < x n)
    (hη0 : 0 ≤ η) (hη : η ≤ 1 / 10 ^ 50)
    (hseed : (1 - 99 / 100) * x 0 ^ 3 ≤ a ∧ a ≤ (1 + 99) * x 0 ^ 3)
    (hstep : ∀ n, n < 7 → (1 - η) * (x n * (x n ^ 3 + 2 * a)) ≤ x (n + 1) * (2 * x n ^ 3 + a) ∧
      x (n + 1) * (2 * x n ^ 3 + a) ≤ (1 + η) * (x n * (x n ^ 3 + 2 * a))) :
    (1 - (1 / 10 ^ 130 + 4 * η)) * x 7 ^ 3 ≤ a ∧ a ≤ (1 + (1 / 10 ^ 148 + 4 * η)) * x 7 ^ 3 := by
  have hη1 : η ≤ 1 / 100 := le_trans hη (by norm_num)
  have hη1' : η ≤ 1 := le_trans hη (by norm_num)
  -- numeric perturbation helpers
  have nb : ∀ B' : ℚ, 0 ≤ B' → B' ≤ 1 → (1 - B') * (1 + η) ^ 3 ≤ 1 - (B' - 4 / 10 ^ 50) := fun B' h0 h1 =>
    hB'_of η _ B' hη0 hη1 h1 h0 (by linarith)
  have ns : ∀ S' K : ℚ, 0 ≤ S' → S' ≤ K →
      1 + (S' - 3 * (1 + K) / 10 ^ 50) ≤ (1 + S') * (1 - η) ^ 3 := fun S' K h0 hK =>
    hS'_of η _ S' hη0 hη1' h0 (by
      have h1 : 3 * η * (1 + S') ≤ 3 * (1 / 10 ^ 50) * (1 + K) :=
        mul_le_mul (by linarith) (by linarith) (by linarith) (by norm_num)
      have e : 3 * (1 + K) / 10 ^ 50 = 3 * (1 / 10 ^ 50) * (1 + K) := by ring
      rw [e]; linarith)
  have h1 := halley_step a (x 0) (x 1) η (99 / 100) 99 (94 / 100 - 4 / 10 ^ 50)
    (122 / 10 - 3 * (1 + 100) / 10 ^ 50) (94 / 100) (122 / 10)
    (hx 0 (by norm_num)) ha (hx 1 (by norm_num)) hη0 hη1 (by norm_num) (by norm_num) (by norm_num)
    hseed (hstep 0 (by norm_num)) (by norm_num) (by norm_num)
    (nb _ (by norm_num) (by norm_num)) (ns _ 100 (by norm_num) (by norm_num))
  have h2 := halley_step a (x 1) (x 2) η (94 / 100) (122 / 10) (65 / 100 - 4 / 10 ^ 50)
    (13 / 10 - 3 * (1 + 100) / 10 ^ 50) (65 / 100) (13 / 10)
    (hx 1 (by norm_num)) ha (hx 2 (by norm_num)) hη0 hη1 (by norm_num) (by norm_num) (by norm_num)
    h1 (hstep 1 (by norm_num)) (by norm_num) (by norm_num)
    (nb _ (by norm_num) (by norm_num)) (ns _ 100 (by norm_num) (by norm_num))
  have h3 := halley_step a (x 2) (x 3) η (65 / 100) (13 / 10) (8 / 100 - 4 / 10 ^ 50)
    (42 / 1000 - 3 * (1 + 1) / 10 ^ 50) (8 / 100) (42 / 1000)
    (hx 2 (by norm_num)) ha (hx 3 (by norm_num)) hη0 hη1 (by norm_num) (by norm_num) (by norm_num)
    h2 (hstep 2 (by norm_num)) (by norm_num) (by norm_num)
    (nb _ (by norm_num) (by norm_num)) (ns _ 1 (by norm_num) (by norm_num))
  have h4 := halley_step a (x 3) (x 4) η (8 / 100) (42 / 1000) (44 / 10 ^ 6 - 4 / 10 ^ 50)
    (53 / 10 ^ 7 - 3 * (1 + 1) / 10 ^ 50) (44 / 10 ^ 6) (53 / 10 ^ 7)
    (hx 3 (by norm_num)) ha (hx 4 (by norm_num)) hη0 hη1 (by norm_num) (by norm_num) (by norm_num)
    h3 (hstep 3 (by norm_num)) (by norm_num) (by norm_num)
    (nb _ (by norm_num) (by norm_num)) (ns _ 1 (by norm_num) (by norm_num))
  have h5 := halley_step a (x 4) (x 5) η (44 / 10 ^ 6) (53 / 10 ^ 7) (7 / 10 ^ 15 - 4 / 10 ^ 50)
    (12 / 10 ^ 18 - 3 * (1 + 1) / 10 ^ 50) (7 / 10 ^ 15) (12 / 10 ^ 18)
    (hx 4 (by norm_num)) ha (hx 5 (by norm_num)) hη0 hη1 (by norm_num) (by norm_num) (by norm_num)
    h4 (hstep 4 (by norm_num)) (by norm_num) (by norm_num)
    (nb _ (by norm_num) (by norm_num)) (ns _ 1 (by norm_num) (by norm_num))
  have h6 := halley_step a (x 5) (x 6) η (7 / 10 ^ 15) (12 / 10 ^ 18) (3 / 10 ^ 44 - 4 / 10 ^ 50)
    (1 / 10 ^ 49 - 3 * (1 + 1) / 10 ^ 50) (3 / 10 ^ 44) (1 / 10 ^ 49)
    (hx 5 (by norm_num)) ha (hx 6 (by norm_num)) hη0 hη1 (by norm_num) (by norm_num) (by norm_num)
    h5 (hstep 5 (by norm_num)) (by norm_num) (by norm_num)
    (nb _ (by norm_num) (by norm_num)) (ns _ 1 (by norm_num) (by norm_num))
  have hfB : (1 - (1 / 10 ^ 130 + 4 * η)) * (1 + η) ^ 3 ≤ 1 - 1 / 10 ^ 130 := by
    have h130 : (1 : ℚ) / 10 ^ 130 ≤ 1 / 2 := by norm_num
    have h130' : (0 : ℚ) ≤ 1 / 10 ^ 130 := by positivity
    exact hB'_of η _ _ hη0 hη1 (by linarith) (by linarith) (le_refl _)
  have hfS : 1 + 1 / 10 ^ 148 ≤ (1 + (1 / 10 ^ 148 + 4 * η)) * (1 - η) ^ 3 := by
    have h148 : (1 : ℚ) / 10 ^ 148 ≤ 1 / 10 := by norm_num
    have h148' : (0 : ℚ) ≤ 1 / 10 ^ 148 := by positivity
    refine hS'_of η _ _ hη0 hη1' (by linarith) ?_
    have h2 : 3 * η * (1 + (1 / 10 ^ 148 + 4 * η)) ≤ 3 * η * (1 + 1 / 3) :=
      mul_le_mul_of_nonneg_left (by linarith) (by linarith)
    linarith
  exact halley_step a (x 6) (x 7) η (3 / 10 ^ 44) (1 / 10 ^ 49) (1 / 10 ^ 130) (1 / 10 ^ 148)
    (1 / 10 ^ 130 + 4 * η) (1 / 10 ^ 148 + 4 * η)
    (hx 6 (by norm_num)) ha (hx 7 (by norm_num)) hη0 hη1 (by norm_num) (by norm_num) (by norm_num)
    h6 (hstep 6 (by norm_num)) (by norm_num) (by norm_num) hfB hfS

/-- from relative closeness `X/x³ ∈ [1-β, 1+γ]`, `x = N·P`, to the absolute form used by the final-step
theorems: `((N-a)P)³ ≤ X ≤ ((N+a)P)³` for every `a` with `βN ≤ a`, `γN ≤ 3a`, `a ≤ N`. -/
theorem bridge_cube (N a : ℕ) (P X β γ : ℚ) (hP : 0 ≤ P) (hβ0 : 0 ≤ β) (hγ0 : 0 ≤ γ)
    (hlo : (1 - β) * ((N : ℚ) * P) ^ 3 ≤ X) (hhi : X ≤ (1 + γ) * ((N : ℚ) * P) ^ 3)
    (hβa : β * N ≤ a) (hγa : γ * N ≤ 3 * a) (haN : a ≤ N) :
    (((N : ℚ) - a) * P) ^ 3 ≤ X ∧ X ≤ (((N : ℚ) + a) * P) ^ 3 := by
  have hP3 : 0 ≤ P ^ 3 := pow_nonneg hP 3
  have hN0 : (0 : ℚ) ≤ (N : ℚ) := Nat.cast_nonneg _
  have ha0 : (0 : ℚ) ≤ (a : ℚ) := Nat.cast_nonneg _
  have haNq : (a : ℚ) ≤ (N : ℚ) := by exact_mod_cast haN
  have hN2 : (0 : ℚ) ≤ (N : ℚ) ^ 2 := sq_nonneg _
  constructor
  · have h1 : ((N : ℚ) - a) ^ 3 ≤ (1 - β) * (N : ℚ) ^ 3 := by
      have h2 : ((N : ℚ) - a) ^ 2 ≤ (N : ℚ) ^ 2 := pow_le_pow_left₀ (by linarith) (by linarith) 2
      have h3 : ((N : ℚ) - a) ^ 3 ≤ ((N : ℚ) - a) * (N : ℚ) ^ 2 := by
        have := mul_le_mul_of_nonneg_left h2 (show (0 : ℚ) ≤ (N : ℚ) - a by linarith)
        calc ((N : ℚ) - a) ^ 3 = ((N : ℚ) - a) * ((N : ℚ) - a) ^ 2 := by ring
          _ ≤ ((N : ℚ) - a) * (N : ℚ) ^ 2 := this
      have h4 : (β * N) * (N : ℚ) ^ 2 ≤ a * (N : ℚ) ^ 2 := mul_le_mul_of_nonneg_right hβa hN2
      have e1 : ((N : ℚ) - a) * (N : ℚ) ^ 2 = (N : ℚ) ^ 3 - a * (N : ℚ) ^ 2 := by ring
      have e2 : (1 - β) * (N : ℚ) ^ 3 = (N : ℚ) ^ 3 - (β * N) * (N : ℚ) ^ 2 := by ring
      rw [e2]; rw [e1] at h3; linarith
    calc (((N : ℚ) - a) * P) ^ 3 = ((N : ℚ) - a) ^ 3 * P ^ 3 := by ring
      _ ≤ ((1 - β) * (N : ℚ) ^ 3) * P ^ 3 := mul_le_mul_of_nonneg_right h1 hP3
      _ = (1 - β) * ((N : ℚ) * P) ^ 3 := by ring
      _ ≤ X := hlo
  · have h1 : (1 + γ) * (N : ℚ) ^ 3 ≤ ((N : ℚ) + a) ^ 3 := by
      have e1 : ((N : ℚ) + a) ^ 3 = (N : ℚ) ^ 3 + (3 * a) * (N : ℚ) ^ 2 + (3 * N * a ^ 2 + a ^ 3) := by ring
      have e2 : (1 + γ) * (N : ℚ) ^ 3 = (N : ℚ) ^ 3 + (γ * N) * (N : ℚ) ^ 2 := by ring
      have h3 : (0 : ℚ) ≤ 3 * N * a ^ 2 + a ^ 3 := by positivity
      have h4 : (γ * N) * (N : ℚ) ^ 2 ≤ (3 * a) * (N : ℚ) ^ 2 := mul_le_mul_of_nonneg_right hγa hN2
      rw [e1, e2]; linarith
    calc X ≤ (1 + γ) * ((N : ℚ) * P) ^ 3 := hhi
      _ = ((1 + γ) * (N : ℚ) ^ 3) * P ^ 3 := by ring
      _ ≤ ((N : ℚ) + a) ^ 3 * P ^ 3 := mul_le_mul_of_nonneg_right h1 hP3
      _ = (((N : ℚ) + a) * P) ^ 3 := by ring

/-- **`Gen.Cbrt` from relative closeness of the last iterate** to `∛(c·10^e)`. -/
theorem cbrt_of_rel (g : Globals) (m : Spec.Mode) (d : Decimal) (res : decomposed192)
    (trunc : Int8) (n : Bool) (c : Nat) (e : Int) (a : Nat) (β γ : ℚ)
    (h1 : Decimal.isSpecial d = false) (h2 : Decimal.IsZero d = false)
    (hv : 𝔳[d] = .fin n c e)
    (hcore : cbrtCore d = .ok (res, trunc))
    (hm : Spec.Mode.ofNat? g.DefaultRoundingMode.toNat = some m)
    (hn : SpecRound.isNearest m = true)
    (hr0 : -20000 ≤ res.exp.toInt) (hr1 : res.exp.toInt ≤ 13000)
    (hβ0 : 0 ≤ β) (hγ0 : 0 ≤ γ)
    (hrel : (1 - β) * D192.val res ^ 3 ≤ (c : ℚ) * (10 : ℚ) ^ e ∧
      (c : ℚ) * (10 : ℚ) ^ e ≤ (1 + γ) * D192.val res ^ 3)
    (hβa : β * res.sig.toNat ≤ a) (hγa : γ * res.sig.toNat ≤ 3 * a) (haN : a ≤ res.sig.toNat)
    (hN : (a + 1) * 10 ^ 20 * (Spec.Cmax + 1) < res.sig.toNat) :
    ∃ r rc re, Gen.Cbrt g d = .ok r ∧ 𝔳[r] = .fin n rc re ∧ Spec.rootOk 3 c e rc re = true := by
  have ht : trunc = 0 ∨ trunc = 1 ∨ trunc = -1 := by
    rcases cbrtCore_flag d res trunc hcore with h | h
    · exact Or.inl h
    · exact Or.inr (Or.inl h)
  obtain ⟨hlo, hhi⟩ := bridge_cube res.sig.toNat a ((10 : ℚ) ^ res.exp.toInt) _ β γ
    (zpow_pos (by norm_num) _).le hβ0 hγ0 hrel.1 hrel.2 hβa hγa haN
  exact Cbrt_rootOk_of_core g m d res trunc n c e a h1 h2 hv hcore hm hn ht hr0 hr1 hN hlo hhi

/-- **`Gen.Cbrt` from per-step accuracy.**  If the values `x 0 … x 7` of the start value and of the seven
iterates (`x 7 = val res`) satisfy the start condition and each step is within relative `η ≤ 1e-55` of the
exact Halley step for `c·10^e`, and the last iterate is normalised, then `Cbrt` is accepted by the judge. -/
theorem cbrt_of_halley (g : Globals) (m : Spec.Mode) (d : Decimal) (res : decomposed192)
    (trunc : Int8) (n : Bool) (c : Nat) (e : Int) (η : ℚ) (x : ℕ → ℚ)
    (h1 : Decimal.isSpecial d = false) (h2 : Decimal.IsZero d = false)
    (hv : 𝔳[d] = .fin n c e)
    (hcore : cbrtCore d = .ok (res, trunc))
    (hm : Spec.Mode.ofNat? g.DefaultRoundingMode.toNat = some m)
    (hn : SpecRound.isNearest m = true)
    (hr0 : -20000 ≤ res.exp.toInt) (hr1 : res.exp.toInt ≤ 13000)
    (hnorm : 2 ^ 192 / 10 ≤ res.sig.toNat)
    (hX : 0 < (c : ℚ) * (10 : ℚ) ^ e)
    (hx : ∀ n, n ≤ 7 → 0 < x n) (hx7 : x 7 = D192.val res)
    (hη0 : 0 ≤ η) (hη : η ≤ 1 / 10 ^ 55)
    (hseed : (1 - 99 / 100) * x 0 ^ 3 ≤ (c : ℚ) * (10 : ℚ) ^ e ∧
      (c : ℚ) * (10 : ℚ) ^ e ≤ (1 + 99) * x 0 ^ 3)
    (hstep : ∀ n, n < 7 →
      (1 - η) * (x n * (x n ^ 3 + 2 * ((c : ℚ) * (10 : ℚ) ^ e)))
        ≤ x (n + 1) * (2 * x n ^ 3 + (c : ℚ) * (10 : ℚ) ^ e) ∧
      x (n + 1) * (2 * x n ^ 3 + (c : ℚ) * (10 : ℚ) ^ e)
        ≤ (1 + η) * (x n * (x n ^ 3 + 2 * ((c : ℚ) * (10 : ℚ) ^ e)))) :
    ∃ r rc re, Gen.Cbrt g d = .ok r ∧ 𝔳[r] = .fin n rc re ∧ Spec.rootOk 3 c e rc re = true := by
  have h7 := halley7 _ η x hX hx hη0 (le_trans hη (by norm_num)) hseed hstep
  rw [hx7] at h7
  set N := res.sig.toNat with hNdef
  have hnat : 6 * 10 ^ 56 ≤ N := le_trans (by norm_num) hnorm
  have hNq : (6 * 10 ^ 56 : ℚ) ≤ (N : ℚ) := by exact_mod_cast hnat
  have hN0 : (0 : ℚ) ≤ (N : ℚ) := Nat.cast_nonneg _
  have ha : ((N / (2 * 10 ^ 54) : Nat) : ℚ) ≥ 5 / 10 ^ 55 * (N : ℚ) - 1 := by
    have := Nat.lt_div_mul_add (a := N) (b := 2 * 10 ^ 54) (by norm_num)
    have h' : (N : ℚ) < ((N / (2 * 10 ^ 54) : Nat) : ℚ) * (2 * 10 ^ 54) + (2 * 10 ^ 54) := by
      exact_mod_cast this
    have e : (5 : ℚ) / 10 ^ 55 * (N : ℚ) = (N : ℚ) / (2 * 10 ^ 54) := by ring
    rw [ge_iff_le, e, sub_le_iff_le_add, div_le_iff₀ (by norm_num)]
    linarith
  have hb1 : (1 : ℚ) / 10 ^ 130 + 4 * η ≤ 41 / 10 ^ 56 := by
    have : (1 : ℚ) / 10 ^ 130 ≤ 1 / 10 ^ 56 := by norm_num
    linarith
  have hb2 : (1 : ℚ) / 10 ^ 148 + 4 * η ≤ 41 / 10 ^ 56 := by
    have : (1 : ℚ) / 10 ^ 148 ≤ 1 / 10 ^ 56 := by norm_num
    linarith
  have hkey : (41 : ℚ) / 10 ^ 56 * (N : ℚ) ≤ 5 / 10 ^ 55 * (N : ℚ) - 1 := by
    have : (9 : ℚ) / 10 ^ 56 * (6 * 10 ^ 56) ≤ 9 / 10 ^ 56 * (N : ℚ) :=
      mul_le_mul_of_nonneg_left hNq (by norm_num)
    have e2 : (9 : ℚ) / 10 ^ 56 * (6 * 10 ^ 56) = 54 := by norm_num
    linarith
  refine cbrt_of_rel g m d res trunc n c e (N / (2 * 10 ^ 54)) (1 / 10 ^ 130 + 4 * η)
    (1 / 10 ^ 148 + 4 * η) h1 h2 hv hcore hm hn hr0 hr1 (by positivity) (by positivity) h7 ?_ ?_
    (Nat.div_le_self _ _) ?_
  · have := mul_le_mul_of_nonneg_right hb1 hN0
    linarith
  · have := mul_le_mul_of_nonneg_right hb2 hN0
    have h0 : (0 : ℚ) ≤ ((N / (2 * 10 ^ 54) : Nat) : ℚ) := Nat.cast_nonneg _
    linarith
  · have h1' : N / (2 * 10 ^ 54) * (2 * 10 ^ 54) ≤ N := Nat.div_mul_le_self _ _
    have hC : Spec.Cmax + 1 = 12980742146337069071326240823050240 := by unfold Spec.Cmax; norm_num
    rw [hC]
    generalize N / (2 * 10 ^ 54) = q at h1' ⊢
    omega

/-! ## the start value of `Cbrt` -/

theorem tdiv3_sign (x : Int) :
    (0 ≤ x → x - 2 ≤ 3 * x.tdiv 3 ∧ 3 * x.tdiv 3 ≤ x) ∧ (x ≤ 0 → x ≤ 3 * x.tdiv 3 ∧ 3 * x.tdiv 3 ≤ x + 2) := by
  constructor
  · intro h; rw [Int.tdiv_eq_ediv_of_nonneg h]; omega
  · intro h
    have : x.tdiv 3 = -((-x).tdiv 3) := by rw [Int.neg_tdiv]; omega
    rw [this, Int.tdiv_eq_ediv_of_nonneg (by omega)]; omega

/-- the exponent of the start value of `Cbrt` for the argument `c·10^e`, `k = ⌊log10 c⌋` -/
def cbrtStartExp (k : Nat) (e : Int) : Int :=
  e - ((if e + k < 0 then e + k + 1 else e + k) - (if e + k < 0 then e + k + 1 else e + k).tdiv 3)

/-- **Start condition of `Cbrt`.**  The start value `c·10^(cbrtStartExp k e)` is between 0.215 and 4.65 times
the cube root of `c·10^e`: `x₀³/100 ≤ c·10^e ≤ 100·x₀³`. -/
theorem cbrt_start_ok (c k : Nat) (e : Int) (hk1 : 10 ^ k ≤ c) (hk2 : c < 10 ^ (k + 1)) :
    (1 - 99 / 100) * ((c : ℚ) * (10 : ℚ) ^ (cbrtStartExp k e)) ^ 3 ≤ (c : ℚ) * (10 : ℚ) ^ e ∧
    (c : ℚ) * (10 : ℚ) ^ e ≤ (1 + 99) * ((c : ℚ) * (10 : ℚ) ^ (cbrtStartExp k e)) ^ 3 := by
  set E0 := cbrtStartExp k e with hE0
  -- D = e - 3 E0 ∈ [2k, 2k+2]
  have hD : 2 * (k : Int) ≤ e - 3 * E0 ∧ e - 3 * E0 ≤ 2 * (k : Int) + 2 := by
    rw [hE0]; unfold cbrtStartExp
    split
    · rename_i hneg
      have := (tdiv3_sign (e + k + 1)).2 (by omega)
      omega
    · rename_i hnn
      have := (tdiv3_sign (e + k)).1 (by omega)
      omega
  set D := e - 3 * E0 with hDdef
  have hc1 : ((10 : ℚ) ^ k) ≤ (c : ℚ) := by exact_mod_cast hk1
  have hc2 : (c : ℚ) < (10 : ℚ) ^ (k + 1) := by exact_mod_cast hk2
  have hc0 : (0 : ℚ) < (c : ℚ) := lt_of_lt_of_le (by positivity) hc1
  have hP : (0 : ℚ) < (10 : ℚ) ^ (3 * E0) := zpow_pos (by norm_num) _
  have e1 : ((c : ℚ) * (10 : ℚ) ^ E0) ^ 3 = (c : ℚ) ^ 3 * (10 : ℚ) ^ (3 * E0) := by
    rw [mul_pow, ← zpow_natCast ((10 : ℚ) ^ E0) 3, ← zpow_mul]; congr 2; ring
  have e2 : (c : ℚ) * (10 : ℚ) ^ e = (c : ℚ) * (10 : ℚ) ^ D * (10 : ℚ) ^ (3 * E0) := by
    rw [mul_assoc, ← zpow_add₀ (by norm_num : (10 : ℚ) ≠ 0)]; congr 2; rw [hDdef]; ring
  -- c² bounds
  have hsq1 : (10 : ℚ) ^ (2 * (k : Int)) ≤ (c : ℚ) ^ 2 := by
    have := pow_le_pow_left₀ (by positivity) hc1 2
    rw [← pow_mul] at this
    rw [show (2 * (k : Int)) = ((k * 2 : Nat) : Int) by push_cast; ring, zpow_natCast]; exact this
  have hsq2 : (c : ℚ) ^ 2 < (10 : ℚ) ^ (2 * (k : Int) + 2) := by
    have := pow_lt_pow_left₀ hc2 hc0.le (by norm_num : 2 ≠ 0)
    rw [← pow_mul] at this
    rw [show (2 * (k : Int) + 2) = (((k + 1) * 2 : Nat) : Int) by push_cast; ring, zpow_natCast]; exact this
  have hD1 : (10 : ℚ) ^ (2 * (k : Int)) ≤ (10 : ℚ) ^ D := zpow_le_zpow_right₀ (by norm_num) hD.1
  have hD2 : (10 : ℚ) ^ D ≤ (10 : ℚ) ^ (2 * (k : Int) + 2) := zpow_le_zpow_right₀ (by norm_num) hD.2
  have h100 : (10 : ℚ) ^ (2 * (k : Int) + 2) = 100 * (10 : ℚ) ^ (2 * (k : Int)) := by
    rw [zpow_add₀ (by norm_num : (10 : ℚ) ≠ 0)]; norm_num; ring
  rw [e1, e2]
  constructor
  · -- c³/100 ≤ c·10^D
    have : (1 - 99 / 100) * (c : ℚ) ^ 3 ≤ (c : ℚ) * (10 : ℚ) ^ D := by
      have h : (c : ℚ) ^ 2 ≤ 100 * (10 : ℚ) ^ D := by linarith
      have := mul_le_mul_of_nonneg_left h hc0.le
      have e : (1 - 99 / 100) * (c : ℚ) ^ 3 = (c : ℚ) * (c : ℚ) ^ 2 / 100 := by ring
      rw [e]; linarith
    calc (1 - 99 / 100) * ((c : ℚ) ^ 3 * (10 : ℚ) ^ (3 * E0))
        = ((1 - 99 / 100) * (c : ℚ) ^ 3) * (10 : ℚ) ^ (3 * E0) := by ring
      _ ≤ (c : ℚ) * (10 : ℚ) ^ D * (10 : ℚ) ^ (3 * E0) := mul_le_mul_of_nonneg_right this hP.le
  · have : (c : ℚ) * (10 : ℚ) ^ D ≤ (1 + 99) * (c : ℚ) ^ 3 := by
      have h : (10 : ℚ) ^ D ≤ 100 * (c : ℚ) ^ 2 := by linarith
      have := mul_le_mul_of_nonneg_left h hc0.le
      have e : (1 + 99) * (c : ℚ) ^ 3 = (c : ℚ) * (100 * (c : ℚ) ^ 2) := by ring
      rw [e]; exact this
    calc (c : ℚ) * (10 : ℚ) ^ D * (10 : ℚ) ^ (3 * E0)
        ≤ ((1 + 99) * (c : ℚ) ^ 3) * (10 : ℚ) ^ (3 * E0) := mul_le_mul_of_nonneg_right this hP.le
      _ = (1 + 99) * ((c : ℚ) ^ 3 * (10 : ℚ) ^ (3 * E0)) := by ring

/-- `cbrtCore_spec` with the start condition of `halley7` discharged: the start value of `Cbrt` satisfies
`x₀³/100 ≤ arg ≤ 100·x₀³`. -/
theorem cbrtCore_start_ok (d : Decimal) (hsp : Decimal.isSpecial d = false)
    (hz : Decimal.IsZero d = false) :
    ∃ (arg arg2 start : decomposed192),
      cbrtCore d = iter (cbrtStep arg arg2) 7 (start, 0) ∧
      D192.val arg = (d.decompose.1.toNat : ℚ) * (10 : ℚ) ^ (d.decompose.2.toInt - 6176) ∧
      D192.val arg2 = 2 * D192.val arg ∧
      0 < D192.val start ∧
      (1 - 99 / 100) * D192.val start ^ 3 ≤ D192.val arg ∧
      D192.val arg ≤ (1 + 99) * D192.val start ^ 3 := by
  obtain ⟨arg, arg2, start, h1, h2, h3, -, -, hs, k, hk1, hk2, -, hexp⟩ := cbrtCore_spec d hsp hz
  have hv : D192.val start
      = (d.decompose.1.toNat : ℚ) * (10 : ℚ) ^ (cbrtStartExp k (d.decompose.2.toInt - 6176)) := by
    unfold D192.val; rw [hs, hexp]; rfl
  have hok := cbrt_start_ok d.decompose.1.toNat k (d.decompose.2.toInt - 6176) hk1 hk2
  refine ⟨arg, arg2, start, h1, h2, h3, ?_, ?_, ?_⟩
  · rw [hv]
    have : (0 : ℚ) < (d.decompose.1.toNat : ℚ) := by
      have : 0 < d.decompose.1.toNat := lt_of_lt_of_le (by positivity) hk1
      exact_mod_cast this
    exact mul_pos this (zpow_pos (by norm_num) _)
  · rw [hv, h2]; exact hok.1
  · rw [hv, h2]; exact hok.2

/-! ## the hypotheses are satisfiable -/

/-- exact Halley iterates for a = 2 from the start value 2 (what `Cbrt(2)` starts from) -/
def halleyEx : ℕ → ℚ
  | 0 => 2
  | n + 1 => halleyEx n * (halleyEx n ^ 3 + 2 * 2) / (2 * halleyEx n ^ 3 + 2)

theorem halleyEx_pos : ∀ n, 0 < halleyEx n
  | 0 => by norm_num [halleyEx]
  | n + 1 => by
    have := halleyEx_pos n
    unfold halleyEx; positivity

/-- the hypotheses of `halley7` are satisfiable (a = 2, exact steps, η = 0): the conclusion says
`2/x₇³ ∈ [1 - 1e-130, 1 + 1e-148]` -/
example := halley7 2 0 halleyEx (by norm_num) (fun n _ => halleyEx_pos n) (le_refl _) (by norm_num)
  (by norm_num [halleyEx])
  (fun n _ => by
    have h := halleyEx_pos n
    have hd : (0 : ℚ) < 2 * halleyEx n ^ 3 + 2 := by positivity
    have e : halleyEx (n + 1) * (2 * halleyEx n ^ 3 + 2) = halleyEx n * (halleyEx n ^ 3 + 2 * 2) := by
      show halleyEx n * (halleyEx n ^ 3 + 2 * 2) / (2 * halleyEx n ^ 3 + 2) * _ = _
      field_simp
    rw [e]; constructor <;> linarith)
end Root
