/-
  D128/Proofs/NeverNaNArith.lean — property C15, clause "never yields NaN from finite operands otherwise":
  the arithmetic, quantising, scaling and selection operations.  For ALL bit patterns of the operands the
  class of inputs for which the generated function returns a NaN is characterised exactly, by combining
  the correctness theorems (C01, C02, C03, C04, C08, C11, C19) with `D128/Proofs/NeverNaNSpec.lean`.
  Every statement also says that the call terminates without panic.

  Provided (namespace `NN`):
  * `nan_of_same`                      : `𝔳[r]` same as a specified value ⇒ `IsNaN r` is that value's `isNaN`
  * `fin_interp`                       : a non-special pattern denotes a `.fin`
  * `AddWithMode_isNaN`, `SubWithMode_isNaN`, `MulWithMode_isNaN`, `QuoWithMode_isNaN`,
    `QuoRemWithMode_isNaN`             : valid mode byte, all operands — `IsNaN r = <exact condition>`
  * `Round_isNaN` (EVERY mode byte), `Ceil_isNaN`, `Floor_isNaN`, `pkgRound_isNaN`, `pkgTrunc_isNaN`,
    `pkgCeil_isNaN`, `pkgFloor_isNaN`  : NaN out ⇔ NaN in
  * `New_not_nan`, `Ldexp_isNaN`, `Frexp_isNaN`, `Canonical_isNaN`, `Abs_isNaN`, `Neg_isNaN`,
    `Min_isNaN`, `Max_isNaN`
-/
import D128.Proofs.NeverNaNSpec
import D128.Props.C01
import D128.Props.C02
import D128.Props.C02Quo
import D128.Props.C03
import D128.Props.C04
import D128.Props.C08
import D128.Props.C11b
import D128.Props.C19
set_option autoImplicit false

namespace NN
open Spec

local notation "𝔳[" d "]" => Spec.interp (Gen.Decimal.lo d) (Gen.Decimal.hi d)

/-- bridge: if the value of `r` is `same` as a specified value, `IsNaN r` is the `isNaN` of that value -/
theorem nan_of_same (r : Gen.Decimal) (w : Val) (h : (𝔳[r]).same w = true) :
    Gen.Decimal.IsNaN r = w.isNaN := by
  rw [← Enc.interp_isNaN, same_isNaN h]

/-- a non-special bit pattern denotes a finite value -/
theorem fin_interp (d : Gen.Decimal) (h : Gen.Decimal.isSpecial d = false) :
    ∃ n c e, 𝔳[d] = .fin n c e ∧ (c = 0 ↔ Gen.Decimal.IsZero d = true) :=
  ⟨_, _, _, Enc.interp_decompose d h, by rw [Sp.IsZero_eq_sig]; simp⟩

theorem not_nan_of_not_special (d : Gen.Decimal) (h : Gen.Decimal.isSpecial d = false) :
    Gen.Decimal.IsNaN d = false ∧ Gen.Decimal.isInf d = false := by
  rw [Enc.isSpecial_iff] at h
  cases h1 : Gen.Decimal.IsNaN d <;> cases h2 : Gen.Decimal.isInf d <;> simp_all

/-! ## the four arithmetic operations and QuoRem -/

theorem AddWithMode_isNaN (d o : Gen.Decimal) (rm : UInt8) (m : Mode)
    (hm : Mode.ofNat? rm.toNat = some m) :
    ∃ r, Gen.Decimal.AddWithMode d o rm = .ok r ∧
      Gen.Decimal.IsNaN r = (Gen.Decimal.IsNaN d || Gen.Decimal.IsNaN o ||
        (Gen.Decimal.isInf d && Gen.Decimal.isInf o &&
          (Gen.Decimal.Signbit d != Gen.Decimal.Signbit o))) := by
  obtain ⟨r, hr, hs⟩ := Props.C01.add_correct d o rm m hm
  refine ⟨r, hr, ?_⟩
  rw [nan_of_same r _ hs, add_isNaN, Enc.interp_isNaN, Enc.interp_isNaN, Enc.interp_isInf,
    Enc.interp_isInf, Enc.interp_neg, Enc.interp_neg]

theorem SubWithMode_isNaN (d o : Gen.Decimal) (rm : UInt8) (m : Mode)
    (hm : Mode.ofNat? rm.toNat = some m) :
    ∃ r, Gen.Decimal.SubWithMode d o rm = .ok r ∧
      Gen.Decimal.IsNaN r = (Gen.Decimal.IsNaN d || Gen.Decimal.IsNaN o ||
        (Gen.Decimal.isInf d && Gen.Decimal.isInf o &&
          (Gen.Decimal.Signbit d == Gen.Decimal.Signbit o))) := by
  obtain ⟨r, hr, hs⟩ := Props.C01.sub_correct d o rm m hm
  refine ⟨r, hr, ?_⟩
  rw [nan_of_same r _ hs, sub_isNaN, Enc.interp_isNaN, Enc.interp_isNaN, Enc.interp_isInf,
    Enc.interp_isInf, Enc.interp_neg, Enc.interp_neg]

theorem MulWithMode_isNaN (d o : Gen.Decimal) (rm : UInt8) (m : Mode)
    (hm : Mode.ofNat? rm.toNat = some m) :
    ∃ r, Gen.Decimal.MulWithMode d o rm = .ok r ∧
      Gen.Decimal.IsNaN r = (Gen.Decimal.IsNaN d || Gen.Decimal.IsNaN o ||
        (Gen.Decimal.isInf d && Gen.Decimal.IsZero o) ||
        (Gen.Decimal.IsZero d && Gen.Decimal.isInf o)) := by
  obtain ⟨r, hr, hs⟩ := Props.C02.mul_correct d o rm m hm
  refine ⟨r, hr, ?_⟩
  rw [nan_of_same r _ hs, mul_isNaN, Enc.interp_isNaN, Enc.interp_isNaN, Enc.interp_isInf,
    Enc.interp_isInf, Enc.interp_isZero, Enc.interp_isZero]

theorem QuoWithMode_isNaN (d o : Gen.Decimal) (rm : UInt8) (m : Mode)
    (hm : Mode.ofNat? rm.toNat = some m) :
    ∃ r, Gen.Decimal.QuoWithMode d o rm = .ok r ∧
      Gen.Decimal.IsNaN r = (Gen.Decimal.IsNaN d || Gen.Decimal.IsNaN o ||
        (Gen.Decimal.isInf d && Gen.Decimal.isInf o) ||
        (Gen.Decimal.IsZero d && Gen.Decimal.IsZero o)) := by
  obtain ⟨r, hr, hs⟩ := Props.C02.quo_correct d o rm m hm
  refine ⟨r, hr, ?_⟩
  rw [nan_of_same r _ hs, quo_isNaN, Enc.interp_isNaN, Enc.interp_isNaN, Enc.interp_isInf,
    Enc.interp_isInf, Enc.interp_isZero, Enc.interp_isZero]

theorem QuoRemWithMode_isNaN (d o : Gen.Decimal) (rm : UInt8) (m : Mode)
    (hm : Mode.ofNat? rm.toNat = some m) :
    ∃ q r, Gen.Decimal.QuoRemWithMode d o rm = .ok (q, r) ∧
      Gen.Decimal.IsNaN q = (Gen.Decimal.IsNaN d || Gen.Decimal.IsNaN o ||
        (Gen.Decimal.isInf d && Gen.Decimal.isInf o) ||
        (Gen.Decimal.IsZero d && Gen.Decimal.IsZero o)) ∧
      Gen.Decimal.IsNaN r = (Gen.Decimal.IsNaN d || Gen.Decimal.IsNaN o ||
        Gen.Decimal.isInf d || Gen.Decimal.IsZero o) := by
  obtain ⟨q, r, hr, hq, hs⟩ := Props.C03.quoRem_correct d o rm m hm
  refine ⟨q, r, hr, ?_, ?_⟩
  · rw [nan_of_same q _ hq, quoRem_fst_isNaN, Enc.interp_isNaN, Enc.interp_isNaN, Enc.interp_isInf,
      Enc.interp_isInf, Enc.interp_isZero, Enc.interp_isZero]
  · rw [nan_of_same r _ hs, quoRem_snd_isNaN, Enc.interp_isNaN, Enc.interp_isNaN, Enc.interp_isInf,
      Enc.interp_isZero]

/-! ## quantisation: NaN out ⇔ NaN in -/

/-- EVERY mode byte (the invalid ones truncate, `Props.C08.round_dp_invalid_mode`) -/
theorem Round_isNaN (d : Gen.Decimal) (dp : Int64) (rm : UInt8) :
    ∃ r, Gen.Decimal.Round d dp rm = .ok r ∧ Gen.Decimal.IsNaN r = Gen.Decimal.IsNaN d := by
  by_cases h : rm.toNat < 6
  · have hv : ∃ m, Mode.ofNat? rm.toNat = some m := by
      generalize rm.toNat = k at h
      interval_cases k <;> exact ⟨_, rfl⟩
    obtain ⟨m, hm⟩ := hv
    obtain ⟨r, hr, hs⟩ := Props.C08.round_dp_correct d dp rm m hm
    exact ⟨r, hr, by rw [nan_of_same r _ hs, quantize_isNaN, Enc.interp_isNaN]⟩
  · obtain ⟨r, hr, hs⟩ := Props.C08.round_dp_invalid_mode d dp rm (by omega)
    exact ⟨r, hr, by rw [nan_of_same r _ hs, quantize_isNaN, Enc.interp_isNaN]⟩

theorem Ceil_isNaN (d : Gen.Decimal) (dp : Int64) :
    ∃ r, Gen.Decimal.Ceil d dp = .ok r ∧ Gen.Decimal.IsNaN r = Gen.Decimal.IsNaN d := by
  obtain ⟨r, hr, hs⟩ := Props.C08.ceil_correct d dp
  exact ⟨r, hr, by rw [nan_of_same r _ hs, ceilDp_isNaN, Enc.interp_isNaN]⟩

theorem Floor_isNaN (d : Gen.Decimal) (dp : Int64) :
    ∃ r, Gen.Decimal.Floor d dp = .ok r ∧ Gen.Decimal.IsNaN r = Gen.Decimal.IsNaN d := by
  obtain ⟨r, hr, hs⟩ := Props.C08.floor_correct d dp
  exact ⟨r, hr, by rw [nan_of_same r _ hs, floorDp_isNaN, Enc.interp_isNaN]⟩

theorem pkgRound_isNaN (d : Gen.Decimal) :
    ∃ r, Gen.Round d = .ok r ∧ Gen.Decimal.IsNaN r = Gen.Decimal.IsNaN d := by
  rw [Props.C08.pkg_round]; exact Round_isNaN d 0 1
theorem pkgTrunc_isNaN (d : Gen.Decimal) :
    ∃ r, Gen.Trunc d = .ok r ∧ Gen.Decimal.IsNaN r = Gen.Decimal.IsNaN d := by
  rw [Props.C08.pkg_trunc]; exact Round_isNaN d 0 2
theorem pkgCeil_isNaN (d : Gen.Decimal) :
    ∃ r, Gen.Ceil d = .ok r ∧ Gen.Decimal.IsNaN r = Gen.Decimal.IsNaN d := by
  rw [Props.C08.pkg_ceil]; exact Ceil_isNaN d 0
theorem pkgFloor_isNaN (d : Gen.Decimal) :
    ∃ r, Gen.Floor d = .ok r ∧ Gen.Decimal.IsNaN r = Gen.Decimal.IsNaN d := by
  rw [Props.C08.pkg_floor]; exact Floor_isNaN d 0

/-! ## scaling -/

theorem New_not_nan (g : Globals) (sig exp : Int64) (m : Mode)
    (hm : Mode.ofNat? g.DefaultRoundingMode.toNat = some m) :
    ∃ r, Gen.New g sig exp = .ok r ∧ Gen.Decimal.IsNaN r = false := by
  obtain ⟨r, hr, hs⟩ := Props.C11b.new_correct g sig exp m hm
  exact ⟨r, hr, by rw [nan_of_same r _ hs, newVal_not_nan]⟩

theorem Ldexp_isNaN (g : Globals) (d : Gen.Decimal) (exp : Int64) (m : Mode)
    (hm : Mode.ofNat? g.DefaultRoundingMode.toNat = some m) :
    ∃ r, Gen.Ldexp g d exp = .ok r ∧ Gen.Decimal.IsNaN r = Gen.Decimal.IsNaN d := by
  obtain ⟨r, hr, hs⟩ := Props.C11b.ldexp_correct g d exp m hm
  exact ⟨r, hr, by rw [nan_of_same r _ hs, ldexp_isNaN, Enc.interp_isNaN]⟩

theorem Frexp_isNaN (d : Gen.Decimal) :
    ∃ f e, Gen.Frexp d = .ok (f, e) ∧ Gen.Decimal.IsNaN f = Gen.Decimal.IsNaN d := by
  obtain ⟨f, e, hf, hv, -⟩ := FrexpPf.Frexp_spec d
  exact ⟨f, e, hf, by rw [← Enc.interp_isNaN, hv, frexp_isNaN, Enc.interp_isNaN]⟩

/-! ## Canonical, Abs, Neg, Min, Max -/

theorem Canonical_isNaN (d : Gen.Decimal) :
    ∃ r, Gen.Decimal.Canonical d = .ok r ∧ Gen.Decimal.IsNaN r = Gen.Decimal.IsNaN d := by
  obtain ⟨r, hr, -⟩ := Props.C19.canonical_spec d
  refine ⟨r, hr, ?_⟩
  have h := Props.C19.canonical_sameNum d r hr
  rw [← Enc.interp_isNaN, ← Enc.interp_isNaN]
  revert h
  cases 𝔳[r] <;> cases 𝔳[d] <;> simp [Val.sameNum, Val.same, Val.isNaN]

theorem Abs_isNaN (d : Gen.Decimal) : Gen.Decimal.IsNaN (Gen.Abs d) = Gen.Decimal.IsNaN d :=
  (Enc.Abs_class d).2.1
theorem Neg_isNaN (d : Gen.Decimal) : Gen.Decimal.IsNaN (Gen.Decimal.Neg d) = Gen.Decimal.IsNaN d :=
  (Enc.Neg_class d).2.1

theorem Min_isNaN (d o : Gen.Decimal) :
    ∃ r, Gen.Min d o = .ok r ∧
      Gen.Decimal.IsNaN r = (Gen.Decimal.IsNaN d || Gen.Decimal.IsNaN o) := by
  obtain ⟨r, hr, hs⟩ := Props.C04.min_correct d o
  exact ⟨r, hr, by rw [nan_of_same r _ hs, minVal_isNaN, Enc.interp_isNaN, Enc.interp_isNaN]⟩

theorem Max_isNaN (d o : Gen.Decimal) :
    ∃ r, Gen.Max d o = .ok r ∧
      Gen.Decimal.IsNaN r = (Gen.Decimal.IsNaN d || Gen.Decimal.IsNaN o) := by
  obtain ⟨r, hr, hs⟩ := Props.C04.max_correct d o
  exact ⟨r, hr, by rw [nan_of_same r _ hs, maxVal_isNaN, Enc.interp_isNaN, Enc.interp_isNaN]⟩

end NN
