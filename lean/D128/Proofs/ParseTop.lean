/-
  Proofs about `Gen.parse` (scan.go `parse`): sign handling, the special names, and the call of
  `parseNumber`; plus the byte/character dictionary used to talk about `Spec.Text`.

  * `Parse.okErr`, `Parse.okErrP`            the error values `parseNumber` / `parse` can return
  * `Parse.finish_total`, `Parse.model_total`, `Parse.parseNumber_total'`
                                             `parseNumber` returns (no panic) when `d.size < 2^63`
  * `Parse.tailNum`, `Parse.parseRest`       the number branch / the part of `parse` after the sign
  * `Parse.parse_eq_rest`                    `Gen.parse` = sign handling ; `parseRest`   (by `rfl`)
  * `Parse.parseRest_0/_3/_8/_other`         `parseRest` on inputs of length 0, 3, 8, other
  * `Parse.restM`, `Parse.parseM`            list-level functional model of `Gen.parse`
  * `Parse.parse_eq`                         `Gen.parse g d op = Parse.parseM g op d.toList`
  * `Parse.toChar`, `Parse.chars`            bytes as characters (Latin-1), `toChar_toNat`, `toChar_inj`,
                                             `isDigit_toChar`, `digitVal_toChar`, `lower_toChar`
  * `Parse.eqFold_inf`, `Parse.eqFold_nan`   `Spec.eqFold` on "inf"/"infinity"/"nan" in terms of bytes
  * `Parse.tailNum_total`, `Parse.restM_total`, `Parse.parseM_total`   totality of `parse`
  * `Parse.litBody`, `Parse.readLiteral_cons` unfolding of `Spec.readLiteral` (sign, then body)
  * `Parse.parseM_inf`, `Parse.parseM_nan`   `readLiteral = some (.inf neg)` / `some (.nan _)` ⇒ `parseM` returns
                                             `inf neg` / `nan op 0 0` with `nil`
-/
import D128.Proofs.Parse
import D128.Spec.Text

open Std.Do

set_option mvcgen.warning false
set_option linter.unusedSimpArgs false
set_option linter.unusedVariables false

namespace Parse


def okErr (e : Go.Err) : Prop := e = .nil ∨ e = .parseNumberSyntaxError ∨ e = .parseNumberRangeError

theorem finish_total (g : Globals) (neg : Bool) (s : S2) :
    ∃ r e, finish g neg s = .ok (r, e) ∧ okErr e := by
  unfold finish
  by_cases h1 : ((!s.caneof) || (!s.sawdig)) = true
  · rw [if_pos h1]; exact ⟨_, _, rfl, Or.inr (Or.inl rfl)⟩
  rw [if_neg h1]
  by_cases h2 : ((s.sig.w0 ||| s.sig.w1) == (0 : UInt64)) = true
  · rw [if_pos h2]; exact ⟨_, _, rfl, Or.inl rfl⟩
  rw [if_neg h2]
  simp only []
  generalize ((if s.eneg then s.exp * (-1 : Int64) else s.exp) - s.nfrac) = e
  by_cases h3 : decide (e > (6150 : Int64)) = true
  · rw [if_pos h3]; exact ⟨_, _, rfl, Or.inr (Or.inr rfl)⟩
  rw [if_neg h3]
  by_cases h4 : decide (e < (-6215 : Int64)) = true
  · rw [if_pos h4]; exact ⟨_, _, rfl, Or.inl rfl⟩
  rw [if_neg h4]
  obtain ⟨r, hr⟩ := reduce128_call g.DefaultRoundingMode neg s.sig (Go.conv (e + (6176 : Int64)) : Int16) s.trunc h2
  rw [hr]
  show ∃ r' e, (if decide (r.2 > (12287 : Int16)) = true then _ else _) = Except.ok (r', e) ∧ okErr e
  split
  · exact ⟨_, _, rfl, Or.inr (Or.inr rfl)⟩
  · exact ⟨_, _, rfl, Or.inl rfl⟩

theorem model_total (g : Globals) (cs : List UInt8) (neg sep : Bool) :
    ∃ r e, model g cs neg sep = .ok (r, e) ∧ okErr e := by
  unfold model
  split
  · exact ⟨_, _, rfl, Or.inr (Or.inl rfl)⟩
  · exact finish_total g neg _



/-- the number branch of `parse`: `parseNumber` with the error values translated -/
def tailNum (g : Globals) (d : Go.Bytes) (neg : Bool) : Go.GoM (Gen.Decimal × Go.Err) := do
  let (r_58, r_59) ← Gen.parseNumber g d neg true
  let mut v : Gen.Decimal := r_58
  let mut err : Go.Err := r_59
  if (err != Go.Err.nil) then
    if (err == Go.Err.parseNumberRangeError) then
      return (v, Go.Err.parseRangeError)
    else
      if (err == Go.Err.parseNumberSyntaxError) then
        return (v, Go.Err.parseSyntaxError)
      else
        return (v, err)
  return (v, Go.Err.nil)

/-- the part of `Gen.parse` after the sign has been removed (verbatim copy of the generated text) -/
def parseRest (g : Globals) (op : UInt64) (d : Go.Bytes) (neg : Bool) : Go.GoM (Gen.Decimal × Go.Err) := do
  let mut l : Int64 := (Go.len d)
  if (l == (0 : Int64)) then
    return ((default : Gen.Decimal), Go.Err.parseSyntaxError)
  else
    if (l == (3 : Int64)) then
      let t_5 ← Go.bget d (0 : Int)
      let c_7 : Bool ← (if (t_5 == (73 : UInt8)) then pure true else (do let t_6 ← Go.bget d (0 : Int); pure (t_6 == (105 : UInt8))))
      let c_11 : Bool ← (if c_7 then (do let t_8 ← Go.bget d (1 : Int); let c_10 : Bool ← (if (t_8 == (78 : UInt8)) then pure true else (do let t_9 ← Go.bget d (1 : Int); pure (t_9 == (110 : UInt8)))); pure c_10) else pure false)
      let c_15 : Bool ← (if c_11 then (do let t_12 ← Go.bget d (2 : Int); let c_14 : Bool ← (if (t_12 == (70 : UInt8)) then pure true else (do let t_13 ← Go.bget d (2 : Int); pure (t_13 == (102 : UInt8)))); pure c_14) else pure false)
      if c_15 then
        return ((Gen.inf neg), Go.Err.nil)
      let t_16 ← Go.bget d (0 : Int)
      let c_18 : Bool ← (if (t_16 == (78 : UInt8)) then pure true else (do let t_17 ← Go.bget d (0 : Int); pure (t_17 == (110 : UInt8))))
      let c_22 : Bool ← (if c_18 then (do let t_19 ← Go.bget d (1 : Int); let c_21 : Bool ← (if (t_19 == (65 : UInt8)) then pure true else (do let t_20 ← Go.bget d (1 : Int); pure (t_20 == (97 : UInt8)))); pure c_21) else pure false)
      let c_26 : Bool ← (if c_22 then (do let t_23 ← Go.bget d (2 : Int); let c_25 : Bool ← (if (t_23 == (78 : UInt8)) then pure true else (do let t_24 ← Go.bget d (2 : Int); pure (t_24 == (110 : UInt8)))); pure c_25) else pure false)
      if c_26 then
        return ((Gen.nan op (0 : UInt64) (0 : UInt64)), Go.Err.nil)
    else
      if (l == (8 : Int64)) then
        let t_27 ← Go.bget d (0 : Int)
        let c_29 : Bool ← (if (t_27 == (73 : UInt8)) then pure true else (do let t_28 ← Go.bget d (0 : Int); pure (t_28 == (105 : UInt8))))
        let c_33 : Bool ← (if c_29 then (do let t_30 ← Go.bget d (1 : Int); let c_32 : Bool ← (if (t_30 == (78 : UInt8)) then pure true else (do let t_31 ← Go.bget d (1 : Int); pure (t_31 == (110 : UInt8)))); pure c_32) else pure false)
        let c_37 : Bool ← (if c_33 then (do let t_34 ← Go.bget d (2 : Int); let c_36 : Bool ← (if (t_34 == (70 : UInt8)) then pure true else (do let t_35 ← Go.bget d (2 : Int); pure (t_35 == (102 : UInt8)))); pure c_36) else pure false)
        let c_41 : Bool ← (if c_37 then (do let t_38 ← Go.bget d (3 : Int); let c_40 : Bool ← (if (t_38 == (73 : UInt8)) then pure true else (do let t_39 ← Go.bget d (3 : Int); pure (t_39 == (105 : UInt8)))); pure c_40) else pure false)
        let c_45 : Bool ← (if c_41 then (do let t_42 ← Go.bget d (4 : Int); let c_44 : Bool ← (if (t_42 == (78 : UInt8)) then pure true else (do let t_43 ← Go.bget d (4 : Int); pure (t_43 == (110 : UInt8)))); pure c_44) else pure false)
        let c_49 : Bool ← (if c_45 then (do let t_46 ← Go.bget d (5 : Int); let c_48 : Bool ← (if (t_46 == (73 : UInt8)) then pure true else (do let t_47 ← Go.bget d (5 : Int); pure (t_47 == (105 : UInt8)))); pure c_48) else pure false)
        let c_53 : Bool ← (if c_49 then (do let t_50 ← Go.bget d (6 : Int); let c_52 : Bool ← (if (t_50 == (84 : UInt8)) then pure true else (do let t_51 ← Go.bget d (6 : Int); pure (t_51 == (116 : UInt8)))); pure c_52) else pure false)
        let c_57 : Bool ← (if c_53 then (do let t_54 ← Go.bget d (7 : Int); let c_56 : Bool ← (if (t_54 == (89 : UInt8)) then pure true else (do let t_55 ← Go.bget d (7 : Int); pure (t_55 == (121 : UInt8)))); pure c_56) else pure false)
        if c_57 then
          return ((Gen.inf neg), Go.Err.nil)
  let (r_58, r_59) ← Gen.parseNumber g d neg true
  let mut v : Gen.Decimal := r_58
  let mut err : Go.Err := r_59
  if (err != Go.Err.nil) then
    if (err == Go.Err.parseNumberRangeError) then
      return (v, Go.Err.parseRangeError)
    else
      if (err == Go.Err.parseNumberSyntaxError) then
        return (v, Go.Err.parseSyntaxError)
      else
        return (v, err)
  return (v, Go.Err.nil)

/-- `Gen.parse` = sign handling followed by `parseRest` -/
theorem bsliceFrom_eq (d : Go.Bytes) (lo : Int) (h0 : 0 ≤ lo) (h1 : lo.toNat ≤ d.size) :
    Go.bsliceFrom d lo = .ok (d.extract lo.toNat d.size) := by
  unfold Go.bsliceFrom Go.bslice
  have : 0 ≤ lo ∧ lo ≤ (d.size : Int) ∧ (d.size : Int).toNat ≤ d.size := by omega
  rw [if_pos this]; rfl

theorem parse_eq_rest (g : Globals) (d : Go.Bytes) (op : UInt64) :
    Gen.parse g d op = (do
      if ((Go.len d) == (0 : Int64)) then
        return ((default : Gen.Decimal), Go.Err.parseSyntaxError)
      let t_1 ← Go.bget d (0 : Int)
      if (t_1 == (43 : UInt8)) then
        let t_2 ← Go.bsliceFrom d (1 : Int)
        parseRest g op t_2 false
      else
        let t_3 ← Go.bget d (0 : Int)
        if (t_3 == (45 : UInt8)) then
          let t_4 ← Go.bsliceFrom d (1 : Int)
          parseRest g op t_4 true
        else parseRest g op d false) := by
  rfl

def eqc (b x y : UInt8) : Bool := b == x || b == y

theorem ite_pure_true (c : Bool) (y : Bool) :
    (if c = true then (pure true : Go.GoM Bool) else pure y) = pure (c || y) := by
  cases c <;> rfl

theorem ite_pure_false (c : Bool) (y : Bool) :
    (if c = true then (pure y : Go.GoM Bool) else pure false) = pure (c && y) := by
  cases c <;> rfl

def isInf3 (b0 b1 b2 : UInt8) : Bool :=
  (b0 == 73 || b0 == 105) && (b1 == 78 || b1 == 110) && (b2 == 70 || b2 == 102)
def isNan3 (b0 b1 b2 : UInt8) : Bool :=
  (b0 == 78 || b0 == 110) && (b1 == 65 || b1 == 97) && (b2 == 78 || b2 == 110)

def isInf8 (b0 b1 b2 b3 b4 b5 b6 b7 : UInt8) : Bool :=
  (b0 == 73 || b0 == 105) && (b1 == 78 || b1 == 110) && (b2 == 70 || b2 == 102) &&
  (b3 == 73 || b3 == 105) && (b4 == 78 || b4 == 110) && (b5 == 73 || b5 == 105) &&
  (b6 == 84 || b6 == 116) && (b7 == 89 || b7 == 121)

theorem parseRest_0 (g : Globals) (op : UInt64) (neg : Bool) :
    parseRest g op #[] neg = pure ((default : Gen.Decimal), Go.Err.parseSyntaxError) := by
  have hl : Go.len #[] = 0 := rfl
  unfold parseRest
  simp only [hl]
  rfl

theorem parseRest_3 (g : Globals) (op : UInt64) (b0 b1 b2 : UInt8) (neg : Bool) :
    parseRest g op #[b0, b1, b2] neg =
      if isInf3 b0 b1 b2 then pure (Gen.inf neg, Go.Err.nil)
      else if isNan3 b0 b1 b2 then pure (Gen.nan op 0 0, Go.Err.nil)
      else tailNum g #[b0, b1, b2] neg := by
  have h0 : Go.bget #[b0, b1, b2] 0 = pure b0 := rfl
  have h1 : Go.bget #[b0, b1, b2] 1 = pure b1 := rfl
  have h2 : Go.bget #[b0, b1, b2] 2 = pure b2 := rfl
  have hl : Go.len #[b0, b1, b2] = 3 := rfl
  unfold parseRest
  simp only [h0, h1, h2, hl, pure_bind, ite_pure_true, ite_pure_false]
  rw [if_neg (by decide), if_pos (by decide)]
  rfl

theorem parseRest_8 (g : Globals) (op : UInt64) (b0 b1 b2 b3 b4 b5 b6 b7 : UInt8) (neg : Bool) :
    parseRest g op #[b0, b1, b2, b3, b4, b5, b6, b7] neg =
      if isInf8 b0 b1 b2 b3 b4 b5 b6 b7 then pure (Gen.inf neg, Go.Err.nil)
      else tailNum g #[b0, b1, b2, b3, b4, b5, b6, b7] neg := by
  have h0 : Go.bget #[b0, b1, b2, b3, b4, b5, b6, b7] 0 = pure b0 := rfl
  have h1 : Go.bget #[b0, b1, b2, b3, b4, b5, b6, b7] 1 = pure b1 := rfl
  have h2 : Go.bget #[b0, b1, b2, b3, b4, b5, b6, b7] 2 = pure b2 := rfl
  have h3 : Go.bget #[b0, b1, b2, b3, b4, b5, b6, b7] 3 = pure b3 := rfl
  have h4 : Go.bget #[b0, b1, b2, b3, b4, b5, b6, b7] 4 = pure b4 := rfl
  have h5 : Go.bget #[b0, b1, b2, b3, b4, b5, b6, b7] 5 = pure b5 := rfl
  have h6 : Go.bget #[b0, b1, b2, b3, b4, b5, b6, b7] 6 = pure b6 := rfl
  have h7 : Go.bget #[b0, b1, b2, b3, b4, b5, b6, b7] 7 = pure b7 := rfl
  have hl : Go.len #[b0, b1, b2, b3, b4, b5, b6, b7] = 8 := rfl
  unfold parseRest
  simp only [h0, h1, h2, h3, h4, h5, h6, h7, hl, pure_bind, ite_pure_true, ite_pure_false]
  rw [if_neg (by decide), if_neg (by decide), if_pos (by decide)]
  rfl

theorem len_eq_iff (d : Go.Bytes) (hsz : d.size < 2^63) (k : Nat) (hk : k < 2^63) :
    (Go.len d == Int64.ofNat k) = decide (d.size = k) := by
  have h1 := len_toInt d hsz
  have h2 : (Int64.ofNat k).toInt = k := Int64.toInt_ofNat_of_lt hk
  by_cases h : d.size = k
  · simp only [h, decide_true, beq_iff_eq]
    unfold Go.len; rw [h]
  · simp only [h, decide_false, beq_eq_false_iff_ne, ne_eq]
    intro he
    rw [he, h2] at h1
    omega

theorem parseRest_other (g : Globals) (op : UInt64) (d : Go.Bytes) (neg : Bool) (hsz : d.size < 2^63)
    (h0 : d.size ≠ 0) (h3 : d.size ≠ 3) (h8 : d.size ≠ 8) :
    parseRest g op d neg = tailNum g d neg := by
  have e0 : (Go.len d == (0 : Int64)) = false := by
    rw [show (0 : Int64) = Int64.ofNat 0 from rfl, len_eq_iff d hsz 0 (by decide)]; simp [h0]
  have e3 : (Go.len d == (3 : Int64)) = false := by
    rw [show (3 : Int64) = Int64.ofNat 3 from rfl, len_eq_iff d hsz 3 (by decide)]; simp [h3]
  have e8 : (Go.len d == (8 : Int64)) = false := by
    rw [show (8 : Int64) = Int64.ofNat 8 from rfl, len_eq_iff d hsz 8 (by decide)]; simp [h8]
  unfold parseRest
  simp only [e0, e3, e8]
  rfl

/-- `parseRest` as a function of the byte list -/
def restM (g : Globals) (op : UInt64) (body : List UInt8) (neg : Bool) : Go.GoM (Gen.Decimal × Go.Err) :=
  match body with
  | [] => pure ((default : Gen.Decimal), Go.Err.parseSyntaxError)
  | [b0, b1, b2] =>
    if isInf3 b0 b1 b2 then pure (Gen.inf neg, Go.Err.nil)
    else if isNan3 b0 b1 b2 then pure (Gen.nan op 0 0, Go.Err.nil)
    else tailNum g #[b0, b1, b2] neg
  | [b0, b1, b2, b3, b4, b5, b6, b7] =>
    if isInf8 b0 b1 b2 b3 b4 b5 b6 b7 then pure (Gen.inf neg, Go.Err.nil)
    else tailNum g #[b0, b1, b2, b3, b4, b5, b6, b7] neg
  | body => tailNum g body.toArray neg

theorem parseRest_eq (g : Globals) (op : UInt64) (d : Go.Bytes) (neg : Bool) (hsz : d.size < 2^63) :
    parseRest g op d neg = restM g op d.toList neg := by
  obtain ⟨l⟩ := d
  simp only [List.size_toArray] at hsz
  show parseRest g op (Array.mk l) neg = restM g op l neg
  unfold restM
  split
  · exact parseRest_0 g op neg
  · exact parseRest_3 g op _ _ _ neg
  · exact parseRest_8 g op _ _ _ _ _ _ _ _ neg
  · rename_i h0 h3 h8
    apply parseRest_other g op _ neg (by simpa using hsz)
    · intro h; apply h0; simpa using h
    · intro h
      simp only [List.size_toArray] at h
      match l, h with
      | [a, b, c], _ => exact h3 a b c rfl
    · intro h
      simp only [List.size_toArray] at h
      match l, h with
      | [a, b, c, d, e, f, g', i], _ => exact h8 a b c d e f g' i rfl

/-- functional model of `Gen.parse` on the byte list -/
def parseM (g : Globals) (op : UInt64) (cs : List UInt8) : Go.GoM (Gen.Decimal × Go.Err) :=
  match cs with
  | [] => pure ((default : Gen.Decimal), Go.Err.parseSyntaxError)
  | c :: body =>
    if c == (43 : UInt8) then restM g op body false
    else if c == (45 : UInt8) then restM g op body true
    else restM g op (c :: body) false

theorem extract_tail (b : UInt8) (l : List UInt8) :
    (Array.mk (b :: l)).extract 1 (Array.mk (b :: l)).size = Array.mk l := by
  apply Array.ext'
  simp

theorem parse_eq (g : Globals) (d : Go.Bytes) (op : UInt64) (hsz : d.size < 2^63) :
    Gen.parse g d op = parseM g op d.toList := by
  rw [parse_eq_rest]
  obtain ⟨l⟩ := d
  cases l with
  | nil => rfl
  | cons b l =>
    simp only [List.size_toArray, List.length_cons] at hsz
    have hlen : (Go.len (Array.mk (b :: l)) == (0 : Int64)) = false := by
      rw [show (0 : Int64) = Int64.ofNat 0 from rfl, len_eq_iff _ (by simpa using hsz) 0 (by decide)]
      simp
    have hget : Go.bget (Array.mk (b :: l)) 0 = pure b := rfl
    have hsl : Go.bsliceFrom (Array.mk (b :: l)) 1 = pure (Array.mk l) := by
      rw [bsliceFrom_eq _ _ (by decide) (by simp), ← extract_tail b l]; rfl
    simp only [hlen, hget, hsl, pure_bind, parseM]
    have hl : (Array.mk l).size < 2^63 := by simp only [List.size_toArray]; omega
    rw [parseRest_eq g op _ false hl, parseRest_eq g op _ true hl,
      parseRest_eq g op _ false (by simpa using hsz)]
    rfl


/-! ## bytes as characters -/

def toChar (b : UInt8) : Char := Char.ofNat b.toNat

theorem toNat_ofNat_small (n : Nat) (h : n < 0xd800) : (Char.ofNat n).toNat = n := by
  unfold Char.ofNat
  rw [dif_pos (Or.inl h)]
  simp [Char.ofNatAux, Char.toNat, UInt32.toNat_ofNatLT]

theorem toChar_toNat (b : UInt8) : (toChar b).toNat = b.toNat := by
  have := b.toNat_lt
  exact toNat_ofNat_small _ (by omega)

theorem toChar_inj {a b : UInt8} (h : toChar a = toChar b) : a = b := by
  have := congrArg Char.toNat h
  rw [toChar_toNat, toChar_toNat] at this
  exact UInt8.toNat_inj.mp this

theorem toChar_eq_iff (b : UInt8) (c : Char) (k : UInt8) (hk : c = toChar k) : toChar b = c ↔ b = k := by
  subst hk
  exact ⟨toChar_inj, fun h => by rw [h]⟩

theorem char_le_iff (a b : Char) : a ≤ b ↔ a.toNat ≤ b.toNat := by
  rw [Char.le_def, UInt32.le_iff_toNat_le]; rfl

theorem isDigit_toChar (b : UInt8) : Spec.isDigit (toChar b) = isDig b := by
  unfold Spec.isDigit isDig
  rw [Bool.eq_iff_iff]
  simp only [Bool.and_eq_true, decide_eq_true_eq, char_le_iff, toChar_toNat, ge_iff_le, UInt8.le_iff_toNat_le]
  rfl

theorem digitVal_toChar (b : UInt8) : Spec.digitVal (toChar b) = b.toNat - 48 := by
  unfold Spec.digitVal; rw [toChar_toNat]

def lowB (b : UInt8) : UInt8 := if 65 ≤ b ∧ b ≤ 90 then b + 32 else b

theorem lower_toChar (b : UInt8) : Spec.lower (toChar b) = toChar (lowB b) := by
  unfold Spec.lower lowB
  have hb := b.toNat_lt
  by_cases h : 65 ≤ b ∧ b ≤ 90
  · have h' : ('A' ≤ toChar b && toChar b ≤ 'Z') = true := by
      simp only [Bool.and_eq_true, decide_eq_true_eq, char_le_iff, toChar_toNat]
      simp only [UInt8.le_iff_toNat_le] at h
      exact h
    rw [if_pos h', if_pos h, toChar_toNat]
    unfold toChar
    congr 1
    simp only [UInt8.le_iff_toNat_le] at h
    rw [UInt8.toNat_add]
    have : (65 : UInt8).toNat = 65 := rfl
    have : (90 : UInt8).toNat = 90 := rfl
    have : (32 : UInt8).toNat = 32 := rfl
    omega
  · have h' : ¬ ('A' ≤ toChar b && toChar b ≤ 'Z') = true := by
      simp only [Bool.and_eq_true, decide_eq_true_eq, char_le_iff, toChar_toNat]
      simp only [UInt8.le_iff_toNat_le] at h
      exact h
    rw [if_neg h', if_neg h]

theorem lowB_eq_iff (b k : UInt8) (hk : 97 ≤ k.toNat ∧ k.toNat ≤ 122) :
    lowB b = k ↔ (b = k ∨ b = k - 32) := by
  unfold lowB
  have hb := b.toNat_lt
  have hkk := k.toNat_lt
  have e65 : (65 : UInt8).toNat = 65 := rfl
  have e90 : (90 : UInt8).toNat = 90 := rfl
  have e32 : (32 : UInt8).toNat = 32 := rfl
  simp only [UInt8.le_iff_toNat_le, ← UInt8.toNat_inj, e65, e90]
  have hs : (k - 32).toNat = k.toNat - 32 := by
    rw [UInt8.toNat_sub_of_le]; rfl
    rw [UInt8.le_iff_toNat_le, e32]; omega
  have ha : (b + 32).toNat = (b.toNat + 32) % 256 := by rw [UInt8.toNat_add, e32]
  rw [hs]
  split
  · rw [ha]; omega
  · omega

theorem lower_toChar_beq (b k : UInt8) (hk : 97 ≤ k.toNat ∧ k.toNat ≤ 122) :
    (Spec.lower (toChar b) == toChar k) = (b == k - 32 || b == k) := by
  rw [Bool.eq_iff_iff]
  simp only [beq_iff_eq, Bool.or_eq_true, lower_toChar]
  constructor
  · intro h
    rcases (lowB_eq_iff b k hk).mp (toChar_inj h) with h | h
    · exact Or.inr h
    · exact Or.inl h
  · intro h
    rw [(lowB_eq_iff b k hk).mpr (by rcases h with h | h; exact Or.inr h; exact Or.inl h)]

def isInfL (cs : List UInt8) : Bool :=
  match cs with
  | [b0, b1, b2] => isInf3 b0 b1 b2
  | [b0, b1, b2, b3, b4, b5, b6, b7] => isInf8 b0 b1 b2 b3 b4 b5 b6 b7
  | _ => false

def isNanL (cs : List UInt8) : Bool :=
  match cs with
  | [b0, b1, b2] => isNan3 b0 b1 b2
  | _ => false

theorem eqFold_nan (cs : List UInt8) : Spec.eqFold (cs.map toChar) "nan" = isNanL cs := by
  unfold Spec.eqFold
  rw [show "nan".toList = [toChar 110, toChar 97, toChar 110] from rfl]
  match cs with
  | [] => rfl
  | [_] => simp [isNanL]
  | [_, _] => simp [isNanL]
  | [a, b, c] =>
    simp only [List.map, List.cons_beq_cons, isNanL, isNan3]
    rw [lower_toChar_beq a 110 (by decide), lower_toChar_beq b 97 (by decide), lower_toChar_beq c 110 (by decide)]
    simp [Bool.and_assoc]
  | _ :: _ :: _ :: _ :: _ => simp [isNanL]

theorem eqFold_inf (cs : List UInt8) :
    (Spec.eqFold (cs.map toChar) "inf" || Spec.eqFold (cs.map toChar) "infinity") = isInfL cs := by
  unfold Spec.eqFold
  rw [show "inf".toList = [toChar 105, toChar 110, toChar 102] from rfl,
    show "infinity".toList = [toChar 105, toChar 110, toChar 102, toChar 105, toChar 110, toChar 105,
      toChar 116, toChar 121] from rfl]
  match cs with
  | [] => rfl
  | [_] => simp [isInfL]
  | [_, _] => simp [isInfL]
  | [a, b, c] =>
    simp only [List.map, List.cons_beq_cons, isInfL, isInf3]
    rw [lower_toChar_beq a 105 (by decide), lower_toChar_beq b 110 (by decide), lower_toChar_beq c 102 (by decide)]
    simp [Bool.and_assoc]
  | [_, _, _, _] => simp [isInfL]
  | [_, _, _, _, _] => simp [isInfL]
  | [_, _, _, _, _, _] => simp [isInfL]
  | [_, _, _, _, _, _, _] => simp [isInfL]
  | [a, b, c, d, e, f, g, h] =>
    simp only [List.map, List.cons_beq_cons, isInfL, isInf8]
    rw [lower_toChar_beq a 105 (by decide), lower_toChar_beq b 110 (by decide), lower_toChar_beq c 102 (by decide),
      lower_toChar_beq d 105 (by decide), lower_toChar_beq e 110 (by decide), lower_toChar_beq f 105 (by decide),
      lower_toChar_beq g 116 (by decide), lower_toChar_beq h 121 (by decide)]
    simp [Bool.and_assoc]
  | _ :: _ :: _ :: _ :: _ :: _ :: _ :: _ :: _ :: _ => simp [isInfL]



/-! ## totality of `parse` -/

theorem parseNumber_total' (g : Globals) (d : Go.Bytes) (neg sep : Bool)
    (hsz : d.size < 2^63) :
    ∃ r e, Gen.parseNumber g d neg sep = .ok (r, e) ∧ okErr e := by
  rw [parseNumber_eq_model g d neg sep hsz]
  exact model_total g d.toList neg sep

def okErrP (e : Go.Err) : Prop := e = .nil ∨ e = .parseSyntaxError ∨ e = .parseRangeError

/-- the error translation of `parse` -/
def mapErr (e : Go.Err) : Go.Err :=
  if e = .parseNumberRangeError then .parseRangeError
  else if e = .parseNumberSyntaxError then .parseSyntaxError else e

theorem tailNum_of_ok (g : Globals) (d : Go.Bytes) (neg : Bool) (r : Gen.Decimal) (e : Go.Err)
    (h : Gen.parseNumber g d neg true = .ok (r, e)) : tailNum g d neg = .ok (r, mapErr e) := by
  unfold tailNum
  rw [h]
  cases e <;> rfl

theorem tailNum_total (g : Globals) (d : Go.Bytes) (neg : Bool)
    (hsz : d.size < 2^63) :
    ∃ r e, tailNum g d neg = .ok (r, e) ∧ okErrP e := by
  obtain ⟨r, e, h1, h2⟩ := parseNumber_total' g d neg true hsz
  refine ⟨r, mapErr e, tailNum_of_ok g d neg r e h1, ?_⟩
  rcases h2 with h | h | h <;> subst h
  · exact Or.inl rfl
  · exact Or.inr (Or.inl rfl)
  · exact Or.inr (Or.inr rfl)

theorem restM_total (g : Globals) (op : UInt64) (body : List UInt8) (neg : Bool)
    (hsz : body.length < 2^63) :
    ∃ r e, restM g op body neg = .ok (r, e) ∧ okErrP e := by
  unfold restM
  split
  · exact ⟨_, _, rfl, Or.inr (Or.inl rfl)⟩
  · split
    · exact ⟨_, _, rfl, Or.inl rfl⟩
    split
    · exact ⟨_, _, rfl, Or.inl rfl⟩
    · exact tailNum_total g _ neg (by simp)
  · split
    · exact ⟨_, _, rfl, Or.inl rfl⟩
    · exact tailNum_total g _ neg (by simp)
  · exact tailNum_total g _ neg (by simpa using hsz)

theorem parseM_total (g : Globals) (op : UInt64) (cs : List UInt8)
    (hsz : cs.length < 2^63) :
    ∃ r e, parseM g op cs = .ok (r, e) ∧ okErrP e := by
  unfold parseM
  split
  · exact ⟨_, _, rfl, Or.inr (Or.inl rfl)⟩
  · rename_i c body
    simp only [List.length_cons] at hsz
    split
    · exact restM_total g op body false (by omega)
    split
    · exact restM_total g op body true (by omega)
    · exact restM_total g op (c :: body) false (by simpa using hsz)

/-! ## the special names -/

def chars (d : Go.Bytes) : List Char := d.toList.map toChar

theorem restM_inf (g : Globals) (op : UInt64) (body : List UInt8) (neg : Bool) (h : isInfL body = true) :
    restM g op body neg = .ok (Gen.inf neg, Go.Err.nil) := by
  unfold isInfL at h
  unfold restM
  split at h
  · simp only [h, if_true]; rfl
  · simp only [h, if_true]; rfl
  · exact absurd h (by decide)

theorem isInf3_not_nan {b0 b1 b2 : UInt8} (h : isNan3 b0 b1 b2 = true) : isInf3 b0 b1 b2 = false := by
  unfold isNan3 at h
  unfold isInf3
  simp only [Bool.and_eq_true, Bool.or_eq_true, beq_iff_eq] at h
  rcases h.1.1 with h0 | h0 <;> subst h0 <;> simp

theorem restM_nan (g : Globals) (op : UInt64) (body : List UInt8) (neg : Bool) (h : isNanL body = true) :
    restM g op body neg = .ok (Gen.nan op 0 0, Go.Err.nil) := by
  unfold isNanL at h
  unfold restM
  split at h
  · simp only [isInf3_not_nan h, h, if_true]; rfl
  · exact absurd h (by decide)

/-! ## `Spec.readLiteral` and the names -/


def litBody (sep names neg signed : Bool) (body : List Char) : Option Spec.Lit :=
  if names && (Spec.eqFold body "inf" || Spec.eqFold body "infinity") then some (.inf neg)
  else if names && Spec.eqFold body "nan" then some (.nan signed)
  else match Spec.readNumber sep body with
    | some (n, sc) => some (.num neg n sc)
    | none => none

theorem readLiteral_nil (sep names : Bool) : Spec.readLiteral sep names [] = litBody sep names false false [] := by
  rfl

theorem readLiteral_cons (sep names : Bool) (c : Char) (r : List Char) :
    Spec.readLiteral sep names (c :: r) =
      if c = '-' then litBody sep names true true r
      else if c = '+' then litBody sep names false true r
      else litBody sep names false false (c :: r) := by
  by_cases h1 : c = '-'
  · subst h1; rw [if_pos rfl]; unfold Spec.readLiteral litBody; simp only []; rfl
  by_cases h2 : c = '+'
  · subst h2; rw [if_neg (by decide), if_pos rfl]; unfold Spec.readLiteral litBody; simp only []; rfl
  rw [if_neg h1, if_neg h2]
  unfold Spec.readLiteral litBody
  have : Spec.readLiteral.match_1 (fun _ => Bool × Bool × List Char) (c :: r) (fun r => (true, true, r))
      (fun r => (false, true, r)) (fun r => (false, false, r)) = (false, false, c :: r) := by
    unfold Spec.readLiteral.match_1
    show dite (c = '-') _ _ = _
    rw [dif_neg h1, dif_neg h2]
  rw [this]; rfl

theorem litBody_inf {sep n sg : Bool} {body : List Char} {neg : Bool}
    (h : litBody sep true n sg body = some (.inf neg)) :
    n = neg ∧ (Spec.eqFold body "inf" || Spec.eqFold body "infinity") = true := by
  unfold litBody at h
  split at h
  · rename_i hc
    simp only [Bool.true_and] at hc
    exact ⟨by injection h with h; injection h, hc⟩
  · split at h
    · cases h
    · split at h <;> cases h

theorem litBody_nan {sep n sg : Bool} {body : List Char} {signed : Bool}
    (h : litBody sep true n sg body = some (.nan signed)) :
    Spec.eqFold body "nan" = true := by
  unfold litBody at h
  split at h
  · cases h
  · split at h
    · rename_i hc; simpa using hc
    · split at h <;> cases h

theorem toChar_45 : toChar 45 = '-' := rfl
theorem toChar_43 : toChar 43 = '+' := rfl

theorem parseM_cons (g : Globals) (op : UInt64) (c : UInt8) (body : List UInt8) :
    parseM g op (c :: body) =
      if c == (43 : UInt8) then restM g op body false
      else if c == (45 : UInt8) then restM g op body true
      else restM g op (c :: body) false := rfl

theorem parseM_inf (g : Globals) (op : UInt64) (cs : List UInt8) (neg : Bool)
    (h : Spec.readLiteral true true (cs.map toChar) = some (.inf neg)) :
    parseM g op cs = .ok (Gen.inf neg, Go.Err.nil) := by
  cases cs with
  | nil => cases neg <;> exact absurd h (by decide)
  | cons c body =>
    rw [List.map_cons, readLiteral_cons] at h
    rw [parseM_cons]
    by_cases h45 : c = 45
    · subst h45
      rw [if_pos toChar_45] at h
      obtain ⟨hn, hb⟩ := litBody_inf h
      rw [eqFold_inf] at hb
      subst hn
      rw [if_neg (by decide), if_pos (by decide)]
      exact restM_inf g op body true hb
    by_cases h43 : c = 43
    · subst h43
      rw [if_neg (by decide), if_pos toChar_43] at h
      obtain ⟨hn, hb⟩ := litBody_inf h
      rw [eqFold_inf] at hb
      subst hn
      rw [if_pos (by decide)]
      exact restM_inf g op body false hb
    · have e1 : toChar c ≠ '-' := fun hh => h45 (toChar_inj (hh.trans toChar_45.symm))
      have e2 : toChar c ≠ '+' := fun hh => h43 (toChar_inj (hh.trans toChar_43.symm))
      rw [if_neg e1, if_neg e2, ← List.map_cons] at h
      obtain ⟨hn, hb⟩ := litBody_inf h
      rw [eqFold_inf] at hb
      subst hn
      rw [if_neg (by simpa using h43), if_neg (by simpa using h45)]
      exact restM_inf g op (c :: body) false hb

theorem parseM_nan (g : Globals) (op : UInt64) (cs : List UInt8) (signed : Bool)
    (h : Spec.readLiteral true true (cs.map toChar) = some (.nan signed)) :
    parseM g op cs = .ok (Gen.nan op 0 0, Go.Err.nil) := by
  cases cs with
  | nil => cases signed <;> exact absurd h (by decide)
  | cons c body =>
    rw [List.map_cons, readLiteral_cons] at h
    rw [parseM_cons]
    by_cases h45 : c = 45
    · subst h45
      rw [if_pos toChar_45] at h
      have hb := litBody_nan h
      rw [eqFold_nan] at hb
      rw [if_neg (by decide), if_pos (by decide)]
      exact restM_nan g op body true hb
    by_cases h43 : c = 43
    · subst h43
      rw [if_neg (by decide), if_pos toChar_43] at h
      have hb := litBody_nan h
      rw [eqFold_nan] at hb
      rw [if_pos (by decide)]
      exact restM_nan g op body false hb
    · have e1 : toChar c ≠ '-' := fun hh => h45 (toChar_inj (hh.trans toChar_45.symm))
      have e2 : toChar c ≠ '+' := fun hh => h43 (toChar_inj (hh.trans toChar_43.symm))
      rw [if_neg e1, if_neg e2, ← List.map_cons] at h
      have hb := litBody_nan h
      rw [eqFold_nan] at hb
      rw [if_neg (by simpa using h43), if_neg (by simpa using h45)]
      exact restM_nan g op (c :: body) false hb


end Parse
