/-
  D128/Proofs/RoundKernelReduce.lean — correctness of `Gen.RoundingMode.reduce128`
  (Go: /repo/rounding.go) against `Spec.flushOrRoundS`.

  Provided:
  * `RK.reduce_core`      : the ladder + common tail (`ladder128 (reduceTail rm neg)`) started from a
                            128-bit significand and sticky flag denoting `(N + τ0)·10^(E-6176)`
  * `reduce128_correct`   : T2
-/
import D128.Proofs.RoundKernelReduceCode
import D128.Proofs.RoundKernelReduceMath

set_option autoImplicit false
set_option maxRecDepth 4096

namespace RK
open Gen Spec

theorem truncRel_cases (t : Int) (τ : ℚ) (h : TruncRel t τ) : t = 0 ∨ t = 1 ∨ t = -1 := by
  rcases h with ⟨h, _⟩ | ⟨h, _⟩ | ⟨h, _⟩ <;> simp [h]

theorem kinv_unpack (V : ℚ) (s d : Nat) (t e : Int) (h : KInv V s d t e) (hV : 0 < V) :
    ∃ τ : ℚ, TruncRel t τ ∧ d ≤ 9 ∧ 0 < (s : ℚ) + ((d : ℚ) + τ) / 10 ∧
      ((s : ℚ) + ((d : ℚ) + τ) / 10) * Spec.pow10 e = V ∧
      (t = -1 → -1 / 10 < τ ∨ 10 * 2 ^ 110 ≤ s) := by
  obtain ⟨τ, h1, h2, h3, h4⟩ := h
  refine ⟨τ, h1, h2, ?_, h3, h4⟩
  by_contra hc
  have : ((s : ℚ) + ((d : ℚ) + τ) / 10) * Spec.pow10 e ≤ 0 :=
    mul_nonpos_of_nonpos_of_nonneg (not_lt.1 hc) (le_of_lt (pow10_pos e))
  linarith

theorem pow_lt_of_mul_le (s x N B : Nat) (h : s * 10 ^ x ≤ N) (hs : 10 ^ B ≤ s) (hN : N < 10 ^ 39)
    (hB : B ≤ 39) : x < 39 - B + 1 := by
  by_contra hc
  have hx : 39 - B + 1 ≤ x := by omega
  have h1 : 10 ^ (39 - B + 1) ≤ 10 ^ x := Nat.pow_le_pow_right (by norm_num) hx
  have h2 : 10 ^ B * 10 ^ (39 - B + 1) ≤ s * 10 ^ x := Nat.mul_le_mul hs h1
  have h3 : 10 ^ B * 10 ^ (39 - B + 1) = 10 ^ 40 := by
    rw [← pow_add]; congr 1; omega
  have : (10 : Nat) ^ 39 < 10 ^ 40 := by norm_num
  omega

/-- invariant of the sub-minimum-exponent loop (and entry condition of the last phase) -/
def PCd (V : ℚ) (T : Int) (s d : Nat) (t e : Int) : Prop :=
  KInv V s d t e ∧ s ≤ Spec.Cmax ∧ (t = T ∨ t = 1) ∧ e ≤ 20300 ∧ 1 ≤ 10 * s + d ∧
    (2 ^ 110 ≤ s ∨ (d = 0 ∧ t = 0) ∨ e ≤ 0)

theorem pcd_step (V : ℚ) (T : Int) (s d : Nat) (t e : Int) (h : PCd V T s d t e) (hneg : e < 0)
    (hnz : ¬ (s / 10 = 0 ∧ s % 10 = 0)) :
    PCd V T (s / 10) (s % 10) (if d ≠ 0 then 1 else t) (e + 1) := by
  obtain ⟨hk, hle, htt, hb, _, _⟩ := h
  refine ⟨kinv_drop V s d t e hk, by omega, ?_, by omega, by omega, Or.inr (Or.inr (by omega))⟩
  split
  · right; rfl
  · exact htt

/-- the last phase shared by all reductions: after the sub-minimum-exponent loop (flushed, or
    invariant at a non-negative exponent) the rescaling loop and `round` deliver the result -/
theorem phaseD_correct (rm : UInt8) (m : Mode) (neg : Bool) (sig3 : U128) (exp3 : Int16)
    (trunc3 : Int8) (digit3 : UInt64) (q : ℚ) (k : Int) (V : ℚ) (T : Int)
    (hm : Spec.Mode.ofNat? rm.toNat = some m) (hVpos : 0 < V) (hq : 0 < q)
    (hVV : q * Spec.pow10 k = V * Spec.pow10 (-6176)) (hfl' : T = -1 → 1 / 10 ≤ V)
    (hpost3 : (sig3.toNat = 0 ∧ exp3 = 0 ∧ trunc3 = 0 ∧ digit3 = 0 ∧
          ∃ d t e, PCd V T 0 d t e ∧ e < 0) ∨
       (PCd V T sig3.toNat digit3.toNat trunc3.toInt exp3.toInt ∧ 0 ≤ exp3.toInt)) :
    ∃ sig' exp', (do
        let s1 ← upLoop (sig3, exp3)
        RoundingMode.round rm true neg s1.1 s1.2 trunc3 digit3) = .ok (sig', exp') ∧
      RoundPost (flushOrRoundS m neg q k) neg sig' exp' := by
  have hCm := Cmax_val
  rcases hpost3 with ⟨hs0, he0', ht0, hd0, d', t', e', hPC', hneg'⟩ | ⟨hPC3, hnn3⟩
  · -- flushed to zero
    have hVlt : V < 1 / 10 := kinv_lt_tenth V d' t' e' hPC'.1 hneg' hVpos
    rw [spec_flush m neg q k hq V hVV hVlt]
    obtain ⟨st4, hD, hP4, _⟩ := upLoop_inv (fun s e => s = 0 ∧ e = 0)
      (by intro s e ⟨_, h⟩ hgt _; omega) (sig3, exp3) ⟨hs0, by rw [he0']; rfl⟩
    rw [hD, ok_bind, ht0, hd0]
    have ha : adjZ m neg (st4.1.w0.toNat % 2 == 1) (0 : Int8).toInt (0 : UInt64).toNat = 0 := by
      cases m <;> cases neg <;> simp [adjZ]
    have hW := adjW_eq_of rm m neg st4.1.w0 0 0 hm (by simp) 0 (by rw [ha]; rfl)
    refine ⟨st4.1, st4.2, round_adj0 _ _ _ _ _ _ _ hW, ?_⟩
    unfold RoundPost
    rw [if_neg (by rw [hP4.2]; decide), hP4.1, hP4.2]
    refine ⟨by omega, le_refl _, ?_⟩
    simp [Val.same, Spec.mag]
  · -- rounded
    obtain ⟨hk3, hle3, htt3, hb3, hsd3, hfe3⟩ := hPC3
    have hVge : 1 / 10 ≤ V := by
      apply kinv_ge_tenth V _ _ _ _ hk3 hnn3 hsd3
      intro htm
      apply hfl'
      rcases htt3 with h | h
      · rw [← h]; exact htm
      · rw [h] at htm; exact absurd htm (by decide)
    -- loop D
    let PD : Nat → Int → Prop := fun s e =>
      KInv V s digit3.toNat trunc3.toInt e ∧ s ≤ Spec.Cmax ∧ 0 ≤ e ∧ e ≤ 20300 ∧
        (2 ^ 110 ≤ s ∨ (digit3.toNat = 0 ∧ trunc3.toInt = 0) ∨ e = 0)
    have hPD3 : PD sig3.toNat exp3.toInt :=
      ⟨hk3, hle3, hnn3, hb3, by
        rcases hfe3 with h | h | h
        · exact Or.inl h
        · exact Or.inr (Or.inl h)
        · exact Or.inr (Or.inr (by omega))⟩
    have hstepD : ∀ s e, PD s e → 12287 < e → 10 * s ≤ Spec.Cmax → PD (10 * s) (e - 1) := by
      intro s e ⟨hk, _, _, hb, hfe⟩ hgt hle
      have hex : digit3.toNat = 0 ∧ trunc3.toInt = 0 := by
        rcases hfe with h | h | h
        · rw [hCm] at hle; omega
        · exact h
        · omega
      refine ⟨?_, hle, by omega, by omega, Or.inr (Or.inl hex)⟩
      rw [hex.1, hex.2] at hk ⊢
      exact kinv_times10 V s e hk
    obtain ⟨st4, hD, ⟨hk4, hle4, hnn4, hb4, hfe4⟩, hrange4⟩ :=
      upLoop_inv PD hstepD (sig3, exp3) hPD3
    rw [hD, ok_bind]
    obtain ⟨τ, hτ, hd9, hq4, hv4, hj4⟩ := kinv_unpack V _ _ _ _ hk4 hVpos
    have hspec := spec_round m neg q k hq V hVV hVge
      ((st4.1.toNat : ℚ) + ((digit3.toNat : ℚ) + τ) / 10) (st4.2.toInt - 6176) hq4
      (by rw [sub_eq_add_neg, pow10_add, ← mul_assoc, hv4])
    rw [hspec]
    exact round_correct rm m neg st4.1 st4.2 trunc3 digit3 τ hm hle4 hnn4 (by omega) hd9 hτ hq4
      (by
        rcases hfe4 with h | ⟨h1, h2⟩ | h
        · exact Or.inl h
        · exact Or.inr (Or.inr ⟨h1, Int8.toInt_inj.1 (h2.trans (by rfl))⟩)
        · exact Or.inr (Or.inl h))
      hrange4
      (by
        intro _ _ htm _ _
        have : trunc3.toInt = -1 := by rw [htm]; rfl
        rcases hj4 this with h | h
        · linarith
        · rw [hCm] at hle4; omega)

/-- The ladder and the common tail of `reduce128/192/256`, started from a 128-bit significand `N`,
    no guard digit and a sticky flag standing for `τ0`: exact magnitude `(N + τ0)·10^(E-6176)`,
    which is also `q·10^k`. -/
theorem reduce_core (rm : UInt8) (m : Mode) (neg : Bool) (sig : U128) (exp : Int16) (trunc : Int8)
    (τ0 q : ℚ) (k : Int) (hm : Spec.Mode.ofNat? rm.toNat = some m)
    (he0 : -20200 ≤ exp.toInt) (he1 : exp.toInt ≤ 20200)
    (ht : TruncRel trunc.toInt τ0) (hpos : 0 < (sig.toNat : ℚ) + τ0) (hq : 0 < q)
    (hV : q * Spec.pow10 k = ((sig.toNat : ℚ) + τ0) * Spec.pow10 (exp.toInt - 6176))
    (hT1 : trunc = 1 → Spec.Cmax < sig.toNat)
    (hTm1 : trunc = -1 → Spec.Cmax < sig.toNat ∧ (100 * 2 ^ 110 ≤ sig.toNat ∨ -1 / 10 < τ0))
    (hfl : trunc = -1 → Spec.pow10 (Emin - 1) ≤ q * Spec.pow10 k) :
    ∃ sig' exp', ladder128 (reduceTail rm neg) sig exp trunc = .ok (sig', exp') ∧
      RoundPost (flushOrRoundS m neg q k) neg sig' exp' := by
  have hCm := Cmax_val
  have hN128 := sig.toNat_lt
  set N := sig.toNat with hN
  set T := trunc.toInt with hT
  set E := exp.toInt with hE
  set V : ℚ := ((N : ℚ) + τ0) * Spec.pow10 E with hVdef
  have hVpos : 0 < V := mul_pos hpos (pow10_pos E)
  have hVV : q * Spec.pow10 k = V * Spec.pow10 (-6176) := by
    rw [hV, hVdef, sub_eq_add_neg, pow10_add]; ring
  have hinit : KInit V N T E τ0 := ⟨ht, rfl⟩
  have hT3 := truncRel_cases T τ0 ht
  have hTone : T = 1 → Spec.Cmax < N := fun h => hT1 (Int8.toInt_inj.1 (h.trans (by rfl)))
  have hTmone : T = -1 → Spec.Cmax < N ∧ (100 * 2 ^ 110 ≤ N ∨ -1 / 10 < τ0) :=
    fun h => hTm1 (Int8.toInt_inj.1 (h.trans (by rfl)))
  have hfl' : T = -1 → 1 / 10 ≤ V := by
    intro h
    have h1 := hfl (Int8.toInt_inj.1 (h.trans (by rfl)))
    rw [hVV] at h1
    have : Spec.pow10 (Emin - 1) = 1 / 10 * Spec.pow10 (-6176) := by
      have : Emin - 1 = -1 + -6176 := by unfold Spec.Emin; ring
      rw [this, pow10_add, pow10_neg_one]
    rw [this] at h1
    exact le_of_mul_le_mul_right h1 (pow10_pos _)
  -- the ladder
  obtain ⟨s1, e1, t1, d1, hlad, hrel⟩ := ladder128_spec sig exp trunc (by omega) (by omega)
  rw [hlad (reduceTail rm neg)]
  unfold reduceTail
  -- loop B
  let PB : Nat → Nat → Int → Int → Prop := fun s d t e =>
    ((s = N ∧ d = 0 ∧ t = T ∧ e = E) ∨ (KInv V s d t e ∧ 2 ^ 110 ≤ s)) ∧ E ≤ e ∧
      s * 10 ^ (e - E).toNat ≤ N ∧ (t = T ∨ t = 1)
  have hPB1 : PB s1.toNat d1.toNat t1.toInt e1.toInt := by
    rcases hrel with ⟨h1, h2, h3, h4, _⟩ | ⟨p, hp2, hp4, hpN, h1, h2, h3, h4⟩
    · refine ⟨Or.inl ⟨h1, h2, h3, h4⟩, by omega, ?_, Or.inl h3⟩
      rw [h1, h4]
      show N * 10 ^ (E - E).toNat ≤ N
      rw [sub_self]; simp
    · refine ⟨Or.inr ⟨?_, ?_⟩, by omega, ?_, ?_⟩
      · rw [h1, h2, h3, h4]; exact kinit_dropp V N T E τ0 hinit p hp2
      · rw [h1]; exact (Nat.le_div_iff_mul_le (by positivity)).2 (by rw [Nat.mul_comm]; exact hpN)
      · rw [h1, h4]
        have : (E + (p : Int) - E).toNat = p := by omega
        rw [this]; exact Nat.div_mul_le_self N (10 ^ p)
      · rw [h3]
        split
        · right; rfl
        · left; rfl
  have hstepB : ∀ s d t e, PB s d t e → Spec.Cmax < s →
      PB (s / 10) (s % 10) (if d ≠ 0 then 1 else t) (e + 1) ∧ e < 32766 := by
    intro s d t e ⟨hcase, hEe, hmul, htt⟩ hgt
    have hx : (e - E).toNat < 39 - 34 + 1 := by
      apply pow_lt_of_mul_le s _ N 34 hmul (by rw [hCm] at hgt; omega)
        (by have : (2 : Nat) ^ 128 < 10 ^ 39 := by norm_num
            omega) (by norm_num)
    refine ⟨⟨Or.inr ⟨?_, by rw [hCm] at hgt; omega⟩, by omega, ?_, ?_⟩, by omega⟩
    · rcases hcase with ⟨h1, h2, h3, h4⟩ | ⟨h, _⟩
      · subst h1 h2 h3 h4
        simp only [ne_eq, not_true_eq_false, if_false]
        apply kinit_drop1 V N T E τ0 hinit
        intro hTm; exact (hTmone hTm).2
      · exact kinv_drop V s d t e h
    · have : (e + 1 - E).toNat = (e - E).toNat + 1 := by omega
      rw [this, pow_succ]
      calc s / 10 * (10 ^ (e - E).toNat * 10) = (s / 10 * 10) * 10 ^ (e - E).toNat := by ring
        _ ≤ s * 10 ^ (e - E).toNat := Nat.mul_le_mul_right _ (Nat.div_mul_le_self s 10)
        _ ≤ N := hmul
    · split
      · right; rfl
      · exact htt
  obtain ⟨st2, hB, hPB2, hle2⟩ := dropLoop_inv PB hstepB (s1, e1, t1, d1) hPB1
  rw [hB, ok_bind]
  -- loop C
  have hPC2 : PCd V T st2.1.toNat st2.2.2.2.toNat st2.2.2.1.toInt st2.2.1.toInt := by
    obtain ⟨hcase, hEe, hmul, htt⟩ := hPB2
    rcases hcase with ⟨h1, h2, h3, h4⟩ | ⟨h, hfull⟩
    · have hT0 : T = 0 := by
        rcases hT3 with h | h | h
        · exact h
        · have := hTone h; omega
        · have := (hTmone h).1; omega
      have hτ0 : τ0 = 0 := truncRel_zero τ0 (by rw [← hT0]; exact ht)
      have hN1 : 1 ≤ N := by
        rw [hτ0, add_zero] at hpos
        exact_mod_cast hpos
      refine ⟨?_, hle2, htt, by omega, by omega, Or.inr (Or.inl ⟨h2, by rw [h3, hT0]⟩)⟩
      rw [h1, h2, h3, h4, hT0]
      exact kinit_exact V N E τ0 (by rw [← hT0]; exact hinit)
    · have hx : (st2.2.1.toInt - E).toNat < 39 - 0 + 1 := by
        apply pow_lt_of_mul_le st2.1.toNat _ N 0 hmul (by omega)
          (by have : (2 : Nat) ^ 128 < 10 ^ 39 := by norm_num
              omega) (by norm_num)
      exact ⟨h, hle2, htt, by omega, by omega, Or.inl hfull⟩
  obtain ⟨st3, hC, hpost3⟩ := subLoop_inv (PCd V T) (pcd_step V T)
    (st2.1, st2.2.1, st2.2.2.1, st2.2.2.2) hPC2
  rw [hC, ok_bind]
  exact phaseD_correct rm m neg st3.1 st3.2.1 st3.2.2.1 st3.2.2.2 q k V T hm hVpos hq hVV hfl' hpost3

/-- `reduce_core` for an `Entry` state (the form used by the wide reductions) -/
theorem reduce_core_entry (rm : UInt8) (m : Mode) (neg : Bool) (sig : U128) (exp : Int16)
    (trunc : Int8) (q : ℚ) (k : Int) (V : ℚ) (hm : Spec.Mode.ofNat? rm.toNat = some m)
    (he0 : -20200 ≤ exp.toInt) (he1 : exp.toInt ≤ 20200)
    (hent : Entry V sig.toNat trunc.toInt exp.toInt) (hVpos : 0 < V) (hq : 0 < q)
    (hVV : q * Spec.pow10 k = V * Spec.pow10 (-6176)) :
    ∃ sig' exp', ladder128 (reduceTail rm neg) sig exp trunc = .ok (sig', exp') ∧
      RoundPost (flushOrRoundS m neg q k) neg sig' exp' := by
  obtain ⟨τ, hτ, hv, h1, hm1, hfl⟩ := hent
  have hpos : 0 < (sig.toNat : ℚ) + τ := by
    by_contra hc
    have : ((sig.toNat : ℚ) + τ) * Spec.pow10 exp.toInt ≤ 0 :=
      mul_nonpos_of_nonpos_of_nonneg (not_lt.1 hc) (le_of_lt (pow10_pos _))
    linarith
  refine reduce_core rm m neg sig exp trunc τ q k hm he0 he1 hτ hpos hq ?_ ?_ ?_ ?_
  · rw [hVV, ← hv, sub_eq_add_neg, pow10_add]; ring
  · intro h; exact h1 (by rw [h]; rfl)
  · intro h; exact hm1 (by rw [h]; rfl)
  · intro h
    have hge := hfl (by rw [h]; rfl)
    rw [hVV]
    have : Spec.pow10 (Emin - 1) = 1 / 10 * Spec.pow10 (-6176) := by
      have : Emin - 1 = -1 + -6176 := by unfold Spec.Emin; ring
      rw [this, pow10_add, pow10_neg_one]
    rw [this]
    exact mul_le_mul_of_nonneg_right hge (le_of_lt (pow10_pos _))

theorem pow_lt_of_mul_le' (s x N B M : Nat) (h : s * 10 ^ x ≤ N) (hs : 10 ^ B ≤ s)
    (hN : N < 10 ^ M) (hB : B ≤ M) : x < M - B + 1 := by
  by_contra hc
  have hx : M - B + 1 ≤ x := by omega
  have h1 : 10 ^ (M - B + 1) ≤ 10 ^ x := Nat.pow_le_pow_right (by norm_num) hx
  have h2 : 10 ^ B * 10 ^ (M - B + 1) ≤ s * 10 ^ x := Nat.mul_le_mul hs h1
  have h3 : 10 ^ B * 10 ^ (M - B + 1) = 10 ^ (M + 1) := by
    rw [← pow_add]; congr 1; omega
  have : (10 : Nat) ^ M < 10 ^ (M + 1) := Nat.pow_lt_pow_right (by norm_num) (by omega)
  omega

end RK

open RK in
/-- **T2.**  `Gen.RoundingMode.reduce128` terminates without panic and returns the member of the
format that mode `m` selects for the exact magnitude `(sig + τ)·10^(exp-6176)` (a correctly signed
zero below `10^(Emin-1)`), where `τ` is what the sticky flag `trunc` stands for (`RK.TruncRel`).

Hypotheses beyond the ranges of the variables (each is necessary, see the counterexamples):
* `hT1`  — a positive sticky comes with at least one digit to drop (`Quo` guarantees it).  Otherwise
  the sticky is not below the guard digit: `reduce128 0 false (2^110+1) 100 1 = (2^110+1, 100)` but the
  specification for `τ = 9/10` is `2^110+2`;
* `hTm1` — a negative sticky comes with at least one digit to drop, and stands for less than a tenth
  of a unit unless two digits are dropped (`Add` passes `sig ≥ 25599·2^110`): otherwise the nearest
  modes fail at `10·2^110`: `reduce128 0 false (10·2^110) 100 (-1) = (2^110, 101)` but the specification
  for `τ = -9/10` is `Cmax·10^(100-6176)`;
* `hfl`  — with a negative sticky the exact value is at least `10^(Emin-1)`: just below that bound the
  specification flushes to zero whereas the directed modes of the code see the guard digit 1:
  `reduce128 3 false (10^34) (-35) (-1) = (1, 0)`. -/
theorem reduce128_correct (rm : UInt8) (m : Spec.Mode) (neg : Bool) (sig : U128) (exp : Int16)
    (trunc : Int8) (τ : ℚ)
    (hm : Spec.Mode.ofNat? rm.toNat = some m)
    (he0 : -20000 ≤ exp.toInt) (he1 : exp.toInt ≤ 20000)
    (ht : RK.TruncRel trunc.toInt τ) (hq : 0 < (sig.toNat : ℚ) + τ)
    (hT1 : trunc = 1 → Spec.Cmax < sig.toNat)
    (hTm1 : trunc = -1 → Spec.Cmax < sig.toNat ∧ (100 * 2 ^ 110 ≤ sig.toNat ∨ -1 / 10 < τ))
    (hfl : trunc = -1 →
      Spec.pow10 (Spec.Emin - 1) ≤ ((sig.toNat : ℚ) + τ) * Spec.pow10 (exp.toInt - 6176)) :
    ∃ sig' exp', Gen.RoundingMode.reduce128 rm neg sig exp trunc = .ok (sig', exp') ∧
      (if exp'.toInt > 12287 then
         Spec.flushOrRoundS m neg ((sig.toNat : ℚ) + τ) (exp.toInt - 6176) = .inf neg
       else sig'.toNat ≤ Spec.Cmax ∧ 0 ≤ exp'.toInt ∧
         (Spec.flushOrRoundS m neg ((sig.toNat : ℚ) + τ) (exp.toInt - 6176)).same
           (.fin neg sig'.toNat (exp'.toInt - 6176)) = true) := by
  rw [reduce128_eq]
  exact reduce_core rm m neg sig exp trunc τ _ _ hm (by omega) (by omega) ht hq hq rfl hT1 hTm1 hfl

/-- the hypotheses of `reduce128_correct` are satisfiable: a 39-digit quotient with positive sticky -/
example :=
  reduce128_correct 0 .nearestEven false ⟨0, 18446744073709551615⟩ 6000 1 (1 / 3) rfl
    (by decide) (by decide) (Or.inr (Or.inl ⟨by decide, by norm_num, by norm_num⟩))
    (by positivity)
    (fun _ => by rw [RK.Cmax_val]; decide) (fun h => absurd h (by decide))
    (fun h => absurd h (by decide))

/-- … and with a negative sticky (`hTm1`, `hfl`): `2^127 - 1/2` at exponent `-176`, as `Add` produces
    it (significand far above `100·2^110`) -/
example :=
  reduce128_correct 2 .toZero true ⟨0, 9223372036854775808⟩ 6000 (-1) (-1 / 2) rfl
    (by decide) (by decide) (Or.inr (Or.inr ⟨by decide, by norm_num, by norm_num⟩))
    (by simp only [U128.toNat, UInt64.toNat_ofNat]; norm_num)
    (fun h => absurd h (by decide))
    (fun _ => ⟨by rw [RK.Cmax_val]; decide, Or.inl (by decide)⟩)
    (fun _ => by
      have h1 : Spec.pow10 (Spec.Emin - 1) ≤ Spec.pow10 ((6000 : Int16).toInt - 6176) :=
        (RK.pow10_le_iff _ _).2 (by decide)
      have h2 : (1 : ℚ) ≤ ((⟨0, 9223372036854775808⟩ : U128).toNat : ℚ) + -1 / 2 := by
        simp only [U128.toNat, UInt64.toNat_ofNat]; norm_num
      calc Spec.pow10 (Spec.Emin - 1) ≤ 1 * Spec.pow10 ((6000 : Int16).toInt - 6176) := by
            rw [one_mul]; exact h1
        _ ≤ _ := mul_le_mul_of_nonneg_right h2 (le_of_lt (RK.pow10_pos _)))
