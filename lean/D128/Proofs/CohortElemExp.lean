/-
  D128/Proofs/CohortElemExp.lean — property C19 for `Exp` and `Expm1` on the general finite path: replacing the
  operand by another encoding of the same value (cohort member) does not change the result — bit for bit, for every
  `Globals` (every default rounding mode).

  After `decompose`, both functions compute `l10 = ⌊log₁₀ sig⌋`, test `dExp > 5 - l10` (a function of
  `dExp + l10 = ⌊log₁₀ |value|⌋`), and hand `(sig, dExp)`, `l10` to `decomposed192.epow` / `epowm1`, which do not see the
  representation (`CohortElem.epow_congr`, `epowm1_congr`); the rest depends on the sign bit and `g` only.

  Provided (namespace `CohortElem`):
  * `argOf_congr`                  : the facts about `ExpAcc.argOf d`, `ExpAcc.argOf d'` for two finite non-zero cohort members
  * **`exp_encoding_independent`**   : `(𝔳[d]).same 𝔳[d']`, `d` finite non-zero ⇒ `Gen.Exp g d = Gen.Exp g d'`
  * **`expm1_encoding_independent`** : … ⇒ `Gen.Expm1 g d = Gen.Expm1 g d'`
  * `exp_encoding_independent_same`, `expm1_encoding_independent_same` : the C19 form
        `∃ r r', Gen.f g d = .ok r ∧ Gen.f g d' = .ok r' ∧ (𝔳[r]).same 𝔳[r'] = true` (with `Total.Exp_total`/`Expm1_total`)
-/
import D128.Proofs.CohortElemEpow
import D128.Proofs.ExpAccM1Round
import D128.Proofs.TotalElem
set_option autoImplicit false
set_option maxRecDepth 8192
set_option linter.unusedVariables false

namespace CohortElem
open Gen D192 ExpAcc
local notation "𝔳[" d "]" => Spec.interp (Gen.Decimal.lo d) (Gen.Decimal.hi d)

/-- everything `Exp`/`Expm1` need about the working-format arguments of two cohort members -/
theorem argOf_congr (d d' : Decimal) (h : (𝔳[d]).same 𝔳[d'] = true) (h1 : Decimal.isSpecial d = false)
    (h2 : Decimal.IsZero d = false) :
    Decimal.isSpecial d' = false ∧ Decimal.IsZero d' = false ∧ Decimal.Signbit d' = Decimal.Signbit d ∧
    (((d.decompose.2.toInt - 6176) > 5 - (Nat.log 10 d.decompose.1.toNat : Int)) ↔
      ((d'.decompose.2.toInt - 6176) > 5 - (Nat.log 10 d'.decompose.1.toNat : Int))) ∧
    (∀ t, decomposed192.epow (argOf d) (Go.conv (Int64.ofNat (Nat.log 10 d.decompose.1.toNat)) : Int16) t =
      decomposed192.epow (argOf d') (Go.conv (Int64.ofNat (Nat.log 10 d'.decompose.1.toNat)) : Int16) t) ∧
    (∀ neg t, decomposed192.epowm1 (argOf d) neg (Go.conv (Int64.ofNat (Nat.log 10 d.decompose.1.toNat)) : Int16) t =
      decomposed192.epowm1 (argOf d') neg (Go.conv (Int64.ofNat (Nat.log 10 d'.decompose.1.toNat)) : Int16) t) := by
  obtain ⟨h1', hsb, hz, hv⟩ := fin_args d d' h h1
  have h2' : Decimal.IsZero d' = false := by rw [hz, h2]
  obtain ⟨c1, cC, e0, e1⟩ := fin_facts d h1 h2
  obtain ⟨c1', cC', e0', e1'⟩ := fin_facts d' h1' h2'
  have hval : val (argOf d) = val (argOf d') := by rw [val_argOf d h1, val_argOf d' h1', hv]
  have hs := argOf_sig d
  have hs' := argOf_sig d'
  have he := argOf_exp d h1
  have he' := argOf_exp d' h1'
  have hlt := d.decompose.1.toNat_lt
  have hlt' := d'.decompose.1.toNat_lt
  have hLIM : 2 ^ 128 ≤ 10 * LIM := by unfold LIM; norm_num
  have hd : (argOf d).sig.toNat ≠ 0 := by rw [hs]; omega
  have hd' : (argOf d').sig.toNat ≠ 0 := by rw [hs']; omega
  have hU : (argOf d).sig.toNat < 10 * LIM ↔ (argOf d').sig.toNat < 10 * LIM := by
    rw [hs, hs']; constructor <;> intro <;> omega
  have hl : (Go.conv (Int64.ofNat (Nat.log 10 d.decompose.1.toNat)) : Int16).toInt
      = (Nat.log 10 (argOf d).sig.toNat : Int) := by rw [conv_log _ hlt, hs]
  have hl' : (Go.conv (Int64.ofNat (Nat.log 10 d'.decompose.1.toNat)) : Int16).toInt
      = (Nat.log 10 (argOf d').sig.toNat : Int) := by rw [conv_log _ hlt', hs']
  have hdec := (decade_of_val (argOf d) (argOf d') hd hd' hval).1
  rw [hs, hs', he, he'] at hdec
  refine ⟨h1', h2', hsb, by constructor <;> intro <;> omega, ?_, ?_⟩
  · intro t
    exact epow_congr _ _ _ _ t hval hd hd' hU (by rw [he]; omega) (by rw [he']; omega) hl hl'
  · intro neg t
    exact epowm1_congr _ _ neg _ _ t hval hd hd' hU (by rw [he]; omega) (by rw [he']; omega) hl hl'

/-- **C19 for `Exp`, general finite path**: two encodings of one finite non-zero value give the same result, bit for
bit, under every default rounding mode. -/
theorem exp_encoding_independent (g : Globals) (d d' : Decimal) (h : (𝔳[d]).same 𝔳[d'] = true)
    (h1 : Decimal.isSpecial d = false) (h2 : Decimal.IsZero d = false) : Gen.Exp g d = Gen.Exp g d' := by
  obtain ⟨h1', h2', hsb, hg, hep, -⟩ := argOf_congr d d' h h1 h2
  rw [Exp_fin g d h1 h2, Exp_fin g d' h1' h2', hsb, hep 0]
  by_cases hc : (d.decompose.2.toInt - 6176) > 5 - (Nat.log 10 d.decompose.1.toNat : Int)
  · rw [if_pos hc, if_pos (hg.mp hc)]
  · rw [if_neg hc, if_neg (fun h => hc (hg.mpr h))]

/-- **C19 for `Expm1`, general finite path** -/
theorem expm1_encoding_independent (g : Globals) (d d' : Decimal) (h : (𝔳[d]).same 𝔳[d'] = true)
    (h1 : Decimal.isSpecial d = false) (h2 : Decimal.IsZero d = false) : Gen.Expm1 g d = Gen.Expm1 g d' := by
  obtain ⟨h1', h2', hsb, hg, -, hep⟩ := argOf_congr d d' h h1 h2
  rw [Expm1_fin g d h1 h2, Expm1_fin g d' h1' h2', hsb, hep (Decimal.Signbit d) 0]
  by_cases hc : (d.decompose.2.toInt - 6176) > 5 - (Nat.log 10 d.decompose.1.toNat : Int)
  · rw [if_pos hc, if_pos (hg.mp hc)]
  · rw [if_neg hc, if_neg (fun h => hc (hg.mpr h))]

/-- the C19 form for `Exp`: no panic, and results of the same class, sign and value -/
theorem exp_encoding_independent_same (g : Globals) (d d' : Decimal) (h : (𝔳[d]).same 𝔳[d'] = true)
    (h1 : Decimal.isSpecial d = false) (h2 : Decimal.IsZero d = false) :
    ∃ r r', Gen.Exp g d = .ok r ∧ Gen.Exp g d' = .ok r' ∧ (𝔳[r]).same 𝔳[r'] = true := by
  obtain ⟨r, hr⟩ := D128.Proofs.Total.Exp_total g d
  exact ⟨r, r, hr, by rw [← exp_encoding_independent g d d' h h1 h2]; exact hr, Cohort.same_refl _⟩

/-- the C19 form for `Expm1` -/
theorem expm1_encoding_independent_same (g : Globals) (d d' : Decimal) (h : (𝔳[d]).same 𝔳[d'] = true)
    (h1 : Decimal.isSpecial d = false) (h2 : Decimal.IsZero d = false) :
    ∃ r r', Gen.Expm1 g d = .ok r ∧ Gen.Expm1 g d' = .ok r' ∧ (𝔳[r]).same 𝔳[r'] = true := by
  obtain ⟨r, hr⟩ := D128.Proofs.Total.Expm1_total g d
  exact ⟨r, r, hr, by rw [← expm1_encoding_independent g d d' h h1 h2]; exact hr, Cohort.same_refl _⟩

/-- the hypotheses on `2 = 2·10^0` (`hi = 0x3040…`) and `20·10^-1` (`hi = 0x303e…`) -/
example (g : Globals) : Gen.Exp g ⟨2, 0x3040000000000000⟩ = Gen.Exp g ⟨20, 0x303e000000000000⟩ ∧
    Gen.Expm1 g ⟨2, 0x3040000000000000⟩ = Gen.Expm1 g ⟨20, 0x303e000000000000⟩ :=
  ⟨exp_encoding_independent g _ _ (by decide +kernel) (by decide) (by decide),
   expm1_encoding_independent g _ _ (by decide +kernel) (by decide) (by decide)⟩

/-- … and on `-0.00123 = -123·10^-5 = -123000·10^-8` -/
example (g : Globals) :
    ∃ r r', Gen.Expm1 g ⟨123, 0xb036000000000000⟩ = .ok r ∧ Gen.Expm1 g ⟨123000, 0xb030000000000000⟩ = .ok r' ∧
      (𝔳[r]).same 𝔳[r'] = true :=
  expm1_encoding_independent_same g _ _ (by decide +kernel) (by decide) (by decide)

end CohortElem
