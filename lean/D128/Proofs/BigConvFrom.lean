/-
  D128/Proofs/BigConvFrom.lean — `FromInt` of /repo/convert.go (generated `Gen.FromInt`,
  D128/Gen/ConvertBig.lean) against `Spec.roundTo` (property C10, big conversions).

  math/big layer   bitLen_le_iff, bitLen_mono, BitLen_gt, Sign_ne_zero, Sign_eq_zero, Sign_neg,
                   tmod_ne_zero, natAbs_tdiv', Bits_size, Bits_get, wget_ok
  loops            FInv (invariant: i = ⌊N/10^k⌋, exp = 6176+k, trunc ⇔ N mod 10^k ≠ 0, at least
                   2^124 once a digit has been dropped), mod_pow_add,
                   divLoop_spec (either the early `inf(neg)` with N ≥ 10^6146, or the invariant with
                   fewer than `lim` bits), bitsLoop_spec (the words of `i.Bits()` give back |i| < 2^128)
  rounding         roundTo_inf_of_ge (all modes overflow from (Cmax+1)·10^Emax on), flush_scaled,
                   finishFrom_spec (reduce128_correct with τ = (N mod 10^k)/10^k, then `MQ.finish`)
  result           fromIntVal, inf_same, from128_spec, fromSigned_spec,
                   FromInt_correct : for every `i` of fewer than 2^63 bits `FromInt g i` returns a Decimal
                   denoting +0 (i = 0) resp. `Spec.roundTo m (i<0) |i|`

  The bound on the bit length is a property of the model, not of the code: `BitLen` is an `int` in Go
  and `Int64.ofNat` here; a `big.Int` of 2^63 bits cannot exist (2^57 bytes).
-/
import D128.Proofs.BigConvFromCode
import D128.Proofs.MulQuoMul
import D128.Proofs.SpecRoundMain
import D128.Proofs.SpecRoundScale
set_option autoImplicit false
set_option maxRecDepth 4096
namespace BigConv
open Gen

/-! ## `BitLen` -/

theorem bitLen_le_iff (n L : Nat) : Go.Big.bitLen n ≤ L ↔ n < 2 ^ L := by
  unfold Go.Big.bitLen
  by_cases h : n = 0
  · subst h; simp
  · rw [if_neg h]
    rw [Nat.add_one_le_iff, Nat.log2_lt h]

theorem bitLen_mono {a b : Nat} (h : a ≤ b) : Go.Big.bitLen a ≤ Go.Big.bitLen b :=
  (bitLen_le_iff a _).2 (lt_of_le_of_lt h ((bitLen_le_iff b _).1 le_rfl))

theorem BitLen_gt (x : Int) (L : Nat) (hL : L < 2 ^ 63) (hx : Go.Big.bitLen x.natAbs < 2 ^ 63) :
    (decide (Go.BigInt.BitLen x > Int64.ofNat L) = true) ↔ 2 ^ L ≤ x.natAbs := by
  unfold Go.BigInt.BitLen
  rw [decide_eq_true_eq, gt_iff_lt, Int64.lt_iff_toInt_lt, Int64.toInt_ofNat_of_lt hL,
    Int64.toInt_ofNat_of_lt hx]
  have := bitLen_le_iff x.natAbs L
  omega

theorem Sign_ne_zero (r : Int) : (Go.BigInt.Sign r != 0) = true ↔ r ≠ 0 := by
  unfold Go.BigInt.Sign
  by_cases h1 : r < 0
  · rw [if_pos h1]; simp; omega
  · rw [if_neg h1]
    by_cases h2 : r = 0
    · rw [if_pos h2]; simp [h2]
    · rw [if_neg h2]; simp [h2]

theorem Sign_eq_zero (r : Int) : (Go.BigInt.Sign r == 0) = true ↔ r = 0 := by
  have := Sign_ne_zero r
  rw [bne_iff_ne, ne_eq] at this
  rw [beq_iff_eq]
  exact not_iff_not.1 this

theorem Sign_neg (r : Int) : (decide (Go.BigInt.Sign r < 0) = true) ↔ r < 0 := by
  unfold Go.BigInt.Sign
  by_cases h1 : r < 0
  · rw [if_pos h1]; simp [h1]
  · rw [if_neg h1]
    by_cases h2 : r = 0
    · rw [if_pos h2]; simp [h2]
    · rw [if_neg h2]; simp [h1]

theorem tmod_ne_zero (x : Int) (d : Nat) :
    Int.tmod x (d : Int) ≠ 0 ↔ x.natAbs % d ≠ 0 := by
  rw [ne_eq, ne_eq, ← Int.dvd_iff_tmod_eq_zero, ← Nat.dvd_iff_mod_eq_zero, ← Int.natAbs_dvd_natAbs,
    Int.natAbs_natCast]

theorem natAbs_tdiv' (x d : Int) : (Int.tdiv x d).natAbs = x.natAbs / d.natAbs :=
  Int.natAbs_tdiv x d

/-! ## the digit-dropping loops -/

/-- invariant of both loops: `N` is the magnitude of the argument -/
structure FInv (N : Nat) (s : DSt) : Prop where
  none : s.1 = none
  bl : s.2.2.2.2.1 = Go.BigInt.BitLen s.2.1
  ex : ∃ k : Nat, s.2.2.1.toInt = 6176 + k ∧ k ≤ 6111 ∧ s.2.1.natAbs = N / 10 ^ k ∧
    ((s.2.2.2.1 = 0 ∧ N % 10 ^ k = 0) ∨ (s.2.2.2.1 = 1 ∧ N % 10 ^ k ≠ 0)) ∧
    (k = 0 ∨ 2 ^ 124 ≤ s.2.1.natAbs)

theorem mod_pow_add (N k p : Nat) :
    N % 10 ^ (k + p) = 0 ↔ (N % 10 ^ k = 0 ∧ (N / 10 ^ k) % 10 ^ p = 0) := by
  rw [Nat.pow_add, Nat.mod_mul]
  have h : 0 < 10 ^ k := Nat.pow_pos (by decide)
  constructor
  · intro h0
    have h1 : N % 10 ^ k = 0 := by omega
    refine ⟨h1, ?_⟩
    rw [h1, Nat.zero_add] at h0
    rcases Nat.mul_eq_zero.1 h0 with h2 | h2
    · omega
    · exact h2
  · rintro ⟨h1, h2⟩
    rw [h1, h2]; simp

theorem divLoop_spec (neg : Bool) (N L p : Nat) (lim : Int64) (den : Int) (step : Int16)
    (hlim : lim = Int64.ofNat L) (hL : L < 2 ^ 63) (hden : den = ((10 ^ p : Nat) : Int))
    (hstep : step.toInt = p) (hp : 1 ≤ p) (hp18 : p ≤ 18) (hN : Go.Big.bitLen N < 2 ^ 63)
    (h124 : 2 ^ 124 * 10 ^ p ≤ 2 ^ L) (hov : 10 ^ (34 + p) ≤ 2 ^ L)
    (st : DSt) (hst : FInv N st) :
    ∃ s', divLoop neg lim den step st = .ok s' ∧
      ((s'.1 = some (Gen.inf neg) ∧ 10 ^ 6146 ≤ N) ∨ (FInv N s' ∧ s'.2.1.natAbs < 2 ^ L)) := by
  unfold divLoop
  apply RK.loop_inv (divBody neg lim den step) (FInv N)
    (fun s' : DSt => (s'.1 = some (Gen.inf neg) ∧ 10 ^ 6146 ≤ N) ∨ (FInv N s' ∧ s'.2.1.natAbs < 2 ^ L))
    (fun s : DSt => s.2.1.natAbs) _ st hst
  intro b hb
  obtain ⟨hnone, hbl, k, hk, hk1, ha, htr, hbig⟩ := hb
  have hpk : 0 < 10 ^ k := Nat.pow_pos (by decide)
  have hpp : 1 < 10 ^ p := Nat.one_lt_pow (by omega) (by decide)
  have haN : b.2.1.natAbs ≤ N := by rw [ha]; exact Nat.div_le_self _ _
  have hbx : Go.Big.bitLen b.2.1.natAbs < 2 ^ 63 := lt_of_le_of_lt (bitLen_mono haN) hN
  by_cases hc : decide (b.2.2.2.2.1 > lim) = true
  · have hge : 2 ^ L ≤ b.2.1.natAbs := by
      rw [hbl, hlim] at hc; exact (BitLen_gt _ _ hL hbx).1 hc
    have hdne : ¬ (((10 ^ p : Nat) : Int) = 0) := by
      intro h; have : (10 ^ p : Nat) = 0 := by exact_mod_cast h
      omega
    have hq : Go.BigInt.QuoRem b.2.1 den
        = .ok (Int.tdiv b.2.1 ((10 ^ p : Nat) : Int), Int.tmod b.2.1 ((10 ^ p : Nat) : Int)) := by
      unfold Go.BigInt.QuoRem; rw [hden, if_neg hdne]; rfl
    have hexp : (b.2.2.1 + step).toInt = 6176 + ((k + p : Nat) : Int) := by
      rw [Int16.toInt_add_of] <;> rw [hk, hstep] <;> push_cast <;> omega
    by_cases hov' : decide (b.2.2.1 + step > 12287) = true
    · right
      refine ⟨(some (Gen.inf neg), Int.tdiv b.2.1 ((10 ^ p : Nat) : Int), b.2.2.1 + step, b.2.2.2.1,
        b.2.2.2.2.1, Int.tmod b.2.1 ((10 ^ p : Nat) : Int)), ?_, Or.inl ⟨rfl, ?_⟩⟩
      · simp only [divBody, hc, if_true, hq, RK.ok_bind, hov']; rfl
      · rw [IntConvPf.i16_gt_lit, hexp] at hov'
        have h12 : (12287 : Int16).toInt = 12287 := by decide
        rw [h12] at hov'
        have hkp : 6112 ≤ k + p := by omega
        have h1 : b.2.1.natAbs * 10 ^ k ≤ N := by rw [ha]; exact Nat.div_mul_le_self _ _
        calc 10 ^ 6146 ≤ 10 ^ (34 + p + k) := Nat.pow_le_pow_right (by decide) (by omega)
          _ = 10 ^ (34 + p) * 10 ^ k := Nat.pow_add _ _ _
          _ ≤ 2 ^ L * 10 ^ k := Nat.mul_le_mul_right _ hov
          _ ≤ b.2.1.natAbs * 10 ^ k := Nat.mul_le_mul_right _ hge
          _ ≤ N := h1
    · left
      have hov0 := hov'
      rw [IntConvPf.i16_gt_lit, hexp] at hov'
      have h12 : (12287 : Int16).toInt = 12287 := by decide
      rw [h12] at hov'
      have hkp : k + p ≤ 6111 := by omega
      have hnat : (Int.tdiv b.2.1 ((10 ^ p : Nat) : Int)).natAbs = N / 10 ^ (k + p) := by
        rw [natAbs_tdiv', Int.natAbs_natCast, ha, Nat.div_div_eq_div_mul, ← Nat.pow_add]
      have hrem : (Go.BigInt.Sign (Int.tmod b.2.1 ((10 ^ p : Nat) : Int)) != 0) = true
          ↔ (N / 10 ^ k) % 10 ^ p ≠ 0 := by
        rw [Sign_ne_zero, tmod_ne_zero, ha]
      have hbig' : 2 ^ 124 ≤ (Int.tdiv b.2.1 ((10 ^ p : Nat) : Int)).natAbs := by
        rw [natAbs_tdiv', Int.natAbs_natCast, Nat.le_div_iff_mul_le (by omega)]
        omega
      have hlt : (Int.tdiv b.2.1 ((10 ^ p : Nat) : Int)).natAbs < b.2.1.natAbs := by
        rw [natAbs_tdiv', Int.natAbs_natCast]
        apply Nat.div_lt_self _ hpp
        have : 0 < 2 ^ L := Nat.pow_pos (by decide)
        omega
      by_cases hr : (Go.BigInt.Sign (Int.tmod b.2.1 ((10 ^ p : Nat) : Int)) != 0) = true
      · refine ⟨(none, Int.tdiv b.2.1 ((10 ^ p : Nat) : Int), b.2.2.1 + step, 1,
          Go.BigInt.BitLen (Int.tdiv b.2.1 ((10 ^ p : Nat) : Int)), Int.tmod b.2.1 ((10 ^ p : Nat) : Int)),
          ?_, ⟨rfl, rfl, k + p, hexp, hkp, hnat, Or.inr ⟨rfl, ?_⟩, Or.inr hbig'⟩, hlt⟩
        · simp only [divBody, hc, if_true, hq, RK.ok_bind, hov0, hr]; rfl
        · rw [ne_eq, mod_pow_add]
          rw [hrem] at hr
          exact fun h => hr h.2
      · refine ⟨(none, Int.tdiv b.2.1 ((10 ^ p : Nat) : Int), b.2.2.1 + step, b.2.2.2.1,
          Go.BigInt.BitLen (Int.tdiv b.2.1 ((10 ^ p : Nat) : Int)), Int.tmod b.2.1 ((10 ^ p : Nat) : Int)),
          ?_, ⟨rfl, rfl, k + p, hexp, hkp, hnat, ?_, Or.inr hbig'⟩, hlt⟩
        · simp only [divBody, hc, if_true, hq, RK.ok_bind, hov0, hr]; rfl
        · rw [hrem, ne_eq, not_not] at hr
          rcases htr with ⟨h1, h2⟩ | ⟨h1, h2⟩
          · exact Or.inl ⟨h1, (mod_pow_add N k p).2 ⟨h2, hr⟩⟩
          · refine Or.inr ⟨h1, ?_⟩
            rw [ne_eq, mod_pow_add]
            exact fun h => h2 h.1
  · right
    refine ⟨b, ?_, Or.inr ⟨⟨hnone, hbl, k, hk, hk1, ha, htr, hbig⟩, ?_⟩⟩
    · simp only [divBody, hc]
      rw [← hnone]; rfl
    · rw [hbl, hlim] at hc
      have := (BitLen_gt _ _ hL hbx).not.1 hc
      omega

/-! ## assembling the words of `i.Bits()` -/

theorem Bits_size (x : Int) : (Go.BigInt.Bits x).size = (Go.Big.bitLen x.natAbs + 63) / 64 := by
  unfold Go.BigInt.Bits; simp

theorem Bits_get (x : Int) (j : Nat) (h : j < (Go.BigInt.Bits x).size) :
    ((Go.BigInt.Bits x)[j]'h).toNat = x.natAbs / 2 ^ (64 * j) % 2 ^ 64 := by
  simp only [Go.BigInt.Bits, Array.getElem_ofFn, UInt64.toNat_ofNat']
  exact Nat.mod_eq_of_lt (Nat.mod_lt _ (by decide))

theorem wget_ok (b : Go.BigWords) (j : Int64) (h : 0 ≤ j.toInt ∧ j.toInt.toNat < b.size) :
    Go.BigInt.wget b (Go.idx j) = .ok (b[j.toInt.toNat]'h.2) := by
  unfold Go.BigInt.wget
  exact dif_pos h

theorem bitsLoop_spec (x : Int) (hx : x.natAbs < 2 ^ 128) :
    ∃ s, bitsLoop (Go.BigInt.Bits x) (default, Go.BigInt.wlen (Go.BigInt.Bits x) - 1) = .ok s ∧
      s.1.toNat = x.natAbs := by
  have hbl : Go.Big.bitLen x.natAbs ≤ 128 := (bitLen_le_iff _ _).2 hx
  have hsz : (Go.BigInt.Bits x).size ≤ 2 := by rw [Bits_size]; omega
  have hcov : x.natAbs < 2 ^ (64 * (Go.BigInt.Bits x).size) := by
    rw [← bitLen_le_iff, Bits_size]; omega
  unfold bitsLoop
  suffices h : ∃ s, forIn (m := Go.GoM) Lean.Loop.mk
      ((default : U128), Go.BigInt.wlen (Go.BigInt.Bits x) - 1) (bitsBody (Go.BigInt.Bits x)) = .ok s ∧
      (s.2.toInt = -1 ∧ s.1.toNat = x.natAbs / 2 ^ (64 * (s.2.toInt + 1).toNat)) by
    obtain ⟨s, hs, hj, hv⟩ := h
    refine ⟨s, hs, ?_⟩
    rw [hv, hj]; simp
  apply RK.loop_inv (bitsBody (Go.BigInt.Bits x))
    (fun s : U128 × Int64 => -1 ≤ s.2.toInt ∧ s.2.toInt < (Go.BigInt.Bits x).size ∧
      s.1.toNat = x.natAbs / 2 ^ (64 * (s.2.toInt + 1).toNat))
    (fun s : U128 × Int64 => s.2.toInt = -1 ∧ s.1.toNat = x.natAbs / 2 ^ (64 * (s.2.toInt + 1).toNat))
    (fun s : U128 × Int64 => (s.2.toInt + 1).toNat)
  · intro b ⟨h1, h2, h3⟩
    by_cases hc : decide (b.2 ≥ 0) = true
    · left
      have hge : 0 ≤ b.2.toInt := by
        rw [decide_eq_true_eq, ge_iff_le, Int64.le_iff_toInt_le] at hc; exact hc
      have hidx : 0 ≤ b.2.toInt ∧ b.2.toInt.toNat < (Go.BigInt.Bits x).size := by
        omega
      have hsub : (b.2 - 1).toInt = b.2.toInt - 1 := by
        have := b.2.toInt_lt
        rw [Int64.toInt_sub]
        apply Int.bmod_eq_of_le <;> simp <;> omega
      refine ⟨(Gen.U128.or64 (Gen.U128.lsh b.1 64) ((Go.BigInt.Bits x)[b.2.toInt.toNat]'hidx.2),
        b.2 - 1), ?_, ⟨?_, ?_, ?_⟩, ?_⟩
      · simp only [bitsBody, hc, if_true, wget_ok _ _ hidx, RK.ok_bind]; rfl
      · show -1 ≤ (b.2 - 1).toInt; omega
      · show (b.2 - 1).toInt < _; omega
      · show (Gen.U128.or64 (Gen.U128.lsh b.1 64) _).toNat = x.natAbs / 2 ^ (64 * ((b.2 - 1).toInt + 1).toNat)
        rw [hsub]
        have e1 : (b.2.toInt - 1 + 1).toNat = b.2.toInt.toNat := by omega
        have e2 : (b.2.toInt + 1).toNat = b.2.toInt.toNat + 1 := by omega
        rw [e1]
        rw [e2] at h3
        generalize b.2.toInt.toNat = j at *
        have h64 : (64 : UInt64).toNat = 64 := rfl
        have hsmall : b.1.toNat < 2 ^ 64 := by
          rw [h3, Nat.div_lt_iff_lt_mul (Nat.pow_pos (by decide))]
          calc x.natAbs < 2 ^ 128 := hx
            _ = 2 ^ 64 * 2 ^ 64 := by norm_num
            _ ≤ 2 ^ 64 * 2 ^ (64 * (j + 1)) :=
              Nat.mul_le_mul_left _ (Nat.pow_le_pow_right (by decide) (by omega))
        have hl : (Gen.U128.lsh b.1 64).toNat = b.1.toNat * 2 ^ 64 := by
          rw [U128_lsh_toNat_of_lt _ _ (by rw [h64]; omega), h64]
        rw [U128_or64_toNat_of_disjoint _ _ 64 (by rw [hl]; exact Nat.mul_mod_left _ _)
          (UInt64.toNat_lt _), hl, Bits_get, h3]
        have : 2 ^ (64 * (j + 1)) = 2 ^ (64 * j) * 2 ^ 64 := by rw [← Nat.pow_add]; congr 1
        rw [this, ← Nat.div_div_eq_div_mul]
        exact Nat.div_add_mod' _ _
      · show ((b.2 - 1).toInt + 1).toNat < (b.2.toInt + 1).toNat
        omega
    · right
      have hlt : b.2.toInt < 0 := by
        rw [decide_eq_true_eq, ge_iff_le, Int64.le_iff_toInt_le] at hc
        have : (0 : Int64).toInt = 0 := rfl
        omega
      refine ⟨b, ?_, by omega, h3⟩
      simp only [bitsBody, hc]; rfl
  · have hw : (Go.BigInt.wlen (Go.BigInt.Bits x) - 1).toInt = ((Go.BigInt.Bits x).size : Int) - 1 := by
      unfold Go.BigInt.wlen
      rw [Int64.toInt_sub, Int64.toInt_ofNat_of_lt (by omega)]
      apply Int.bmod_eq_of_le <;> simp <;> omega
    refine ⟨?_, ?_, ?_⟩
    · show -1 ≤ (Go.BigInt.wlen (Go.BigInt.Bits x) - 1).toInt; omega
    · show (Go.BigInt.wlen (Go.BigInt.Bits x) - 1).toInt < _; omega
    · show (default : U128).toNat = x.natAbs / 2 ^ (64 * ((Go.BigInt.wlen (Go.BigInt.Bits x) - 1).toInt + 1).toNat)
      rw [hw]
      have : ((((Go.BigInt.Bits x).size : Int) - 1 + 1).toNat) = (Go.BigInt.Bits x).size := by omega
      rw [this, Nat.div_eq_of_lt hcov]
      rfl

/-! ## the rounding kernel and the epilogue -/

local notation "𝔳[" d "]" => Spec.interp (Gen.Decimal.lo d) (Gen.Decimal.hi d)

open SpecRound in
/-- every mode overflows from `(Cmax+1)·10^Emax` on -/
theorem roundTo_inf_of_ge (m : Spec.Mode) (neg : Bool) (q : ℚ)
    (h : ((Spec.Cmax : ℚ) + 1) * (10 : ℚ) ^ Spec.Emax ≤ q) : Spec.roundTo m neg q = .inf neg := by
  have hp : (0 : ℚ) < (10 : ℚ) ^ Spec.Emax := zpow_pos (by norm_num) _
  have hc1 : (0 : ℚ) < (Spec.Cmax : ℚ) + 1 := add_pos_of_nonneg_of_pos (Nat.cast_nonneg _) one_pos
  have hq : 0 < q := lt_of_lt_of_le (mul_pos hc1 hp) h
  have hcoef : Spec.Cmax < coef q Spec.Emax := by
    unfold coef
    have : ((Spec.Cmax : ℚ) + 1) = ((Spec.Cmax + 1 : Nat) : ℚ) := by push_cast; rfl
    rw [Nat.lt_iff_add_one_le, Nat.le_floor_iff (div_nonneg hq.le hp.le), le_div_iff₀ hp, ← this]
    exact h
  have hsp : Spec.Emax < Spec.spacingExp q := by
    rw [spacingExp_eq]
    have := (coef_le_Cmax_iff q hq Spec.Emax).not.1 (by omega)
    exact lt_of_lt_of_le (not_le.1 this) (le_max_right _ _)
  rcases roundTo_cases m neg q hq with ⟨hinf, -⟩ | ⟨c', e', -, -, -, h3, -, h5⟩
  · exact hinf
  · rcases h5 with ⟨h5, -⟩ | ⟨h5, -⟩ <;> omega

open SpecRound in
theorem flush_scaled (m : Spec.Mode) (neg : Bool) (N k : Nat) (hN : 0 < N) :
    Spec.flushOrRoundS m neg (((N / 10 ^ k : Nat) : ℚ) + ((N % 10 ^ k : Nat) : ℚ) / ((10 ^ k : Nat) : ℚ)) (k : Int)
      = Spec.roundTo m neg (N : ℚ) := by
  have hp : (0 : ℚ) < ((10 ^ k : Nat) : ℚ) := by exact_mod_cast Nat.pow_pos (by decide)
  have hsum : (((N / 10 ^ k : Nat) : ℚ) + ((N % 10 ^ k : Nat) : ℚ) / ((10 ^ k : Nat) : ℚ)) * (10 : ℚ) ^ (k : Int)
      = (N : ℚ) := by
    have h1 : (10 : ℚ) ^ (k : Int) = ((10 ^ k : Nat) : ℚ) := by rw [zpow_natCast]; push_cast; rfl
    rw [h1, add_mul, div_mul_cancel₀ _ hp.ne']
    have := Nat.div_add_mod' N (10 ^ k)
    exact_mod_cast this
  have hq0 : (0 : ℚ) ≤ ((N / 10 ^ k : Nat) : ℚ) + ((N % 10 ^ k : Nat) : ℚ) / ((10 ^ k : Nat) : ℚ) := by
    positivity
  rw [flushOrRoundS_eq m neg _ hq0, hsum]
  apply flushOrRound_eq_roundTo
  have h1 : (10 : ℚ) ^ (Spec.Emin - 1) ≤ 1 := by
    apply zpow_le_one_of_nonpos₀ (by norm_num)
    unfold Spec.Emin; omega
  have h2 : (1 : ℚ) ≤ (N : ℚ) := by exact_mod_cast hN
  linarith

theorem finishFrom_spec (g : Globals) (m : Spec.Mode)
    (hm : Spec.Mode.ofNat? g.DefaultRoundingMode.toNat = some m) (neg : Bool) (N : Nat) (hN0 : 0 < N)
    (x : Int) (exp : Int16) (trunc : Int8) (k : Nat)
    (hk : exp.toInt = 6176 + k) (hk1 : k ≤ 6111) (ha : x.natAbs = N / 10 ^ k) (hlt : x.natAbs < 2 ^ 128)
    (htr : (trunc = 0 ∧ N % 10 ^ k = 0) ∨ (trunc = 1 ∧ N % 10 ^ k ≠ 0))
    (hbig : k = 0 ∨ 2 ^ 124 ≤ x.natAbs) :
    ∃ r, finishFrom g neg x exp trunc = .ok r ∧ (𝔳[r]).same (Spec.roundTo m neg (N : ℚ)) = true := by
  obtain ⟨s, hs, hsv⟩ := bitsLoop_spec x hlt
  unfold finishFrom
  rw [hs]
  simp only [RK.ok_bind]
  have hpk : 0 < 10 ^ k := Nat.pow_pos (by decide)
  have hp : (0 : ℚ) < ((10 ^ k : Nat) : ℚ) := by exact_mod_cast hpk
  have hapos : 0 < x.natAbs := by
    rcases hbig with h | h
    · rw [ha, h]; simpa using hN0
    · have : 0 < 2 ^ 124 := by norm_num
      omega
  set τ : ℚ := ((N % 10 ^ k : Nat) : ℚ) / ((10 ^ k : Nat) : ℚ) with hτ
  have hτ0 : 0 ≤ τ := by positivity
  have hτ1 : τ < 1 := by
    rw [hτ, div_lt_one hp]; exact_mod_cast Nat.mod_lt _ hpk
  have ht : RK.TruncRel trunc.toInt τ := by
    rcases htr with ⟨h1, h2⟩ | ⟨h1, h2⟩
    · left; refine ⟨by rw [h1]; rfl, ?_⟩
      rw [hτ, h2]; simp
    · right; left
      refine ⟨by rw [h1]; rfl, ?_, hτ1⟩
      apply div_pos _ hp
      exact_mod_cast Nat.pos_of_ne_zero h2
  have hCm := RK.Cmax_val
  obtain ⟨s', e', hr, hpost⟩ := reduce128_correct g.DefaultRoundingMode m neg s.1 exp trunc τ hm
    (by omega) (by omega) ht
    (by rw [hsv]; have : (0 : ℚ) < (x.natAbs : ℚ) := by exact_mod_cast hapos
        linarith)
    (fun h1 => by
      rcases htr with ⟨h, _⟩ | ⟨_, h2⟩
      · rw [h] at h1; exact absurd h1 (by decide)
      · rcases hbig with h | h
        · rw [h] at h2; simp [Nat.mod_one] at h2
        · rw [hsv, hCm]; omega)
    (fun h1 => by
      rcases htr with ⟨h, _⟩ | ⟨h, _⟩ <;> rw [h] at h1 <;> exact absurd h1 (by decide))
    (fun h1 => by
      rcases htr with ⟨h, _⟩ | ⟨h, _⟩ <;> rw [h] at h1 <;> exact absurd h1 (by decide))
  rw [hr]
  have hV : Spec.flushOrRoundS m neg ((s.1.toNat : ℚ) + τ) (exp.toInt - 6176) = Spec.roundTo m neg (N : ℚ) := by
    have : exp.toInt - 6176 = (k : Int) := by omega
    rw [this, hsv, ha]
    exact flush_scaled m neg N k hN0
  rw [hV] at hpost
  exact MQ.finish _ neg (s', e') hpost

/-! ## assembling `FromInt` -/

/-- what `FromInt` must return: +0 for 0, otherwise the member of the format the mode selects for
    `|i|` with the sign of `i` (±Inf beyond the range) -/
def fromIntVal (m : Spec.Mode) (i : Int) : Spec.Val :=
  if i = 0 then .fin false 0 0 else Spec.roundTo m (decide (i < 0)) (i.natAbs : ℚ)

theorem inf_same (m : Spec.Mode) (neg : Bool) (N : Nat) (h : 10 ^ 6146 ≤ N) :
    (𝔳[Gen.inf neg]).same (Spec.roundTo m neg (N : ℚ)) = true := by
  rw [Enc.interp_inf, roundTo_inf_of_ge]
  · exact Sp.same_refl _
  · have h1 : ((Spec.Cmax : ℚ) + 1) ≤ (10 : ℚ) ^ (35 : Int) := by
      have := SpecRound.Cmax_upper
      have h2 : ((Spec.Cmax + 1 : Nat) : ℚ) ≤ ((10 ^ 35 : Nat) : ℚ) := by exact_mod_cast this
      push_cast at h2
      exact_mod_cast h2
    have h2 : (10 : ℚ) ^ (35 : Int) * (10 : ℚ) ^ Spec.Emax = (10 : ℚ) ^ (6146 : Int) := by
      rw [← zpow_add₀ (by norm_num)]; rfl
    have h3 : (10 : ℚ) ^ (6146 : Int) ≤ (N : ℚ) := by
      have : ((10 ^ 6146 : Nat) : ℚ) ≤ (N : ℚ) := by exact_mod_cast h
      rw [Nat.cast_pow] at this
      exact_mod_cast this
    calc ((Spec.Cmax : ℚ) + 1) * (10 : ℚ) ^ Spec.Emax
        ≤ (10 : ℚ) ^ (35 : Int) * (10 : ℚ) ^ Spec.Emax :=
          mul_le_mul_of_nonneg_right h1 (zpow_pos (by norm_num) _).le
      _ = (10 : ℚ) ^ (6146 : Int) := h2
      _ ≤ (N : ℚ) := h3

theorem from128_spec (g : Globals) (m : Spec.Mode)
    (hm : Spec.Mode.ofNat? g.DefaultRoundingMode.toNat = some m) (neg : Bool) (N : Nat) (hN0 : 0 < N)
    (hN : Go.Big.bitLen N < 2 ^ 63) (st : DSt) (hst : FInv N st) :
    ∃ r, from128 g neg st = .ok r ∧ (𝔳[r]).same (Spec.roundTo m neg (N : ℚ)) = true := by
  obtain ⟨s, hs, hpost⟩ := divLoop_spec neg N 128 1 128 10 1 rfl (by norm_num) (by norm_num) (by decide)
    (by norm_num) (by norm_num) hN (by norm_num) (by norm_num) st hst
  unfold from128
  rw [hs]
  simp only [RK.ok_bind]
  rcases hpost with ⟨h1, h2⟩ | ⟨⟨hnone, -, k, hk, hk1, ha, htr, hbig⟩, hlt⟩
  · rw [h1]
    exact ⟨_, rfl, inf_same m neg N h2⟩
  · rw [hnone]
    exact finishFrom_spec g m hm neg N hN0 s.2.1 s.2.2.1 s.2.2.2.1 k hk hk1 ha hlt htr hbig

theorem fromSigned_spec (g : Globals) (m : Spec.Mode)
    (hm : Spec.Mode.ofNat? g.DefaultRoundingMode.toNat = some m) (neg : Bool) (i : Int)
    (hi : i ≠ 0) (hN : Go.Big.bitLen i.natAbs < 2 ^ 63) :
    ∃ r, fromSigned g neg i = .ok r ∧ (𝔳[r]).same (Spec.roundTo m neg (i.natAbs : ℚ)) = true := by
  have hN0 : 0 < i.natAbs := Int.natAbs_pos.2 hi
  have hinit : FInv i.natAbs (none, Go.BigInt.Set i, 6176, 0, Go.BigInt.BitLen i, 0) :=
    ⟨rfl, rfl, 0, rfl, by omega, by simp [Go.BigInt.Set], Or.inl ⟨rfl, by simp [Nat.mod_one]⟩, Or.inl rfl⟩
  unfold fromSigned
  by_cases h128 : decide (Go.BigInt.BitLen i > 128) = true
  · rw [if_pos h128]
    by_cases h256 : decide (Go.BigInt.BitLen i > 256) = true
    · rw [if_pos h256]
      obtain ⟨s, hs, hpost⟩ := divLoop_spec neg i.natAbs 256 18 256 1000000000000000000 18 rfl
        (by norm_num) (by norm_num) (by decide) (by norm_num) (by norm_num) hN (by norm_num) (by norm_num)
        _ hinit
      rw [hs]
      simp only [RK.ok_bind]
      rcases hpost with ⟨h1, h2⟩ | ⟨hinv, hlt⟩
      · rw [h1]
        exact ⟨_, rfl, inf_same m neg _ h2⟩
      · have hnone := hinv.none
        rw [hnone]
        have : (none, s.2.1, s.2.2.1, s.2.2.2.1, s.2.2.2.2.1, s.2.2.2.2.2) = s := by
          rw [← hnone]
        simp only []
        rw [this]
        exact from128_spec g m hm neg _ hN0 hN s hinv
    · rw [if_neg h256]
      exact from128_spec g m hm neg _ hN0 hN _ hinit
  · rw [if_neg h128]
    have hlt : i.natAbs < 2 ^ 128 := by
      have := (BitLen_gt i 128 (by norm_num) hN).not.1 h128
      omega
    exact finishFrom_spec g m hm neg _ hN0 i 6176 0 0 rfl (by omega) (by simp) hlt
      (Or.inl ⟨rfl, by simp [Nat.mod_one]⟩) (Or.inl rfl)

/-- **FromInt** for every `big.Int` of fewer than 2^63 bits: no panic, termination, and the result
    denotes `fromIntVal m i`. -/
theorem FromInt_correct (g : Globals) (i : Int) (m : Spec.Mode)
    (hm : Spec.Mode.ofNat? g.DefaultRoundingMode.toNat = some m)
    (hN : Go.Big.bitLen i.natAbs < 2 ^ 63) :
    ∃ r, Gen.FromInt g i = .ok r ∧ (𝔳[r]).same (fromIntVal m i) = true := by
  rw [FromInt_eq]
  unfold fromIntVal
  by_cases h0 : (Go.BigInt.Sign i == 0) = true
  · rw [if_pos h0, if_pos ((Sign_eq_zero i).1 h0)]
    exact ⟨_, rfl, by rw [Enc.interp_zero]; exact Sp.same_zero _ _ _⟩
  · rw [if_neg h0]
    have hi : i ≠ 0 := fun h => h0 ((Sign_eq_zero i).2 h)
    rw [if_neg hi]
    have : decide (Go.BigInt.Sign i < 0) = decide (i < 0) := by
      rw [Bool.eq_iff_iff, Sign_neg, decide_eq_true_eq]
    rw [this]
    exact fromSigned_spec g m hm _ i hi hN
end BigConv
