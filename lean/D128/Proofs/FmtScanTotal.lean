/-
  D128/Proofs/FmtScanTotal.lean — `Gen.Decimal.Scan` never panics except for the `scanError` of `SkipSpace`.

  * `FmtScan.scanName_total`, `scanNum_total`, `scanBody_total`, `scanSign_total`
  * `FmtScan.Scan_total` : for every state whose input has fewer than `2^62` runes, every verb and `d`:
    `Scan` returns normally, unless the verb is accepted and `panicCond` holds — then it panics with
    `skipPanic`
  * `FmtScan.Scan_consumes_nothing_badverb`
-/
import D128.Proofs.FmtScanTop
set_option autoImplicit false
set_option linter.unusedVariables false

namespace FmtScan
open Go Gen

theorem scanName_total (d : Decimal) (s2 : ScanState) (a a' b b' : Int32) (v : Decimal) :
    ∃ x, scanName d s2 a a' b b' v = .ok x := by
  rw [scanName_spec]
  split
  · exact ⟨_, rfl⟩
  · split
    · exact ⟨_, rfl⟩
    · split
      · exact ⟨_, rfl⟩
      · split <;> exact ⟨_, rfl⟩

theorem scanNum_total (g : Globals) (d : Decimal) {s : ScanState} {r : Int32} {t : List Int32}
    (hw : window s = r :: t) (neg : Bool) (hsz : s.input.size < 2 ^ 62) :
    ∃ x, scanNum g d (step s r) neg = .ok x := by
  rw [scanNum_spec g d hw]
  split
  · exact ⟨_, rfl⟩
  · have hlen : ((window s).takeWhile tokPred).length ≤ s.input.size := by
      have h1 := window_length_le s
      have h2 := (List.takeWhile_sublist tokPred (l := window s)).length_le
      omega
    obtain ⟨v0, e0, hp, _⟩ := Parse.parseNumber_total' g
      (((window s).takeWhile tokPred).map byteOf).toArray neg true
      (by simp only [List.size_toArray, List.length_map]; omega)
    rw [hp]
    exact ⟨_, rfl⟩

theorem scanBody_total (g : Globals) (d : Decimal) (s1 : ScanState) (neg : Bool)
    (hsz : s1.input.size < 2 ^ 62) : ∃ x, scanBody g d s1 neg = .ok x := by
  rw [scanBody_spec]
  cases hw : window s1 with
  | nil => exact ⟨_, rfl⟩
  | cons r t =>
    simp only
    split
    · exact scanName_total _ _ _ _ _ _ _
    · split
      · exact scanName_total _ _ _ _ _ _ _
      · exact scanNum_total g d hw neg hsz

theorem scanSign_total (g : Globals) (d : Decimal) (s0 : ScanState) (hsz : s0.input.size < 2 ^ 62) :
    ∃ x, scanSign g d s0 = .ok x := by
  rw [scanSign_spec]
  cases hw : window s0 with
  | nil => exact ⟨_, rfl⟩
  | cons r t =>
    simp only
    split
    · exact scanBody_total g d _ _ hsz
    · split
      · exact scanBody_total g d _ _ hsz
      · exact scanBody_total g d _ _ hsz

/-- **No panic but the one of `SkipSpace`.**  For every `d`, verb and state (input below `2^62` runes):
`Scan` panics iff the verb is one of `e E f F g G v` and `SkipSpace` panics (`panicCond`: the leading
space is followed by a newline that is not space in the mode of the state, or by the end of the window
with a broken reader); the panic is the `scanError` that package fmt recovers.  In particular the two
`UnreadRune` calls are always preceded by a successful `ReadRune` (the model's `unmodelled` arm is never
reached), and `parseNumber` never panics on the token. -/
theorem Scan_total (g : Globals) (d : Decimal) (f : ScanState) (verb : Int32)
    (hsz : f.input.size < 2 ^ 62) :
    (okVerb verb = true ∧ panicCond f → Gen.Decimal.Scan g d f verb = .error skipPanic) ∧
      (¬ (okVerb verb = true ∧ panicCond f) → ∃ x, Gen.Decimal.Scan g d f verb = .ok x) := by
  constructor
  · rintro ⟨hv, hp⟩
    rw [Scan_skipped g d f verb hv, if_pos hp]
  · intro h
    by_cases hv : okVerb verb = true
    · have hp : ¬ panicCond f := fun hp => h ⟨hv, hp⟩
      rw [Scan_skipped g d f verb hv, if_neg hp]
      exact scanSign_total g d _ (by rw [skipped_input]; exact hsz)
    · exact ⟨_, Scan_badverb g d f verb (by simpa using hv)⟩

end FmtScan
