/-
  D128/Proofs/QuantizeCeilFloor.lean — the finite, non-zero paths of `Gen.Decimal.Ceil` and
  `Gen.Decimal.Floor` (Go: /repo/rounding.go) against `Spec.ceilDp`, `Spec.floorDp` (property C08).
  The two generated functions differ only in the sign for which the magnitude is bumped; both are
  brought to the common normal form `cfTail d up …` (`up` = "round the magnitude up").

  Provided (namespace `Qz`):
  * tactic `zeta_beta`      : zeta-reduce every `have` of the goal (join points included) and beta-reduce
  * `cfBody`, `bumpBody`, `cfFinish`, `cfTail`, `Ceil_eq`, `Floor_eq` : normal forms
  * `cf_loop`               : the digit-dropping loop leaves `c / 10^K` and the flag `c % 10^K ≠ 0`
  * `bump_loop`             : the increment loop adds one unit exactly when the flag is set (no carry possible)
  * `exactOrInfS_one_inf`   : one quantum `10^j`, `j ≥ 6147`, is not finite
  * `cf_finite`             : `cfTail` against the common shape of `ceilDp_fin` / `floorDp_fin`
  * `ceil_finite`, `floor_finite` : finite non-zero `d`, every `dp`: no panic and the result denotes
                              `Spec.ceilDp dp.toInt 𝔳[d]` resp. `Spec.floorDp dp.toInt 𝔳[d]`
-/
import D128.Proofs.QuantizeRound

set_option autoImplicit false
set_option maxRecDepth 4096

namespace Qz
open Gen Spec
local notation "𝔳[" d "]" => Spec.interp (Gen.Decimal.lo d) (Gen.Decimal.hi d)

/-! ## normal forms -/

abbrev FSt := U128 × Int64 × Int8
abbrev BSt := U128 × Int16 × Int8

def cfBody (D : Int64) (_ : Unit) (s : FSt) : Go.GoM (ForInStep FSt) :=
  if decide (s.2.1 < D) = true then do
    let x ← U128.div10 s.1
    if (x.1.w0 ||| x.1.w1 == 0) = true then
      pure (ForInStep.done (x.1, D, if (x.2 != 0) = true then 1 else s.2.2))
    else pure (ForInStep.yield (x.1, s.2.1 + 1, if (x.2 != 0) = true then 1 else s.2.2))
  else pure (ForInStep.done (s.1, s.2.1, s.2.2))

def bumpBody (_ : Unit) (s : BSt) : Go.GoM (ForInStep BSt) :=
  if (s.2.2 != 0) = true then
    if decide ((U128.add64 s.1 1).w1 > 703687441776639) = true then do
      let x ← U128.div10 (U128.add64 s.1 1)
      if (x.2 != 0) = true then pure (ForInStep.yield (x.1, s.2.1 + 1, 1))
      else pure (ForInStep.yield (x.1, s.2.1 + 1, 0))
    else pure (ForInStep.yield (U128.add64 s.1 1, s.2.1, 0))
  else pure (ForInStep.done (s.1, s.2.1, s.2.2))

def cfFinish (neg up : Bool) (s : FSt) : Go.GoM Decimal :=
  if up = true then do
    let s2 ← forIn (m := Go.GoM) Lean.Loop.mk ((s.1, (Go.conv s.2.1 : Int16), s.2.2) : BSt) bumpBody
    composeQuantum neg s2.1 (Go.conv s2.2.1)
  else composeQuantum neg s.1 (Go.conv (Go.conv s.2.1 : Int16))

def cfTail (d : Decimal) (up : Bool) (sig : U128) (exp : Int16) (D : Int64) : Go.GoM Decimal :=
  if decide ((Go.conv exp : Int64) ≥ D) = true then pure d
  else if decide ((Go.conv exp : Int64) < D - 35) = true then
    (if up = true then composeQuantum d.Signbit ⟨1, 0⟩ D else pure (zero d.Signbit))
  else forIn (m := Go.GoM) Lean.Loop.mk ((sig, Go.conv exp, 0) : FSt) (cfBody D) >>= cfFinish d.Signbit up

open Lean Meta Elab Tactic in
/-- zeta-reduce every `let/have` of the goal (join points included) and beta-reduce -/
elab "zeta_beta" : tactic => do
  let g ← getMainGoal
  g.withContext do
    let t ← instantiateMVars (← g.getType)
    let t' ← Meta.transform t (pre := fun e => do
      match e with
      | .letE _ _ v b _ => return .visit (b.instantiate1 v)
      | _ => return .continue)
    let t'' ← Core.betaReduce t'
    let g' ← g.replaceTargetDefEq t''
    replaceMainGoal [g']

set_option hygiene false in
/-- the generated tail of `Ceil`/`Floor` (after the clamp of `dp` has been decided) is `cfTail` -/
macro "cf_tail_tac" D:term : tactic => `(tactic| (
    by_cases hA : decide ((Go.conv r2 : Int64) ≥ $D) = true
    · rw [if_pos hA, if_pos hA]
    rw [if_neg hA, if_neg hA]
    by_cases hB : decide ((Go.conv r2 : Int64) < $D - 35) = true
    · rw [if_pos hB, if_pos hB]
      cases d.Signbit <;> rfl
    rw [if_neg hB, if_neg hB]
    with_reducible congr 1
    · with_reducible congr 1
      funext x s
      unfold cfBody
      by_cases h : decide (s.2.1 < $D) = true
      · rw [if_pos h, if_pos h]
        with_reducible congr 1
        funext y
        rcases y with ⟨a, b⟩
        dsimp only
        split_ifs <;> rfl
      · rw [if_neg h, if_neg h]
    · rfl))

theorem Ceil_eq (d : Decimal) (dp : Int64) :
    Decimal.Ceil d dp =
      if d.isSpecial = true then pure d
      else if ((d.decompose.1.w0 ||| d.decompose.1.w1) == 0) = true then pure (zero d.Signbit)
      else cfTail d (!d.Signbit) d.decompose.1 d.decompose.2 (qD dp) := by
  unfold Decimal.Ceil cfTail cfFinish qD
  zeta_beta
  by_cases hs : d.isSpecial = true
  · rw [if_pos hs, if_pos hs]
  rw [if_neg hs, if_neg hs]
  split
  rename_i r1 r2 heq
  have e1 : d.decompose.1 = r1 := by rw [heq]
  have e2 : d.decompose.2 = r2 := by rw [heq]
  rw [e1, e2]
  by_cases hz : (r1.w0 ||| r1.w1 == 0) = true
  · rw [if_pos hz, if_pos hz]
  rw [if_neg hz, if_neg hz]
  by_cases hdp : decide (dp < -6181) = true
  · rw [if_pos hdp, if_pos hdp]
    cf_tail_tac (-6181 * -1 + 6176)
  · rw [if_neg hdp, if_neg hdp]
    cf_tail_tac (dp * -1 + 6176)

theorem Floor_eq (d : Decimal) (dp : Int64) :
    Decimal.Floor d dp =
      if d.isSpecial = true then pure d
      else if ((d.decompose.1.w0 ||| d.decompose.1.w1) == 0) = true then pure (zero d.Signbit)
      else cfTail d d.Signbit d.decompose.1 d.decompose.2 (qD dp) := by
  unfold Decimal.Floor cfTail cfFinish qD
  zeta_beta
  by_cases hs : d.isSpecial = true
  · rw [if_pos hs, if_pos hs]
  rw [if_neg hs, if_neg hs]
  split
  rename_i r1 r2 heq
  have e1 : d.decompose.1 = r1 := by rw [heq]
  have e2 : d.decompose.2 = r2 := by rw [heq]
  rw [e1, e2]
  by_cases hz : (r1.w0 ||| r1.w1 == 0) = true
  · rw [if_pos hz, if_pos hz]
  rw [if_neg hz, if_neg hz]
  by_cases hdp : decide (dp < -6181) = true
  · rw [if_pos hdp, if_pos hdp]
    cf_tail_tac (-6181 * -1 + 6176)
  · rw [if_neg hdp, if_neg hdp]
    cf_tail_tac (dp * -1 + 6176)

/-! ## the digit-dropping loop -/

theorem trunc_upd2 (r : UInt64) (tr : Int8) (c k : Nat) (hr : r.toNat = c / 10 ^ k % 10)
    (htr : tr = if c % 10 ^ k ≠ 0 then 1 else 0) :
    (if (r != 0) = true then (1 : Int8) else tr) = if c % 10 ^ (k + 1) ≠ 0 then 1 else 0 := by
  have hp : 0 < 10 ^ k := by positivity
  have hm : c % 10 ^ (k + 1) = c % 10 ^ k + 10 ^ k * (c / 10 ^ k % 10) := by
    rw [pow_succ]; exact Nat.mod_mul
  rw [RK.u64_ne_zero_iff, hr, hm]
  by_cases h0 : c / 10 ^ k % 10 = 0
  · simp only [h0, ne_eq, not_true_eq_false, decide_false, Bool.false_eq_true, if_false, Nat.mul_zero,
      Nat.add_zero]
    exact htr
  · have : c % 10 ^ k + 10 ^ k * (c / 10 ^ k % 10) ≠ 0 := by
      have : 0 < 10 ^ k * (c / 10 ^ k % 10) := Nat.mul_pos hp (by omega)
      omega
    simp only [ne_eq, h0, not_false_eq_true, decide_true, if_true, this]

theorem cf_loop (D : Int64) (sig : U128) (exp : Int16) (K : Nat)
    (hK : D.toInt = exp.toInt + K) :
    ∃ s', forIn (m := Go.GoM) Lean.Loop.mk ((sig, Go.conv exp, 0) : FSt) (cfBody D) = .ok s' ∧
      s'.2.1.toInt = D.toInt ∧ s'.1.toNat = sig.toNat / 10 ^ K ∧
      s'.2.2 = if sig.toNat % 10 ^ K ≠ 0 then 1 else 0 := by
  have hDlt := D.toInt_lt
  apply RK.loop_inv (cfBody D)
    (fun s : FSt => ∃ k, k ≤ K ∧ s.2.1.toInt = exp.toInt + k ∧ s.1.toNat = sig.toNat / 10 ^ k ∧
      s.2.2 = if sig.toNat % 10 ^ k ≠ 0 then 1 else 0)
    _ (fun s : FSt => (D.toInt - s.2.1.toInt).toNat)
  · rintro ⟨sg, ie, tr⟩ ⟨k, hk, hie, hsg, htr⟩
    dsimp only at hie hsg htr
    by_cases hc : decide (ie < D) = true
    · have hlt : ie.toInt < D.toInt := by
        simpa only [decide_eq_true_eq, Int64.lt_iff_toInt_lt] using hc
      obtain ⟨q, r, e, hq, hr⟩ := U128_div10_spec sg
      have hk1 : k + 1 ≤ K := by omega
      have hq' : q.toNat = sig.toNat / 10 ^ (k + 1) := by
        rw [hq, hsg, Nat.div_div_eq_div_mul, pow_succ]
      have hr' : r.toNat = sig.toNat / 10 ^ k % 10 := by rw [hr, hsg]
      have htr' := trunc_upd2 r tr sig.toNat k hr' htr
      by_cases hf : (q.w0 ||| q.w1 == 0) = true
      · right
        refine ⟨(q, D, (if (r != 0) = true then 1 else tr)), ?_, rfl, ?_, ?_⟩
        · simp only [cfBody, hc, if_true, e, RK.ok_bind, hf]; rfl
        all_goals
          rw [Sp.or_beq_zero, decide_eq_true_eq, hq'] at hf
          have hp : 0 < 10 ^ (k + 1) := by positivity
          have hlt1 : sig.toNat < 10 ^ (k + 1) := by
            by_contra hcon
            have : 0 < sig.toNat / 10 ^ (k + 1) := Nat.div_pos (by omega) hp
            omega
          have h3 : 10 ^ (k + 1) ≤ 10 ^ K := Nat.pow_le_pow_right (by norm_num) hk1
          have hltK : sig.toNat < 10 ^ K := by omega
        · show q.toNat = _
          rw [hq', hf, Nat.div_eq_of_lt hltK]
        · show (if (r != 0) = true then (1 : Int8) else tr) = _
          rw [htr', Nat.mod_eq_of_lt hlt1, Nat.mod_eq_of_lt hltK]
      · left
        have hie' : (ie + 1).toInt = ie.toInt + 1 := by
          have := ie.le_toInt
          rw [i64_add] <;> simp <;> omega
        refine ⟨(q, ie + 1, (if (r != 0) = true then 1 else tr)), ?_, ⟨k + 1, hk1, ?_, hq', htr'⟩, ?_⟩
        · simp only [cfBody, hc, if_true, e, RK.ok_bind, hf]; rfl
        · show (ie + 1).toInt = _
          rw [hie', hie]; push_cast; ring
        · show (D.toInt - (ie + 1).toInt).toNat < (D.toInt - ie.toInt).toNat
          rw [hie']; omega
    · right
      have hge : D.toInt ≤ ie.toInt := by
        simpa only [decide_eq_true_eq, Int64.lt_iff_toInt_lt, not_lt] using hc
      have hkK : k = K := by omega
      subst hkK
      refine ⟨(sg, ie, tr), ?_, by show ie.toInt = D.toInt; omega, hsg, htr⟩
      simp only [cfBody, hc]; rfl
  · refine ⟨0, by omega, ?_, by simp, by simp [Nat.mod_one]⟩
    show (Go.conv exp : Int64).toInt = _
    rw [i16_conv_i64]; simp

/-! ## the increment loop -/

theorem bump_loop (sg : U128) (ex : Int16) (tr : Int8) (hs : sg.toNat + 1 ≤ Spec.Cmax)
    (htr : tr = 0 ∨ tr = 1) :
    ∃ sg', forIn (m := Go.GoM) Lean.Loop.mk ((sg, ex, tr) : BSt) bumpBody = .ok (sg', ex, 0) ∧
      sg'.toNat = sg.toNat + (if tr = 0 then 0 else 1) := by
  have hCm := RK.Cmax_val
  have hdone : ∀ s : U128, forIn (m := Go.GoM) Lean.Loop.mk ((s, ex, 0) : BSt) bumpBody = .ok (s, ex, 0) := by
    intro s
    rw [Go.loop_unfold]
    rfl
  rcases htr with rfl | rfl
  · exact ⟨sg, hdone sg, by simp⟩
  · have hadd : (U128.add64 sg 1).toNat = sg.toNat + 1 := by
      rw [U128_add64_toNat_of_lt]
      · simp
      · simp; omega
    have hw : decide ((U128.add64 sg 1).w1 > 703687441776639) = false := by
      rw [RK.U128_w1_gt_iff, hadd]; simp only [decide_eq_false_iff_not]; omega
    have hbody : bumpBody () (sg, ex, 1) = .ok (.yield (U128.add64 sg 1, ex, 0)) := by
      simp only [bumpBody, hw]; rfl
    refine ⟨U128.add64 sg 1, ?_, by rw [hadd]; simp⟩
    rw [Go.loop_unfold, hbody]
    exact hdone _

/-! ## one quantum above every finite value -/

theorem exactOrInfS_one_inf (n : Bool) (j : Int) (hj : 6147 ≤ j) : Spec.exactOrInfS n 1 j = .inf n := by
  apply exactOrInfS_not_member n 1 j one_pos
  apply not_member_of_gt
  rw [one_mul]
  have h1 : (Spec.Cmax : ℚ) < (10 : ℚ) ^ (35 : Int) := by
    have := SpecRound.Cmax_upper
    have : ((Spec.Cmax : Nat) : ℚ) < ((10 ^ 35 : Nat) : ℚ) := by exact_mod_cast this
    rw [zpow_ofNat]; push_cast at this; exact this
  have hp : (0 : ℚ) < (10 : ℚ) ^ Spec.Emax := zpow_pos (by norm_num) _
  calc (Spec.Cmax : ℚ) * (10 : ℚ) ^ Spec.Emax < (10 : ℚ) ^ (35 : Int) * (10 : ℚ) ^ Spec.Emax :=
        mul_lt_mul_of_pos_right h1 hp
    _ = (10 : ℚ) ^ ((35 : Int) + Spec.Emax) := (zpow_add₀ (by norm_num) _ _).symm
    _ ≤ (10 : ℚ) ^ j := zpow_le_zpow_right₀ (by norm_num) (by simp only [Spec.Emax]; omega)

/-! ## the common finite path -/

theorem cf_finite (d : Decimal) (dp : Int64) (up : Bool)
    (hd : d.isSpecial = false) (hz : d.IsZero = false) :
    ∃ r, cfTail d up d.decompose.1 d.decompose.2 (qD dp) = .ok r ∧
      (0 ≤ d.decompose.2.toInt - 6176 + dp.toInt →
        (𝔳[r]).same (.fin d.Signbit d.decompose.1.toNat (d.decompose.2.toInt - 6176)) = true) ∧
      (∀ K : Nat, 0 < K → d.decompose.2.toInt - 6176 + dp.toInt = -(K : Int) →
        (𝔳[r]).same
          (if 10 ^ K ∣ d.decompose.1.toNat then
            .fin d.Signbit d.decompose.1.toNat (d.decompose.2.toInt - 6176)
           else Spec.exactOrInfS d.Signbit
            (((if up = true then d.decompose.1.toNat / 10 ^ K + 1 else d.decompose.1.toNat / 10 ^ K : Nat)) : ℚ)
            (-dp.toInt)) = true) := by
  obtain ⟨hc1, hcC, hE0, hE1, h5⟩ := cf_facts d hd hz
  have hD := qD_toInt dp
  have hD35 := qD35_toInt dp
  have hconv := i16_conv_i64 d.decompose.2
  have hCm := RK.Cmax_val
  have hint := Enc.interp_decompose d hd
  generalize d.decompose.1 = sig at *
  generalize d.decompose.2 = exp at *
  unfold cfTail
  by_cases hA : decide ((Go.conv exp : Int64) ≥ qD dp) = true
  · have hA' : (qD dp).toInt ≤ exp.toInt := by
      simpa only [ge_iff_le, decide_eq_true_eq, Int64.le_iff_toInt_le, hconv] using hA
    rw [if_pos hA]
    refine ⟨d, rfl, fun _ => ?_, fun K hK0 hK => ?_⟩
    · rw [hint]; exact Sp.same_refl _
    · omega
  rw [if_neg hA]
  have hA' : exp.toInt < (qD dp).toInt := by
    simpa only [ge_iff_le, decide_eq_true_eq, Int64.le_iff_toInt_le, hconv, not_le] using hA
  by_cases hB : decide ((Go.conv exp : Int64) < qD dp - 35) = true
  · have hB' : exp.toInt < (qD dp - 35).toInt := by
      simpa only [decide_eq_true_eq, Int64.lt_iff_toInt_lt, hconv] using hB
    rw [if_pos hB]
    cases up
    · -- the magnitude is rounded down to zero
      refine ⟨zero d.Signbit, rfl, fun h => by omega, fun K hK0 hK => ?_⟩
      obtain ⟨_, t2, t3⟩ := tiny_facts sig.toNat K hc1 hcC (by omega)
      rw [if_neg t2, t3, Enc.interp_zero]
      simp only [Bool.false_eq_true, if_false, Nat.cast_zero, exactOrInfS_zero]
      exact Sp.same_zero _ _ _
    · -- the magnitude is rounded up to one quantum
      obtain ⟨r, hr, hsame⟩ := composeQuantum_same d.Signbit ⟨1, 0⟩ (qD dp)
        (by simp only [U128.toNat]; rw [hCm]; decide) (by omega)
      refine ⟨r, hr, fun h => by omega, fun K hK0 hK => ?_⟩
      obtain ⟨_, t2, t3⟩ := tiny_facts sig.toNat K hc1 hcC (by omega)
      rw [if_neg t2, t3]
      have h1 : ((⟨1, 0⟩ : U128).toNat : ℚ) = 1 := by simp [U128.toNat]
      rw [h1] at hsame
      simp only [if_true, Nat.zero_add, Nat.cast_one]
      by_cases hdp : -6181 ≤ dp.toInt
      · have : (qD dp).toInt - 6176 = -dp.toInt := by omega
        rw [this] at hsame; exact hsame
      · rw [exactOrInfS_one_inf _ _ (by omega)] at hsame
        rw [exactOrInfS_one_inf _ _ (by omega)]; exact hsame
  rw [if_neg hB]
  have hB' : (qD dp - 35).toInt ≤ exp.toInt := by
    simpa only [decide_eq_true_eq, Int64.lt_iff_toInt_lt, hconv, not_lt] using hB
  obtain ⟨K, hK⟩ : ∃ K : Nat, (qD dp).toInt = exp.toInt + (K : Int) :=
    ⟨((qD dp).toInt - exp.toInt).toNat, by omega⟩
  have hK1 : 1 ≤ K := by omega
  have hdp : -6181 ≤ dp.toInt := by omega
  have hKe : exp.toInt - 6176 + dp.toInt = -(K : Int) := by omega
  have hpn : 0 < 10 ^ K := by positivity
  obtain ⟨s', hloop, hie, hsg, htr⟩ := cf_loop (qD dp) sig exp K hK
  rw [hloop]
  obtain ⟨sg, ie, tr⟩ := s'
  dsimp only at hie hsg htr
  have hsle : sg.toNat + 1 ≤ Spec.Cmax := by
    have h10 : 10 ^ 1 ≤ 10 ^ K := Nat.pow_le_pow_right (by norm_num) hK1
    have : sig.toNat / 10 ^ K ≤ sig.toNat / 10 ^ 1 := Nat.div_le_div_left h10 (by norm_num)
    omega
  have hconv1 : (Go.conv ie : Int16).toInt = ie.toInt :=
    i64_conv_i16 ie (by omega) (by simp only [Int.reducePow]; omega)
  have hconv2 : (Go.conv (Go.conv ie : Int16) : Int64).toInt = ie.toInt := by
    rw [i16_conv_i64, hconv1]
  have hexp : ie.toInt - 6176 = -dp.toInt := by omega
  have hmod : (10 ^ K ∣ sig.toNat) ↔ sig.toNat % 10 ^ K = 0 := Nat.dvd_iff_mod_eq_zero
  -- what the final `composeQuantum` denotes, for the significand `sg'` it is given
  have fin : ∀ (sg' : U128) (x : Int64), x.toInt = ie.toInt → sg'.toNat ≤ Spec.Cmax →
      sg'.toNat = (if 10 ^ K ∣ sig.toNat then sig.toNat / 10 ^ K
        else if up = true then sig.toNat / 10 ^ K + 1 else sig.toNat / 10 ^ K) →
      ∃ r, composeQuantum d.Signbit sg' x = .ok r ∧
        (0 ≤ exp.toInt - 6176 + dp.toInt →
          (𝔳[r]).same (.fin d.Signbit sig.toNat (exp.toInt - 6176)) = true) ∧
        (∀ K' : Nat, 0 < K' → exp.toInt - 6176 + dp.toInt = -(K' : Int) →
          (𝔳[r]).same
            (if 10 ^ K' ∣ sig.toNat then .fin d.Signbit sig.toNat (exp.toInt - 6176)
             else Spec.exactOrInfS d.Signbit
              (((if up = true then sig.toNat / 10 ^ K' + 1 else sig.toNat / 10 ^ K' : Nat)) : ℚ)
              (-dp.toInt)) = true) := by
    intro sg' x hx hle hval
    obtain ⟨r, hr, hsame⟩ := composeQuantum_same d.Signbit sg' x hle (by omega)
    refine ⟨r, hr, fun h => by omega, fun K' hK0 hK' => ?_⟩
    have : K' = K := by omega
    subst this
    rw [hx, hexp, hval] at hsame
    by_cases hdv : 10 ^ K' ∣ sig.toNat
    · rw [if_pos hdv] at hsame ⊢
      exact same_trans _ _ _ hsame
        (exact_keep d.Signbit _ _ _ K' (by omega) hcC (by simp only [Spec.Emin]; omega)
          (by simp only [Spec.Emax]; omega) hKe hdv)
    · rw [if_neg hdv] at hsame ⊢
      exact hsame
  show ∃ r, cfFinish d.Signbit up (sg, ie, tr) = .ok r ∧ _
  unfold cfFinish
  cases up
  · -- no increment
    simp only [Bool.false_eq_true, if_false]
    apply fin sg _ hconv2 (by omega)
    rw [hsg]; split <;> rfl
  · -- increment when digits were dropped
    simp only [if_true]
    have htr01 : tr = 0 ∨ tr = 1 := by rw [htr]; split <;> simp
    obtain ⟨sg', hb, hsg'⟩ := bump_loop sg (Go.conv ie) tr hsle htr01
    rw [hb]
    show ∃ r, composeQuantum d.Signbit sg' (Go.conv (Go.conv ie : Int16)) = _ ∧ _
    apply fin sg' _ hconv2
    · rw [hsg']; split <;> omega
    · rw [hsg', hsg, htr]
      by_cases hdv : 10 ^ K ∣ sig.toNat
      · have := hmod.1 hdv
        simp [hdv, this]
      · have : sig.toNat % 10 ^ K ≠ 0 := fun h => hdv (hmod.2 h)
        simp [hdv, this]

/-! ## `Ceil` and `Floor` -/

theorem ceil_finite (d : Decimal) (dp : Int64)
    (hd : d.isSpecial = false) (hz : d.IsZero = false) :
    ∃ r, Decimal.Ceil d dp = .ok r ∧ (𝔳[r]).same (Spec.ceilDp dp.toInt 𝔳[d]) = true := by
  obtain ⟨hc1, _, _, _, h5⟩ := cf_facts d hd hz
  obtain ⟨r, hr, h1, h2⟩ := cf_finite d dp (!d.Signbit) hd hz
  rw [Ceil_eq, hd, h5, Enc.interp_decompose d hd]
  simp only [Bool.false_eq_true, if_false]
  refine ⟨r, hr, ?_⟩
  by_cases h : 0 ≤ d.decompose.2.toInt - 6176 + dp.toInt
  · rw [ceilDp_keep _ _ _ _ (by omega) h]; exact h1 h
  · obtain ⟨K, hK⟩ : ∃ K : Nat, d.decompose.2.toInt - 6176 + dp.toInt = -(K : Int) :=
      ⟨(-(d.decompose.2.toInt - 6176 + dp.toInt)).toNat, by omega⟩
    rw [ceilDp_fin _ _ _ _ K (by omega) hK (by omega)]
    have := h2 K (by omega) hK
    cases hs : d.Signbit <;> simp only [hs, Bool.not_false, Bool.not_true, if_true, if_false,
      Bool.false_eq_true] at this ⊢ <;> exact this

theorem floor_finite (d : Decimal) (dp : Int64)
    (hd : d.isSpecial = false) (hz : d.IsZero = false) :
    ∃ r, Decimal.Floor d dp = .ok r ∧ (𝔳[r]).same (Spec.floorDp dp.toInt 𝔳[d]) = true := by
  obtain ⟨hc1, _, _, _, h5⟩ := cf_facts d hd hz
  obtain ⟨r, hr, h1, h2⟩ := cf_finite d dp d.Signbit hd hz
  rw [Floor_eq, hd, h5, Enc.interp_decompose d hd]
  simp only [Bool.false_eq_true, if_false]
  refine ⟨r, hr, ?_⟩
  by_cases h : 0 ≤ d.decompose.2.toInt - 6176 + dp.toInt
  · rw [floorDp_keep _ _ _ _ (by omega) h]; exact h1 h
  · obtain ⟨K, hK⟩ : ∃ K : Nat, d.decompose.2.toInt - 6176 + dp.toInt = -(K : Int) :=
      ⟨(-(d.decompose.2.toInt - 6176 + dp.toInt)).toNat, by omega⟩
    rw [floorDp_fin _ _ _ _ K (by omega) hK (by omega)]
    exact h2 K (by omega) hK

end Qz
