/-
  D128/Proofs/LayoutE.lean — `Gen.digits.fmtE` (Go: `func (d *digits) fmtE`, /repo/format.go:573) at the
  byte level, for every precision, width and flag combination.

  * `Ly.fmtE_t5`, `Ly.fmtE_t4`, `Ly.fmtE_t3`, `Ly.fmtE_t1`, `Ly.fmtE_unfold` : the function cut into
        stages (text copied from the generated source, tied to it by `fmtE_unfold : … := rfl`)
  * `Ly.expDigits`, `Ly.expBytes`, `Ly.signBytes`, `Ly.fracE`, `Ly.bodyE` : the bytes each stage appends
  * `Ly.fmtE_t5_eq`, `Ly.fmtE_t4_eq`, `Ly.fmtE_t3_eq`, `Ly.fmtE_t1_eq`
  * `Ly.fmtE_eq`   : `fmtE d buf prec width … = .ok (d, padOut d.neg (buf ++ bodyE …) |buf| width …)` —
        no panic, termination, `d` unchanged
-/
import D128.Proofs.LayoutPad

set_option autoImplicit false
set_option maxRecDepth 4096

namespace Ly
open Dg Gen

/-- exponent digits and padding of `fmtE` (text copied from the generated source) -/
def fmtE_t5 (d : digits) (buf : Go.Bytes) (exp start width : Int64) (printSign padSign padExp padRight padZero : Bool) : Go.GoM (digits × Go.Bytes) := do
  let mut d : digits := d
  let mut buf : Go.Bytes := buf
  if (decide (exp < (10 : Int64))) then
    if padExp then
      buf := ((buf.push (48 : UInt8)).push ((48 : UInt8) + (Go.conv exp : UInt8)))
    else
      buf := (buf.push ((48 : UInt8) + (Go.conv exp : UInt8)))
  else
    if (decide (exp < (100 : Int64))) then
      buf := ((buf.push ((48 : UInt8) + (Go.conv (exp / (10 : Int64)) : UInt8))).push ((48 : UInt8) + (Go.conv (exp % (10 : Int64)) : UInt8)))
    else
      if (decide (exp < (1000 : Int64))) then
        buf := (((buf.push ((48 : UInt8) + (Go.conv (exp / (100 : Int64)) : UInt8))).push ((48 : UInt8) + (Go.conv ((exp / (10 : Int64)) % (10 : Int64)) : UInt8))).push ((48 : UInt8) + (Go.conv (exp % (10 : Int64)) : UInt8)))
      else
        buf := ((((buf.push ((48 : UInt8) + (Go.conv (exp / (1000 : Int64)) : UInt8))).push ((48 : UInt8) + (Go.conv ((exp / (100 : Int64)) % (10 : Int64)) : UInt8))).push ((48 : UInt8) + (Go.conv ((exp / (10 : Int64)) % (10 : Int64)) : UInt8))).push ((48 : UInt8) + (Go.conv (exp % (10 : Int64)) : UInt8)))
  let (r_3, r_4) ← digits.pad d buf start width printSign padSign padRight padZero
  d := r_3
  buf := r_4
  return (d, buf)

/-- exponent letter and sign of `fmtE`, then `fmtE_t5` -/
def fmtE_t4 (d : digits) (buf : Go.Bytes) (start width : Int64) (printSign padSign padExp padRight padZero : Bool) (e : UInt8) : Go.GoM (digits × Go.Bytes) := do
  let mut buf : Go.Bytes := buf
  buf := (buf.push e)
  let mut exp : Int64 := d.exp
  if (decide (d.ndig > (1 : Int64))) then
    exp := (exp + (d.ndig - (1 : Int64)))
  if (decide (exp < (0 : Int64))) then
    exp := (-exp)
    buf := (buf.push (45 : UInt8))
  else
    buf := (buf.push (43 : UInt8))
  fmtE_t5 d buf exp start width printSign padSign padExp padRight padZero

/-- fraction digits of `fmtE`, then `fmtE_t4` -/
def fmtE_t3 (d : digits) (buf : Go.Bytes) (prec start width : Int64) (forceDP printSign padSign padExp padRight padZero : Bool) (e : UInt8) : Go.GoM (digits × Go.Bytes) := do
  let mut buf : Go.Bytes := buf
  if (decide (prec > (0 : Int64))) then
    buf := (buf.push (46 : UInt8))
    let mut i : Int64 := (0 : Int64)
    if (decide (d.ndig > (1 : Int64))) then
      let t_2 ← Go.vslice d.dig (1 : Int) (Go.idx d.ndig)
      buf := (buf ++ t_2)
      i := (d.ndig - (1 : Int64))
    while (decide (i < prec)) do
      buf := (buf.push (48 : UInt8))
      i := (i + (1 : Int64))
  else
    if forceDP then
      buf := (buf.push (46 : UInt8))
  fmtE_t4 d buf start width printSign padSign padExp padRight padZero e

/-- sign and first digit of `fmtE`, then `fmtE_t3` -/
def fmtE_t1 (d : digits) (buf : Go.Bytes) (prec width : Int64) (forceDP printSign padSign padExp padRight padZero : Bool) (e : UInt8) : Go.GoM (digits × Go.Bytes) := do
  let mut buf : Go.Bytes := buf
  let mut start : Int64 := (Go.len buf)
  if d.neg then
    buf := (buf.push (45 : UInt8))
  else
    if printSign then
      buf := (buf.push (43 : UInt8))
    else
      if padSign then
        buf := (buf.push (32 : UInt8))
  if (d.ndig == (0 : Int64)) then
    buf := (buf.push (48 : UInt8))
  else
    buf := (buf.push d.dig[0])
  fmtE_t3 d buf prec start width forceDP printSign padSign padExp padRight padZero e

theorem fmtE_unfold (d : digits) (buf : Go.Bytes) (prec width : Int64) (forceDP printSign padSign padExp padRight padZero : Bool) (e : UInt8) :
    Gen.digits.fmtE d buf prec width forceDP printSign padSign padExp padRight padZero e = (do
      let mut buf : Go.Bytes := buf
      if ((Go.len buf) == (0 : Int64)) then
        let mut sizeHint : Int64 := ((9 : Int64) + d.ndig)
        if (decide (width > sizeHint)) then
          sizeHint := width
        let t_1 ← Go.makeBytes (0 : Int) (Go.idx sizeHint)
        buf := t_1
      fmtE_t1 d buf prec width forceDP printSign padSign padExp padRight padZero e) := by
  rfl

/-! ## the bytes each stage appends -/

/-- digits of the exponent magnitude `a` as `fmtE` writes them (at least two if `padExp`) -/
def expDigits (a : Nat) (padExp : Bool) : List UInt8 :=
  if a < 10 then (if padExp then [48, 48 + UInt8.ofNat a] else [48 + UInt8.ofNat a])
  else if a < 100 then [48 + UInt8.ofNat (a / 10), 48 + UInt8.ofNat (a % 10)]
  else if a < 1000 then
    [48 + UInt8.ofNat (a / 100), 48 + UInt8.ofNat (a / 10 % 10), 48 + UInt8.ofNat (a % 10)]
  else [48 + UInt8.ofNat (a / 1000), 48 + UInt8.ofNat (a / 100 % 10), 48 + UInt8.ofNat (a / 10 % 10),
    48 + UInt8.ofNat (a % 10)]

theorem ofInt_natCast (n : Nat) : UInt8.ofInt (n : Int) = UInt8.ofNat n := by
  apply UInt8.toNat_inj.mp
  rw [UInt8.ofInt.eq_1]
  simp only [UInt8.toNat_ofNat']
  omega

theorem conv_u8 (x : Int64) (n : Nat) (h : x.toInt = n) : (Go.conv x : UInt8) = UInt8.ofNat n := by
  show UInt8.ofInt x.toInt = _
  rw [h, ofInt_natCast]

theorem i64_div_nat (x : Int64) (n k : Nat) (h : x.toInt = n) (c : Int64) (hc : c.toInt = k)
    (hk : 0 < k) : (x / c).toInt = (n / k : Nat) := by
  rw [Int64.toInt_div, h, hc, Int.tdiv_eq_ediv_of_nonneg (by omega)]
  have h1 := x.toInt_lt
  have h2 : (n : Int) / (k : Int) ≤ n := Int.ediv_le_self _ (by omega)
  have h3 : 0 ≤ (n : Int) / (k : Int) := Int.ediv_nonneg (by omega) (by omega)
  rw [bmod64 _ (by omega) (by omega)]
  rfl

theorem i64_mod_nat (x : Int64) (n k : Nat) (h : x.toInt = n) (c : Int64) (hc : c.toInt = k) :
    (x % c).toInt = (n % k : Nat) := by
  rw [Int64.toInt_mod, h, hc, Int.tmod_eq_emod_of_nonneg (by omega)]
  rfl

theorem bind_pair_eta {α β : Type} (x : Go.GoM (α × β)) :
    (x >>= fun p => pure (p.1, p.2)) = x := by
  cases x with
  | error e => rfl
  | ok v => rfl

theorem push1 (b : Go.Bytes) (x : UInt8) : b.push x = b ++ [x].toArray := by
  apply Array.ext'; simp
theorem push2 (b : Go.Bytes) (x y : UInt8) : (b.push x).push y = b ++ [x, y].toArray := by
  apply Array.ext'; simp
theorem push3 (b : Go.Bytes) (x y z : UInt8) :
    ((b.push x).push y).push z = b ++ [x, y, z].toArray := by
  apply Array.ext'; simp
theorem push4 (b : Go.Bytes) (x y z w : UInt8) :
    (((b.push x).push y).push z).push w = b ++ [x, y, z, w].toArray := by
  apply Array.ext'; simp

theorem fmtE_t5_eq (d : digits) (buf : Go.Bytes) (exp start width : Int64)
    (ps pds pe pr pz : Bool) (a : Nat) (ha : exp.toInt = a) :
    fmtE_t5 d buf exp start width ps pds pe pr pz =
      Gen.digits.pad d (buf ++ (expDigits a pe).toArray) start width ps pds pr pz := by
  have c10 : (10 : Int64).toInt = (10 : Nat) := by decide
  have c100 : (100 : Int64).toInt = (100 : Nat) := by decide
  have c1000 : (1000 : Int64).toInt = (1000 : Nat) := by decide
  have l10 : (exp < 10) ↔ a < 10 := by rw [i64_lt, ha, c10]; omega
  have l100 : (exp < 100) ↔ a < 100 := by rw [i64_lt, ha, c100]; omega
  have l1000 : (exp < 1000) ↔ a < 1000 := by rw [i64_lt, ha, c1000]; omega
  have d10 := i64_div_nat exp a 10 ha 10 c10 (by omega)
  have d100 := i64_div_nat exp a 100 ha 100 c100 (by omega)
  have d1000 := i64_div_nat exp a 1000 ha 1000 c1000 (by omega)
  have m10 := i64_mod_nat exp a 10 ha 10 c10
  have m10' := i64_mod_nat (exp / 10) (a / 10) 10 d10 10 c10
  have m100' := i64_mod_nat (exp / 100) (a / 100) 10 d100 10 c10
  unfold fmtE_t5 expDigits
  simp only [l10, l100, l1000, conv_u8 exp a ha, conv_u8 _ _ d10, conv_u8 _ _ d100, conv_u8 _ _ d1000,
    conv_u8 _ _ m10, conv_u8 _ _ m10', conv_u8 _ _ m100']
  by_cases h1 : a < 10
  · cases pe
    · simp only [h1, decide_true, if_true, Bool.false_eq_true, if_false]
      rw [push1]; exact bind_pair_eta _
    · simp only [h1, decide_true, if_true]
      rw [push2]; exact bind_pair_eta _
  · by_cases h2 : a < 100
    · simp only [h1, h2, decide_true, decide_false, if_true, Bool.false_eq_true, if_false]
      rw [push2]; exact bind_pair_eta _
    · by_cases h3 : a < 1000
      · simp only [h1, h2, h3, decide_true, decide_false, if_true, Bool.false_eq_true, if_false]
        rw [push3]; exact bind_pair_eta _
      · simp only [h1, h2, h3, decide_false, Bool.false_eq_true, if_false]
        rw [push4]; exact bind_pair_eta _

theorem app2 (b : Go.Bytes) (x y : UInt8) (L : List UInt8) :
    b ++ [x, y].toArray ++ L.toArray = b ++ (x :: y :: L).toArray := by
  apply Array.ext'; simp

/-- the decimal exponent `fmtE` prints: `exp + (ndig − 1)` (`exp` itself for at most one digit) -/
def expOf (d : digits) : Int := d.exp.toInt + (if 1 < d.ndig.toInt then d.ndig.toInt - 1 else 0)

/-- exponent part: letter, sign, digits -/
def expBytes (e : UInt8) (x : Int) (padExp : Bool) : List UInt8 :=
  e :: (if x < 0 then 45 else 43) :: expDigits x.natAbs padExp

theorem fmtE_t4_eq (d : digits) (buf : Go.Bytes) (start width : Int64)
    (ps pds pe pr pz : Bool) (e : UInt8) (hexp : ExpOK d) (h0 : 0 ≤ d.ndig.toInt)
    (h39 : d.ndig.toInt ≤ 39) :
    fmtE_t4 d buf start width ps pds pe pr pz e =
      Gen.digits.pad d (buf ++ (expBytes e (expOf d) pe).toArray) start width ps pds pr pz := by
  obtain ⟨hx0, hx1⟩ := hexp
  have hsub : (d.ndig - 1).toInt = d.ndig.toInt - 1 := by
    rw [i64_sub _ _ (by rw [e1]; omega) (by rw [e1]; omega), e1]
  have hadd : (d.exp + (d.ndig - 1)).toInt = d.exp.toInt + (d.ndig.toInt - 1) := by
    rw [i64_add _ _ (by rw [hsub]; omega) (by rw [hsub]; omega), hsub]
  have hgt : (d.ndig > 1) ↔ 1 < d.ndig.toInt := by
    show (1 : Int64) < d.ndig ↔ _
    rw [i64_lt, e1]
  have z0 : (0 : Int64).toInt = 0 := by decide
  unfold fmtE_t4 expBytes
  by_cases hn : 1 < d.ndig.toInt
  · have hX : expOf d = (d.exp + (d.ndig - 1)).toInt := by
      unfold expOf; rw [if_pos hn, hadd]
    simp only [hgt, hn, decide_true, if_true]
    by_cases hneg : d.exp + (d.ndig - 1) < 0
    · have hneg' : expOf d < 0 := by rw [hX]; rw [i64_lt, z0] at hneg; exact hneg
      have ha : (-(d.exp + (d.ndig - 1))).toInt = ((expOf d).natAbs : Nat) := by
        rw [Int64.toInt_neg, bmod64 _ (by rw [hadd]; omega) (by rw [hadd]; omega), ← hX]; omega
      simp only [hneg, hneg', decide_true, if_true]
      rw [fmtE_t5_eq _ _ _ _ _ _ _ _ _ _ _ ha, push2, app2]
    · have hneg' : ¬ expOf d < 0 := by rw [hX]; rw [i64_lt, z0] at hneg; exact hneg
      have ha : (d.exp + (d.ndig - 1)).toInt = ((expOf d).natAbs : Nat) := by
        rw [← hX]; omega
      simp only [hneg, hneg', decide_false, Bool.false_eq_true, if_false]
      rw [fmtE_t5_eq _ _ _ _ _ _ _ _ _ _ _ ha, push2, app2]
  · have hX : expOf d = d.exp.toInt := by
      unfold expOf; rw [if_neg hn]; omega
    simp only [hgt, hn, decide_false, Bool.false_eq_true, if_false]
    by_cases hneg : d.exp < 0
    · have hneg' : expOf d < 0 := by rw [hX]; rw [i64_lt, z0] at hneg; exact hneg
      have ha : (-d.exp).toInt = ((expOf d).natAbs : Nat) := by
        rw [Int64.toInt_neg, bmod64 _ (by omega) (by omega), ← hX]; omega
      simp only [hneg, hneg', decide_true, if_true]
      rw [fmtE_t5_eq _ _ _ _ _ _ _ _ _ _ _ ha, push2, app2]
    · have hneg' : ¬ expOf d < 0 := by rw [hX]; rw [i64_lt, z0] at hneg; exact hneg
      have ha : d.exp.toInt = ((expOf d).natAbs : Nat) := by
        rw [← hX]; omega
      simp only [hneg, hneg', decide_false, Bool.false_eq_true, if_false]
      rw [fmtE_t5_eq _ _ _ _ _ _ _ _ _ _ _ ha, push2, app2]

/-- the bytes `dig[lo:hi]` -/
def digs (d : digits) (lo hi : Nat) : List UInt8 := (d.dig.toList.take hi).drop lo

theorem vslice_digs (d : digits) (lo hi : Int) (l h : Nat) (hl : lo = l) (hh : hi = h)
    (hlh : l ≤ h) (h39 : h ≤ 39) :
    Go.vslice d.dig lo hi = .ok (digs d l h).toArray := by
  rw [hl, hh, vslice_eq _ _ _ (by omega) (by omega) (by omega)]
  congr 1
  apply Array.ext'
  simp [digs, List.drop_take, Vector.toList]

/-- point and fraction digits of `fmtE` -/
def fracE (d : digits) (prec : Int) (forceDP : Bool) : List UInt8 :=
  if 0 < prec then
    46 :: ((if 1 < d.ndig.toInt then digs d 1 d.ndig.toInt.toNat else []) ++
      List.replicate (prec - (if 1 < d.ndig.toInt then d.ndig.toInt - 1 else 0)).toNat 48)
  else if forceDP then [46] else []

theorem fmtE_t3_eq (d : digits) (buf : Go.Bytes) (prec start width : Int64)
    (fdp ps pds pe pr pz : Bool) (e : UInt8) (hexp : ExpOK d) (h0 : 0 ≤ d.ndig.toInt)
    (h39 : d.ndig.toInt ≤ 39) :
    fmtE_t3 d buf prec start width fdp ps pds pe pr pz e =
      Gen.digits.pad d (buf ++ (fracE d prec.toInt fdp ++ expBytes e (expOf d) pe).toArray)
        start width ps pds pr pz := by
  have hsub : (d.ndig - 1).toInt = d.ndig.toInt - 1 := by
    rw [i64_sub _ _ (by rw [e1]; omega) (by rw [e1]; omega), e1]
  have hgt : (d.ndig > 1) ↔ 1 < d.ndig.toInt := by
    show (1 : Int64) < d.ndig ↔ _
    rw [i64_lt, e1]
  have hpgt : (prec > 0) ↔ 0 < prec.toInt := by
    show (0 : Int64) < prec ↔ _
    rw [i64_lt]; rfl
  have z0 : (0 : Int64).toInt = 0 := by decide
  unfold fmtE_t3 fracE
  by_cases hp : 0 < prec.toInt
  · simp only [hpgt, hp, decide_true, if_true]
    by_cases hn : 1 < d.ndig.toInt
    · simp only [hgt, hn, decide_true, if_true]
      rw [vslice_digs d 1 (Go.idx d.ndig) 1 d.ndig.toInt.toNat rfl
        (by show d.ndig.toInt = _; omega) (by omega) (by omega)]
      simp only [ok_bind]
      rw [push_loop 48 prec _ (fun s => rfl), ok_bind, fmtE_t4_eq _ _ _ _ _ _ _ _ _ _ hexp h0 h39, hsub]
      congr 1
      apply Array.ext'
      simp
    · simp only [hgt, hn, decide_false, Bool.false_eq_true, if_false]
      rw [push_loop 48 prec _ (fun s => rfl), ok_bind, fmtE_t4_eq _ _ _ _ _ _ _ _ _ _ hexp h0 h39, z0]
      congr 1
      apply Array.ext'
      simp
  · simp only [hpgt, hp, decide_false, Bool.false_eq_true, if_false]
    cases fdp
    · simp only [Bool.false_eq_true, if_false]
      rw [fmtE_t4_eq _ _ _ _ _ _ _ _ _ _ hexp h0 h39]
      simp
    · simp only [if_true]
      rw [fmtE_t4_eq _ _ _ _ _ _ _ _ _ _ hexp h0 h39]
      congr 1
      apply Array.ext'
      simp

/-- sign byte: `-`, else `+` if requested, else a blank if requested -/
def signBytes (neg printSign padSign : Bool) : List UInt8 :=
  if neg then [45] else if printSign then [43] else if padSign then [32] else []

/-- everything `fmtE` appends before padding -/
def bodyE (d : digits) (prec : Int) (fdp ps pds pe : Bool) (e : UInt8) : List UInt8 :=
  signBytes d.neg ps pds ++ (if d.ndig.toInt = 0 then 48 else at_ d.dig 0) ::
    (fracE d prec fdp ++ expBytes e (expOf d) pe)

theorem app_cons (b : Go.Bytes) (S : List UInt8) (x : UInt8) (L : List UInt8) :
    (b ++ S.toArray).push x ++ L.toArray = b ++ (S ++ x :: L).toArray := by
  apply Array.ext'; simp

theorem fmtE_t1_eq (d : digits) (buf : Go.Bytes) (prec width : Int64)
    (fdp ps pds pe pr pz : Bool) (e : UInt8) (hexp : ExpOK d) (h0 : 0 ≤ d.ndig.toInt)
    (h39 : d.ndig.toInt ≤ 39) :
    fmtE_t1 d buf prec width fdp ps pds pe pr pz e =
      Gen.digits.pad d (buf ++ (bodyE d prec.toInt fdp ps pds pe e).toArray)
        (Go.len buf) width ps pds pr pz := by
  have hz : (d.ndig == 0) = decide (d.ndig.toInt = 0) := by
    by_cases h : d.ndig.toInt = 0
    · rw [(i64_beq_zero d.ndig).mpr h]; simp [h]
    · have : ¬ (d.ndig == 0) = true := fun e => h ((i64_beq_zero d.ndig).mp e)
      simp [h, this]
  have hat : at_ d.dig 0 = d.dig[0] := at_eq d.dig 0 (by decide)
  have key : ∀ S : List UInt8,
      (if (d.ndig == 0) = true then
        fmtE_t3 d ((buf ++ S.toArray).push 48) prec (Go.len buf) width fdp ps pds pe pr pz e
      else fmtE_t3 d ((buf ++ S.toArray).push d.dig[0]) prec (Go.len buf) width fdp ps pds pe pr pz e) =
      Gen.digits.pad d (buf ++ (S ++ (if d.ndig.toInt = 0 then 48 else at_ d.dig 0) ::
        (fracE d prec.toInt fdp ++ expBytes e (expOf d) pe)).toArray) (Go.len buf) width ps pds pr pz := by
    intro S
    rw [hz]
    by_cases h : d.ndig.toInt = 0
    · simp only [h, decide_true, if_true]
      rw [fmtE_t3_eq _ _ _ _ _ _ _ _ _ _ _ _ hexp h0 h39, app_cons]
    · simp only [h, decide_false, Bool.false_eq_true, if_false]
      rw [fmtE_t3_eq _ _ _ _ _ _ _ _ _ _ _ _ hexp h0 h39, app_cons, hat]
  have e0 : buf = buf ++ ([] : List UInt8).toArray := by simp
  unfold fmtE_t1 bodyE signBytes
  cases hneg : d.neg
  · cases ps
    · cases pds
      · simp only [Bool.false_eq_true, if_false]
        have := key []
        rw [← e0] at this
        exact this
      · simp only [Bool.false_eq_true, if_false, if_true]
        rw [push1]; exact key [32]
    · simp only [Bool.false_eq_true, if_false, if_true]
      rw [push1]; exact key [43]
  · simp only [if_true]
    rw [push1]; exact key [45]

theorem signBytes_length (neg ps pds : Bool) :
    (signBytes neg ps pds).length = if (neg || ps || pds) = true then 1 else 0 := by
  cases neg <;> cases ps <;> cases pds <;> rfl

theorem expDigits_length (a : Nat) (pe : Bool) : (expDigits a pe).length ≤ 4 := by
  unfold expDigits
  split_ifs <;> simp

theorem digs_length (d : digits) (lo hi : Nat) (h : hi ≤ 39) : (digs d lo hi).length = hi - lo := by
  simp [digs]; omega

theorem fracE_length (d : digits) (prec : Int) (fdp : Bool) (h0 : 0 ≤ d.ndig.toInt)
    (h39 : d.ndig.toInt ≤ 39) : (fracE d prec fdp).length ≤ 39 + prec.toNat := by
  unfold fracE
  have hd := digs_length d 1 d.ndig.toInt.toNat (by omega)
  split_ifs <;>
    simp only [List.length_cons, List.length_append, List.length_replicate, List.length_nil, hd] <;>
    omega

theorem bodyE_length (d : digits) (prec : Int) (fdp ps pds pe : Bool) (e : UInt8)
    (h0 : 0 ≤ d.ndig.toInt) (h39 : d.ndig.toInt ≤ 39) :
    (bodyE d prec fdp ps pds pe e).length ≤ 47 + prec.toNat ∧
    (signBytes d.neg ps pds).length + 1 ≤ (bodyE d prec fdp ps pds pe e).length := by
  unfold bodyE expBytes
  have h1 := fracE_length d prec fdp h0 h39
  have h2 := expDigits_length (expOf d).natAbs pe
  have h3 := signBytes_length d.neg ps pds
  simp only [List.length_append, List.length_cons]
  split_ifs at h3 <;> omega

/-- **`fmtE` at the byte level**: never panics, terminates, leaves `d` alone and returns the buffer
with `bodyE` appended and padded to `width` by `padOut`. -/
theorem fmtE_eq (d : digits) (buf : Go.Bytes) (prec width : Int64)
    (fdp ps pds pe pr pz : Bool) (e : UInt8) (hexp : ExpOK d) (h0 : 0 ≤ d.ndig.toInt)
    (h39 : d.ndig.toInt ≤ 39) (W : Nat) (hW : width.toInt = W) (hW' : W < 2 ^ 62)
    (hb : buf.size < 2 ^ 61) (hp : prec.toInt < 2 ^ 60) :
    Gen.digits.fmtE d buf prec width fdp ps pds pe pr pz e =
      .ok (d, padOut d.neg (buf ++ (bodyE d prec.toInt fdp ps pds pe e).toArray) buf.size W
        ps pds pr pz) := by
  have hlen := len_toInt buf (by omega)
  obtain ⟨hl1, hl2⟩ := bodyE_length d prec.toInt fdp ps pds pe e h0 h39
  have hsl := signBytes_length d.neg ps pds
  have main : fmtE_t1 d buf prec width fdp ps pds pe pr pz e =
      .ok (d, padOut d.neg (buf ++ (bodyE d prec.toInt fdp ps pds pe e).toArray) buf.size W
        ps pds pr pz) := by
    rw [fmtE_t1_eq _ _ _ _ _ _ _ _ _ _ _ hexp h0 h39]
    apply pad_eq _ _ _ _ _ _ _ _ buf.size W hlen hW
    · simp
    · intro hs
      have : (d.neg || ps || pds) = true := by
        simp only [Bool.and_eq_true] at hs; exact hs.2
      rw [if_pos this] at hsl
      simp; omega
    · simp; omega
    · exact hW'
  rw [fmtE_unfold]
  by_cases hz : (Go.len buf == 0) = true
  · have hsz : buf.size = 0 := by
      have := (i64_beq_zero _).mp hz
      rw [hlen] at this; omega
    have hbuf : buf = #[] := Array.eq_empty_of_size_eq_zero hsz
    have h9 : ((9 : Int64) + d.ndig).toInt = 9 + d.ndig.toInt := by
      have : (9 : Int64).toInt = 9 := by decide
      rw [i64_add _ _ (by omega) (by omega), this]
    simp only [hz, if_true]
    by_cases hw : width > 9 + d.ndig
    · simp only [hw, decide_true, if_true]
      have : (0 : Int) ≤ Go.idx width := by
        have : (9 + d.ndig).toInt < width.toInt := (i64_lt _ _).mp hw
        show 0 ≤ width.toInt; omega
      rw [makeBytes_eq _ _ (by omega) this]
      simp only [ok_bind, Int.toNat_zero, Array.replicate_zero]
      rw [← hbuf]; exact main
    · simp only [hw, decide_false, Bool.false_eq_true, if_false]
      have : (0 : Int) ≤ Go.idx (9 + d.ndig) := by
        show 0 ≤ (9 + d.ndig).toInt; omega
      rw [makeBytes_eq _ _ (by omega) this]
      simp only [ok_bind, Int.toNat_zero, Array.replicate_zero]
      rw [← hbuf]; exact main
  · simp only [hz, Bool.false_eq_true, if_false]
    exact main

end Ly
