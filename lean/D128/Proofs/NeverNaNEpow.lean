/-
  D128/Proofs/NeverNaNEpow.lean — property C15/C18: an UNCONDITIONAL lower bound for the results of
  `decomposed192.powexp10` and `decomposed192.epow` (Go: /repo/decomposed.go), and with it the hypothesis
  `PowPf.RcpRange` of D128/Proofs/PowLadderGeneral.lean.

  `epow` ends with `add1` (whose result is `≥ 1` for EVERY argument, `D192.add1_contract`) followed by
  `powexp10 · exp` with `exp ≥ 0`; `powexp10` either returns the overflow marker `dinf` (exponent 32767) or a
  value `≥ (1 - eps)^P ≥ 1/2`.  A working value `≥ 1/2` has an exponent `≥ -58`.  No precondition on the
  argument of `epow` is needed (no `EpowPre`).

  Provided (namespace `NN`):
  * `exp_ge_of_half`     : `1/2 ≤ val z → -58 ≤ z.exp`
  * `powexp10_lb`        : `1 ≤ val d`, `0 ≤ o`: every result of `powexp10 d o t` is `dinf` or `≥ 1/2`
  * `epow_lb`            : every result of `epow d l t` is `dinf` or `≥ 1/2`
  * `epow_exp_lb`        : … hence `e.exp ≤ 6169 → -58 ≤ e.exp`
  * `rcp_of_epow`        : the reciprocal of such a result is non-zero with `-6288 ≤ exp ≤ 2`
  * `rcpRange`           : `PowPf.RcpRange`
-/
import D128.Proofs.D192Pow
import D128.Proofs.D192QuoContract
import D128.Proofs.D192OneAddContract
import D128.Proofs.PowLadderGeneral
set_option autoImplicit false
set_option maxRecDepth 4096
set_option exponentiation.threshold 512
set_option linter.unusedVariables false
open Std.Do D128.Proofs.WordsWide D192
set_option mvcgen.warning false

namespace NN

/-- a working-format value of at least one half has an exponent of at least −58 (`sig < 2^192 < 10^58`) -/
theorem exp_ge_of_half (z : Gen.decomposed192) (h : 1 / 2 ≤ val z) : -58 ≤ z.exp.toInt := by
  by_contra hc
  have he : z.exp.toInt ≤ -59 := by omega
  have hs : (z.sig.toNat : ℚ) < (10 : ℚ) ^ (58 : Nat) := by
    have := U192.toNat_lt z.sig
    have h2 : (2 : Nat) ^ 192 < 10 ^ 58 := by norm_num
    exact_mod_cast lt_trans this h2
  have hp : (10 : ℚ) ^ z.exp.toInt ≤ (10 : ℚ) ^ (-59 : Int) := zpow_le_zpow_right₀ (by norm_num) he
  have hp0 : (0 : ℚ) < (10 : ℚ) ^ z.exp.toInt := zpow_pos (by norm_num) _
  have hs0 : (0 : ℚ) ≤ (z.sig.toNat : ℚ) := Nat.cast_nonneg _
  have : val z ≤ (10 : ℚ) ^ (58 : Nat) * (10 : ℚ) ^ (-59 : Int) := by
    unfold val
    exact mul_le_mul hs.le hp hp0.le (by positivity)
  have e : (10 : ℚ) ^ (58 : Nat) * (10 : ℚ) ^ (-59 : Int) = 1 / 10 := by
    rw [zpow_neg]; norm_num
  rw [e] at this
  linarith

theorem half_le_one_sub_eps : (1 : ℚ) / 2 ≤ 1 - eps := by
  have := eps_lt
  have h2 : (1 : ℚ) / 10 ^ 56 ≤ 1 / 2 := by norm_num
  linarith

/-- `powexp10` with an exponent argument outside `0…7` -/
theorem powexp10_big (d : Gen.decomposed192) (o : Int16) (t : Int8) (hd : 1 ≤ val d)
    (ho : 8 ≤ o.toInt) :
    ∃ x, Gen.decomposed192.powexp10 d o t = .ok x ∧ (x.1 = Gen.dinf ∨ 1 / 2 ≤ val x.1) := by
  unfold Gen.decomposed192.powexp10
  extract_lets d' tr p0 rt src r0 t1 jp
  have hjp : ⦃⌜True⌝⦄ jp () 0 ⦃⇓ x => ⌜x.1 = Gen.dinf ∨ 1 / 2 ≤ val x.1⌝⦄ := by
    simp only [jp]
    mvcgen
    case inv1 => exact fun st => ⟨0⟩
    case inv2 => exact ⇓ x => match x with
      | .inl st => ⌜st = (none, d, t, (0 : Int64), t, ⟨⟨1, 0, 0⟩, 0⟩)⌝
      | .inr st => ⌜st = (none, d, t, (0 : Int64), t, ⟨⟨1, 0, 0⟩, 0⟩)⌝
    all_goals (simp +zetaDelta at *)
    case vc1 | vc2 | vc3 | vc4 | vc5 | vc6 =>
      all_goals
        casesm* _ ∧ _
        subst_vars
        simp at *
    case vc7 =>
      rename_i h; obtain ⟨-, rfl⟩ := h; rfl
    case vc9 =>
      rename_i hx h; rw [h] at hx; cases hx
    case vc11 | vc13 =>
      rename_i h hle _
      subst h
      have h1 := (convadd_le _ _).mp hle
      have h2 := d.exp.le_toInt
      have h0 : (0 : Int16).toInt = 0 := by decide
      simp only [h0] at h1 ⊢
      omega
    case vc12 | vc14 =>
      rename_i h _ hle _
      subst h
      intro hm
      right
      have hv : val (⟨⟨1, 0, 0⟩, 0⟩ : Gen.decomposed192) = 1 := by simp [val, U192.toNat]
      have h1 := hm.2.1
      simp only [hv, mul_one] at h1
      have h2 := half_le_one_sub_eps
      have h3 : 0 < eps := eps_pos
      have : (1 : ℚ) / 2 ≤ val d * (1 - eps) := by nlinarith
      linarith
  have hjp' : ∃ x, jp () 0 = .ok x ∧ (x.1 = Gen.dinf ∨ 1 / 2 ≤ val x.1) := ok_of_triple hjp
  clear_value jp
  have hne : ∀ k : Int16, k.toInt < 8 → (o == k) = false := by
    intro k hk
    rw [beq_eq_false_iff_ne]
    intro h; rw [h] at ho; omega
  rw [if_neg (by rw [hne 0 (by decide)]; simp), if_neg (by rw [hne 1 (by decide)]; simp),
    if_neg (by rw [hne 2 (by decide)]; simp), if_neg (by rw [hne 3 (by decide)]; simp),
    if_neg (by rw [hne 4 (by decide)]; simp), if_neg (by rw [hne 5 (by decide)]; simp),
    if_neg (by rw [hne 6 (by decide)]; simp), if_neg (by rw [hne 7 (by decide)]; simp)]
  by_cases h8 : (o == 8) = true
  · rw [if_pos h8]; exact ⟨_, rfl, Or.inl rfl⟩
  · rw [if_neg h8]; exact hjp'

theorem one_sub_eps_pow (P : Nat) (hP : P ≤ 10 ^ 7) : (1 : ℚ) / 2 ≤ (1 - eps) ^ P := by
  have hb := one_add_mul_le_pow (a := -eps) (by have := eps_lt; linarith) P
  have e : (1 + -eps) = 1 - eps := by ring
  rw [e] at hb
  have h1 : (P : ℚ) ≤ 10 ^ 7 := by exact_mod_cast hP
  have h2 := eps_lt
  have h3 := eps_pos
  have : (P : ℚ) * eps ≤ 10 ^ 7 * (1 / 10 ^ 56) :=
    mul_le_mul h1 h2.le h3.le (by norm_num)
  have h4 : (10 : ℚ) ^ 7 * (1 / 10 ^ 56) ≤ 1 / 2 := by norm_num
  linarith

/-- every result of `powexp10` on an argument `≥ 1` with a non-negative exponent argument is the
    overflow marker or at least one half -/
theorem powexp10_lb (d : Gen.decomposed192) (o : Int16) (t : Int8) (hd : 1 ≤ val d)
    (ho : 0 ≤ o.toInt) (x : Gen.decomposed192 × Int8)
    (h : Gen.decomposed192.powexp10 d o t = .ok x) : x.1 = Gen.dinf ∨ 1 / 2 ≤ val x.1 := by
  by_cases h8 : 8 ≤ o.toInt
  · obtain ⟨x', e, hx⟩ := powexp10_big d o t hd h8
    rw [h] at e; cases e; exact hx
  · obtain ⟨x', e, hx⟩ := powexp10_spec d o t hd ho (by omega)
    rw [h] at e; cases e
    rcases hx with ⟨-, rfl⟩ | ⟨-, hp⟩
    · right; linarith
    · rcases hp with ⟨hp, -⟩ | ⟨hp, -⟩
      · exact Or.inl hp
      · right
        have hP : 10 ^ o.toInt.toNat ≤ 10 ^ 7 := Nat.pow_le_pow_right (by norm_num) (by omega)
        have h1 := one_sub_eps_pow _ hP
        have h2 : (1 : ℚ) ≤ val d ^ (10 ^ o.toInt.toNat) := one_le_pow₀ hd
        have h3 : (0 : ℚ) ≤ (1 - eps) ^ (10 ^ o.toInt.toNat) := by linarith
        nlinarith

/-- the tail `mul; add1; powexp10` of `epow` -/
theorem epow_tail_lb (res d : Gen.decomposed192) (trunc : Int8) (exp : Int16) (he : 0 ≤ exp.toInt)
    (x : Gen.decomposed192 × Int8)
    (h : (do
          let __x ← res.mul d trunc
          match __x with
            | (r_9, r_10) =>
              do
              let __x ← Gen.decomposed192.add1 r_9 r_10
              match __x with
                | (r_11, r_12) => Gen.decomposed192.powexp10 r_11 exp r_12) = Except.ok x) :
    x.1 = Gen.dinf ∨ 1 / 2 ≤ val x.1 := by
  obtain ⟨⟨a1, a2⟩, -, h⟩ := PowPf.bind_ok h
  dsimp only at h
  obtain ⟨⟨b1, b2⟩, hb, h⟩ := PowPf.bind_ok h
  dsimp only at h
  obtain ⟨r, t', hr, -, -, -, -, h1, -⟩ := add1_contract a1 a2
  rw [hb] at hr
  obtain ⟨rfl, rfl⟩ : b1 = r ∧ b2 = t' := by
    have := Except.ok.inj hr; exact ⟨congrArg Prod.fst this, congrArg Prod.snd this⟩
  exact powexp10_lb b1 exp b2 h1 he x h

/-- **every** result of `epow` (no precondition on the argument) is the overflow marker `dinf` or a value of
    at least one half -/
theorem epow_lb (d : Gen.decomposed192) (l : Int16) (t : Int8) (x : Gen.decomposed192 × Int8)
    (h : Gen.decomposed192.epow d l t = .ok x) : x.1 = Gen.dinf ∨ 1 / 2 ≤ val x.1 := by
  unfold Gen.decomposed192.epow at h
  dsimp only at h
  split at h
  · obtain ⟨a, -, h⟩ := PowPf.bind_ok h
    obtain ⟨a, -, h⟩ := PowPf.bind_ok h
    obtain ⟨⟨a1, a2⟩, -, h⟩ := PowPf.bind_ok h
    dsimp only at h
    obtain ⟨a, -, h⟩ := PowPf.bind_ok h
    exact epow_tail_lb _ _ _ _ (by decide) _ h
  · rename_i hneg
    obtain ⟨a, -, h⟩ := PowPf.bind_ok h
    obtain ⟨a, -, h⟩ := PowPf.bind_ok h
    obtain ⟨⟨a1, a2⟩, -, h⟩ := PowPf.bind_ok h
    dsimp only at h
    obtain ⟨a, -, h⟩ := PowPf.bind_ok h
    refine epow_tail_lb _ _ _ _ ?_ _ h
    rw [decide_eq_true_eq, Int16.lt_iff_toInt_lt] at hneg
    have : (0 : Int16).toInt = 0 := by decide
    omega

theorem dinf_exp : Gen.dinf.exp.toInt = 32767 := by decide

/-- a result of `epow` that passes the test `exp ≤ 6169` of the callers has `-58 ≤ exp` -/
theorem epow_exp_lb (d : Gen.decomposed192) (l : Int16) (t : Int8) (e : Gen.decomposed192) (tr : Int8)
    (h : Gen.decomposed192.epow d l t = .ok (e, tr)) (hle : e.exp.toInt ≤ 6169) :
    -58 ≤ e.exp.toInt := by
  rcases epow_lb d l t _ h with h1 | h1
  · have h1' : e = Gen.dinf := h1
    rw [h1', dinf_exp] at hle; omega
  · exact exp_ge_of_half e h1

/-- the reciprocal of a working value with a non-zero significand and `-58 ≤ exp ≤ 6300`: non-zero, and its
    exponent is between −6420 and 2 -/
theorem rcp_range (e : Gen.decomposed192) (tr : Int8) (hs : e.sig.toNat ≠ 0)
    (h0 : -58 ≤ e.exp.toInt) (h1 : e.exp.toInt ≤ 6300) (r : Gen.decomposed192) (t' : Int8)
    (h : Gen.decomposed192.rcp e tr = .ok (r, t')) :
    r.sig.toNat ≠ 0 ∧ -6420 ≤ r.exp.toInt ∧ r.exp.toInt ≤ 2 := by
  obtain ⟨r', t'', d', hr, -, -, -, -, -, -, -, -, -, c8, c9, c10⟩ :=
    rcp_contract e tr hs ⟨by omega, by omega⟩
  rw [h] at hr
  obtain ⟨rfl, rfl⟩ : r = r' ∧ t' = t'' := by
    have := Except.ok.inj hr; exact ⟨congrArg Prod.fst this, congrArg Prod.snd this⟩
  exact ⟨by omega, by omega, by omega⟩

/-- the hypothesis of `PowPf.general_sign`, `PowPf.finish_sign`, `PowPf.pow_fin_not_nan`, … -/
theorem rcpRange : PowPf.RcpRange := by
  intro d l t e tr r t' he hle hr
  have hs := PowPf.epow_sig_ne d l t _ he
  have hlb := epow_exp_lb d l t e tr he hle
  obtain ⟨h1, -, h3⟩ := rcp_range e tr hs hlb (by omega) r t' hr
  exact ⟨h1, by omega⟩

end NN
