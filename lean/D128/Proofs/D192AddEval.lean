/-
  D128/Proofs/D192AddEval.lean — executable evidence for the findings about `decomposed192.add` / `.sub`
  (the generated code is run by the interpreter; every `#guard` is checked when this file is built).
  Nothing here is used by a proof; the general statements are in `D192AddContract.lean` /
  `D192SubContract.lean` (`add_spec`, `add_contract`, `add_flag_defect`, `sub_spec`, `sub_contract`).

  Notation in comments: `S e E` = decomposed192{sig: S, exp: E}; results `(sig, exp, trunc)`.
-/
import D128.Gen.Decomposed

namespace D192.Eval
open Gen

def mkU (n : Nat) : U192 :=
  ⟨UInt64.ofNat (n % 2^64), UInt64.ofNat (n / 2^64 % 2^64), UInt64.ofNat (n / 2^128 % 2^64)⟩
def mkD (n : Nat) (e : Int) : decomposed192 := { sig := mkU n, exp := Int16.ofInt e }

/-- run `add`, return `(sig, exp, trunc)` (or `none` on panic) -/
def runAdd (d o : decomposed192) (t : Int) : Option (Nat × Int × Int) :=
  match decomposed192.add d o (Int8.ofInt t) with
  | .ok (r, t') => some (r.sig.toNat, r.exp.toInt, t'.toInt)
  | .error _ => none

/-- run `sub`, return `(neg, sig, exp, trunc)` -/
def runSub (d o : decomposed192) (t : Int) : Option (Bool × Nat × Int × Int) :=
  match decomposed192.sub d o (Int8.ofInt t) with
  | .ok (n, r, t') => some (n, r.sig.toNat, r.exp.toInt, t'.toInt)
  | .error _ => none

/-! ## F1. `add`: the sticky flag has the wrong sign when digits of `o` are dropped (branch `exp > 0`)

The exact sum is larger than the returned (truncated) value, so the flag should be `+1`; the
`if exp > 57` shortcut and the `for exp >= 4` (`div10000`) loop write `-1`.  The mirrored call
(`exp < 0`) and the `for exp > 0` (`div10`) loop write `+1`. -/

-- 2^191·10^4 + 1 : returned 2^191 e4 with trunc = -1   (expected +1)
#guard runAdd (mkD (2^191) 4) (mkD 1 0) 0 = some (2^191, 4, -1)
-- the mirrored call returns the same value with trunc = +1
#guard runAdd (mkD 1 0) (mkD (2^191) 4) 0 = some (2^191, 4, 1)
-- `exp > 57` shortcut: 2^191·10^60 + 1 : trunc = -1   (expected +1);  mirrored: +1
#guard runAdd (mkD (2^191) 60) (mkD 1 0) 0 = some (2^191, 60, -1)
#guard runAdd (mkD 1 0) (mkD (2^191) 60) 0 = some (2^191, 60, 1)
-- only the `div10` loop runs (exp = 1): trunc = +1 (correct)
#guard runAdd (mkD (2^191) 1) (mkD 1 0) 0 = some (2^191, 1, 1)
-- exp = 5, o = 10001: div10000 drops `0001` (writes -1), then div10 drops `1` (overwrites with +1)
#guard runAdd (mkD (2^191) 5) (mkD 10001 0) 0 = some (2^191, 5, 1)
-- exp = 5, o = 100001: div10000 drops `0001` (writes -1), div10 drops `0`: flag stays -1, sum is larger
#guard runAdd (mkD (2^191) 5) (mkD 100001 0) 0 = some (2^191 + 1, 5, -1)
-- an incoming flag +1 is turned into -1 as well
#guard runAdd (mkD (2^191) 4) (mkD 1 0) 1 = some (2^191, 4, -1)

/-! ## F2. `sub`: the scaling threshold `0x18ff_ffff_ffff_ffff` is below `2^64/10`: a significand in
`[25·2^184, 2^192/10)` is not scaled although one more digit would fit; a digit of the other operand
is then dropped and a cancelling subtraction loses everything.
`(250·2^184+75)·10^-1 - (25·2^184+7)·10^0 = 0.5`, returned: `0·10^0` with trunc `+1`
(the contract `|error| < 1 ulp` holds, but no significant digit is left; with the threshold
`0x1999_9999_9999_9998` the subtraction would be exact). -/
#guard runSub (mkD (250 * 2^184 + 75) (-1)) (mkD (25 * 2^184 + 7) 0) 0 = some (false, 0, 0, 1)

/-! ## F3. `sub`: `neg` is the sign of the difference of the ALIGNED significands, not of the exact
difference: `25·2^184·10^1 - (250·2^184+5)·10^0 = -5` returns `neg = false`, `0·10^1`, trunc `-1`. -/
#guard runSub (mkD (25 * 2^184) 1) (mkD (250 * 2^184 + 5) 0) 0 = some (false, 0, 1, -1)

/-! ## F4. `int16` wraps (outside the exponent range of the callers, stated as hypotheses of the
rational contracts): the exponent difference, and the final `exp++` of `add`. -/
-- d.exp - o.exp = 40000 wraps to -25536: `d` is treated as the operand with the SMALLER exponent
-- and dropped; returned 1e-20000-ish garbage instead of 1e20000
#guard runAdd (mkD 1 20000) (mkD 1 (-20000)) 0 = some (10^57, -20057, 1)
-- carry at exp = 32767: the result exponent wraps to -32768
#guard runAdd (mkD (2^192 - 1) 32767) (mkD (2^192 - 1) 32767) 0 = some ((2^193 - 2) / 10, -32768, 0)

end D192.Eval
