/-
  D128/Proofs/CohortQuantize.lean — `Spec.quantize`, `Spec.ceilDp`, `Spec.floorDp` (property C08) and
  `Spec.ldexp` (C11) depend on the operand value only (property C19, first clause; pure
  specification-level mathematics).

  * `qs dp c e`       : the magnitude in units of the quantum, `c·10^e·10^dp` — a function of the value
  * `quantize_nf`, `ceilDp_nf`, `floorDp_nf` : the three functions on a non-zero finite operand in terms of
                        `qs` alone (plus the operand itself where it is passed through)
  * `quantize_congr`, `ceilDp_congr`, `floorDp_congr` :
        `x.same x' → (Spec.quantize dp m x).same (Spec.quantize dp m x')`, …
  * `quantize_congr_num`, … : the same for `sameNum` (a NaN operand is passed through)
  * `ldexp_congr`, `ldexp_congr_num`
-/
import D128.Proofs.CohortBase
import D128.Proofs.QuantizeSpec
set_option autoImplicit false

namespace Cohort
open Spec

/-- the magnitude `c·10^e` in units of the quantum `10^-dp` -/
def qs (dp : Int) (c : Nat) (e : Int) : ℚ := (c : ℚ) * (10 : ℚ) ^ e * (10 : ℚ) ^ dp

theorem qs_congr (dp : Int) {c c' : Nat} {e e' : Int}
    (h : (c : ℚ) * (10 : ℚ) ^ e = (c' : ℚ) * (10 : ℚ) ^ e') : qs dp c e = qs dp c' e' := by
  unfold qs; rw [h]

theorem qs_nonneg_exp (dp : Int) (c : Nat) (e : Int) (h : 0 ≤ e + dp) :
    qs dp c e = ((c * 10 ^ (e + dp).toNat : Nat) : ℚ) := by
  unfold qs
  rw [mul_assoc, ← zpow_add₀ (by norm_num : (10 : ℚ) ≠ 0)]
  push_cast
  rw [← zpow_natCast, Int.toNat_of_nonneg h]

theorem qs_neg_exp (dp : Int) (c : Nat) (e : Int) (K : Nat) (hK : e + dp = -(K : Int)) :
    qs dp c e = (c : ℚ) / (10 : ℚ) ^ K := by
  unfold qs
  rw [mul_assoc, ← zpow_add₀ (by norm_num : (10 : ℚ) ≠ 0), hK, zpow_neg, zpow_natCast]
  rfl

theorem quantize_nf (dp : Int) (m : Mode) (n : Bool) (c : Nat) (e : Int) (hc : 0 < c) :
    Spec.quantize dp m (.fin n c e) =
      if (qs dp c e).den = 1 then .fin n c e
      else if qs dp c e < 1 / 10 then .fin n 0 0
      else Spec.exactOrInfS n ((RK.rndQ m n (qs dp c e) : Nat) : ℚ) (-dp) := by
  by_cases h : 0 ≤ e + dp
  · rw [Qz.quantize_keep dp m n c e hc h, qs_nonneg_exp dp c e h, if_pos (Rat.den_natCast _)]
  · have hK : e + dp = -(((-(e + dp)).toNat : Nat) : Int) := by omega
    have hK0 : 0 < (-(e + dp)).toNat := by omega
    rw [Qz.quantize_fin dp m n c e _ hc hK hK0, qs_neg_exp dp c e _ hK]
    simp only [Qz.den_one_iff, Qz.lt_tenth_iff]

theorem ceilDp_nf (dp : Int) (n : Bool) (c : Nat) (e : Int) (hc : 0 < c) :
    Spec.ceilDp dp (.fin n c e) =
      if (qs dp c e).den = 1 then .fin n c e
      else Spec.exactOrInfS n
        (((if n then floorNat (qs dp c e) else floorNat (qs dp c e) + 1 : Nat)) : ℚ) (-dp) := by
  by_cases h : 0 ≤ e + dp
  · rw [Qz.ceilDp_keep dp n c e hc h, qs_nonneg_exp dp c e h, if_pos (Rat.den_natCast _)]
  · have hK : e + dp = -(((-(e + dp)).toNat : Nat) : Int) := by omega
    have hK0 : 0 < (-(e + dp)).toNat := by omega
    rw [Qz.ceilDp_fin dp n c e _ hc hK hK0, qs_neg_exp dp c e _ hK]
    simp only [Qz.den_one_iff, Qz.floorNat_div]

theorem floorDp_nf (dp : Int) (n : Bool) (c : Nat) (e : Int) (hc : 0 < c) :
    Spec.floorDp dp (.fin n c e) =
      if (qs dp c e).den = 1 then .fin n c e
      else Spec.exactOrInfS n
        (((if n then floorNat (qs dp c e) + 1 else floorNat (qs dp c e) : Nat)) : ℚ) (-dp) := by
  by_cases h : 0 ≤ e + dp
  · rw [Qz.floorDp_keep dp n c e hc h, qs_nonneg_exp dp c e h, if_pos (Rat.den_natCast _)]
  · have hK : e + dp = -(((-(e + dp)).toNat : Nat) : Int) := by omega
    have hK0 : 0 < (-(e + dp)).toNat := by omega
    rw [Qz.floorDp_fin dp n c e _ hc hK hK0, qs_neg_exp dp c e _ hK]
    simp only [Qz.den_one_iff, Qz.floorNat_div]

theorem quantize_zero (dp : Int) (m : Mode) (n : Bool) (e : Int) :
    Spec.quantize dp m (.fin n 0 e) = .fin n 0 0 := by simp [Spec.quantize]
theorem ceilDp_zero (dp : Int) (n : Bool) (e : Int) :
    Spec.ceilDp dp (.fin n 0 e) = .fin n 0 0 := by simp [Spec.ceilDp]
theorem floorDp_zero (dp : Int) (n : Bool) (e : Int) :
    Spec.floorDp dp (.fin n 0 e) = .fin n 0 0 := by simp [Spec.floorDp]

/-- a unary function that treats finite operands by value respects `same` (NaN and ±Inf operands that
    are `same` are identical) -/
theorem unary_congr (f : Val → Val)
    (hfin : ∀ (n : Bool) (c : Nat) (e : Int) (c' : Nat) (e' : Int), (c : ℚ) * (10 : ℚ) ^ e = (c' : ℚ) * (10 : ℚ) ^ e' →
      (f (.fin n c e)).same (f (.fin n c' e')) = true)
    {x x' : Val} (h : x.same x' = true) : (f x).same (f x') = true := by
  rcases same_cases h with ⟨n, p, rfl, rfl⟩ | ⟨n, rfl, rfl⟩ | ⟨n, c, e, c', e', rfl, rfl, hm⟩
  · exact same_refl _
  · exact same_refl _
  · exact hfin n c e c' e' hm

theorem unary_congr_num (f : Val → Val)
    (hnan : ∀ n p, f (.nan n p) = .nan n p)
    (hs : ∀ x x', x.same x' = true → (f x).same (f x') = true)
    {x x' : Val} (h : x.sameNum x' = true) : (f x).sameNum (f x') = true := by
  rcases sameNum_cases h with ⟨n, p, n', p', rfl, rfl⟩ | ⟨n, rfl, rfl⟩ | ⟨n, c, e, c', e', rfl, rfl, hm⟩
  · rw [hnan, hnan]; rfl
  · exact sameNum_refl _
  · exact sameNum_of_same (hs _ _ ((same_fin_iff _ _ _ _ _ _).2 ⟨rfl, hm⟩))

theorem quantize_fin_congr (dp : Int) (m : Mode) (n : Bool) (c c' : Nat) (e e' : Int)
    (hm : (c : ℚ) * (10 : ℚ) ^ e = (c' : ℚ) * (10 : ℚ) ^ e') :
    (Spec.quantize dp m (.fin n c e)).same (Spec.quantize dp m (.fin n c' e')) = true := by
  rcases Nat.eq_zero_or_pos c with hc | hc
  · have hc' := (zero_iff_of_mag hm).1 hc
    subst hc; subst hc'
    rw [quantize_zero, quantize_zero]; exact same_refl _
  · have hc' : 0 < c' := Nat.pos_of_ne_zero (fun h0 => (Nat.pos_iff_ne_zero.1 hc) ((zero_iff_of_mag hm).2 h0))
    rw [quantize_nf dp m n c e hc, quantize_nf dp m n c' e' hc', qs_congr dp hm]
    split_ifs
    all_goals first | exact same_refl _ | exact (same_fin_iff _ _ _ _ _ _).2 ⟨rfl, hm⟩

theorem ceilDp_fin_congr (dp : Int) (n : Bool) (c c' : Nat) (e e' : Int)
    (hm : (c : ℚ) * (10 : ℚ) ^ e = (c' : ℚ) * (10 : ℚ) ^ e') :
    (Spec.ceilDp dp (.fin n c e)).same (Spec.ceilDp dp (.fin n c' e')) = true := by
  rcases Nat.eq_zero_or_pos c with hc | hc
  · have hc' := (zero_iff_of_mag hm).1 hc
    subst hc; subst hc'
    rw [ceilDp_zero, ceilDp_zero]; exact same_refl _
  · have hc' : 0 < c' := Nat.pos_of_ne_zero (fun h0 => (Nat.pos_iff_ne_zero.1 hc) ((zero_iff_of_mag hm).2 h0))
    rw [ceilDp_nf dp n c e hc, ceilDp_nf dp n c' e' hc', qs_congr dp hm]
    split_ifs
    all_goals first | exact same_refl _ | exact (same_fin_iff _ _ _ _ _ _).2 ⟨rfl, hm⟩

theorem floorDp_fin_congr (dp : Int) (n : Bool) (c c' : Nat) (e e' : Int)
    (hm : (c : ℚ) * (10 : ℚ) ^ e = (c' : ℚ) * (10 : ℚ) ^ e') :
    (Spec.floorDp dp (.fin n c e)).same (Spec.floorDp dp (.fin n c' e')) = true := by
  rcases Nat.eq_zero_or_pos c with hc | hc
  · have hc' := (zero_iff_of_mag hm).1 hc
    subst hc; subst hc'
    rw [floorDp_zero, floorDp_zero]; exact same_refl _
  · have hc' : 0 < c' := Nat.pos_of_ne_zero (fun h0 => (Nat.pos_iff_ne_zero.1 hc) ((zero_iff_of_mag hm).2 h0))
    rw [floorDp_nf dp n c e hc, floorDp_nf dp n c' e' hc', qs_congr dp hm]
    split_ifs
    all_goals first | exact same_refl _ | exact (same_fin_iff _ _ _ _ _ _).2 ⟨rfl, hm⟩

/-- **`Spec.quantize` depends on the operand value only.** -/
theorem quantize_congr (dp : Int) (m : Mode) {x x' : Val} (h : x.same x' = true) :
    (Spec.quantize dp m x).same (Spec.quantize dp m x') = true :=
  unary_congr (Spec.quantize dp m)
    (fun n c e c' e' hm => quantize_fin_congr dp m n c c' e e' hm) h

theorem ceilDp_congr (dp : Int) {x x' : Val} (h : x.same x' = true) :
    (Spec.ceilDp dp x).same (Spec.ceilDp dp x') = true :=
  unary_congr (Spec.ceilDp dp)
    (fun n c e c' e' hm => ceilDp_fin_congr dp n c c' e e' hm) h

theorem floorDp_congr (dp : Int) {x x' : Val} (h : x.same x' = true) :
    (Spec.floorDp dp x).same (Spec.floorDp dp x') = true :=
  unary_congr (Spec.floorDp dp)
    (fun n c e c' e' hm => floorDp_fin_congr dp n c c' e e' hm) h

theorem quantize_congr_num (dp : Int) (m : Mode) {x x' : Val} (h : x.sameNum x' = true) :
    (Spec.quantize dp m x).sameNum (Spec.quantize dp m x') = true :=
  unary_congr_num (Spec.quantize dp m) (fun _ _ => rfl) (fun _ _ h => quantize_congr dp m h) h

theorem ceilDp_congr_num (dp : Int) {x x' : Val} (h : x.sameNum x' = true) :
    (Spec.ceilDp dp x).sameNum (Spec.ceilDp dp x') = true :=
  unary_congr_num (Spec.ceilDp dp) (fun _ _ => rfl) (fun _ _ h => ceilDp_congr dp h) h

theorem floorDp_congr_num (dp : Int) {x x' : Val} (h : x.sameNum x' = true) :
    (Spec.floorDp dp x).sameNum (Spec.floorDp dp x') = true :=
  unary_congr_num (Spec.floorDp dp) (fun _ _ => rfl) (fun _ _ h => floorDp_congr dp h) h

/-! ## `Spec.ldexp` -/

theorem ldexp_fin_congr (m : Mode) (exp : Int) (n : Bool) (c c' : Nat) (e e' : Int)
    (hm : (c : ℚ) * (10 : ℚ) ^ e = (c' : ℚ) * (10 : ℚ) ^ e') :
    Spec.ldexp m (.fin n c e) exp = Spec.ldexp m (.fin n c' e') exp := by
  simp only [Spec.ldexp]
  have hb : (c == 0) = (c' == 0) := by
    have := zero_iff_of_mag hm
    by_cases h0 : c = 0
    · rw [h0, this.1 h0]
    · have h1 : c' ≠ 0 := fun h1 => h0 (this.2 h1)
      simp [h0, h1]
  rw [hb]
  split_ifs
  · rfl
  · rw [SpecRound.flushOrRoundS_scale m _ _ (Nat.cast_nonneg _) (e + exp),
      SpecRound.flushOrRoundS_scale m _ _ (Nat.cast_nonneg _) (e' + exp)]
    congr 1
    have h10 : (10 : ℚ) ≠ 0 := by norm_num
    rw [zpow_add₀ h10, zpow_add₀ h10, ← mul_assoc, ← mul_assoc, hm]

/-- **`Spec.ldexp` depends on the operand value only.** -/
theorem ldexp_congr (m : Mode) (exp : Int) {x x' : Val} (h : x.same x' = true) :
    (Spec.ldexp m x exp).same (Spec.ldexp m x' exp) = true :=
  unary_congr (fun v => Spec.ldexp m v exp)
    (fun n c e c' e' hm => by
      show (Spec.ldexp m (.fin n c e) exp).same (Spec.ldexp m (.fin n c' e') exp) = true
      rw [ldexp_fin_congr m exp n c c' e e' hm]; exact same_refl _) h

theorem ldexp_congr_num (m : Mode) (exp : Int) {x x' : Val} (h : x.sameNum x' = true) :
    (Spec.ldexp m x exp).sameNum (Spec.ldexp m x' exp) = true :=
  unary_congr_num (fun v => Spec.ldexp m v exp) (fun _ _ => rfl)
    (fun _ _ h => ldexp_congr m exp h) h

end Cohort
