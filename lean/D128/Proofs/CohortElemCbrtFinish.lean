/-
  D128/Proofs/CohortElemCbrtFinish.lean — property C19 for `Gen.Cbrt`, part 3: the finish stage (`reduce192` at the default
  rounding mode, overflow test, `compose`) on two final states of equal values.

  `RoundingMode.reduce192` is specified by `reduce192_correct` (RoundKernelWide.lean): for every remainder `τ` compatible with the
  sticky flag the result is `Spec.flushOrRoundS m neg (sig + τ) (exp − 6176)`, which depends on `(sig + τ)·10^(exp−6176)` only
  (`SpecRound.flushOrRoundS_scale`).  For two registers `⟨n, e + k⟩`, `⟨n·10^k, e⟩` of one value and one flag we take `τ' = 1/2`
  for the longer one and `τ = τ'/10^k` for the shorter one (flag `1`), resp. `τ = τ' = 0` (flag `0`): the same exact magnitude,
  hence results with `Spec.Val.same`.  The mode byte must be valid (`reduce192_correct` needs it).

  Provided (namespace `CohortElem`):
  * `finishK_spec`      : `Root.finishK … = .ok r` with `(flushOrRoundS m neg (sig + τ) (exp − 6176)).same 𝔳[r]` (also when it overflows)
  * `finish_same`       : equal values, one flag in `{0, 1}`, flag `1` ⇒ both significands above `Cmax`: `same` results
  * **`cbrt_same_of_J`**: the same for `Root.cbrtFinish g neg`
  * **`cbrt_same_of_K`**: from the pair invariant `K` (identical, or equal values with flags `0`)
-/
import D128.Proofs.CohortElemCbrtStep
import D128.Proofs.D192RootRel
set_option autoImplicit false
set_option maxRecDepth 4096
set_option exponentiation.threshold 512
set_option linter.unusedVariables false

namespace CohortElem
open Gen D192 Root Spec SpecRound
local notation "𝔳[" d "]" => Spec.interp (Gen.Decimal.lo d) (Gen.Decimal.hi d)

/-- the finish stage returns (a representation of) what the specification of the final rounding says, overflow included -/
theorem finishK_spec (rm : UInt8) (m : Spec.Mode) (neg : Bool) (sig : U192) (exp : Int16)
    (trunc : Int8) (τ : ℚ)
    (hm : Spec.Mode.ofNat? rm.toNat = some m)
    (he0 : -20000 ≤ exp.toInt) (he1 : exp.toInt ≤ 20000)
    (ht : RK.TruncRel trunc.toInt τ) (hq : 0 < (sig.toNat : ℚ) + τ)
    (hT1 : trunc = 1 → Spec.Cmax < sig.toNat)
    (hTm1 : trunc = -1 → Spec.Cmax < sig.toNat ∧ (100 * 2 ^ 110 ≤ sig.toNat ∨ -1 / 10 < τ))
    (hfl : trunc = -1 →
      Spec.pow10 (Spec.Emin - 1) ≤ ((sig.toNat : ℚ) + τ) * Spec.pow10 (exp.toInt - 6176)) :
    ∃ r, finishK rm neg sig exp trunc = .ok r ∧
      (Spec.flushOrRoundS m neg ((sig.toNat : ℚ) + τ) (exp.toInt - 6176)).same 𝔳[r] = true := by
  obtain ⟨sig', exp', hred, hpost⟩ := reduce192_correct rm m neg sig exp trunc τ hm he0 he1 ht hq hT1 hTm1 hfl
  unfold finishK
  rw [hred]
  have e12 : (exp' > 12287) ↔ exp'.toInt > 12287 := by
    rw [gt_iff_lt, Int16.lt_iff_toInt_lt]; simp
  by_cases hgt : exp'.toInt > 12287
  · rw [if_pos hgt] at hpost
    refine ⟨inf neg, ?_, ?_⟩
    · show (if decide (exp' > 12287) = true then _ else _) = _
      rw [if_pos (by simpa [e12] using hgt)]; rfl
    · rw [hpost, Enc.interp_inf]; exact Cohort.same_refl _
  · rw [if_neg hgt] at hpost
    obtain ⟨hs', he', hsame⟩ := hpost
    refine ⟨compose neg sig' exp', ?_, ?_⟩
    · show (if decide (exp' > 12287) = true then _ else _) = _
      rw [if_neg (by simpa [e12] using hgt)]; rfl
    · rw [Sp.interp_compose neg sig' exp' hs' he' (by omega)]; exact hsame

theorem i16_add6176 (x : Int16) (h0 : -16000 ≤ x.toInt) (h1 : x.toInt ≤ 10000) :
    (x + 6176).toInt = x.toInt + 6176 := by
  have h6 : (6176 : Int16).toInt = 6176 := by decide
  rw [Int16.toInt_add_of] <;> rw [h6] <;> omega

/-- one orientation of `finish_same` -/
theorem finish_same_aux (rm : UInt8) (m : Spec.Mode) (neg : Bool) (a a' : decomposed192) (t : Int8) (k : Nat)
    (hm : Spec.Mode.ofNat? rm.toNat = some m) (ht : t = 0 ∨ t = 1) (hS : Sc k a a')
    (hn : a.sig.toNat ≠ 0)
    (hT : t = 1 → Spec.Cmax < a.sig.toNat ∧ Spec.Cmax < a'.sig.toNat)
    (hw : -16000 ≤ a.exp.toInt ∧ a.exp.toInt ≤ 10000) (hw' : -16000 ≤ a'.exp.toInt ∧ a'.exp.toInt ≤ 10000) :
    ∃ r r', finishK rm neg a.sig (a.exp + 6176) t = .ok r ∧ finishK rm neg a'.sig (a'.exp + 6176) t = .ok r' ∧
      (𝔳[r]).same 𝔳[r'] = true := by
  obtain ⟨hs, he⟩ := hS
  have hn' : a'.sig.toNat ≠ 0 := by rw [hs]; exact Nat.mul_ne_zero hn (by positivity)
  have hpk : (0 : ℚ) < (10 : ℚ) ^ k := by positivity
  -- the two remainders
  obtain ⟨τ', hτ', hτ'0, hτ'1⟩ : ∃ τ' : ℚ, RK.TruncRel t.toInt τ' ∧ 0 ≤ τ' ∧ τ' < 1 := by
    rcases ht with h | h
    · exact ⟨0, Or.inl ⟨by rw [h]; decide, rfl⟩, le_refl _, by norm_num⟩
    · exact ⟨1 / 2, Or.inr (Or.inl ⟨by rw [h]; decide, by norm_num, by norm_num⟩), by norm_num, by norm_num⟩
  have h1k : (1 : ℚ) ≤ (10 : ℚ) ^ k := one_le_pow₀ (by norm_num)
  have hτle : τ' / (10 : ℚ) ^ k ≤ τ' := div_le_self hτ'0 h1k
  have hτ : RK.TruncRel t.toInt (τ' / (10 : ℚ) ^ k) := by
    rcases hτ' with ⟨h1, h2⟩ | ⟨h1, h2, h3⟩ | ⟨h1, h2, h3⟩
    · exact Or.inl ⟨h1, by rw [h2]; simp⟩
    · exact Or.inr (Or.inl ⟨h1, div_pos h2 hpk, lt_of_le_of_lt hτle h3⟩)
    · linarith
  have hne1 : t ≠ -1 := by rcases ht with h | h <;> rw [h] <;> decide
  have hq : (0 : ℚ) < (a.sig.toNat : ℚ) + τ' / (10 : ℚ) ^ k := by
    have : (0 : ℚ) < (a.sig.toNat : ℚ) := by exact_mod_cast Nat.pos_of_ne_zero hn
    have : 0 ≤ τ' / (10 : ℚ) ^ k := div_nonneg hτ'0 hpk.le
    linarith
  have hq' : (0 : ℚ) < (a'.sig.toNat : ℚ) + τ' := by
    have : (0 : ℚ) < (a'.sig.toNat : ℚ) := by exact_mod_cast Nat.pos_of_ne_zero hn'
    linarith
  have e1 := i16_add6176 a.exp hw.1 hw.2
  have e1' := i16_add6176 a'.exp hw'.1 hw'.2
  obtain ⟨r, hr, hsm⟩ := finishK_spec rm m neg a.sig (a.exp + 6176) t _ hm (by omega) (by omega) hτ hq
    (fun h => (hT h).1) (fun h => absurd h hne1) (fun h => absurd h hne1)
  obtain ⟨r', hr', hsm'⟩ := finishK_spec rm m neg a'.sig (a'.exp + 6176) t τ' hm (by omega) (by omega) hτ' hq'
    (fun h => (hT h).2) (fun h => absurd h hne1) (fun h => absurd h hne1)
  refine ⟨r, r', hr, hr', ?_⟩
  rw [flushOrRoundS_scale m neg _ hq.le] at hsm
  rw [flushOrRoundS_scale m neg _ hq'.le] at hsm'
  have hX : ((a.sig.toNat : ℚ) + τ' / (10 : ℚ) ^ k) * (10 : ℚ) ^ ((a.exp + 6176).toInt - 6176)
      = ((a'.sig.toNat : ℚ) + τ') * (10 : ℚ) ^ ((a'.exp + 6176).toInt - 6176) := by
    rw [e1, e1', hs, he]
    have : a'.exp.toInt + (k : Int) + 6176 - 6176 = (a'.exp.toInt + 6176 - 6176) + (k : Int) := by ring
    rw [this, zpow_add₀ (by norm_num), zpow_natCast]
    push_cast
    field_simp
  rw [hX] at hsm
  exact Cohort.same_trans (Cohort.same_symm' hsm) hsm'

/-- **the finish stage on two registers of one value** with one flag in `{0, 1}` (a raised flag comes with more than 34 digits
in both registers): the results are `same` (class, sign, numeric value). -/
theorem finish_same (rm : UInt8) (m : Spec.Mode) (neg : Bool) (a a' : decomposed192) (t : Int8)
    (hm : Spec.Mode.ofNat? rm.toNat = some m) (ht : t = 0 ∨ t = 1) (hv : val a = val a')
    (hn : a.sig.toNat ≠ 0)
    (hT : t = 1 → Spec.Cmax < a.sig.toNat ∧ Spec.Cmax < a'.sig.toNat)
    (hw : -16000 ≤ a.exp.toInt ∧ a.exp.toInt ≤ 10000) (hw' : -16000 ≤ a'.exp.toInt ∧ a'.exp.toInt ≤ 10000) :
    ∃ r r', finishK rm neg a.sig (a.exp + 6176) t = .ok r ∧ finishK rm neg a'.sig (a'.exp + 6176) t = .ok r' ∧
      (𝔳[r]).same 𝔳[r'] = true := by
  obtain ⟨k, h | h⟩ := val_eq_nat hv
  · exact finish_same_aux rm m neg a a' t k hm ht h hn hT hw hw'
  · obtain ⟨r', r, hr', hr, hs⟩ := finish_same_aux rm m neg a' a t k hm ht h (sig_ne_zero_of_val hv hn)
      (fun h => ⟨(hT h).2, (hT h).1⟩) hw' hw
    exact ⟨r, r', hr, hr', Cohort.same_symm' hs⟩

theorem cmax_lt_lim : Spec.Cmax < LIM := by
  have := RK.Cmax_val
  unfold LIM; omega

/-- **The finish stage of `Cbrt` on two final states of equal values and equal flags**: results with the same class, sign and
numeric value.  (A raised flag comes with `LIM ≤ sig` in both states — this is part of the loop invariant `W`.) -/
theorem cbrt_same_of_J (g : Globals) (m : Spec.Mode) (neg : Bool) (s s' : decomposed192 × Int8)
    (hm : Spec.Mode.ofNat? g.DefaultRoundingMode.toNat = some m)
    (hv : val s.1 = val s'.1) (hf : s.2 = s'.2) (ht : s.2 = 0 ∨ s.2 = 1) (hn : s.1.sig.toNat ≠ 0)
    (hT : s.2 = 1 → LIM ≤ s.1.sig.toNat ∧ LIM ≤ s'.1.sig.toNat)
    (hw : -16000 ≤ s.1.exp.toInt ∧ s.1.exp.toInt ≤ 10000) (hw' : -16000 ≤ s'.1.exp.toInt ∧ s'.1.exp.toInt ≤ 10000) :
    ∃ r r', cbrtFinish g neg s.1 s.2 = .ok r ∧ cbrtFinish g neg s'.1 s'.2 = .ok r' ∧
      (𝔳[r]).same 𝔳[r'] = true := by
  rw [cbrtFinish_eq, cbrtFinish_eq, ← hf]
  have := cmax_lt_lim
  exact finish_same g.DefaultRoundingMode m neg s.1 s'.1 s.2 hm ht hv hn
    (fun h => ⟨by have := (hT h).1; omega, by have := (hT h).2; omega⟩) hw hw'

/-- **The finish stage of `Cbrt` on two final states related by the pair invariant `K`.** -/
theorem cbrt_same_of_K (g : Globals) (m : Spec.Mode) (neg : Bool) (s s' : decomposed192 × Int8)
    (hm : Spec.Mode.ofNat? g.DefaultRoundingMode.toNat = some m)
    (hK : K s s') (ht : s.2 = 0 ∨ s.2 = 1) (hn : s.1.sig.toNat ≠ 0)
    (hw : -16000 ≤ s.1.exp.toInt ∧ s.1.exp.toInt ≤ 10000) (hw' : -16000 ≤ s'.1.exp.toInt ∧ s'.1.exp.toInt ≤ 10000) :
    ∃ r r', cbrtFinish g neg s.1 s.2 = .ok r ∧ cbrtFinish g neg s'.1 s'.2 = .ok r' ∧
      (𝔳[r]).same 𝔳[r'] = true := by
  rcases hK with ⟨hss, hL⟩ | ⟨hv, h0, h0'⟩
  · subst hss
    exact cbrt_same_of_J g m neg s s hm rfl rfl ht hn (fun _ => ⟨hL, hL⟩) hw hw
  · exact cbrt_same_of_J g m neg s s' hm hv (by rw [h0, h0']) ht hn
      (fun h => by rw [h0] at h; exact absurd h (by decide)) hw hw'

/-- the hypotheses are satisfiable: two states of value `1` with flag `0` (cf. the final states `10^57e-57`, `10^55e-55` of
`Cbrt(1e0)`, `Cbrt(10e-1)`) -/
example (g : Globals) (m : Spec.Mode) (hm : Spec.Mode.ofNat? g.DefaultRoundingMode.toNat = some m) :=
  cbrt_same_of_K g m false (⟨⟨1000, 0, 0⟩, -3⟩, 0) (⟨⟨1, 0, 0⟩, 0⟩, 0) hm
    (Or.inr ⟨by
      show ((1000 : ℕ) : ℚ) * (10 : ℚ) ^ (-3 : Int) = ((1 : ℕ) : ℚ) * (10 : ℚ) ^ (0 : Int)
      norm_num, rfl, rfl⟩) (Or.inl rfl) (by decide) (by decide) (by decide)

end CohortElem
