/-
  D128/Proofs/FloatToLoops.lean — the loops of `Gen.Decimal.Float64` (the bodies named in
  `FloatToCode.lean`).  Every theorem shows termination, absence of panics and of `Int16`/`Int64`
  wrap-around, and what the loop computes (exactly, or with an explicit error budget).

  Provided (namespace `F2`):
  * `i64_sub`, `i64_conv_u64`, `i64_conv_i16`, `i16_conv_i64`, `i64_ne_zero`, `i64_gt`, `i64_lt`, `i16_lt`,
    `i16_gt`, `u64_le`, `u64_eq_zero`  : machine-integer tests/arithmetic through `toInt`/`toNat`
  * `lz_spec`      : `bits.LeadingZeros64 x = z` with `x·2^z < 2^64`, `2^63 ≤ x·2^z` unless `x = 0` (`z = 64`)
  * `U256.w3_toNat`, `lsh_lz`, `w3_le_imp`, `w3_gt_imp`
  * `normLoop`     : the final normalisation loop: `S' = S·2^n`, `exp' = exp - n`, `2^255 ≤ S'`
  * `mul10Loop`    : `S' = S·10^m` exactly, `shift' = shift - m`, exit condition, `m ≥ 1` when the guard held
  * `mul19Loop`    : `S' = S·10^m` exactly, `shift' = shift - m`
  * `rsh_step`, `rshLoop` : the `rsh(4)`/`mul10` loop: `exp' = 4i`, `S'·2^(4i) ≤ V`,
                     `V·2^240 ≤ S'·2^(4i)·2^240 + i·V` (relative error ≤ i·2^-240), `i ≤ k`
  * `neg_step_abs`, `neg_e_bound`, `negLoop` : the `lsh(lz)`/`div10` loop for the decimal exponent `-k`:
                     `exp' = -e`, `S'·10^k ≤ c·2^e`, `c·2^e·2^120 ≤ S'·10^k·2^120 + k·c·2^e`
                     (relative error ≤ k·2^-120), `e < 1586`
-/
import D128.Proofs.FloatToCode
import D128.Proofs.RoundKernelReduceCode
import D128.Proofs.WordsWide
import D128.Proofs.WordsWideShift
import D128.Proofs.Words128Log
import Mathlib.Tactic.Ring
import Mathlib.Tactic.Linarith
import Mathlib.Tactic.NormNum

set_option autoImplicit false
set_option maxRecDepth 8192
set_option linter.unusedVariables false

namespace F2
open Gen D128.Proofs.WordsWide

/-! ## machine-integer helpers -/

theorem i64_sub (a b : Int64) (h1 : -2 ^ 63 ≤ a.toInt - b.toInt) (h2 : a.toInt - b.toInt < 2 ^ 63) :
    (a - b).toInt = a.toInt - b.toInt := by
  rw [Int64.toInt_sub]
  apply Int.bmod_eq_of_le <;> omega

theorem i64_conv_u64 (a : Int64) (h : 0 ≤ a.toInt) : (Go.conv a : UInt64).toNat = a.toInt.toNat := by
  have := a.toInt_lt
  simp only [Go.conv, Go.GoInt.ofInt, Go.GoInt.toInt, UInt64.ofInt, UInt64.toNat_ofNat']
  omega

theorem i64_conv_i16 (a : Int64) (h0 : -2 ^ 15 ≤ a.toInt) (h1 : a.toInt < 2 ^ 15) :
    (Go.conv a : Int16).toInt = a.toInt := by
  have hs : Int16.size = 65536 := rfl
  simp only [Go.conv, Go.GoInt.ofInt, Go.GoInt.toInt, Int16.toInt_ofInt, hs]
  apply Int.bmod_eq_of_le <;> omega

theorem i16_conv_i64 (a : Int16) : (Go.conv a : Int64).toInt = a.toInt := by
  have := a.toInt_lt; have := a.le_toInt
  have hs : Int64.size = 18446744073709551616 := rfl
  simp only [Go.conv, Go.GoInt.ofInt, Go.GoInt.toInt, Int64.toInt_ofInt, hs]
  apply Int.bmod_eq_of_le <;> omega

theorem i64_ne_zero (a : Int64) : (a != 0) = decide (a.toInt ≠ 0) := by
  rw [Bool.eq_iff_iff, bne_iff_ne, decide_eq_true_eq, ne_eq, ne_eq, ← Int64.toInt_inj]
  rfl

theorem i64_gt (a b : Int64) : decide (a > b) = decide (b.toInt < a.toInt) := by
  rw [Bool.eq_iff_iff, decide_eq_true_eq, decide_eq_true_eq, gt_iff_lt, Int64.lt_iff_toInt_lt]

theorem i64_lt (a b : Int64) : decide (a < b) = decide (a.toInt < b.toInt) := by
  rw [Bool.eq_iff_iff, decide_eq_true_eq, decide_eq_true_eq, Int64.lt_iff_toInt_lt]

theorem i16_lt (a b : Int16) : decide (a < b) = decide (a.toInt < b.toInt) := by
  rw [Bool.eq_iff_iff, decide_eq_true_eq, decide_eq_true_eq, Int16.lt_iff_toInt_lt]

theorem i16_gt (a b : Int16) : decide (a > b) = decide (b.toInt < a.toInt) := by
  rw [Bool.eq_iff_iff, decide_eq_true_eq, decide_eq_true_eq, gt_iff_lt, Int16.lt_iff_toInt_lt]

theorem u64_le (x c : UInt64) : decide (x ≤ c) = decide (x.toNat ≤ c.toNat) := by
  apply decide_eq_decide.2
  exact UInt64.le_iff_toNat_le

theorem u64_eq_zero (x : UInt64) : (x == 0) = decide (x.toNat = 0) := by
  rw [Bool.eq_iff_iff, beq_iff_eq, decide_eq_true_eq, ← UInt64.toNat_inj]
  rfl

/-- `bits.LeadingZeros64 x = z`: `x·2^z < 2^64`, and `2^63 ≤ x·2^z` unless `x = 0` (then `z = 64`) -/
theorem lz_spec (x : UInt64) :
    ∃ z : Nat, (Go.bits.LeadingZeros64 x).toInt = z ∧ z ≤ 64 ∧ x.toNat * 2 ^ z < 2 ^ 64 ∧
      (x.toNat ≠ 0 → 2 ^ 63 ≤ x.toNat * 2 ^ z) ∧ (x.toNat = 0 → z = 64) ∧
      (z = 0 ↔ 2 ^ 63 ≤ x.toNat) := by
  by_cases hx : x = 0
  · subst hx
    exact ⟨64, by decide, by omega, by simp, by simp, by simp, by simp⟩
  · obtain ⟨L, hL, h1, h2, hlo, hhi⟩ := Go.bits.Len64_spec x hx
    have hx' : x.toNat ≠ 0 := fun h => hx (UInt64.toNat_inj.mp (by simpa using h))
    have h64 : (64 : Int64).toInt = 64 := by decide
    have hz : (Go.bits.LeadingZeros64 x).toInt = ((64 - L : Nat) : Int) := by
      rw [Go.bits.LeadingZeros64, hL, i64_sub] <;> rw [Int64.toInt_ofNat_of_lt (by omega)] <;> omega
    have e1 : 2 ^ L * 2 ^ (64 - L) = 2 ^ 64 := by rw [← Nat.pow_add]; congr 1; omega
    have e2 : 2 ^ (L - 1) * 2 ^ (64 - L) = 2 ^ 63 := by rw [← Nat.pow_add]; congr 1; omega
    have hp : 0 < 2 ^ (64 - L) := Nat.pow_pos (by norm_num)
    refine ⟨64 - L, hz, by omega, ?_, fun _ => ?_, fun h => absurd h hx', ?_⟩
    · calc x.toNat * 2 ^ (64 - L) < 2 ^ L * 2 ^ (64 - L) := Nat.mul_lt_mul_of_pos_right hhi hp
        _ = 2 ^ 64 := e1
    · calc 2 ^ 63 = 2 ^ (L - 1) * 2 ^ (64 - L) := e2.symm
        _ ≤ x.toNat * 2 ^ (64 - L) := Nat.mul_le_mul_right _ hlo
    · constructor
      · intro h0
        have : L = 64 := by omega
        subst this; simpa using hlo
      · intro h63
        by_contra hne
        have : L ≤ 63 := by omega
        have : 2 ^ L ≤ 2 ^ 63 := Nat.pow_le_pow_right (by norm_num) this
        omega

theorem U256.w3_toNat (n : U256) : n.w3.toNat = n.toNat / 2 ^ 192 := by
  have := n.w0.toNat_lt; have := n.w1.toNat_lt; have := n.w2.toNat_lt
  simp only [U256.toNat]; omega

/-- shifting left by the leading zeros of the top word does not overflow -/
theorem lsh_lz (S : U256) (z : Nat) (hzle : z ≤ 64) (hz : S.w3.toNat * 2 ^ z < 2 ^ 64) :
    S.toNat * 2 ^ z < 2 ^ 256 := by
  have h3 := U256.w3_toNat S
  have hp : 0 < 2 ^ z := Nat.pow_pos (by norm_num)
  have h1 : S.toNat < (S.w3.toNat + 1) * 2 ^ 192 := by omega
  have h2 : (S.w3.toNat + 1) * 2 ^ z ≤ 2 ^ 64 := by
    -- both sides are multiples of 2^z
    by_contra hc
    have hc' : 2 ^ 64 < (S.w3.toNat + 1) * 2 ^ z := by omega
    have e : 2 ^ 64 = 2 ^ (64 - z) * 2 ^ z := by rw [← Nat.pow_add]; congr 1; omega
    rw [e] at hz hc'
    have a := Nat.lt_of_mul_lt_mul_right hz
    have b := Nat.lt_of_mul_lt_mul_right hc'
    omega
  calc S.toNat * 2 ^ z < (S.w3.toNat + 1) * 2 ^ 192 * 2 ^ z := Nat.mul_lt_mul_of_pos_right h1 hp
    _ = (S.w3.toNat + 1) * 2 ^ z * 2 ^ 192 := by ring
    _ ≤ 2 ^ 64 * 2 ^ 192 := Nat.mul_le_mul_right _ h2
    _ = 2 ^ 256 := by norm_num

theorem pow_lt_256 (S n : Nat) (hS : S ≠ 0) (h : S * 2 ^ n < 2 ^ 256) : n < 256 := by
  by_contra hc
  have h1 : 2 ^ 256 ≤ 2 ^ n := Nat.pow_le_pow_right (by norm_num) (by omega)
  have h2 : 2 ^ n ≤ S * 2 ^ n := Nat.le_mul_of_pos_left _ (Nat.pos_of_ne_zero hS)
  omega

/-! ## the final normalisation loop -/

/-- `for zeros != 0 { sig256 = sig256.lsh(zeros); exp -= zeros; zeros = lz(sig256[3]) }` shifts a non-zero
    `sig256` up until its top bit is set; the value `sig256 · 2^exp` is unchanged -/
theorem normLoop (s : St) (hS : s.2.1.toNat ≠ 0) (hE : -20000 ≤ s.1.toInt)
    (hz : s.2.2 = Go.bits.LeadingZeros64 s.2.1.w3) :
    ∃ (s' : St) (n : Nat), forIn (m := Go.GoM) Lean.Loop.mk s normBody = .ok s' ∧
      s'.2.1.toNat = s.2.1.toNat * 2 ^ n ∧ s'.1.toInt = s.1.toInt - n ∧ 2 ^ 255 ≤ s'.2.1.toNat := by
  have key := RK.loop_inv normBody
    (fun b => b.2.2 = Go.bits.LeadingZeros64 b.2.1.w3 ∧
      ∃ n : Nat, b.2.1.toNat = s.2.1.toNat * 2 ^ n ∧ b.1.toInt = s.1.toInt - n)
    (fun b => ∃ n : Nat, b.2.1.toNat = s.2.1.toNat * 2 ^ n ∧ b.1.toInt = s.1.toInt - n ∧
      2 ^ 255 ≤ b.2.1.toNat)
    (fun b => 2 ^ 256 - b.2.1.toNat) ?_ s ⟨hz, 0, by simp, by simp⟩
  · obtain ⟨b', e, n, h1, h2, h3⟩ := key
    exact ⟨b', n, e, h1, h2, h3⟩
  · rintro b ⟨hbz, n, hbS, hbE⟩
    obtain ⟨z, hz1, hz2, hz3, hz4, hz5, hz6⟩ := lz_spec b.2.1.w3
    have hlt := U256.toNat_lt b.2.1
    have hn : n < 256 := pow_lt_256 _ _ hS (by rw [← hbS]; exact hlt)
    have hb0 : b.2.1.toNat ≠ 0 := by
      rw [hbS]; exact Nat.mul_ne_zero hS (Nat.pos_iff_ne_zero.mp (Nat.pow_pos (by norm_num)))
    have h3 := U256.w3_toNat b.2.1
    have hEu := s.1.toInt_lt
    by_cases hc : z = 0
    · right
      refine ⟨b, ?_, n, hbS, hbE, ?_⟩
      · have : (b.2.2 != 0) = false := by rw [i64_ne_zero, hbz, hz1, hc]; simp
        simp only [normBody, this, Bool.false_eq_true, if_false]; rfl
      · have := hz6.mp hc
        omega
    · left
      have hne : (b.2.2 != 0) = true := by
        rw [i64_ne_zero, hbz, hz1]; simp only [decide_eq_true_eq]; omega
      have hcz : (Go.conv b.2.2 : UInt64).toNat = z := by
        rw [i64_conv_u64] <;> rw [hbz, hz1] <;> simp
      have hci : (Go.conv b.2.2 : Int16).toInt = z := by
        rw [i64_conv_i16] <;> rw [hbz, hz1] <;> omega
      have hno := lsh_lz b.2.1 z hz2 hz3
      have hsh : (U256.lsh b.2.1 (Go.conv b.2.2)).toNat = b.2.1.toNat * 2 ^ z := by
        rw [U256_lsh_toNat, hcz, Nat.mod_eq_of_lt hno]
      refine ⟨(b.1 - Go.conv b.2.2, U256.lsh b.2.1 (Go.conv b.2.2),
        Go.bits.LeadingZeros64 (U256.lsh b.2.1 (Go.conv b.2.2)).w3), ?_, ⟨rfl, n + z, ?_, ?_⟩, ?_⟩
      · simp only [normBody, hne, if_true]; rfl
      · show (U256.lsh b.2.1 (Go.conv b.2.2)).toNat = _
        rw [hsh, hbS, Nat.pow_add, Nat.mul_assoc]
      · show (b.1 - Go.conv b.2.2).toInt = _
        rw [Int16.toInt_sub_of] <;> rw [hci, hbE] <;> push_cast <;> omega
      · show 2 ^ 256 - (U256.lsh b.2.1 (Go.conv b.2.2)).toNat < 2 ^ 256 - b.2.1.toNat
        rw [hsh]
        have : 2 ≤ 2 ^ z := by
          calc 2 = 2 ^ 1 := rfl
            _ ≤ 2 ^ z := Nat.pow_le_pow_right (by norm_num) (by omega)
        have : b.2.1.toNat * 2 ≤ b.2.1.toNat * 2 ^ z := Nat.mul_le_mul_left _ this
        omega

/-! ## the loops of the non-negative-exponent path -/

theorem w3_le_imp (S : U256) (T : Nat) (h : S.w3.toNat ≤ T) : S.toNat < (T + 1) * 2 ^ 192 := by
  have := U256.w3_toNat S
  omega

/-- `for shift != 0 && sig256[3] <= 0x18ff… { sig256 = sig256.mul64(10); shift-- }`: multiplies exactly by
    `10^m`, `m ≤ shift`, and stops with `shift = 0` or a large top word -/
theorem mul10Loop (s : U256 × Int64) (hk : 0 ≤ s.2.toInt) :
    ∃ (s' : U256 × Int64) (m : Nat), forIn (m := Go.GoM) Lean.Loop.mk s mul10Body = .ok s' ∧
      s'.1.toNat = s.1.toNat * 10 ^ m ∧ s'.2.toInt = s.2.toInt - m ∧ 0 ≤ s'.2.toInt ∧
      (s'.2.toInt = 0 ∨ 1801439850948198399 < s'.1.w3.toNat) ∧
      (s.2.toInt ≠ 0 → s.1.w3.toNat ≤ 1801439850948198399 → 1 ≤ m) := by
  have key := RK.loop_inv mul10Body
    (fun b => ∃ m : Nat, b.1.toNat = s.1.toNat * 10 ^ m ∧ b.2.toInt = s.2.toInt - m ∧ 0 ≤ b.2.toInt ∧
      (m = 0 → b = s))
    (fun b => ∃ m : Nat, b.1.toNat = s.1.toNat * 10 ^ m ∧ b.2.toInt = s.2.toInt - m ∧ 0 ≤ b.2.toInt ∧
      (b.2.toInt = 0 ∨ 1801439850948198399 < b.1.w3.toNat) ∧ (m = 0 → b = s))
    (fun b => b.2.toInt.toNat) ?_ s ⟨0, by simp, by simp, hk, fun _ => rfl⟩
  · obtain ⟨b', e, m, h1, h2, h3, h4, h5⟩ := key
    refine ⟨b', m, e, h1, h2, h3, h4, ?_⟩
    intro hne hle
    by_contra hm
    have hm0 : m = 0 := by omega
    have := h5 hm0
    subst this
    omega
  · rintro b ⟨m, hbS, hbk, hb0, hbm⟩
    have hT : (1801439850948198399 : UInt64).toNat = 1801439850948198399 := rfl
    have h10 : (10 : UInt64).toNat = 10 := rfl
    have hlt := b.2.toInt_lt
    by_cases hc : b.2.toInt ≠ 0 ∧ b.1.w3.toNat ≤ 1801439850948198399
    · left
      have hcond : (b.2 != 0 && decide (b.1.w3 ≤ 1801439850948198399)) = true := by
        rw [i64_ne_zero, u64_le, hT]; simp only [Bool.and_eq_true, decide_eq_true_eq]; exact hc
      have hno : b.1.toNat * 10 < 2 ^ 256 := by
        have := w3_le_imp b.1 _ hc.2
        omega
      have h1 : (1 : Int64).toInt = 1 := by decide
      refine ⟨(U256.mul64 b.1 10, b.2 - 1), ?_, ⟨m + 1, ?_, ?_, ?_, by omega⟩, ?_⟩
      · simp only [mul10Body, hcond, if_true]; rfl
      · show (U256.mul64 b.1 10).toNat = _
        rw [U256_mul64_toNat_of_lt _ _ (by rw [h10]; exact hno), h10, hbS, Nat.pow_succ, Nat.mul_assoc]
      · show (b.2 - 1).toInt = _
        rw [i64_sub] <;> rw [h1] <;> push_cast <;> omega
      · show 0 ≤ (b.2 - 1).toInt
        rw [i64_sub] <;> rw [h1] <;> omega
      · show (b.2 - 1).toInt.toNat < b.2.toInt.toNat
        rw [i64_sub] <;> rw [h1] <;> omega
    · right
      have hcond : (b.2 != 0 && decide (b.1.w3 ≤ 1801439850948198399)) = false := by
        rw [i64_ne_zero, u64_le, hT]
        simp only [Bool.and_eq_false_iff, decide_eq_false_iff_not]
        by_cases h : b.2.toInt ≠ 0
        · right; exact fun h' => hc ⟨h, h'⟩
        · left; exact h
      refine ⟨b, ?_, m, hbS, hbk, hb0, ?_, hbm⟩
      · simp only [mul10Body, hcond, Bool.false_eq_true, if_false]; rfl
      · by_cases h : b.2.toInt = 0
        · left; exact h
        · right
          have : ¬ b.1.w3.toNat ≤ 1801439850948198399 := fun h' => hc ⟨h, h'⟩
          omega

/-- `for shift > 19 && sig256[3] == 0 { sig256 = sig256.mul64(10^19); shift -= 19 }`: multiplies exactly by
    `10^m`, `m ≤ shift` -/
theorem mul19Loop (s : U256 × Int64) (hk : 0 ≤ s.2.toInt) :
    ∃ (s' : U256 × Int64) (m : Nat), forIn (m := Go.GoM) Lean.Loop.mk s mul19Body = .ok s' ∧
      s'.1.toNat = s.1.toNat * 10 ^ m ∧ s'.2.toInt = s.2.toInt - m ∧ 0 ≤ s'.2.toInt := by
  have key := RK.loop_inv mul19Body
    (fun b => ∃ m : Nat, b.1.toNat = s.1.toNat * 10 ^ m ∧ b.2.toInt = s.2.toInt - m ∧ 0 ≤ b.2.toInt)
    (fun b => ∃ m : Nat, b.1.toNat = s.1.toNat * 10 ^ m ∧ b.2.toInt = s.2.toInt - m ∧ 0 ≤ b.2.toInt)
    (fun b => b.2.toInt.toNat) ?_ s ⟨0, by simp, by simp, hk⟩
  · obtain ⟨b', e, m, h1, h2, h3⟩ := key
    exact ⟨b', m, e, h1, h2, h3⟩
  · rintro b ⟨m, hbS, hbk, hb0⟩
    have h19 : (19 : Int64).toInt = 19 := by decide
    have hc19 : (10000000000000000000 : UInt64).toNat = 10000000000000000000 := rfl
    have hlt := b.2.toInt_lt
    by_cases hc : 19 < b.2.toInt ∧ b.1.w3.toNat = 0
    · left
      have hcond : (decide (b.2 > 19) && b.1.w3 == 0) = true := by
        rw [i64_gt, u64_eq_zero, h19]; simp only [Bool.and_eq_true, decide_eq_true_eq]; exact hc
      have hno : b.1.toNat * 10000000000000000000 < 2 ^ 256 := by
        have := w3_le_imp b.1 0 (by omega)
        omega
      refine ⟨(U256.mul64 b.1 10000000000000000000, b.2 - 19), ?_, ⟨m + 19, ?_, ?_, ?_⟩, ?_⟩
      · simp only [mul19Body, hcond, if_true]; rfl
      · show (U256.mul64 b.1 10000000000000000000).toNat = _
        rw [U256_mul64_toNat_of_lt _ _ (by rw [hc19]; exact hno), hc19, hbS, Nat.pow_add, Nat.mul_assoc]
      · show (b.2 - 19).toInt = _
        rw [i64_sub] <;> rw [h19] <;> push_cast <;> omega
      · show 0 ≤ (b.2 - 19).toInt
        rw [i64_sub] <;> rw [h19] <;> omega
      · show (b.2 - 19).toInt.toNat < b.2.toInt.toNat
        rw [i64_sub] <;> rw [h19] <;> omega
    · right
      have hcond : (decide (b.2 > 19) && b.1.w3 == 0) = false := by
        rw [i64_gt, u64_eq_zero, h19]
        simp only [Bool.and_eq_false_iff, decide_eq_false_iff_not]
        by_cases h : 19 < b.2.toInt
        · right; exact fun h' => hc ⟨h, h'⟩
        · left; exact h
      refine ⟨b, ?_, m, hbS, hbk, hb0⟩
      simp only [mul19Body, hcond, Bool.false_eq_true, if_false]; rfl

/-- one `rsh(4)`: the truncation costs at most `2^-240` of the value when the top word is large -/
theorem rsh_step (S X V i : Nat) (hN : S * X ≤ V) (hErr : V * 2 ^ 240 ≤ S * X * 2 ^ 240 + i * V)
    (hS : 25 * 2 ^ 248 ≤ S) :
    S / 16 * 16 * X ≤ V ∧ V * 2 ^ 240 ≤ S / 16 * 16 * X * 2 ^ 240 + (i + 1) * V := by
  have hS' : 6400 * 2 ^ 240 ≤ S := by omega
  generalize (2 : Nat) ^ 240 = P at *
  obtain ⟨q, r, hr, hlt⟩ : ∃ q r, S = 16 * q + r ∧ r < 16 := ⟨S / 16, S % 16, by omega, by omega⟩
  have hq : S / 16 = q := by omega
  rw [hq]
  subst hr
  have e : (16 * q + r) * X = 16 * (q * X) + r * X := by ring
  have e2 : q * 16 * X = 16 * (q * X) := by ring
  have h1 : r * X ≤ 15 * X := Nat.mul_le_mul_right _ (by omega)
  have h2 : 6400 * P * X ≤ (16 * q + r) * X := Nat.mul_le_mul_right _ hS'
  rw [e] at hN hErr h2
  rw [e2]
  constructor
  · omega
  · have h3 : r * X * P ≤ V := by
      have : r * X * P ≤ 15 * X * P := Nat.mul_le_mul_right _ h1
      have e3 : 6400 * P * X = 6400 * (X * P) := by ring
      have e4 : 15 * X * P = 15 * (X * P) := by ring
      rw [e3] at h2; rw [e4] at this
      omega
    have e5 : (16 * (q * X) + r * X) * P = 16 * (q * X) * P + r * X * P := by ring
    rw [e5] at hErr
    have e6 : (i + 1) * V = i * V + V := by ring
    rw [e6]
    omega

theorem w3_gt_imp (S : U256) (h : 1801439850948198399 < S.w3.toNat) : 25 * 2 ^ 248 ≤ S.toNat := by
  have h3 := U256.w3_toNat S
  omega

/-- `for shift != 0 { sig256 = sig256.rsh(4); exp += 4; <mul10 loop> }`: on exit `shift = 0` and
    `sig256 · 2^exp` approximates the exact value `V` from below with relative error `≤ i · 2^-240`,
    where `exp = 4·i`, `i ≤ k` -/
theorem rshLoop (s : St) (V k : Nat) (hk : s.2.2.toInt = k) (hk' : k ≤ 1000) (hE : s.1.toInt = 0)
    (hV : V = s.2.1.toNat * 10 ^ k) (hw : k = 0 ∨ 1801439850948198399 < s.2.1.w3.toNat) :
    ∃ (s' : St) (i : Nat), forIn (m := Go.GoM) Lean.Loop.mk s rshBody = .ok s' ∧
      s'.1.toInt = 4 * i ∧ i ≤ k ∧ s'.2.1.toNat * 2 ^ (4 * i) ≤ V ∧
      V * 2 ^ 240 ≤ s'.2.1.toNat * 2 ^ (4 * i) * 2 ^ 240 + i * V := by
  have key := RK.loop_inv rshBody
    (fun b => ∃ i n : Nat, b.2.2.toInt = n ∧ b.1.toInt = 4 * i ∧ n + i ≤ k ∧
      (n = 0 ∨ 1801439850948198399 < b.2.1.w3.toNat) ∧
      b.2.1.toNat * (2 ^ (4 * i) * 10 ^ n) ≤ V ∧
      V * 2 ^ 240 ≤ b.2.1.toNat * (2 ^ (4 * i) * 10 ^ n) * 2 ^ 240 + i * V)
    (fun b => ∃ i : Nat, b.1.toInt = 4 * i ∧ i ≤ k ∧ b.2.1.toNat * 2 ^ (4 * i) ≤ V ∧
      V * 2 ^ 240 ≤ b.2.1.toNat * 2 ^ (4 * i) * 2 ^ 240 + i * V)
    (fun b => b.2.2.toInt.toNat) ?_ s
    ⟨0, k, hk, by simpa using hE, by omega, hw, by simp [hV], by simp [hV]⟩
  · obtain ⟨b', e, i, h1, h2, h3, h4⟩ := key
    exact ⟨b', i, e, h1, h2, h3, h4⟩
  · rintro b ⟨i, n, hbn, hbE, hni, hbw, hN, hErr⟩
    by_cases hc : n = 0
    · right
      subst hc
      have hcond : (b.2.2 != 0) = false := by rw [i64_ne_zero, hbn]; simp
      refine ⟨b, ?_, i, hbE, by omega, by simpa using hN, by simpa using hErr⟩
      simp only [rshBody, hcond, Bool.false_eq_true, if_false]; rfl
    · left
      have hcond : (b.2.2 != 0) = true := by
        rw [i64_ne_zero, hbn]; simp only [decide_eq_true_eq]; omega
      have hw3 : 1801439850948198399 < b.2.1.w3.toNat := by omega
      have h3 := U256.w3_toNat b.2.1
      have hSbig : 25 * 2 ^ 248 ≤ b.2.1.toNat := w3_gt_imp _ hw3
      have hSlt := U256.toNat_lt b.2.1
      have h4 : (4 : UInt64).toNat = 4 := rfl
      have hrsh : (U256.rsh b.2.1 4).toNat = b.2.1.toNat / 16 := by
        rw [U256_rsh_toNat, h4]; rfl
      obtain ⟨s1, m, e1, hs1, hs2, hs3, hs4, hs5⟩ := mul10Loop (U256.rsh b.2.1 4, b.2.2) (by show 0 ≤ b.2.2.toInt; omega)
      have hm : 1 ≤ m := by
        apply hs5
        · show b.2.2.toInt ≠ 0; omega
        · show (U256.rsh b.2.1 4).w3.toNat ≤ _
          rw [U256.w3_toNat, hrsh]; omega
      have hs1' : s1.1.toNat = b.2.1.toNat / 16 * 10 ^ m := by rw [hs1]; show (U256.rsh b.2.1 4).toNat * _ = _; rw [hrsh]
      have hs2' : s1.2.toInt = n - m := by rw [hs2]; show b.2.2.toInt - _ = _; rw [hbn]
      have hmn : m ≤ n := by omega
      obtain ⟨g1, g2⟩ := rsh_step _ _ V i hN hErr hSbig
      have hX : b.2.1.toNat / 16 * 10 ^ m * (2 ^ (4 * (i + 1)) * 10 ^ (n - m))
          = b.2.1.toNat / 16 * 16 * (2 ^ (4 * i) * 10 ^ n) := by
        have ea : 2 ^ (4 * (i + 1)) = 2 ^ (4 * i) * 16 := by rw [Nat.mul_add, Nat.pow_add]
        have eb : 10 ^ n = 10 ^ m * 10 ^ (n - m) := by rw [← Nat.pow_add]; congr 1; omega
        rw [ea, eb]; ring
      have h4i : (4 : Int16).toInt = 4 := by decide
      have hEu := b.1.toInt_lt
      refine ⟨(b.1 + 4, s1.1, s1.2), ?_, ⟨i + 1, n - m, ?_, ?_, by omega, ?_, ?_, ?_⟩, ?_⟩
      · simp only [rshBody, hcond, if_true, e1]; rfl
      · show s1.2.toInt = _
        rw [hs2']; omega
      · show (b.1 + 4).toInt = _
        rw [Int16.toInt_add_of] <;> rw [h4i, hbE] <;> push_cast <;> omega
      · show n - m = 0 ∨ 1801439850948198399 < s1.1.w3.toNat
        rcases hs4 with h | h
        · left; omega
        · right; exact h
      · show s1.1.toNat * _ ≤ V
        rw [hs1', hX]; exact g1
      · show V * 2 ^ 240 ≤ s1.1.toNat * _ * 2 ^ 240 + _
        rw [hs1', hX]; exact g2
      · show s1.2.toInt.toNat < b.2.2.toInt.toNat
        rw [hs2', hbn]; omega

/-! ## the loop of the negative-exponent path -/

/-- one `lsh(zeros); div10` step in abstract form: `D = c·2^e`, `T = 10^j`, `P = 2^zeros`, `Q = 2^120` -/
theorem neg_step_abs (D P Q T S q r j : Nat) (ha : S * P = 10 * q + r) (hr : r ≤ 9) (hS : 256 * Q ≤ S)
    (hP : 1 ≤ P) (hN : S * T ≤ D) (hErr : D * Q ≤ S * T * Q + j * D) :
    q * (T * 10) ≤ D * P ∧ D * P * Q ≤ q * (T * 10) * Q + (j + 1) * (D * P) := by
  have h1 : S * T * P ≤ D * P := Nat.mul_le_mul_right P hN
  have e1 : S * T * P = 10 * (q * T) + r * T := by
    calc S * T * P = (S * P) * T := by ring
      _ = (10 * q + r) * T := by rw [ha]
      _ = 10 * (q * T) + r * T := by ring
  have h2 : D * Q * P ≤ (S * T * Q + j * D) * P := Nat.mul_le_mul_right P hErr
  have e2 : (S * T * Q + j * D) * P = (S * T * P) * Q + j * (D * P) := by ring
  rw [e2, e1] at h2
  rw [e1] at h1
  have h3 : r * T * Q ≤ D * P := by
    have a1 : r * (T * Q) ≤ 9 * (T * Q) := Nat.mul_le_mul_right _ hr
    have a2 : 256 * Q * T ≤ S * T := Nat.mul_le_mul_right _ hS
    have a3 : S * T * 1 ≤ S * T * P := Nat.mul_le_mul_left _ hP
    rw [e1] at a3
    have e3 : r * T * Q = r * (T * Q) := by ring
    have e4 : 256 * Q * T = 256 * (T * Q) := by ring
    rw [e3]; rw [e4] at a2
    omega
  constructor
  · have : q * (T * 10) = 10 * (q * T) := by ring
    rw [this]; omega
  · have e5 : q * (T * 10) * Q = 10 * (q * T) * Q := by ring
    have e6 : (10 * (q * T) + r * T) * Q = 10 * (q * T) * Q + r * T * Q := by ring
    have e7 : (j + 1) * (D * P) = j * (D * P) + D * P := by ring
    have e8 : D * P * Q = D * Q * P := by ring
    rw [e5, e7, e8]; rw [e6] at h2
    omega

set_option exponentiation.threshold 2000 in
/-- the binary exponent stays small: `2^e ≤ c·2^e ≤ 2·S·10^j < 2^1586` -/
theorem neg_e_bound (c e S j : Nat) (hc : 1 ≤ c) (hS : S < 2 ^ 256) (hj : j ≤ 400)
    (hErr : c * 2 ^ e * 2 ^ 120 ≤ S * 10 ^ j * 2 ^ 120 + j * (c * 2 ^ e)) : e < 1586 := by
  have h10 : (10 : Nat) ^ j ≤ 10 ^ 400 := Nat.pow_le_pow_right (by norm_num) hj
  have h10' : (10 : Nat) ^ 400 < 2 ^ 1329 := by norm_num
  have hN : S * 10 ^ j < 2 ^ 256 * 2 ^ 1329 :=
    Nat.mul_lt_mul_of_lt_of_le hS (by omega) (by norm_num)
  generalize hD' : c * 2 ^ e = D at *
  generalize S * 10 ^ j = N at *
  have hD : D ≤ 2 * N := by
    have e1 : (2 : Nat) ^ 120 = 2 * 2 ^ 119 := by norm_num
    have hjH : j ≤ 2 ^ 119 := by
      have : (400 : Nat) ≤ 2 ^ 119 := by norm_num
      omega
    rw [e1] at hErr
    generalize (2 : Nat) ^ 119 = H at *
    have hH : 0 < H := by omega
    have h1 : j * D ≤ H * D := Nat.mul_le_mul_right _ hjH
    have h2 : D * H ≤ 2 * N * H := by
      have a : D * (2 * H) = D * H + H * D := by ring
      have b : N * (2 * H) = 2 * N * H := by ring
      rw [a, b] at hErr
      omega
    exact Nat.le_of_mul_le_mul_right h2 hH
  have h2e : 2 ^ e ≤ D := by
    rw [← hD']; exact Nat.le_mul_of_pos_left _ hc
  have hlt : 2 ^ e < 2 ^ 1586 := by
    have e2 : (2 : Nat) ^ 1586 = 2 * (2 ^ 256 * 2 ^ 1329) := by norm_num
    rw [e2]; omega
  exact (Nat.pow_lt_pow_iff_right (by norm_num)).mp hlt

/-- the scaling loop for a negative decimal exponent `-k`: on exit `shift = 0`, `exp = -e`, and
    `sig256 · 2^-e` approximates `c / 10^k` from below with relative error `≤ k · 2^-120` -/
theorem negLoop (s : St) (c k : Nat) (hc : 1 ≤ c) (hk : s.2.2.toInt = k) (hk' : k ≤ 400)
    (hE : s.1.toInt = -128) (hS : s.2.1.toNat = c * 2 ^ 128) :
    ∃ (s' : St) (e : Nat), forIn (m := Go.GoM) Lean.Loop.mk s negBody = .ok s' ∧
      s'.1.toInt = -(e : Int) ∧ e < 1586 ∧ 2 ^ 128 ≤ s'.2.1.toNat ∧
      s'.2.1.toNat * 10 ^ k ≤ c * 2 ^ e ∧
      c * 2 ^ e * 2 ^ 120 ≤ s'.2.1.toNat * 10 ^ k * 2 ^ 120 + k * (c * 2 ^ e) := by
  have hS0 : 2 ^ 128 ≤ s.2.1.toNat := by rw [hS]; exact Nat.le_mul_of_pos_left _ hc
  have key := RK.loop_inv negBody
    (fun b => ∃ j e : Nat, b.2.2.toInt = (k : Int) - j ∧ j ≤ k ∧ b.1.toInt = -(e : Int) ∧
      2 ^ 128 ≤ b.2.1.toNat ∧ b.2.1.toNat * 10 ^ j ≤ c * 2 ^ e ∧
      c * 2 ^ e * 2 ^ 120 ≤ b.2.1.toNat * 10 ^ j * 2 ^ 120 + j * (c * 2 ^ e))
    (fun b => ∃ e : Nat, b.1.toInt = -(e : Int) ∧ e < 1586 ∧ 2 ^ 128 ≤ b.2.1.toNat ∧
      b.2.1.toNat * 10 ^ k ≤ c * 2 ^ e ∧
      c * 2 ^ e * 2 ^ 120 ≤ b.2.1.toNat * 10 ^ k * 2 ^ 120 + k * (c * 2 ^ e))
    (fun b => b.2.2.toInt.toNat) ?_ s
    ⟨0, 128, by simpa using hk, by omega, by simpa using hE, hS0, by simp [hS], by simp [hS]⟩
  · obtain ⟨b', e, e', h1, h2, h3, h4, h5⟩ := key
    exact ⟨b', e', e, h1, h2, h3, h4, h5⟩
  · rintro b ⟨j, e, hbk, hjk, hbE, hbS, hN, hErr⟩
    have hSlt := U256.toNat_lt b.2.1
    have he := neg_e_bound c e _ j hc hSlt (by omega) hErr
    by_cases hcj : j = k
    · right
      subst hcj
      have hcond : (b.2.2 != 0) = false := by rw [i64_ne_zero, hbk]; simp
      refine ⟨b, ?_, e, hbE, he, hbS, hN, hErr⟩
      simp only [negBody, hcond, Bool.false_eq_true, if_false]; rfl
    · left
      have hcond : (b.2.2 != 0) = true := by
        rw [i64_ne_zero, hbk]; simp only [decide_eq_true_eq]; omega
      obtain ⟨z, hz1, hz2, hz3, hz4, hz5, hz6⟩ := lz_spec b.2.1.w3
      have hcz : (Go.conv (Go.bits.LeadingZeros64 b.2.1.w3) : UInt64).toNat = z := by
        rw [i64_conv_u64] <;> rw [hz1] <;> simp
      have hci : (Go.conv (Go.bits.LeadingZeros64 b.2.1.w3) : Int16).toInt = z := by
        rw [i64_conv_i16] <;> rw [hz1] <;> omega
      have hno := lsh_lz b.2.1 z hz2 hz3
      have hsh : (U256.lsh b.2.1 (Go.conv (Go.bits.LeadingZeros64 b.2.1.w3))).toNat = b.2.1.toNat * 2 ^ z := by
        rw [U256_lsh_toNat, hcz, Nat.mod_eq_of_lt hno]
      obtain ⟨q, r, ediv, hq, hr⟩ := U256_div10_eq (U256.lsh b.2.1 (Go.conv (Go.bits.LeadingZeros64 b.2.1.w3)))
      rw [hsh] at hq hr
      have hP : 1 ≤ 2 ^ z := Nat.pow_pos (by norm_num)
      have hdm : b.2.1.toNat * 2 ^ z = 10 * q.toNat + r.toNat := by rw [hq, hr]; omega
      have hr9 : r.toNat ≤ 9 := by rw [hr]; omega
      have h256 : 256 * 2 ^ 120 ≤ b.2.1.toNat := by
        have e : (256 : Nat) * 2 ^ 120 = 2 ^ 128 := by norm_num
        rw [e]; exact hbS
      obtain ⟨g1, g2⟩ := neg_step_abs (c * 2 ^ e) (2 ^ z) (2 ^ 120) (10 ^ j) b.2.1.toNat q.toNat r.toNat j
        hdm hr9 h256 hP hN hErr
      have hD : c * 2 ^ (e + z) = c * 2 ^ e * 2 ^ z := by rw [Nat.pow_add, Nat.mul_assoc]
      have h1 : (1 : Int64).toInt = 1 := by decide
      have hlt := b.2.2.toInt_lt
      have hqbig : 2 ^ 128 ≤ q.toNat := by
        have : 2 ^ 128 * 1 ≤ b.2.1.toNat * 2 ^ z := Nat.mul_le_mul hbS hP
        by_cases hw : b.2.1.w3.toNat = 0
        · have := hz5 hw
          subst this
          have : 2 ^ 128 * 2 ^ 64 ≤ b.2.1.toNat * 2 ^ 64 := Nat.mul_le_mul_right _ hbS
          omega
        · have h3 := U256.w3_toNat b.2.1
          have := hz4 hw
          have h5 : 2 ^ 63 * 2 ^ 192 ≤ b.2.1.w3.toNat * 2 ^ z * 2 ^ 192 := Nat.mul_le_mul_right _ this
          have h6 : b.2.1.w3.toNat * 2 ^ 192 ≤ b.2.1.toNat := by
            rw [h3]; exact Nat.div_mul_le_self _ _
          have h7 : b.2.1.w3.toNat * 2 ^ 192 * 2 ^ z ≤ b.2.1.toNat * 2 ^ z := Nat.mul_le_mul_right _ h6
          have e7 : b.2.1.w3.toNat * 2 ^ 192 * 2 ^ z = b.2.1.w3.toNat * 2 ^ z * 2 ^ 192 := by ring
          omega
      refine ⟨(b.1 - Go.conv (Go.bits.LeadingZeros64 b.2.1.w3), q, b.2.2 - 1), ?_,
        ⟨j + 1, e + z, ?_, by omega, ?_, hqbig, ?_, ?_⟩, ?_⟩
      · simp only [negBody, hcond, if_true, ediv]; rfl
      · show (b.2.2 - 1).toInt = _
        rw [i64_sub] <;> rw [h1] <;> push_cast <;> omega
      · show (b.1 - Go.conv (Go.bits.LeadingZeros64 b.2.1.w3)).toInt = _
        rw [Int16.toInt_sub_of] <;> rw [hci, hbE] <;> push_cast <;> omega
      · show q.toNat * 10 ^ (j + 1) ≤ _
        rw [hD, Nat.pow_succ]; exact g1
      · show c * 2 ^ (e + z) * 2 ^ 120 ≤ q.toNat * 10 ^ (j + 1) * 2 ^ 120 + _
        rw [hD, Nat.pow_succ]; exact g2
      · show (b.2.2 - 1).toInt.toNat < b.2.2.toInt.toNat
        rw [i64_sub] <;> rw [h1] <;> omega

end F2
