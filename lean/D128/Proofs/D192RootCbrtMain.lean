/-
  D128/Proofs/D192RootCbrtMain.lean — `Gen.Cbrt` is correct on its whole general path.

  Provided (namespace `Root`):
  * `cbrtCore_ok`  : for EVERY finite non-zero `d = ±c·10^e`: `cbrtCore d` does not panic and returns `(res, trunc)`
                     with `c·10^e/(val res)³ ∈ [1 - 4·etaC - 1e-130, 1 + 4·etaC + 1e-148]` (`etaC = 2^-184`),
                     `-2200 ≤ res.exp ≤ 2100`, flag ∈ {0,1}, and `2^192/10 ≤ res.sig ∨ trunc = 0`
  * `Cbrt_correct` : **unconditional** (nearest default mode): every finite non-zero `d`:
                     `∃ r rc re, Gen.Cbrt g d = .ok r ∧ 𝔳[r] = .fin n rc re ∧ Spec.rootOk 3 c e rc re = true`
-/
import D128.Proofs.D192RootCbrtIter
import D128.Proofs.D192RootSqrtMain
set_option autoImplicit false
set_option maxRecDepth 4096
set_option linter.unusedVariables false
namespace Root
open Gen D192
local notation "𝔳[" d "]" => Spec.interp (Gen.Decimal.lo d) (Gen.Decimal.hi d)

/-- **The core of `Cbrt` never panics and returns a near-root**, for every finite non-zero argument
`±c·10^e`. -/
theorem cbrtCore_ok (d : Decimal) (hsp : Decimal.isSpecial d = false) (hz : Decimal.IsZero d = false) :
    ∃ (res : decomposed192) (trunc : Int8),
      cbrtCore d = .ok (res, trunc) ∧ res.sig.toNat ≠ 0 ∧
      -2200 ≤ res.exp.toInt ∧ res.exp.toInt ≤ 2100 ∧
      (1 - (1 / 10 ^ 130 + 4 * etaC)) * val res ^ 3
        ≤ (d.decompose.1.toNat : ℚ) * (10 : ℚ) ^ (d.decompose.2.toInt - 6176) ∧
      (d.decompose.1.toNat : ℚ) * (10 : ℚ) ^ (d.decompose.2.toInt - 6176)
        ≤ (1 + (1 / 10 ^ 148 + 4 * etaC)) * val res ^ 3 ∧
      (trunc = 0 ∨ trunc = 1) ∧ (2 ^ 192 / 10 ≤ res.sig.toNat ∨ trunc = 0) := by
  obtain ⟨arg, arg2, start, hcore, hva, hva2, hae, hae2, hss, k, hk1, hk2, hk, hsexp⟩ :=
    cbrtCore_spec d hsp hz
  have hd0 := Enc.decompose_exp_nonneg d
  have hd1 := Enc.decompose_exp_le d hsp
  have hcC := Enc.decompose_sig_le d
  have hc0 : 0 < d.decompose.1.toNat := lt_of_lt_of_le (by positivity) hk1
  have hcq : (0 : ℚ) < (d.decompose.1.toNat : ℚ) := by exact_mod_cast hc0
  have hapos : 0 < val arg := by rw [hva]; exact mul_pos hcq (zpow_pos (by norm_num) _)
  have harg0 : arg.sig.toNat ≠ 0 := sig_ne_of_val_pos arg hapos
  have ha1 : val arg < (10 : ℚ) ^ (arg.exp.toInt + 35) := by
    rw [hva, hae, zpow_add₀ (by norm_num : (10 : ℚ) ≠ 0), mul_comm ((10 : ℚ) ^ _)]
    apply mul_lt_mul_of_pos_right _ (zpow_pos (by norm_num) _)
    have h35 : d.decompose.1.toNat < 10 ^ 35 := lt_of_le_of_lt hcC SpecRound.Cmax_upper
    have : (d.decompose.1.toNat : ℚ) < ((10 ^ 35 : ℕ) : ℚ) := by exact_mod_cast h35
    have e35 : (10 : ℚ) ^ (35 : ℤ) = ((10 ^ 35 : ℕ) : ℚ) := by norm_num
    rw [e35]; exact this
  -- the start value satisfies the invariant
  have hv0 : val start
      = (d.decompose.1.toNat : ℚ) * (10 : ℚ) ^ (cbrtStartExp k (d.decompose.2.toInt - 6176)) := by
    unfold val; rw [hss, hsexp]; rfl
  have hok := cbrt_start_ok d.decompose.1.toNat k (d.decompose.2.toInt - 6176) hk1 hk2
  have hspos : 0 < val start := by rw [hv0]; exact mul_pos hcq (zpow_pos (by norm_num) _)
  have hinv0 : CInv arg (99 / 100) 99 (start, 0) :=
    ⟨sig_ne_of_val_pos start hspos, by rw [hv0, hva]; exact hok.1, by rw [hv0, hva]; exact hok.2,
      Or.inl rfl, Or.inr rfl⟩
  obtain ⟨s7, hs7, g1, g2, g3, g4, g5⟩ := cbrtIter_inv arg arg2 (start, 0) harg0 (by omega) (by omega) ha1
    hva2 hae2 hinv0
  rw [hva] at g2 g3
  -- exponent window of the result
  have hη := etaC_le
  have hη0 := etaC_pos
  have ha0 : (10 : ℚ) ^ (d.decompose.2.toInt - 6176)
      ≤ (d.decompose.1.toNat : ℚ) * (10 : ℚ) ^ (d.decompose.2.toInt - 6176) :=
    le_mul_of_one_le_left (zpow_pos (by norm_num) _).le (by exact_mod_cast hc0)
  have hx3 : 0 ≤ val s7.1 ^ 3 := pow_nonneg (val_nonneg _) 3
  have hb1 : (1 : ℚ) / 10 ^ 130 + 4 * etaC ≤ 1 / 2 := by
    have : (1 : ℚ) / 10 ^ 130 ≤ 1 / 10 := by norm_num
    have : (1 : ℚ) / 10 ^ 55 ≤ 1 / 100 := by norm_num
    linarith
  have hb2 : (1 : ℚ) / 10 ^ 148 + 4 * etaC ≤ 1 / 2 := by
    have : (1 : ℚ) / 10 ^ 148 ≤ 1 / 10 := by norm_num
    have : (1 : ℚ) / 10 ^ 55 ≤ 1 / 100 := by norm_num
    linarith
  have ha1' : (d.decompose.1.toNat : ℚ) * (10 : ℚ) ^ (d.decompose.2.toInt - 6176)
      < (10 : ℚ) ^ (d.decompose.2.toInt - 6176 + 35) := by rw [← hva, ← hae]; exact ha1
  obtain ⟨w0, w1⟩ := cbrt_exp_window s7.1 _ (d.decompose.2.toInt - 6176) g1 ha0 ha1'
    (by nlinarith) (by nlinarith)
  refine ⟨s7.1, s7.2, ?_, g1, by omega, by omega, g2, g3, g4, g5⟩
  rw [hcore, hs7]

/-- **`Gen.Cbrt` is correct on its whole general path** (nearest default mode): for every finite non-zero
Decimal `d = ±c·10^e` the call does not panic and returns a finite Decimal `±rc·10^re` with the sign of `d`
and `Spec.rootOk 3 c e rc re`. -/
theorem Cbrt_correct (g : Globals) (m : Spec.Mode) (d : Decimal) (n : Bool) (c : Nat) (e : Int)
    (h1 : Decimal.isSpecial d = false) (h2 : Decimal.IsZero d = false)
    (hv : 𝔳[d] = .fin n c e)
    (hm : Spec.Mode.ofNat? g.DefaultRoundingMode.toNat = some m)
    (hn : SpecRound.isNearest m = true) :
    ∃ r rc re, Gen.Cbrt g d = .ok r ∧ 𝔳[r] = .fin n rc re ∧ Spec.rootOk 3 c e rc re = true := by
  obtain ⟨res, trunc, hcore, hs0, hr0, hr1, hlo, hhi, htf, hnz⟩ := cbrtCore_ok d h1 h2
  rw [Enc.interp_decompose d h1] at hv
  injection hv with hnv hcv hev
  have hc0 : 0 < c := by
    have := Sp.IsZero_eq_sig d; rw [h2] at this
    have : (Gen.Decimal.decompose d).1.toNat ≠ 0 := by simpa using this.symm
    omega
  have hc : c ≤ Spec.Cmax := by rw [← hcv]; exact Enc.decompose_sig_le d
  have he0 : Spec.Emin ≤ e := by
    have := Enc.decompose_exp_nonneg d; unfold Spec.Emin; omega
  have he1 : e ≤ Spec.Emax := by
    have := Enc.decompose_exp_le d h1; unfold Spec.Emax; omega
  rw [hcv, hev] at hlo hhi
  rw [Cbrt_eq g d h1 h2, hcore, hnv]
  show ∃ r rc re, cbrtFinish g n res trunc = .ok r ∧ _
  rw [cbrtFinish_eq]
  have hE := cbrt_exp res.exp (by omega) (by omega)
  have hE' : (res.exp + 6176).toInt - 6176 = res.exp.toInt := by omega
  have hη := etaC_le
  have hη0 := etaC_pos
  have h55 : (1 : ℚ) / 10 ^ 55 = 10 / 10 ^ 56 := by norm_num
  exact finishK_rootOk_rel _ m n res.sig _ trunc 2 c e (1 / 10 ^ 130 + 4 * etaC)
    (1 / 10 ^ 148 + 4 * etaC) hm hn (by norm_num) (le_refl _)
    (by rcases htf with h | h
        · exact Or.inl h
        · exact Or.inr (Or.inl h))
    (by omega) (by omega) hc0 hc he0 he1 (by omega)
    (by rcases hnz with h | h
        · exact Or.inl (le_trans (by unfold LIM; norm_num) h)
        · exact Or.inr h)
    (by positivity)
    (by have : (1 : ℚ) / 10 ^ 130 ≤ 1 / 10 ^ 56 := by norm_num
        linarith)
    (by positivity)
    (by have : (1 : ℚ) / 10 ^ 148 ≤ 1 / 10 ^ 56 := by norm_num
        linarith)
    (by rw [hE']; exact hlo) (by rw [hE']; exact hhi)
end Root
