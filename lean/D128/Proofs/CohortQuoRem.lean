/-
  D128/Proofs/CohortQuoRem.lean — `Spec.quoRem` (property C03) depends on the operand values only
  (property C19, first clause; pure specification-level mathematics).

  * `quoRem_nf`     : on finite non-zero operands with magnitudes `X = c·10^e`, `Y = c'·10^e'` the pair is
                      `(qv m (n ≠ n') ⌊X/Y⌋₊, exactOrInfS n (X − ⌊X/Y⌋₊·Y) 0)` — a function of `X`, `Y` and
                      the signs
  * `quoRem_congr`  : `x.same x' → y.same y' →` both components of `Spec.quoRem m x y` and
                      `Spec.quoRem m x' y'` are `same`
  * `quoRem_congr_num` : the same for `sameNum`
-/
import D128.Proofs.CohortArith
import D128.Proofs.QuoRemSpec
import Mathlib.Algebra.Order.Floor.Semifield
set_option autoImplicit false

namespace Cohort
open Spec

theorem quoRem_nf (m : Mode) (n n' : Bool) (c c' : Nat) (e e' : Int) (hc : c ≠ 0) (hc' : c' ≠ 0) :
    Spec.quoRem m (.fin n c e) (.fin n' c' e') =
      (QR.qv m (n != n') ⌊((c : ℚ) * (10 : ℚ) ^ e) / ((c' : ℚ) * (10 : ℚ) ^ e')⌋₊,
       exactOrInfS n (((c : ℚ) * (10 : ℚ) ^ e) -
          (⌊((c : ℚ) * (10 : ℚ) ^ e) / ((c' : ℚ) * (10 : ℚ) ^ e')⌋₊ : ℚ) * ((c' : ℚ) * (10 : ℚ) ^ e')) 0) := by
  rw [QR.spec_quoRem_fin m n n' c c' e e' hc hc']
  generalize hk : (if e ≤ e' then e else e') = k
  have hek : 0 ≤ e - k := by rw [← hk]; split <;> omega
  have hek' : 0 ≤ e' - k := by rw [← hk]; split <;> omega
  have h10 : (10 : ℚ) ≠ 0 := by norm_num
  have hP : (0 : ℚ) < (10 : ℚ) ^ k := zpow_pos (by norm_num) _
  generalize ha : c * 10 ^ (e - k).toNat = a
  generalize hb : c' * 10 ^ (e' - k).toNat = b
  have hA : (a : ℚ) * (10 : ℚ) ^ k = (c : ℚ) * (10 : ℚ) ^ e := by
    rw [← ha]; push_cast
    rw [← zpow_natCast, Int.toNat_of_nonneg hek, mul_assoc, ← zpow_add₀ h10]
    congr 2; ring
  have hB : (b : ℚ) * (10 : ℚ) ^ k = (c' : ℚ) * (10 : ℚ) ^ e' := by
    rw [← hb]; push_cast
    rw [← zpow_natCast, Int.toNat_of_nonneg hek', mul_assoc, ← zpow_add₀ h10]
    congr 2; ring
  have hb0 : b ≠ 0 := by
    rw [← hb]; exact Nat.mul_ne_zero hc' (by positivity)
  have hbq : (b : ℚ) ≠ 0 := by exact_mod_cast hb0
  have hdiv : ((c : ℚ) * (10 : ℚ) ^ e) / ((c' : ℚ) * (10 : ℚ) ^ e') = (a : ℚ) / (b : ℚ) := by
    rw [← hA, ← hB, mul_div_mul_right _ _ hP.ne']
  have hfl : ⌊((c : ℚ) * (10 : ℚ) ^ e) / ((c' : ℚ) * (10 : ℚ) ^ e')⌋₊ = a / b := by
    rw [hdiv, Nat.floor_div_eq_div]
  rw [hfl]
  congr 1
  have hmod : ((a % b : Nat) : ℚ) = (a : ℚ) - ((a / b : Nat) : ℚ) * (b : ℚ) := by
    have := Nat.mod_add_div a b
    have h2 : ((a % b : Nat) : ℚ) + (b : ℚ) * ((a / b : Nat) : ℚ) = (a : ℚ) := by exact_mod_cast this
    linarith
  rw [SpecRound.exactOrInfS_scale n _ (Nat.cast_nonneg _) k]
  congr 1
  rw [hmod, sub_mul, hA, mul_assoc, hB]

theorem quoRem_fin_congr (m : Mode) (n n' : Bool) (c c1 c' c1' : Nat) (e e1 e' e1' : Int)
    (h : (c : ℚ) * (10 : ℚ) ^ e = (c1 : ℚ) * (10 : ℚ) ^ e1)
    (h' : (c' : ℚ) * (10 : ℚ) ^ e' = (c1' : ℚ) * (10 : ℚ) ^ e1') :
    (Spec.quoRem m (.fin n c e) (.fin n' c' e')).1.same
        (Spec.quoRem m (.fin n c1 e1) (.fin n' c1' e1')).1 = true ∧
    (Spec.quoRem m (.fin n c e) (.fin n' c' e')).2.same
        (Spec.quoRem m (.fin n c1 e1) (.fin n' c1' e1')).2 = true := by
  have hi : invalid2 .quoRem (.fin n c e) (.fin n' c' e') =
      invalid2 .quoRem (.fin n c1 e1) (.fin n' c1' e1') :=
    invalid2_congr .quoRem (sameNum_of_same ((same_fin_iff _ _ _ _ _ _).2 ⟨rfl, h⟩))
      (sameNum_of_same ((same_fin_iff _ _ _ _ _ _).2 ⟨rfl, h'⟩))
  by_cases hc' : c' = 0
  · have hc1' : c1' = 0 := (zero_iff_of_mag h').1 hc'
    subst hc'; subst hc1'
    by_cases hc : c = 0
    · have hc1 : c1 = 0 := (zero_iff_of_mag h).1 hc
      subst hc; subst hc1
      simp only [Spec.quoRem, beq_self_eq_true, if_true]
      rw [hi]; exact ⟨same_refl _, same_refl _⟩
    · have hc1 : c1 ≠ 0 := fun h0 => hc ((zero_iff_of_mag h).2 h0)
      have hb : (c == 0) = false := by simpa using hc
      have hb1 : (c1 == 0) = false := by simpa using hc1
      simp only [Spec.quoRem, beq_self_eq_true, if_true, hb, hb1, Bool.false_eq_true, if_false]
      rw [hi]; exact ⟨same_refl _, same_refl _⟩
  · have hc1' : c1' ≠ 0 := fun h0 => hc' ((zero_iff_of_mag h').2 h0)
    have hb' : (c' == 0) = false := by simpa using hc'
    have hb1' : (c1' == 0) = false := by simpa using hc1'
    by_cases hc : c = 0
    · have hc1 : c1 = 0 := (zero_iff_of_mag h).1 hc
      subst hc; subst hc1
      simp only [Spec.quoRem, beq_self_eq_true, if_true, hb', hb1', Bool.false_eq_true, if_false]
      exact ⟨same_refl _, same_refl _⟩
    · have hc1 : c1 ≠ 0 := fun h0 => hc ((zero_iff_of_mag h).2 h0)
      rw [quoRem_nf m n n' c c' e e' hc hc', quoRem_nf m n n' c1 c1' e1 e1' hc1 hc1', h, h']
      exact ⟨same_refl _, same_refl _⟩

/-- **`Spec.quoRem` depends on the operand values only** (quotient and remainder). -/
theorem quoRem_congr (m : Mode) {x x' y y' : Val} (hx : x.same x' = true) (hy : y.same y' = true) :
    (Spec.quoRem m x y).1.same (Spec.quoRem m x' y').1 = true ∧
    (Spec.quoRem m x y).2.same (Spec.quoRem m x' y').2 = true := by
  have hi := invalid2_congr .quoRem (sameNum_of_same hx) (sameNum_of_same hy)
  rcases same_cases hx with ⟨n, p, rfl, rfl⟩ | ⟨n, rfl, rfl⟩ | ⟨n, c, e, c1, e1, rfl, rfl, hm⟩
  · exact ⟨same_refl _, same_refl _⟩
  · rcases same_cases hy with ⟨n', p', rfl, rfl⟩ | ⟨n', rfl, rfl⟩ |
      ⟨n', c', e', c1', e1', rfl, rfl, hm'⟩
    · exact ⟨same_refl _, same_refl _⟩
    · exact ⟨same_refl _, same_refl _⟩
    · simp only [Spec.quoRem]
      rw [hi]; exact ⟨same_refl _, same_refl _⟩
  · rcases same_cases hy with ⟨n', p', rfl, rfl⟩ | ⟨n', rfl, rfl⟩ |
      ⟨n', c', e', c1', e1', rfl, rfl, hm'⟩
    · exact ⟨same_refl _, same_refl _⟩
    · simp only [Spec.quoRem]
      exact ⟨same_refl _, (same_fin_iff _ _ _ _ _ _).2 ⟨rfl, hm⟩⟩
    · exact quoRem_fin_congr m n n' c c1 c' c1' e e1 e' e1' hm hm'

theorem quoRem_isNaN_left (m : Mode) (x y : Val) (h : x.isNaN = true) :
    (Spec.quoRem m x y).1.isNaN = true ∧ (Spec.quoRem m x y).2.isNaN = true := by
  cases x <;> simp_all [Val.isNaN, Spec.quoRem]

theorem quoRem_isNaN_right (m : Mode) (x y : Val) (h : y.isNaN = true) :
    (Spec.quoRem m x y).1.isNaN = true ∧ (Spec.quoRem m x y).2.isNaN = true := by
  cases x <;> cases y <;> simp_all [Val.isNaN, Spec.quoRem]

theorem quoRem_congr_num (m : Mode) {x x' y y' : Val} (hx : x.sameNum x' = true)
    (hy : y.sameNum y' = true) :
    (Spec.quoRem m x y).1.sameNum (Spec.quoRem m x' y').1 = true ∧
    (Spec.quoRem m x y).2.sameNum (Spec.quoRem m x' y').2 = true :=
  ⟨lift_num (fun a b => (Spec.quoRem m a b).1) (fun _ _ _ _ h1 h2 => (quoRem_congr m h1 h2).1)
      (fun a b h => (quoRem_isNaN_left m a b h).1) (fun a b h => (quoRem_isNaN_right m a b h).1) hx hy,
   lift_num (fun a b => (Spec.quoRem m a b).2) (fun _ _ _ _ h1 h2 => (quoRem_congr m h1 h2).2)
      (fun a b h => (quoRem_isNaN_left m a b h).2) (fun a b h => (quoRem_isNaN_right m a b h).2) hx hy⟩

end Cohort
