/-
  D128/Proofs/RoundKernel.lean — umbrella: the rounding kernel of /repo/rounding.go
  (`RoundingMode.round`, `reduce128`, `reduce192`, `reduce256`, `reduce64`) against the
  specification `Spec.roundToS` / `Spec.flushOrRoundS`.  All theorems are about the generated
  definitions `Gen.RoundingMode.*` and prove termination, absence of panics and the value.

  Modules
  * `RoundKernelSpec`        local characterisation of `Spec.splitAt/spacingExpRaw/roundAt/roundToS`
  * `RoundKernelTable`       the six-mode decision table against `Spec.roundsUp` (`RK.adjZ`, `RK.rndQ_kernel`)
  * `RoundKernelCode`        join-point free normal form of `round` (`RK.round_eq_loop`) and its evaluation
  * `RoundKernelRound`       **T1** `round_correct`
  * `RoundKernelReduceCode`  normal form of `reduce128` (`RK.reduce128_eq`), invariant rules for its loops
  * `RoundKernelReduceMath`  mathematics of digit dropping (`RK.KInv`, `RK.Entry`, …)
  * `RoundKernelReduce`      **T2** `reduce128_correct` (`RK.reduce_core`, `RK.phaseD_correct`)
  * `RoundKernelWideCode`    normal forms of `reduce192/256/64`, loop transport, wide loop rules
  * `RoundKernelWide`        **T3** `reduce192_correct`, `reduce256_correct`, `reduce64_correct`

  Main theorems (root namespace)
  * `round_correct`      : for a reachable kernel state `(sig, exp, trunc, digit)` denoting
                           `(sig + (digit+τ)/10)·10^(exp-6176)`: `round rm true neg …` returns `(sig', exp')`
                           with `exp' > 12287 → roundToS … = ±Inf`, otherwise `sig' ≤ Cmax`, `0 ≤ exp'` and
                           `(roundToS …).same (fin neg sig' (exp'-6176))`
  * `reduce128_correct`, `reduce192_correct`, `reduce256_correct` : the same for `(sig + τ)·10^(exp-6176)`
                           against `flushOrRoundS`
  * `reduce64_correct`   : the same for the exact `sig·10^(exp-6176)`, `sig : UInt64`
-/
import D128.Proofs.RoundKernelWide
