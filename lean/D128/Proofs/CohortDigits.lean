/-
  D128/Proofs/CohortDigits.lean — the digit slice that every text form is made from (`Spec.sliceOf`,
  property C06) depends on the magnitude only: all members of a cohort print the same digit string with
  the same decimal-point position (property C19, first clause, "formatting").

  * `natDigits_mul_pow`  : `natDigits (c·10^j) = natDigits c ++ replicate j 0`  (c ≠ 0)
  * `strip_zeros_append` : `stripTrailingZeros (L ++ replicate j 0) = stripTrailingZeros L`
  * `sliceOf_mul_pow`    : `sliceOf (c·10^j) e = sliceOf c (e + j)`
  * `sliceOf_congr`      : `c·10^e = c'·10^e'` (ℚ) → `sliceOf c e = sliceOf c' e'`
  * `sliceOf_same`       : the same from `(.fin n c e).same (.fin n' c' e')`
-/
import D128.Proofs.CohortBase
import D128.Proofs.Digits
import D128.Proofs.CanonEq
set_option autoImplicit false

namespace Cohort
open Spec

theorem natDigits_mul_pow (c j : Nat) (hc : c ≠ 0) :
    Spec.natDigits (c * 10 ^ j) = Spec.natDigits c ++ List.replicate j 0 := by
  induction j with
  | zero => simp
  | succ j ih =>
    have hpos : 0 < c * 10 ^ j := Nat.mul_pos (Nat.pos_of_ne_zero hc) (by positivity)
    have e0 : c * 10 ^ (j + 1) = c * 10 ^ j * 10 := by rw [Nat.pow_succ, Nat.mul_assoc]
    rw [e0, Dg.natDigits_ge _ (by omega)]
    have e1 : c * 10 ^ j * 10 / 10 = c * 10 ^ j := by omega
    have e2 : c * 10 ^ j * 10 % 10 = 0 := by omega
    rw [e1, e2, ih, List.append_assoc, List.replicate_succ']

theorem strip_zeros_append (L : List Nat) (j : Nat) :
    Spec.stripTrailingZeros (L ++ List.replicate j 0) = Spec.stripTrailingZeros L := by
  unfold Spec.stripTrailingZeros
  rw [List.reverse_append, List.reverse_replicate]
  congr 1
  induction j with
  | zero => rfl
  | succ j ih => rw [List.replicate_succ, List.cons_append, List.dropWhile_cons_of_pos (by rfl), ih]

theorem sliceOf_mul_pow (c j : Nat) (e : Int) :
    Spec.sliceOf (c * 10 ^ j) e = Spec.sliceOf c (e + j) := by
  by_cases hc : c = 0
  · subst hc; simp [Spec.sliceOf]
  · have hc' : c * 10 ^ j ≠ 0 := Nat.mul_ne_zero hc (by positivity)
    unfold Spec.sliceOf
    simp only [beq_iff_eq, hc, hc', if_false, natDigits_mul_pow c j hc, strip_zeros_append,
      List.length_append, List.length_replicate]
    congr 1
    push_cast; ring

/-- **The digit slice depends on the magnitude only.** -/
theorem sliceOf_congr {c c' : Nat} {e e' : Int}
    (h : (c : ℚ) * (10 : ℚ) ^ e = (c' : ℚ) * (10 : ℚ) ^ e') :
    Spec.sliceOf c e = Spec.sliceOf c' e' := by
  have hm : Spec.mag c e = Spec.mag c' e' := by
    simp only [Spec.mag, SpecRound.pow10_eq_zpow]; exact h
  have hv := (CanonPf.mag_eq_iff c c' e e').1 hm
  by_cases hle : e' ≤ e
  · have h0 : (e' - e).toNat = 0 := by omega
    rw [h0, Nat.pow_zero, Nat.mul_one] at hv
    rw [← hv, sliceOf_mul_pow]
    congr 1
    omega
  · have h0 : (e - e').toNat = 0 := by omega
    rw [h0, Nat.pow_zero, Nat.mul_one] at hv
    rw [hv, sliceOf_mul_pow]
    congr 1
    omega

theorem sliceOf_same {n n' : Bool} {c c' : Nat} {e e' : Int}
    (h : (Val.fin n c e).same (.fin n' c' e') = true) : Spec.sliceOf c e = Spec.sliceOf c' e' :=
  sliceOf_congr ((same_fin_iff _ _ _ _ _ _).1 h).2

end Cohort
