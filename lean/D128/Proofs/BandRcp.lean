/-
  D128/Proofs/BandRcp.lean — a sharper contract of `decomposed192.rcp` for divisors below `100·2^185 ≈ 4.9·10^57`
  (in particular every 58-digit significand with leading digits below 49, e.g. a value in [1, 4.9) at exponent −57).

  `D192.rcp_contract` describes the divisor actually used as `d' ≤ val d ≤ d'·(1 + 2^-185)` (one OR two low digits
  dropped).  For `d.sig < 100·2^185` the loop `for d.sig[2] >= 0x18ff_ffff_ffff_ffff { d.sig = d.sig.div10() }` runs
  at most ONCE, hence only one digit is dropped: `d' ≤ val d ≤ d' + 9·ulp d`.

  Provided (namespace `D192`):
  * `trunc_val9`         : dropping at most one digit loses at most 9 units
  * `rcp_contract_sharp` : `rcp_contract` with `val d ≤ d' + 9·ulp d` instead of the relative bound
  * `exp_le_of_LIM`      : a significand `≥ LIM = 25·2^184` and a value below 1 force the exponent down to −57
  * `rcp_lower_abs`      : for a result below 1: `1/d' − 10^-57 ≤ val r`
  * `exp_ge_m57`         : a value of at least 7/10 has exponent `≥ −57`
  * `sub1_exact`         : `sub1` of a non-zero value below 1 with exponent in `[-57, 0]` is EXACT: `val res = 1 − val r`
-/
import D128.Proofs.D192QuoContract
import D128.Proofs.D192OneSubContract
set_option autoImplicit false
set_option maxRecDepth 4096
set_option exponentiation.threshold 512
set_option linter.unusedVariables false
open D128.Proofs.WordsWide

namespace D192

/-- dropping at most one low digit loses at most 9 units -/
theorem trunc_val9 (P b : Nat) (E : Int) (hb : b ≤ 1) :
    (P : ℚ) * (10 : ℚ) ^ E ≤ ((P / 10 ^ b : Nat) : ℚ) * (10 : ℚ) ^ (E + b) + 9 * (10 : ℚ) ^ E := by
  have hE : (0 : ℚ) < (10 : ℚ) ^ E := zpow_pos (by norm_num) _
  rcases Nat.le_one_iff_eq_zero_or_eq_one.mp hb with rfl | rfl
  · simp only [pow_zero, Nat.div_one, Nat.cast_zero, add_zero]
    linarith
  · have hdm : (P : ℚ) = ((P / 10 ^ 1 : Nat) : ℚ) * 10 + ((P % 10 ^ 1 : Nat) : ℚ) := by
      have := Nat.div_add_mod P (10 ^ 1)
      have h2 : ((10 ^ 1 * (P / 10 ^ 1) + P % 10 ^ 1 : Nat) : ℚ) = (P : ℚ) := by rw [this]
      push_cast at h2
      push_cast
      linarith
    have hr : ((P % 10 ^ 1 : Nat) : ℚ) ≤ 9 := by
      have : P % 10 ^ 1 ≤ 9 := by have := Nat.mod_lt P (show 0 < 10 ^ 1 by norm_num); omega
      exact_mod_cast this
    have hsplit : (10 : ℚ) ^ (E + (1 : ℕ)) = (10 : ℚ) ^ E * 10 := by
      rw [zpow_add₀ (by norm_num)]; norm_num
    rw [hsplit]
    generalize ((P / 10 ^ 1 : Nat) : ℚ) = s at *
    generalize ((P % 10 ^ 1 : Nat) : ℚ) = R at *
    rw [hdm]
    nlinarith

/-- `decomposed192.rcp`, rational contract for a divisor significand below `100·2^185` (`d.sig ≠ 0`, exponent
within ±16000): the operand `d'` actually inverted is `d` with AT MOST ONE low digit dropped
(`d' ≤ val d ≤ d' + 9·ulp d`); the result is `1 / d'` truncated toward zero at the result's own unit. -/
theorem rcp_contract_sharp (d : Gen.decomposed192) (t : Int8) (hd : d.sig.toNat ≠ 0)
    (hde : -16000 ≤ d.exp.toInt ∧ d.exp.toInt ≤ 16000) (hsz : d.sig.toNat < 100 * 2 ^ 185) :
    ∃ (r : Gen.decomposed192) (t' : Int8) (d' : ℚ), Gen.decomposed192.rcp d t = .ok (r, t') ∧
      0 < d' ∧ d' ≤ val d ∧ val d ≤ d' + 9 * ulp d ∧
      val r ≤ 1 / d' ∧ 1 / d' < val r + ulp r ∧
      ((val r = 1 / d' ∧ d' = val d) → t' = t) ∧
      (¬ (val r = 1 / d' ∧ d' = val d) → t' = 1) ∧
      (val r = 1 / d' ∨ LIM ≤ r.sig.toNat) ∧ 1 ≤ r.sig.toNat ∧
      -57 - d.exp.toInt - 61 ≤ r.exp.toInt ∧ r.exp.toInt ≤ -57 - d.exp.toInt + 1 := by
  obtain ⟨⟨r, t'⟩, hr, o1, hfin, ⟨htr, hoL⟩, ho1⟩ := rcp_ok d t hd
  obtain ⟨b, hb, hos, hoexp, hot, hob⟩ := htr.bounds (U192.toNat_lt _)
  -- only one digit can have been dropped
  have hb1 : b ≤ 1 := by
    rcases hob with h | ⟨h, -⟩
    · omega
    · by_contra hc
      have hb2 : b = 2 := by omega
      subst hb2
      have : d.sig.toNat / 10 ^ 2 < 2 ^ 185 := by
        rw [Nat.div_lt_iff_lt_mul (by norm_num)]; omega
      omega
  have hkb : (Int16.ofNat b).toInt = b := Int16.toInt_ofNat_of_lt (by omega)
  have hoe' : o1.1.exp.toInt = d.exp.toInt + b := by
    rw [hoexp, Int16.toInt_add_of] <;> rw [hkb] <;> omega
  have h57 : (-57 : Int16).toInt = -57 := by decide
  have he0 : (-57 - o1.1.exp).toInt = -57 - (d.exp.toInt + b) := by
    rw [Int16.toInt_sub_of] <;> rw [h57, hoe'] <;> omega
  have hOnpos : 0 < o1.1.sig.toNat := Nat.pos_of_ne_zero ho1
  obtain ⟨c1, c2, c3, c4, c5, c6, c7, c8⟩ := hfin.contract hOnpos (by unfold LIM; norm_num)
    (U192.toNat_lt _) (by rw [he0]; omega) (by rw [he0]; omega)
  dsimp only at c1 c2 c3 c4 c5 c6 c7 c8
  obtain ⟨u1, u2, u3⟩ := trunc_val d.sig.toNat b d.exp.toInt
  have hE2 : (0 : ℚ) < (10 : ℚ) ^ (d.exp.toInt + b) := zpow_pos (by norm_num) _
  have hOq : (0 : ℚ) < ((d.sig.toNat / 10 ^ b : Nat) : ℚ) := by
    rw [← hos]; exact_mod_cast hOnpos
  have ho'pos : (0 : ℚ) < ((d.sig.toNat / 10 ^ b : Nat) : ℚ) * (10 : ℚ) ^ (d.exp.toInt + b) :=
    mul_pos hOq hE2
  have hX : ((10 ^ 57 : Nat) : ℚ) / o1.1.sig.toNat * (10 : ℚ) ^ (-57 - o1.1.exp).toInt
      = 1 / (((d.sig.toNat / 10 ^ b : Nat) : ℚ) * (10 : ℚ) ^ (d.exp.toInt + b)) := by
    rw [he0, hos]
    have e1 : (10 : ℚ) ^ (-57 - (d.exp.toInt + b))
        = ((10 : ℚ) ^ 57)⁻¹ * ((10 : ℚ) ^ (d.exp.toInt + b))⁻¹ := by
      rw [zpow_sub₀ (by norm_num), zpow_neg]
      rfl
    rw [e1]
    push_cast
    field_simp
    norm_num
  rw [hX] at c1 c2 c3 c4 c5
  rw [he0] at c6 c7
  have h9 := trunc_val9 d.sig.toNat b d.exp.toInt hb1
  refine ⟨r, t', _, hr, ho'pos, u1, ?_, c1, c2, ?_, ?_, c5, c8, by omega, by omega⟩
  · unfold val ulp; exact h9
  · rintro ⟨h1, h2⟩
    rw [c3 h1, hot, if_pos (u3.mp h2)]
  · intro hn
    by_cases h1 : val r = 1 / (((d.sig.toNat / 10 ^ b : Nat) : ℚ) * (10 : ℚ) ^ (d.exp.toInt + b))
    · have h2 : ¬ (((d.sig.toNat / 10 ^ b : Nat) : ℚ) * (10 : ℚ) ^ (d.exp.toInt + b) = val d) :=
        fun h2 => hn ⟨h1, h2⟩
      rw [c3 h1, hot, if_neg (fun h => h2 (u3.mpr h))]
    · exact c4 h1

/-- a significand of at least `LIM = 25·2^184 ≈ 6.13·10^56` and a value below 1 force the exponent down to −57 -/
theorem exp_le_of_LIM (r : Gen.decomposed192) (h : LIM ≤ r.sig.toNat) (hv : val r < 1) :
    r.exp.toInt ≤ -57 := by
  by_contra hc
  have hge : (-56 : Int) ≤ r.exp.toInt := by omega
  have hp : (10 : ℚ) ^ (-56 : Int) ≤ (10 : ℚ) ^ r.exp.toInt := zpow_le_zpow_right₀ (by norm_num) hge
  have hs : ((LIM : Nat) : ℚ) ≤ (r.sig.toNat : ℚ) := by exact_mod_cast h
  have : ((LIM : Nat) : ℚ) * (10 : ℚ) ^ (-56 : Int) ≤ val r := by
    unfold val
    exact mul_le_mul hs hp (by positivity) (by positivity)
  have h2 : (1 : ℚ) < ((LIM : Nat) : ℚ) * (10 : ℚ) ^ (-56 : Int) := by
    unfold LIM; rw [zpow_neg]; norm_num
  linarith

/-- the reciprocal of a value above 1 is within `10^-57` of the exact quotient -/
theorem rcp_lower_abs (r : Gen.decomposed192) (X : ℚ) (h1 : val r ≤ X) (h2 : X < val r + ulp r)
    (h3 : val r = X ∨ LIM ≤ r.sig.toNat) (hlt : val r < 1) : X - 1 / 10 ^ 57 ≤ val r := by
  rcases h3 with h3 | h3
  · rw [h3]; have : (0 : ℚ) ≤ 1 / 10 ^ 57 := by positivity
    linarith
  · have he := exp_le_of_LIM r h3 hlt
    have : ulp r ≤ 1 / 10 ^ 57 := by
      unfold ulp
      calc (10 : ℚ) ^ r.exp.toInt ≤ (10 : ℚ) ^ (-57 : Int) := zpow_le_zpow_right₀ (by norm_num) he
        _ = 1 / 10 ^ 57 := by rw [zpow_neg]; norm_num
    linarith

/-- a value of at least `7/10` has exponent `≥ −57` (the significand is below `2^192 < 6.3·10^57`) -/
theorem exp_ge_m57 (r : Gen.decomposed192) (hv : 7 / 10 ≤ val r) : -57 ≤ r.exp.toInt := by
  by_contra hc
  have hle : r.exp.toInt ≤ (-58 : Int) := by omega
  have hp : (10 : ℚ) ^ r.exp.toInt ≤ (10 : ℚ) ^ (-58 : Int) := zpow_le_zpow_right₀ (by norm_num) hle
  have hs : (r.sig.toNat : ℚ) ≤ ((2 ^ 192 : Nat) : ℚ) := by
    have := U192.toNat_lt r.sig
    exact_mod_cast this.le
  have : val r ≤ ((2 ^ 192 : Nat) : ℚ) * (10 : ℚ) ^ (-58 : Int) := by
    unfold val
    exact mul_le_mul hs hp (zpow_pos (by norm_num) _).le (by positivity)
  have h2 : ((2 ^ 192 : Nat) : ℚ) * (10 : ℚ) ^ (-58 : Int) < 7 / 10 := by
    rw [zpow_neg]; norm_num
  exact absurd (lt_of_le_of_lt this h2) (not_lt.2 hv)

/-- `sub1` of a non-zero value below 1 whose exponent is in `[-57, 0]` drops no digit: the result is exactly
`1 − val r` -/
theorem sub1_exact (r : Gen.decomposed192) (t : Int8) (hs : 0 < r.sig.toNat) (h0 : -57 ≤ r.exp.toInt)
    (h1 : r.exp.toInt ≤ 0) (hlt : val r < 1) (neg : Bool) (res : Gen.decomposed192) (t' : Int8)
    (hr : Gen.decomposed192.sub1 r t = .ok (neg, res, t')) : val res = 1 - val r := by
  obtain ⟨neg', res', t'', hr', hp⟩ := sub1_spec r t
  rw [hr] at hr'
  obtain ⟨rfl, rfl, rfl⟩ : neg = neg' ∧ res = res' ∧ t' = t'' := by
    have := Except.ok.inj hr'
    simp only [Prod.mk.injEq] at this
    exact this
  rcases hp with ⟨hz, -⟩ | ⟨-, he, -⟩ | ⟨-, he, -⟩ | ⟨-, -, -, hE | hD⟩ | ⟨-, he, -⟩
  · omega
  · omega
  · omega
  · obtain ⟨-, j, hj, hje⟩ := hE
    have hj0 : j = 0 := by omega
    subst hj0
    simp at hj
    omega
  · obtain ⟨k, hk, hlo, hhi, hk0, hpos, hge, hltc⟩ := hD
    dsimp only at hk hlo hhi hk0 hge hltc
    have hk00 : k = 0 := by omega
    subst hk00
    simp only [pow_zero, Nat.div_one] at hge hltc
    have hexp : res.exp.toInt = r.exp.toInt := by omega
    obtain ⟨n, hn⟩ : ∃ n : Nat, -res.exp.toInt = n := ⟨(-res.exp.toInt).toNat, by omega⟩
    have hnn : (-res.exp.toInt).toNat = n := by omega
    rw [hnn] at hge hltc
    have hone : ((10 ^ n : Nat) : ℚ) * (10 : ℚ) ^ r.exp.toInt = 1 := by
      have : r.exp.toInt = -(n : Int) := by omega
      rw [this, zpow_neg, zpow_natCast]
      push_cast
      exact mul_inv_cancel₀ (by positivity)
    have hp : (0 : ℚ) < (10 : ℚ) ^ r.exp.toInt := zpow_pos (by norm_num) _
    rcases Nat.lt_or_ge r.sig.toNat (10 ^ n) with hc | hc
    · obtain ⟨-, hsig, -⟩ := hltc hc
      unfold val
      rw [hsig, hexp, Nat.cast_sub hc.le, sub_mul, hone]
    · exfalso
      have : ((10 ^ n : Nat) : ℚ) ≤ (r.sig.toNat : ℚ) := by exact_mod_cast hc
      have h2 : ((10 ^ n : Nat) : ℚ) * (10 : ℚ) ^ r.exp.toInt ≤ val r := by
        unfold val; exact mul_le_mul_of_nonneg_right this hp.le
      rw [hone] at h2
      exact absurd hlt (not_lt.2 h2)
  · omega

/-- the hypotheses are satisfiable: `1.000…01·10^0` as a 58-digit significand -/
example := rcp_contract_sharp ⟨⟨0x4a00000000000001, 0xebfdcb54864ada83, 0x28c87cb5c89a2571⟩, -57⟩ 0
  (by decide) (by decide) (by decide)

end D192
