/-
  D128/Proofs/QuoRemSpecCor.lean — what `Spec.quoRem` says about finite operands, in terms of rational
  numbers (used for the corollaries of property C03).

  Provided (namespace `QR`):
  * `truncQuo x y`     : the exact quotient `x / y` truncated toward zero, as a signed rational
  * `scaled_eq`        : `c·10^(e-k)·10^k = c·10^e` for `k ≤ e`
  * `spec_rem_exact`   : finite `x`, finite non-zero `y` (members of the format): the remainder of
                         `Spec.quoRem m x y` is finite, has the sign of `x`, equals
                         `x - y·truncQuo x y` exactly and is smaller than `y` in magnitude
  * `spec_quo_exact`   : a truncated quotient of at most `Cmax` is returned exactly, in every mode
  * `spec_small`       : `|x| < |y|`: the quotient is the zero with the xor of the signs and the
                         remainder is `x`
  * `same_fin_facts`   : a value `same` as a finite one is finite with the same sign, magnitude and
                         rational value
-/
import D128.Proofs.QuoRemSpec
import Mathlib.Algebra.Order.Floor.Semifield

set_option autoImplicit false

namespace QR
open Spec SpecRound

/-- the exact quotient truncated toward zero -/
def truncQuo (x y : Val) : Rat :=
  if x.neg != y.neg then -((Spec.truncNat (x.abs / y.abs) : Nat) : Rat)
  else ((Spec.truncNat (x.abs / y.abs) : Nat) : Rat)

theorem scaled_eq (c : Nat) (e k : Int) (h : k ≤ e) :
    ((c * 10 ^ (e - k).toNat : Nat) : Rat) * (10 : Rat) ^ k = (c : Rat) * (10 : Rat) ^ e := by
  have : e = ((e - k).toNat : Int) + k := by rw [Int.toNat_of_nonneg (by omega)]; ring
  conv_rhs => rw [this, zpow_add₀ (by norm_num : (10 : Rat) ≠ 0), zpow_natCast]
  push_cast; ring

theorem same_fin_facts {v : Val} {n : Bool} {c : Nat} {e : Int} (h : v.same (.fin n c e) = true) :
    v.isFin = true ∧ v.neg = n ∧ v.abs = (Val.fin n c e).abs ∧ v.toRat = (Val.fin n c e).toRat := by
  cases v with
  | nan a b => simp [Val.same] at h
  | inf a => simp [Val.same] at h
  | fin n2 c2 e2 =>
    simp only [Val.same, Bool.and_eq_true, beq_iff_eq] at h
    obtain ⟨h1, h2⟩ := h
    subst h1
    simp [Val.isFin, Val.neg, Val.abs, Val.toRat, h2]

/-- the remainder clause of `Spec.quoRem` is a finite value with the scaled remainder as magnitude -/
theorem spec_rem_fin (n : Bool) (r : Nat) (k : Int) (hr : r ≤ Spec.Cmax) (hk1 : Spec.Emin ≤ k)
    (hk2 : k ≤ Spec.Emax) :
    ∃ cr er, Spec.exactOrInfS n (r : Rat) k = .fin n cr er ∧
      (cr : Rat) * (10 : Rat) ^ er = (r : Rat) * (10 : Rat) ^ k := by
  rcases Nat.eq_zero_or_pos r with h0 | hpos
  · subst h0
    exact ⟨0, 0, by simp [Spec.exactOrInfS], by simp⟩
  · have hrq : (0 : Rat) < (r : Rat) := by exact_mod_cast hpos
    have hp : (0 : Rat) < (r : Rat) * (10 : Rat) ^ k := mul_pos hrq (zpow_pos (by norm_num) _)
    rw [exactOrInfS_scale n _ hrq.le k]
    obtain ⟨c2, e2, hx, hv2, -⟩ := exactOrInf_of_member n hp ⟨r, k, hr, hk1, hk2, rfl⟩
    exact ⟨c2, e2, hx, hv2⟩

theorem spec_rem_exact (m : Mode) (n n' : Bool) (c c' : Nat) (e e' : Int) (hc'0 : c' ≠ 0)
    (hc : c ≤ Spec.Cmax) (hc' : c' ≤ Spec.Cmax) (he1 : Spec.Emin ≤ e) (he2 : e ≤ Spec.Emax)
    (he1' : Spec.Emin ≤ e') :
    ∃ cr er, (Spec.quoRem m (.fin n c e) (.fin n' c' e')).2 = .fin n cr er ∧
      (Val.fin n cr er).toRat =
        (Val.fin n c e).toRat - (Val.fin n' c' e').toRat * truncQuo (.fin n c e) (.fin n' c' e') ∧
      (Val.fin n cr er).abs < (Val.fin n' c' e').abs := by
  have hpe' : (0 : Rat) < (10 : Rat) ^ e' := zpow_pos (by norm_num) _
  have hc'q : (0 : Rat) < (c' : Rat) := by exact_mod_cast Nat.pos_of_ne_zero hc'0
  have hypos : (0 : Rat) < (c' : Rat) * (10 : Rat) ^ e' := mul_pos hc'q hpe'
  rcases Nat.eq_zero_or_pos c with h0 | hcpos
  · -- zero dividend
    subst h0
    have h2 : (c' == 0) = false := by simpa using hc'0
    refine ⟨0, 0, by simp [Spec.quoRem, h2], ?_, ?_⟩
    · simp [Val.toRat, Spec.mag, truncQuo, Val.abs, Spec.truncNat, floorNat_eq]
    · simp only [Val.abs, Spec.mag, pow10_eq_zpow, Nat.cast_zero, zero_mul]
      exact hypos
  · have hc0 : c ≠ 0 := by omega
    rw [spec_quoRem_fin m n n' c c' e e' hc0 hc'0]
    generalize hk : (if e ≤ e' then e else e') = k
    have hke : k ≤ e := by rw [← hk]; split <;> omega
    have hke' : k ≤ e' := by rw [← hk]; split <;> omega
    have hkmin : Spec.Emin ≤ k := by rw [← hk]; split <;> omega
    have hkmax : k ≤ Spec.Emax := by omega
    generalize ha : c * 10 ^ (e - k).toNat = a
    generalize hb : c' * 10 ^ (e' - k).toNat = b
    have hA : (a : Rat) * (10 : Rat) ^ k = (c : Rat) * (10 : Rat) ^ e := by
      rw [← ha]; exact scaled_eq c e k hke
    have hB : (b : Rat) * (10 : Rat) ^ k = (c' : Rat) * (10 : Rat) ^ e' := by
      rw [← hb]; exact scaled_eq c' e' k hke'
    have hbpos : 0 < b := by
      rw [← hb]; exact Nat.mul_pos (Nat.pos_of_ne_zero hc'0) (Nat.pow_pos (by norm_num))
    have hpk : (0 : Rat) < (10 : Rat) ^ k := zpow_pos (by norm_num) _
    -- the remainder is at most Cmax
    have hrC : a % b ≤ Spec.Cmax := by
      by_cases h : e ≤ e'
      · have : k = e := by rw [← hk, if_pos h]
        have ha' : a = c := by rw [← ha, this]; simp
        rw [ha']; exact le_trans (Nat.mod_le _ _) hc
      · have : k = e' := by rw [← hk, if_neg h]
        have hb' : b = c' := by rw [← hb, this]; simp
        have := Nat.mod_lt a hbpos
        omega
    obtain ⟨cr, er, hfin, hval⟩ := spec_rem_fin n (a % b) k hrC hkmin hkmax
    refine ⟨cr, er, hfin, ?_, ?_⟩
    · -- exact value
      have hdm : ((a / b : Nat) : Rat) * (b : Rat) + ((a % b : Nat) : Rat) = (a : Rat) := by
        have := Nat.div_add_mod a b
        have h2 : ((b * (a / b) + a % b : Nat) : Rat) = (a : Rat) := by rw [this]
        push_cast at h2; linarith
      have hfl : Spec.truncNat ((Val.fin n c e).abs / (Val.fin n' c' e').abs) = a / b := by
        simp only [Val.abs, Spec.mag, pow10_eq_zpow, Spec.truncNat, floorNat_eq]
        rw [← hA, ← hB, mul_div_mul_right _ _ hpk.ne', Nat.floor_div_eq_div]
      simp only [truncQuo, hfl, Val.neg, Val.toRat, Spec.mag, pow10_eq_zpow]
      rw [hval, ← hA, ← hB]
      have hr' : ((a % b : Nat) : Rat) = (a : Rat) - ((a / b : Nat) : Rat) * (b : Rat) := by linarith
      rw [hr']
      cases n <;> cases n' <;> simp <;> ring
    · -- smaller than the divisor
      simp only [Val.abs, Spec.mag, pow10_eq_zpow]
      rw [hval, ← hB]
      apply mul_lt_mul_of_pos_right _ hpk
      exact_mod_cast Nat.mod_lt a hbpos

theorem spec_small (m : Mode) (n n' : Bool) (c c' : Nat) (e e' : Int) (hc0 : c ≠ 0)
    (hc : c ≤ Spec.Cmax) (he1 : Spec.Emin ≤ e) (he2 : e ≤ Spec.Emax)
    (hlt : (Val.fin n c e).abs < (Val.fin n' c' e').abs) :
    (Spec.quoRem m (.fin n c e) (.fin n' c' e')).1 = .fin (n != n') 0 0 ∧
    (Val.fin n c e).same (Spec.quoRem m (.fin n c e) (.fin n' c' e')).2 = true := by
  have hc'0 : c' ≠ 0 := by
    rintro rfl
    simp only [Val.abs, Spec.mag, Nat.cast_zero, zero_mul] at hlt
    have : (0 : Rat) ≤ (c : Rat) * Spec.pow10 e :=
      mul_nonneg (Nat.cast_nonneg _) (pow10_pos e).le
    linarith
  rw [spec_quoRem_fin m n n' c c' e e' hc0 hc'0]
  generalize hk : (if e ≤ e' then e else e') = k
  have hke : k ≤ e := by rw [← hk]; split <;> omega
  have hke' : k ≤ e' := by rw [← hk]; split <;> omega
  generalize ha : c * 10 ^ (e - k).toNat = a
  generalize hb : c' * 10 ^ (e' - k).toNat = b
  have hA : (a : Rat) * (10 : Rat) ^ k = (c : Rat) * (10 : Rat) ^ e := by
    rw [← ha]; exact scaled_eq c e k hke
  have hB : (b : Rat) * (10 : Rat) ^ k = (c' : Rat) * (10 : Rat) ^ e' := by
    rw [← hb]; exact scaled_eq c' e' k hke'
  have hpk : (0 : Rat) < (10 : Rat) ^ k := zpow_pos (by norm_num) _
  have hab : a < b := by
    simp only [Val.abs, Spec.mag, pow10_eq_zpow] at hlt
    rw [← hA, ← hB] at hlt
    have := lt_of_mul_lt_mul_right hlt hpk.le
    exact_mod_cast this
  rw [Nat.div_eq_of_lt hab, Nat.mod_eq_of_lt hab]
  refine ⟨by simp [qv], ?_⟩
  have h1 : Spec.exactOrInfS n (a : Rat) k = Spec.exactOrInfS n (c : Rat) e := by
    rw [exactOrInfS_scale n _ (Nat.cast_nonneg _) k, exactOrInfS_scale n (c : Rat) (Nat.cast_nonneg _) e,
      hA]
  rw [h1]
  exact exact_member_same n c e hc he1 he2

/-- when the truncated quotient fits the coefficient range it is returned exactly (every mode) -/
theorem spec_quo_exact (m : Mode) (n n' : Bool) (c c' : Nat) (e e' : Int) (hc'0 : c' ≠ 0)
    (ht : Spec.truncNat ((Val.fin n c e).abs / (Val.fin n' c' e').abs) ≤ Spec.Cmax) :
    ∃ cq eq, (Spec.quoRem m (.fin n c e) (.fin n' c' e')).1 = .fin (n != n') cq eq ∧
      (Val.fin (n != n') cq eq).toRat = truncQuo (.fin n c e) (.fin n' c' e') := by
  rcases Nat.eq_zero_or_pos c with h0 | hcpos
  · subst h0
    have h2 : (c' == 0) = false := by simpa using hc'0
    refine ⟨0, 0, by simp [Spec.quoRem, h2], ?_⟩
    simp [Val.toRat, Spec.mag, truncQuo, Val.abs, Spec.truncNat, floorNat_eq]
  · have hc0 : c ≠ 0 := by omega
    rw [spec_quoRem_fin m n n' c c' e e' hc0 hc'0]
    generalize hk : (if e ≤ e' then e else e') = k
    have hke : k ≤ e := by rw [← hk]; split <;> omega
    have hke' : k ≤ e' := by rw [← hk]; split <;> omega
    generalize ha : c * 10 ^ (e - k).toNat = a
    generalize hb : c' * 10 ^ (e' - k).toNat = b
    have hA : (a : Rat) * (10 : Rat) ^ k = (c : Rat) * (10 : Rat) ^ e := by
      rw [← ha]; exact scaled_eq c e k hke
    have hB : (b : Rat) * (10 : Rat) ^ k = (c' : Rat) * (10 : Rat) ^ e' := by
      rw [← hb]; exact scaled_eq c' e' k hke'
    have hpk : (0 : Rat) < (10 : Rat) ^ k := zpow_pos (by norm_num) _
    have hfl : Spec.truncNat ((Val.fin n c e).abs / (Val.fin n' c' e').abs) = a / b := by
      simp only [Val.abs, Spec.mag, pow10_eq_zpow, Spec.truncNat, floorNat_eq]
      rw [← hA, ← hB, mul_div_mul_right _ _ hpk.ne', Nat.floor_div_eq_div]
    rw [hfl] at ht
    simp only [truncQuo, hfl, Val.neg]
    generalize a / b = t at *
    rcases Nat.eq_zero_or_pos t with ht0 | htpos
    · subst ht0
      refine ⟨0, 0, by simp [qv], ?_⟩
      simp [Val.toRat, Spec.mag]
    · have htq : (0 : Rat) < (t : Rat) := by exact_mod_cast htpos
      have hm : Member (t : Rat) :=
        ⟨t, 0, ht, by unfold Spec.Emin; omega, by unfold Spec.Emax; omega, by simp⟩
      obtain ⟨c2, e2, hx2, hv2, -⟩ := exactOrInf_of_member (n != n') htq hm
      have ht0 : (t == 0) = false := by simpa using (Nat.pos_iff_ne_zero.1 htpos)
      refine ⟨c2, e2, ?_, ?_⟩
      · simp only [qv, ht0, Bool.false_eq_true, if_false, if_pos ((isMember_iff htq.le).2 hm)]
        exact hx2
      · simp only [Val.toRat, Spec.mag, pow10_eq_zpow, hv2]

end QR
