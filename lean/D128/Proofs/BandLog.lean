/-
  D128/Proofs/BandLog.lean — property C16, `Log`/`Log2`/`Log10` just below 1: the proved band is widened from
  `X ≤ 1 − 7.5·10^-22` to `X ≤ 1 − 2.1·10^-22`.

  For `X ∈ [0.99, 1)` the library computes `ln X = 2·artanh(..) + ln 9.9 − ln 10` (recorded finding
  `log-just-below-one-cancellation`).  The absolute error of the working value is
      `1/2 + 1/2`  (the table constants `ln 10`, `ln 9.9`)  `+ 2 + 217·S`  (first reduction `10X/9.9`, quotient, series,
      `S ≤ 1.01/198`)  `+ 2`  (the two final subtractions, `LogAcc.logTail_m1`; the relative bound of
      `LogAcc.logTail_spec` gives `19.6` here)  `+ lam·2R`,
  together `≤ 6.9·10^-57` (`LogAcc.errLog` gives `2.5·10^-56`), against `|ln X|/(3·10^34) ≥ (1−X)/(3·10^34)`.

  Provided (namespace `LogAcc`):
  * `log_near_one`      : `0.99 ≤ X < 1`: `log a = .ok (true, x, t)`, `|val x − |ln X|| ≤ 6.9·10^-57`
  * `log_rel_close21`   : `LogAcc.log_rel_close` for `1 + 10^-60 ≤ X` or `X ≤ 1 − 2.1·10^-22`
  * `scaled_accurate21`, `log_accurate21`, `log2_accurate21`, `log10_accurate21` : the accuracy theorems with that band
-/
import D128.Proofs.BandLogTail
import D128.Proofs.LogAccTop
set_option autoImplicit false
set_option maxRecDepth 4096
set_option linter.unusedVariables false
namespace LogAcc
open Gen D192 Root
local notation "𝔳[" d "]" => Spec.interp (Gen.Decimal.lo d) (Gen.Decimal.hi d)

/-- the final real-number assembly for an argument in `[0.99, 1)` -/
theorem near_one_total (S T R l10 lM L10 LM Lq x : ℝ) (lamr : ℝ) (hlam0 : 0 ≤ lamr)
    (hlam : lamr ≤ 1 / (6 * 10 ^ 56))
    (hR0 : 0 ≤ R) (hRS : R ≤ S) (hS : S ≤ 101 / 19800) (hT : 2 * T ≤ 1 / 10 ^ 60)
    (hcore : |2 * R - Lq| ≤ 2 * T + (2 * 1 + 217 * S) / 10 ^ 57)
    (h10 : |l10 - L10| ≤ 1 / 2 / 10 ^ 57) (hM : |lM - LM| ≤ 1 / 2 / 10 ^ 57)
    (hxB : |x - (|l10 - 2 * R - lM|)| ≤ 2 / 10 ^ 57 + lamr * (2 * R)) :
    |x - (|-L10 + LM + Lq|)| ≤ 69 / 10 ^ 58 := by
  have hc := abs_le.mp hcore
  have h10t := abs_le.mp h10
  have hMt := abs_le.mp hM
  have hxb := abs_le.mp hxB
  have hnegL : |-L10 + LM + Lq| = |-(-L10 + LM + Lq)| := (abs_neg _).symm
  have key : |(|l10 - 2 * R - lM|) - (|-L10 + LM + Lq|)| ≤ 1 / 10 ^ 60 + (3 + 217 * S) / 10 ^ 57 := by
    rw [hnegL]
    refine le_trans (abs_abs_sub_abs_le_abs_sub _ _) ?_
    rw [abs_le]
    constructor <;> linarith [hc.1, hc.2, h10t.1, h10t.2, hMt.1, hMt.2]
  have hk := abs_le.mp key
  have hlr : lamr * (2 * R) ≤ 1 / (6 * 10 ^ 56) * (2 * (101 / 19800)) := by
    apply mul_le_mul hlam (by linarith) (by linarith) (by norm_num)
  have hnum : (1 : ℝ) / 10 ^ 60 + (3 + 217 * (101 / 19800)) / 10 ^ 57 + (2 / 10 ^ 57 + 1 / (6 * 10 ^ 56) * (2 * (101 / 19800)))
      ≤ 69 / 10 ^ 58 := by norm_num
  have hS' : (3 + 217 * S) / 10 ^ 57 ≤ (3 + 217 * (101 / 19800)) / (10 : ℝ) ^ 57 := by
    apply div_le_div_of_nonneg_right _ (by positivity); linarith
  rw [abs_le]
  constructor <;> linarith [hk.1, hk.2, hxb.1, hxb.2]

/-- an argument in `[0.99, 1)` has decimal exponent `−1` and leading digits `99` -/
theorem near_one_split (X v : ℝ) (e0 M : ℤ) (hXv : X = v * (10 : ℝ) ^ e0)
    (hM0 : 10 ≤ M) (hM1 : M ≤ 99) (hMlo : (M : ℝ) ≤ 10 * v) (hMhi : 10 * v < (M : ℝ) + 1)
    (hX0 : 99 / 100 ≤ X) (hX1 : X < 1) : e0 = -1 ∧ M = 99 := by
  have hMr0 : (10 : ℝ) ≤ (M : ℝ) := by exact_mod_cast hM0
  have hMr1 : (M : ℝ) ≤ 99 := by exact_mod_cast hM1
  have hv1 : 1 ≤ v := by linarith
  have hv10 : v < 10 := by linarith
  have he : e0 = -1 := by
    rcases lt_trichotomy e0 (-1) with h | h | h
    · exfalso
      have hp : (10 : ℝ) ^ e0 ≤ (10 : ℝ) ^ (-2 : ℤ) := zpow_le_zpow_right₀ (by norm_num) (by omega)
      have h2 : (10 : ℝ) ^ (-2 : ℤ) = 1 / 100 := by norm_num
      have hp0 : (0 : ℝ) < (10 : ℝ) ^ e0 := zpow_pos (by norm_num) _
      have : X ≤ 10 * (1 / 100) := by
        rw [hXv]; rw [h2] at hp
        exact mul_le_mul hv10.le hp hp0.le (by norm_num)
      linarith
    · exact h
    · exfalso
      have hp : (10 : ℝ) ^ (0 : ℤ) ≤ (10 : ℝ) ^ e0 := zpow_le_zpow_right₀ (by norm_num) (by omega)
      rw [zpow_zero] at hp
      have : 1 * 1 ≤ v * (10 : ℝ) ^ e0 := mul_le_mul hv1 hp (by norm_num) (by linarith)
      rw [← hXv] at this
      linarith
  refine ⟨he, ?_⟩
  rw [he] at hXv
  have h1 : (10 : ℝ) ^ (-1 : ℤ) = 1 / 10 := by norm_num
  rw [h1] at hXv
  have hv : 99 / 10 ≤ v := by linarith
  have hMgt : (98 : ℝ) < (M : ℝ) := by linarith
  have : (98 : ℤ) < M := by exact_mod_cast hMgt
  omega

/-- **`decomposed192.log` for an argument in `[0.99, 1)`**: the working value is within `6.9·10^-57` of `|ln X|`
(`LogAcc.log_spec` gives `2.5·10^-56` there). -/
theorem log_near_one (d : decomposed192) (hd : d.sig.toNat ≠ 0)
    (he : -16000 ≤ d.exp.toInt ∧ d.exp.toInt ≤ 16000)
    (hX0 : 99 / 100 ≤ ((val d : ℚ) : ℝ)) (hX1 : ((val d : ℚ) : ℝ) < 1) :
    ∃ (x : decomposed192) (t : Int8),
      Gen.decomposed192.log d = .ok (true, x, t) ∧ flag3 t ∧ -5930 ≤ x.exp.toInt ∧ x.exp.toInt ≤ 5500 ∧
      |((val x : ℚ) : ℝ) - (|Real.log ((val d : ℚ) : ℝ)|)| ≤ 69 / 10 ^ 58 := by
  obtain ⟨neg, x, t, e0, M, v, v2, f, R, hlog, ht, hxe0, hxe1, hvd, he0a, he0b, hM0, hM1, hMlo, hMhi,
    h21, h22, h23, hf0, hf20, hf1, hf2, hR1, hR2, hneg, hx⟩ := log_code_m1 d hd he
  -- real versions
  have hl := lamR_pos
  have hle := lamR_le
  have hMr0 : (10 : ℝ) ≤ ((M.toInt : ℤ) : ℝ) := by exact_mod_cast hM0
  have hMr1 : ((M.toInt : ℤ) : ℝ) ≤ 99 := by exact_mod_cast hM1
  have hMpos : (0 : ℝ) < ((M.toInt : ℤ) : ℝ) := by linarith
  have hMloR : ((M.toInt : ℤ) : ℝ) ≤ 10 * (v : ℝ) := by
    have : (((M.toInt : ℤ) : ℚ) : ℝ) ≤ ((10 * v : ℚ) : ℝ) := Rat.cast_le.mpr hMlo
    push_cast at this; exact this
  have hMhiR : 10 * (v : ℝ) < ((M.toInt : ℤ) : ℝ) + 1 := by
    have : ((10 * v : ℚ) : ℝ) < ((((M.toInt : ℤ) : ℚ) + 1 : ℚ) : ℝ) := Rat.cast_lt.mpr hMhi
    push_cast at this; exact this
  have hvpos : (0 : ℝ) < (v : ℝ) := by linarith
  have hX : ((val d : ℚ) : ℝ) = (v : ℝ) * (10 : ℝ) ^ e0 := by
    rw [hvd]; push_cast; rfl
  obtain ⟨hem1, hM99⟩ := near_one_split _ (v : ℝ) e0 M.toInt hX hM0 hM1 hMloR hMhiR hX0 hX1
  have hM10 : ¬ M.toInt = 10 := by omega
  set q : ℝ := 10 * (v : ℝ) / ((M.toInt : ℤ) : ℝ) with hq
  have hq1 : 1 ≤ q := by rw [hq, le_div_iff₀ hMpos]; linarith
  have hqhi' : q < (((M.toInt : ℤ) : ℝ) + 1) / ((M.toInt : ℤ) : ℝ) := by
    rw [hq]; exact div_lt_div_of_pos_right hMhiR hMpos
  have hqhi : q ≤ 11 / 10 := by
    have : (((M.toInt : ℤ) : ℝ) + 1) / ((M.toInt : ℤ) : ℝ) ≤ 11 / 10 := by
      rw [div_le_div_iff₀ hMpos (by norm_num)]; linarith
    linarith
  have hV2a : (1 : ℝ) ≤ (v2 : ℝ) := by exact_mod_cast h21
  have hV2b : (v2 : ℝ) ≤ q := by
    have : ((v2 : ℚ) : ℝ) ≤ ((10 * v / ((M.toInt : ℤ) : ℚ) : ℚ) : ℝ) := Rat.cast_le.mpr h22
    push_cast at this; exact this
  have hV2c : q * (1 - 1 * ((lam : ℚ) : ℝ)) ≤ (v2 : ℝ) := by
    have : ((10 * v / ((M.toInt : ℤ) : ℚ) * (1 - (if M.toInt = 10 then 0 else lam)) : ℚ) : ℝ) ≤ ((v2 : ℚ) : ℝ) :=
      Rat.cast_le.mpr h23
    rw [if_neg hM10] at this
    rw [hq]; push_cast at this; linarith
  have hF0 : (0 : ℝ) ≤ (f : ℝ) := by exact_mod_cast hf0
  have hfloR : ((v2 : ℝ) - 1) / ((v2 : ℝ) + 1) * (1 - ((lam : ℚ) : ℝ)) ≤ (f : ℝ) := by
    have : (((v2 - 1) / (v2 + 1) * (1 - lam) : ℚ) : ℝ) ≤ ((f : ℚ) : ℝ) := Rat.cast_le.mpr hf1
    push_cast at this; exact this
  have hfhiR : (f : ℝ) ≤ ((v2 : ℝ) - 1) / ((v2 : ℝ) + 1) * ((1 + ((Root.eps : ℚ) : ℝ)) / (1 - ((lam : ℚ) : ℝ))) := by
    have : ((f : ℚ) : ℝ) ≤ (((v2 - 1) / (v2 + 1) * ((1 + Root.eps) / (1 - lam)) : ℚ) : ℝ) := Rat.cast_le.mpr hf2
    push_cast at this; exact this
  have hser := log_v2_series (v2 : ℝ) f hV2a hf0 hf20 hfloR hfhiR
  set S : ℝ := ((Sj f 16 : ℚ) : ℝ) with hS
  have hFS : (f : ℝ) ≤ S := by rw [hS]; exact_mod_cast Sj_ge f hf0 16
  have hS2F : S ≤ 101 / 100 * (f : ℝ) := by
    have : ((Sj f 16 : ℚ) : ℝ) ≤ ((101 / 100 * f : ℚ) : ℝ) := Rat.cast_le.mpr (Sj_le_101 f hf0 hf20 16)
    push_cast at this; exact this
  have hS0 : 0 ≤ S := le_trans hF0 hFS
  have hRR1 : S * (1 - ((lam : ℚ) : ℝ)) ^ 50 ≤ (R : ℝ) := by
    have : ((Sj f 16 * (1 - lam) ^ 50 : ℚ) : ℝ) ≤ ((R : ℚ) : ℝ) := Rat.cast_le.mpr hR1
    push_cast at this; exact this
  have hRR2 : (R : ℝ) ≤ S := by rw [hS]; exact_mod_cast hR2
  have hu : (0 : ℝ) < 1 - ((lam : ℚ) : ℝ) := by linarith [show (1 : ℝ) / (6 * 10 ^ 56) < 1 by norm_num]
  have hR0 : (0 : ℝ) ≤ (R : ℝ) := le_trans (mul_nonneg hS0 (pow_nonneg hu.le _)) hRR1
  -- F ≤ 1/(2M)
  have hepsle : ((Root.eps : ℚ) : ℝ) ≤ 21 / 10 ^ 57 := by
    have h : Root.eps ≤ 21 / 10 ^ 57 := by unfold Root.eps; norm_num
    have : ((Root.eps : ℚ) : ℝ) ≤ ((21 / 10 ^ 57 : ℚ) : ℝ) := Rat.cast_le.mpr h
    norm_num at this ⊢; exact this
  have heps0 : (0 : ℝ) < ((Root.eps : ℚ) : ℝ) := by exact_mod_cast Root.eps_pos
  have hz_hi : ((v2 : ℝ) - 1) / ((v2 : ℝ) + 1) ≤ 1 / (2 * ((M.toInt : ℤ) : ℝ) + 1) := by
    rw [div_le_div_iff₀ (by linarith) (by linarith)]
    have : (v2 : ℝ) * ((M.toInt : ℤ) : ℝ) ≤ ((M.toInt : ℤ) : ℝ) + 1 := by
      have h1 : (v2 : ℝ) ≤ (((M.toInt : ℤ) : ℝ) + 1) / ((M.toInt : ℤ) : ℝ) := le_trans hV2b hqhi'.le
      rwa [le_div_iff₀ hMpos] at h1
    nlinarith
  have hfac : (1 + ((Root.eps : ℚ) : ℝ)) / (1 - ((lam : ℚ) : ℝ)) ≤ 1 + 23 / 10 ^ 57 := by
    rw [div_le_iff₀ hu]; nlinarith
  have hF2M : (f : ℝ) ≤ 1 / (2 * ((M.toInt : ℤ) : ℝ)) := by
    have h1 : (f : ℝ) ≤ 1 / (2 * ((M.toInt : ℤ) : ℝ) + 1) * (1 + 23 / 10 ^ 57) :=
      le_trans hfhiR (mul_le_mul hz_hi hfac (by positivity) (by positivity))
    refine le_trans h1 ?_
    rw [div_mul_eq_mul_div, one_mul, div_le_div_iff₀ (by linarith) (by linarith)]
    nlinarith
  have hM99r : ((M.toInt : ℤ) : ℝ) = 99 := by rw [hM99]; norm_num
  have hF198 : (f : ℝ) ≤ 1 / 198 := by
    rw [hM99r] at hF2M; norm_num at hF2M ⊢; exact hF2M
  have hS99 : S ≤ 101 / 19800 := by linarith
  -- the logarithm of the argument
  have hLsplit : Real.log ((val d : ℚ) : ℝ)
      = (e0 : ℝ) * Real.log 10 + Real.log (((M.toInt : ℤ) : ℝ) / 10) + Real.log q := by
    rw [hX, Real.log_mul hvpos.ne' (zpow_ne_zero _ (by norm_num)), Real.log_zpow]
    have hv : (v : ℝ) = ((M.toInt : ℤ) : ℝ) / 10 * q := by rw [hq]; field_simp
    rw [hv, Real.log_mul (by positivity) (by positivity)]
    ring
  -- the core estimate and the tables
  have htab := lnM_table M hM0 hM1
  rw [if_neg hM10, one_mul] at htab
  have hcore := core_estimate 1 q (v2 : ℝ) S (R : ℝ) (f : ℝ)
    (Or.inr rfl) hV2b hV2c hV2a hqhi hser hRR1 hRR2 hS0
  have hxB : |((val x : ℚ) : ℝ) - (|((ln10v : ℚ) : ℝ) - 2 * (R : ℝ) - ((lnM M : ℚ) : ℝ)|)|
      ≤ 2 / 10 ^ 57 + ((lam : ℚ) : ℝ) * (2 * (R : ℝ)) := by
    have := Rat.cast_le (K := ℝ) |>.mpr (hx hem1 (by omega))
    push_cast at this; exact this
  have htot := near_one_total S (tailR (f : ℝ)) (R : ℝ) ((ln10v : ℚ) : ℝ) ((lnM M : ℚ) : ℝ)
    (Real.log 10) (Real.log (((M.toInt : ℤ) : ℝ) / 10)) (Real.log q) ((val x : ℚ) : ℝ) ((lam : ℚ) : ℝ)
    hl.le hle hR0 hRR2 hS99 (tail198 (f : ℝ) hF0 hF198) hcore ln10v_table htab hxB
  have hnegt : neg = true := by rw [hneg, hem1]; rfl
  subst hnegt
  refine ⟨x, t, hlog, ht, hxe0, hxe1, ?_⟩
  rw [hLsplit, hem1]
  have : ((-1 : ℤ) : ℝ) * Real.log 10 + Real.log (((M.toInt : ℤ) : ℝ) / 10) + Real.log q
      = -Real.log 10 + Real.log (((M.toInt : ℤ) : ℝ) / 10) + Real.log q := by push_cast; ring
  rw [this]
  exact htot

/-- **Relative closeness of the working value of `log`**, with the band below 1 widened to
`X ≤ 1 − 2.1·10^-22` (`LogAcc.log_rel_close`: `X ≤ 1 − 7.5·10^-22`). -/
theorem log_rel_close21 (a : decomposed192) (ha : a.sig.toNat ≠ 0)
    (he : -16000 ≤ a.exp.toInt ∧ a.exp.toInt ≤ 16000)
    (hX : 1 + 1 / 10 ^ 60 ≤ ((val a : ℚ) : ℝ) ∨ ((val a : ℚ) : ℝ) ≤ 1 - 21 / 10 ^ 23) :
    ∃ (neg : Bool) (x : decomposed192) (t : Int8),
      Gen.decomposed192.log a = .ok (neg, x, t) ∧ flag3 t ∧ -5930 ≤ x.exp.toInt ∧ x.exp.toInt ≤ 5500 ∧
      neg = decide (((val a : ℚ) : ℝ) < 1) ∧
      |((val x : ℚ) : ℝ) - (|Real.log ((val a : ℚ) : ℝ)|)| * (30 * 10 ^ 33) ≤ |Real.log ((val a : ℚ) : ℝ)| ∧
      1 / 10 ^ 61 ≤ |Real.log ((val a : ℚ) : ℝ)| ∧ |Real.log ((val a : ℚ) : ℝ)| ≤ 10 ^ 5 := by
  by_cases hold : 1 + 1 / 10 ^ 60 ≤ ((val a : ℚ) : ℝ) ∨ ((val a : ℚ) : ℝ) ≤ 1 - 75 / 10 ^ 23
  · exact log_rel_close a ha he hold
  · rw [not_or] at hold
    obtain ⟨h1, h2⟩ := hold
    have hXle : ((val a : ℚ) : ℝ) ≤ 1 - 21 / 10 ^ 23 := by
      rcases hX with h | h
      · exact absurd h h1
      · exact h
    set X : ℝ := ((val a : ℚ) : ℝ) with hXdef
    have hX1 : X < 1 := by linarith [show (0 : ℝ) < 21 / 10 ^ 23 by norm_num]
    have hX0 : 99 / 100 ≤ X := by
      have : (1 : ℝ) - 75 / 10 ^ 23 < X := not_le.mp h2
      linarith [show (99 : ℝ) / 100 ≤ 1 - 75 / 10 ^ 23 by norm_num]
    obtain ⟨x, t, hlog, ht, hxe0, hxe1, herr⟩ := log_near_one a ha he hX0 hX1
    have hXpos : 0 < X := by linarith
    -- |ln X| ≥ 1 − X
    have hL1 : Real.log X ≤ X - 1 := Real.log_le_sub_one_of_pos hXpos
    have hLneg : Real.log X < 0 := Real.log_neg hXpos hX1
    have hT : |Real.log X| = -Real.log X := abs_of_neg hLneg
    have hTge : 21 / 10 ^ 23 ≤ |Real.log X| := by rw [hT]; linarith
    -- |ln X| ≤ 1/X − 1
    have hTle : |Real.log X| ≤ 1 := by
      rw [hT]
      have := Real.log_le_sub_one_of_pos (inv_pos.mpr hXpos)
      rw [Real.log_inv] at this
      have hinv : X⁻¹ ≤ (99 / 100 : ℝ)⁻¹ := inv_anti₀ (by norm_num) hX0
      have : (99 / 100 : ℝ)⁻¹ - 1 ≤ 1 := by norm_num
      linarith
    refine ⟨true, x, t, hlog, ht, hxe0, hxe1, by simp [hX1], ?_, ?_, ?_⟩
    · calc |((val x : ℚ) : ℝ) - (|Real.log X|)| * (30 * 10 ^ 33)
          ≤ 69 / 10 ^ 58 * (30 * 10 ^ 33) := mul_le_mul_of_nonneg_right herr (by norm_num)
        _ ≤ 21 / 10 ^ 23 := by norm_num
        _ ≤ |Real.log X| := hTge
    · linarith [show (1 : ℝ) / 10 ^ 61 ≤ 21 / 10 ^ 23 by norm_num]
    · linarith [show (1 : ℝ) ≤ 10 ^ 5 by norm_num]

/-- accuracy of a scaled logarithm (`LogAcc.scaled_accurate` with the wider band) -/
theorem scaled_accurate21 (rm : UInt8) (hrm : rm = 0 ∨ rm = 1) (a C : decomposed192)
    (ha : a.sig.toNat ≠ 0) (he : -16000 ≤ a.exp.toInt ∧ a.exp.toInt ≤ 16000)
    (hX : 1 + 1 / 10 ^ 60 ≤ ((val a : ℚ) : ℝ) ∨ ((val a : ℚ) : ℝ) ≤ 1 - 21 / 10 ^ 23)
    (hCe : C.exp.toInt = -57 ∨ C.exp.toInt = -58) (c : ℝ)
    (hCc : |((val C : ℚ) : ℝ) - c| ≤ 1 / 10 ^ 57) (hc0 : 2 / 5 ≤ c) (hc1 : c ≤ 3 / 2) :
    ∃ r rc re, (decomposed192.log a >>= scaledTail rm C) = .ok r ∧
      𝔳[r] = .fin (decide (((val a : ℚ) : ℝ) < 1)) rc re ∧ rc ≤ Spec.Cmax ∧ Spec.Emin ≤ re ∧ re ≤ Spec.Emax ∧
      |(rc : ℝ) * (10 : ℝ) ^ re - |Real.log ((val a : ℚ) : ℝ)| * c|
        ≤ (10 : ℝ) ^ (EnclPf.ulpExp (|Real.log ((val a : ℚ) : ℝ)| * c)) := by
  obtain ⟨neg, x, t, hlog, ht, hxe0, hxe1, hneg, hclose, hT0, hT1⟩ := log_rel_close21 a ha he hX
  obtain ⟨y, t', hy, ht', y1, y2, ye0, ye1⟩ := scale_spec x C t ht hxe0 hxe1 hCe
  set T : ℝ := |Real.log ((val a : ℚ) : ℝ)| with hT
  have hTpos : 0 < T := lt_of_lt_of_le (by positivity) hT0
  have hx0 : (0 : ℝ) ≤ ((val x : ℚ) : ℝ) := by exact_mod_cast val_nonneg x
  have hsc := scale_close (30 * 10 ^ 33) (29 * 10 ^ 33) ((val x : ℚ) : ℝ) T ((val C : ℚ) : ℝ) c
    ((val y : ℚ) : ℝ) hTpos hx0 (by norm_num) (by norm_num) (by norm_num) (by norm_num) hclose hCc hc0 y1 y2
  have hTc0 : 1 / 10 ^ 70 ≤ T * c := by
    have : (1 : ℝ) / 10 ^ 61 * (2 / 5) ≤ T * c := mul_le_mul hT0 hc0 (by norm_num) hTpos.le
    have h2 : (1 : ℝ) / 10 ^ 70 ≤ 1 / 10 ^ 61 * (2 / 5) := by norm_num
    linarith
  have hTc1 : T * c ≤ 10 ^ 6 := by
    have : T * c ≤ 10 ^ 5 * (3 / 2) := mul_le_mul hT1 hc1 (by linarith) (by norm_num)
    have h2 : (10 : ℝ) ^ 5 * (3 / 2) ≤ 10 ^ 6 := by norm_num
    linarith
  obtain ⟨r, rc, re, hr, hvr, hrc, hre0, hre1, hb⟩ :=
    finish_close rm neg y t' (T * c) hrm ht' ye0 ye1 hTc0 hTc1 hsc
  refine ⟨r, rc, re, ?_, by rw [← hneg]; exact hvr, hrc, hre0, hre1, hb⟩
  rw [hlog]
  show scaledTail rm C (neg, x, t) = _
  unfold scaledTail
  simp only [hy, bind, Except.bind]
  exact hr

/-- **`Log` is accurate to one unit in the last place** (nearest default modes), for every finite positive
argument `X ≠ 1` outside `1 − 2.1·10^-22 < X < 1`. -/
theorem log_accurate21 (g : Globals) (d : Decimal)
    (hg : g.DefaultRoundingMode = 0 ∨ g.DefaultRoundingMode = 1)
    (h1 : Decimal.isSpecial d = false) (h2 : Decimal.IsZero d = false) (h3 : Decimal.Signbit d = false)
    (c : ℕ) (e : ℤ) (hv : 𝔳[d] = .fin false c e)
    (hX : 1 < (c : ℝ) * (10 : ℝ) ^ e ∨ (c : ℝ) * (10 : ℝ) ^ e ≤ 1 - 21 / 10 ^ 23) :
    ∃ r rc re, Gen.Log g d = .ok r ∧
      𝔳[r] = .fin (decide ((c : ℝ) * (10 : ℝ) ^ e < 1)) rc re ∧
      rc ≤ Spec.Cmax ∧ Spec.Emin ≤ re ∧ re ≤ Spec.Emax ∧
      |(rc : ℝ) * (10 : ℝ) ^ re - (|Real.log ((c : ℝ) * (10 : ℝ) ^ e)|)|
        ≤ (10 : ℝ) ^ (EnclPf.ulpExp (|Real.log ((c : ℝ) * (10 : ℝ) ^ e)|)) := by
  obtain ⟨hc, he, hval⟩ := logArg_val d h1 c e false hv
  obtain ⟨hsig, hexp⟩ := logArg_ok d h1 h2
  have hcmax : c ≤ Spec.Cmax := by rw [hc]; exact Enc.decompose_sig_le d
  have hX' : 1 + 1 / 10 ^ 60 ≤ ((val (logArg d) : ℚ) : ℝ) ∨ ((val (logArg d) : ℚ) : ℝ) ≤ 1 - 21 / 10 ^ 23 := by
    rw [hval]
    rcases hX with h | h
    · exact Or.inl (gap_above_one c e hcmax h)
    · exact Or.inr h
  obtain ⟨neg, x, t, hlog, ht, hxe0, hxe1, hneg, hclose, hT0, hT1⟩ :=
    log_rel_close21 (logArg d) hsig hexp hX'
  rw [hval] at hneg hclose hT0 hT1
  set T : ℝ := |Real.log ((c : ℝ) * (10 : ℝ) ^ e)| with hT
  have hclose' : |((val x : ℚ) : ℝ) - T| * (29 * 10 ^ 33) ≤ T := by
    have h0 : 0 ≤ |((val x : ℚ) : ℝ) - T| := abs_nonneg _
    nlinarith
  obtain ⟨r, rc, re, hr, hvr, hrc, hre0, hre1, hb⟩ :=
    finish_close g.DefaultRoundingMode neg x t T hg ht (by omega) (by omega)
      (le_trans (by norm_num) hT0) (le_trans hT1 (by norm_num)) hclose'
  refine ⟨r, rc, re, ?_, by rw [← hneg]; exact hvr, hrc, hre0, hre1, hb⟩
  rw [Log_eq g d h1 h2 h3, hlog]
  exact hr

/-- **`Log2`**, outside `1 − 2.1·10^-22 < X < 1` -/
theorem log2_accurate21 (g : Globals) (d : Decimal)
    (hg : g.DefaultRoundingMode = 0 ∨ g.DefaultRoundingMode = 1)
    (h1 : Decimal.isSpecial d = false) (h2 : Decimal.IsZero d = false) (h3 : Decimal.Signbit d = false)
    (c : ℕ) (e : ℤ) (hv : 𝔳[d] = .fin false c e)
    (hX : 1 < (c : ℝ) * (10 : ℝ) ^ e ∨ (c : ℝ) * (10 : ℝ) ^ e ≤ 1 - 21 / 10 ^ 23) :
    ∃ r rc re, Gen.Log2 g d = .ok r ∧
      𝔳[r] = .fin (decide ((c : ℝ) * (10 : ℝ) ^ e < 1)) rc re ∧
      rc ≤ Spec.Cmax ∧ Spec.Emin ≤ re ∧ re ≤ Spec.Emax ∧
      |(rc : ℝ) * (10 : ℝ) ^ re - (|Real.logb 2 ((c : ℝ) * (10 : ℝ) ^ e)|)|
        ≤ (10 : ℝ) ^ (EnclPf.ulpExp (|Real.logb 2 ((c : ℝ) * (10 : ℝ) ^ e)|)) := by
  obtain ⟨hc, he, hval⟩ := logArg_val d h1 c e false hv
  obtain ⟨hsig, hexp⟩ := logArg_ok d h1 h2
  have hcmax : c ≤ Spec.Cmax := by rw [hc]; exact Enc.decompose_sig_le d
  have hX' : 1 + 1 / 10 ^ 60 ≤ ((val (logArg d) : ℚ) : ℝ) ∨ ((val (logArg d) : ℚ) : ℝ) ≤ 1 - 21 / 10 ^ 23 := by
    rw [hval]
    rcases hX with h | h
    · exact Or.inl (gap_above_one c e hcmax h)
    · exact Or.inr h
  have := scaled_accurate21 g.DefaultRoundingMode hg (logArg d) invLn2 hsig hexp hX' (Or.inl invLn2_exp)
    (1 / Real.log 2) invLn2_close inv_log2_ge inv_log2_le
  rw [hval, abs_logb 2 _ (by norm_num)] at this
  rw [Log2_eq' g d h1 h2 h3]
  exact this

/-- **`Log10`**, outside `1 − 2.1·10^-22 < X < 1` -/
theorem log10_accurate21 (g : Globals) (d : Decimal)
    (hg : g.DefaultRoundingMode = 0 ∨ g.DefaultRoundingMode = 1)
    (h1 : Decimal.isSpecial d = false) (h2 : Decimal.IsZero d = false) (h3 : Decimal.Signbit d = false)
    (c : ℕ) (e : ℤ) (hv : 𝔳[d] = .fin false c e)
    (hX : 1 < (c : ℝ) * (10 : ℝ) ^ e ∨ (c : ℝ) * (10 : ℝ) ^ e ≤ 1 - 21 / 10 ^ 23) :
    ∃ r rc re, Gen.Log10 g d = .ok r ∧
      𝔳[r] = .fin (decide ((c : ℝ) * (10 : ℝ) ^ e < 1)) rc re ∧
      rc ≤ Spec.Cmax ∧ Spec.Emin ≤ re ∧ re ≤ Spec.Emax ∧
      |(rc : ℝ) * (10 : ℝ) ^ re - (|Real.logb 10 ((c : ℝ) * (10 : ℝ) ^ e)|)|
        ≤ (10 : ℝ) ^ (EnclPf.ulpExp (|Real.logb 10 ((c : ℝ) * (10 : ℝ) ^ e)|)) := by
  obtain ⟨hc, he, hval⟩ := logArg_val d h1 c e false hv
  obtain ⟨hsig, hexp⟩ := logArg_ok d h1 h2
  have hcmax : c ≤ Spec.Cmax := by rw [hc]; exact Enc.decompose_sig_le d
  have hX' : 1 + 1 / 10 ^ 60 ≤ ((val (logArg d) : ℚ) : ℝ) ∨ ((val (logArg d) : ℚ) : ℝ) ≤ 1 - 21 / 10 ^ 23 := by
    rw [hval]
    rcases hX with h | h
    · exact Or.inl (gap_above_one c e hcmax h)
    · exact Or.inr h
  have := scaled_accurate21 g.DefaultRoundingMode hg (logArg d) invLn10 hsig hexp hX' (Or.inr invLn10_exp)
    (1 / Real.log 10) invLn10_close inv_log10_ge inv_log10_le
  rw [hval, abs_logb 10 _ (by norm_num)] at this
  rw [Log10_eq' g d h1 h2 h3]
  exact this

end LogAcc
