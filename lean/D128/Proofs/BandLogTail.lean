/-
  D128/Proofs/BandLogTail.lean — the end of `decomposed192.log` (`LogAcc.logTail`) for the decimal exponent `e0 = −1`
  (arguments in `[0.1, 1)`), with ABSOLUTE error bounds.

  `LogAcc.logTail_spec` bounds the error of `2·res − ln10 − ln(M/10)` by `lam·(4·(ln10 + 2R) + lnM) ≈ 1.9·10^-56`
  (a relative bound per operation).  For `e0 = −1` the product `1·ln10` is exact, and both subtractions work on the grid
  `10^-57` or are exact, so the error is at most `2·10^-57 + lam·2R`.

  Provided (namespace `LogAcc`):
  * `ulp_le57`      : `scaleLim·ulp r ≤ 2.31 → ulp r ≤ 10^-57`
  * `sub_abs57`     : `sub d o t` for operands `≤ 2.31`: `|val r − |val d − val o|| ≤ 10^-57`, sign facts, flag, exponents
  * `mul_ln10_one`  : `ln10.mul(small 1) = (l, _)` with `val l = ln10v`, `l.exp = −57`
  * `logTail_m1`    : `logTail (−1) M res t = .ok (true, x, t')`, `|val x − |ln10v − 2R − lnM M|| ≤ 2·10^-57 + lam·2R`
  * `log_code_m1`   : `LogAcc.log_code_spec` with this bound added for `e0 = −1`, `M ≥ 11`
-/
import D128.Proofs.LogAccSpec
set_option autoImplicit false
set_option maxRecDepth 4096
set_option exponentiation.threshold 512
set_option linter.unusedVariables false
namespace LogAcc
open Gen D192 Root

/-- a unit that is small against `2.31` is at most `10^-57` -/
theorem ulp_le57 (r : decomposed192) (h : (scaleLim : ℚ) * ulp r ≤ 231 / 100) : ulp r ≤ 1 / 10 ^ 57 := by
  have he : r.exp.toInt ≤ -57 := by
    by_contra hc
    have hge : (-56 : Int) ≤ r.exp.toInt := by omega
    have hp : (10 : ℚ) ^ (-56 : Int) ≤ ulp r := by
      unfold ulp; exact zpow_le_zpow_right₀ (by norm_num) hge
    have hS : (0 : ℚ) < (scaleLim : ℚ) := by unfold scaleLim; norm_num
    have : (scaleLim : ℚ) * (10 : ℚ) ^ (-56 : Int) ≤ (scaleLim : ℚ) * ulp r := mul_le_mul_of_nonneg_left hp hS.le
    have h2 : (231 / 100 : ℚ) < (scaleLim : ℚ) * (10 : ℚ) ^ (-56 : Int) := by
      unfold scaleLim; rw [zpow_neg]; norm_num
    exact absurd (lt_of_lt_of_le h2 (le_trans this h)) (lt_irrefl _)
  unfold ulp
  calc (10 : ℚ) ^ r.exp.toInt ≤ (10 : ℚ) ^ (-57 : Int) := zpow_le_zpow_right₀ (by norm_num) he
    _ = 1 / 10 ^ 57 := by rw [zpow_neg]; norm_num

/-- `sub` of two operands of at most `2.31`: the magnitude is within `10^-57` of the exact difference -/
theorem sub_abs57 (d o : decomposed192) (t : Int8) (ht : flag3 t)
    (hlo : -32767 ≤ d.exp.toInt - o.exp.toInt) (hhi : d.exp.toInt - o.exp.toInt ≤ 32767)
    (hd : val d ≤ 231 / 100) (ho : val o ≤ 231 / 100) :
    ∃ neg r t', decomposed192.sub d o t = .ok (neg, r, t') ∧
      |val r - (|val d - val o|)| ≤ 1 / 10 ^ 57 ∧ flag3 t' ∧
      (neg = true → val d < val o) ∧ (val d < val o → neg = true ∨ r.sig.toNat = 0) ∧
      min d.exp.toInt o.exp.toInt ≤ r.exp.toInt ∧ r.exp.toInt ≤ max d.exp.toInt o.exp.toInt := by
  obtain ⟨neg, r, t', hr, b1, b2, b3, e1, e2, e3, e4⟩ := sub_contract d o t hlo hhi
  have hu := ulp_pos r
  have hvr := val_nonneg r
  have hvd := val_nonneg d
  have hvo := val_nonneg o
  -- the unit of the result is at most 10^-57 unless the result is exact
  have hulp : sgnVal neg r = val d - val o ∨ ulp r ≤ 1 / 10 ^ 57 := by
    rcases e4 with h | h
    · exact Or.inl (e3 h)
    · right
      apply ulp_le57
      refine le_trans h ?_
      split
      · exact ho
      · exact hd
  -- flags
  have hflag : flag3 t' := by
    by_cases hex : sgnVal neg r = val d - val o
    · rw [b3 hex]; split
      · exact flag3_neg ht
      · exact ht
    · rcases le_or_gt d.exp.toInt o.exp.toInt with hc | hc
      · rw [(b1 hc).2.2.1 hex]; split
        · exact Or.inr (Or.inr rfl)
        · exact flag3_one
      · rw [(b2 hc).2.2.1 hex]; split
        · exact flag3_one
        · exact Or.inr (Or.inr rfl)
  have hT : sgnVal true r = - val r := rfl
  have hF : sgnVal false r = val r := rfl
  have hmain : |val r - (|val d - val o|)| < ulp r ∧
      (sgnVal neg r = val d - val o → val r = |val d - val o|) ∧
      (neg = true → val d < val o) ∧ (val d < val o → neg = true ∨ r.sig.toNat = 0) := by
    rcases le_or_gt d.exp.toInt o.exp.toInt with hc | hc
    · obtain ⟨a1, a2, -, a4⟩ := b1 hc
      cases neg with
      | true =>
        rw [hT] at a1 a2 ⊢
        have hlt : val d < val o := a4.mp rfl
        have habs : |val d - val o| = -(val d - val o) := abs_of_neg (by linarith)
        refine ⟨?_, fun h => by rw [habs]; linarith, fun _ => hlt, fun _ => Or.inl rfl⟩
        rw [habs, abs_lt]; constructor <;> linarith
      | false =>
        rw [hF] at a1 a2 ⊢
        have hge : ¬ val d < val o := fun h => by have := a4.mpr h; cases this
        have habs : |val d - val o| = val d - val o := abs_of_nonneg (by linarith)
        refine ⟨?_, fun h => by rw [habs]; linarith, fun h => Bool.noConfusion h, fun h => absurd h hge⟩
        rw [habs, abs_lt]; constructor <;> linarith
    · obtain ⟨a1, a2, -, a4, a5⟩ := b2 hc
      cases neg with
      | true =>
        rw [hT] at a1 a2 ⊢
        have hlt : val d < val o := a4 rfl
        have habs : |val d - val o| = -(val d - val o) := abs_of_neg (by linarith)
        refine ⟨?_, fun h => by rw [habs]; linarith, fun _ => hlt, fun _ => Or.inl rfl⟩
        rw [habs, abs_lt]; constructor <;> linarith
      | false =>
        rw [hF] at a1 a2 ⊢
        refine ⟨?_, ?_, fun h => Bool.noConfusion h, fun h => ?_⟩
        · rcases le_or_gt (val o) (val d) with hge | hlt
          · rw [abs_of_nonneg (by linarith : 0 ≤ val d - val o), abs_lt]; constructor <;> linarith
          · rw [abs_of_neg (by linarith : val d - val o < 0), abs_lt]; constructor <;> linarith
        · intro h
          rw [abs_of_nonneg (by linarith : 0 ≤ val d - val o)]; linarith
        · rcases a5 h with h' | h'
          · exact Bool.noConfusion h'
          · exact Or.inr h'
  refine ⟨neg, r, t', hr, ?_, hflag, hmain.2.2.1, hmain.2.2.2, e1, e2⟩
  rcases hulp with hex | hsm
  · rw [hmain.2.1 hex, sub_self, abs_zero]; positivity
  · exact le_trans hmain.1.le hsm

/-- `ln10 · 1` is exact -/
theorem mul_ln10_one (t : Int8) :
    ∃ l tl, decomposed192.mul Gen.ln10 (small 1) t = .ok (l, tl) ∧ val l = ln10v ∧ l.exp.toInt = -57 := by
  obtain ⟨l, tl, k, hl, hk, hs, he, -, hb⟩ := mul_spec Gen.ln10 (small 1) t
  have h1 : (small 1).sig.toNat = 1 := by rw [small_sig]; rfl
  rw [ln10_sig, h1, Nat.mul_one] at hs
  have hk0 : k = 0 := by
    rcases hb with hb | hb
    · exact hb
    · by_contra hc
      have h10 : 10 ^ 1 ≤ 10 ^ k := Nat.pow_le_pow_right (by norm_num) (by omega)
      have : 2302585092994045684017991454684364207601101488628772976033 / 10 ^ k
          ≤ 2302585092994045684017991454684364207601101488628772976033 / 10 ^ 1 :=
        Nat.div_le_div_left h10 (by norm_num)
      omega
  subst hk0
  simp only [pow_zero, Nat.div_one] at hs
  have hexp : l.exp.toInt = -57 := by
    rw [he]
    show (Gen.ln10.exp + (small 1).exp + Int16.ofNat 0).toInt = -57
    decide
  refine ⟨l, tl, hl, ?_, hexp⟩
  rw [ln10v_eq]
  unfold val
  rw [hs, hexp, zpow_neg]
  norm_num

/-- **The end of `log` for the decimal exponent `−1`** (arguments in `[0.1, 1)`), leading digits `M ≥ 11`: the
result is `ln10v − 2R − lnM M` up to `2·10^-57 + lam·2R`. -/
theorem logTail_m1 (M : Int64) (res : decomposed192) (t : Int8) (ht : flag3 t)
    (hM0 : 11 ≤ M.toInt) (hM1 : M.toInt ≤ 99)
    (hR : val res ≤ 1 / 10) (hre0 : -5930 ≤ res.exp.toInt) (hre1 : res.exp.toInt ≤ 5400) :
    ∃ (neg : Bool) (x : decomposed192) (t' : Int8),
      logTail (-1) M res t = .ok (neg, x, t') ∧
      |val x - (|ln10v - 2 * val res - lnM M|)| ≤ 2 / 10 ^ 57 + lam * (2 * val res) := by
  have hl := lam_pos
  have hR0 : 0 ≤ val res := val_nonneg _
  have h10i : (10 : Int64).toInt = 10 := by decide
  obtain ⟨l, tl, hlq, hlv, hle⟩ := mul_ln10_one 0
  -- 2·res
  obtain ⟨r, tr, hrq, r1, r2, r3, re0, re1, -⟩ := mul_rel res (small 2) t
    (by rw [small_exp]; omega) (by rw [small_exp]; omega)
  have h2 : ((2 : UInt64).toNat : ℚ) = 2 := by
    have : (2 : UInt64).toNat = 2 := rfl
    rw [this]; norm_num
  rw [val_small, h2] at r1 r2
  rw [small_exp] at re0 re1
  have r1' : 2 * val res * (1 - lam) ≤ val r := by rw [mul_comm 2]; exact r1
  have r2' : val r ≤ 2 * val res := by rw [mul_comm 2]; exact r2
  have htr : flag3 tr := flag3_of_or ht r3
  have hl10a := ln10v_lo
  have hl10b := ln10v_hi
  have hsmall1 : small (Go.conv (if decide ((-1 : Int16) < 0) = true then (-1 : Int16) * -1 else -1) : UInt64)
      = small 1 := by decide
  unfold logTail
  simp only [hsmall1, hlq, hrq, bind, Except.bind, pure, Except.pure]
  have hneg1 : decide ((-1 : Int16) < 0) = true := by decide
  simp only [hneg1, if_true]
  -- first subtraction `2R − ln10`
  obtain ⟨ng, s, ts, hsq, s1, s2, s3, s4, se0, se1⟩ := sub_abs57 r l tr htr (by omega) (by omega)
    (by linarith) (by rw [hlv]; exact hl10b)
  simp only [hsq]
  have hba : val r < val l := by rw [hlv]; linarith
  have hs0 : 0 ≤ val s := val_nonneg _
  have hgt : M > 10 := by rw [gt_iff_lt, Int64.lt_iff_toInt_lt, h10i]; omega
  simp only [hgt, decide_true, if_true]
  obtain ⟨tb, htb, htbv⟩ := vget_ln M hM0 hM1
  simp only [htb]
  have hmv : val (⟨tb, -57⟩ : decomposed192) = lnM M := by
    unfold lnM val
    rw [if_neg (by omega)]
    show (tb.toNat : ℚ) * (10 : ℚ) ^ (-57 : Int16).toInt = _
    rw [htbv]; rfl
  have h57 : (⟨tb, -57⟩ : decomposed192).exp.toInt = -57 := by
    show (-57 : Int16).toInt = -57; decide
  -- the table value is below ln 10
  have hmle : lnM M ≤ 231 / 100 := by
    have hR' : ((lnM M : ℚ) : ℝ) ≤ 231 / 100 := by
      have htab := (abs_le.mp (lnM_table M (by omega) hM1)).2
      rw [if_neg (by omega), one_mul] at htab
      have h2 : Real.log ((M.toInt : ℝ) / 10) ≤ Real.log 10 := by
        apply Real.log_le_log
        · have : (11 : ℝ) ≤ (M.toInt : ℝ) := by exact_mod_cast hM0
          positivity
        · have : (M.toInt : ℝ) ≤ 99 := by exact_mod_cast hM1
          linarith
      have h3 := (abs_le.mp ln10v_table).1
      have h4 : ((ln10v : ℚ) : ℝ) ≤ 2303 / 1000 := by
        have h : ln10v ≤ 2303 / 1000 := by rw [ln10v_eq]; norm_num
        have : ((ln10v : ℚ) : ℝ) ≤ ((2303 / 1000 : ℚ) : ℝ) := Rat.cast_le.mpr h
        norm_num at this ⊢; exact this
      have h5 : (1 : ℝ) / 2 / 10 ^ 57 ≤ 1 / 1000 := by norm_num
      linarith
    have : ((lnM M : ℚ) : ℝ) ≤ (((231 / 100 : ℚ)) : ℝ) := by push_cast; exact hR'
    exact_mod_cast this
  -- the magnitude of the first difference
  have hsv : val s ≤ 231 / 100 := by
    have hs := abs_le.mp s1
    rw [abs_of_neg (by linarith : val r - val l < 0)] at hs
    have : (1 : ℚ) / 10 ^ 57 ≤ 1 / 1000 := by norm_num
    have hr0 : 0 ≤ val r := val_nonneg _
    rw [hlv] at hs
    have : ln10v ≤ 2303 / 1000 := by rw [ln10v_eq]; norm_num
    linarith [hs.2]
  obtain ⟨ng2, x, tx, hxq, x1, x2, -, -, xe0, xe1⟩ := sub_abs57 s ⟨tb, -57⟩ ts s2
    (by rw [h57]
        rcases le_total r.exp.toInt l.exp.toInt with h | h
        · rw [min_eq_left h] at se0; omega
        · rw [min_eq_right h] at se0; omega)
    (by rw [h57]
        rcases le_total r.exp.toInt l.exp.toInt with h | h
        · rw [max_eq_right h] at se1; omega
        · rw [max_eq_left h] at se1; omega)
    hsv (by rw [hmv]; exact hmle)
  simp only [hxq]
  rw [hmv] at x1
  refine ⟨ng, x, tx, rfl, ?_⟩
  -- the chain of estimates
  have hs := abs_le.mp s1
  rw [abs_of_neg (by linarith : val r - val l < 0), hlv] at hs
  have hx := abs_le.mp x1
  have htri : |(|val s - lnM M|) - (|ln10v - 2 * val res - lnM M|)|
      ≤ |(val s - lnM M) - (ln10v - 2 * val res - lnM M)| := abs_abs_sub_abs_le_abs_sub _ _
  have hdiff : |(val s - lnM M) - (ln10v - 2 * val res - lnM M)| ≤ 1 / 10 ^ 57 + lam * (2 * val res) := by
    rw [abs_le]
    constructor <;> nlinarith [hs.1, hs.2]
  have h2' := abs_le.mp (le_trans htri hdiff)
  rw [abs_le]
  constructor <;> linarith [hx.1, hx.2, h2'.1, h2'.2]

/-- **What `decomposed192.log` computes** (`LogAcc.log_code_spec`) with the absolute bound of the tail added for
arguments in `[0.1, 1)` with leading digits `M ≥ 11`. -/
theorem log_code_m1 (d : decomposed192) (hd : d.sig.toNat ≠ 0)
    (he : -16000 ≤ d.exp.toInt ∧ d.exp.toInt ≤ 16000) :
    ∃ (neg : Bool) (x : decomposed192) (t : Int8) (e0 : Int) (M : Int64) (v v2 f R : ℚ),
      Gen.decomposed192.log d = .ok (neg, x, t) ∧ flag3 t ∧ -5930 ≤ x.exp.toInt ∧ x.exp.toInt ≤ 5500 ∧
      val d = v * (10 : ℚ) ^ e0 ∧ -16000 ≤ e0 ∧ e0 ≤ 16057 ∧ 10 ≤ M.toInt ∧ M.toInt ≤ 99 ∧
      (M.toInt : ℚ) ≤ 10 * v ∧ 10 * v < (M.toInt : ℚ) + 1 ∧
      1 ≤ v2 ∧ v2 ≤ 10 * v / (M.toInt : ℚ) ∧
      10 * v / (M.toInt : ℚ) * (1 - (if M.toInt = 10 then 0 else lam)) ≤ v2 ∧
      0 ≤ f ∧ f ≤ 1 / 20 ∧ (v2 - 1) / (v2 + 1) * (1 - lam) ≤ f ∧
      f ≤ (v2 - 1) / (v2 + 1) * ((1 + Root.eps) / (1 - lam)) ∧
      Sj f 16 * (1 - lam) ^ 50 ≤ R ∧ R ≤ Sj f 16 ∧
      neg = decide (e0 < 0) ∧
      (e0 = -1 → 11 ≤ M.toInt →
        |val x - (|ln10v - 2 * R - lnM M|)| ≤ 2 / 10 ^ 57 + lam * (2 * R)) := by
  obtain ⟨L, M, d1, e0, hlog, hL, he0, hM0, hM1, hvd, hMlo, hMhi, hL1, hd1e0, hd1e1⟩ := log_prefix d hd he
  obtain ⟨d2, t2, hred, ht2, h21, h22, h23, h2e0, h2e1⟩ :=
    logReduce_spec d1 M hM0 hM1 hMlo hMhi hL1 hd1e0 hd1e1
  have hMq : (10 : ℚ) ≤ (M.toInt : ℚ) := by exact_mod_cast hM0
  have hMpos : (0 : ℚ) < (M.toInt : ℚ) := by linarith
  have hq_hi : 10 * val d1 / (M.toInt : ℚ) < 11 / 10 := by
    rw [div_lt_iff₀ hMpos]; linarith
  have hv2_hi : val d2 < 11 / 10 := lt_of_le_of_lt h22 hq_hi
  have hft2 : flag3 t2 := by
    rcases ht2 with h | h
    · rw [h]; exact flag3_zero
    · rw [h]; exact flag3_one
  obtain ⟨res, t, f, hser, ht, hf0, hf1, hf2, hR1, hR2, hre0, hre1⟩ :=
    logSeries_spec d2 t2 hft2 h21 hv2_hi h2e0 h2e1
  have hu0 := one_sub_lam_pos
  have hl := lam_pos
  have hz : (val d2 - 1) / (val d2 + 1) ≤ 1 / 21 := by
    rw [div_le_div_iff₀ (by linarith) (by norm_num)]; linarith
  have hz0 : 0 ≤ (val d2 - 1) / (val d2 + 1) := div_nonneg (by linarith) (by linarith)
  have hfac : (1 + Root.eps) / (1 - lam) ≤ 21 / 20 := by
    rw [div_le_iff₀ hu0]
    have h1 : lam ≤ 1 / (6 * 10 ^ 56) := lam_le
    have h2 : Root.eps ≤ 1 / 10 ^ 55 := by unfold Root.eps; norm_num
    nlinarith
  have hfac0 : 0 ≤ (1 + Root.eps) / (1 - lam) :=
    div_nonneg (by have := Root.eps_pos; linarith) hu0.le
  have hf20 : f ≤ 1 / 20 := by
    calc f ≤ (val d2 - 1) / (val d2 + 1) * ((1 + Root.eps) / (1 - lam)) := hf2
      _ ≤ 1 / 21 * (21 / 20) := mul_le_mul hz hfac hfac0 (by norm_num)
      _ = 1 / 20 := by norm_num
  have hRle : val res ≤ 1 / 10 := by
    have := Sj_le_two_mul f hf0 hf20 16
    linarith
  obtain ⟨neg, x, t', htail, ht', hneg, hx, hxe0, hxe1⟩ :=
    logTail_spec e0 M res t ht (by omega) hM0 hM1 hRle hre0 hre1
  refine ⟨neg, x, t', e0.toInt, M, val d1, val d2, f, val res, ?_, ht', hxe0, hxe1, hvd, by omega, by omega,
    hM0, hM1, hMlo, hMhi, h21, h22, h23, hf0, hf20, hf1, hf2, hR1, hR2, hneg, ?_⟩
  · rw [hlog]
    unfold logMain
    simp only [hred, hser, bind, Except.bind]
    exact htail
  · intro hem1 hM11
    have he01 : e0 = -1 := by
      apply Int16.toInt_inj.mp
      rw [hem1]; rfl
    subst he01
    obtain ⟨neg', x', t'', htail', hx'⟩ := logTail_m1 M res t ht hM11 hM1 hRle hre0 hre1
    rw [htail] at htail'
    obtain ⟨-, rfl, -⟩ : neg = neg' ∧ x = x' ∧ t' = t'' := by
      have := Except.ok.inj htail'
      simp only [Prod.mk.injEq] at this
      exact this
    exact hx'

end LogAcc
