/-
  Proofs about the number parser `Gen.parseNumber` (scan.go `parseNumber`), part 1:
  the functional model of the two loops and the theorem that the generated code computes it.

  Model (pure, on the byte list):
  * `Parse.S1`, `Parse.S2`, `Parse.init1`, `Parse.toS2`   loop states (first / second loop), hand-over
  * `Parse.isDig`, `Parse.step1`, `Parse.cond1`, `Parse.loop1`   one iteration / the whole first loop
  * `Parse.expDigit`, `Parse.step2`, `Parse.step22`, `Parse.loop2`   one iteration, the two-digit step,
                                           the whole second loop
  * `Parse.loops`, `Parse.after1`         both loops from the initial state (`none` = syntax error in a loop)
  * `Parse.finish`, `Parse.model`         the loop-free tail of `parseNumber`; `loops` followed by `finish`

  Glue:
  * `Parse.ok_of_triple`, `Parse.triple_of_ok`   Hoare triple over `Go.GoM`  ⇄  equation `f = .ok v`
  * `Parse.bget_eq`, `Parse.bget_spec`    `Go.bget` inside the bounds (the `@[spec]` used by `mvcgen`)
  * `Parse.i64_add_toInt`, `Parse.i64_sub_toInt`, `Parse.len_toInt`, `Parse.idx_facts`, `Parse.idx_facts2`
                                          `Int64` index arithmetic (needs `d.size < 2^63`)
  * `Parse.loop2_single`, `Parse.loop2_two`, `Parse.after1_cons`, `Parse.after1_exit`   unfolding of the model
  * `Parse.finish_syn/_zero/_big/_small/_red`   the branches of `finish`

  Loop invariants and verification conditions:
  * `Parse.I1`, `Parse.E1`, `Parse.var1`, `Parse.inv1`, `Parse.I2`, `Parse.E2`, `Parse.var2`, `Parse.inv2`
  * `Parse.L1_cond`, `Parse.L1_step`, `Parse.L1_err`, `Parse.L1_exit`, `Parse.L1_init`    first loop
  * `Parse.L2_cond`, `Parse.L2_cond2`, `Parse.L2_step_a`, `Parse.L2_step_b`, `Parse.L2_two`, `Parse.L2_err`,
    `Parse.L2_exit`                       second loop (every `d[i]`, `d[i+1]` is in range; variant `l - i`)
  * `Parse.G_ret1`, `Parse.G_12`, `Parse.G_ret2`, `Parse.G_fin`   between the loops and the tail

  Main results (only hypothesis: `hsz : d.size < 2^63`; the call of `reduce128` is made with a non-zero
  significand and returns by `D128.Proofs.Total.reduce128_total`):
  * `Parse.triple_pre`, `Parse.reduce128_call`   a pure precondition may be assumed; the call returns
  * `Parse.parseNumber_triple`     ⦃True⦄ Gen.parseNumber g d neg sep ⦃⇓ r => .ok r = Parse.model g d.toList neg sep⦄
                                   (by `mvcgen`; total correctness: termination and no panic)
  * `Parse.parseNumber_eq_model`   `Gen.parseNumber g d neg sep = Parse.model g d.toList neg sep`
-/
import D128.Gen.Scan
import D128.Proofs.TotalReduce192
import Std.Tactic.Do

open Std.Do

set_option mvcgen.warning false
set_option linter.unusedSimpArgs false
set_option linter.unusedVariables false

namespace Parse

/-! ## generic glue -/

/-- A total-correctness triple over `Go.GoM` gives the returned value. -/
theorem ok_of_triple {α : Type} {f : Go.GoM α} {Q : α → Prop}
    (h : ⦃⌜True⌝⦄ f ⦃⇓ r => ⌜Q r⌝⦄) : ∃ r, f = .ok r ∧ Q r := by
  apply Except.of_wp_eq (prog := f) rfl (fun x => ∃ r, x = .ok r ∧ Q r)
  have h' := h
  simp only [Triple] at h'
  refine SPred.entails.trans h' ?_
  apply (wp f).mono
  simp

theorem triple_of_ok {α : Type} {f : Go.GoM α} {v : α} (h : f = .ok v) {Q : α → Prop}
    (hq : Q v) : ⦃⌜True⌝⦄ f ⦃⇓ r => ⌜Q r⌝⦄ := by
  subst h
  show ⦃⌜True⌝⦄ (pure v : Go.GoM α) ⦃⇓ r => ⌜Q r⌝⦄
  mvcgen

/-- `Go.bget` inside the bounds returns the element (and does not panic). -/
theorem bget_eq (d : Go.Bytes) (i : Int) (h0 : 0 ≤ i) (h1 : i.toNat < d.size) :
    Go.bget d i = .ok (d[i.toNat]'h1) := by
  unfold Go.bget
  rw [dif_pos ⟨h0, h1⟩]; rfl

/-! ## the functional model of `parseNumber` -/

/-- significand bound of both loops: `0x18ff_ffff_ffff_ffff` -/
abbrev K : UInt64 := 1801439850948198399
/-- bound for the two-digit step: `0x027f_ffff_ffff_ffff` -/
abbrev K2 : UInt64 := 180143985094819839

/-- state of the first loop -/
structure S1 where
  sig64 : UInt64
  nfrac : Int64
  caneof : Bool
  cansep : Bool
  cansgn : Bool
  sawdig : Bool
  sawdot : Bool
  sawexp : Bool
  deriving DecidableEq, Repr

/-- state of the second loop -/
structure S2 where
  nfrac : Int64
  trunc : Int8
  caneof : Bool
  cansep : Bool
  cansgn : Bool
  eneg : Bool
  sawdig : Bool
  sawdot : Bool
  sawexp : Bool
  sig : U128
  exp : Int64
  deriving DecidableEq, Repr

def isDig (c : UInt8) : Bool := (decide (c ≥ (48 : UInt8))) && (decide (c ≤ (57 : UInt8)))

def init1 : S1 := ⟨0, 0, false, false, false, false, false, false⟩

/-- one iteration of the first loop; `none` = `parseNumberSyntaxError` -/
def step1 (sep : Bool) (c : UInt8) (s : S1) : Option S1 :=
  if isDig c then
    some ⟨(s.sig64 * (10 : UInt64)) + (Go.conv (c - (48 : UInt8)) : UInt64),
          if s.sawdot then s.nfrac + (1 : Int64) else s.nfrac,
          true, true, false, true, s.sawdot, s.sawexp⟩
  else if c == (46 : UInt8) then
    if s.sawdot || (s.sawdig && !s.cansep) then none
    else some ⟨s.sig64, s.nfrac, true, false, false, s.sawdig, true, s.sawexp⟩
  else if (c == (69 : UInt8)) || (c == (101 : UInt8)) then
    if (!s.sawdig) || (!s.caneof) then none
    else some ⟨s.sig64, s.nfrac, false, false, true, s.sawdig, s.sawdot, true⟩
  else if c == (95 : UInt8) then
    if (!sep) || (!s.cansep) then none
    else some ⟨s.sig64, s.nfrac, false, false, false, s.sawdig, s.sawdot, s.sawexp⟩
  else none

/-- loop condition of the first loop (apart from `i < l`) -/
def cond1 (s : S1) : Bool := (!s.sawexp) && (decide (s.sig64 ≤ (1801439850948198399 : UInt64)))

/-- the first loop: returns the state at exit and the unread input -/
def loop1 (sep : Bool) : List UInt8 → S1 → Option (S1 × List UInt8)
  | [], s => some (s, [])
  | c :: rest, s =>
    if cond1 s then
      match step1 sep c s with
      | none => none
      | some s' => loop1 sep rest s'
    else some (s, c :: rest)

/-- the state with which the second loop starts -/
def toS2 (s : S1) : S2 :=
  ⟨s.nfrac, 0, s.caneof, s.cansep, s.cansgn, false, s.sawdig, s.sawdot, s.sawexp, ⟨s.sig64, 0⟩, 0⟩

/-- effect of a digit of the exponent (the accumulator saturates from `2^58` on) -/
def expDigit (c : UInt8) (e : Int64) : Int64 :=
  if e < (288230376151711744 : Int64) then (e * (10 : Int64)) + (Go.conv (c - (48 : UInt8)) : Int64) else e

/-- one iteration of the second loop on the character `c` for everything except the two-digit
    step; `none` = `parseNumberSyntaxError` -/
def step2 (sep : Bool) (c : UInt8) (s : S2) : Option S2 :=
  if isDig c then
    if s.sawexp then
      some ⟨s.nfrac, s.trunc, true, true, false, s.eneg, true, s.sawdot, s.sawexp, s.sig, expDigit c s.exp⟩
    else if s.sig.w1 ≤ (1801439850948198399 : UInt64) then
      some ⟨if s.sawdot then s.nfrac + (1 : Int64) else s.nfrac, s.trunc, true, true, false, s.eneg,
            true, s.sawdot, s.sawexp,
            Gen.U128.add64 (Gen.U128.mul64 s.sig (10 : UInt64)) (Go.conv (c - (48 : UInt8)) : UInt64), s.exp⟩
    else
      some ⟨if !s.sawdot then s.nfrac - (1 : Int64) else s.nfrac,
            if c != (48 : UInt8) then (1 : Int8) else s.trunc, true, true, false, s.eneg,
            true, s.sawdot, s.sawexp, s.sig, s.exp⟩
  else if c == (46 : UInt8) then
    if (s.sawdot || s.sawexp) || (s.sawdig && !s.cansep) then none
    else some ⟨s.nfrac, s.trunc, true, false, false, s.eneg, s.sawdig, true, s.sawexp, s.sig, s.exp⟩
  else if (c == (69 : UInt8)) || (c == (101 : UInt8)) then
    if ((!s.sawdig) || s.sawexp) || (!s.caneof) then none
    else some ⟨s.nfrac, s.trunc, false, false, true, s.eneg, s.sawdig, s.sawdot, true, s.sig, s.exp⟩
  else if c == (45 : UInt8) then
    if !s.cansgn then none
    else some ⟨s.nfrac, s.trunc, false, false, false, true, s.sawdig, s.sawdot, s.sawexp, s.sig, s.exp⟩
  else if c == (95 : UInt8) then
    if (!sep) || (!s.cansep) then none
    else some ⟨s.nfrac, s.trunc, false, false, false, s.eneg, s.sawdig, s.sawdot, s.sawexp, s.sig, s.exp⟩
  else if c == (43 : UInt8) then
    if !s.cansgn then none
    else some ⟨s.nfrac, s.trunc, false, false, false, s.eneg, s.sawdig, s.sawdot, s.sawexp, s.sig, s.exp⟩
  else none

/-- state after the two-digit step -/
def step22 (c c2 : UInt8) (s : S2) : S2 :=
  ⟨if s.sawdot then s.nfrac + (2 : Int64) else s.nfrac, s.trunc, true, true, false, s.eneg,
   true, s.sawdot, s.sawexp,
   Gen.U128.add64 (Gen.U128.mul64 s.sig (100 : UInt64))
     (((Go.conv (c - (48 : UInt8)) : UInt64) * (10 : UInt64)) + (Go.conv (c2 - (48 : UInt8)) : UInt64)),
   s.exp⟩

/-- the second loop -/
def loop2 (sep : Bool) : List UInt8 → S2 → Option S2
  | [], s => some s
  | [c], s =>
    match step2 sep c s with
    | none => none
    | some s' => some s'
  | c :: c2 :: rest, s =>
    if isDig c && !s.sawexp && decide (s.sig.w1 ≤ (1801439850948198399 : UInt64)) && decide (s.sig.w1 ≤ (180143985094819839 : UInt64)) && isDig c2 then
      loop2 sep rest (step22 c c2 s)
    else
      match step2 sep c s with
      | none => none
      | some s' => loop2 sep (c2 :: rest) s'

/-- both loops; `none` = a syntax error was raised inside a loop -/
def loops (sep : Bool) (cs : List UInt8) : Option S2 :=
  match loop1 sep cs init1 with
  | none => none
  | some (s1, rest) => loop2 sep rest (toS2 s1)

/-- the part of `parseNumber` after the loops -/
def finish (g : Globals) (neg : Bool) (s : S2) : Go.GoM (Gen.Decimal × Go.Err) :=
  if (!s.caneof) || (!s.sawdig) then pure ((default : Gen.Decimal), Go.Err.parseNumberSyntaxError)
  else if (s.sig.w0 ||| s.sig.w1) == (0 : UInt64) then pure (Gen.zero neg, Go.Err.nil)
  else
    let exp : Int64 := (if s.eneg then s.exp * (-1 : Int64) else s.exp) - s.nfrac
    if decide (exp > (6150 : Int64)) then pure (Gen.inf neg, Go.Err.parseNumberRangeError)
    else if decide (exp < (-6215 : Int64)) then pure (Gen.zero neg, Go.Err.nil)
    else do
      let r ← Gen.RoundingMode.reduce128 g.DefaultRoundingMode neg s.sig
                (Go.conv (exp + (6176 : Int64)) : Int16) s.trunc
      if decide (r.2 > (12287 : Int16)) then pure (Gen.inf neg, Go.Err.parseNumberRangeError)
      else pure (Gen.compose neg r.1 r.2, Go.Err.nil)

/-- the functional model of `parseNumber` -/
def model (g : Globals) (cs : List UInt8) (neg sep : Bool) : Go.GoM (Gen.Decimal × Go.Err) :=
  match loops sep cs with
  | none => pure ((default : Gen.Decimal), Go.Err.parseNumberSyntaxError)
  | some s => finish g neg s

/-! ## the generated code computes the model -/


theorem i64_add_toInt (a b : Int64) (h1 : -2^63 ≤ a.toInt + b.toInt) (h2 : a.toInt + b.toInt < 2^63) :
    (a + b).toInt = a.toInt + b.toInt := by
  rw [Int64.toInt_add]; apply Int.bmod_eq_of_le <;> omega

theorem i64_sub_toInt (a b : Int64) (h1 : -2^63 ≤ a.toInt - b.toInt) (h2 : a.toInt - b.toInt < 2^63) :
    (a - b).toInt = a.toInt - b.toInt := by
  rw [Int64.toInt_sub]; apply Int.bmod_eq_of_le <;> omega

theorem len_toInt (d : Go.Bytes) (h : d.size < 2^63) : (Go.len d).toInt = d.size := by
  unfold Go.len; exact Int64.toInt_ofNat_of_lt h

theorem isDig_fold (c : UInt8) : ((decide (c ≥ (48 : UInt8))) && (decide (c ≤ (57 : UInt8)))) = isDig c := rfl

@[simp] theorem isDig_46 : isDig 46 = false := by decide
@[simp] theorem isDig_69 : isDig 69 = false := by decide
@[simp] theorem isDig_101 : isDig 101 = false := by decide
@[simp] theorem isDig_95 : isDig 95 = false := by decide
@[simp] theorem isDig_45 : isDig 45 = false := by decide
@[simp] theorem isDig_43 : isDig 43 = false := by decide

theorem u64_le_false {a b : UInt64} (h : b < a) : (a ≤ b) = False := by
  simp only [eq_iff_iff, iff_false, UInt64.not_le]; exact h
theorem i64_lt_false {a b : Int64} (h : b ≤ a) : (a < b) = False := by
  simp only [eq_iff_iff, iff_false, Int64.not_lt]; exact h

theorem idx_eq (i : Int64) : Go.idx i = i.toInt := rfl

def after1 (sep : Bool) (cs : List UInt8) (s : S1) : Option S2 :=
  match loop1 sep cs s with
  | none => none
  | some (s1, rest) => loop2 sep rest (toS2 s1)

theorem after1_cons (sep : Bool) (c : UInt8) (rest : List UInt8) (s : S1) (h : cond1 s = true) :
    after1 sep (c :: rest) s = (step1 sep c s).bind (after1 sep rest) := by
  simp only [after1, loop1, h, if_true]
  cases step1 sep c s <;> simp [after1]

theorem after1_exit (sep : Bool) (cs : List UInt8) (s : S1) (h : cond1 s = false ∨ cs = []) :
    after1 sep cs s = loop2 sep cs (toS2 s) := by
  cases cs with
  | nil => simp [after1, loop1]
  | cons c rest =>
    rcases h with h | h
    · simp [after1, loop1, h]
    · simp at h

abbrev T1 := UInt64 × Int64 × Bool × Bool × Bool × Bool × Bool × Bool × Int64
abbrev B1 := Option (Gen.Decimal × Go.Err) × T1
abbrev T2 := Int64 × Int8 × Bool × Bool × Bool × Bool × Bool × Bool × Bool × Int64 × U128 × Int64
abbrev B2 := Option (Gen.Decimal × Go.Err) × T2

def st1 (t : T1) : S1 := ⟨t.1, t.2.1, t.2.2.1, t.2.2.2.1, t.2.2.2.2.1, t.2.2.2.2.2.1, t.2.2.2.2.2.2.1, t.2.2.2.2.2.2.2.1⟩
def ix1 (t : T1) : Int64 := t.2.2.2.2.2.2.2.2
def st2 (t : T2) : S2 := ⟨t.1, t.2.1, t.2.2.1, t.2.2.2.1, t.2.2.2.2.1, t.2.2.2.2.2.1, t.2.2.2.2.2.2.1, t.2.2.2.2.2.2.2.1,
  t.2.2.2.2.2.2.2.2.1, t.2.2.2.2.2.2.2.2.2.2.1, t.2.2.2.2.2.2.2.2.2.2.2⟩
def ix2 (t : T2) : Int64 := t.2.2.2.2.2.2.2.2.2.1

abbrev synErr : Gen.Decimal × Go.Err := ((default : Gen.Decimal), Go.Err.parseNumberSyntaxError)

abbrev PS : PostShape := PostShape.except Go.Panic PostShape.pure

/-- loop invariant of the first loop (continuing) -/
def I1 (d : Go.Bytes) (sep : Bool) (b : B1) : Prop :=
  b.1 = none ∧ 0 ≤ (ix1 b.2).toInt ∧ (ix1 b.2).toInt ≤ d.size ∧
    after1 sep (d.toList.drop (ix1 b.2).toInt.toNat) (st1 b.2) = loops sep d.toList

/-- exit condition of the first loop -/
def E1 (d : Go.Bytes) (sep : Bool) (b : B1) : Prop :=
  match b.1 with
  | some v => v = synErr ∧ loops sep d.toList = none
  | none => 0 ≤ (ix1 b.2).toInt ∧ (ix1 b.2).toInt ≤ d.size ∧
      loop2 sep (d.toList.drop (ix1 b.2).toInt.toNat) (toS2 (st1 b.2)) = loops sep d.toList

def var1 (d : Go.Bytes) : WhileVariant B1 PS := fun b => ⟨d.size - (ix1 b.2).toInt.toNat⟩
def inv1 (d : Go.Bytes) (sep : Bool) : WhileInvariant B1 B1 PS :=
  ⇓ x => match x with
    | .inl b => ⌜I1 d sep b⌝
    | .inr b => ⌜E1 d sep b⌝

def I2 (d : Go.Bytes) (sep : Bool) (b : B2) : Prop :=
  b.1 = none ∧ 0 ≤ (ix2 b.2).toInt ∧ (ix2 b.2).toInt ≤ d.size ∧
    loop2 sep (d.toList.drop (ix2 b.2).toInt.toNat) (st2 b.2) = loops sep d.toList

def E2 (d : Go.Bytes) (sep : Bool) (b : B2) : Prop :=
  match b.1 with
  | some v => v = synErr ∧ loops sep d.toList = none
  | none => some (st2 b.2) = loops sep d.toList

def var2 (d : Go.Bytes) : WhileVariant B2 PS := fun b => ⟨d.size - (ix2 b.2).toInt.toNat⟩
def inv2 (d : Go.Bytes) (sep : Bool) : WhileInvariant B2 B2 PS :=
  ⇓ x => match x with
    | .inl b => ⌜I2 d sep b⌝
    | .inr b => ⌜E2 d sep b⌝

theorem pre1_iff (d : Go.Bytes) (sep : Bool) (b : B1) (mb : Nat) :
    ((WhileVariant.eval (var1 d) b mb).down ∧ ((inv1 d sep).fst (Sum.inl b)).down) ↔
      (mb = d.size - (ix1 b.2).toInt.toNat ∧ I1 d sep b) := by
  simp [var1, inv1]

theorem pre2_iff (d : Go.Bytes) (sep : Bool) (b : B2) (mb : Nat) :
    ((WhileVariant.eval (var2 d) b mb).down ∧ ((inv2 d sep).fst (Sum.inl b)).down) ↔
      (mb = d.size - (ix2 b.2).toInt.toNat ∧ I2 d sep b) := by
  simp [var2, inv2]

/-- facts about the index derived from the loop condition -/
theorem idx_facts (d : Go.Bytes) (hsz : d.size < 2^63) (i : Int64) (h0 : 0 ≤ i.toInt)
    (hlt : i < Go.len d) :
    0 ≤ Go.idx i ∧ (Go.idx i).toNat < d.size ∧ (i + 1).toInt = i.toInt + 1 := by
  rw [Int64.lt_iff_toInt_lt, len_toInt d hsz] at hlt
  have h1 := Int64.toInt_one
  refine ⟨h0, ?_, ?_⟩
  · rw [idx_eq]; omega
  · rw [i64_add_toInt] <;> omega

theorem drop_step (d : Go.Bytes) (n : Nat) (h : n < d.size) :
    d.toList.drop n = d[n] :: d.toList.drop (n + 1) := by
  rw [List.drop_eq_getElem_cons (by simpa using h)]
  simp

section loop1
variable {d : Go.Bytes} {sep : Bool} (hsz : d.size < 2^63)
include hsz

theorem L1_cond {b : B1} {mb : Nat}
    (hpre : (WhileVariant.eval (var1 d) b mb).down ∧ ((inv1 d sep).fst (Sum.inl b)).down)
    (hc : ((!b.2.2.2.2.2.2.2.2.1) && decide (b.2.1 ≤ (1801439850948198399 : UInt64)) &&
            decide (ix1 b.2 < Go.len d)) = true) :
    0 ≤ Go.idx (ix1 b.2) ∧ (Go.idx (ix1 b.2)).toNat < d.size := by
  rw [pre1_iff] at hpre
  obtain ⟨-, -, h0, -, -⟩ := hpre
  simp only [Bool.and_eq_true, decide_eq_true_eq] at hc
  have := idx_facts d hsz _ h0 hc.2
  exact ⟨this.1, this.2.1⟩

theorem L1_step {b : B1} {mb : Nat}
    (hpre : (WhileVariant.eval (var1 d) b mb).down ∧ ((inv1 d sep).fst (Sum.inl b)).down)
    (hc : ((!b.2.2.2.2.2.2.2.2.1) && decide (b.2.1 ≤ (1801439850948198399 : UInt64)) &&
            decide (ix1 b.2 < Go.len d)) = true)
    (hlt : (Go.idx (ix1 b.2)).toNat < d.size)
    (c : UInt8) (hcv : d[(Go.idx (ix1 b.2)).toNat]'hlt = c)
    (t' : T1) (hstep : step1 sep c (st1 b.2) = some (st1 t'))
    (hi : ix1 t' = ix1 b.2 + 1) :
    ∃ a, (WhileVariant.eval (var1 d) (none, t') a).down ∧ a < mb ∧
      ((inv1 d sep).fst (Sum.inl (none, t'))).down := by
  rw [pre1_iff] at hpre
  obtain ⟨hmb, -, h0, h1, hinv⟩ := hpre
  have hcond : cond1 (st1 b.2) = true := by
    have hc' := hc
    rw [Bool.and_eq_true] at hc'
    exact hc'.1
  simp only [Bool.and_eq_true, decide_eq_true_eq] at hc
  obtain ⟨-, hlt', hadd⟩ := idx_facts d hsz _ h0 hc.2
  rw [idx_eq] at hlt'
  rw [drop_step d _ hlt', after1_cons _ _ _ _ hcond] at hinv
  subst hcv
  simp only [idx_eq] at hstep
  rw [hstep] at hinv
  refine ⟨d.size - (ix1 t').toInt.toNat, ?_, ?_, ?_⟩
  · simp [var1]
  · rw [hi, hadd]; omega
  · show I1 d sep (none, t')
    refine ⟨rfl, ?_, ?_, ?_⟩
    · rw [hi, hadd]; omega
    · rw [hi, hadd]; omega
    · rw [hi, hadd]
      have : (ix1 b.2).toInt.toNat + 1 = ((ix1 b.2).toInt + 1).toNat := by omega
      rw [← this]; exact hinv

theorem L1_err {b : B1} {mb : Nat}
    (hpre : (WhileVariant.eval (var1 d) b mb).down ∧ ((inv1 d sep).fst (Sum.inl b)).down)
    (hc : ((!b.2.2.2.2.2.2.2.2.1) && decide (b.2.1 ≤ (1801439850948198399 : UInt64)) &&
            decide (ix1 b.2 < Go.len d)) = true)
    (hlt : (Go.idx (ix1 b.2)).toNat < d.size)
    (c : UInt8) (hcv : d[(Go.idx (ix1 b.2)).toNat]'hlt = c)
    (hstep : step1 sep c (st1 b.2) = none) (t' : T1) :
    ((inv1 d sep).fst (Sum.inr (some synErr, t'))).down := by
  rw [pre1_iff] at hpre
  obtain ⟨hmb, -, h0, h1, hinv⟩ := hpre
  have hcond : cond1 (st1 b.2) = true := by
    have hc' := hc
    rw [Bool.and_eq_true] at hc'
    exact hc'.1
  simp only [Bool.and_eq_true, decide_eq_true_eq] at hc
  obtain ⟨-, hlt', hadd⟩ := idx_facts d hsz _ h0 hc.2
  rw [idx_eq] at hlt'
  rw [drop_step d _ hlt', after1_cons _ _ _ _ hcond] at hinv
  subst hcv
  simp only [idx_eq] at hstep
  rw [hstep] at hinv
  show E1 d sep (some synErr, t')
  exact ⟨rfl, hinv.symm⟩

theorem L1_exit {b : B1} {mb : Nat}
    (hpre : (WhileVariant.eval (var1 d) b mb).down ∧ ((inv1 d sep).fst (Sum.inl b)).down)
    (hc : ¬ ((!b.2.2.2.2.2.2.2.2.1) && decide (b.2.1 ≤ (1801439850948198399 : UInt64)) &&
            decide (ix1 b.2 < Go.len d)) = true) :
    ((inv1 d sep).fst (Sum.inr (none, b.2))).down := by
  rw [pre1_iff] at hpre
  obtain ⟨hmb, -, h0, h1, hinv⟩ := hpre
  show E1 d sep (none, b.2)
  refine ⟨h0, h1, ?_⟩
  rw [← hinv, after1_exit]
  by_cases hcond : cond1 (st1 b.2) = true
  · right
    have : ¬ (ix1 b.2).toInt < d.size := by
      intro hlt
      apply hc
      rw [Bool.and_eq_true]
      refine ⟨hcond, ?_⟩
      rw [decide_eq_true_eq, Int64.lt_iff_toInt_lt, len_toInt d hsz]; exact hlt
    apply List.drop_eq_nil_of_le
    rw [Array.length_toList]; omega
  · left; simpa using hcond

end loop1


/-! ### second loop -/

theorem loop2_single (sep : Bool) (c : UInt8) (rest : List UInt8) (s : S2)
    (h : ∀ c2 rest', rest = c2 :: rest' →
      (isDig c && !s.sawexp && decide (s.sig.w1 ≤ (1801439850948198399 : UInt64)) &&
        decide (s.sig.w1 ≤ (180143985094819839 : UInt64)) && isDig c2) = false) :
    loop2 sep (c :: rest) s = (step2 sep c s).bind (loop2 sep rest) := by
  cases rest with
  | nil => simp only [loop2]; cases step2 sep c s <;> rfl
  | cons c2 rest' =>
    simp only [loop2, h c2 rest' rfl]
    cases step2 sep c s <;> rfl

theorem loop2_two (sep : Bool) (c c2 : UInt8) (rest : List UInt8) (s : S2)
    (h : (isDig c && !s.sawexp && decide (s.sig.w1 ≤ (1801439850948198399 : UInt64)) &&
        decide (s.sig.w1 ≤ (180143985094819839 : UInt64)) && isDig c2) = true) :
    loop2 sep (c :: c2 :: rest) s = loop2 sep rest (step22 c c2 s) := by
  simp only [loop2, h, if_true]

section loop2
variable {d : Go.Bytes} {sep : Bool} (hsz : d.size < 2^63)
include hsz

theorem idx_facts2 (i : Int64) (h0 : 0 ≤ i.toInt) (hlt : i < Go.len d - 1) :
    0 ≤ Go.idx (i + 1) ∧ (Go.idx (i + 1)).toNat < d.size ∧ (i + 1).toInt = i.toInt + 1 ∧
      (i + 1 + 1).toInt = i.toInt + 2 := by
  have hl := len_toInt d hsz
  have h1 := Int64.toInt_one
  have hsub : (Go.len d - 1).toInt = (d.size : Int) - 1 := by
    rw [i64_sub_toInt] <;> omega
  rw [Int64.lt_iff_toInt_lt, hsub] at hlt
  have ha : (i + 1).toInt = i.toInt + 1 := by rw [i64_add_toInt] <;> omega
  refine ⟨?_, ?_, ha, ?_⟩
  · rw [idx_eq, ha]; omega
  · rw [idx_eq, ha]; omega
  · rw [i64_add_toInt] <;> omega

theorem L2_cond {b : B2} {mb : Nat}
    (hpre : (WhileVariant.eval (var2 d) b mb).down ∧ ((inv2 d sep).fst (Sum.inl b)).down)
    (hc : decide (ix2 b.2 < Go.len d) = true) :
    0 ≤ Go.idx (ix2 b.2) ∧ (Go.idx (ix2 b.2)).toNat < d.size := by
  rw [pre2_iff] at hpre
  obtain ⟨-, -, h0, -, -⟩ := hpre
  simp only [decide_eq_true_eq] at hc
  have := idx_facts d hsz _ h0 hc
  exact ⟨this.1, this.2.1⟩

theorem L2_cond2 {b : B2} {mb : Nat} {x : Bool}
    (hpre : (WhileVariant.eval (var2 d) b mb).down ∧ ((inv2 d sep).fst (Sum.inl b)).down)
    (hc : (x && decide (ix2 b.2 < Go.len d - 1)) = true) :
    0 ≤ Go.idx (ix2 b.2 + 1) ∧ (Go.idx (ix2 b.2 + 1)).toNat < d.size := by
  rw [pre2_iff] at hpre
  obtain ⟨-, -, h0, -, -⟩ := hpre
  simp only [Bool.and_eq_true, decide_eq_true_eq] at hc
  have := idx_facts2 hsz _ h0 hc.2
  exact ⟨this.1, this.2.1⟩

/-- single step, the second character was not inspected -/
theorem L2_step_a {b : B2} {mb : Nat}
    (hpre : (WhileVariant.eval (var2 d) b mb).down ∧ ((inv2 d sep).fst (Sum.inl b)).down)
    (hc : decide (ix2 b.2 < Go.len d) = true)
    (hlt : (Go.idx (ix2 b.2)).toNat < d.size)
    (c : UInt8) (hcv : d[(Go.idx (ix2 b.2)).toNat]'hlt = c)
    (hn : isDig c = false ∨ (st2 b.2).sawexp = true ∨ ¬ (st2 b.2).sig.w1 ≤ (1801439850948198399 : UInt64) ∨
        ((st2 b.2).sig.w1 ≤ (180143985094819839 : UInt64) → ¬ ix2 b.2 < Go.len d - 1))
    (t' : T2) (hstep : step2 sep c (st2 b.2) = some (st2 t'))
    (hi : ix2 t' = ix2 b.2 + 1) :
    ∃ a, (WhileVariant.eval (var2 d) (none, t') a).down ∧ a < mb ∧
      ((inv2 d sep).fst (Sum.inl (none, t'))).down := by
  rw [pre2_iff] at hpre
  obtain ⟨hmb, -, h0, h1, hinv⟩ := hpre
  simp only [decide_eq_true_eq] at hc
  obtain ⟨-, hlt', hadd⟩ := idx_facts d hsz _ h0 hc
  rw [idx_eq] at hlt'
  subst hcv
  simp only [idx_eq] at hstep hn
  rw [drop_step d _ hlt', loop2_single, hstep] at hinv
  · refine ⟨d.size - (ix2 t').toInt.toNat, ?_, ?_, ?_⟩
    · simp [var2]
    · rw [hi, hadd]; omega
    · show I2 d sep (none, t')
      refine ⟨rfl, ?_, ?_, ?_⟩
      · rw [hi, hadd]; omega
      · rw [hi, hadd]; omega
      · rw [hi, hadd]
        have : (ix2 b.2).toInt.toNat + 1 = ((ix2 b.2).toInt + 1).toNat := by omega
        rw [← this]; exact hinv
  · intro c2 rest' hrest
    have hne : (ix2 b.2).toInt.toNat + 1 < d.size := by
      have : (d.toList.drop ((ix2 b.2).toInt.toNat + 1)).length ≠ 0 := by rw [hrest]; simp
      simp only [List.length_drop, Array.length_toList] at this
      omega
    have hl := len_toInt d hsz
    have h1' := Int64.toInt_one
    have hsub : (Go.len d - 1).toInt = (d.size : Int) - 1 := by
      rw [i64_sub_toInt] <;> omega
    have hlt2 : ix2 b.2 < Go.len d - 1 := by
      rw [Int64.lt_iff_toInt_lt, hsub]; omega
    rcases hn with hn | hn | hn | hn
    · simp only [hn, Bool.false_and]
    · simp only [hn, Bool.not_true, Bool.and_false, Bool.false_and]
    · simp only [hn, decide_false, Bool.and_false, Bool.false_and]
    · by_cases hk : (st2 b.2).sig.w1 ≤ (180143985094819839 : UInt64)
      · exact absurd hlt2 (hn hk)
      · simp only [hk, decide_false, Bool.and_false, Bool.false_and]

/-- single step, the second character was inspected and is not a digit -/
theorem L2_step_b {b : B2} {mb : Nat}
    (hpre : (WhileVariant.eval (var2 d) b mb).down ∧ ((inv2 d sep).fst (Sum.inl b)).down)
    (hc : decide (ix2 b.2 < Go.len d) = true)
    (hlt : (Go.idx (ix2 b.2)).toNat < d.size)
    (c : UInt8) (hcv : d[(Go.idx (ix2 b.2)).toNat]'hlt = c)
    (hlt2 : (Go.idx (ix2 b.2 + 1)).toNat < d.size)
    (c2 : UInt8) (hcv2 : d[(Go.idx (ix2 b.2 + 1)).toNat]'hlt2 = c2)
    (hn : isDig c2 = false)
    (t' : T2) (hstep : step2 sep c (st2 b.2) = some (st2 t'))
    (hi : ix2 t' = ix2 b.2 + 1) :
    ∃ a, (WhileVariant.eval (var2 d) (none, t') a).down ∧ a < mb ∧
      ((inv2 d sep).fst (Sum.inl (none, t'))).down := by
  rw [pre2_iff] at hpre
  obtain ⟨hmb, -, h0, h1, hinv⟩ := hpre
  simp only [decide_eq_true_eq] at hc
  obtain ⟨-, hlt', hadd⟩ := idx_facts d hsz _ h0 hc
  rw [idx_eq] at hlt'
  subst hcv
  simp only [idx_eq] at hstep
  rw [drop_step d _ hlt', loop2_single, hstep] at hinv
  · refine ⟨d.size - (ix2 t').toInt.toNat, ?_, ?_, ?_⟩
    · simp [var2]
    · rw [hi, hadd]; omega
    · show I2 d sep (none, t')
      refine ⟨rfl, ?_, ?_, ?_⟩
      · rw [hi, hadd]; omega
      · rw [hi, hadd]; omega
      · rw [hi, hadd]
        have : (ix2 b.2).toInt.toNat + 1 = ((ix2 b.2).toInt + 1).toNat := by omega
        rw [← this]; exact hinv
  · intro c2' rest' hrest
    have hlt2' : (ix2 b.2).toInt.toNat + 1 < d.size := by
      rw [idx_eq, hadd] at hlt2; omega
    rw [drop_step d _ hlt2'] at hrest
    have : d[(ix2 b.2).toInt.toNat + 1] = c2' := (List.cons.inj hrest).1
    have h2 : c2' = c2 := by
      rw [← this, ← hcv2]
      congr 1
      rw [idx_eq, hadd]; omega
    rw [h2, hn]; simp

/-- the two-digit step -/
theorem L2_two {b : B2} {mb : Nat}
    (hpre : (WhileVariant.eval (var2 d) b mb).down ∧ ((inv2 d sep).fst (Sum.inl b)).down)
    (hc : decide (ix2 b.2 < Go.len d) = true)
    (hlt : (Go.idx (ix2 b.2)).toNat < d.size)
    (c : UInt8) (hcv : d[(Go.idx (ix2 b.2)).toNat]'hlt = c)
    (hlt2 : (Go.idx (ix2 b.2 + 1)).toNat < d.size)
    (c2 : UInt8) (hcv2 : d[(Go.idx (ix2 b.2 + 1)).toNat]'hlt2 = c2)
    {x : Bool} (hy2 : (decide ((st2 b.2).sig.w1 ≤ (180143985094819839 : UInt64)) && x) = true)
    (hy1 : (isDig c && !(st2 b.2).sawexp && decide ((st2 b.2).sig.w1 ≤ (1801439850948198399 : UInt64)) &&
        isDig c2) = true)
    (t' : T2) (hstep : step22 c c2 (st2 b.2) = st2 t')
    (hi : ix2 t' = ix2 b.2 + 1 + 1) :
    ∃ a, (WhileVariant.eval (var2 d) (none, t') a).down ∧ a < mb ∧
      ((inv2 d sep).fst (Sum.inl (none, t'))).down := by
  rw [pre2_iff] at hpre
  obtain ⟨hmb, -, h0, h1, hinv⟩ := hpre
  simp only [decide_eq_true_eq] at hc
  obtain ⟨-, hlt', hadd⟩ := idx_facts d hsz _ h0 hc
  rw [idx_eq] at hlt'
  have hlt2' : (ix2 b.2).toInt.toNat + 1 < d.size := by
    rw [idx_eq, hadd] at hlt2; omega
  have hadd2 : (ix2 b.2 + 1 + 1).toInt = (ix2 b.2).toInt + 2 := by
    have h1' := Int64.toInt_one
    rw [i64_add_toInt] <;> omega
  have e2 : d[(ix2 b.2).toInt.toNat + 1] = c2 := by
    rw [← hcv2]; congr 1; rw [idx_eq, hadd]; omega
  subst hcv
  have hy : (isDig d[(Go.idx (ix2 b.2)).toNat] && !(st2 b.2).sawexp &&
      decide ((st2 b.2).sig.w1 ≤ (1801439850948198399 : UInt64)) &&
        decide ((st2 b.2).sig.w1 ≤ (180143985094819839 : UInt64)) && isDig c2) = true := by
    simp only [Bool.and_eq_true] at hy1 hy2 ⊢
    exact ⟨⟨hy1.1, hy2.1⟩, hy1.2⟩
  simp only [idx_eq] at hstep hy
  rw [drop_step d _ hlt', drop_step d _ hlt2', e2, loop2_two _ _ _ _ _ hy, hstep] at hinv
  refine ⟨d.size - (ix2 t').toInt.toNat, ?_, ?_, ?_⟩
  · simp [var2]
  · rw [hi, hadd2]; omega
  · show I2 d sep (none, t')
    refine ⟨rfl, ?_, ?_, ?_⟩
    · rw [hi, hadd2]; omega
    · rw [hi, hadd2]; omega
    · rw [hi, hadd2]
      have : (ix2 b.2).toInt.toNat + 1 + 1 = ((ix2 b.2).toInt + 2).toNat := by omega
      rw [← this]; exact hinv

theorem L2_err {b : B2} {mb : Nat}
    (hpre : (WhileVariant.eval (var2 d) b mb).down ∧ ((inv2 d sep).fst (Sum.inl b)).down)
    (hc : decide (ix2 b.2 < Go.len d) = true)
    (hlt : (Go.idx (ix2 b.2)).toNat < d.size)
    (c : UInt8) (hcv : d[(Go.idx (ix2 b.2)).toNat]'hlt = c)
    (hnd : isDig c = false)
    (hstep : step2 sep c (st2 b.2) = none) (t' : T2) :
    ((inv2 d sep).fst (Sum.inr (some synErr, t'))).down := by
  rw [pre2_iff] at hpre
  obtain ⟨hmb, -, h0, h1, hinv⟩ := hpre
  simp only [decide_eq_true_eq] at hc
  obtain ⟨-, hlt', hadd⟩ := idx_facts d hsz _ h0 hc
  rw [idx_eq] at hlt'
  subst hcv
  simp only [idx_eq] at hstep hnd
  rw [drop_step d _ hlt', loop2_single, hstep] at hinv
  · show E2 d sep (some synErr, t')
    exact ⟨rfl, hinv.symm⟩
  · intro c2 rest' _
    simp only [hnd, Bool.false_and]

theorem L2_exit {b : B2} {mb : Nat}
    (hpre : (WhileVariant.eval (var2 d) b mb).down ∧ ((inv2 d sep).fst (Sum.inl b)).down)
    (hc : ¬ decide (ix2 b.2 < Go.len d) = true) :
    ((inv2 d sep).fst (Sum.inr (none, b.2))).down := by
  rw [pre2_iff] at hpre
  obtain ⟨hmb, -, h0, h1, hinv⟩ := hpre
  show E2 d sep (none, b.2)
  show some (st2 b.2) = loops sep d.toList
  rw [← hinv]
  have : ¬ (ix2 b.2).toInt < d.size := by
    intro hlt
    apply hc
    rw [decide_eq_true_eq, Int64.lt_iff_toInt_lt, len_toInt d hsz]; exact hlt
  rw [List.drop_eq_nil_of_le (by rw [Array.length_toList]; omega)]
  rfl

end loop2

/-! ### glue between the loops and the tail -/

theorem L1_init (d : Go.Bytes) (sep : Bool) :
    ((inv1 d sep).fst (Sum.inl (none, 0, 0, false, false, false, false, false, false, 0))).down := by
  show I1 d sep (none, 0, 0, false, false, false, false, false, false, 0)
  refine ⟨rfl, by decide, ?_, ?_⟩
  · show (0 : Int64).toInt ≤ _
    rw [show (0 : Int64).toInt = 0 from rfl]; omega
  · show after1 sep (List.drop (0 : Int64).toInt.toNat d.toList) init1 = loops sep d.toList
    rw [show (0 : Int64).toInt.toNat = 0 from rfl, List.drop_zero]
    rfl

theorem G_ret1 {d : Go.Bytes} {sep : Bool} (g : Globals) (neg : Bool) {b : B1} {a : Gen.Decimal × Go.Err}
    (h : ((inv1 d sep).fst (Sum.inr b)).down) (hb : b.1 = some a) :
    Except.ok a = model g d.toList neg sep := by
  have h' : E1 d sep b := h
  unfold E1 at h'
  rw [hb] at h'
  simp only at h'
  rw [model, h'.2, h'.1]; rfl

theorem G_12 {d : Go.Bytes} {sep : Bool} {b : B1}
    (h : ((inv1 d sep).fst (Sum.inr b)).down) (hb : b.1 = none) :
    ((inv2 d sep).fst (Sum.inl (none, b.2.2.1, 0, b.2.2.2.1, b.2.2.2.2.1, b.2.2.2.2.2.1, false,
      b.2.2.2.2.2.2.1, b.2.2.2.2.2.2.2.1, b.2.2.2.2.2.2.2.2.1, b.2.2.2.2.2.2.2.2.2, ⟨b.2.1, 0⟩, 0))).down := by
  have h' : E1 d sep b := h
  unfold E1 at h'
  rw [hb] at h'
  simp only at h'
  exact ⟨rfl, h'.1, h'.2.1, h'.2.2⟩

theorem G_ret2 {d : Go.Bytes} {sep : Bool} (g : Globals) (neg : Bool) {b : B2} {a : Gen.Decimal × Go.Err}
    (h : ((inv2 d sep).fst (Sum.inr b)).down) (hb : b.1 = some a) :
    Except.ok a = model g d.toList neg sep := by
  have h' : E2 d sep b := h
  unfold E2 at h'
  rw [hb] at h'
  simp only at h'
  rw [model, h'.2, h'.1]; rfl

theorem G_fin {d : Go.Bytes} {sep : Bool} (g : Globals) (neg : Bool) {b : B2}
    (h : ((inv2 d sep).fst (Sum.inr b)).down) (hb : b.1 = none) :
    model g d.toList neg sep = finish g neg (st2 b.2) := by
  have h' : E2 d sep b := h
  unfold E2 at h'
  rw [hb] at h'
  simp only at h'
  rw [model, ← h']

/-! ### the tail -/

theorem finish_syn (g : Globals) (neg : Bool) (s : S2) (h : ((!s.caneof) || (!s.sawdig)) = true) :
    finish g neg s = .ok ((default : Gen.Decimal), Go.Err.parseNumberSyntaxError) := by
  unfold finish; rw [if_pos h]; rfl

theorem finish_zero (g : Globals) (neg : Bool) (s : S2) (h : ¬ ((!s.caneof) || (!s.sawdig)) = true)
    (hz : ((s.sig.w0 ||| s.sig.w1) == (0 : UInt64)) = true) :
    finish g neg s = .ok (Gen.zero neg, Go.Err.nil) := by
  unfold finish; rw [if_neg h, if_pos hz]; rfl

theorem finish_big (g : Globals) (neg : Bool) (s : S2) (h : ¬ ((!s.caneof) || (!s.sawdig)) = true)
    (hz : ¬ ((s.sig.w0 ||| s.sig.w1) == (0 : UInt64)) = true)
    (e : Int64) (he : e = (if s.eneg then s.exp * (-1 : Int64) else s.exp) - s.nfrac)
    (hb : decide (e > (6150 : Int64)) = true) :
    finish g neg s = .ok (Gen.inf neg, Go.Err.parseNumberRangeError) := by
  subst he
  unfold finish; rw [if_neg h, if_neg hz]
  simp only []
  rw [if_pos hb]; rfl

theorem finish_small (g : Globals) (neg : Bool) (s : S2) (h : ¬ ((!s.caneof) || (!s.sawdig)) = true)
    (hz : ¬ ((s.sig.w0 ||| s.sig.w1) == (0 : UInt64)) = true)
    (e : Int64) (he : e = (if s.eneg then s.exp * (-1 : Int64) else s.exp) - s.nfrac)
    (hb : ¬ decide (e > (6150 : Int64)) = true) (hs : decide (e < (-6215 : Int64)) = true) :
    finish g neg s = .ok (Gen.zero neg, Go.Err.nil) := by
  subst he
  unfold finish; rw [if_neg h, if_neg hz]
  simp only []
  rw [if_neg hb, if_pos hs]; rfl

theorem finish_red (g : Globals) (neg : Bool) (s : S2) (h : ¬ ((!s.caneof) || (!s.sawdig)) = true)
    (hz : ¬ ((s.sig.w0 ||| s.sig.w1) == (0 : UInt64)) = true)
    (e : Int64) (he : e = (if s.eneg then s.exp * (-1 : Int64) else s.exp) - s.nfrac)
    (hb : ¬ decide (e > (6150 : Int64)) = true) (hs : ¬ decide (e < (-6215 : Int64)) = true)
    (r : U128 × Int16)
    (hr : Gen.RoundingMode.reduce128 g.DefaultRoundingMode neg s.sig
            (Go.conv (e + (6176 : Int64)) : Int16) s.trunc = .ok r) :
    finish g neg s = .ok (if decide (r.2 > (12287 : Int16)) then (Gen.inf neg, Go.Err.parseNumberRangeError)
      else (Gen.compose neg r.1 r.2, Go.Err.nil)) := by
  subst he
  unfold finish; rw [if_neg h, if_neg hz]
  simp only []
  rw [if_neg hb, if_neg hs, hr]
  show (if _ then _ else _) = _
  split <;> rfl

@[spec] theorem bget_spec (d : Go.Bytes) (i : Int) (h0 : 0 ≤ i) (h1 : i.toNat < d.size) :
    ⦃⌜True⌝⦄ Go.bget d i ⦃⇓ r => ⌜d[i.toNat]'h1 = r⌝⦄ :=
  triple_of_ok (bget_eq d i h0 h1) rfl

/-- a pure precondition of a triple may be assumed -/
theorem triple_pre {α : Type} {f : Go.GoM α} {P : Prop} {Q : PostCond α PS}
    (h : P → ⦃⌜True⌝⦄ f ⦃Q⦄) : ⦃⌜P⌝⦄ f ⦃Q⦄ := by
  unfold Triple at *
  exact SPred.pure_elim' h

/-- the call of `reduce128` that `parseNumber` makes (non-zero significand) returns -/
theorem reduce128_call (rm : UInt8) (neg : Bool) (sig : U128) (exp : Int16) (trunc : Int8)
    (hz : ¬ ((sig.w0 ||| sig.w1) == (0 : UInt64)) = true) :
    ∃ r, Gen.RoundingMode.reduce128 rm neg sig exp trunc = .ok r := by
  apply D128.Proofs.Total.reduce128_total
  left
  intro h0
  apply hz
  rw [beq_iff_eq, UInt64.or_eq_zero_iff]
  have h1 := sig.w0.toNat_lt
  unfold U128.toNat at h0
  constructor <;> apply UInt64.toNat_inj.mp <;> simp <;> omega

set_option maxHeartbeats 400000 in
theorem parseNumber_triple (g : Globals) (d : Go.Bytes) (neg sep : Bool) (hsz : d.size < 2^63) :
   ⦃⌜True⌝⦄ Gen.parseNumber g d neg sep ⦃⇓ r => ⌜.ok r = model g d.toList neg sep⌝⦄ := by
  have hspec : ∀ rm neg sig exp trunc,
      ⦃⌜∃ r, Gen.RoundingMode.reduce128 rm neg sig exp trunc = .ok r⌝⦄
      Gen.RoundingMode.reduce128 rm neg sig exp trunc
      ⦃⇓ r => ⌜Gen.RoundingMode.reduce128 rm neg sig exp trunc = .ok r⌝⦄ := by
    intro rm neg sig exp trunc
    apply triple_pre
    intro ⟨r, hr⟩
    exact triple_of_ok hr hr
  mvcgen [Gen.parseNumber, hspec, -D128.Proofs.Total.reduce128_total_triple]
  case inv1 => exact var1 d
  case inv2 => exact inv1 d sep
  case inv3 => exact var2 d
  case inv4 => exact inv2 d sep
  case vc1 hc hpre => exact (L1_cond hsz hpre hc).1
  case vc2 hc hpre => exact (L1_cond hsz hpre hc).2
  case vc3 | vc4 | vc5 | vc6 | vc7 | vc8 | vc9 | vc10 | vc11 =>
    first
    | refine L1_step hsz (by assumption) (by assumption) (L1_cond hsz (by assumption) (by assumption)).2 _ (by assumption) _ ?_ ?_
      · simp +zetaDelta only [ix1, st1, isDig_fold] at *
        simp at *
        simp_all [step1]
      · rfl
    | refine L1_err hsz (by assumption) (by assumption) (L1_cond hsz (by assumption) (by assumption)).2 _ (by assumption) ?_ _
      simp +zetaDelta only [ix1, st1, isDig_fold] at *
      simp at *
      simp_all [step1]
  case vc12 => exact L1_exit hsz (by assumption) (by assumption)
  case vc13 => exact L1_init d sep
  case vc14 => exact G_ret1 g neg (by assumption) (by assumption)
  case vc43 => exact G_12 (by assumption) (by assumption)
  case vc44 => exact G_ret2 g neg (by assumption) (by assumption)
  case vc15 => exact (L2_cond hsz (by assumption) (by assumption)).1
  case vc16 => exact (L2_cond hsz (by assumption) (by assumption)).2
  case vc19 => exact (L2_cond2 hsz (by assumption) (by assumption)).1
  case vc20 => exact (L2_cond2 hsz (by assumption) (by assumption)).2
  case vc42 => exact L2_exit hsz (by assumption) (by assumption)
  case vc21 | vc22 =>
    refine L2_two hsz (by assumption) (by assumption) (L2_cond hsz (by assumption) (by assumption)).2 _ (by assumption)
      (L2_cond2 hsz (by assumption) (by assumption)).2 _ (by assumption) (by assumption) ?_ _ ?_ ?_
    · simp +zetaDelta only [ix2, st2, isDig_fold] at *
      simp at *
      simp_all
    · simp +zetaDelta only [ix2, st2, isDig_fold] at *
      simp at *
      simp_all [step22]
    · rfl
  case vc17 | vc18 | vc23 | vc24 | vc25 | vc26 | vc27 | vc28 | vc29 | vc30 | vc31 | vc32 | vc33 | vc34
      | vc35 | vc36 | vc37 | vc38 | vc39 | vc40 | vc41 =>
    first
    | refine L2_step_b hsz (by assumption) (by assumption) (L2_cond hsz (by assumption) (by assumption)).2 _ (by assumption)
        (L2_cond2 hsz (by assumption) (by assumption)).2 _ (by assumption) ?_ _ ?_ ?_
      · simp +zetaDelta only [ix2, st2, isDig_fold] at *
        simp at *
        simp_all
      · simp +zetaDelta only [ix2, st2, isDig_fold] at *
        simp at *
        simp_all [step2, expDigit, u64_le_false, i64_lt_false]
      · rfl
    | refine L2_step_a hsz (by assumption) (by assumption) (L2_cond hsz (by assumption) (by assumption)).2 _ (by assumption)
        ?_ _ ?_ ?_
      · simp +zetaDelta only [ix2, st2, isDig_fold] at *
        simp at *
        simp_all [u64_le_false, i64_lt_false]
      · simp +zetaDelta only [ix2, st2, isDig_fold] at *
        simp at *
        simp_all [step2, expDigit, u64_le_false, i64_lt_false]
      · rfl
    | refine L2_err hsz (by assumption) (by assumption) (L2_cond hsz (by assumption) (by assumption)).2 _ (by assumption) ?_ ?_ _
      · simp +zetaDelta only [ix2, st2, isDig_fold] at *
        simp at *
        simp_all
      · simp +zetaDelta only [ix2, st2, isDig_fold] at *
        simp at *
        simp_all [step2]
  case vc45 =>
    rw [G_fin g neg (by assumption) (by assumption)]
    exact (finish_syn g neg _ (by assumption)).symm
  case vc46 =>
    rw [G_fin g neg (by assumption) (by assumption)]
    exact (finish_zero g neg _ (by assumption) (by assumption)).symm
  case vc47 | vc52 =>
    rw [G_fin g neg (by assumption) (by assumption)]
    refine (finish_big g neg _ (by assumption) (by assumption) _ ?_ (by assumption)).symm
    first | rw [if_pos (by assumption)] | rw [if_neg (by assumption)]
    rfl
  case vc48 | vc53 =>
    rw [G_fin g neg (by assumption) (by assumption)]
    refine (finish_small g neg _ (by assumption) (by assumption) _ ?_ (by assumption) (by assumption)).symm
    first | rw [if_pos (by assumption)] | rw [if_neg (by assumption)]
    rfl
  case vc49 | vc54 => exact reduce128_call _ _ _ _ _ (by assumption)
  case vc50 h12 hr | vc51 h12 hr | vc55 h12 hr | vc56 h12 hr =>
    rw [G_fin g neg (by assumption) (by assumption)]
    rw [finish_red g neg _ (by assumption) (by assumption) _ ?_ (by assumption) (by assumption) _ hr]
    · first | rw [if_pos h12] | rw [if_neg h12]
    · first | rw [if_pos (by assumption)] | rw [if_neg (by assumption)]
      rfl
  case vc57 => simp [inv2]
  case vc58 => simp [inv1]

theorem parseNumber_eq_model (g : Globals) (d : Go.Bytes) (neg sep : Bool) (hsz : d.size < 2^63) :
    Gen.parseNumber g d neg sep = model g d.toList neg sep := by
  obtain ⟨r, h1, h2⟩ := ok_of_triple (parseNumber_triple g d neg sep hsz)
  rw [h1, h2]



end Parse
