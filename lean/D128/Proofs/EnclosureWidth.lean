/-
  Soundness of the enclosure oracle, part 14: WIDTH of the enclosures (so that an `.ok` verdict is close to the
  one-ulp claim).  `ε = 10^-79` is the relative rounding unit (`eps`).

  1. `mul_self_lo_hi`  : for 0 < a.lo ≤ a.hi the square `a.mul a` is ⟨rdDown (lo²), rdUp (hi²)⟩
     `ratio_sq`        : a.hi ≤ a.lo·R → (a.mul a).hi ≤ (a.mul a).lo·(R²·(1+3ε)), and the lower end stays positive
     `ratio_sqrN`      : after n squarings the ratio is ≤ R^(2^n)·(1+3ε)^(2^n − 1)
  2. `expTiny_ratio`   : |x| ≤ 1/100 → 0 < (expTiny x).lo ∧ (expTiny x).hi ≤ (expTiny x).lo·(1+4ε)
  3. `expSmall_ratio`  : |x| ≤ 8 → 0 < (expSmall x).lo ∧ (expSmall x).hi ≤ (expSmall x).lo·(1 + 10^-74)
     `expSmallI_ratio`, `expI_ratio` : hi ≤ lo·(1+10^-74)²·exp(width of the reduced argument)
     `expR_width`      : width of the reduced argument ≤ width a + 2·10^-74·(|mid a|+1) + 16ε
     `exp_ratio`       : |x| ≤ 10^7, Encl.exp x = some s → 0 < s.m.lo ∧ s.m.hi ≤ s.m.lo·(1 + 10^-66)
  4. `log_width`       : Encl.log q k = some l → l.hi − l.lo = 2·max(|mid|·10^-60, 10^-72) with mid = (l.lo+l.hi)/2
     `log_width_le`    : 0 ≤ l.hi − l.lo ≤ 2·10^-60·|mid| + 2·10^-72
-/
import D128.Proofs.EnclosureRange
set_option autoImplicit false

namespace EnclPf
open Spec Spec.Encl SpecRound

/-! ## 1. squaring -/

theorem mul_self_eq (a : I) (h0 : 0 < a.lo) (h : a.lo ≤ a.hi) :
    a.mul a = ⟨rdDown (a.lo * a.lo), rdUp (a.hi * a.hi)⟩ := by
  have hh : 0 < a.hi := lt_of_lt_of_le h0 h
  have e1 : a.lo * a.lo ≤ a.lo * a.hi := mul_le_mul_of_nonneg_left h h0.le
  have e2 : a.lo * a.hi ≤ a.hi * a.hi := mul_le_mul_of_nonneg_right h hh.le
  have e3 : a.hi * a.lo = a.lo * a.hi := mul_comm _ _
  unfold I.mul min4 max4
  simp only [e3]
  rw [min_eq_left e1, min_eq_left e2, min_eq_left e1, max_eq_right e1, max_eq_right e2, max_eq_right e2]

theorem rdDown_pos_ratio {q : ℚ} (hq : 0 < q) : q * (1 - eps) ≤ rdDown q := by
  have := rdDown_ge q; rw [abs_of_pos hq] at this; linarith

theorem rdUp_pos_ratio {q : ℚ} (hq : 0 < q) : rdUp q ≤ q * (1 + eps) := by
  have := rdUp_le q; rw [abs_of_pos hq] at this; linarith

theorem eps_small : eps ≤ 1 / 10 ^ 79 := le_refl _

theorem ratio_sq (a : I) (R : ℚ) (h0 : 0 < a.lo) (h : a.lo ≤ a.hi) (hR : a.hi ≤ a.lo * R) :
    0 < (a.mul a).lo ∧ (a.mul a).lo ≤ (a.mul a).hi ∧ (a.mul a).hi ≤ (a.mul a).lo * (R * R * (1 + 3 * eps)) := by
  rw [mul_self_eq a h0 h]
  simp only
  have hh : 0 < a.hi := lt_of_lt_of_le h0 h
  have hl2 : 0 < a.lo * a.lo := mul_pos h0 h0
  have hh2 : 0 < a.hi * a.hi := mul_pos hh hh
  have d1 := rdDown_pos_ratio hl2
  have d2 := rdDown_le (a.lo * a.lo)
  have u1 := rdUp_pos_ratio hh2
  have u2 := le_rdUp (a.hi * a.hi)
  have he := eps_pos
  have he2 : eps ≤ 1 / 10 := eps_le_tenth
  have hR1 : 1 ≤ R := by
    by_contra hc
    have : a.lo * R < a.lo * 1 := mul_lt_mul_of_pos_left (not_le.1 hc) h0
    linarith
  have hsq : a.hi * a.hi ≤ a.lo * a.lo * (R * R) := by
    have : a.hi * a.hi ≤ (a.lo * R) * (a.lo * R) := mul_le_mul hR hR hh.le (by positivity)
    linarith [this]
  have hlopos : 0 < rdDown (a.lo * a.lo) := lt_of_lt_of_le (by nlinarith) d1
  refine ⟨hlopos, ?_, ?_⟩
  · have : a.lo * a.lo ≤ a.hi * a.hi := mul_le_mul h h h0.le hh.le
    linarith
  · -- rdUp(h²) ≤ h²(1+ε) ≤ l² R² (1+ε) ≤ rdDown(l²)/(1-ε) · R² (1+ε) ≤ rdDown(l²) R² (1+3ε)
    have k1 : (1 + eps) ≤ (1 - eps) * (1 + 3 * eps) := by nlinarith
    have hRR : 0 ≤ R * R := by positivity
    calc rdUp (a.hi * a.hi) ≤ a.hi * a.hi * (1 + eps) := u1
      _ ≤ a.lo * a.lo * (R * R) * (1 + eps) := mul_le_mul_of_nonneg_right hsq (by linarith)
      _ ≤ a.lo * a.lo * (R * R) * ((1 - eps) * (1 + 3 * eps)) :=
          mul_le_mul_of_nonneg_left k1 (by positivity)
      _ = (a.lo * a.lo * (1 - eps)) * (R * R * (1 + 3 * eps)) := by ring
      _ ≤ rdDown (a.lo * a.lo) * (R * R * (1 + 3 * eps)) :=
          mul_le_mul_of_nonneg_right d1 (by positivity)

theorem ratio_sqrN (n : ℕ) : ∀ (a : I) (R : ℚ), 0 < a.lo → a.lo ≤ a.hi → a.hi ≤ a.lo * R →
    0 < (sqrN n a).lo ∧ (sqrN n a).lo ≤ (sqrN n a).hi ∧
    (sqrN n a).hi ≤ (sqrN n a).lo * (R ^ (2 ^ n) * (1 + 3 * eps) ^ (2 ^ n - 1)) := by
  induction n with
  | zero => intro a R h0 h hR; simpa [sqrN] using ⟨h0, h, hR⟩
  | succ n ih =>
    intro a R h0 h hR
    obtain ⟨p1, p2, p3⟩ := ratio_sq a R h0 h hR
    obtain ⟨q1, q2, q3⟩ := ih (a.mul a) (R * R * (1 + 3 * eps)) p1 p2 p3
    refine ⟨q1, q2, ?_⟩
    show (sqrN n (a.mul a)).hi ≤ _
    have e : (R * R * (1 + 3 * eps)) ^ (2 ^ n) * (1 + 3 * eps) ^ (2 ^ n - 1) =
        R ^ (2 ^ (n + 1)) * (1 + 3 * eps) ^ (2 ^ (n + 1) - 1) := by
      have hpos : 1 ≤ 2 ^ n := Nat.one_le_two_pow
      rw [mul_pow, mul_pow, ← pow_add, mul_assoc, ← pow_add, pow_succ 2 n]
      congr 2 <;> omega
    rw [← e]; exact q3

/-! ## 2. `expTiny` -/

theorem expTiny_ratio (x : ℚ) (hx : |x| ≤ 1 / 100) :
    0 < (expTiny x).lo ∧ (expTiny x).lo ≤ (expTiny x).hi ∧ (expTiny x).hi ≤ (expTiny x).lo * (1 + 4 * eps) := by
  rw [expTiny_eq]
  simp only
  set S : ℚ := ∑ i ∈ Finset.range 40, x ^ i / (i.factorial : ℚ) with hS
  set τ : ℚ := 2 * |x ^ 40 / (Nat.factorial 40 : ℚ)| with hτ
  have he := eps_pos
  have he2 : eps = 1 / 10 ^ 79 := rfl
  -- τ ≤ ε/5
  have hτ0 : 0 ≤ τ := by rw [hτ]; positivity
  have hτ1 : τ ≤ eps / 5 := by
    rw [hτ, abs_div, abs_pow]
    have h1 : |x| ^ 40 ≤ (1 / 100 : ℚ) ^ 40 := pow_le_pow_left₀ (abs_nonneg x) hx 40
    have h2 : (1 : ℚ) ≤ |((Nat.factorial 40 : ℕ) : ℚ)| := by
      rw [abs_of_nonneg (by positivity)]
      exact_mod_cast Nat.one_le_iff_ne_zero.2 (Nat.factorial_ne_zero 40)
    have h3 : |x| ^ 40 / |((Nat.factorial 40 : ℕ) : ℚ)| ≤ |x| ^ 40 :=
      div_le_self (by positivity) h2
    have h4 : (2 : ℚ) * (1 / 100) ^ 40 ≤ eps / 5 := by rw [he2]; norm_num
    linarith
  -- S ≥ 0.98 through the real Taylor bound
  have hS1 : (98 / 100 : ℚ) ≤ S := by
    have hx' : |(x : ℝ)| / ((40 : ℕ).succ : ℝ) ≤ 1 / 2 := by
      have : |(x : ℝ)| ≤ 1 / 100 := by
        have : ((|x| : ℚ) : ℝ) ≤ ((1 / 100 : ℚ) : ℝ) := by exact_mod_cast hx
        simpa using this
      rw [div_le_iff₀ (by positivity)]; push_cast; linarith
    have hb := real_exp_taylor_bound hx'
    rw [abs_le] at hb
    have habs : |(x : ℝ)| ^ 40 / ((Nat.factorial 40 : ℕ) : ℝ) * 2 = ((τ : ℚ) : ℝ) := by
      rw [hτ]; push_cast
      rw [abs_div, abs_pow, abs_of_pos (by positivity : (0 : ℝ) < ((Nat.factorial 40 : ℕ) : ℝ))]; ring
    rw [habs] at hb
    have hSr : (∑ m ∈ Finset.range 40, (x : ℝ) ^ m / (m.factorial : ℝ)) = ((S : ℚ) : ℝ) := by
      rw [hS]; push_cast; rfl
    rw [hSr] at hb
    have hexp : (99 / 100 : ℝ) ≤ Real.exp (x : ℝ) := by
      have := Real.add_one_le_exp (x : ℝ)
      have hxl : (-(1 / 100) : ℝ) ≤ (x : ℝ) := by
        have := (abs_le.1 hx).1
        have h' : (((-(1 / 100) : ℚ)) : ℝ) ≤ ((x : ℚ) : ℝ) := by exact_mod_cast this
        push_cast at h'; linarith
      linarith
    have hτr : ((τ : ℚ) : ℝ) ≤ 1 / 100 := by
      have : τ ≤ 1 / 100 := le_trans hτ1 (by rw [he2]; norm_num)
      have h' : ((τ : ℚ) : ℝ) ≤ ((1 / 100 : ℚ) : ℝ) := by exact_mod_cast this
      simpa using h'
    have : (98 / 100 : ℝ) ≤ ((S : ℚ) : ℝ) := by linarith [hb.2]
    have h' : (((98 / 100 : ℚ)) : ℝ) ≤ ((S : ℚ) : ℝ) := by push_cast; linarith
    exact_mod_cast h'
  have hlo : 0 < S - τ := by rw [he2] at hτ1; linarith
  have hhi : 0 < S + τ := by linarith
  have d1 := rdDown_pos_ratio hlo
  have d2 := rdDown_le (S - τ)
  have u1 := rdUp_pos_ratio hhi
  have u2 := le_rdUp (S + τ)
  have he3 : eps ≤ 1 / 10 := eps_le_tenth
  have hlopos : 0 < rdDown (S - τ) := lt_of_lt_of_le (by nlinarith) d1
  refine ⟨hlopos, by linarith, ?_⟩
  have key : (S + τ) * (1 + eps) ≤ (S - τ) * (1 - eps) * (1 + 4 * eps) := by nlinarith
  calc rdUp (S + τ) ≤ (S + τ) * (1 + eps) := u1
    _ ≤ (S - τ) * (1 - eps) * (1 + 4 * eps) := key
    _ ≤ rdDown (S - τ) * (1 + 4 * eps) := mul_le_mul_of_nonneg_right d1 (by linarith)

/-! ## 3. `expSmall`, `expSmallI`, `expI` -/

/-- the relative width of the squaring kernel's output -/
def eta : ℚ := 1 / 10 ^ 74

theorem ratio_num : (1 + 4 * eps) ^ (2 ^ 10) * (1 + 3 * eps) ^ (2 ^ 10 - 1) ≤ 1 + eta := by
  unfold eps eta; decide +kernel

theorem expSmall_ratio (x : ℚ) (hx : |x| ≤ 8) :
    0 < (expSmall x).lo ∧ (expSmall x).lo ≤ (expSmall x).hi ∧ (expSmall x).hi ≤ (expSmall x).lo * (1 + eta) := by
  have hx' : |x / 1024| ≤ 1 / 100 := by
    rw [abs_div, abs_of_pos (by norm_num : (0 : ℚ) < 1024), div_le_iff₀ (by norm_num)]
    linarith
  obtain ⟨t1, t2, t3⟩ := expTiny_ratio (x / 1024) hx'
  obtain ⟨q1, q2, q3⟩ := ratio_sqrN 10 (expTiny (x / 1024)) (1 + 4 * eps) t1 t2 t3
  unfold expSmall
  exact ⟨q1, q2, le_trans q3 (mul_le_mul_of_nonneg_left ratio_num q1.le)⟩

theorem expSmallI_ratio (r : I) (h1 : -8 ≤ r.lo) (h2 : r.lo ≤ r.hi) (h3 : r.hi ≤ 8) :
    0 < (expSmallI r).lo ∧
    ((expSmallI r).hi : ℝ) ≤ ((expSmallI r).lo : ℝ) * ((1 + (eta : ℝ)) ^ 2 * Real.exp ((r.hi : ℝ) - (r.lo : ℝ))) := by
  have hlo : |r.lo| ≤ 8 := by rw [abs_le]; constructor <;> linarith
  have hhi : |r.hi| ≤ 8 := by rw [abs_le]; constructor <;> linarith
  obtain ⟨a1, a2, a3⟩ := expSmall_ratio r.lo hlo
  obtain ⟨b1, b2, b3⟩ := expSmall_ratio r.hi hhi
  have sa := expSmall_sound r.lo (le_trans hlo (by norm_num))
  have sb := expSmall_sound r.hi (le_trans hhi (by norm_num))
  rw [expSmallI_eq]
  simp only
  refine ⟨a1, ?_⟩
  have a3' : (((expSmall r.lo).hi : ℚ) : ℝ) ≤ (((expSmall r.lo).lo : ℚ) : ℝ) * (1 + (eta : ℝ)) := by
    have : (((expSmall r.lo).hi : ℚ) : ℝ) ≤ ((((expSmall r.lo).lo * (1 + eta) : ℚ)) : ℝ) := by exact_mod_cast a3
    push_cast at this; exact this
  have b3' : (((expSmall r.hi).hi : ℚ) : ℝ) ≤ (((expSmall r.hi).lo : ℚ) : ℝ) * (1 + (eta : ℝ)) := by
    have : (((expSmall r.hi).hi : ℚ) : ℝ) ≤ ((((expSmall r.hi).lo * (1 + eta) : ℚ)) : ℝ) := by exact_mod_cast b3
    push_cast at this; exact this
  have heta : (0 : ℝ) ≤ (eta : ℝ) := by unfold eta; positivity
  have hsplit : Real.exp (r.hi : ℝ) = Real.exp (r.lo : ℝ) * Real.exp ((r.hi : ℝ) - (r.lo : ℝ)) := by
    rw [← Real.exp_add]; congr 1; ring
  have hw : 0 < Real.exp ((r.hi : ℝ) - (r.lo : ℝ)) := Real.exp_pos _
  have alo : (0 : ℝ) < (((expSmall r.lo).lo : ℚ) : ℝ) := by exact_mod_cast a1
  calc (((expSmall r.hi).hi : ℚ) : ℝ)
      ≤ (((expSmall r.hi).lo : ℚ) : ℝ) * (1 + (eta : ℝ)) := b3'
    _ ≤ Real.exp (r.hi : ℝ) * (1 + (eta : ℝ)) := mul_le_mul_of_nonneg_right sb.1 (by linarith)
    _ = Real.exp (r.lo : ℝ) * Real.exp ((r.hi : ℝ) - (r.lo : ℝ)) * (1 + (eta : ℝ)) := by rw [hsplit]
    _ ≤ (((expSmall r.lo).hi : ℚ) : ℝ) * Real.exp ((r.hi : ℝ) - (r.lo : ℝ)) * (1 + (eta : ℝ)) := by
        apply mul_le_mul_of_nonneg_right _ (by linarith)
        exact mul_le_mul_of_nonneg_right sa.2 hw.le
    _ ≤ ((((expSmall r.lo).lo : ℚ) : ℝ) * (1 + (eta : ℝ))) * Real.exp ((r.hi : ℝ) - (r.lo : ℝ)) * (1 + (eta : ℝ)) := by
        apply mul_le_mul_of_nonneg_right _ (by linarith)
        exact mul_le_mul_of_nonneg_right a3' hw.le
    _ = (((expSmall r.lo).lo : ℚ) : ℝ) * ((1 + (eta : ℝ)) ^ 2 * Real.exp ((r.hi : ℝ) - (r.lo : ℝ))) := by ring

/-- the enclosure returned by `expI` is positive and its ends differ by the factor
    `(1+10^-74)²·exp(width of the reduced argument)` at most -/
theorem expI_ratio {a : I} {s : Sci} {y : ℝ} (h : expI a = some s) (hy : y ∈ᵢ a) :
    0 < s.m.lo ∧
    (s.m.hi : ℝ) ≤ (s.m.lo : ℝ) *
      ((1 + (eta : ℝ)) ^ 2 * Real.exp (((expR a).hi : ℝ) - ((expR a).lo : ℝ))) := by
  obtain ⟨hg, rfl⟩ := expI_some h
  exact expSmallI_ratio (expR a) hg.1 (lo_le_hi_of_mem (mem_expR hy)) hg.2

/-- width of the reduced argument: the width of `a` plus the rounding of `k·ln10` -/
theorem expR_width (a : I) (hle : a.lo ≤ a.hi) (hg : Guard a) :
    (expR a).hi - (expR a).lo ≤ (a.hi - a.lo) + 2 / 10 ^ 74 * (|(a.lo + a.hi) / 2| + 1) + 16 * eps := by
  have c1 := ln10_lo_ge
  have c2 := ln10_hi_le
  have c3 := ln10_width
  have c4 := ln10_lo_le_hi
  set L : ℚ := (ln10.lo + ln10.hi) / 2 with hL
  have hL1 : (23 / 10 : ℚ) ≤ L := by rw [hL]; linarith
  have hLpos : 0 < L := by linarith
  set mid : ℚ := (a.lo + a.hi) / 2 with hmid
  have hk : expK a = ⌊mid / L⌋ := rfl
  set kq : ℚ := ((expK a : Int) : ℚ) with hkq
  have hf1 : kq ≤ mid / L := by rw [hkq, hk]; exact Int.floor_le _
  have hf2 : mid / L < kq + 1 := by rw [hkq, hk]; exact Int.lt_floor_add_one _
  rw [le_div_iff₀ hLpos] at hf1
  rw [div_lt_iff₀ hLpos] at hf2
  have hkabs : |kq| ≤ |mid| + 1 := by
    have h1 := neg_abs_le mid
    have h2 := le_abs_self mid
    rw [abs_le]
    constructor
    · by_contra hc
      have hc : kq + 1 < -|mid| := by linarith
      nlinarith [abs_nonneg mid]
    · by_contra hc
      have hc : |mid| + 1 < kq := by linarith
      nlinarith [abs_nonneg mid]
  obtain ⟨s1, s2, s3, s4⟩ := scale_bounds ln10 L kq (by rw [hL]; linarith) (by rw [hL]; linarith)
  have hcoef : ln10.hi - ln10.lo + (|ln10.lo| + |ln10.hi|) * eps ≤ 1 / 10 ^ 74 := by
    have e1 : |ln10.lo| = ln10.lo := abs_of_nonneg (by linarith)
    have e2 : |ln10.hi| = ln10.hi := abs_of_nonneg (by linarith)
    rw [e1, e2]
    unfold eps
    have : (ln10.lo + ln10.hi) * (1 / 10 ^ 79) ≤ (231 / 50) * (1 / 10 ^ 79) :=
      mul_le_mul_of_nonneg_right (by linarith) (by positivity)
    have e : (231 / 50 : ℚ) * (1 / 10 ^ 79) + 1 / 10 ^ 75 ≤ 1 / 10 ^ 74 := by norm_num
    linarith
  have hW : (ln10.hi - ln10.lo + (|ln10.lo| + |ln10.hi|) * eps) * |kq| ≤ 1 / 10 ^ 74 * (|mid| + 1) :=
    mul_le_mul hcoef hkabs (abs_nonneg _) (by positivity)
  set W : ℚ := (ln10.hi - ln10.lo + (|ln10.lo| + |ln10.hi|) * eps) * |kq| with hWdef
  obtain ⟨g1, g2⟩ := hg
  rw [expR_eq] at g1 g2 ⊢
  simp only at g1 g2 ⊢
  set klo := (ln10.scale kq).lo with hklo
  set khi := (ln10.scale kq).hi with hkhi
  -- both exact differences lie in [-8, 8]
  have t12 : a.lo - khi ≤ a.hi - klo := by linarith
  have d1 := rdDown_le (a.lo - khi)
  have d2 := rdDown_ge (a.lo - khi)
  have u1 := le_rdUp (a.hi - klo)
  have u2 := rdUp_le (a.hi - klo)
  have b1 : |a.lo - khi| ≤ 8 := by rw [abs_le]; constructor <;> linarith
  have b2 : |a.hi - klo| ≤ 8 := by rw [abs_le]; constructor <;> linarith
  have he := eps_pos
  have m1 : |a.lo - khi| * eps ≤ 8 * eps := mul_le_mul_of_nonneg_right b1 he.le
  have m2 : |a.hi - klo| * eps ≤ 8 * eps := mul_le_mul_of_nonneg_right b2 he.le
  linarith

/-- `exp y ≤ 1 + 2y` for 0 ≤ y ≤ 1 -/
theorem exp_le_one_add_two {y : ℝ} (h0 : 0 ≤ y) (h1 : y ≤ 1) : Real.exp y ≤ 1 + 2 * y := by
  have := Real.abs_exp_sub_one_le (x := y) (by rw [abs_of_nonneg h0]; exact h1)
  rw [abs_of_nonneg h0] at this
  linarith [(abs_le.1 this).2]

/-- **width of `Encl.exp`** on the arguments the checks use: relative width ≤ 10^-66 -/
theorem exp_ratio {x : ℚ} {s : Sci} (h : Encl.exp x = some s) (hx : |x| ≤ 10 ^ 7) :
    0 < s.m.lo ∧ s.m.hi ≤ s.m.lo * (1 + 1 / 10 ^ 66) := by
  rw [exp_eq] at h
  obtain ⟨p1, p2⟩ := expI_ratio h (mem_pt x)
  obtain ⟨hg, -⟩ := expI_some h
  have hw := expR_width (I.pt x) (le_refl _) hg
  have hmid : |((I.pt x).lo + (I.pt x).hi) / 2| = |x| := by
    show |(x + x) / 2| = |x|; congr 1; ring
  rw [hmid] at hw
  have hw0 : (I.pt x).hi - (I.pt x).lo = 0 := by show x - x = 0; ring
  rw [hw0] at hw
  have hwb : (expR (I.pt x)).hi - (expR (I.pt x)).lo ≤ 1 / 10 ^ 67 * 3 := by
    have : 2 / 10 ^ 74 * (|x| + 1) ≤ 2 / 10 ^ 74 * (10 ^ 7 + 1) :=
      mul_le_mul_of_nonneg_left (by linarith) (by positivity)
    have e : (2 : ℚ) / 10 ^ 74 * (10 ^ 7 + 1) + 16 * eps ≤ 1 / 10 ^ 67 * 3 := by unfold eps; norm_num
    linarith
  refine ⟨p1, ?_⟩
  set w : ℝ := (((expR (I.pt x)).hi : ℚ) : ℝ) - (((expR (I.pt x)).lo : ℚ) : ℝ) with hwdef
  have hwr : w ≤ 3 / 10 ^ 67 := by
    have : ((((expR (I.pt x)).hi - (expR (I.pt x)).lo : ℚ)) : ℝ) ≤ (((1 / 10 ^ 67 * 3 : ℚ)) : ℝ) := by
      exact_mod_cast hwb
    push_cast at this; rw [hwdef]; linarith
  have hw0' : 0 ≤ w := by
    have := lo_le_hi_of_mem (mem_expR (mem_pt x))
    have h' : (((expR (I.pt x)).lo : ℚ) : ℝ) ≤ (((expR (I.pt x)).hi : ℚ) : ℝ) := by exact_mod_cast this
    rw [hwdef]; linarith
  have hexp := exp_le_one_add_two hw0' (by linarith [show (3 : ℝ) / 10 ^ 67 ≤ 1 by norm_num])
  have hfac : (1 + (eta : ℝ)) ^ 2 * Real.exp w ≤ 1 + 1 / 10 ^ 66 := by
    have h1 : (1 + (eta : ℝ)) ^ 2 ≤ 1 + 3 / 10 ^ 74 := by unfold eta; push_cast; norm_num
    have h2 : Real.exp w ≤ 1 + 6 / 10 ^ 67 := by linarith
    have h3 : (0 : ℝ) ≤ (1 + (eta : ℝ)) ^ 2 := by positivity
    calc (1 + (eta : ℝ)) ^ 2 * Real.exp w ≤ (1 + 3 / 10 ^ 74) * (1 + 6 / 10 ^ 67) :=
          mul_le_mul h1 h2 (Real.exp_pos w).le (by norm_num)
      _ ≤ 1 + 1 / 10 ^ 66 := by norm_num
  have hlo' : (0 : ℝ) < (s.m.lo : ℝ) := by exact_mod_cast p1
  have : (s.m.hi : ℝ) ≤ (s.m.lo : ℝ) * (1 + 1 / 10 ^ 66) :=
    le_trans p2 (mul_le_mul_of_nonneg_left hfac hlo'.le)
  have h' : ((s.m.hi : ℚ) : ℝ) ≤ (((s.m.lo * (1 + 1 / 10 ^ 66) : ℚ)) : ℝ) := by push_cast; exact this
  exact_mod_cast h'

/-! ## 4. the certified logarithm -/

/-- the bracket of the certified logarithm has half-width `max(|mid|·10^-60, 10^-72)` around its midpoint -/
theorem log_width {q : ℚ} {k : Int} {l : I} (h : Encl.log q k = some l) :
    l.hi - l.lo =
      2 * (if |(l.lo + l.hi) / 2| * pow10 (-60) < pow10 (-72) then pow10 (-72)
           else |(l.lo + l.hi) / 2| * pow10 (-60)) := by
  unfold Encl.log at h
  simp only [Option.ite_none_right_eq_some, Option.some.injEq] at h
  obtain ⟨-, rfl⟩ := h
  simp only [ite_neg_eq_abs]
  have : ∀ g d : ℚ, (g - d + (g + d)) / 2 = g := fun g d => by ring
  rw [this]
  ring

/-- in (relative, absolute) form -/
theorem log_width_le {q : ℚ} {k : Int} {l : I} (h : Encl.log q k = some l) :
    0 ≤ l.hi - l.lo ∧ l.hi - l.lo ≤ 2 / 10 ^ 60 * |(l.lo + l.hi) / 2| + 2 / 10 ^ 72 := by
  have hw := log_width h
  have e60 : pow10 (-60) = 1 / 10 ^ 60 := by rw [pow10_eq_zpow]; norm_num
  have e72 : pow10 (-72) = 1 / 10 ^ 72 := by rw [pow10_eq_zpow]; norm_num
  rw [e60, e72] at hw
  have hm := abs_nonneg ((l.lo + l.hi) / 2)
  split at hw
  · constructor
    · rw [hw]; norm_num
    · rw [hw]
      have : (0 : ℚ) ≤ 2 / 10 ^ 60 * |(l.lo + l.hi) / 2| := by positivity
      linarith
  · constructor
    · rw [hw]; positivity
    · rw [hw]
      have : (0 : ℚ) ≤ 2 / 10 ^ 72 := by norm_num
      linarith

end EnclPf
