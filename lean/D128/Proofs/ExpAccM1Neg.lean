/-
  D128/Proofs/ExpAccM1Neg.lean — property C16: the tail of `decomposed192.epowm1` for NEGATIVE arguments
  (`1/(1+s) − 1` resp. `1/e^|x| − 1`).

  Provided (namespace `ExpAcc`):
  * `n0_real`       : the real-number core of the cancellation `1/(1+s) − 1` for `2·10^-21 ≤ x ≤ 1`: the computed
                      value is within relative `1/(3·10^34)` of `1 − e^-x`
                      (absolute error ≤ `3.15·10^-56 + 2.001·10^-45·x` against a result `≥ x/2`)
  * `m1_neg_small`  : negative argument with `2·10^-21 ≤ |x| < 1` (`o = 0`): `add1`, `rcp`, `sub1`
  * `m1_neg_big`    : negative argument with `|x| ≥ 1` (`o ≥ 1`): `add1`, `powexp10`, `rcp`, `sub1`, including the
                      overflow marker and operands of `rcp` with exponent above 16000 (`rcp_bigexp`)
  Below `|x| = 2·10^-21` the cancellation is not controlled by the contracts (true threshold of the defect recorded
  in known_findings.json: about `3·10^-22`).
-/
import D128.Proofs.ExpAccM1Tail
set_option autoImplicit false
set_option maxRecDepth 4096
set_option exponentiation.threshold 512

namespace ExpAcc
open Gen D192 Spec SpecRound EnclPf
local notation "𝔳[" d "]" => Spec.interp (Gen.Decimal.lo d) (Gen.Decimal.hi d)

set_option maxHeartbeats 800000 in
theorem n0_real (x E S U D r res : ℝ) (hx0 : 0 < x) (hx1 : x ≤ 1) (hx20 : 2 / 10 ^ 21 ≤ x)
    (hE : E = Real.exp x)
    (hS1 : (E - 1) * (1 - 1 / 10 ^ 45) ≤ S) (hS2 : S ≤ E - 1)
    (hU1 : (S + 1) * (1 - 1 / 10 ^ 56) ≤ U) (hU2 : U ≤ S + 1)
    (hD0 : 0 < D) (hD1 : D ≤ U) (hD2 : U ≤ D * (1 + 1 / 2 ^ 185))
    (hr1 : 1 / D * (1 - 1 / 10 ^ 56) ≤ r) (hr2 : r ≤ 1 / D) :
    r < 1 ∧ (|(1 - r) - res| < 1 / 10 ^ 57 → |res - (1 - 1 / E)| * (3 * 10 ^ 34) ≤ 1 - 1 / E) := by
  have hE1 : 1 + x ≤ E := by rw [hE]; have := Real.add_one_le_exp x; linarith
  have hE2 : E - 1 ≤ 2 * x := by
    have := Real.abs_exp_sub_one_le (x := x) (by rw [abs_of_pos hx0]; exact hx1)
    rw [abs_of_pos hx0, abs_of_nonneg (by rw [← hE]; linarith)] at this
    rw [hE]; exact this
  have hE0 : 0 < E := by linarith
  have hE3 : E ≤ 3 := by linarith
  have hEge1 : 1 ≤ E := by linarith
  -- E − D ≤ 2e-45·x + 3.04e-56·E
  have hS : E - 2 * x * (1 / 10 ^ 45) ≤ S + 1 := by nlinarith
  have hU : E - 2 * x * (1 / 10 ^ 45) - E * (1 / 10 ^ 56) ≤ U := by nlinarith
  have hUE : U ≤ E := by linarith
  have hDE : D ≤ E := by linarith
  have hED : E - D ≤ 2 * x * (1 / 10 ^ 45) + E * (304 / 10 ^ 58) := by
    have h1 : U - D ≤ D * (1 / 2 ^ 185) := by linarith
    have h2 : D * (1 / 2 ^ 185) ≤ E * (204 / 10 ^ 58) := by
      have : (1 : ℝ) / 2 ^ 185 ≤ 204 / 10 ^ 58 := by norm_num
      calc D * (1 / 2 ^ 185) ≤ E * (1 / 2 ^ 185) := mul_le_mul_of_nonneg_right hDE (by norm_num)
        _ ≤ E * (204 / 10 ^ 58) := mul_le_mul_of_nonneg_left this hE0.le
    linarith
  have hDclose : E * (1 - 1 / 10 ^ 40) ≤ D := by
    have h1 : 2 * x * (1 / 10 ^ 45) ≤ E * (2 / 10 ^ 45) := by nlinarith
    have h2 : E * (2 / 10 ^ 45) + E * (304 / 10 ^ 58) ≤ E * (1 / 10 ^ 40) := by
      rw [← mul_add]; exact mul_le_mul_of_nonneg_left (by norm_num) hE0.le
    linarith
  set e : ℝ := 1 / E with he
  have he0 : 0 < e := by positivity
  have heE : e * E = 1 := by rw [he]; field_simp
  have he1 : e ≤ 1 / (1 + x) := one_div_le_one_div_of_le (by linarith) hE1
  have hele1 : e ≤ 1 := by
    have : 1 / (1 + x) ≤ 1 := by rw [div_le_one (by linarith)]; linarith
    linarith
  have hx2 : x / 2 ≤ 1 - e := by
    have : 1 / (1 + x) ≤ 1 - x / 2 := by
      rw [div_le_iff₀ (by linarith)]; nlinarith
    linarith
  set δ : ℝ := x * (2001 / 10 ^ 48) + 305 / 10 ^ 58 with hδ
  have hδ0 : 0 ≤ δ := by rw [hδ]; positivity
  -- 1/D ≤ e + δ
  have hinv : 1 / D ≤ e + δ := by
    rw [div_le_iff₀ hD0]
    -- e·D ≥ 1 − e·(E − D)
    have h1 : e * (E - (2 * x * (1 / 10 ^ 45) + E * (304 / 10 ^ 58))) ≤ e * D :=
      mul_le_mul_of_nonneg_left (by linarith) he0.le
    have h6 : e * (E - (2 * x * (1 / 10 ^ 45) + E * (304 / 10 ^ 58)))
        = 1 - e * (2 * x * (1 / 10 ^ 45)) - 304 / 10 ^ 58 := by
      rw [mul_sub, mul_add, heE, ← mul_assoc e E, heE]; ring
    have h3 : e * (2 * x * (1 / 10 ^ 45)) ≤ 2 * x * (1 / 10 ^ 45) := by
      have : 0 ≤ 2 * x * (1 / 10 ^ 45) := by positivity
      nlinarith
    -- δ·D ≥ δ·(1 − 1e-40)
    have h2 : δ * (1 - 1 / 10 ^ 40) ≤ δ * D := by
      apply mul_le_mul_of_nonneg_left _ hδ0
      have : (1 : ℝ) * (1 - 1 / 10 ^ 40) ≤ E * (1 - 1 / 10 ^ 40) := mul_le_mul_of_nonneg_right hEge1 (by norm_num)
      linarith
    have h7 : 2 * x * (1 / 10 ^ 45) + 304 / 10 ^ 58 ≤ δ * (1 - 1 / 10 ^ 40) := by
      rw [hδ]
      have a1 : 2 * x * (1 / 10 ^ 45) ≤ x * (2001 / 10 ^ 48) * (1 - 1 / 10 ^ 40) := by
        have : 2 * x * (1 / 10 ^ 45) = x * (2 / 10 ^ 45) := by ring
        rw [this, mul_assoc]
        exact mul_le_mul_of_nonneg_left (by norm_num) hx0.le
      have a2 : (304 : ℝ) / 10 ^ 58 ≤ 305 / 10 ^ 58 * (1 - 1 / 10 ^ 40) := by norm_num
      have : (x * (2001 / 10 ^ 48) + 305 / 10 ^ 58) * (1 - 1 / 10 ^ 40)
          = x * (2001 / 10 ^ 48) * (1 - 1 / 10 ^ 40) + 305 / 10 ^ 58 * (1 - 1 / 10 ^ 40) := by ring
      linarith
    have : (e + δ) * D = e * D + δ * D := by ring
    linarith
  have hrup : r ≤ e + δ := le_trans hr2 hinv
  have hrlo : e - 1 / 10 ^ 56 ≤ r := by
    have h1 : e ≤ 1 / D := one_div_le_one_div_of_le hD0 hDE
    have h2 : e * (1 - 1 / 10 ^ 56) ≤ 1 / D * (1 - 1 / 10 ^ 56) := mul_le_mul_of_nonneg_right h1 (by norm_num)
    nlinarith
  have hδx : δ < x / 4 := by
    rw [hδ]
    have h1 : (305 : ℝ) / 10 ^ 58 < 2 / 10 ^ 21 / 8 := by norm_num
    have h2 : x * (2001 / 10 ^ 48) ≤ x * (1 / 8) := mul_le_mul_of_nonneg_left (by norm_num) hx0.le
    linarith
  refine ⟨by linarith, fun hres => ?_⟩
  have habs := abs_lt.1 hres
  have h56 : (1 : ℝ) / 10 ^ 56 ≤ 305 / 10 ^ 58 := by norm_num
  have hle : |res - (1 - e)| ≤ 1 / 10 ^ 57 + δ := by
    have hδ56 : (1 : ℝ) / 10 ^ 56 ≤ δ := by
      rw [hδ]; have : 0 ≤ x * (2001 / 10 ^ 48) := by positivity
      linarith
    rw [abs_le]; constructor <;> linarith [habs.1, habs.2]
  have hfin : (1 / 10 ^ 57 + δ) * (3 * 10 ^ 34) ≤ x / 2 := by
    rw [hδ]
    have e1 : (1 / 10 ^ 57 + (x * (2001 / 10 ^ 48) + 305 / 10 ^ 58)) * (3 * 10 ^ 34)
        = x * (6003 / 10 ^ 14) + 945 / 10 ^ 24 := by ring
    rw [e1]
    have h1 : (945 : ℝ) / 10 ^ 24 ≤ 2 / 10 ^ 21 * (4725 / 10000) := by norm_num
    have h2 : x * (6003 / 10 ^ 14) ≤ x * (1 / 100) := mul_le_mul_of_nonneg_left (by norm_num) hx0.le
    have h3 : 2 / 10 ^ 21 * (4725 / 10000) ≤ x * (4725 / 10000) := mul_le_mul_of_nonneg_right hx20 (by norm_num)
    linarith
  calc |res - (1 - e)| * (3 * 10 ^ 34) ≤ (1 / 10 ^ 57 + δ) * (3 * 10 ^ 34) :=
        mul_le_mul_of_nonneg_right hle (by norm_num)
    _ ≤ x / 2 := hfin
    _ ≤ 1 - e := hx2

/-- a working value below 1 has a negative exponent -/
theorem exp_neg_of_lt_one (r : decomposed192) (hs : 1 ≤ r.sig.toNat) (h : val r < 1) : r.exp.toInt < 0 := by
  by_contra hc
  have h1 := val_ge_pow r hs
  have h2 : (1 : ℚ) ≤ (10 : ℚ) ^ r.exp.toInt := one_le_zpow₀ (by norm_num) (by omega)
  linarith

/-- **negative argument, `2·10^-21 ≤ |x| < 1`** -/
theorem m1_neg_small {arg : decomposed192} {x : ℚ} {o : Int16} {m : decomposed192} {tm : Int8}
    (h : M1In arg x o m tm) (ho : o = 0) (hx20 : 2 / 10 ^ 21 ≤ x) :
    ∃ z, epowm1Tail true o m tm = .ok z ∧ M1Facts true ((val arg : ℚ) : ℝ) z := by
  have hd : ¬ m.exp > 6169 := by
    rw [gt_iff_lt, Int16.lt_iff_toInt_lt]
    have h6 : (6169 : Int16).toInt = 6169 := by decide
    have := h.hme1; omega
  have hav : val arg = x := by
    rw [← h.hxa, ho]; simp [i16_zero_toInt]
  obtain ⟨a, ea, ha⟩ := add1_q3 m tm
  obtain ⟨-, -, y3, yt, -, ye0, ye1⟩ := a_horner h a ha
  obtain ⟨⟨a1, a2, -, -, -⟩, -⟩ := ha
  have hasig : a.1.sig.toNat ≠ 0 := by
    have := sig_pos_of_val_pos a.1 (by linarith); omega
  obtain ⟨r, t', d', hr, hd0, hd1, hd2, -, c1, c2, c3, c4, c5, c6, c7, c8⟩ :=
    rcp_contract a.1 a.2 hasig ⟨by omega, by omega⟩
  have hlow : (1 / d') * (1 - theta) ≤ val r :=
    lower_of_sig r (1 / d') theta LIM (by unfold LIM; norm_num) theta_pos theta_LIM c1 c2 c5
  obtain ⟨neg, res, t'', hs, hneg, hlo, hup, hcl, herr, hexp⟩ := sub1_contract r t'
  have htail : epowm1Tail true o m tm = .ok (neg, res, t'') := by
    rw [epowm1Tail_def, if_neg hd, if_pos ho]
    simp only [if_true]
    rw [ea, RK.ok_bind, hr, RK.ok_bind, hs]
  refine ⟨(neg, res, t''), htail, ?_⟩
  -- the real core
  obtain ⟨m1, m2, -⟩ := m_real h
  have hxr0 : (0 : ℝ) < (x : ℝ) := by exact_mod_cast h.hx0
  have hxr1 : (x : ℝ) ≤ 1 := by exact_mod_cast h.hx1
  have hxr20 : (2 : ℝ) / 10 ^ 21 ≤ (x : ℝ) := by
    have : (((2 / 10 ^ 21 : ℚ)) : ℝ) ≤ (x : ℝ) := Rat.cast_le.2 hx20
    push_cast at this; exact this
  have hU1 : (((val m : ℚ) : ℝ) + 1) * (1 - 1 / 10 ^ 56) ≤ ((val a.1 : ℚ) : ℝ) := by
    have : (((val m + 1) * (1 - theta) : ℚ) : ℝ) ≤ ((val a.1 : ℚ) : ℝ) := Rat.cast_le.2 a2
    push_cast at this; rw [theta_real] at this; exact this
  have hU2 : ((val a.1 : ℚ) : ℝ) ≤ ((val m : ℚ) : ℝ) + 1 := by
    have : ((val a.1 : ℚ) : ℝ) ≤ ((val m + 1 : ℚ) : ℝ) := Rat.cast_le.2 a1
    push_cast at this; exact this
  have hD0 : (0 : ℝ) < (d' : ℝ) := by exact_mod_cast hd0
  have hD1 : (d' : ℝ) ≤ ((val a.1 : ℚ) : ℝ) := Rat.cast_le.2 hd1
  have hD2 : ((val a.1 : ℚ) : ℝ) ≤ (d' : ℝ) * (1 + 1 / 2 ^ 185) := by
    have : ((val a.1 : ℚ) : ℝ) ≤ ((d' * (1 + 1 / 2 ^ 185) : ℚ) : ℝ) := Rat.cast_le.2 hd2
    push_cast at this; exact this
  have hr1 : 1 / (d' : ℝ) * (1 - 1 / 10 ^ 56) ≤ ((val r : ℚ) : ℝ) := by
    have : (((1 / d') * (1 - theta) : ℚ) : ℝ) ≤ ((val r : ℚ) : ℝ) := Rat.cast_le.2 hlow
    push_cast at this; rw [theta_real] at this; exact this
  have hr2 : ((val r : ℚ) : ℝ) ≤ 1 / (d' : ℝ) := by
    have : ((val r : ℚ) : ℝ) ≤ ((1 / d' : ℚ) : ℝ) := Rat.cast_le.2 c1
    push_cast at this; exact this
  obtain ⟨hrlt, hnear⟩ := n0_real (x : ℝ) (Real.exp (x : ℝ)) ((val m : ℚ) : ℝ) ((val a.1 : ℚ) : ℝ) (d' : ℝ)
    ((val r : ℚ) : ℝ) ((val res : ℚ) : ℝ) hxr0 hxr1 hxr20 rfl m1 m2 hU1 hU2 hD0 hD1 hD2 hr1 hr2
  have hrltq : val r < 1 := by exact_mod_cast hrlt
  have hnegt : neg = true := hneg.2 hrltq
  have habs : |val r - 1| = 1 - val r := by rw [abs_of_neg (by linarith)]; ring
  have hflag : t' = 0 ∨ t' = 1 := by
    by_cases hc : val r = 1 / d' ∧ d' = val a.1
    · rw [c3 hc]; exact yt
    · right; exact c4 hc
  have hflag' := sub1_flag hflag hcl
  rw [habs] at hlo hup herr
  have herr' : |(1 - ((val r : ℚ) : ℝ)) - ((val res : ℚ) : ℝ)| < 1 / 10 ^ 57 := by
    rcases herr with h' | ⟨h1, h2⟩
    · have : (((|1 - val r - val res| : ℚ)) : ℝ) < (((10 : ℚ) ^ (-57 : Int) : ℚ) : ℝ) := Rat.cast_lt.2 h'
      push_cast at this
      have e : (10 : ℝ) ^ (-57 : Int) = 1 / 10 ^ 57 := by rw [zpow_neg, one_div]; norm_cast
      rw [e] at this; exact this
    · exfalso
      have hv0 := val_nonneg r
      have : val res ≤ 2 := by linarith
      have h57 : (2 : ℚ) < (10 : ℚ) ^ 57 := by norm_num
      linarith
  have hN := hnear herr'
  -- the target
  set T : ℝ := 1 - 1 / Real.exp (x : ℝ) with hT
  have hT0 : 0 < T := by
    have : 1 / Real.exp (x : ℝ) < 1 := by
      rw [div_lt_one (Real.exp_pos _)]; exact Real.one_lt_exp_iff.2 hxr0
    linarith
  have htarget : |Real.exp (if true then -((val arg : ℚ) : ℝ) else ((val arg : ℚ) : ℝ)) - 1| = T := by
    simp only [if_true]
    rw [hav, Real.exp_neg, ← one_div, abs_of_neg (by linarith)]; ring
  have hrespos : (0 : ℝ) < ((val res : ℚ) : ℝ) := by
    have h1 := (abs_le.1 (le_of_mul_le_mul_right (by
      calc |((val res : ℚ) : ℝ) - T| * (3 * 10 ^ 34) ≤ T := hN
        _ = T / (3 * 10 ^ 34) * (3 * 10 ^ 34) := by field_simp) (by norm_num : (0 : ℝ) < 3 * 10 ^ 34))).1
    have : T / (3 * 10 ^ 34) ≤ T / 2 := div_le_div_of_nonneg_left hT0.le (by norm_num) (by norm_num)
    linarith
  have hs1 : 1 ≤ res.sig.toNat := sig_pos_of_val_pos res (by exact_mod_cast hrespos)
  have hrexp : r.exp.toInt < 0 := exp_neg_of_lt_one r c6 hrltq
  have hresexp : -57 ≤ res.exp.toInt ∧ res.exp.toInt ≤ 58 := by
    rcases hexp with ⟨-, h58⟩ | h'
    · omega
    · exact h'
  right
  refine ⟨by show res.exp.toInt ≤ 6169; omega, hnegt, hs1, by show -20000 ≤ res.exp.toInt; omega, hflag',
    fun _ => by show -6176 ≤ res.exp.toInt; omega, ?_⟩
  rw [htarget]
  exact hN

theorem one_sig : D192.one.sig.toNat = 1 := by decide

/-- the value `1` for a target `1 − e^-A` with `e^A ≥ 10^40` -/
theorem near_one {A : ℝ} (h : (10 : ℝ) ^ (40 : ℕ) ≤ Real.exp A) :
    Near (val D192.one) |Real.exp (-A) - 1| := by
  have hE0 : 0 < Real.exp A := Real.exp_pos _
  have hinv : Real.exp (-A) ≤ 1 / (10 : ℝ) ^ (40 : ℕ) := by
    rw [Real.exp_neg, ← one_div]; exact one_div_le_one_div_of_le (by positivity) h
  have hpos : 0 < Real.exp (-A) := Real.exp_pos _
  set u : ℝ := Real.exp (-A)
  clear_value u
  have h40 : (1 : ℝ) / 10 ^ 40 < 1 / 2 := by norm_num
  have hu1 : u - 1 < 0 := by linarith
  unfold Near
  rw [val_one, abs_of_neg hu1]
  push_cast
  rw [show (1 : ℝ) - -(u - 1) = u by ring, abs_of_pos hpos]
  have : u * (3 * 10 ^ 34) ≤ 1 / 10 ^ 40 * (3 * 10 ^ 34) := mul_le_mul_of_nonneg_right hinv (by norm_num)
  have h2 : (1 : ℝ) / 10 ^ 40 * (3 * 10 ^ 34) ≤ 1 / 2 := by norm_num
  linarith

/-- **negative argument with `|x| ≥ 1`** -/
theorem m1_neg_big {arg : decomposed192} {x : ℚ} {o : Int16} {m : decomposed192} {tm : Int8}
    (h : M1In arg x o m tm) (ho : o ≠ 0) :
    ∃ z, epowm1Tail true o m tm = .ok z ∧ M1Facts true ((val arg : ℚ) : ℝ) z := by
  have hd : ¬ m.exp > 6169 := by
    rw [gt_iff_lt, Int16.lt_iff_toInt_lt]
    have h6 : (6169 : Int16).toInt = 6169 := by decide
    have := h.hme1; omega
  obtain ⟨a, ea, ha⟩ := add1_q3 m tm
  obtain ⟨y1, y2, y3, yt, ysz, -, -⟩ := a_horner h a ha
  obtain ⟨p, ep, hp⟩ := pow_stage arg x o a.1 a.2 h.hx0 h.hx1 h.ho0 h.ho7 h.hxa h.hx10 y1 y2 y3 yt ysz
  have hx10 := h.hx10.resolve_left ho
  have hopos : 1 ≤ o.toInt := by
    by_contra hcon
    apply ho; apply Int16.toInt_inj.1; rw [i16_zero_toInt]; have := h.ho0; omega
  have hA1 : (1 : ℝ) ≤ ((val arg : ℚ) : ℝ) := by
    have h10 : (10 : ℚ) ≤ (10 : ℚ) ^ (o.toInt.toNat) := by
      calc (10 : ℚ) = 10 ^ 1 := by norm_num
        _ ≤ 10 ^ o.toInt.toNat := pow_le_pow_right₀ (by norm_num) (by omega)
    have : (1 : ℚ) ≤ val arg := by
      rw [← h.hxa]
      calc (1 : ℚ) = 1 / 10 * 10 := by norm_num
        _ ≤ x * (10 : ℚ) ^ (o.toInt.toNat) := mul_le_mul hx10 h10 (by norm_num) h.hx0.le
    exact_mod_cast this
  set A : ℝ := ((val arg : ℚ) : ℝ) with hA
  have hE2 : (2 : ℝ) ≤ Real.exp A := by have := Real.add_one_le_exp A; linarith
  have hE0 : 0 < Real.exp A := by linarith
  have htail : epowm1Tail true o m tm = (decomposed192.rcp p.1 p.2 >>= fun r => decomposed192.sub1 r.1 r.2) := by
    rw [epowm1Tail_def, if_neg hd, if_neg ho, ea]
    simp only [RK.ok_bind]
    rw [ep]
    simp only [RK.ok_bind, if_true]
  rw [htail]
  -- the garbage/huge cases: the reciprocal has an exponent below -116 or above 6169
  have hgarb : ∀ (r : decomposed192) (t' : Int8), decomposed192.rcp p.1 p.2 = .ok (r, t') → 0 < r.sig.toNat →
      (r.exp.toInt < -116 ∨ 6169 < r.exp.toInt) → (10 : ℝ) ^ (6200 : ℕ) ≤ Real.exp A →
      ∃ z, (decomposed192.rcp p.1 p.2 >>= fun r => decomposed192.sub1 r.1 r.2) = .ok z ∧ M1Facts true A z := by
    intro r t' hr hrs hre hbig
    rw [hr, RK.ok_bind]
    rcases hre with hlt | hgt
    · refine ⟨(true, D192.one, 1), (sub1_tiny r t' hrs hlt).1, Or.inr ⟨?_, rfl, ?_, ?_, Or.inr (Or.inl rfl), ?_, ?_⟩⟩
      · show D192.one.exp.toInt ≤ 6169; rw [one_exp]; norm_num
      · show 1 ≤ D192.one.sig.toNat; rw [one_sig]
      · show -20000 ≤ D192.one.exp.toInt; rw [one_exp]; norm_num
      · intro h'; exact absurd h' (by decide)
      · simp only [if_true]
        exact near_one (le_trans (pow_le_pow_right₀ (by norm_num) (by norm_num)) hbig)
    · exact ⟨(false, r, 1), sub1_huge r t' hrs (by omega), Or.inl ⟨hgt, hbig⟩⟩
  rcases hp with ⟨hdinf, hhuge⟩ | ⟨hflag, hv1, hv2, hv3, hsz, hone⟩
  · -- overflow marker
    obtain ⟨r, t', hr, hre, hrs⟩ := rcp_dinf p.2
    rw [← hdinf] at hr
    exact hgarb r t' hr hrs (Or.inr hre) (le_trans (pow_le_pow_right₀ (by norm_num) (by norm_num)) hhuge)
  · have hppos : (0 : ℝ) < ((val p.1 : ℚ) : ℝ) := by nlinarith
    have hps1 : 1 ≤ p.1.sig.toNat := sig_pos_of_val_pos p.1 (by exact_mod_cast hppos)
    by_cases hpbig : 16000 < p.1.exp.toInt
    · -- operand of `rcp` with a huge exponent
      obtain ⟨r, t', hr, hrs, hre⟩ := rcp_bigexp p.1 p.2 (by omega) hpbig
      refine hgarb r t' hr hrs hre ?_
      have h1 := val_ge_pow p.1 hps1
      have h2 : (10 : ℚ) ^ (6200 : ℕ) ≤ (10 : ℚ) ^ p.1.exp.toInt := by
        rw [← zpow_natCast]; exact zpow_le_zpow_right₀ (by norm_num) (by push_cast; omega)
      have : (((10 : ℚ) ^ (6200 : ℕ) : ℚ) : ℝ) ≤ ((val p.1 : ℚ) : ℝ) := Rat.cast_le.2 (le_trans h2 h1)
      rw [Rat.cast_pow] at this
      exact le_trans (by exact_mod_cast this) hv2
    · -- the regular case
      have hpe0 : -58 ≤ p.1.exp.toInt := exp_ge_of_val p.1 hv3
      obtain ⟨r, t', hr, hnear, hrs, hre0, hre1, hrt⟩ := rcp_near p.1 p.2 (Real.exp A) hE0
        (by nlinarith) (by nlinarith) (by omega) (by omega)
      rw [hr, RK.ok_bind]
      obtain ⟨neg, res, t'', hs, hneg, hlo, hup, hcl, herr, hexp⟩ := sub1_contract r t'
      refine ⟨(neg, res, t''), hs, ?_⟩
      -- val r < 1
      obtain ⟨n1, n2, n3⟩ := hnear.bounds (by positivity)
      set e : ℝ := 1 / Real.exp A with he
      have he0 : 0 < e := by positivity
      have heh : e ≤ 1 / 2 := by rw [he]; exact one_div_le_one_div_of_le (by norm_num) hE2
      have hn1 := abs_le.1 n1
      have hdiv : e / (3 * 10 ^ 34) ≤ e := div_le_self he0.le (by norm_num)
      have hrlt : ((val r : ℚ) : ℝ) < 1 := by linarith [hn1.2]
      have hrltq : val r < 1 := by exact_mod_cast hrlt
      have hnegt : neg = true := hneg.2 hrltq
      have habs : |val r - 1| = 1 - val r := by rw [abs_of_neg (by linarith)]; ring
      have hflag' := sub1_flag (show t' = 0 ∨ t' = 1 from by
        rcases hrt with h' | h'
        · rw [h']; exact hflag
        · right; exact h') hcl
      rw [habs] at hlo hup herr
      have herr' : |(1 - ((val r : ℚ) : ℝ)) - ((val res : ℚ) : ℝ)| < 1 / 10 ^ 57 := by
        rcases herr with h' | ⟨h1, h2⟩
        · have : (((|1 - val r - val res| : ℚ)) : ℝ) < (((10 : ℚ) ^ (-57 : Int) : ℚ) : ℝ) := Rat.cast_lt.2 h'
          push_cast at this
          have e' : (10 : ℝ) ^ (-57 : Int) = 1 / 10 ^ 57 := by rw [zpow_neg, one_div]; norm_cast
          rw [e'] at this; exact this
        · exfalso
          have hv0 := val_nonneg r
          have : val res ≤ 2 := by linarith
          have h57 : (2 : ℚ) < (10 : ℚ) ^ 57 := by norm_num
          linarith
      have habs' := abs_lt.1 herr'
      -- the target 1 − e
      have htarget : |Real.exp (if true then -A else A) - 1| = 1 - e := by
        simp only [if_true]
        rw [Real.exp_neg, ← one_div, abs_of_neg (by linarith)]; ring
      have hN : Near (val res) (1 - e) := by
        unfold Near
        have hle : |((val res : ℚ) : ℝ) - (1 - e)| ≤ 1 / 10 ^ 57 + e / (3 * 10 ^ 34) := by
          rw [abs_le]; constructor <;> linarith [habs'.1, habs'.2, hn1.1, hn1.2]
        have h3 : (1 / 10 ^ 57 + e / (3 * 10 ^ 34)) * (3 * 10 ^ 34) = 3 / 10 ^ 23 + e := by
          field_simp
        calc |((val res : ℚ) : ℝ) - (1 - e)| * (3 * 10 ^ 34)
            ≤ (1 / 10 ^ 57 + e / (3 * 10 ^ 34)) * (3 * 10 ^ 34) := mul_le_mul_of_nonneg_right hle (by norm_num)
          _ = 3 / 10 ^ 23 + e := h3
          _ ≤ 1 - e := by
              have : (3 : ℝ) / 10 ^ 23 ≤ 1 / 100 := by norm_num
              have hE3 : e ≤ 1 / 2 := heh
              -- e ≤ 1/e < 0.37; use e ≤ 1/2 is not enough: need 2e + 3e-23 ≤ 1
              have hEe : (5 / 2 : ℝ) ≤ Real.exp A := by
                have h1 : Real.exp 1 ≤ Real.exp A := Real.exp_le_exp.2 hA1
                have := Real.exp_one_gt_d9
                linarith
              have : e ≤ 2 / 5 := by
                rw [he]; rw [div_le_div_iff₀ hE0 (by norm_num)]; linarith
              linarith
      have hrespos : (0 : ℝ) < ((val res : ℚ) : ℝ) := by linarith [habs'.2, hn1.2]
      have hs1 : 1 ≤ res.sig.toNat := sig_pos_of_val_pos res (by exact_mod_cast hrespos)
      have hrexp : r.exp.toInt < 0 := exp_neg_of_lt_one r hrs hrltq
      have hresexp : -57 ≤ res.exp.toInt ∧ res.exp.toInt ≤ 58 := by
        rcases hexp with ⟨-, h58⟩ | h'
        · omega
        · exact h'
      right
      refine ⟨by show res.exp.toInt ≤ 6169; omega, hnegt, hs1, by show -20000 ≤ res.exp.toInt; omega, hflag',
        fun _ => by show -6176 ≤ res.exp.toInt; omega, ?_⟩
      rw [htarget]
      exact hN

end ExpAcc
