/-
  D128.Proofs.TotalD192Elem — totality (termination, no panic) of the composite working-format
  routines `decomposed192.epow`, `epowm1`, `log`, `log1p` (C20), relative to `DivSpec`
  (correctness of `Gen.U192.div`, see `TotalD192Quo`).

  * `d192_epow_triple`   : `DivSpec → ⦃d.sig ≠ 0⦄ epow d l10 t ⦃r => r.1.sig ≠ 0 ∧ (r.2 = t ∨ r.2 = 1)⦄`
  * `d192_epowm1_triple` : `DivSpec → ⦃d.sig ≠ 0⦄ epowm1 d neg l10 t
                              ⦃r => r.2.1.sig ≠ 0 ∨ r.2.2 = t ∨ r.2.2 = 1 ∨ r.2.2 = 0⦄`
  * `d192_log_triple`    : `DivSpec → ⦃d.sig ≠ 0⦄ log d ⦃_ => True⦄`
  * `d192_log1p_triple`  : `DivSpec → ⦃True⦄ log1p d neg ⦃_ => True⦄`
  The preconditions are necessary: with `d.sig = 0` the normalising loops
  `for d.sig[2] <= … { d.sig = d.sig.mul64(10000) … }` of `epow`, `epowm1` and `log` never exit.
  In `log` the table index `ln[msd-11]` is in range because `msd2` returns at most 99, and the
  divisor `msd` of the first reduction is non-zero because the argument is.
-/
import D128.Proofs.TotalD192Quo
import D128.Proofs.TotalD192Mul
import D128.Proofs.TotalD192Add
import D128.Proofs.TotalD192Add1
set_option autoImplicit false
set_option mvcgen.warning false
set_option exponentiation.threshold 512
set_option maxRecDepth 16384
namespace D128.Proofs.Total
open Std.Do
open D128.Proofs.WordsWide

theorem d192_epow_triple (hdiv : DivSpec) (d : Gen.decomposed192) (l10 : Int16) (trunc : Int8) :
    ⦃⌜d.sig.toNat ≠ 0⌝⦄ Gen.decomposed192.epow d l10 trunc
    ⦃⇓ r => ⌜r.1.sig.toNat ≠ 0 ∧ (r.2 = trunc ∨ r.2 = 1)⌝⦄ := by
  have hq := d192_quo_triple hdiv
  mvcgen -trivial [Gen.decomposed192.epow, hq]
  case inv1 | inv3 | inv7 | inv9 => exact fun st => ⟨2^192 - st.sig.toNat⟩
  case inv2 | inv4 | inv8 | inv10 => exact ⇓ x => match x with
    | .inl st => ⌜st.sig.toNat ≠ 0⌝
    | .inr st => ⌜st.sig.toNat ≠ 0⌝
  case inv5 | inv11 => exact fun st => ⟨st.2.2.toNat⟩
  case inv6 | inv12 => exact ⇓ x => match x with
    | .inl st => ⌜st.1 = trunc ∨ st.1 = 1⌝
    | .inr st => ⌜st.1 = trunc ∨ st.1 = 1⌝
  all_goals (simp +zetaDelta at *)
  all_goals d192_prep
  all_goals d192_fin

theorem d192_epowm1_triple (hdiv : DivSpec) (d : Gen.decomposed192) (neg : Bool) (l10 : Int16)
    (trunc : Int8) :
    ⦃⌜d.sig.toNat ≠ 0⌝⦄ Gen.decomposed192.epowm1 d neg l10 trunc
    ⦃⇓ r => ⌜r.2.1.sig.toNat ≠ 0 ∨ r.2.2 = trunc ∨ r.2.2 = 1 ∨ r.2.2 = 0⌝⦄ := by
  have hq := d192_quo_triple hdiv
  have hr := d192_rcp_triple hdiv
  mvcgen -trivial [Gen.decomposed192.epowm1, hq, hr]
  case inv1 | inv3 | inv7 | inv9 => exact fun st => ⟨2^192 - st.sig.toNat⟩
  case inv2 | inv4 | inv8 | inv10 => exact ⇓ x => match x with
    | .inl st => ⌜st.sig.toNat ≠ 0⌝
    | .inr st => ⌜st.sig.toNat ≠ 0⌝
  case inv5 | inv11 => exact fun st => ⟨st.2.2.toNat⟩
  case inv6 | inv12 => exact ⇓ x => match x with
    | .inl st => ⌜st.1 = trunc ∨ st.1 = 1⌝
    | .inr st => ⌜st.1 = trunc ∨ st.1 = 1⌝
  all_goals (simp +zetaDelta at *)
  all_goals d192_prep
  all_goals d192_fin

set_option maxHeartbeats 1000000 in
theorem d192_log_triple (hdiv : DivSpec) (d : Gen.decomposed192) :
    ⦃⌜d.sig.toNat ≠ 0⌝⦄ Gen.decomposed192.log d
    ⦃⇓ _ => ⌜True⌝⦄ := by
  have hq := d192_quo_triple hdiv
  have hv := @vget_any_triple U192 89 Gen.ln
  mvcgen -trivial [Gen.decomposed192.log, hq, hv]
  case inv1 | inv3 | inv5 => exact fun st => ⟨2^192 - st.sig.toNat⟩
  case inv2 | inv4 | inv6 => exact ⇓ x => match x with
    | .inl st => ⌜st.sig.toNat ≠ 0⌝
    | .inr st => ⌜st.sig.toNat ≠ 0⌝
  case inv7 | inv9 | inv11 | inv13 => exact fun st => ⟨40 - st.2.2.2.toNat⟩
  case inv8 | inv10 | inv12 | inv14 => exact ⇓ x => match x with
    | .inl st => ⌜3 ≤ st.2.2.2.toNat ∧ st.2.2.2.toNat ≤ 35⌝
    | .inr st => ⌜3 ≤ st.2.2.2.toNat ∧ st.2.2.2.toNat ≤ 35⌝
  all_goals (simp +zetaDelta at *)
  all_goals d192_prep
  all_goals d192_fin

theorem d192_log1p_triple (hdiv : DivSpec) (d : Gen.decomposed192) (neg : Bool) :
    ⦃⌜True⌝⦄ Gen.decomposed192.log1p d neg
    ⦃⇓ _ => ⌜True⌝⦄ := by
  have hq := d192_quo_triple hdiv
  mvcgen -trivial [Gen.decomposed192.log1p, hq]
  case inv1 => exact fun st => ⟨30 - st.2.2.2.toNat⟩
  case inv2 => exact ⇓ x => match x with
    | .inl st => ⌜2 ≤ st.2.2.2.toNat ∧ st.2.2.2.toNat ≤ 11⌝
    | .inr st => ⌜2 ≤ st.2.2.2.toNat ∧ st.2.2.2.toNat ≤ 11⌝
  all_goals (simp +zetaDelta at *)
  all_goals d192_prep
  all_goals d192_fin

end D128.Proofs.Total
